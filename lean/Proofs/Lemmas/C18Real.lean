import Proofs.Lemmas.C18
import Mathlib.Analysis.SpecialFunctions.Integrals.Basic
import Mathlib.Analysis.SpecialFunctions.Sqrt
import Mathlib.Analysis.Calculus.Deriv.Pow
import Mathlib.Analysis.Calculus.Deriv.Inv
import Mathlib.Tactic.LinearCombination
/-! Helper lemmas for `Proofs/C18.lean`, real-analysis part: the integral of a product of three polynomials in the
    power basis, the laws of `Scalar.sqrt`/`Scalar.hypot` over ℝ (`C18RealLaws`) and a `Scalar ℝ` instance meeting
    them. -/
set_option linter.unusedSectionVars false
namespace Kurbo
open Finset intervalIntegral

/-! ### `∫ (Σ aᵢ tⁱ)(Σ bⱼ tʲ)(Σ dₖ tᵏ)` -/

theorem c18_integral_monomial (C u v : ℝ) (n : ℕ) :
    ∫ t in u..v, C * t ^ n = C * v ^ (n + 1) / ((n : ℝ) + 1) - C * u ^ (n + 1) / ((n : ℝ) + 1) := by
  rw [integral_const_mul, integral_pow]
  ring

theorem c18_integral_prod (a b d : ℕ → ℝ) (u v : ℝ) :
    ∫ t in u..v, c18_poly a 4 t * c18_poly b 4 t * c18_poly d 3 t = c18_F a b d v - c18_F a b d u := by
  have h : ∀ t : ℝ, c18_poly a 4 t * c18_poly b 4 t * c18_poly d 3 t
      = ∑ i ∈ range 4, ∑ j ∈ range 4, ∑ k ∈ range 3, (a i * b j * d k) * t ^ (i + j + k) := by
    intro t
    simp only [c18_poly, sum_range_succ, sum_range_zero]
    ring
  simp_rw [h]
  simp only [c18_F, ← sum_sub_distrib]
  rw [integral_finsetSum (fun i _ => by apply Continuous.intervalIntegrable; fun_prop)]
  refine sum_congr rfl fun i _ => ?_
  rw [integral_finsetSum (fun i _ => by apply Continuous.intervalIntegrable; fun_prop)]
  refine sum_congr rfl fun j _ => ?_
  rw [integral_finsetSum (fun i _ => by apply Continuous.intervalIntegrable; fun_prop)]
  refine sum_congr rfl fun k _ => ?_
  rw [c18_integral_monomial]

/-- the three integrals of the documentation over any parameter range `[u,v]` are differences of the antiderivatives -/
theorem c18_integrals_eq_prim [Scalar ℝ] [LawfulScalar ℝ] (c : CubicBez ℝ) (u v : ℝ) :
    ((∫ t in u..v, (c.eval t).y * (c.deriv.eval t).x),
     (∫ t in u..v, (c.eval t).x * (c.eval t).y * (c.deriv.eval t).x),
     (∫ t in u..v, (c.eval t).y ^ 2 * (c.deriv.eval t).x)) = c18_momentPrim c v - c18_momentPrim c u := by
  simp only [c18_momentPrim, Prod.mk_sub_mk, ← c18_integral_prod]
  refine Prod.ext ?_ (Prod.ext ?_ ?_)
  all_goals
    apply integral_congr
    intro t _
    simp only [c18_eval_x, c18_eval_y, c18_deriv_x, c18_one_poly]
    try ring

/-- the three line integrals along a straight segment (`Line.eval`, constant velocity `p1 − p0`) -/
theorem c18_line_integrals [Scalar ℝ] [LawfulScalar ℝ] (l : Line ℝ) :
    ((∫ t in (0:ℝ)..1, (l.eval t).y * (l.p1.x - l.p0.x)),
     (∫ t in (0:ℝ)..1, (l.eval t).x * (l.eval t).y * (l.p1.x - l.p0.x)),
     (∫ t in (0:ℝ)..1, (l.eval t).y ^ 2 * (l.p1.x - l.p0.x))) =
      ((l.p1.x - l.p0.x) * (l.p0.y + l.p1.y) / 2,
       (l.p1.x - l.p0.x) * (2 * l.p0.x * l.p0.y + l.p0.x * l.p1.y + l.p1.x * l.p0.y + 2 * l.p1.x * l.p1.y) / 6,
       (l.p1.x - l.p0.x) * (l.p0.y ^ 2 + l.p0.y * l.p1.y + l.p1.y ^ 2) / 3) := by
  have hx : ∀ t : ℝ, (l.eval t).x = c18_poly (c18_cf4 l.p0.x (l.p1.x - l.p0.x) 0 0) 4 t := by
    intro t; simp only [c18_poly, c18_cf4, sum_range_succ, sum_range_zero]; kring
  have hy : ∀ t : ℝ, (l.eval t).y = c18_poly (c18_cf4 l.p0.y (l.p1.y - l.p0.y) 0 0) 4 t := by
    intro t; simp only [c18_poly, c18_cf4, sum_range_succ, sum_range_zero]; kring
  have hd : ∀ t : ℝ, (l.p1.x - l.p0.x) = c18_poly (c18_cf4 (l.p1.x - l.p0.x) 0 0 0) 3 t := by
    intro t; simp only [c18_poly, c18_cf4, sum_range_succ, sum_range_zero]; ring
  have h1 := c18_integral_prod c18_one (c18_cf4 l.p0.y (l.p1.y - l.p0.y) 0 0) (c18_cf4 (l.p1.x - l.p0.x) 0 0 0) 0 1
  have h2 := c18_integral_prod (c18_cf4 l.p0.x (l.p1.x - l.p0.x) 0 0) (c18_cf4 l.p0.y (l.p1.y - l.p0.y) 0 0)
    (c18_cf4 (l.p1.x - l.p0.x) 0 0 0) 0 1
  have h3 := c18_integral_prod (c18_cf4 l.p0.y (l.p1.y - l.p0.y) 0 0) (c18_cf4 l.p0.y (l.p1.y - l.p0.y) 0 0)
    (c18_cf4 (l.p1.x - l.p0.x) 0 0 0) 0 1
  refine Prod.ext ?_ (Prod.ext ?_ ?_)
  · refine Eq.trans (integral_congr (g := fun t => c18_poly c18_one 4 t
        * c18_poly (c18_cf4 l.p0.y (l.p1.y - l.p0.y) 0 0) 4 t * c18_poly (c18_cf4 (l.p1.x - l.p0.x) 0 0 0) 3 t) ?_) ?_
    · intro t _; simp only [hy t, ← hd t, c18_one_poly]; ring
    · rw [h1]; simp only [c18_F, c18_one, c18_cf4, sum_range_succ, sum_range_zero]; push_cast; ring
  · refine Eq.trans (integral_congr (g := fun t => c18_poly (c18_cf4 l.p0.x (l.p1.x - l.p0.x) 0 0) 4 t
        * c18_poly (c18_cf4 l.p0.y (l.p1.y - l.p0.y) 0 0) 4 t * c18_poly (c18_cf4 (l.p1.x - l.p0.x) 0 0 0) 3 t) ?_) ?_
    · intro t _; simp only [hx t, hy t, ← hd t]
    · rw [h2]; simp only [c18_F, c18_cf4, sum_range_succ, sum_range_zero]; push_cast; ring
  · refine Eq.trans (integral_congr (g := fun t => c18_poly (c18_cf4 l.p0.y (l.p1.y - l.p0.y) 0 0) 4 t
        * c18_poly (c18_cf4 l.p0.y (l.p1.y - l.p0.y) 0 0) 4 t * c18_poly (c18_cf4 (l.p1.x - l.p0.x) 0 0 0) 3 t) ?_) ?_
    · intro t _; simp only [hy t, ← hd t]; ring
    · rw [h3]; simp only [c18_F, c18_cf4, sum_range_succ, sum_range_zero]; push_cast; ring

theorem c18_raise_deriv_eval [Scalar ℝ] [LawfulScalar ℝ] (q : QuadBez ℝ) (t : ℝ) :
    q.raise.deriv.eval t = q.deriv.eval t := by kring

end Kurbo

/-! ### the irrational `Scalar` fields used by `offset.rs` over ℝ -/
namespace Kurbo

/-- `Scalar.sqrt` is the real square root and `Scalar.hypot x y = √(x² + y²)` -/
class C18RealLaws [Scalar ℝ] : Prop where
  sqrt_eq : ∀ x : ℝ, Scalar.sqrt x = Real.sqrt x
  hypot_eq : ∀ x y : ℝ, Scalar.hypot x y = Real.sqrt (x ^ 2 + y ^ 2)

/-- ℝ with the Mathlib functions as a `Scalar` (fields that no C18 statement mentions are filled arbitrarily) -/
@[instance_reducible] noncomputable def c18_realScalar : Scalar ℝ where
  add := (· + ·); sub := (· - ·); mul := (· * ·); div := (· / ·); neg := (- ·)
  abs x := |x|
  lt a b := decide (a < b); le a b := decide (a ≤ b); beq a b := decide (a = b)
  ofRat r := (r : ℝ)
  floor x := (⌊x⌋ : ℝ); ceil x := (⌈x⌉ : ℝ)
  round a := if a < 0 then (⌈a - 1/2⌉ : ℝ) else (⌊a + 1/2⌋ : ℝ)
  trunc a := if a < 0 then (⌈a⌉ : ℝ) else (⌊a⌋ : ℝ)
  sqrt := Real.sqrt
  cbrt _ := 0
  sin _ := 0
  cos _ := 0
  tan _ := 0
  acos _ := 0
  atan2 _ _ := 0
  powf _ _ := 0
  ln _ := 0
  log2 _ := 0
  fma a b c := a * b + c
  hypot x y := Real.sqrt (x ^ 2 + y ^ 2)
  copysign a b := if b < 0 then -|a| else |a|
  fin _ := true
  finQuot den _ := decide (den ≠ 0)
  isNan _ := false
  toUSize x := ⌊x⌋₊
  signum x := if x < 0 then -1 else 1
  min a b := min a b
  max a b := max a b
  fmod _ _ := 0
  pi := 0

theorem c18_realScalar_lawful : @LawfulScalar ℝ _ _ _ _ c18_realScalar :=
  letI := c18_realScalar
  { add_eq := fun _ _ => rfl, sub_eq := fun _ _ => rfl, mul_eq := fun _ _ => rfl, div_eq := fun _ _ => rfl,
    neg_eq := fun _ => rfl, abs_eq := fun _ => rfl, lt_eq := fun _ _ => rfl, le_eq := fun _ _ => rfl,
    beq_eq := fun _ _ => rfl, ofRat_eq := fun _ => rfl, min_eq := fun _ _ => rfl, max_eq := fun _ _ => rfl,
    floor_eq := fun _ => rfl, ceil_eq := fun _ => rfl, trunc_eq := fun _ => rfl, round_eq := fun _ => rfl,
    copysign_eq := fun _ _ => rfl, signum_eq := fun _ => rfl, fin_eq := fun _ => rfl, finQuot_eq := fun _ _ => rfl,
    isNan_eq := fun _ => rfl, fma_eq := fun _ _ _ => rfl }

theorem c18_realScalar_laws : @C18RealLaws c18_realScalar :=
  letI := c18_realScalar
  { sqrt_eq := fun _ => rfl, hypot_eq := fun _ _ => rfl }

/-! ### `CubicOffset`: projections of `new` (no arithmetic law needed) -/
section structural
variable {K : Type} [Scalar K]
theorem c18_new_c (c : CubicBez K) (d : K) : (CubicOffset.new c d).c = c := rfl
theorem c18_new_q (c : CubicBez K) (d : K) : (CubicOffset.new c d).q = c.deriv := rfl
theorem c18_new_d (c : CubicBez K) (d : K) : (CubicOffset.new c d).d = d := rfl
end structural

section real
variable [Scalar ℝ] [LawfulScalar ℝ] [C18RealLaws]

/-- the offset vector in Mathlib arithmetic: `d · (−v.y, v.x) / |v|` with `v = c′(t)` -/
theorem c18_eval_offset_eq (c : CubicBez ℝ) (d t : ℝ) :
    (CubicOffset.new c d).eval_offset t
      = ⟨-(c.deriv.eval t).y * d * (1 / Real.sqrt ((c.deriv.eval t).x ^ 2 + (c.deriv.eval t).y ^ 2)),
         (c.deriv.eval t).x * d * (1 / Real.sqrt ((c.deriv.eval t).x ^ 2 + (c.deriv.eval t).y ^ 2))⟩ := by
  simp only [CubicOffset.eval_offset, c18_new_q, c18_new_d, Vec2.hypot, C18RealLaws.hypot_eq,
    vec2_div, vec2_mul, Vec2.new, Point.to_vec2, scalar_norm]

end real
end Kurbo

/-! ### plain real analysis: the derivative of `d·(−Y′, X′)/√(X′² + Y′²)` -/
namespace Kurbo

theorem c18_point_ne_zero {p : Point ℝ} (h : p ≠ ⟨0, 0⟩) : ¬ (p.x = 0 ∧ p.y = 0) := by
  rintro ⟨hx, hy⟩
  apply h
  cases p
  simp only at hx hy
  rw [hx, hy]

theorem c18_sqrt_pos {x y : ℝ} (h : ¬ (x = 0 ∧ y = 0)) : 0 < Real.sqrt (x ^ 2 + y ^ 2) := by
  apply Real.sqrt_pos.mpr
  by_contra hn
  have h0 : x ^ 2 + y ^ 2 = 0 := le_antisymm (not_lt.mp hn) (by positivity)
  have hx : x = 0 := by nlinarith [sq_nonneg x, sq_nonneg y]
  have hy : y = 0 := by nlinarith [sq_nonneg x, sq_nonneg y]
  exact h ⟨hx, hy⟩

theorem c18_sqrt_scale3 (a b : ℝ) : Real.sqrt ((3 * a) ^ 2 + (3 * b) ^ 2) = 3 * Real.sqrt (a ^ 2 + b ^ 2) := by
  have : (3 * a) ^ 2 + (3 * b) ^ 2 = 3 ^ 2 * (a ^ 2 + b ^ 2) := by ring
  rw [this, Real.sqrt_mul (by norm_num), Real.sqrt_sq (by norm_num)]

theorem c18_hasDerivAt_hyp {X' Y' : ℝ → ℝ} {x2 y2 t : ℝ}
    (hX : HasDerivAt X' x2 t) (hY : HasDerivAt Y' y2 t) (hne : ¬ (X' t = 0 ∧ Y' t = 0)) :
    HasDerivAt (fun u => Real.sqrt (X' u ^ 2 + Y' u ^ 2))
      ((X' t * x2 + Y' t * y2) / Real.sqrt (X' t ^ 2 + Y' t ^ 2)) t := by
  have hq : HasDerivAt (fun u => X' u ^ 2 + Y' u ^ 2) (2 * (X' t * x2 + Y' t * y2)) t := by
    have := (hX.fun_pow 2).fun_add (hY.fun_pow 2)
    refine this.congr_deriv ?_
    norm_num; ring
  have hpos := c18_sqrt_pos hne
  have hq0 : X' t ^ 2 + Y' t ^ 2 ≠ 0 := fun h0 => by rw [h0, Real.sqrt_zero] at hpos; exact lt_irrefl _ hpos
  refine (hq.sqrt hq0).congr_deriv ?_
  field_simp

theorem c18_hasDerivAt_offset_x {X' Y' : ℝ → ℝ} {x2 y2 t : ℝ} (d : ℝ)
    (hX : HasDerivAt X' x2 t) (hY : HasDerivAt Y' y2 t) (hne : ¬ (X' t = 0 ∧ Y' t = 0)) :
    HasDerivAt (fun u => -Y' u * d * (1 / Real.sqrt (X' u ^ 2 + Y' u ^ 2)))
      (d * (x2 * Y' t - y2 * X' t) / Real.sqrt (X' t ^ 2 + Y' t ^ 2) ^ 3 * X' t) t := by
  have hs := c18_hasDerivAt_hyp hX hY hne
  have hpos := c18_sqrt_pos hne
  have hss : Real.sqrt (X' t ^ 2 + Y' t ^ 2) ^ 2 = X' t ^ 2 + Y' t ^ 2 := Real.sq_sqrt (by positivity)
  have h1 : HasDerivAt (fun u => -Y' u * d) (-y2 * d) t := hY.fun_neg.mul_const d
  have h2 := h1.fun_div hs (ne_of_gt hpos)
  have h3 : (fun u => -Y' u * d * (1 / Real.sqrt (X' u ^ 2 + Y' u ^ 2)))
      = fun u => -Y' u * d / Real.sqrt (X' u ^ 2 + Y' u ^ 2) := by funext u; ring
  rw [h3]
  refine h2.congr_deriv ?_
  set s := Real.sqrt (X' t ^ 2 + Y' t ^ 2)
  have hne' : s ≠ 0 := ne_of_gt hpos
  field_simp
  linear_combination (-(d * y2)) * hss

theorem c18_hasDerivAt_offset_y {X' Y' : ℝ → ℝ} {x2 y2 t : ℝ} (d : ℝ)
    (hX : HasDerivAt X' x2 t) (hY : HasDerivAt Y' y2 t) (hne : ¬ (X' t = 0 ∧ Y' t = 0)) :
    HasDerivAt (fun u => X' u * d * (1 / Real.sqrt (X' u ^ 2 + Y' u ^ 2)))
      (d * (x2 * Y' t - y2 * X' t) / Real.sqrt (X' t ^ 2 + Y' t ^ 2) ^ 3 * Y' t) t := by
  have hs := c18_hasDerivAt_hyp hX hY hne
  have hpos := c18_sqrt_pos hne
  have hss : Real.sqrt (X' t ^ 2 + Y' t ^ 2) ^ 2 = X' t ^ 2 + Y' t ^ 2 := Real.sq_sqrt (by positivity)
  have h1 : HasDerivAt (fun u => X' u * d) (x2 * d) t := hX.mul_const d
  have h2 := h1.fun_div hs (ne_of_gt hpos)
  have h3 : (fun u => X' u * d * (1 / Real.sqrt (X' u ^ 2 + Y' u ^ 2)))
      = fun u => X' u * d / Real.sqrt (X' u ^ 2 + Y' u ^ 2) := by funext u; ring
  rw [h3]
  refine h2.congr_deriv ?_
  set s := Real.sqrt (X' t ^ 2 + Y' t ^ 2)
  have hne' : s ≠ 0 := ne_of_gt hpos
  field_simp
  linear_combination (d * x2) * hss

end Kurbo
