import Proofs.Lemmas.C15Real
import Proofs.Lemmas.C17Real
import Proofs.Lemmas.C05Scale
import Proofs.Lemmas.C10Real
import Proofs.Lemmas.C01Curve
/-! Helper file for `Proofs/Glue.lean`.

    * `glue_realScalar`: ONE `Scalar ℝ` structure that meets the law classes of *both* sides of each glue theorem:
      `LawfulScalar`, `LawfulReal` (C15: real `sqrt cbrt sin cos atan2`), `LawfulPowf` (C17: real `powf`, `as usize`
      saturating at `2⁶⁴−1`), `LawfulHypot` (C17), `LawfulSqrt`, `LawfulHypotR` (C05).  `realScalar` of C15 does not
      saturate `toUSize` (so it is not a `LawfulPowf`), `realScalar17` of C17 fills `cbrt sin cos atan2` arbitrarily (so
      it is not a `LawfulReal`): neither of the existing instances serves both sides.
    * `glue_lawfulPowf_not_lawfulCount`: the saturating `as usize` law of C17 (`LawfulPowf`) and the non-saturating one
      of C10/C15-ITP (`LawfulCount`, `LawfulRealLog`) exclude each other – no single instance meets all law classes of
      the project; the glue theorems only need the compatible ones listed above.
    * `glue_sat_of_poly`: the non-saturation side condition of C17 (stated there with a real sixth root) follows
      from the polynomial inequality `|D|² ≤ 432·a²·(2⁶⁴−1)⁶`.
    * `glue_quad_poly_nonzero`, `glue_cubic_poly_nonzero`: if `y(t)` is injective on `[0,1]` the polynomial
      `y(t) − p.y` handed to the solver by `winding_inner` is not identically zero. -/
set_option linter.unusedSectionVars false
namespace Kurbo

/-! ### one real instance for all the law classes the glue theorems need -/

/-- ℝ with the Mathlib functions; `as usize` saturates at `usize::MAX = 2⁶⁴−1` as in Rust.  (A structure instance
    must list every field of `Scalar`.) -/
@[instance_reducible] noncomputable def glue_realScalar : Scalar ℝ where
  add := (· + ·); sub := (· - ·); mul := (· * ·); div := (· / ·); neg := (- ·)
  abs x := |x|
  lt a b := decide (a < b); le a b := decide (a ≤ b); beq a b := decide (a = b)
  ofRat r := (r : ℝ)
  floor x := (⌊x⌋ : ℝ); ceil x := (⌈x⌉ : ℝ)
  round a := if a < 0 then (⌈a - 1/2⌉ : ℝ) else (⌊a + 1/2⌋ : ℝ)
  trunc a := if a < 0 then (⌈a⌉ : ℝ) else (⌊a⌋ : ℝ)
  sqrt := Real.sqrt
  cbrt := realCbrt
  sin := Real.sin
  cos := Real.cos
  tan := Real.tan
  acos := Real.arccos
  atan2 y x := Complex.arg ⟨x, y⟩
  powf x y := x ^ y
  ln := Real.log
  log2 x := Real.log x / Real.log 2
  fma a b c := a * b + c
  hypot x y := Real.sqrt (x * x + y * y)
  copysign a b := if b < 0 then -|a| else |a|
  fin _ := true
  finQuot den _ := decide (den ≠ 0)
  isNan _ := false
  toUSize x := min ⌊x⌋₊ (2 ^ 64 - 1)
  signum x := if x < 0 then -1 else 1
  min a b := min a b
  max a b := max a b
  fmod a b := a - b * (if a / b < 0 then (⌈a / b⌉ : ℝ) else (⌊a / b⌋ : ℝ))
  pi := Real.pi

theorem glue_realScalar_lawful : @LawfulScalar ℝ _ _ _ _ glue_realScalar :=
  letI := glue_realScalar
  { add_eq := fun _ _ => rfl, sub_eq := fun _ _ => rfl, mul_eq := fun _ _ => rfl, div_eq := fun _ _ => rfl,
    neg_eq := fun _ => rfl, abs_eq := fun _ => rfl, lt_eq := fun _ _ => rfl, le_eq := fun _ _ => rfl,
    beq_eq := fun _ _ => rfl, ofRat_eq := fun _ => rfl, min_eq := fun _ _ => rfl, max_eq := fun _ _ => rfl,
    floor_eq := fun _ => rfl, ceil_eq := fun _ => rfl, trunc_eq := fun _ => rfl, round_eq := fun _ => rfl,
    copysign_eq := fun _ _ => rfl, signum_eq := fun _ => rfl, fin_eq := fun _ => rfl, finQuot_eq := fun _ _ => rfl,
    isNan_eq := fun _ => rfl, fma_eq := fun _ _ _ => rfl }

theorem glue_realScalar_lawfulReal : @LawfulReal glue_realScalar :=
  letI := glue_realScalar
  { sqrt_eq := fun _ => rfl, cbrt_eq := fun _ => rfl, sin_eq := fun _ => rfl, cos_eq := fun _ => rfl,
    atan2_eq := fun _ _ => rfl }

theorem glue_realScalar_lawfulPowf : @LawfulPowf glue_realScalar :=
  letI := glue_realScalar
  { powf_eq := fun _ _ _ => rfl, toUSize_eq := fun _ => rfl }

theorem glue_realScalar_lawfulSqrt : @LawfulSqrt glue_realScalar :=
  letI := glue_realScalar
  { sqrt_eq := fun _ => rfl }

theorem glue_realScalar_lawfulHypotR : @LawfulHypotR glue_realScalar :=
  letI := glue_realScalar
  { hypot_eq := fun _ _ => rfl }

theorem glue_realScalar_lawfulHypot : @LawfulHypot ℝ _ _ glue_realScalar :=
  letI := glue_realScalar
  lawfulHypot_of_sqrt fun x y => by
    show Real.sqrt (x * x + y * y) = Real.sqrt (x ^ 2 + y ^ 2)
    rw [pow_two, pow_two]

theorem glue_realScalar_lawfulTrig : @LawfulTrig glue_realScalar :=
  letI := glue_realScalar
  { sin_eq := fun _ => rfl, cos_eq := fun _ => rfl, tan_eq := fun _ => rfl, pi_eq := rfl }

/-- the two `as usize` laws of the project exclude each other: C17's `LawfulPowf` saturates at `2⁶⁴−1`, C10's
    `LawfulCount` (and C15's `LawfulRealLog`) do not -/
theorem glue_lawfulPowf_not_lawfulCount [Scalar ℝ] [LawfulPowf] : ¬ LawfulCount := by
  intro h
  have h1 := LawfulPowf.toUSize_eq ((2 : ℝ) ^ 64)
  have h2 := h.toUSize_eq ((2 : ℝ) ^ 64)
  rw [h2] at h1
  have e : ⌊(2 : ℝ) ^ 64⌋₊ = 2 ^ 64 := by
    have : ((2 : ℝ) ^ 64) = ((2 ^ 64 : ℕ) : ℝ) := by norm_num
    rw [this, Nat.floor_natCast]
  rw [e] at h1
  omega

/-! ### the non-saturation side condition without the sixth root -/

theorem glue_sat_of_poly (D2 a : ℝ) (hD : 0 ≤ D2) (ha : a ≠ 0)
    (h : D2 ≤ 432 * a ^ 2 * (2 ^ 64 - 1) ^ 6) :
    (D2 / (432 * a ^ 2)) ^ ((1 : ℝ) / 6) ≤ 2 ^ 64 - 1 := by
  have hA : 0 < 432 * a ^ 2 := by positivity
  have hM : (0 : ℝ) ≤ 2 ^ 64 - 1 := by norm_num
  have hr : 0 ≤ D2 / (432 * a ^ 2) := div_nonneg hD hA.le
  have hle : D2 / (432 * a ^ 2) ≤ (2 ^ 64 - 1) ^ 6 := by
    rw [div_le_iff₀ hA]; linarith
  have h6 : ((1 : ℝ) / 6) = ((6 : ℕ) : ℝ)⁻¹ := by norm_num
  calc (D2 / (432 * a ^ 2)) ^ ((1 : ℝ) / 6) ≤ (((2 : ℝ) ^ 64 - 1) ^ 6) ^ ((1 : ℝ) / 6) :=
        Real.rpow_le_rpow hr hle (by norm_num)
    _ = 2 ^ 64 - 1 := by
        rw [h6]
        exact Real.pow_rpow_inv_natCast hM (by norm_num)

/-! ### `winding_inner` never hands the zero polynomial to the solver on a y-injective piece -/
section poly
variable {K : Type} [Field K] [LinearOrder K] [IsStrictOrderedRing K] [FloorRing K] [Scalar K] [LawfulScalar K]

theorem glue_quad_poly_nonzero (q : QuadBez K) (p : Point K)
    (hinj : Set.InjOn (fun t => (q.eval t).y) (Set.Icc 0 1)) :
    ¬ (q.p0.y - p.y = 0 ∧ 2 * (q.p1.y - q.p0.y) = 0 ∧ q.p2.y - 2 * q.p1.y + q.p0.y = 0) := by
  rintro ⟨-, h1, h2⟩
  have h01 : (0 : K) = 1 := by
    apply hinj ⟨le_refl _, zero_le_one⟩ ⟨zero_le_one, le_refl _⟩
    show (q.eval 0).y = (q.eval 1).y
    rw [quad_eval_y_poly, quad_eval_y_poly, h1, h2]; ring
  exact zero_ne_one h01

theorem glue_cubic_poly_nonzero (c : CubicBez K) (p : Point K)
    (hinj : Set.InjOn (fun t => (c.eval t).y) (Set.Icc 0 1)) :
    ¬ (c.p0.y - p.y = 0 ∧ 3 * (c.p1.y - c.p0.y) = 0 ∧ 3 * (c.p2.y - 2 * c.p1.y + c.p0.y) = 0 ∧
        c.p3.y - 3 * c.p2.y + 3 * c.p1.y - c.p0.y = 0) := by
  rintro ⟨-, h1, h2, h3⟩
  have h01 : (0 : K) = 1 := by
    apply hinj ⟨le_refl _, zero_le_one⟩ ⟨zero_le_one, le_refl _⟩
    show (c.eval 0).y = (c.eval 1).y
    rw [cubic_eval_y_poly, cubic_eval_y_poly, h1, h2, h3]; ring
  exact zero_ne_one h01

end poly
/-! ### `Forall₂` with the membership of the left element available -/

theorem glue_forall₂_imp_mem {α β : Type} {R S : α → β → Prop} {l₁ : List α} {l₂ : List β}
    (h : List.Forall₂ R l₁ l₂) (himp : ∀ a b, a ∈ l₁ → R a b → S a b) : List.Forall₂ S l₁ l₂ := by
  induction h with
  | nil => exact List.Forall₂.nil
  | cons hab _ ih =>
    exact List.Forall₂.cons (himp _ _ List.mem_cons_self hab)
      (ih fun a b ha hr => himp a b (List.mem_cons_of_mem _ ha) hr)

/-- the accuracy that `flatten` hands to `to_quads`, in ordinary arithmetic -/
theorem glue_toQuadTol_eq [Scalar ℝ] [LawfulScalar ℝ] (tol : ℝ) :
    Scalar.mul tol (Scalar.ofRat toQuadTol) = tol / 10 := by
  rw [LawfulScalar.mul_eq]
  simp only [scalar_norm, toQuadTol]
  push_cast
  ring

end Kurbo
