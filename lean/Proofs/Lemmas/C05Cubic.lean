import Proofs.Lemmas.C05Real
/-! Helper lemmas for C05: the emission loop of a cubic over a lawful scalar (non-negative `val`s): exact behaviour of the
    inner `while`, the `target`/`val_sum` invariant of the outer `for`, monotone parameters, exact count. -/
set_option linter.unusedSectionVars false
namespace Kurbo

section lawful
variable {K : Type} [Field K] [LinearOrder K] [IsStrictOrderedRing K] [FloorRing K] [Scalar K] [LawfulScalar K]

theorem cubicWhile_cond (i : Nat) (step vs val : K) :
    (Scalar.lt (Scalar.mul (natK i) step) (Scalar.add vs val) = true) ↔ (i : K) * step < vs + val := by
  rw [LawfulScalar.lt_eq, LawfulScalar.mul_eq, LawfulScalar.add_eq, natK_eq, decide_eq_true_eq]

theorem cubicPt_eq (q : QuadBez K) (p : FlattenParams K) (step vs rv : K) (j : Nat) :
    cubicPt q p step vs rv j = PathEl.LineTo (q.eval (q.determine_subdiv_t p (((j : K) * step - vs) * rv))) := by
  unfold cubicPt
  rw [LawfulScalar.mul_eq, LawfulScalar.sub_eq, LawfulScalar.mul_eq, natK_eq]

/-- with `val_sum + val ≤ n·step` and enough fuel the inner loop emits exactly the indices `i … i+m−1` for which
    `j·step < val_sum + val`, and stops at the first index with `val_sum + val ≤ j·step` -/
theorem cubicWhile_exact (q : QuadBez K) (p : FlattenParams K) (step : K) (n : Nat) (vs rv : K) (hstep : 0 ≤ step)
    (hS : vs + p.val ≤ (n : K) * step) (fuel i : Nat) (out : List (PathEl K)) (hf : n ≤ i + fuel) :
    ∃ m : Nat, cubicWhile q p step n vs rv fuel i out =
        (i + m, out ++ (List.range' i m).map (cubicPt q p step vs rv)) ∧
      (∀ j : Nat, i ≤ j → j < i + m → (j : K) * step < vs + p.val) ∧ vs + p.val ≤ ((i + m : Nat) : K) * step := by
  induction fuel generalizing i out with
  | zero =>
    refine ⟨0, by simp [cubicWhile], by intro j h1 h2; omega, ?_⟩
    have h : (n : K) ≤ (i : K) := by exact_mod_cast (by omega : n ≤ i)
    have := mul_le_mul_of_nonneg_right h hstep
    simpa using le_trans hS this
  | succ fuel ih =>
    rw [cubicWhile_succ]
    by_cases hc : (i : K) * step < vs + p.val
    · rw [if_pos ((cubicWhile_cond i step vs p.val).mpr hc)]
      have hin : i < n := by
        by_contra h
        have h' : (n : K) ≤ (i : K) := by exact_mod_cast (by omega : n ≤ i)
        have := mul_le_mul_of_nonneg_right h' hstep
        linarith
      have hne : ¬ ((i + 1 == n + 1) = true) := by simp; omega
      rw [if_neg hne]
      obtain ⟨m, he, hj, hex⟩ := ih (i + 1) (out ++ [cubicPt q p step vs rv i]) (by omega)
      refine ⟨m + 1, ?_, ?_, ?_⟩
      · rw [he, List.range'_succ, List.map_cons]
        refine Prod.ext (by simp; omega) (by simp)
      · intro j h1 h2
        rcases Nat.eq_or_lt_of_le h1 with rfl | h1'
        · exact hc
        · exact hj j (by omega) (by omega)
      · have : i + (m + 1) = i + 1 + m := by omega
        rw [this]; exact hex
    · rw [if_neg (mt (cubicWhile_cond i step vs p.val).mp hc)]
      exact ⟨0, by simp, by intro j h1 h2; omega, by simpa using not_lt.mp hc⟩

/-- Mathlib sum of the `val`s -/
def sumVals (buf : List (QuadBez K × FlattenParams K)) : K := (buf.map fun qp => qp.2.val).sum

theorem foldl_val_eq (buf : List (QuadBez K × FlattenParams K)) (a : K) :
    buf.foldl (fun acc qp => Scalar.add acc qp.2.val) a = a + sumVals buf := by
  induction buf generalizing a with
  | nil => simp [sumVals]
  | cons qp rest ih =>
    rw [List.foldl_cons, ih, LawfulScalar.add_eq]
    simp [sumVals]; ring

theorem sumVals_nonneg (buf : List (QuadBez K × FlattenParams K)) (h : ∀ qp ∈ buf, 0 ≤ qp.2.val) : 0 ≤ sumVals buf := by
  unfold sumVals
  apply List.sum_nonneg
  intro x hx
  obtain ⟨qp, hq, rfl⟩ := List.mem_map.mp hx
  exact h qp hq

/-- what is known about the group of points emitted inside one quadratic -/
def GroupOK (qp : QuadBez K × FlattenParams K) (g : List (PathEl K)) : Prop :=
  ∃ us : List K, g = us.map (fun u => PathEl.LineTo (qp.1.eval (qp.1.determine_subdiv_t qp.2 u))) ∧
    us.Pairwise (· < ·) ∧ (∀ u ∈ us, 0 ≤ u ∧ u < 1) ∧ (us ≠ [] → 0 < qp.2.val)

theorem cubicStep_exact (step : K) (n : Nat) (hstep : 0 ≤ step) (q : QuadBez K) (p : FlattenParams K)
    (i : Nat) (vs : K) (out : List (PathEl K)) (hS : vs + p.val ≤ (n : K) * step)
    (h1 : vs ≤ (i : K) * step) (h2 : i = 1 ∨ ((i : K) - 1) * step < vs) (hv : 0 ≤ p.val) :
    ∃ g : List (PathEl K),
      cubicStep step n (i, vs, out) (q, p) = (i + g.length, vs + p.val, out ++ g) ∧
      vs + p.val ≤ ((i + g.length : Nat) : K) * step ∧
      (i + g.length = 1 ∨ (((i + g.length : Nat) : K) - 1) * step < vs + p.val) ∧
      GroupOK (q, p) g := by
  obtain ⟨m, he, hj, hex⟩ := cubicWhile_exact q p step n vs (srecip p.val) hstep hS (n + 2) i out (by omega)
  refine ⟨(List.range' i m).map (cubicPt q p step vs (srecip p.val)), ?_, ?_, ?_, ?_⟩
  · unfold cubicStep
    simp only []
    rw [he]
    simp only [sn_add]
    simp
  · simpa using hex
  · rw [List.length_map, List.length_range']
    rcases Nat.eq_zero_or_pos m with rfl | hm
    · rcases h2 with h2 | h2
      · left; omega
      · right; simp only [Nat.add_zero]; linarith
    · right
      have := hj (i + m - 1) (by omega) (by omega)
      have e : (((i + m : Nat) : K) - 1) = ((i + m - 1 : Nat) : K) := by
        rw [Nat.cast_sub (by omega)]; simp
      rw [e]; exact this
  · refine ⟨(List.range' i m).map (fun j : Nat => ((j : K) * step - vs) * (1 / p.val)), ?_, ?_, ?_, ?_⟩
    · rw [List.map_map]
      apply List.map_congr_left
      intro j _
      simp only [Function.comp]
      rw [cubicPt_eq, sn_srecip]
    · rcases Nat.eq_zero_or_pos m with rfl | hm
      · simp
      · have hi := hj i le_rfl (by omega)
        have hval : 0 < p.val := by linarith
        have hstep' : 0 < step := by
          rcases eq_or_lt_of_le hstep with h0 | h0
          · exfalso; rw [← h0] at hS hi; simp at hS hi; linarith
          · exact h0
        rw [List.pairwise_map]
        refine List.Pairwise.imp ?_ (List.pairwise_lt_range')
        intro a b hab
        have hab' : (a : K) < (b : K) := by exact_mod_cast hab
        have : (a : K) * step < (b : K) * step := mul_lt_mul_of_pos_right hab' hstep'
        apply mul_lt_mul_of_pos_right _ (one_div_pos.mpr hval)
        linarith
    · intro u hu
      obtain ⟨j, hjm, rfl⟩ := List.mem_map.mp hu
      rw [List.mem_range'_1] at hjm
      have hjc := hj j hjm.1 hjm.2
      have hij : (i : K) ≤ (j : K) := by exact_mod_cast hjm.1
      have h3 : (i : K) * step ≤ (j : K) * step := mul_le_mul_of_nonneg_right hij hstep
      have hval : 0 < p.val := by linarith
      constructor
      · apply mul_nonneg _ (one_div_pos.mpr hval).le
        linarith
      · rw [mul_one_div, div_lt_one hval]
        linarith
    · intro hne
      rcases Nat.eq_zero_or_pos m with rfl | hm
      · simp at hne
      · have hi := hj i le_rfl (by omega)
        linarith


theorem sumVals_cons (qp : QuadBez K × FlattenParams K) (rest : List (QuadBez K × FlattenParams K)) :
    sumVals (qp :: rest) = qp.2.val + sumVals rest := by
  simp [sumVals]

/-- the outer loop with the invariant `val_sum ≤ i·step` and (`i = 1` or `(i−1)·step < val_sum`) -/
theorem cubicFold_exact (step : K) (n : Nat) (hstep : 0 ≤ step) (buf : List (QuadBez K × FlattenParams K))
    (hval : ∀ qp ∈ buf, 0 ≤ qp.2.val) (i : Nat) (vs : K) (out : List (PathEl K))
    (hS : vs + sumVals buf ≤ (n : K) * step) (h1 : vs ≤ (i : K) * step) (h2 : i = 1 ∨ ((i : K) - 1) * step < vs) :
    ∃ groups : List (List (PathEl K)),
      buf.foldl (cubicStep step n) (i, vs, out) =
        (i + groups.flatten.length, vs + sumVals buf, out ++ groups.flatten) ∧
      vs + sumVals buf ≤ ((i + groups.flatten.length : Nat) : K) * step ∧
      (i + groups.flatten.length = 1 ∨ (((i + groups.flatten.length : Nat) : K) - 1) * step < vs + sumVals buf) ∧
      List.Forall₂ GroupOK buf groups := by
  induction buf generalizing i vs out with
  | nil =>
    refine ⟨[], by simp [sumVals], by simpa [sumVals] using h1, ?_, List.Forall₂.nil⟩
    simpa [sumVals] using h2
  | cons qp rest ih =>
    obtain ⟨q, p⟩ := qp
    have hrest : 0 ≤ sumVals rest := sumVals_nonneg rest (fun x hx => hval x (List.mem_cons_of_mem _ hx))
    have hp : 0 ≤ p.val := hval (q, p) List.mem_cons_self
    rw [sumVals_cons] at hS ⊢
    simp only at hS ⊢
    obtain ⟨g, hg, hg1, hg2, hgok⟩ := cubicStep_exact step n hstep q p i vs out (by linarith) h1 h2 hp
    obtain ⟨groups, hf, hf1, hf2, hfok⟩ := ih (fun x hx => hval x (List.mem_cons_of_mem _ hx))
      (i + g.length) (vs + p.val) (out ++ g) (by linarith) hg1 hg2
    refine ⟨g :: groups, ?_, ?_, ?_, List.Forall₂.cons hgok hfok⟩
    · rw [List.foldl_cons, hg, hf]
      refine Prod.ext (by simp; omega) (Prod.ext (by simp; ring) (by simp))
    · have e : i + (g :: groups).flatten.length = i + g.length + groups.flatten.length := by simp; omega
      rw [e]; linarith
    · have e : i + (g :: groups).flatten.length = i + g.length + groups.flatten.length := by simp; omega
      rw [e]
      rcases hf2 with hf2 | hf2
      · left; exact hf2
      · right; linarith

theorem flattenCubicSum_eq (c : CubicBez K) (tol s : K) :
    flattenCubicSum c tol s = sumVals (flattenCubicBuf c tol s) := by
  have hz : (@OfNat.ofNat K 0 Ops.instOfNat) = 0 := by rw [sn_ofNat]; simp
  calc flattenCubicSum c tol s
      = (flattenCubicBuf c tol s).foldl (fun acc qp => Scalar.add acc qp.2.val) (@OfNat.ofNat K 0 Ops.instOfNat) := rfl
    _ = (@OfNat.ofNat K 0 Ops.instOfNat) + sumVals (flattenCubicBuf c tol s) := foldl_val_eq _ _
    _ = sumVals (flattenCubicBuf c tol s) := by rw [hz, zero_add]

/-- a cubic whose pieces all have `val ≥ 0`: the groups of parameters, and the exact number of lines -/
theorem flattenCubic_exact (c : CubicBez K) (tol s : K) (hval : ∀ qp ∈ flattenCubicBuf c tol s, 0 ≤ qp.2.val) :
    ∃ groups : List (List (PathEl K)),
      flattenCubic c tol s = groups.flatten ++ [PathEl.LineTo c.p3] ∧
      List.Forall₂ GroupOK (flattenCubicBuf c tol s) groups ∧
      (flattenCubic c tol s).length = if 0 < flattenCubicSum c tol s then flattenCubicN c tol s else 1 := by
  have hn := flattenCubicN_pos c tol s
  have hnK : (0 : K) < (flattenCubicN c tol s : K) := by exact_mod_cast hn
  have hS0 : 0 ≤ flattenCubicSum c tol s := by rw [flattenCubicSum_eq]; exact sumVals_nonneg _ hval
  set n := flattenCubicN c tol s with hndef
  set S := flattenCubicSum c tol s with hSdef
  have hstepeq : (@HDiv.hDiv K K K (@instHDiv K Ops.instDiv) S (natK n)) = S / (n : K) := by
    rw [sn_div, natK_eq]
  have hz : (@OfNat.ofNat K 0 Ops.instOfNat) = 0 := by rw [sn_ofNat]; simp
  have hmul : (n : K) * (S / (n : K)) = S := by field_simp
  obtain ⟨groups, hf, hf1, hf2, hfok⟩ := cubicFold_exact (S / (n : K)) n (div_nonneg hS0 hnK.le)
    (flattenCubicBuf c tol s) hval 1 0 [] (by rw [hmul, zero_add, ← flattenCubicSum_eq])
    (by simp; exact div_nonneg hS0 hnK.le) (Or.inl rfl)
  have hfl : flattenCubic c tol s = groups.flatten ++ [PathEl.LineTo c.p3] := by
    rw [flattenCubic_eq, ← hndef, ← hSdef, hstepeq, hz, hf]
    simp
  refine ⟨groups, hfl, hfok, ?_⟩
  rw [hfl, List.length_append, List.length_singleton]
  rw [zero_add, ← flattenCubicSum_eq, ← hSdef] at hf1 hf2
  by_cases hpos : 0 < S
  · rw [if_pos hpos]
    have hstep : 0 < S / (n : K) := div_pos hpos hnK
    have h1 : (n : K) ≤ ((1 + groups.flatten.length : Nat) : K) := by
      have : (n : K) * (S / (n : K)) ≤ ((1 + groups.flatten.length : Nat) : K) * (S / (n : K)) := by
        rw [hmul]; exact hf1
      exact le_of_mul_le_mul_right this hstep
    have h1' : n ≤ 1 + groups.flatten.length := by exact_mod_cast h1
    rcases hf2 with hf2 | hf2
    · omega
    · have : (((1 + groups.flatten.length : Nat) : K) - 1) * (S / (n : K)) < (n : K) * (S / (n : K)) := by
        rw [hmul]; exact hf2
      have h2 := lt_of_mul_lt_mul_right this hstep.le
      have e : (((1 + groups.flatten.length : Nat) : K) - 1) = (groups.flatten.length : K) := by push_cast; ring
      rw [e] at h2
      have h2' : groups.flatten.length < n := by exact_mod_cast h2
      omega
  · rw [if_neg hpos]
    have hS : S = 0 := le_antisymm (not_lt.mp hpos) hS0
    rcases hf2 with hf2 | hf2
    · omega
    · rw [hS] at hf2; simp at hf2

/-- a degenerate quadratic (`x0 = x2`: collinear control points) has `val = 0` -/
theorem estimate_subdiv_val_eq_zero (q : QuadBez K) (s : K) (h : q.subdivX0 = q.subdivX2) :
    (q.estimate_subdiv s).val = 0 := by
  have hden : q.subdivDen = 0 := by
    unfold QuadBez.subdivDen
    rw [h]
    simp only [scalar_norm]
    simp
  rw [estimate_subdiv_val, hden]
  simp only [scalar_norm]
  simp

/-- collinear control points: `val = 0`, and if `0 as usize = 0` the run is the single line to the stored end point -/
theorem flattenQuad_degenerate' (q : QuadBez K) (s : K) (h : q.triCross = 0) (hz : Scalar.toUSize (0 : K) = 0) :
    (q.estimate_subdiv s).val = 0 ∧ flattenQuadN q s = 1 ∧ flattenQuad q s = [PathEl.LineTo q.p2] := by
  have hx : q.subdivX0 = q.subdivX2 := by
    by_contra hne
    exact (subdivX0_ne_subdivX2_iff q).mp hne h
  have hv := estimate_subdiv_val_eq_zero q s hx
  have hn : flattenQuadN q s = 1 := by
    unfold flattenQuadN
    rw [hv]
    simp only [scalar_norm]
    simp [hz]
  refine ⟨hv, hn, ?_⟩
  rw [flattenQuad_eq, hn]
  rfl

end lawful

section real
variable [Scalar ℝ] [LawfulScalar ℝ] [LawfulSqrt]

theorem ite_nonneg' (c : Prop) [Decidable c] (a b : ℝ) (ha : 0 ≤ a) (hb : 0 ≤ b) : 0 ≤ (if c then a else b) := by
  split <;> assumption

theorem intR_nonneg {x : ℝ} (hx : 0 ≤ x) : 0 ≤ intR x := div_nonneg hx (intR_den_pos x).le

/-- `val ≥ 0` for a non-negative `sqrt_tol` -/
theorem estimate_subdiv_val_nonneg (q : QuadBez ℝ) (s : ℝ) (hs : 0 ≤ s) : 0 ≤ (q.estimate_subdiv s).val := by
  rw [estimate_subdiv_val]
  simp only [scalar_norm, LawfulSqrt.sqrt_eq, approxParabolaIntegral_real]
  refine ite_nonneg' _ _ _ (ite_nonneg' _ _ _ ?_ ?_) ?_
  · exact mul_nonneg (abs_nonneg _) (Real.sqrt_nonneg _)
  · exact div_nonneg (mul_nonneg hs (abs_nonneg _)) (intR_nonneg (div_nonneg hs (Real.sqrt_nonneg _)))
  · simp

theorem estimate_subdiv_a0_ne_a2_of_val_pos (q : QuadBez ℝ) (s : ℝ) (h : 0 < (q.estimate_subdiv s).val) :
    (q.estimate_subdiv s).a0 ≠ (q.estimate_subdiv s).a2 := by
  rw [estimate_subdiv_a0, estimate_subdiv_a2, approxParabolaIntegral_real, approxParabolaIntegral_real]
  intro he
  have := estimate_subdiv_val_eq_zero q s (intR_strictMono.injective he)
  linarith

/-- the parameters of a group are strictly increasing and in `[0, 1)` -/
def GroupMono (q : QuadBez ℝ) (g : List (PathEl ℝ)) : Prop :=
  ∃ ts : List ℝ, g = ts.map (fun t => PathEl.LineTo (q.eval t)) ∧ ts.Pairwise (· < ·) ∧ ∀ t ∈ ts, 0 ≤ t ∧ t < 1

theorem groupMono_of_groupOK (q : QuadBez ℝ) (s : ℝ) (g : List (PathEl ℝ))
    (h : GroupOK (q, q.estimate_subdiv s) g) : GroupMono q g := by
  obtain ⟨us, hg, hpw, hb, hne⟩ := h
  by_cases hus : us = []
  · exact ⟨[], by rw [hg, hus]; rfl, List.Pairwise.nil, by simp⟩
  · have hval := hne hus
    have hne' := estimate_subdiv_a0_ne_a2_of_val_pos q s hval
    have hwf := estimate_subdiv_wf q s
    have h0 : q.determine_subdiv_t (q.estimate_subdiv s) 0 = 0 := determine_subdiv_t_zero q _ hwf.u0_eq
    have h1 : q.determine_subdiv_t (q.estimate_subdiv s) 1 = 1 :=
      determine_subdiv_t_one q _ hwf.u0_eq hwf.uscale_eq (invInt_ne_of_ne _ _ hne')
    refine ⟨us.map (fun u => q.determine_subdiv_t (q.estimate_subdiv s) u), ?_, ?_, ?_⟩
    · rw [hg, List.map_map]; rfl
    · rw [List.pairwise_map]
      exact List.Pairwise.imp (fun hab => determine_subdiv_t_lt q _ hwf hne' hab) hpw
    · intro t ht
      obtain ⟨u, hu, rfl⟩ := List.mem_map.mp ht
      obtain ⟨hu0, hu1⟩ := hb u hu
      constructor
      · rw [← h0]; exact determine_subdiv_t_le q _ hwf hu0
      · rw [← h1]; exact determine_subdiv_t_lt q _ hwf hne' hu1

theorem flattenCubicBuf_val_nonneg (c : CubicBez ℝ) (tol s : ℝ) (hs : 0 ≤ s) :
    ∀ qp ∈ flattenCubicBuf c tol s, 0 ≤ qp.2.val := by
  intro qp hqp
  unfold flattenCubicBuf at hqp
  obtain ⟨tq, -, rfl⟩ := List.mem_map.mp hqp
  apply estimate_subdiv_val_nonneg
  simp only [scalar_norm, LawfulSqrt.sqrt_eq]
  exact mul_nonneg hs (Real.sqrt_nonneg _)

/-- cubic run over ℝ, `sqrt_tol ≥ 0`: per quadratic of `to_quads` a group of points with strictly increasing parameters
    in `[0,1)`, then the stored end point; exactly `n` lines (1 if all `val`s vanish) -/
theorem flattenCubic_mono (c : CubicBez ℝ) (tol s : ℝ) (hs : 0 ≤ s) :
    ∃ groups : List (List (PathEl ℝ)),
      flattenCubic c tol s = groups.flatten ++ [PathEl.LineTo c.p3] ∧
      List.Forall₂ (fun (tq : ℝ × ℝ × QuadBez ℝ) g => GroupMono tq.2.2 g)
        (c.to_quads (Scalar.mul tol (Scalar.ofRat toQuadTol))) groups ∧
      (flattenCubic c tol s).length = if 0 < flattenCubicSum c tol s then flattenCubicN c tol s else 1 := by
  obtain ⟨groups, h1, h2, h3⟩ := flattenCubic_exact c tol s (flattenCubicBuf_val_nonneg c tol s hs)
  refine ⟨groups, h1, ?_, h3⟩
  unfold flattenCubicBuf at h2
  rw [List.forall₂_map_left_iff] at h2
  exact List.Forall₂.imp (fun tq g h => groupMono_of_groupOK tq.2.2 _ g h) h2

end real
end Kurbo
