import Proofs.Lemmas.C10Real
/-! Helper lemmas for C10, part 6: `Affine::svd` over ℝ.  The radii and the rotation it returns diagonalise `M·Mᵀ`
    (`M` the linear part), hence the ellipse `centre + R(φ)·diag(rx, ry)·(cos θ, sin θ)` that `Ellipse.path_elements`
    samples is the image of the unit circle under the affine map. -/
set_option linter.unusedSectionVars false
namespace Kurbo
open Real

/-- `h·cos α = u`, `h·sin α = v` for `h = √(u² + v²)`, `α = arg (u + iv)` (also for `u = v = 0`) -/
theorem hyp_cos_sin_arg (u v : ℝ) :
    Real.sqrt (u ^ 2 + v ^ 2) * Real.cos (Complex.arg ⟨u, v⟩) = u ∧
    Real.sqrt (u ^ 2 + v ^ 2) * Real.sin (Complex.arg ⟨u, v⟩) = v := by
  have hn : ‖(⟨u, v⟩ : ℂ)‖ = Real.sqrt (u ^ 2 + v ^ 2) := Complex.norm_eq_sqrt_sq_add_sq _
  by_cases hz : (⟨u, v⟩ : ℂ) = 0
  · have hu : u = 0 := congrArg Complex.re hz
    have hv : v = 0 := congrArg Complex.im hz
    subst hu; subst hv
    simp
  · have hpos : 0 < Real.sqrt (u ^ 2 + v ^ 2) := by rw [← hn]; exact norm_pos_iff.mpr hz
    rw [Complex.cos_arg hz, Complex.sin_arg, hn]
    constructor <;> field_simp

/-- the symmetric 2×2 eigen-decomposition used by `Affine::svd`:
    `[[P, S], [S, Q]] = R(φ)·diag(X, Y)·R(φ)ᵀ` with `φ = ½·arg((P−Q) + 2S·i)`, `X, Y = ½(P + Q ± h)`, `h = √((P−Q)² + 4S²)` -/
theorem sym2_eigen (P Q S : ℝ) :
    let h := Real.sqrt ((P - Q) ^ 2 + 4 * S ^ 2)
    let φ := 1 / 2 * Complex.arg ⟨P - Q, 2 * S⟩
    let X := 1 / 2 * (P + Q + h)
    let Y := 1 / 2 * (P + Q - h)
    X * Real.cos φ ^ 2 + Y * Real.sin φ ^ 2 = P ∧ (X - Y) * (Real.sin φ * Real.cos φ) = S ∧
    X * Real.sin φ ^ 2 + Y * Real.cos φ ^ 2 = Q := by
  intro h φ X Y
  obtain ⟨hc, hs⟩ := hyp_cos_sin_arg (P - Q) (2 * S)
  rw [show (P - Q) ^ 2 + (2 * S) ^ 2 = (P - Q) ^ 2 + 4 * S ^ 2 by ring] at hc hs
  have h2 : Complex.arg ⟨P - Q, 2 * S⟩ = 2 * φ := by simp only [φ]; ring
  rw [h2, Real.cos_two_mul] at hc
  rw [h2, Real.sin_two_mul] at hs
  have h1 := Real.sin_sq_add_cos_sq φ
  set hh := Real.sqrt ((P - Q) ^ 2 + 4 * S ^ 2) with hhd
  refine ⟨?_, ?_, ?_⟩
  · simp only [X, Y, h]
    linear_combination (1 / 2) * hc + (1 / 2) * (P + Q) * h1 - (1/2) * hh * h1
  · simp only [X, Y, h]
    linear_combination (1 / 2) * hs
  · simp only [X, Y, h]
    linear_combination (-1 / 2) * hc + (1 / 2) * (P + Q) * h1 + (1/2) * hh * h1

/-- `R(φ)·diag(Y, X)·R(φ)ᵀ` applied to `w = R(φ)·(u, v)`: a polynomial identity -/
theorem adj_form_identity (X Y c s u v : ℝ) :
    (X * s ^ 2 + Y * c ^ 2) * (u * c - v * s) ^ 2 - 2 * ((X - Y) * (s * c)) * (u * c - v * s) * (u * s + v * c)
      + (X * c ^ 2 + Y * s ^ 2) * (u * s + v * c) ^ 2 = (Y * u ^ 2 + X * v ^ 2) * (s ^ 2 + c ^ 2) ^ 2 := by ring

theorem det_form_identity (X Y c s : ℝ) :
    (X * c ^ 2 + Y * s ^ 2) * (X * s ^ 2 + Y * c ^ 2) - ((X - Y) * (s * c)) ^ 2 = X * Y * (s ^ 2 + c ^ 2) ^ 2 := by ring

section
variable [Scalar ℝ] [LawfulScalar ℝ] [LawfulReal]

/-- `Affine::svd`: the radii are nonnegative and, with the angle, diagonalise the Gram matrix `M·Mᵀ` of the linear part
    `M = [[c0, c2], [c1, c3]]` -/
theorem svd_gram (A : Affine ℝ) :
    0 ≤ A.svd.1.x ∧ 0 ≤ A.svd.1.y ∧
    A.svd.1.x ^ 2 * Real.cos A.svd.2 ^ 2 + A.svd.1.y ^ 2 * Real.sin A.svd.2 ^ 2 = A.c0 ^ 2 + A.c2 ^ 2 ∧
    (A.svd.1.x ^ 2 - A.svd.1.y ^ 2) * (Real.sin A.svd.2 * Real.cos A.svd.2) = A.c0 * A.c1 + A.c2 * A.c3 ∧
    A.svd.1.x ^ 2 * Real.sin A.svd.2 ^ 2 + A.svd.1.y ^ 2 * Real.cos A.svd.2 ^ 2 = A.c1 ^ 2 + A.c3 ^ 2 := by
  simp only [Affine.svd, scalar_norm, LawfulReal.sqrt_eq, LawfulReal.atan2_eq]
  push_cast
  set P := A.c0 ^ 2 + A.c2 ^ 2 with hP
  set Q := A.c1 ^ 2 + A.c3 ^ 2 with hQ
  set S := A.c0 * A.c1 + A.c2 * A.c3 with hS
  have e1 : A.c0 * A.c0 - A.c1 * A.c1 + A.c2 * A.c2 - A.c3 * A.c3 = P - Q := by rw [hP, hQ]; ring
  have e2 : A.c0 * A.c0 + A.c1 * A.c1 + A.c2 * A.c2 + A.c3 * A.c3 = P + Q := by rw [hP, hQ]; ring
  rw [e1, e2]
  obtain ⟨g1, g2, g3⟩ := sym2_eigen P Q S
  set h := Real.sqrt ((P - Q) ^ 2 + 4 * S ^ 2) with hh
  have hh0 : 0 ≤ h := Real.sqrt_nonneg _
  have hPQ : 0 ≤ P + Q := by rw [hP, hQ]; positivity
  have hle : h ≤ P + Q := by
    rw [hh, Real.sqrt_le_left hPQ]
    have : (P + Q) ^ 2 - ((P - Q) ^ 2 + 4 * S ^ 2) = 4 * (A.c0 * A.c3 - A.c1 * A.c2) ^ 2 := by
      rw [hP, hQ, hS]; ring
    nlinarith [sq_nonneg (A.c0 * A.c3 - A.c1 * A.c2)]
  have hx : 0 ≤ 1 / 2 * (P + Q + h) := by linarith
  have hy : 0 ≤ 1 / 2 * (P + Q - h) := by linarith
  refine ⟨Real.sqrt_nonneg _, Real.sqrt_nonneg _, ?_, ?_, ?_⟩
  · rw [Real.sq_sqrt hx, Real.sq_sqrt hy]; exact g1
  · rw [Real.sq_sqrt hx, Real.sq_sqrt hy]; exact g2
  · rw [Real.sq_sqrt hx, Real.sq_sqrt hy]; exact g3

/-- the product of the radii is `|det|` -/
theorem svd_radii_prod_sq (A : Affine ℝ) : (A.svd.1.x * A.svd.1.y) ^ 2 = (A.c0 * A.c3 - A.c1 * A.c2) ^ 2 := by
  obtain ⟨-, -, g1, g2, g3⟩ := svd_gram A
  have h1 := Real.sin_sq_add_cos_sq A.svd.2
  have := det_form_identity (A.svd.1.x ^ 2) (A.svd.1.y ^ 2) (Real.cos A.svd.2) (Real.sin A.svd.2)
  rw [g1, g3, g2, h1] at this
  linear_combination -this

variable [LawfulTrig]

/-- every sample of the `svd` ellipse is the image of a unit vector: pulled back by the inverse affine map it has
    squared length `1` (this is the quantity `Ellipse::winding` compares with `1`) -/
theorem svd_sample_on_image (A : Affine ℝ) (hdet : A.determinant ≠ 0) (θ : ℝ) :
    (A.inverse * (A.translation.to_point + sampleEllipse A.svd.1 A.svd.2 θ)).to_vec2.hypot2 = 1 := by
  obtain ⟨-, -, g1, g2, g3⟩ := svd_gram A
  have hprod := svd_radii_prod_sq A
  have hD : A.c0 * A.c3 - A.c1 * A.c2 ≠ 0 := by
    simpa only [Affine.determinant, scalar_norm] using hdet
  rw [sampleEllipse_real]
  generalize A.svd.2 = φ at *
  generalize A.svd.1 = r at *
  have hφ := Real.sin_sq_add_cos_sq φ
  have hθ := Real.sin_sq_add_cos_sq θ
  have key := adj_form_identity (r.x ^ 2) (r.y ^ 2) (Real.cos φ) (Real.sin φ) (r.x * Real.cos θ) (r.y * Real.sin θ)
  rw [g3, g2, g1, hφ] at key
  show ((Affine.mul_Point A.inverse _).to_vec2).hypot2 = 1
  simp only [Affine.mul_Point, Affine.inverse, Affine.determinant, Affine.translation, kdefs, scalar_norm]
  set D := A.c0 * A.c3 - A.c1 * A.c2 with hDd
  set wx := r.x * Real.cos θ * Real.cos φ - r.y * Real.sin θ * Real.sin φ with hwx
  set wy := r.x * Real.cos θ * Real.sin φ + r.y * Real.sin θ * Real.cos φ with hwy
  have hkey' : (A.c1 ^ 2 + A.c3 ^ 2) * wx ^ 2 - 2 * (A.c0 * A.c1 + A.c2 * A.c3) * wx * wy + (A.c0 ^ 2 + A.c2 ^ 2) * wy ^ 2
      = D ^ 2 := by
    rw [← hprod]
    linear_combination key + (r.x ^ 2 * r.y ^ 2) * hθ
  field_simp
  linear_combination hkey'
end
end Kurbo
