import Kurbo.Simplify
/-! Helper definitions and lemmas for C18S (structure clause of C18: the control skeleton of `simplify_bezpath`,
    model `Kurbo/Simplify.lean`).  Part 1: the SPECIFICATION FUNCTIONS (`simpChunks`, `simpSplitGo`, `simpStretchOut`,
    `simpChunkOut`), the specification of the fitter (`C18FitSpec`) and the master equation
    `c18s_loop_spec` / `c18s_simplify_eq`: the loop computes exactly the specification.  Core Lean only; every statement
    holds for an arbitrary `[Scalar K]` (also `Float`): no arithmetic law is used. -/
set_option linter.unusedSectionVars false
namespace Kurbo
variable {K : Type} [Scalar K]

/-! ### vocabulary -/

/-- a drawing element (`LineTo` / `QuadTo` / `CurveTo`) -/
def PathEl.simpDraw : PathEl K → Bool
  | .LineTo _ | .QuadTo _ _ | .CurveTo _ _ _ => true
  | _ => false

/-- `ClosePath` -/
def PathEl.simpClose : PathEl K → Bool
  | .ClosePath => true
  | _ => false

/-- `CurveTo` -/
def PathEl.simpCurve : PathEl K → Bool
  | .CurveTo _ _ _ => true
  | _ => false

/-- end point of the last element of a list of elements (`none` for the empty list and for `ClosePath`) -/
def simpLastEnd (els : List (PathEl K)) : Option (Point K) := els.getLast?.bind PathEl.end_point

/-- What the structure theorems need of the curve fitter: on a queue `MoveTo a :: ds` of at least two drawing elements
    it returns `MoveTo a` (the same point, bit for bit) followed by one or more `CurveTo`s, the last of which ends where
    the last queued element ends (bit for bit). -/
structure C18FitSpec (fit : List (PathEl K) → List (PathEl K)) : Prop where
  shape : ∀ (a : Point K) (ds : List (PathEl K)), (∀ e ∈ ds, e.simpDraw = true) → 2 ≤ ds.length →
    ∃ cs : List (PathEl K), fit (.MoveTo a :: ds) = .MoveTo a :: cs ∧ cs ≠ [] ∧ (∀ e ∈ cs, e.simpCurve = true) ∧
      simpLastEnd cs = simpLastEnd ds

/-- the segment the loop makes of a drawing element when the current point is `last`; `none` = skipped as degenerate
    (all its points equal `last` under `Point`'s `==`) or not a drawing element -/
def simpElSeg (last : Point K) : PathEl K → Option (PathSeg K)
  | .LineTo p => if last.peq p then none else some (.Line ⟨last, p⟩)
  | .QuadTo p1 p2 => if last.peq p1 && last.peq p2 then none else some (.Quad ⟨last, p1, p2⟩)
  | .CurveTo p1 p2 p3 => if last.peq p1 && last.peq p2 && last.peq p3 then none else some (.Cubic ⟨last, p1, p2, p3⟩)
  | _ => none

/-- the non-degenerate segments of the drawing elements at the head of the list (up to the first `MoveTo` / `ClosePath` /
    the end), the current point being `last` -/
def simpHeadSegs (last : Point K) : List (PathEl K) → List (PathSeg K)
  | [] => []
  | el :: r =>
    if el.simpDraw then
      match simpElSeg last el with
      | none => simpHeadSegs last r
      | some s => s :: simpHeadSegs s.end r
    else []

/-- is the first non-drawing element a `ClosePath`? -/
def simpHeadClosed : List (PathEl K) → Bool
  | [] => false
  | el :: r => if el.simpDraw then simpHeadClosed r else el.simpClose

/-- an input sub-path as the loop sees it: its start point, its non-degenerate segments, and whether a `ClosePath` ends it -/
structure SimpChunk (K : Type) where
  start : Point K
  segs : List (PathSeg K)
  closed : Bool
deriving DecidableEq

/-- the sub-paths that begin after the current one: a new one begins at every `MoveTo p` (start `p`) and after every
    `ClosePath` (start = the start of the sub-path just closed) -/
def simpTailChunks (start : Point K) : List (PathEl K) → List (SimpChunk K)
  | [] => []
  | .MoveTo p :: r => ⟨p, simpHeadSegs p r, simpHeadClosed r⟩ :: simpTailChunks p r
  | .ClosePath :: r => ⟨start, simpHeadSegs start r, simpHeadClosed r⟩ :: simpTailChunks start r
  | .LineTo _ :: r => simpTailChunks start r
  | .QuadTo _ _ :: r => simpTailChunks start r
  | .CurveTo _ _ _ :: r => simpTailChunks start r

/-- the sub-paths of a path that begins with `MoveTo` -/
def simpChunks : List (PathEl K) → List (SimpChunk K)
  | .MoveTo p :: r => ⟨p, simpHeadSegs p r, simpHeadClosed r⟩ :: simpTailChunks p r
  | _ => []

/-- number of `ClosePath`s at the head of the list -/
def simpLead : List (PathEl K) → Nat
  | .ClosePath :: r => simpLead r + 1
  | _ => 0

/-- split a run of segments into smooth stretches: a new stretch begins wherever `simpCorner` holds between two
    consecutive segments.  `pend` is the stretch under construction (empty at the start). -/
def simpSplitGo (th : K) : List (PathSeg K) → List (PathSeg K) → List (List (PathSeg K))
  | pend, [] => if pend.isEmpty then [] else [pend]
  | pend, s :: r =>
    match pend.getLast? with
    | some l => if simpCorner th l s then pend :: simpSplitGo th [s] r else simpSplitGo th (pend ++ [s]) r
    | none => simpSplitGo th [s] r

/-- the queue `add_seg` builds of a stretch -/
def simpQueue : List (PathSeg K) → List (PathEl K)
  | [] => []
  | s :: r => .MoveTo s.start :: (s :: r).map PathSeg.drawEl

/-- the drawing elements emitted for a stretch: a single segment verbatim, otherwise the fitter's output without its `MoveTo` -/
def simpStretchOut (fit : List (PathEl K) → List (PathEl K)) : List (PathSeg K) → List (PathEl K)
  | [] => []
  | [s] => [s.drawEl]
  | s :: s' :: r => (fit (simpQueue (s :: s' :: r))).drop 1

/-- what is still emitted for the current sub-path: `nm` = `needs_moveto`, `pend` = the queued stretch, `segs` = the
    segments still to come, `closed` = whether a `ClosePath` ends it -/
def simpChunkTail (fit : List (PathEl K) → List (PathEl K)) (th : K) (start : Point K) (nm : Bool)
    (pend segs : List (PathSeg K)) (closed : Bool) : List (PathEl K) :=
  (if nm && (!(simpSplitGo th pend segs).isEmpty || closed) then [.MoveTo start] else []) ++
    ((simpSplitGo th pend segs).map (simpStretchOut fit)).flatten ++ (if closed then [.ClosePath] else [])

/-- the output for one input sub-path -/
def simpChunkOut (fit : List (PathEl K) → List (PathEl K)) (th : K) (c : SimpChunk K) : List (PathEl K) :=
  simpChunkTail fit th c.start true [] c.segs c.closed

/-! ### small facts -/

theorem c18s_drawEl_draw (s : PathSeg K) : s.drawEl.simpDraw = true := by cases s <;> rfl
theorem c18s_drawEl_end (s : PathSeg K) : s.drawEl.end_point = some s.end := by cases s <;> rfl

theorem c18s_elSeg_start {last : Point K} {el : PathEl K} {s : PathSeg K} (h : simpElSeg last el = some s) :
    s.start = last := by
  cases el <;> simp only [simpElSeg] at h
  all_goals first
    | (split at h <;> first | (cases h; rfl) | cases h)
    | cases h

theorem c18s_elSeg_drawEl {last : Point K} {el : PathEl K} {s : PathSeg K} (h : simpElSeg last el = some s) :
    s.drawEl = el := by
  cases el <;> simp only [simpElSeg] at h
  all_goals first
    | (split at h <;> first | (cases h; rfl) | cases h)
    | cases h

theorem c18s_elSeg_end {last : Point K} {el : PathEl K} {s : PathSeg K} (h : simpElSeg last el = some s) :
    el.end_point = some s.end := by
  rw [← c18s_elSeg_drawEl h]; exact c18s_drawEl_end s

theorem c18s_tailChunks_draw (start : Point K) {el : PathEl K} (r : List (PathEl K)) (h : el.simpDraw = true) :
    simpTailChunks start (el :: r) = simpTailChunks start r := by
  cases el <;> first | rfl | cases h

/-! ### one step of the loop -/

theorem c18s_loop_nil (fit : List (PathEl K) → List (PathEl K)) (th : K) (l : SimpLoop K) :
    simplifyLoop fit th [] l = .ok (l.st.flush fit).result := by
  simp only [simplifyLoop]

theorem c18s_loop_draw (fit : List (PathEl K) → List (PathEl K)) (th : K) (l : SimpLoop K) {el : PathEl K}
    (r : List (PathEl K)) (h : el.simpDraw = true) :
    simplifyLoop fit th (el :: r) l =
      match l.last_pt with
      | none => .panic
      | some last =>
        match simpElSeg last el with
        | none => simplifyLoop fit th r l
        | some s => simplifyLoop fit th r (l.push fit th s) := by
  cases el with
  | MoveTo p => cases h
  | ClosePath => cases h
  | LineTo p =>
    simp only [simplifyLoop, simpElSeg]
    cases l.last_pt with
    | none => rfl
    | some last => simp only []; split <;> rfl
  | QuadTo p1 p2 =>
    simp only [simplifyLoop, simpElSeg]
    cases l.last_pt with
    | none => rfl
    | some last => simp only []; split <;> rfl
  | CurveTo p1 p2 p3 =>
    simp only [simplifyLoop, simpElSeg]
    cases l.last_pt with
    | none => rfl
    | some last => simp only []; split <;> rfl

/-! ### `add_seg` and `flush` on a queue built of a stretch -/

theorem c18s_add_seg (pend : List (PathSeg K)) (res : List (PathEl K)) (nm : Bool) (s : PathSeg K) :
    SimpSt.add_seg ⟨simpQueue pend, res, nm⟩ s = ⟨simpQueue (pend ++ [s]), res, nm⟩ := by
  cases pend with
  | nil => simp [SimpSt.add_seg, simpQueue]
  | cons a r => simp [SimpSt.add_seg, simpQueue]

theorem c18s_add_seg_nil (res : List (PathEl K)) (nm : Bool) (s : PathSeg K) :
    SimpSt.add_seg ⟨[], res, nm⟩ s = ⟨simpQueue [s], res, nm⟩ := c18s_add_seg [] res nm s

theorem c18s_flush_nil (fit : List (PathEl K) → List (PathEl K)) (res : List (PathEl K)) (nm : Bool) :
    SimpSt.flush fit ⟨[], res, nm⟩ = ⟨[], res, nm⟩ := by
  simp [SimpSt.flush]

theorem c18s_queue_draw (pend : List (PathSeg K)) : ∀ e ∈ pend.map PathSeg.drawEl, e.simpDraw = true := by
  intro e he
  obtain ⟨s, -, rfl⟩ := List.mem_map.1 he
  exact c18s_drawEl_draw s

theorem c18s_flush_cons {fit : List (PathEl K) → List (PathEl K)} (hfit : C18FitSpec fit) (s : PathSeg K)
    (r : List (PathSeg K)) (res : List (PathEl K)) (nm : Bool) :
    SimpSt.flush fit ⟨simpQueue (s :: r), res, nm⟩ =
      ⟨[], res ++ ((if nm then [PathEl.MoveTo s.start] else []) ++ simpStretchOut fit (s :: r)), false⟩ := by
  cases r with
  | nil => cases nm <;> simp [SimpSt.flush, simpQueue, simpStretchOut]
  | cons s' r' =>
    obtain ⟨cs, h1, -, -, -⟩ := hfit.shape s.start ((s :: s' :: r').map PathSeg.drawEl) (c18s_queue_draw _) (by simp)
    have hq : simpQueue (s :: s' :: r') = .MoveTo s.start :: (s :: s' :: r').map PathSeg.drawEl := rfl
    have hne : ((PathEl.MoveTo s.start :: (s :: s' :: r').map PathSeg.drawEl).length == 2) = false := by simp
    simp only [SimpSt.flush, simpStretchOut, hq, h1, hne, List.isEmpty_cons, Bool.false_eq_true, if_false]
    cases nm <;> simp

/-- what `flush` appends to the result for the queued stretch `pend` -/
def simpFlushOut (fit : List (PathEl K) → List (PathEl K)) (start : Point K) (nm : Bool) (pend : List (PathSeg K)) :
    List (PathEl K) :=
  (if nm && !pend.isEmpty then [.MoveTo start] else []) ++ simpStretchOut fit pend

theorem c18s_flush_state {fit : List (PathEl K) → List (PathEl K)} (hfit : C18FitSpec fit) (start : Point K)
    (pend : List (PathSeg K)) (res : List (PathEl K)) (nm : Bool)
    (h2 : nm = true → ∀ s ∈ pend.head?, s.start = start) :
    SimpSt.flush fit ⟨simpQueue pend, res, nm⟩ =
      ⟨[], res ++ simpFlushOut fit start nm pend, if pend.isEmpty then nm else false⟩ := by
  cases pend with
  | nil => simp [simpQueue, c18s_flush_nil, simpFlushOut, simpStretchOut]
  | cons s r =>
    rw [c18s_flush_cons hfit]
    cases nm with
    | false => simp [simpFlushOut]
    | true =>
      have : s.start = start := h2 rfl s (by simp)
      simp [simpFlushOut, this]

theorem c18s_chunkTail_nil (fit : List (PathEl K) → List (PathEl K)) (th : K) (start : Point K) (nm : Bool)
    (pend : List (PathSeg K)) (closed : Bool) :
    simpChunkTail fit th start nm pend [] closed =
      (if nm && (!pend.isEmpty || closed) then [.MoveTo start] else []) ++ simpStretchOut fit pend ++
        (if closed then [.ClosePath] else []) := by
  cases pend with
  | nil => simp [simpChunkTail, simpSplitGo, simpStretchOut]
  | cons s r => simp [simpChunkTail, simpSplitGo]

/-- the master equation for the loop started in a state "inside a sub-path" -/
theorem c18s_loop_spec {fit : List (PathEl K) → List (PathEl K)} (hfit : C18FitSpec fit) (th : K) :
    ∀ (els : List (PathEl K)) (last start : Point K) (pend : List (PathSeg K)) (res : List (PathEl K)) (nm : Bool),
      (pend = [] → nm = true ∧ last = start) →
      (nm = true → ∀ s ∈ pend.head?, s.start = start) →
      simplifyLoop fit th els ⟨some last, some start, pend.getLast?, ⟨simpQueue pend, res, nm⟩⟩ =
        .ok (res ++ (simpChunkTail fit th start nm pend (simpHeadSegs last els) (simpHeadClosed els) ++
              ((simpTailChunks start els).map (simpChunkOut fit th)).flatten)) := by
  intro els
  induction els with
  | nil =>
    intro last start pend res nm h1 h2
    rw [c18s_loop_nil]
    simp only [c18s_flush_state hfit start pend res nm h2, simpHeadSegs, simpHeadClosed, simpTailChunks,
      c18s_chunkTail_nil, simpFlushOut]
    simp
  | cons el r ih =>
    intro last start pend res nm h1 h2
    by_cases hd : el.simpDraw = true
    · -- a drawing element
      rw [c18s_loop_draw fit th _ r hd, c18s_tailChunks_draw start r hd]
      simp only [simpHeadSegs, simpHeadClosed, hd, if_true]
      cases hs : simpElSeg last el with
      | none => simp only []; exact ih last start pend res nm h1 h2
      | some s =>
        simp only [SimpLoop.push]
        have hstart : s.start = last := c18s_elSeg_start hs
        cases hp : pend.getLast? with
        | none =>
          have hpe : pend = [] := List.getLast?_eq_none_iff.1 hp
          subst hpe
          obtain ⟨hnm, hls⟩ := h1 rfl
          simp only [c18s_add_seg, List.nil_append]
          have := ih s.end start [s] res nm (by simp) (by intro _ s' hs'; simp at hs'; subst hs'; rw [hstart, hls])
          simp only [List.getLast?_singleton] at this
          rw [this]
          simp [simpChunkTail, simpSplitGo]
        | some lst =>
          have hne : pend ≠ [] := by intro h; subst h; simp at hp
          by_cases hc : simpCorner th lst s = true
          · simp only [hc, if_true, c18s_flush_state hfit start pend res nm h2]
            have hie : pend.isEmpty = false := by cases pend <;> simp_all
            simp only [hie, Bool.false_eq_true, if_false]
            have := ih s.end start [s] (res ++ simpFlushOut fit start nm pend) false (by simp) (by simp)
            simp only [List.getLast?_singleton] at this
            rw [c18s_add_seg_nil, this]
            simp [simpChunkTail, simpSplitGo, hp, hc, simpFlushOut, hie]
          · simp only [hc, Bool.false_eq_true, if_false]
            rw [c18s_add_seg]
            have := ih s.end start (pend ++ [s]) res nm (by simp)
              (by intro hnm s' hs'; apply h2 hnm; cases pend <;> simp_all)
            simp only [List.getLast?_append, List.getLast?_singleton, Option.some_or] at this
            rw [this]
            simp [simpChunkTail, simpSplitGo, hp, hc]
    · -- MoveTo or ClosePath
      cases el with
      | LineTo p => exact absurd rfl hd
      | QuadTo p1 p2 => exact absurd rfl hd
      | CurveTo p1 p2 p3 => exact absurd rfl hd
      | MoveTo p =>
        simp only [simplifyLoop, c18s_flush_state hfit start pend res nm h2]
        have := ih p p [] (res ++ simpFlushOut fit start nm pend) true (by simp) (by simp)
        simp only [List.getLast?_nil, simpQueue] at this
        rw [this]
        simp [simpHeadSegs, simpHeadClosed, PathEl.simpDraw, PathEl.simpClose, simpTailChunks, c18s_chunkTail_nil,
          simpFlushOut, simpChunkOut]
      | ClosePath =>
        simp only [simplifyLoop, c18s_flush_state hfit start pend res nm h2]
        cases pend with
        | nil =>
          obtain ⟨hnm, hls⟩ := h1 rfl
          subst hnm
          simp only [List.isEmpty_nil, if_true]
          have := ih start start [] (res ++ simpFlushOut fit start true [] ++ [.MoveTo start] ++ [.ClosePath]) true
            (by simp) (by simp)
          simp only [List.getLast?_nil, simpQueue] at this
          rw [this]
          simp [simpHeadSegs, simpHeadClosed, PathEl.simpDraw, PathEl.simpClose, simpTailChunks, c18s_chunkTail_nil,
            simpFlushOut, simpChunkOut, simpStretchOut]
        | cons a pr =>
          simp only [List.isEmpty_cons, Bool.false_eq_true, if_false]
          have := ih start start [] (res ++ simpFlushOut fit start nm (a :: pr) ++ [.ClosePath]) true
            (by simp) (by simp)
          simp only [List.getLast?_nil, simpQueue] at this
          rw [this]
          simp [simpHeadSegs, simpHeadClosed, PathEl.simpDraw, PathEl.simpClose, simpTailChunks, c18s_chunkTail_nil,
            simpFlushOut, simpChunkOut]

/-! ### before the first `MoveTo`; totality -/

/-- the loop before any `MoveTo` has been seen: leading `ClosePath`s are copied, a `MoveTo` enters the main phase,
    a drawing element panics (`last_pt.unwrap()`).  Holds for EVERY `fit`. -/
theorem c18s_loop_pre (fit : List (PathEl K) → List (PathEl K)) (th : K) :
    ∀ (els : List (PathEl K)) (res : List (PathEl K)) (nm : Bool),
      simplifyLoop fit th els ⟨none, none, none, ⟨[], res, nm⟩⟩ =
        match els.drop (simpLead els) with
        | [] => .ok (res ++ List.replicate (simpLead els) .ClosePath)
        | .MoveTo p :: r =>
          simplifyLoop fit th r ⟨some p, some p, none, ⟨[], res ++ List.replicate (simpLead els) .ClosePath, true⟩⟩
        | _ => .panic := by
  intro els
  induction els with
  | nil => intro res nm; simp [simplifyLoop, simpLead, c18s_flush_nil]
  | cons el r ih =>
    intro res nm
    cases el with
    | MoveTo p => simp [simplifyLoop, simpLead, c18s_flush_nil]
    | LineTo p => simp [simplifyLoop, simpLead]
    | QuadTo p1 p2 => simp [simplifyLoop, simpLead]
    | CurveTo p1 p2 p3 => simp [simplifyLoop, simpLead]
    | ClosePath =>
      have e : simplifyLoop fit th (PathEl.ClosePath :: r) ⟨none, none, none, ⟨[], res, nm⟩⟩ =
          simplifyLoop fit th r ⟨none, none, none, ⟨[], res ++ [.ClosePath], true⟩⟩ := by
        simp only [simplifyLoop, c18s_flush_nil]
        cases nm <;> rfl
      rw [e, ih]
      simp only [simpLead, List.drop_succ_cons, List.replicate_succ, List.append_assoc, List.singleton_append]

/-- once a `MoveTo` has been seen the loop cannot panic.  Holds for EVERY `fit`. -/
theorem c18s_loop_total (fit : List (PathEl K) → List (PathEl K)) (th : K) :
    ∀ (els : List (PathEl K)) (l : SimpLoop K), l.last_pt.isSome = true → l.start_pt.isSome = true →
      ∃ out, simplifyLoop fit th els l = .ok out := by
  intro els
  induction els with
  | nil => intro l _ _; exact ⟨_, c18s_loop_nil fit th l⟩
  | cons el r ih =>
    intro l h1 h2
    by_cases hd : el.simpDraw = true
    · rw [c18s_loop_draw fit th l r hd]
      cases hl : l.last_pt with
      | none => rw [hl] at h1; cases h1
      | some last =>
        simp only []
        cases simpElSeg last el with
        | none => exact ih l h1 h2
        | some s => exact ih _ rfl h2
    · cases el with
      | LineTo p => exact absurd rfl hd
      | QuadTo p1 p2 => exact absurd rfl hd
      | CurveTo p1 p2 p3 => exact absurd rfl hd
      | MoveTo p => simp only [simplifyLoop]; exact ih _ rfl rfl
      | ClosePath => simp only [simplifyLoop]; exact ih _ h2 h2

/-- the specification of `simplifyBezpath` as a whole -/
def simpSpec (fit : List (PathEl K) → List (PathEl K)) (th : K) (els : List (PathEl K)) : SimpRes K :=
  match els.drop (simpLead els) with
  | [] => .ok (List.replicate (simpLead els) .ClosePath)
  | .MoveTo p :: r =>
    .ok (List.replicate (simpLead els) .ClosePath ++ ((simpChunks (.MoveTo p :: r)).map (simpChunkOut fit th)).flatten)
  | _ => .panic

/-- THE MASTER EQUATION: under the fit specification the model computes exactly the specification -/
theorem c18s_simplify_eq {fit : List (PathEl K) → List (PathEl K)} (hfit : C18FitSpec fit) (th : K)
    (els : List (PathEl K)) : simplifyBezpath fit els th = simpSpec fit th els := by
  unfold simplifyBezpath simpSpec
  have := c18s_loop_pre fit th els [] false
  simp only [List.nil_append] at this
  rw [show ({} : SimpLoop K) = ⟨none, none, none, ⟨[], [], false⟩⟩ from rfl, this]
  split
  · rfl
  · rename_i p r _
    have h := c18s_loop_spec hfit th r p p [] (List.replicate (simpLead els) .ClosePath) true (by simp) (by simp)
    simp only [List.getLast?_nil, simpQueue] at h
    rw [h]
    simp [simpChunks, simpChunkOut]
  · rfl

end Kurbo
