import Proofs.C16A
import Proofs.Lemmas.C10Real
import Proofs.Lemmas.C16Step
/-! C16G helpers: what the arc branch of `svgCommand` appends (`arcCommandEls`), glued from the closed form of
    `Arc.append_iter` (C10: `append_iter_eq`, `appendParams_real`) and the geometry of `Arc.from_svg_arc` (C16A). -/
set_option linter.unusedSectionVars false
namespace Kurbo

section generic
variable {K : Type} [Scalar K]

/-- the elements the arc branch of `svgCommand` appends for the command data `arc`
    (`from` = current point, `to` = the stated end point): the `added` of `Kurbo/Svg.lean` -/
def arcCommandEls (arc : SvgArc K) : List (PathEl K) :=
  match Arc.from_svg_arc arc with
  | some a => arcToCubics a
  | none => [.LineTo arc.to]

/-- `arcElements` (the name `cmd_arc` of C16 uses) is `arcCommandEls` of the `SvgArc` the parser builds -/
theorem arcElements_eq_cmd (f t radii : Point K) (xrot : K) (la sw : Bool) :
    arcElements f t radii xrot la sw = arcCommandEls ⟨f, t, radii.to_vec2, toRadians xrot, la, sw⟩ := rfl

theorem arcCommandEls_straight (arc : SvgArc K) (h : arc.is_straight_line = true) :
    arcCommandEls arc = [.LineTo arc.to] := by
  unfold arcCommandEls; rw [from_svg_arc_stages, if_pos h]

theorem arcCommandEls_some (arc : SvgArc K) (a : Arc K) (ha : Arc.from_svg_arc arc = some a) :
    arcCommandEls arc = a.append_iter (Scalar.ofRat (1/10) : K) := by
  unfold arcCommandEls; rw [ha]; rfl

end generic

section count
variable [Scalar ℝ] [LawfulScalar ℝ] [LawfulTrig] [LawfulCount]

theorem arcTol_real : (Scalar.ofRat (1/10) : ℝ) = 1/10 := by
  simp only [scalar_norm]; push_cast; rfl

/-- number of cubics an arc command with arc `a` produces (tolerance `0.1`) -/
noncomputable def Arc.cmdN (a : Arc ℝ) : ℕ := (a.appendParams (1/10)).1
/-- the `k`-th knot angle `start + k·sweep/n` -/
noncomputable def Arc.cmdAngle (a : Arc ℝ) (k : ℕ) : ℝ := a.start_angle + k * (a.sweep_angle / (a.cmdN : ℝ))
/-- the `k`-th knot: the ellipse point at `cmdAngle k` -/
noncomputable def Arc.cmdPt (a : Arc ℝ) (k : ℕ) : Point ℝ :=
  a.center + sampleEllipse a.radii a.x_rotation (a.cmdAngle k)
/-- control points of piece `k` (C10: `arc_piece_p1`, `arc_piece_p2`, `arc_arms_tangent`) -/
noncomputable def Arc.cmdC1 (a : Arc ℝ) (k : ℕ) : Point ℝ :=
  arcC1 a.center a.radii a.x_rotation (a.appendParams (1/10)).2.1 (a.appendParams (1/10)).2.2 a.start_angle k
noncomputable def Arc.cmdC2 (a : Arc ℝ) (k : ℕ) : Point ℝ :=
  arcC2 a.center a.radii a.x_rotation (a.appendParams (1/10)).2.1 (a.appendParams (1/10)).2.2 a.start_angle k

theorem arcPt_cmd (a : Arc ℝ) (k : ℕ) :
    arcPt a.center a.radii a.x_rotation (a.appendParams (1/10)).2.2 a.start_angle k = a.cmdPt k := by
  rw [arcPt, accAngle_eq, (appendParams_real a (1/10)).1]; rfl

theorem cmdAngle_zero (a : Arc ℝ) : a.cmdAngle 0 = a.start_angle := by simp [Arc.cmdAngle]

theorem cmdAngle_last (a : Arc ℝ) : a.cmdAngle a.cmdN = a.start_angle + a.sweep_angle := by
  have := arc_accAngle_total a (1/10)
  rw [accAngle_eq, (appendParams_real a (1/10)).1] at this
  exact this

theorem cmdAngle_succ_sub (a : Arc ℝ) (k : ℕ) : a.cmdAngle (k + 1) - a.cmdAngle k = a.sweep_angle / (a.cmdN : ℝ) := by
  simp only [Arc.cmdAngle]; push_cast; ring

/-- the elements of the arc in the `cmd…` vocabulary -/
theorem arcToCubics_eq (a : Arc ℝ) :
    arcToCubics a = curveEls a.cmdC1 a.cmdC2 (fun k => a.cmdPt (k + 1)) a.cmdN := by
  unfold arcToCubics
  rw [arcTol_real, append_iter_eq]
  apply curveEls_congr
  intro k _
  exact ⟨rfl, rfl, arcPt_cmd a (k + 1)⟩

theorem chainStart_cmd (a : Arc ℝ) (k : ℕ) : chainStart (a.cmdPt 0) (fun k => a.cmdPt (k + 1)) k = a.cmdPt k := by
  cases k <;> rfl

theorem cmdN_eq_zero (a : Arc ℝ) (h : a.cmdN = 0) : a.sweep_angle = 0 := (appendParams_real a (1/10)).2.2.1 h

/-- a piece spans at most `2π/3.999999` -/
theorem cmd_step_le (a : Arc ℝ) (hn : a.cmdN ≠ 0) :
    |a.sweep_angle / (a.cmdN : ℝ)| ≤ 2 * Real.pi / (3999999 / 1000000) := by
  have h := (appendParams_real a (1/10)).2.2.2
  have hn' : (0 : ℝ) < (a.cmdN : ℝ) := by exact_mod_cast Nat.pos_of_ne_zero hn
  rw [abs_div, abs_of_pos hn', div_le_div_iff₀ hn' (by norm_num)]
  have : (a.cmdN : ℝ) = (((a.appendParams (1/10)).1 : ℕ) : ℝ) := rfl
  rw [this]; linarith

end count

section glue
variable [Scalar ℝ] [LawfulScalar ℝ] [LawfulReal] [LawfulRealAngle] [LawfulTrig] [LawfulCount]
open Real SvgArcR

/-- the arc of a non-degenerate command, with everything C16A says about it that the glue needs -/
theorem svg_arc_exists (arc : SvgArc ℝ) (h : arc.is_straight_line = false) :
    ∃ a, Arc.from_svg_arc arc = some a ∧ a.cmdPt 0 = arc.from ∧ a.cmdPt a.cmdN = arc.to ∧ a.sweep_angle ≠ 0 ∧
      1 ≤ a.cmdN ∧ 0 < a.radii.x ∧ 0 < a.radii.y ∧ a.x_rotation = arc.x_rotation := by
  have ha := from_svg_arc_real arc h
  have hsw : ∀ a, Arc.from_svg_arc arc = some a → a.sweep_angle ≠ 0 := by
    intro a ha
    obtain ⟨h1, h2⟩ := svg_arc_sweep_direction arc a h ha
    cases hs : arc.sweep
    · exact (h2 hs).2.ne
    · exact (h1 hs).1.ne'
  refine ⟨_, ha, ?_, ?_, hsw _ ha, ?_, ?_, ?_, rfl⟩
  · rw [Arc.cmdPt, cmdAngle_zero]; exact start_point_real arc h _ ha
  · rw [Arc.cmdPt, cmdAngle_last]; exact end_point_real arc h _ ha
  · rw [Nat.one_le_iff_ne_zero]
    intro h0
    exact hsw _ ha (cmdN_eq_zero _ h0)
  · exact (svg_hyps arc h).1
  · exact (svg_hyps arc h).2.1

end glue
end Kurbo
