import Proofs.Lemmas.C01
import Mathlib.Tactic.LinearCombination
/-! C11 helpers, triangle part (port of the design-round prototype `Proofs_Tr`): the three-signum closed form `triW`
    equals the crossing sum of the outline `a → b → c → a` (crossing indicator `kcr` of `Proofs/Lemmas/C01.lean`),
    in coordinates relative to the query point, for every point on no closed edge (`offEdge`), both orientations,
    rows through vertices included, provided the three cross products do not all vanish. -/
set_option linter.unusedSectionVars false
set_option linter.unusedVariables false
namespace Kurbo
namespace C11Tri
variable {K : Type} [Field K] [LinearOrder K] [IsStrictOrderedRing K] [FloorRing K] [Scalar K] [LawfulScalar K]

/-- `f64::signum` on a non-NaN value (`signum(0.0) = 1`) -/
def sgI (x : K) : Int := if x < 0 then -1 else 1

/-- `Triangle::winding` in relative coordinates: x0 = A×B, x1 = B×C, x2 = C×A -/
def triW (x0 x1 x2 : K) : Int := if sgI x0 = sgI x1 ∧ sgI x1 = sgI x2 then sgI x0 else 0

/-- off a closed edge: if the origin is on the supporting line it is outside the segment -/
def offEdge (ax ay bx by_ : K) : Prop := ax * by_ - ay * bx = 0 → 0 < ax * bx + ay * by_

theorem cross_ne_zero_of_sides {ax ay bx by_ : K} (h : offEdge ax ay bx by_)
    (hs : ay ≤ 0 ∧ 0 < by_ ∨ by_ ≤ 0 ∧ 0 < ay) : ax * by_ - ay * bx ≠ 0 := by
  intro hc
  have hd := h hc
  have e : ax * by_ = ay * bx := by linarith
  rcases hs with ⟨h1, h2⟩ | ⟨h1, h2⟩
  · -- (ax bx + ay by) * by = bx (ax by) + ay by² = bx ay bx + ay by² = ay (bx² + by²) ≤ 0
    have : (ax * bx + ay * by_) * by_ = ay * (bx * bx + by_ * by_) := by linear_combination bx * e
    have h3 : ay * (bx * bx + by_ * by_) ≤ 0 := mul_nonpos_of_nonpos_of_nonneg h1 (add_nonneg (mul_self_nonneg _) (mul_self_nonneg _))
    have h4 : 0 < (ax * bx + ay * by_) * by_ := mul_pos hd h2
    linarith
  · have : (ax * bx + ay * by_) * ay = by_ * (ax * ax + ay * ay) := by linear_combination (-ax) * e
    have h3 : by_ * (ax * ax + ay * ay) ≤ 0 := mul_nonpos_of_nonpos_of_nonneg h1 (add_nonneg (mul_self_nonneg _) (mul_self_nonneg _))
    have h4 : 0 < (ax * bx + ay * by_) * ay := mul_pos hd h2
    linarith

theorem kcr_above {ax ay bx by_ : K} (ha : 0 < ay) (hb : 0 < by_) : kcr ax ay bx by_ = 0 := by
  unfold kcr; split_ifs <;> first | rfl | (exfalso; rename_i h; linarith [h.1])
theorem kcr_below {ax ay bx by_ : K} (ha : ay ≤ 0) (hb : by_ ≤ 0) : kcr ax ay bx by_ = 0 := by
  unfold kcr; split_ifs <;> first | rfl | (exfalso; rename_i h; linarith [h.2.1])
theorem kcr_up {ax ay bx by_ : K} (ha : ay ≤ 0) (hb : 0 < by_) :
    kcr ax ay bx by_ = if ax * by_ - ay * bx ≤ 0 then -1 else 0 := by
  unfold kcr
  have h1 : ay < by_ := by linarith
  simp only [h1, if_true]
  split_ifs <;> first | rfl | (exfalso; tauto)
theorem kcr_down {ax ay bx by_ : K} (ha : 0 < ay) (hb : by_ ≤ 0) :
    kcr ax ay bx by_ = if 0 ≤ ax * by_ - ay * bx then 1 else 0 := by
  unfold kcr
  have h1 : ¬ ay < by_ := by linarith
  have h2 : by_ < ay := by linarith
  simp only [h1, h2, if_true, if_false]
  split_ifs <;> first | rfl | (exfalso; tauto)

theorem triW_eq (x0 x1 x2 : K) : triW x0 x1 x2 =
    if x0 < 0 ∧ x1 < 0 ∧ x2 < 0 then -1 else if 0 ≤ x0 ∧ 0 ≤ x1 ∧ 0 ≤ x2 then 1 else 0 := by
  unfold triW sgI
  by_cases h0 : x0 < 0 <;> by_cases h1 : x1 < 0 <;> by_cases h2 : x2 < 0 <;>
    simp [h0, h1, h2, not_lt.mp]

/-- the closed form in a shape that is visibly symmetric -/
def W (x0 x1 x2 : K) : Int := if x0 < 0 ∧ x1 < 0 ∧ x2 < 0 then -1 else if 0 ≤ x0 ∧ 0 ≤ x1 ∧ 0 ≤ x2 then 1 else 0

theorem W_rot (x0 x1 x2 : K) : W x1 x2 x0 = W x0 x1 x2 := by
  unfold W; split_ifs <;> first | rfl | (exfalso; tauto)

/-- one vertex at or below the row, two above: `xu` belongs to the upward edge, `xd` to the downward edge,
    `xo` to the opposite edge; the identity is the y-component of x₁A + x₂B + x₀C = 0 -/
theorem oddBelow {xu xo xd ya yb yc : K} (I : xo * ya + xd * yb + xu * yc = 0)
    (ha : ya ≤ 0) (hb : 0 < yb) (hc : 0 < yc) (hu : xu ≠ 0) (hd : xd ≠ 0) :
    (if xu ≤ 0 then (-1 : Int) else 0) + (if 0 ≤ xd then 1 else 0) = W xu xo xd := by
  unfold W
  rcases lt_or_gt_of_ne hu with su | su <;> rcases lt_or_gt_of_ne hd with sd | sd
  · -- both negative: the opposite one is negative too
    have so : xo < 0 := by
      by_contra h
      have h' : 0 ≤ xo := not_lt.mp h
      have t1 := mul_nonpos_of_nonneg_of_nonpos h' ha
      have t2 := mul_neg_of_neg_of_pos sd hb
      have t3 := mul_neg_of_neg_of_pos su hc
      linarith
    rw [if_pos su.le, if_neg (not_le.mpr sd), if_pos ⟨su, so, sd⟩]; rfl
  · rw [if_pos su.le, if_pos sd.le, if_neg (by rintro ⟨_, _, h⟩; linarith), if_neg (by rintro ⟨h, _, _⟩; linarith)]; rfl
  · rw [if_neg (not_le.mpr su), if_neg (not_le.mpr sd), if_neg (by rintro ⟨h, _, _⟩; linarith),
      if_neg (by rintro ⟨_, _, h⟩; linarith)]; rfl
  · have so : 0 ≤ xo := by
      by_contra h
      have h' : xo < 0 := not_le.mp h
      have t1 := mul_nonneg_of_nonpos_of_nonpos h'.le ha
      have t2 := mul_pos sd hb
      have t3 := mul_pos su hc
      linarith
    rw [if_neg (not_le.mpr su), if_pos sd.le, if_neg (by rintro ⟨h, _, _⟩; linarith), if_pos ⟨su.le, so, sd.le⟩]; rfl

/-- one vertex above the row, two at or below: `xd` belongs to the downward edge, `xu` to the upward one.
    `hopp` is what "the origin is not on the opposite edge" gives when that edge lies in the row. -/
theorem oddAbove {xd xo xu ya yb yc : K} (I : xo * ya + xu * yb + xd * yc = 0)
    (ha : 0 < ya) (hb : yb ≤ 0) (hc : yc ≤ 0) (hd : xd ≠ 0) (hu : xu ≠ 0)
    (hopp : yb = 0 → yc = 0 → xd * xu < 0) :
    (if 0 ≤ xd then (1 : Int) else 0) + (if xu ≤ 0 then -1 else 0) = W xd xo xu := by
  unfold W
  -- if the two crossing edges have cross products of the same sign, the three terms of `I` force the sign of xo
  have key : 0 < xd * xu → (0 ≤ xo * ya ∧ xd < 0 → False) ∧ (xo * ya ≤ 0 ∧ 0 < xd → False) := by
    intro hp
    constructor
    · rintro ⟨h1, sd⟩
      have su : xu < 0 := by
        by_contra h; have := mul_nonpos_of_nonpos_of_nonneg sd.le (not_lt.mp h); linarith
      have t2 := mul_nonneg_of_nonpos_of_nonpos su.le hb
      have t3 := mul_nonneg_of_nonpos_of_nonpos sd.le hc
      have e2 : xu * yb = 0 := by linarith
      have e3 : xd * yc = 0 := by linarith
      have hb0 : yb = 0 := by rcases mul_eq_zero.mp e2 with h | h; exact absurd h hu; exact h
      have hc0 : yc = 0 := by rcases mul_eq_zero.mp e3 with h | h; exact absurd h hd; exact h
      linarith [hopp hb0 hc0]
    · rintro ⟨h1, sd⟩
      have su : 0 < xu := by
        by_contra h; have := mul_nonpos_of_nonneg_of_nonpos sd.le (not_lt.mp h); linarith
      have t2 := mul_nonpos_of_nonneg_of_nonpos su.le hb
      have t3 := mul_nonpos_of_nonneg_of_nonpos sd.le hc
      have e2 : xu * yb = 0 := by linarith
      have e3 : xd * yc = 0 := by linarith
      have hb0 : yb = 0 := by rcases mul_eq_zero.mp e2 with h | h; exact absurd h hu; exact h
      have hc0 : yc = 0 := by rcases mul_eq_zero.mp e3 with h | h; exact absurd h hd; exact h
      linarith [hopp hb0 hc0]
  rcases lt_or_gt_of_ne hd with sd | sd <;> rcases lt_or_gt_of_ne hu with su | su
  · have so : xo < 0 := by
      by_contra h
      have h' : 0 ≤ xo := not_lt.mp h
      exact (key (mul_pos_of_neg_of_neg sd su)).1 ⟨mul_nonneg h' ha.le, sd⟩
    rw [if_neg (not_le.mpr sd), if_pos su.le, if_pos ⟨sd, so, su⟩]; rfl
  · rw [if_neg (not_le.mpr sd), if_neg (not_le.mpr su), if_neg (by rintro ⟨_, _, h⟩; linarith),
      if_neg (by rintro ⟨h, _, _⟩; linarith)]; rfl
  · rw [if_pos sd.le, if_pos su.le, if_neg (by rintro ⟨h, _, _⟩; linarith), if_neg (by rintro ⟨_, _, h⟩; linarith)]; rfl
  · have so : 0 ≤ xo := by
      by_contra h
      have h' : xo < 0 := not_le.mp h
      exact (key (mul_pos sd su)).2 ⟨(mul_neg_of_neg_of_pos h' ha).le, sd⟩
    rw [if_pos sd.le, if_neg (not_le.mpr su), if_neg (by rintro ⟨h, _, _⟩; linarith), if_pos ⟨sd.le, so, su.le⟩]; rfl

theorem triangle_winding (ax ay bx by_ cx cy : K)
    (hAB : offEdge ax ay bx by_) (hBC : offEdge bx by_ cx cy) (hCA : offEdge cx cy ax ay)
    (hnd : ¬ (ax * by_ - ay * bx = 0 ∧ bx * cy - by_ * cx = 0 ∧ cx * ay - cy * ax = 0)) :
    kcr ax ay bx by_ + kcr bx by_ cx cy + kcr cx cy ax ay
      = triW (ax * by_ - ay * bx) (bx * cy - by_ * cx) (cx * ay - cy * ax) := by
  -- the vector identity x1·A + x2·B + x0·C = 0, y-component and x-component
  have Iy : (bx * cy - by_ * cx) * ay + (cx * ay - cy * ax) * by_ + (ax * by_ - ay * bx) * cy = 0 := by ring
  have Ix : (bx * cy - by_ * cx) * ax + (cx * ay - cy * ax) * bx + (ax * by_ - ay * bx) * cx = 0 := by ring
  set x0 := ax * by_ - ay * bx with hx0
  set x1 := bx * cy - by_ * cx with hx1
  set x2 := cx * ay - cy * ax with hx2
  have n0 : (ay ≤ 0 ∧ 0 < by_ ∨ by_ ≤ 0 ∧ 0 < ay) → x0 ≠ 0 := cross_ne_zero_of_sides hAB
  have n1 : (by_ ≤ 0 ∧ 0 < cy ∨ cy ≤ 0 ∧ 0 < by_) → x1 ≠ 0 := cross_ne_zero_of_sides hBC
  have n2 : (cy ≤ 0 ∧ 0 < ay ∨ ay ≤ 0 ∧ 0 < cy) → x2 ≠ 0 := cross_ne_zero_of_sides hCA
  rw [triW_eq]
  change _ = W x0 x1 x2
  rcases lt_or_ge 0 ay with ha | ha <;> rcases lt_or_ge 0 by_ with hb | hb <;> rcases lt_or_ge 0 cy with hc | hc
  · -- all above
    rw [kcr_above ha hb, kcr_above hb hc, kcr_above hc ha]
    unfold W
    split_ifs with g1 g2
    · exfalso; nlinarith [g1.1, g1.2.1, g1.2.2]
    · exfalso; apply hnd
      have t1 := mul_nonneg g2.2.1 ha.le; have t2 := mul_nonneg g2.2.2 hb.le; have t0 := mul_nonneg g2.1 hc.le
      refine ⟨?_, ?_, ?_⟩
      · have : x0 * cy = 0 := by linarith
        rcases mul_eq_zero.mp this with h | h; exact h; linarith
      · have : x1 * ay = 0 := by linarith
        rcases mul_eq_zero.mp this with h | h; exact h; linarith
      · have : x2 * by_ = 0 := by linarith
        rcases mul_eq_zero.mp this with h | h; exact h; linarith
    · rfl
  · -- A, B above, C at/below: BC down (x1), CA up (x2), opposite AB (x0); odd vertex C below
    rw [kcr_above ha hb, kcr_down hb hc, kcr_up hc ha, ← hx1, ← hx2]
    have := oddBelow (xu := x2) (xo := x0) (xd := x1) (ya := cy) (yb := ay) (yc := by_) (by linarith) hc ha hb
      (n2 (Or.inl ⟨hc, ha⟩)) (n1 (Or.inr ⟨hc, hb⟩))
    rw [← W_rot x0 x1 x2, ← W_rot x1 x2 x0]; linarith
  · -- A, C above, B at/below: AB down (x0), BC up (x1), opposite CA (x2)
    rw [kcr_down ha hb, kcr_up hb hc, kcr_above hc ha, ← hx0, ← hx1]
    have := oddBelow (xu := x1) (xo := x2) (xd := x0) (ya := by_) (yb := cy) (yc := ay) (by linarith) hb hc ha
      (n1 (Or.inl ⟨hb, hc⟩)) (n0 (Or.inr ⟨hb, ha⟩))
    rw [← W_rot x0 x1 x2]; linarith
  · -- A above, B, C at/below: AB down (x0), CA up (x2), opposite BC (x1)
    rw [kcr_down ha hb, kcr_below hb hc, kcr_up hc ha, ← hx0, ← hx2]
    have hopp : by_ = 0 → cy = 0 → x0 * x2 < 0 := by
      intro h1 h2
      have hx1z : x1 = 0 := by rw [hx1, h1, h2]; ring
      have hd := hBC hx1z
      rw [h1, h2] at hd
      have e0 : x0 = -(ay * bx) := by rw [hx0, h1]; ring
      have e2 : x2 = cx * ay := by rw [hx2, h2]; ring
      rw [e0, e2]
      nlinarith [mul_pos ha ha, hd]
    have := oddAbove (xd := x0) (xo := x1) (xu := x2) (ya := ay) (yb := by_) (yc := cy) (by linarith) ha hb hc
      (n0 (Or.inr ⟨hb, ha⟩)) (n2 (Or.inl ⟨hc, ha⟩)) hopp
    linarith
  · -- A at/below, B, C above: AB up (x0), CA down (x2), opposite BC (x1)
    rw [kcr_up ha hb, kcr_above hb hc, kcr_down hc ha, ← hx0, ← hx2]
    have := oddBelow (xu := x0) (xo := x1) (xd := x2) (ya := ay) (yb := by_) (yc := cy) (by linarith) ha hb hc
      (n0 (Or.inl ⟨ha, hb⟩)) (n2 (Or.inr ⟨ha, hc⟩))
    linarith
  · -- B above, A, C at/below: AB up (x0), BC down (x1), opposite CA (x2)
    rw [kcr_up ha hb, kcr_down hb hc, kcr_below hc ha, ← hx0, ← hx1]
    have hopp : cy = 0 → ay = 0 → x1 * x0 < 0 := by
      intro h1 h2
      have hx2z : x2 = 0 := by rw [hx2, h1, h2]; ring
      have hd := hCA hx2z
      rw [h1, h2] at hd
      have e1 : x1 = -(by_ * cx) := by rw [hx1, h1]; ring
      have e0 : x0 = ax * by_ := by rw [hx0, h2]; ring
      rw [e1, e0]
      nlinarith [mul_pos hb hb, hd]
    have := oddAbove (xd := x1) (xo := x2) (xu := x0) (ya := by_) (yb := cy) (yc := ay) (by linarith) hb hc ha
      (n1 (Or.inr ⟨hc, hb⟩)) (n0 (Or.inl ⟨ha, hb⟩)) hopp
    rw [← W_rot x0 x1 x2]; linarith
  · -- C above, A, B at/below: BC up (x1), CA down (x2), opposite AB (x0)
    rw [kcr_below ha hb, kcr_up hb hc, kcr_down hc ha, ← hx1, ← hx2]
    have hopp : ay = 0 → by_ = 0 → x2 * x1 < 0 := by
      intro h1 h2
      have hx0z : x0 = 0 := by rw [hx0, h1, h2]; ring
      have hd := hAB hx0z
      rw [h1, h2] at hd
      have e2 : x2 = -(cy * ax) := by rw [hx2, h1]; ring
      have e1 : x1 = bx * cy := by rw [hx1, h2]; ring
      rw [e2, e1]
      nlinarith [mul_pos hc hc, hd]
    have := oddAbove (xd := x2) (xo := x0) (xu := x1) (ya := cy) (yb := ay) (yc := by_) (by linarith) hc ha hb
      (n2 (Or.inr ⟨ha, hc⟩)) (n1 (Or.inl ⟨hb, hc⟩)) hopp
    rw [← W_rot x0 x1 x2, ← W_rot x1 x2 x0]; linarith
  · -- all at/below the row: no edge crosses; the closed form must be 0
    rw [kcr_below ha hb, kcr_below hb hc, kcr_below hc ha]
    unfold W
    split_ifs with g1 g2
    · -- all negative
      exfalso
      have t1 := mul_nonneg_of_nonpos_of_nonpos g1.2.1.le ha
      have t2 := mul_nonneg_of_nonpos_of_nonpos g1.2.2.le hb
      have t0 := mul_nonneg_of_nonpos_of_nonpos g1.1.le hc
      have e1 : x1 * ay = 0 := by linarith
      have e2 : x2 * by_ = 0 := by linarith
      have ha0 : ay = 0 := by rcases mul_eq_zero.mp e1 with h | h; linarith [g1.2.1]; exact h
      have hb0 : by_ = 0 := by rcases mul_eq_zero.mp e2 with h | h; linarith [g1.2.2]; exact h
      have : x0 = 0 := by rw [hx0, ha0, hb0]; ring
      linarith [g1.1]
    · -- all non-negative
      exfalso
      have t1 := mul_nonpos_of_nonneg_of_nonpos g2.2.1 ha
      have t2 := mul_nonpos_of_nonneg_of_nonpos g2.2.2 hb
      have t0 := mul_nonpos_of_nonneg_of_nonpos g2.1 hc
      have e1 : x1 * ay = 0 := by linarith
      have e2 : x2 * by_ = 0 := by linarith
      have e0 : x0 * cy = 0 := by linarith
      rcases ha.lt_or_eq with ha' | ha' <;> rcases hb.lt_or_eq with hb' | hb' <;> rcases hc.lt_or_eq with hc' | hc'
      · -- no vertex in the row: all cross products vanish
        apply hnd
        refine ⟨?_, ?_, ?_⟩
        · rcases mul_eq_zero.mp e0 with h | h; exact h; linarith
        · rcases mul_eq_zero.mp e1 with h | h; exact h; linarith
        · rcases mul_eq_zero.mp e2 with h | h; exact h; linarith
      · -- only C in the row: x1 = x2 = 0, C is the origin
        have z1 : x1 = 0 := by rcases mul_eq_zero.mp e1 with h | h; exact h; linarith
        have z2 : x2 = 0 := by rcases mul_eq_zero.mp e2 with h | h; exact h; linarith
        have c0 : cx = 0 := by
          have : by_ * cx = 0 := by rw [hx1, hc'] at z1; linarith
          rcases mul_eq_zero.mp this with h | h; linarith; exact h
        have := hCA z2
        rw [c0, hc'] at this; simp at this
      · -- only B in the row
        have z1 : x1 = 0 := by rcases mul_eq_zero.mp e1 with h | h; exact h; linarith
        have z0 : x0 = 0 := by rcases mul_eq_zero.mp e0 with h | h; exact h; linarith
        have b0 : bx = 0 := by
          have : ay * bx = 0 := by rw [hx0, hb'] at z0; linarith
          rcases mul_eq_zero.mp this with h | h; linarith; exact h
        have := hBC z1
        rw [b0, hb'] at this; simp at this
      · -- B and C in the row
        have z1 : x1 = 0 := by rw [hx1, hb', hc']; ring
        have hd := hBC z1
        rw [hb', hc'] at hd
        have p0 : 0 ≤ -(ay * bx) := by have := g2.1; rw [hx0, hb'] at this; linarith
        have p2 : 0 ≤ cx * ay := by have := g2.2.2; rw [hx2, hc'] at this; linarith
        nlinarith [mul_pos (neg_pos.mpr ha') (neg_pos.mpr ha'), hd]
      · -- only A in the row
        have z2 : x2 = 0 := by rcases mul_eq_zero.mp e2 with h | h; exact h; linarith
        have z0 : x0 = 0 := by rcases mul_eq_zero.mp e0 with h | h; exact h; linarith
        have a0 : ax = 0 := by
          have : ax * by_ = 0 := by rw [hx0, ha'] at z0; linarith
          rcases mul_eq_zero.mp this with h | h; exact h; linarith
        have := hAB z0
        rw [a0, ha'] at this; simp at this
      · -- A and C in the row
        have z2 : x2 = 0 := by rw [hx2, ha', hc']; ring
        have hd := hCA z2
        rw [ha', hc'] at hd
        have p0 : 0 ≤ ax * by_ := by have := g2.1; rw [hx0, ha'] at this; linarith
        have p1 : 0 ≤ -(by_ * cx) := by have := g2.2.1; rw [hx1, hc'] at this; linarith
        nlinarith [mul_pos (neg_pos.mpr hb') (neg_pos.mpr hb'), hd]
      · -- A and B in the row
        have z0 : x0 = 0 := by rw [hx0, ha', hb']; ring
        have hd := hAB z0
        rw [ha', hb'] at hd
        have p1 : 0 ≤ bx * cy := by have := g2.2.1; rw [hx1, hb'] at this; linarith
        have p2 : 0 ≤ -(cy * ax) := by have := g2.2.2; rw [hx2, ha'] at this; linarith
        nlinarith [mul_pos (neg_pos.mpr hc') (neg_pos.mpr hc'), hd]
      · -- all three in the row: all cross products vanish
        apply hnd
        refine ⟨?_, ?_, ?_⟩
        · rw [hx0, ha', hb']; ring
        · rw [hx1, hb', hc']; ring
        · rw [hx2, hc', ha']; ring
    · rfl



end C11Tri
end Kurbo
