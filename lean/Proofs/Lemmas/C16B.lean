import Proofs.C16
/-! Definitions and helper lemmas for C16B (`parse_render`): abstract commands `C16Cmd`, their meaning `c16b_interp`, spelled
    commands `C16Spelled`, the byte string they spell `c16b_spell`, the well-formedness predicate `c16b_SpelledOk`, the
    one-command lemma `c16b_cmd` (all nine commands, absolute and relative, on top of the `cmd_*` lemmas of C16), the loop step
    `c16b_step` (explicit letter or implicit repetition) and the induction `c16b_loop`. Arbitrary `[Scalar K]`. -/
set_option linter.unusedSectionVars false
namespace Kurbo

/-! ## abstract commands -/

/-- an SVG path command over a type `α` of "numbers": `α = K` – the command's arguments as scalars; `α = NumChunk` – the
    command's arguments as they are spelled (`ws* number ws* ','?` each).  `rel = true` is the lower-case (relative) letter.
    Arcs are left out. -/
inductive C16Cmd (α : Type) where
  | moveTo (rel : Bool) (p : Point α)
  | lineTo (rel : Bool) (p : Point α)
  | horiz (rel : Bool) (x : α)
  | vert (rel : Bool) (y : α)
  | quadTo (rel : Bool) (p1 p2 : Point α)
  | smoothQuadTo (rel : Bool) (p : Point α)
  | curveTo (rel : Bool) (p1 p2 p3 : Point α)
  | smoothCurveTo (rel : Bool) (p2 p3 : Point α)
  | close (rel : Bool)
deriving DecidableEq

section
variable {α β : Type}

def c16b_mapPt (f : α → β) (p : Point α) : Point β := ⟨f p.x, f p.y⟩

/-- apply `f` to every number of the command -/
def C16Cmd.map (f : α → β) : C16Cmd α → C16Cmd β
  | .moveTo r p => .moveTo r (c16b_mapPt f p)
  | .lineTo r p => .lineTo r (c16b_mapPt f p)
  | .horiz r x => .horiz r (f x)
  | .vert r y => .vert r (f y)
  | .quadTo r p1 p2 => .quadTo r (c16b_mapPt f p1) (c16b_mapPt f p2)
  | .smoothQuadTo r p => .smoothQuadTo r (c16b_mapPt f p)
  | .curveTo r p1 p2 p3 => .curveTo r (c16b_mapPt f p1) (c16b_mapPt f p2) (c16b_mapPt f p3)
  | .smoothCurveTo r p2 p3 => .smoothCurveTo r (c16b_mapPt f p2) (c16b_mapPt f p3)
  | .close r => .close r

/-- the numbers of the command, in the order they are written -/
def C16Cmd.scalars : C16Cmd α → List α
  | .moveTo _ p => [p.x, p.y]
  | .lineTo _ p => [p.x, p.y]
  | .horiz _ x => [x]
  | .vert _ y => [y]
  | .quadTo _ p1 p2 => [p1.x, p1.y, p2.x, p2.y]
  | .smoothQuadTo _ p => [p.x, p.y]
  | .curveTo _ p1 p2 p3 => [p1.x, p1.y, p2.x, p2.y, p3.x, p3.y]
  | .smoothCurveTo _ p2 p3 => [p2.x, p2.y, p3.x, p3.y]
  | .close _ => []

/-- the command letter: `M L H V Q T C S Z`, lower case for `rel = true` -/
def C16Cmd.letter : C16Cmd α → UInt8
  | .moveTo r _ => if r then 109 else 77
  | .lineTo r _ => if r then 108 else 76
  | .horiz r _ => if r then 104 else 72
  | .vert r _ => if r then 118 else 86
  | .quadTo r _ _ => if r then 113 else 81
  | .smoothQuadTo r _ => if r then 116 else 84
  | .curveTo r _ _ _ => if r then 99 else 67
  | .smoothCurveTo r _ _ => if r then 115 else 83
  | .close r => if r then 122 else 90

def C16Cmd.isMove : C16Cmd α → Bool
  | .moveTo _ _ => true
  | _ => false

def C16Cmd.isClose : C16Cmd α → Bool
  | .close _ => true
  | _ => false

/-- `rel` flag of the command -/
def C16Cmd.rel : C16Cmd α → Bool
  | .moveTo r _ | .lineTo r _ | .horiz r _ | .vert r _ | .quadTo r _ _ | .smoothQuadTo r _ | .curveTo r _ _ _
  | .smoothCurveTo r _ _ | .close r => r

/-- what the parser remembers as `last_cmd` after the command: `M`/`m` leave `L`/`l`, `Z`/`z` leave it untouched -/
def c16b_nextCmd (lc : UInt8) : C16Cmd α → UInt8
  | .moveTo r _ => if r then 108 else 76
  | .close _ => lc
  | c => c.letter

/-- the list is empty or starts with a `moveTo` -/
def c16b_startsWithMove : List (C16Cmd α) → Prop
  | [] => True
  | c :: _ => c.isMove = true

@[simp] theorem C16Cmd.map_letter (f : α → β) (c : C16Cmd α) : (c.map f).letter = c.letter := by cases c <;> rfl
@[simp] theorem C16Cmd.map_isMove (f : α → β) (c : C16Cmd α) : (c.map f).isMove = c.isMove := by cases c <;> rfl
@[simp] theorem C16Cmd.map_isClose (f : α → β) (c : C16Cmd α) : (c.map f).isClose = c.isClose := by cases c <;> rfl
@[simp] theorem c16b_nextCmd_map (f : α → β) (lc : UInt8) (c : C16Cmd α) : c16b_nextCmd lc (c.map f) = c16b_nextCmd lc c := by
  cases c <;> rfl

theorem c16b_startsWithMove_map (f : α → β) (cs : List (C16Cmd α)) :
    c16b_startsWithMove (cs.map (C16Cmd.map f)) ↔ c16b_startsWithMove cs := by
  cases cs with
  | nil => exact Iff.rfl
  | cons c cs => simp [c16b_startsWithMove]

end

/-! ## meaning -/
section
variable {K : Type} [Scalar K]

/-- the point denoted by the coordinate pair `p`: `last + p` for a relative command, `p` for an absolute one
    (`+` is the model's `Point + Vec2`) -/
def c16b_pt (rel : Bool) (last p : Point K) : Point K := if rel then last + p.to_vec2 else p

/-- **meaning of one command** = the state update of the corresponding `step_*` lemma of C16: non-move commands first flush the
    pending implicit `MoveTo` (`st.flushed`), then one path element is appended and `last_pt`, `last_ctrl`, `last_cmd` (and for
    `moveTo` `first_pt`) are updated; `close` does *not* touch `last_cmd`, clears `last_ctrl`, goes back to `first_pt` and leaves a
    pending implicit `MoveTo first_pt`. -/
def c16b_interp (st : SvgSt K) : C16Cmd K → SvgSt K
  | .moveTo rel p =>
    let pt := c16b_pt rel st.last_pt p
    { st with
        implicit_moveto := none, path := st.path ++ [.MoveTo pt], last_pt := pt, first_pt := pt, last_ctrl := some pt,
        last_cmd := if rel then 108 else 76 }
  | .lineTo rel p =>
    let pt := c16b_pt rel st.last_pt p
    { st.flushed with
        path := st.flushed.path ++ [.LineTo pt], last_ctrl := some pt, last_pt := pt, last_cmd := if rel then 108 else 76 }
  | .horiz rel x =>
    let pt : Point K := ⟨if rel then Scalar.add x st.last_pt.x else x, st.last_pt.y⟩
    { st.flushed with
        path := st.flushed.path ++ [.LineTo pt], last_ctrl := some pt, last_pt := pt, last_cmd := if rel then 104 else 72 }
  | .vert rel y =>
    let pt : Point K := ⟨st.last_pt.x, if rel then Scalar.add y st.last_pt.y else y⟩
    { st.flushed with
        path := st.flushed.path ++ [.LineTo pt], last_ctrl := some pt, last_pt := pt, last_cmd := if rel then 118 else 86 }
  | .quadTo rel p1 p2 =>
    let q1 := c16b_pt rel st.last_pt p1
    let q2 := c16b_pt rel st.last_pt p2
    { st.flushed with
        path := st.flushed.path ++ [.QuadTo q1 q2], last_ctrl := some q1, last_pt := q2, last_cmd := if rel then 113 else 81 }
  | .smoothQuadTo rel p =>
    let q1 := st.flushed.smoothQuadCtrl
    let q2 := c16b_pt rel st.last_pt p
    { st.flushed with
        path := st.flushed.path ++ [.QuadTo q1 q2], last_ctrl := some q1, last_pt := q2, last_cmd := if rel then 116 else 84 }
  | .curveTo rel p1 p2 p3 =>
    let q1 := c16b_pt rel st.last_pt p1
    let q2 := c16b_pt rel st.last_pt p2
    let q3 := c16b_pt rel st.last_pt p3
    { st.flushed with
        path := st.flushed.path ++ [.CurveTo q1 q2 q3], last_ctrl := some q2, last_pt := q3, last_cmd := if rel then 99 else 67 }
  | .smoothCurveTo rel p2 p3 =>
    let q1 := st.flushed.smoothCubicCtrl
    let q2 := c16b_pt rel st.last_pt p2
    let q3 := c16b_pt rel st.last_pt p3
    { st.flushed with
        path := st.flushed.path ++ [.CurveTo q1 q2 q3], last_ctrl := some q2, last_pt := q3,
        last_cmd := if rel then 115 else 83 }
  | .close _ =>
    { st.flushed with
        path := st.flushed.path ++ [.ClosePath], last_pt := st.first_pt, last_ctrl := none,
        implicit_moveto := some st.first_pt }

/-- meaning of a command list: fold from the left -/
def c16b_run (st : SvgSt K) (cs : List (C16Cmd K)) : SvgSt K := cs.foldl c16b_interp st

@[simp] theorem c16b_run_nil (st : SvgSt K) : c16b_run st [] = st := rfl
@[simp] theorem c16b_run_cons (st : SvgSt K) (c : C16Cmd K) (cs : List (C16Cmd K)) :
    c16b_run st (c :: cs) = c16b_run (c16b_interp st c) cs := rfl

theorem c16b_run_append (st : SvgSt K) (cs ds : List (C16Cmd K)) :
    c16b_run st (cs ++ ds) = c16b_run (c16b_run st cs) ds := by
  simp [c16b_run, List.foldl_append]

theorem c16b_interp_last_cmd (st : SvgSt K) (c : C16Cmd K) : (c16b_interp st c).last_cmd = c16b_nextCmd st.last_cmd c := by
  cases c <;> simp [c16b_interp, c16b_nextCmd, C16Cmd.letter]

theorem c16b_interp_path_ne (st : SvgSt K) (c : C16Cmd K) : (c16b_interp st c).path ≠ [] := by
  cases c <;> simp [c16b_interp]

theorem c16b_relPt (c : UInt8) (rel : Bool) (h : isLower c = rel) (last p : Point K) : relPt c last p = c16b_pt rel last p := by
  unfold relPt c16b_pt; rw [h]

end

/-! ## spelling -/

/-- the coordinate pair as a `PtChunk` -/
def c16b_ptc (p : Point NumChunk) : PtChunk := ⟨p.x, p.y⟩

/-- the bytes of the arguments of a spelled command -/
def C16Cmd.argBytes : C16Cmd NumChunk → List UInt8
  | .moveTo _ p => (c16b_ptc p).bytes
  | .lineTo _ p => (c16b_ptc p).bytes
  | .horiz _ x => x.bytes
  | .vert _ y => y.bytes
  | .quadTo _ p1 p2 => (c16b_ptc p1).bytes ++ (c16b_ptc p2).bytes
  | .smoothQuadTo _ p => (c16b_ptc p).bytes
  | .curveTo _ p1 p2 p3 => (c16b_ptc p1).bytes ++ ((c16b_ptc p2).bytes ++ (c16b_ptc p3).bytes)
  | .smoothCurveTo _ p2 p3 => (c16b_ptc p2).bytes ++ (c16b_ptc p3).bytes
  | .close _ => []

/-- every number chunk of the command is well formed in front of what follows it (`r` = what follows the command): white space,
    a valid number that cannot be continued by the next byte, a separator `ws* ','?` that is all `optComma` will eat -/
def C16Cmd.ArgsOk : C16Cmd NumChunk → List UInt8 → Prop
  | .moveTo _ p, r => (c16b_ptc p).Ok r
  | .lineTo _ p, r => (c16b_ptc p).Ok r
  | .horiz _ x, r => x.Ok r
  | .vert _ y, r => y.Ok r
  | .quadTo _ p1 p2, r => (c16b_ptc p1).Ok ((c16b_ptc p2).bytes ++ r) ∧ (c16b_ptc p2).Ok r
  | .smoothQuadTo _ p, r => (c16b_ptc p).Ok r
  | .curveTo _ p1 p2 p3, r =>
    (c16b_ptc p1).Ok ((c16b_ptc p2).bytes ++ ((c16b_ptc p3).bytes ++ r)) ∧ (c16b_ptc p2).Ok ((c16b_ptc p3).bytes ++ r) ∧
      (c16b_ptc p3).Ok r
  | .smoothCurveTo _ p2 p3, r => (c16b_ptc p2).Ok ((c16b_ptc p3).bytes ++ r) ∧ (c16b_ptc p3).Ok r
  | .close _, _ => True

/-- a spelled command: white space, the letter (or nothing: implicit repetition of the previous command), the spelled arguments -/
structure C16Spelled where
  ws : List UInt8 := []
  /-- `false`: the letter is omitted (implicit repetition) -/
  explicit : Bool := true
  cmd : C16Cmd NumChunk

def C16Spelled.bytes (s : C16Spelled) : List UInt8 :=
  s.ws ++ ((if s.explicit then [s.cmd.letter] else []) ++ s.cmd.argBytes)

/-- the spelled command is well formed after a command that left `lc` in `last_cmd` and in front of `r`:
    white space is white space, the arguments are well formed, and the letter may only be omitted (no white space of its own then –
    the first number chunk has some) if the command is neither `M` nor `Z` and its letter is what the parser remembers -/
structure C16Spelled.Ok (s : C16Spelled) (lc : UInt8) (r : List UInt8) : Prop where
  ws : ∀ b ∈ s.ws, isWs b = true
  args : s.cmd.ArgsOk r
  implicit : s.explicit = false → s.ws = [] ∧ s.cmd.letter = lc ∧ s.cmd.isMove = false ∧ s.cmd.isClose = false

/-- the byte string spelled by a list of spelled commands, followed by `tail` (trailing white space) -/
def c16b_spell : List C16Spelled → List UInt8 → List UInt8
  | [], tail => tail
  | s :: ss, tail => s.bytes ++ c16b_spell ss tail

/-- all spelled commands are well formed in front of what follows them, the tail is white space; `lc` = `last_cmd` before the
    first command -/
def c16b_SpelledOk (lc : UInt8) : List C16Spelled → List UInt8 → Prop
  | [], tail => ∀ b ∈ tail, isWs b = true
  | s :: ss, tail => s.Ok lc (c16b_spell ss tail) ∧ c16b_SpelledOk (c16b_nextCmd lc s.cmd) ss tail

section
variable {K : Type} [Scalar K]

/-- the abstract command a spelled command denotes: every chunk replaced by its value `tokValue (parseTok number)` -/
def C16Spelled.value (s : C16Spelled) : C16Cmd K := s.cmd.map NumChunk.value

theorem c16b_ptc_value (p : Point NumChunk) : ((c16b_ptc p).value : Point K) = c16b_mapPt NumChunk.value p := rfl

/-! ## one command -/

/-- `svgCommand` on the spelled arguments of any of the nine commands (after the letter has been read or implied) -/
theorem c16b_cmd (st : SvgSt K) (l : Lx) (c : C16Cmd NumChunk) (r : List UInt8) (hrem : l.rem = c.argBytes ++ r)
    (hok : c.ArgsOk r) (hp : st.path ≠ [] ∨ c.isMove = true) :
    svgCommand c.letter st l = .ok (c16b_interp st (c.map NumChunk.value)) (l.adv c.argBytes.length) := by
  cases c with
  | moveTo rel p =>
    cases rel
    · rw [show (C16Cmd.moveTo false p).letter = 77 from rfl, cmd_moveTo st l r 77 (.inr rfl) (c16b_ptc p) hrem hok]
      simp only [c16b_relPt 77 false (by decide)]; rfl
    · rw [show (C16Cmd.moveTo true p).letter = 109 from rfl, cmd_moveTo st l r 109 (.inl rfl) (c16b_ptc p) hrem hok]
      simp only [c16b_relPt 109 true (by decide)]; rfl
  | lineTo rel p =>
    have hp' : st.path ≠ [] := by rcases hp with h | h; exact h; cases h
    cases rel
    · rw [show (C16Cmd.lineTo false p).letter = 76 from rfl, cmd_lineTo st l r 76 (.inr rfl) (c16b_ptc p) hrem hok hp']
      simp only [c16b_relPt 76 false (by decide)]; rfl
    · rw [show (C16Cmd.lineTo true p).letter = 108 from rfl, cmd_lineTo st l r 108 (.inl rfl) (c16b_ptc p) hrem hok hp']
      simp only [c16b_relPt 108 true (by decide)]; rfl
  | horiz rel x =>
    have hp' : st.path ≠ [] := by rcases hp with h | h; exact h; cases h
    cases rel
    · rw [show (C16Cmd.horiz false x).letter = 72 from rfl, cmd_horiz st l r 72 (.inr rfl) x hrem hok hp']; rfl
    · rw [show (C16Cmd.horiz true x).letter = 104 from rfl, cmd_horiz st l r 104 (.inl rfl) x hrem hok hp']; rfl
  | vert rel y =>
    have hp' : st.path ≠ [] := by rcases hp with h | h; exact h; cases h
    cases rel
    · rw [show (C16Cmd.vert false y).letter = 86 from rfl, cmd_vert st l r 86 (.inr rfl) y hrem hok hp']; rfl
    · rw [show (C16Cmd.vert true y).letter = 118 from rfl, cmd_vert st l r 118 (.inl rfl) y hrem hok hp']; rfl
  | quadTo rel p1 p2 =>
    have hp' : st.path ≠ [] := by rcases hp with h | h; exact h; cases h
    have hrem' : l.rem = (c16b_ptc p1).bytes ++ ((c16b_ptc p2).bytes ++ r) := by rw [hrem]; simp [C16Cmd.argBytes]
    have hlen : (C16Cmd.quadTo rel p1 p2).argBytes.length = (c16b_ptc p1).bytes.length + (c16b_ptc p2).bytes.length := by
      simp [C16Cmd.argBytes]
    rw [hlen]
    cases rel
    · rw [show (C16Cmd.quadTo false p1 p2).letter = 81 from rfl,
        cmd_quadTo st l r 81 (.inr rfl) (c16b_ptc p1) (c16b_ptc p2) hrem' hok.1 hok.2 hp']
      simp only [c16b_relPt 81 false (by decide)]; rfl
    · rw [show (C16Cmd.quadTo true p1 p2).letter = 113 from rfl,
        cmd_quadTo st l r 113 (.inl rfl) (c16b_ptc p1) (c16b_ptc p2) hrem' hok.1 hok.2 hp']
      simp only [c16b_relPt 113 true (by decide)]; rfl
  | smoothQuadTo rel p =>
    have hp' : st.path ≠ [] := by rcases hp with h | h; exact h; cases h
    cases rel
    · rw [show (C16Cmd.smoothQuadTo false p).letter = 84 from rfl,
        cmd_smoothQuadTo st l r 84 (.inr rfl) (c16b_ptc p) hrem hok hp']
      simp only [c16b_relPt 84 false (by decide)]; rfl
    · rw [show (C16Cmd.smoothQuadTo true p).letter = 116 from rfl,
        cmd_smoothQuadTo st l r 116 (.inl rfl) (c16b_ptc p) hrem hok hp']
      simp only [c16b_relPt 116 true (by decide)]; rfl
  | curveTo rel p1 p2 p3 =>
    have hp' : st.path ≠ [] := by rcases hp with h | h; exact h; cases h
    have hrem' : l.rem = (c16b_ptc p1).bytes ++ ((c16b_ptc p2).bytes ++ ((c16b_ptc p3).bytes ++ r)) := by
      rw [hrem]; simp [C16Cmd.argBytes]
    have hlen : (C16Cmd.curveTo rel p1 p2 p3).argBytes.length =
        (c16b_ptc p1).bytes.length + (c16b_ptc p2).bytes.length + (c16b_ptc p3).bytes.length := by
      simp [C16Cmd.argBytes, Nat.add_assoc]
    rw [hlen]
    cases rel
    · rw [show (C16Cmd.curveTo false p1 p2 p3).letter = 67 from rfl,
        cmd_curveTo st l r 67 (.inr rfl) (c16b_ptc p1) (c16b_ptc p2) (c16b_ptc p3) hrem' hok.1 hok.2.1 hok.2.2 hp']
      simp only [c16b_relPt 67 false (by decide)]; rfl
    · rw [show (C16Cmd.curveTo true p1 p2 p3).letter = 99 from rfl,
        cmd_curveTo st l r 99 (.inl rfl) (c16b_ptc p1) (c16b_ptc p2) (c16b_ptc p3) hrem' hok.1 hok.2.1 hok.2.2 hp']
      simp only [c16b_relPt 99 true (by decide)]; rfl
  | smoothCurveTo rel p2 p3 =>
    have hp' : st.path ≠ [] := by rcases hp with h | h; exact h; cases h
    have hrem' : l.rem = (c16b_ptc p2).bytes ++ ((c16b_ptc p3).bytes ++ r) := by rw [hrem]; simp [C16Cmd.argBytes]
    have hlen : (C16Cmd.smoothCurveTo rel p2 p3).argBytes.length = (c16b_ptc p2).bytes.length + (c16b_ptc p3).bytes.length := by
      simp [C16Cmd.argBytes]
    rw [hlen]
    cases rel
    · rw [show (C16Cmd.smoothCurveTo false p2 p3).letter = 83 from rfl,
        cmd_smoothCurveTo st l r 83 (.inr rfl) (c16b_ptc p2) (c16b_ptc p3) hrem' hok.1 hok.2 hp']
      simp only [c16b_relPt 83 false (by decide)]; rfl
    · rw [show (C16Cmd.smoothCurveTo true p2 p3).letter = 115 from rfl,
        cmd_smoothCurveTo st l r 115 (.inl rfl) (c16b_ptc p2) (c16b_ptc p3) hrem' hok.1 hok.2 hp']
      simp only [c16b_relPt 115 true (by decide)]; rfl
  | close rel =>
    have hp' : st.path ≠ [] := by rcases hp with h | h; exact h; cases h
    cases rel
    · rw [show (C16Cmd.close (α := NumChunk) false).letter = 90 from rfl, cmd_close st l 90 (.inr rfl) hp']; rfl
    · rw [show (C16Cmd.close (α := NumChunk) true).letter = 122 from rfl, cmd_close st l 122 (.inl rfl) hp']; rfl

end
end Kurbo
