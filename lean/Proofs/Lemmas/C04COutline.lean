import Proofs.Lemmas.C04Loop
import Proofs.Lemmas.C04Struct
/-! Helper lemmas for C04C, part 1 (structure; any `[Scalar K]`, core Lean only): what `strokeUndashed` returns, written out
    element by element, on a source with one segment and on a source with two segments and a bevel join. The only tests the
    model performs on these inputs are the point (in)equalities of the element loop, the join-skip test and the sign tests of the
    inner-join pivot; they are hypotheses here (stated as the model's `Bool` expressions). -/
set_option linter.unusedSectionVars false
set_option linter.unusedVariables false
namespace Kurbo
open PathEl
variable {K : Type} [Scalar K]

/-- the outline if the model answered `.ok` (for `decide`-checked examples: `StrokeRes` has no decidable equality) -/
def c04c_okOut : StrokeRes K → Option (List (PathEl K))
  | .ok l => some l
  | _ => none

/-- `join_thresh = 2·tolerance / width`, the tolerance `finish` / `do_join` pass to round caps and joins -/
def c04c_jt (w tol : K) : K := open Ops in (2 : K) * tol / w

/-- **one segment**: `MoveTo (p0 − n), LineTo (p1 − n), end cap at p1, LineTo (p0 + n), start cap at p0`, `n = c04_norm w (p1 − p0)` -/
theorem c04c_strokeOne (p0 p1 : Point K) (style : StrokeStyle K) (tol : K) (h : p1.peq p0 = false) :
    strokeUndashed [MoveTo p0, LineTo p1] style tol =
      .ok (MoveTo (p0 - c04_norm style.width (p1 - p0)) :: LineTo (p1 - c04_norm style.width (p1 - p0)) ::
        (c04_endCap (c04c_jt style.width tol) style p1 (p1 + c04_norm style.width (p1 - p0)) ++ [LineTo (p0 + c04_norm style.width (p1 - p0))]
          ++ c04_startCap (c04c_jt style.width tol) style p0 (c04_norm style.width (p1 - p0)))) := by
  simp only [strokeUndashed, strokeLoop, StrokeCtx.finish, List.isEmpty_nil, if_true, h, Bool.not_false,
    StrokeCtx.do_join, StrokeCtx.do_line, List.nil_append]
  rfl

/-- the join-skip test of `do_join` at the second segment of `[MoveTo p0, LineTo p1, LineTo p2]` (`true`: a join is made);
    `join_thresh = 2·tolerance / width` -/
def c04c_joinTest2 (p0 p1 p2 : Point K) (w tol : K) : Bool :=
  open Ops in
  let cross := (p1 - p0).cross (p2 - p1)
  let dot := (p1 - p0).dot (p2 - p1)
  let hypot := Scalar.hypot cross dot
  (dot <=. (0 : K)) || (hypot * ((2 : K) * tol / w) <=. sabs cross)

/-- **two segments, bevel join, left turn** (`cross > 0`): the forward (right-hand) side gets the bevel edge
    `p1 − n1 → p1 − n2`, the backward (left-hand, inner) side goes through the join point `p1` -/
theorem c04c_strokeTwo_left (p0 p1 p2 : Point K) (style : StrokeStyle K) (tol : K) (h1 : p1.peq p0 = false)
    (h2 : p2.peq p1 = false) (hj : style.join = 0) (ht : c04c_joinTest2 p0 p1 p2 style.width tol = true)
    (hc : (open Ops in ((0 : K) <. (p1 - p0).cross (p2 - p1))) = true) :
    strokeUndashed [MoveTo p0, LineTo p1, LineTo p2] style tol =
      .ok (MoveTo (p0 - c04_norm style.width (p1 - p0)) :: LineTo (p1 - c04_norm style.width (p1 - p0)) ::
        LineTo (p1 - c04_norm style.width (p2 - p1)) :: LineTo (p2 - c04_norm style.width (p2 - p1)) ::
        (c04_endCap (c04c_jt style.width tol) style p2 (p2 + c04_norm style.width (p2 - p1)) ++
          [LineTo (p1 + c04_norm style.width (p2 - p1)), LineTo p1, LineTo (p1 + c04_norm style.width (p1 - p0)),
           LineTo (p0 + c04_norm style.width (p1 - p0))]
          ++ c04_startCap (c04c_jt style.width tol) style p0 (c04_norm style.width (p1 - p0)))) := by
  obtain ⟨w, j, ml, sc, ec⟩ := style
  simp only at hj
  subst hj
  simp only [c04c_joinTest2] at ht
  simp only [strokeUndashed, strokeLoop, StrokeCtx.finish, List.isEmpty_nil, if_true, h1, h2, Bool.not_false,
    StrokeCtx.do_join, StrokeCtx.do_line, List.nil_append, StrokeCtx.inner_join_pivot, ht, hc]
  rfl

/-- **two segments, bevel join, right turn** (`cross < 0`): the forward (right-hand, inner) side goes through the join point,
    the backward side gets the bevel edge `p1 + n1 → p1 + n2` -/
theorem c04c_strokeTwo_right (p0 p1 p2 : Point K) (style : StrokeStyle K) (tol : K) (h1 : p1.peq p0 = false)
    (h2 : p2.peq p1 = false) (hj : style.join = 0) (ht : c04c_joinTest2 p0 p1 p2 style.width tol = true)
    (hc0 : (open Ops in ((0 : K) <. (p1 - p0).cross (p2 - p1))) = false)
    (hc : (open Ops in ((p1 - p0).cross (p2 - p1) <. (0 : K))) = true) :
    strokeUndashed [MoveTo p0, LineTo p1, LineTo p2] style tol =
      .ok (MoveTo (p0 - c04_norm style.width (p1 - p0)) :: LineTo (p1 - c04_norm style.width (p1 - p0)) :: LineTo p1 ::
        LineTo (p1 - c04_norm style.width (p2 - p1)) :: LineTo (p2 - c04_norm style.width (p2 - p1)) ::
        (c04_endCap (c04c_jt style.width tol) style p2 (p2 + c04_norm style.width (p2 - p1)) ++
          [LineTo (p1 + c04_norm style.width (p2 - p1)), LineTo (p1 + c04_norm style.width (p1 - p0)),
           LineTo (p0 + c04_norm style.width (p1 - p0))]
          ++ c04_startCap (c04c_jt style.width tol) style p0 (c04_norm style.width (p1 - p0)))) := by
  obtain ⟨w, j, ml, sc, ec⟩ := style
  simp only at hj
  subst hj
  simp only [c04c_joinTest2] at ht
  simp only [strokeUndashed, strokeLoop, StrokeCtx.finish, List.isEmpty_nil, if_true, h1, h2, Bool.not_false,
    StrokeCtx.do_join, StrokeCtx.do_line, List.nil_append, StrokeCtx.inner_join_pivot, ht, hc, hc0,
    Bool.false_eq_true, if_false]
  rfl

/-- when the join-skip test fails (a tiny forward turn, positive tolerance) NO join is made: the two offset edges are connected
    directly and the outline has six vertices -/
theorem c04c_strokeTwo_skipped (p0 p1 p2 : Point K) (style : StrokeStyle K) (tol : K) (h1 : p1.peq p0 = false)
    (h2 : p2.peq p1 = false) (ht : c04c_joinTest2 p0 p1 p2 style.width tol = false) :
    strokeUndashed [MoveTo p0, LineTo p1, LineTo p2] style tol =
      .ok (MoveTo (p0 - c04_norm style.width (p1 - p0)) :: LineTo (p1 - c04_norm style.width (p1 - p0)) ::
        LineTo (p2 - c04_norm style.width (p2 - p1)) ::
        (c04_endCap (c04c_jt style.width tol) style p2 (p2 + c04_norm style.width (p2 - p1)) ++
          [LineTo (p1 + c04_norm style.width (p1 - p0)), LineTo (p0 + c04_norm style.width (p1 - p0))]
          ++ c04_startCap (c04c_jt style.width tol) style p0 (c04_norm style.width (p1 - p0)))) := by
  simp only [c04c_joinTest2] at ht
  simp only [strokeUndashed, strokeLoop, StrokeCtx.finish, List.isEmpty_nil, if_true, h1, h2, Bool.not_false,
    StrokeCtx.do_join, StrokeCtx.do_line, List.nil_append, ht, Bool.false_eq_true, if_false]
  rfl

end Kurbo
