import Proofs.KDefs
import Mathlib.Algebra.BigOperators.Group.Finset.Basic
/-! Helper definitions and lemmas for `Proofs/C18.lean`, algebraic part (any lawful scalar).

    The kernel function `momentIntegrals` is a closed form in the Bernstein control points.  Here it is connected to
    the power basis: with `x(t) = Σ aᵢ tⁱ`, `y(t) = Σ bⱼ tʲ`, `x′(t) = Σ dₖ tᵏ` the three components are values at `1`
    of the formal antiderivative `c18_F a b d t = Σ aᵢ bⱼ dₖ t^(i+j+k+1)/(i+j+k+1)` of the product, and the moment
    integrals of a sub-segment `[t0,t1]` are the differences `F(t1) − F(t0)` (`c18_mi_subsegment`). -/
set_option linter.unusedSectionVars false
namespace Kurbo
open Finset

section defs
variable {K : Type} [Field K]

/-- a cubic polynomial as a coefficient sequence -/
def c18_cf4 (a0 a1 a2 a3 : K) : ℕ → K
  | 0 => a0 | 1 => a1 | 2 => a2 | 3 => a3 | _ => 0

/-- power-basis coefficients of `s ↦ p (t + h·s)` for the cubic `p = Σ aᵢ sⁱ` -/
def c18_shift (a : ℕ → K) (t h : K) : ℕ → K :=
  c18_cf4 (a 0 + a 1 * t + a 2 * t ^ 2 + a 3 * t ^ 3) (h * (a 1 + 2 * a 2 * t + 3 * a 3 * t ^ 2))
    (h ^ 2 * (a 2 + 3 * a 3 * t)) (h ^ 3 * a 3)

/-- coefficients of the formal derivative -/
def c18_der (a : ℕ → K) : ℕ → K := fun k => ((k : K) + 1) * a (k + 1)

/-- the polynomial `Σ_{i<n} aᵢ tⁱ` -/
def c18_poly (a : ℕ → K) (n : ℕ) (t : K) : K := ∑ i ∈ range n, a i * t ^ i

/-- formal antiderivative (vanishing at `0`) of `(Σ_{i<4} aᵢ tⁱ)·(Σ_{j<4} bⱼ tʲ)·(Σ_{k<3} dₖ tᵏ)` -/
def c18_F (a b d : ℕ → K) (t : K) : K :=
  ∑ i ∈ range 4, ∑ j ∈ range 4, ∑ k ∈ range 3,
    a i * b j * d k * t ^ (i + j + k + 1) / (((i + j + k : ℕ) : K) + 1)

/-- the constant polynomial `1` -/
def c18_one : ℕ → K := c18_cf4 1 0 0 0

theorem c18_F_zero (a b d : ℕ → K) : c18_F a b d 0 = 0 := by
  simp [c18_F]

theorem c18_shift_one (t h : K) : c18_shift (c18_one : ℕ → K) t h = c18_one := by
  simp [c18_shift, c18_one, c18_cf4]

/-- `p(t + h·s)` for `s = 1` and the antiderivative: the change of variables `u = t + h·s`, as a polynomial identity -/
theorem c18_F_shift [CharZero K] (a b c : ℕ → K) (t h : K) :
    c18_F (c18_shift a t h) (c18_shift b t h) (c18_der (c18_shift c t h)) 1
      = c18_F a b (c18_der c) (t + h) - c18_F a b (c18_der c) t := by
  simp only [c18_F, c18_shift, c18_der, c18_cf4, sum_range_succ, sum_range_zero]
  push_cast
  ring

end defs

section lawful
variable {K : Type} [Field K] [LinearOrder K] [IsStrictOrderedRing K] [FloorRing K] [Scalar K] [LawfulScalar K]

theorem c18_point_add_sub (p : Point K) (w : Vec2 K) : ((p + w) - p : Vec2 K) = w := by
  cases w; cases p
  simp only [kdefs, scalar_norm, Vec2.mk.injEq]
  constructor <;> ring

theorem c18_deriv_eval_zero (c : CubicBez K) :
    c.deriv.eval 0 = ⟨3 * (c.p1.x - c.p0.x), 3 * (c.p1.y - c.p0.y)⟩ := by kring
theorem c18_deriv_eval_one (c : CubicBez K) :
    c.deriv.eval 1 = ⟨3 * (c.p3.x - c.p2.x), 3 * (c.p3.y - c.p2.y)⟩ := by kring

/-- power-basis coefficients of the `x` coordinate of a cubic Bézier -/
def c18_px (c : CubicBez K) : ℕ → K :=
  c18_cf4 c.p0.x (3 * (c.p1.x - c.p0.x)) (3 * (c.p2.x - 2 * c.p1.x + c.p0.x))
    (c.p3.x - 3 * c.p2.x + 3 * c.p1.x - c.p0.x)
/-- power-basis coefficients of the `y` coordinate of a cubic Bézier -/
def c18_py (c : CubicBez K) : ℕ → K :=
  c18_cf4 c.p0.y (3 * (c.p1.y - c.p0.y)) (3 * (c.p2.y - 2 * c.p1.y + c.p0.y))
    (c.p3.y - 3 * c.p2.y + 3 * c.p1.y - c.p0.y)

theorem c18_eval_x (c : CubicBez K) (t : K) : (c.eval t).x = c18_poly (c18_px c) 4 t := by
  simp only [c18_poly, c18_px, c18_cf4, sum_range_succ, sum_range_zero]; kring
theorem c18_eval_y (c : CubicBez K) (t : K) : (c.eval t).y = c18_poly (c18_py c) 4 t := by
  simp only [c18_poly, c18_py, c18_cf4, sum_range_succ, sum_range_zero]; kring
theorem c18_deriv_x (c : CubicBez K) (t : K) : (c.deriv.eval t).x = c18_poly (c18_der (c18_px c)) 3 t := by
  simp only [c18_poly, c18_der, c18_px, c18_cf4, sum_range_succ, sum_range_zero]; kring
theorem c18_deriv_y (c : CubicBez K) (t : K) : (c.deriv.eval t).y = c18_poly (c18_der (c18_py c)) 3 t := by
  simp only [c18_poly, c18_der, c18_py, c18_cf4, sum_range_succ, sum_range_zero]; kring
theorem c18_one_poly (t : K) : c18_poly (c18_one : ℕ → K) 4 t = 1 := by
  simp [c18_poly, c18_one, c18_cf4, sum_range_succ]

/-- the sub-segment `[t0,t1]` in the power basis: substitute `t0 + (t1 − t0)·s` -/
theorem c18_px_subsegment (c : CubicBez K) (t0 t1 : K) :
    c18_px (c.subsegment ⟨t0, t1⟩) = c18_shift (c18_px c) t0 (t1 - t0) := by
  simp only [c18_px, c18_shift, c18_cf4]
  congr 1 <;> kring
theorem c18_py_subsegment (c : CubicBez K) (t0 t1 : K) :
    c18_py (c.subsegment ⟨t0, t1⟩) = c18_shift (c18_py c) t0 (t1 - t0) := by
  simp only [c18_py, c18_shift, c18_cf4]
  congr 1 <;> kring

/-- antiderivatives (vanishing at `0`) of `y·x′`, `x·y·x′`, `y²·x′` along the cubic -/
def c18_momentPrim (c : CubicBez K) (t : K) : K × K × K :=
  (c18_F c18_one (c18_py c) (c18_der (c18_px c)) t,
   c18_F (c18_px c) (c18_py c) (c18_der (c18_px c)) t,
   c18_F (c18_py c) (c18_py c) (c18_der (c18_px c)) t)

theorem c18_momentPrim_zero (c : CubicBez K) : c18_momentPrim c 0 = 0 := by
  simp only [c18_momentPrim, c18_F_zero]; rfl

/-- the closed form of the kernel is the value at `1` of the antiderivatives -/
theorem c18_mi_eq_prim (c : CubicBez K) : momentIntegrals c = c18_momentPrim c 1 := by
  simp only [c18_momentPrim, c18_F, c18_one, c18_px, c18_py, c18_der, c18_cf4, sum_range_succ, sum_range_zero,
    momentIntegrals, kdefs, scalar_norm, Prod.mk.injEq]
  push_cast
  refine ⟨?_, ?_, ?_⟩ <;> ring

theorem c18_mi_subsegment (c : CubicBez K) (t0 t1 : K) :
    momentIntegrals (c.subsegment ⟨t0, t1⟩) = c18_momentPrim c t1 - c18_momentPrim c t0 := by
  rw [c18_mi_eq_prim]
  simp only [c18_momentPrim, c18_px_subsegment, c18_py_subsegment, Prod.mk_sub_mk]
  have e : t1 = t0 + (t1 - t0) := by ring
  have h1 := c18_F_shift (c18_one : ℕ → K) (c18_py c) (c18_px c) t0 (t1 - t0)
  have h2 := c18_F_shift (c18_px c) (c18_py c) (c18_px c) t0 (t1 - t0)
  have h3 := c18_F_shift (c18_py c) (c18_py c) (c18_px c) t0 (t1 - t0)
  rw [c18_shift_one] at h1
  rw [← e] at h1 h2 h3
  rw [h1, h2, h3]

end lawful
/-! ### example data for the non-vacuity `example`s of `Proofs/C18.lean` -/
/-- an S-shaped cubic -/
def c18_cb : CubicBez Rat := ⟨⟨1, 2⟩, ⟨3, 5⟩, ⟨4, -1⟩, ⟨7, 3⟩⟩
/-- the same with `p1 = p0`: the velocity vanishes at `t = 0` -/
def c18_cbDeg : CubicBez Rat := ⟨⟨1, 2⟩, ⟨1, 2⟩, ⟨4, -1⟩, ⟨7, 3⟩⟩

end Kurbo
