import Proofs.Lemmas.C01
import Mathlib.Order.Interval.Set.Basic
import Mathlib.Order.Monotone.Defs
import Mathlib.Topology.Order.IntermediateValue
import Mathlib.Topology.Algebra.Polynomial
import Mathlib.Tactic.FunProp
/-! C01 helpers for the curved branches of `winding_inner`: convex-hull bounds of the x-coordinate, the polynomial
    `y(t) − p.y` as handed to the solver, and `firstInUnit` on a root list that contains the unique root. -/
set_option linter.unusedSectionVars false
namespace Kurbo
section curve
variable {K : Type} [Field K] [LinearOrder K] [IsStrictOrderedRing K] [FloorRing K] [Scalar K] [LawfulScalar K]

theorem firstInUnit_eq_some {roots : List K} {tS : K} (hmem : tS ∈ roots) (h0 : 0 ≤ tS) (h1 : tS ≤ 1)
    (huniq : ∀ t ∈ roots, 0 ≤ t → t ≤ 1 → t = tS) : firstInUnit roots = some tS := by
  cases h : firstInUnit roots with
  | none =>
    exfalso
    unfold firstInUnit at h
    have := List.find?_eq_none.mp h tS hmem
    apply this
    simp only [scalar_norm, Bool.and_eq_true, decide_eq_true_eq]
    push_cast
    exact ⟨h0, h1⟩
  | some t =>
    unfold firstInUnit at h
    have hp := List.find?_some h
    have hm := List.mem_of_find?_eq_some h
    simp only [scalar_norm, Bool.and_eq_true, decide_eq_true_eq] at hp
    push_cast at hp
    rw [huniq t hm hp.1 hp.2]

theorem quad_eval_y_poly (q : QuadBez K) (t : K) :
    (q.eval t).y = q.p0.y + 2 * (q.p1.y - q.p0.y) * t + (q.p2.y - 2 * q.p1.y + q.p0.y) * t ^ 2 := by kring

theorem quad_eval_x_bern (q : QuadBez K) (t : K) :
    (q.eval t).x = q.p0.x * (1 - t) ^ 2 + q.p1.x * (2 * t * (1 - t)) + q.p2.x * t ^ 2 := by kring

theorem quad_eval_x_bounds (q : QuadBez K) (t : K) (h0 : 0 ≤ t) (h1 : t ≤ 1) :
    min (min q.p0.x q.p2.x) q.p1.x ≤ (q.eval t).x ∧ (q.eval t).x ≤ max (max q.p0.x q.p2.x) q.p1.x := by
  rw [quad_eval_x_bern]
  have h1' : 0 ≤ 1 - t := by linarith
  have w0 : 0 ≤ (1 - t) ^ 2 := sq_nonneg _
  have w1 : 0 ≤ 2 * t * (1 - t) := by positivity
  have w2 : 0 ≤ t ^ 2 := sq_nonneg _
  have ws : (1 - t) ^ 2 + 2 * t * (1 - t) + t ^ 2 = 1 := by ring
  constructor
  · set m := min (min q.p0.x q.p2.x) q.p1.x with hm
    have m0 : m ≤ q.p0.x := le_trans (min_le_left _ _) (min_le_left _ _)
    have m2 : m ≤ q.p2.x := le_trans (min_le_left _ _) (min_le_right _ _)
    have m1 : m ≤ q.p1.x := min_le_right _ _
    have : m = m * ((1 - t) ^ 2 + 2 * t * (1 - t) + t ^ 2) := by rw [ws, mul_one]
    rw [this]
    nlinarith [mul_le_mul_of_nonneg_right m0 w0, mul_le_mul_of_nonneg_right m1 w1, mul_le_mul_of_nonneg_right m2 w2]
  · set m := max (max q.p0.x q.p2.x) q.p1.x with hm
    have m0 : q.p0.x ≤ m := le_trans (le_max_left _ _) (le_max_left _ _)
    have m2 : q.p2.x ≤ m := le_trans (le_max_right _ _) (le_max_left _ _)
    have m1 : q.p1.x ≤ m := le_max_right _ _
    have : m = m * ((1 - t) ^ 2 + 2 * t * (1 - t) + t ^ 2) := by rw [ws, mul_one]
    rw [this]
    nlinarith [mul_le_mul_of_nonneg_right m0 w0, mul_le_mul_of_nonneg_right m1 w1, mul_le_mul_of_nonneg_right m2 w2]

/-- the tail of the `Quad` branch, once the row test has produced `sign` -/
theorem quad_branch (q : QuadBez K) (p : Point K) (tS : K) (sign : Int)
    (hsolve : ∀ x : K, x ∈ solveQuadratic (q.p0.y - p.y) (2 * (q.p1.y - q.p0.y)) (q.p2.y - 2 * q.p1.y + q.p0.y) ↔
        (q.p0.y - p.y) + (2 * (q.p1.y - q.p0.y)) * x + (q.p2.y - 2 * q.p1.y + q.p0.y) * x ^ 2 = 0)
    (hinj : Set.InjOn (fun t => (q.eval t).y) (Set.Icc 0 1))
    (h0 : 0 ≤ tS) (h1 : tS ≤ 1) (hy : (q.eval tS).y = p.y) :
    (if p.x < min (min q.p0.x q.p2.x) q.p1.x then 0
      else if max (max q.p0.x q.p2.x) q.p1.x ≤ p.x then sign
      else match firstInUnit (solveQuadratic (q.p0.y - p.y) (2 * (q.p1.y - q.p0.y)) (q.p2.y - 2 * q.p1.y + q.p0.y)) with
        | some t => if (q.eval t).x ≤ p.x then sign else 0
        | none => windingAtNearerEnd q.p0 q.p2 p sign)
      = sign * (if (q.eval tS).x ≤ p.x then 1 else 0) := by
  obtain ⟨hb1, hb2⟩ := quad_eval_x_bounds q tS h0 h1
  by_cases g1 : p.x < min (min q.p0.x q.p2.x) q.p1.x
  · rw [if_pos g1, if_neg (by linarith), mul_zero]
  rw [if_neg g1]
  by_cases g2 : max (max q.p0.x q.p2.x) q.p1.x ≤ p.x
  · rw [if_pos g2, if_pos (by linarith), mul_one]
  rw [if_neg g2]
  have hfirst : firstInUnit (solveQuadratic (q.p0.y - p.y) (2 * (q.p1.y - q.p0.y)) (q.p2.y - 2 * q.p1.y + q.p0.y))
      = some tS := by
    apply firstInUnit_eq_some _ h0 h1
    · intro t ht ht0 ht1
      apply hinj ⟨ht0, ht1⟩ ⟨h0, h1⟩
      show (q.eval t).y = (q.eval tS).y
      rw [hy, quad_eval_y_poly]
      have := (hsolve t).mp ht
      linarith
    · rw [hsolve]
      rw [quad_eval_y_poly] at hy
      linarith
  rw [hfirst]
  simp only
  split_ifs <;> simp


/-- the row test of `winding_inner` as a function of the two end ordinates and the query ordinate -/
def rowSign (y0 y1 y : K) : Int := if y0 ≤ y ∧ y < y1 then -1 else if y1 ≤ y ∧ y < y0 then 1 else 0

theorem windingInner_quad_eq (q : QuadBez K) (p : Point K) (tS : K)
    (hsolve : ∀ x : K, x ∈ solveQuadratic (q.p0.y - p.y) (2 * (q.p1.y - q.p0.y)) (q.p2.y - 2 * q.p1.y + q.p0.y) ↔
        (q.p0.y - p.y) + (2 * (q.p1.y - q.p0.y)) * x + (q.p2.y - 2 * q.p1.y + q.p0.y) * x ^ 2 = 0)
    (hinj : Set.InjOn (fun t => (q.eval t).y) (Set.Icc 0 1))
    (h0 : 0 ≤ tS) (h1 : tS ≤ 1) (hy : (q.eval tS).y = p.y) :
    PathSeg.winding_inner (.Quad q) p = rowSign q.p0.y q.p2.y p.y * (if (q.eval tS).x ≤ p.x then 1 else 0) := by
  have hb := fun sign => quad_branch q p tS sign hsolve hinj h0 h1 hy
  unfold PathSeg.winding_inner rowSign
  simp only [PathSeg.start, PathSeg.end, QuadBez.start, QuadBez.end]
  simp only [scalar_norm, decide_eq_true_eq, Bool.or_eq_true]
  push_cast
  by_cases a1 : q.p0.y < q.p2.y
  · simp only [a1, if_true]
    by_cases a2 : p.y < q.p0.y ∨ q.p2.y ≤ p.y
    · rw [if_pos a2, if_neg (by rintro ⟨c1, c2⟩; rcases a2 with a2 | a2 <;> linarith),
        if_neg (by rintro ⟨c1, c2⟩; linarith), zero_mul]
    · rw [if_neg a2]
      push Not at a2
      simp only
      refine (hb (-1)).trans ?_
      congr 1
      rw [if_pos ⟨a2.1, a2.2⟩]
  · simp only [a1, if_false]
    by_cases a1' : q.p2.y < q.p0.y
    · simp only [a1', if_true]
      by_cases a2 : p.y < q.p2.y ∨ q.p0.y ≤ p.y
      · rw [if_pos a2, if_neg (by rintro ⟨c1, c2⟩; linarith),
          if_neg (by rintro ⟨c1, c2⟩; rcases a2 with a2 | a2 <;> linarith), zero_mul]
      · rw [if_neg a2]
        push Not at a2
        simp only
        refine (hb 1).trans ?_
        congr 1
        rw [if_neg (by rintro ⟨c1, c2⟩; linarith), if_pos ⟨a2.1, a2.2⟩]
    · simp only [a1', if_false]
      rw [if_neg (by rintro ⟨c1, c2⟩; linarith), if_neg (by rintro ⟨c1, c2⟩; linarith), zero_mul]


/-! ### the same for the `Cubic` branch -/

theorem cubic_eval_y_poly (c : CubicBez K) (t : K) :
    (c.eval t).y = c.p0.y + 3 * (c.p1.y - c.p0.y) * t + 3 * (c.p2.y - 2 * c.p1.y + c.p0.y) * t ^ 2
      + (c.p3.y - 3 * c.p2.y + 3 * c.p1.y - c.p0.y) * t ^ 3 := by kring

theorem cubic_eval_x_bern (c : CubicBez K) (t : K) :
    (c.eval t).x = c.p0.x * (1 - t) ^ 3 + c.p1.x * (3 * t * (1 - t) ^ 2) + c.p2.x * (3 * t ^ 2 * (1 - t))
      + c.p3.x * t ^ 3 := by kring

theorem cubic_eval_x_bounds (c : CubicBez K) (t : K) (h0 : 0 ≤ t) (h1 : t ≤ 1) :
    min (min (min c.p0.x c.p3.x) c.p1.x) c.p2.x ≤ (c.eval t).x ∧
      (c.eval t).x ≤ max (max (max c.p0.x c.p3.x) c.p1.x) c.p2.x := by
  rw [cubic_eval_x_bern]
  have h1' : 0 ≤ 1 - t := by linarith
  have w0 : 0 ≤ (1 - t) ^ 3 := by positivity
  have w1 : 0 ≤ 3 * t * (1 - t) ^ 2 := by positivity
  have w2 : 0 ≤ 3 * t ^ 2 * (1 - t) := by positivity
  have w3 : 0 ≤ t ^ 3 := by positivity
  have ws : (1 - t) ^ 3 + 3 * t * (1 - t) ^ 2 + 3 * t ^ 2 * (1 - t) + t ^ 3 = 1 := by ring
  constructor
  · set m := min (min (min c.p0.x c.p3.x) c.p1.x) c.p2.x with hm
    have m0 : m ≤ c.p0.x := le_trans (min_le_left _ _) (le_trans (min_le_left _ _) (min_le_left _ _))
    have m3 : m ≤ c.p3.x := le_trans (min_le_left _ _) (le_trans (min_le_left _ _) (min_le_right _ _))
    have m1 : m ≤ c.p1.x := le_trans (min_le_left _ _) (min_le_right _ _)
    have m2 : m ≤ c.p2.x := min_le_right _ _
    have : m = m * ((1 - t) ^ 3 + 3 * t * (1 - t) ^ 2 + 3 * t ^ 2 * (1 - t) + t ^ 3) := by rw [ws, mul_one]
    rw [this]
    nlinarith [mul_le_mul_of_nonneg_right m0 w0, mul_le_mul_of_nonneg_right m1 w1,
      mul_le_mul_of_nonneg_right m2 w2, mul_le_mul_of_nonneg_right m3 w3]
  · set m := max (max (max c.p0.x c.p3.x) c.p1.x) c.p2.x with hm
    have m0 : c.p0.x ≤ m := le_trans (le_trans (le_max_left _ _) (le_max_left _ _)) (le_max_left _ _)
    have m3 : c.p3.x ≤ m := le_trans (le_trans (le_max_right _ _) (le_max_left _ _)) (le_max_left _ _)
    have m1 : c.p1.x ≤ m := le_trans (le_max_right _ _) (le_max_left _ _)
    have m2 : c.p2.x ≤ m := le_max_right _ _
    have : m = m * ((1 - t) ^ 3 + 3 * t * (1 - t) ^ 2 + 3 * t ^ 2 * (1 - t) + t ^ 3) := by rw [ws, mul_one]
    rw [this]
    nlinarith [mul_le_mul_of_nonneg_right m0 w0, mul_le_mul_of_nonneg_right m1 w1,
      mul_le_mul_of_nonneg_right m2 w2, mul_le_mul_of_nonneg_right m3 w3]

theorem cubic_branch (c : CubicBez K) (p : Point K) (tS : K) (sign : Int)
    (hsolve : ∀ x : K, x ∈ solveCubic (c.p0.y - p.y) (3 * (c.p1.y - c.p0.y)) (3 * (c.p2.y - 2 * c.p1.y + c.p0.y))
          (c.p3.y - 3 * c.p2.y + 3 * c.p1.y - c.p0.y) ↔
        (c.p0.y - p.y) + (3 * (c.p1.y - c.p0.y)) * x + (3 * (c.p2.y - 2 * c.p1.y + c.p0.y)) * x ^ 2
          + (c.p3.y - 3 * c.p2.y + 3 * c.p1.y - c.p0.y) * x ^ 3 = 0)
    (hinj : Set.InjOn (fun t => (c.eval t).y) (Set.Icc 0 1))
    (h0 : 0 ≤ tS) (h1 : tS ≤ 1) (hy : (c.eval tS).y = p.y) :
    (if p.x < min (min (min c.p0.x c.p3.x) c.p1.x) c.p2.x then 0
      else if max (max (max c.p0.x c.p3.x) c.p1.x) c.p2.x ≤ p.x then sign
      else match firstInUnit (solveCubic (c.p0.y - p.y) (3 * (c.p1.y - c.p0.y)) (3 * (c.p2.y - 2 * c.p1.y + c.p0.y))
          (c.p3.y - 3 * c.p2.y + 3 * c.p1.y - c.p0.y)) with
        | some t => if (c.eval t).x ≤ p.x then sign else 0
        | none => windingAtNearerEnd c.p0 c.p3 p sign)
      = sign * (if (c.eval tS).x ≤ p.x then 1 else 0) := by
  obtain ⟨hb1, hb2⟩ := cubic_eval_x_bounds c tS h0 h1
  by_cases g1 : p.x < min (min (min c.p0.x c.p3.x) c.p1.x) c.p2.x
  · rw [if_pos g1, if_neg (by linarith), mul_zero]
  rw [if_neg g1]
  by_cases g2 : max (max (max c.p0.x c.p3.x) c.p1.x) c.p2.x ≤ p.x
  · rw [if_pos g2, if_pos (by linarith), mul_one]
  rw [if_neg g2]
  have hfirst : firstInUnit (solveCubic (c.p0.y - p.y) (3 * (c.p1.y - c.p0.y)) (3 * (c.p2.y - 2 * c.p1.y + c.p0.y))
          (c.p3.y - 3 * c.p2.y + 3 * c.p1.y - c.p0.y)) = some tS := by
    apply firstInUnit_eq_some _ h0 h1
    · intro t ht ht0 ht1
      apply hinj ⟨ht0, ht1⟩ ⟨h0, h1⟩
      show (c.eval t).y = (c.eval tS).y
      rw [hy, cubic_eval_y_poly]
      have := (hsolve t).mp ht
      linarith
    · rw [hsolve]
      rw [cubic_eval_y_poly] at hy
      linarith
  rw [hfirst]
  simp only
  split_ifs <;> simp

theorem windingInner_cubic_eq (c : CubicBez K) (p : Point K) (tS : K)
    (hsolve : ∀ x : K, x ∈ solveCubic (c.p0.y - p.y) (3 * (c.p1.y - c.p0.y)) (3 * (c.p2.y - 2 * c.p1.y + c.p0.y))
          (c.p3.y - 3 * c.p2.y + 3 * c.p1.y - c.p0.y) ↔
        (c.p0.y - p.y) + (3 * (c.p1.y - c.p0.y)) * x + (3 * (c.p2.y - 2 * c.p1.y + c.p0.y)) * x ^ 2
          + (c.p3.y - 3 * c.p2.y + 3 * c.p1.y - c.p0.y) * x ^ 3 = 0)
    (hinj : Set.InjOn (fun t => (c.eval t).y) (Set.Icc 0 1))
    (h0 : 0 ≤ tS) (h1 : tS ≤ 1) (hy : (c.eval tS).y = p.y) :
    PathSeg.winding_inner (.Cubic c) p = rowSign c.p0.y c.p3.y p.y * (if (c.eval tS).x ≤ p.x then 1 else 0) := by
  have hb := fun sign => cubic_branch c p tS sign hsolve hinj h0 h1 hy
  unfold PathSeg.winding_inner rowSign
  simp only [PathSeg.start, PathSeg.end, CubicBez.start, CubicBez.end]
  simp only [scalar_norm, decide_eq_true_eq, Bool.or_eq_true]
  push_cast
  by_cases a1 : c.p0.y < c.p3.y
  · simp only [a1, if_true]
    by_cases a2 : p.y < c.p0.y ∨ c.p3.y ≤ p.y
    · rw [if_pos a2, if_neg (by rintro ⟨c1, c2⟩; rcases a2 with a2 | a2 <;> linarith),
        if_neg (by rintro ⟨c1, c2⟩; linarith), zero_mul]
    · rw [if_neg a2]
      push Not at a2
      simp only
      refine (hb (-1)).trans ?_
      congr 1
      rw [if_pos ⟨a2.1, a2.2⟩]
  · simp only [a1, if_false]
    by_cases a1' : c.p3.y < c.p0.y
    · simp only [a1', if_true]
      by_cases a2 : p.y < c.p3.y ∨ c.p0.y ≤ p.y
      · rw [if_pos a2, if_neg (by rintro ⟨c1, c2⟩; linarith),
          if_neg (by rintro ⟨c1, c2⟩; rcases a2 with a2 | a2 <;> linarith), zero_mul]
      · rw [if_neg a2]
        push Not at a2
        simp only
        refine (hb 1).trans ?_
        congr 1
        rw [if_neg (by rintro ⟨c1, c2⟩; linarith), if_pos ⟨a2.1, a2.2⟩]
    · simp only [a1', if_false]
      rw [if_neg (by rintro ⟨c1, c2⟩; linarith), if_neg (by rintro ⟨c1, c2⟩; linarith), zero_mul]

end curve

section real
open Set
variable [Scalar ℝ] [LawfulScalar ℝ]

/-- intermediate value theorem on the y-coordinate of a quadratic -/
theorem quad_row_root_exists (q : QuadBez ℝ) (y : ℝ) (h : q.p0.y ≤ y ∧ y ≤ q.p2.y ∨ q.p2.y ≤ y ∧ y ≤ q.p0.y) :
    ∃ t, 0 ≤ t ∧ t ≤ 1 ∧ (q.eval t).y = y := by
  have hf : (fun t => (q.eval t).y)
      = fun t => q.p0.y + 2 * (q.p1.y - q.p0.y) * t + (q.p2.y - 2 * q.p1.y + q.p0.y) * t ^ 2 := by
    funext t; exact quad_eval_y_poly q t
  have hc : ContinuousOn (fun t => (q.eval t).y) (Icc 0 1) := by rw [hf]; fun_prop
  have e0 : (q.eval 0).y = q.p0.y := by rw [quad_eval_y_poly]; ring
  have e1 : (q.eval 1).y = q.p2.y := by rw [quad_eval_y_poly]; ring
  rcases h with h | h
  · obtain ⟨t, ht, hy⟩ := intermediate_value_Icc zero_le_one hc
      (show y ∈ Icc ((q.eval 0).y) ((q.eval 1).y) by rw [e0, e1]; exact ⟨h.1, h.2⟩)
    exact ⟨t, ht.1, ht.2, hy⟩
  · obtain ⟨t, ht, hy⟩ := intermediate_value_Icc' zero_le_one hc
      (show y ∈ Icc ((q.eval 1).y) ((q.eval 0).y) by rw [e0, e1]; exact ⟨h.1, h.2⟩)
    exact ⟨t, ht.1, ht.2, hy⟩

theorem cubic_row_root_exists (c : CubicBez ℝ) (y : ℝ) (h : c.p0.y ≤ y ∧ y ≤ c.p3.y ∨ c.p3.y ≤ y ∧ y ≤ c.p0.y) :
    ∃ t, 0 ≤ t ∧ t ≤ 1 ∧ (c.eval t).y = y := by
  have hf : (fun t => (c.eval t).y)
      = fun t => c.p0.y + 3 * (c.p1.y - c.p0.y) * t + 3 * (c.p2.y - 2 * c.p1.y + c.p0.y) * t ^ 2
        + (c.p3.y - 3 * c.p2.y + 3 * c.p1.y - c.p0.y) * t ^ 3 := by
    funext t; exact cubic_eval_y_poly c t
  have hc : ContinuousOn (fun t => (c.eval t).y) (Icc 0 1) := by rw [hf]; fun_prop
  have e0 : (c.eval 0).y = c.p0.y := by rw [cubic_eval_y_poly]; ring
  have e1 : (c.eval 1).y = c.p3.y := by rw [cubic_eval_y_poly]; ring
  rcases h with h | h
  · obtain ⟨t, ht, hy⟩ := intermediate_value_Icc zero_le_one hc
      (show y ∈ Icc ((c.eval 0).y) ((c.eval 1).y) by rw [e0, e1]; exact ⟨h.1, h.2⟩)
    exact ⟨t, ht.1, ht.2, hy⟩
  · obtain ⟨t, ht, hy⟩ := intermediate_value_Icc' zero_le_one hc
      (show y ∈ Icc ((c.eval 1).y) ((c.eval 0).y) by rw [e0, e1]; exact ⟨h.1, h.2⟩)
    exact ⟨t, ht.1, ht.2, hy⟩

end real

/-- used by the non-vacuity examples of `Proofs/C01.lean` -/
theorem c01_roots_quarter (x : Rat) : x ∈ [(-1/2 : Rat), 1/2] ↔ x ^ 2 = 1/4 := by
  simp only [List.mem_cons, List.not_mem_nil, or_false]
  constructor
  · rintro (rfl | rfl) <;> norm_num
  · intro h
    have h' : (x + 1/2) * (x - 1/2) = 0 := by linarith
    rcases mul_eq_zero.mp h' with h' | h'
    · left; linarith
    · right; linarith

end Kurbo
