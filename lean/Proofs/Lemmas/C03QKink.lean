import Proofs.Lemmas.C03QReal
import Mathlib.Analysis.Convex.SpecificFunctions.Basic
import Mathlib.Analysis.Complex.ExponentialBounds
/-! Helper lemmas for `Proofs/C03Q.lean`, plain real analysis: the size of the logarithmic term that branch (3) drops. -/
namespace Kurbo

/-- `s ↦ s · log (1 + k / s)` is monotone on `(0, ∞)` (Bernoulli's inequality `(1 + x)^t ≤ 1 + t x`, `0 ≤ t ≤ 1`) -/
theorem c03q_xlog_mono {s b k : ℝ} (hs : 0 < s) (hsb : s ≤ b) (hk : 0 ≤ k) :
    s * Real.log (1 + k / s) ≤ b * Real.log (1 + k / b) := by
  have hb : 0 < b := lt_of_lt_of_le hs hsb
  have ht0 : 0 < s / b := div_pos hs hb
  have ht1 : s / b ≤ 1 := (div_le_one hb).mpr hsb
  have hm : 0 ≤ k / b / (s / b) := div_nonneg (div_nonneg hk hb.le) ht0.le
  have hbern := rpow_one_add_le_one_add_mul_self (s := k / b / (s / b)) (by linarith) ht0.le ht1
  have e1 : k / b / (s / b) = k / s := by field_simp
  have e2 : s / b * (k / s) = k / b := by field_simp
  rw [e1, e2] at hbern
  have hpos : 0 < 1 + k / s := by have := div_nonneg hk hs.le; linarith
  have hlog := Real.log_le_log (Real.rpow_pos_of_pos hpos (s / b)) hbern
  rw [Real.log_rpow hpos] at hlog
  have e3 : s * Real.log (1 + k / s) = b * (s / b * Real.log (1 + k / s)) := by field_simp
  rw [e3]
  exact mul_le_mul_of_nonneg_left hlog hb.le

theorem c03q_log_num : Real.log (1 + 446000000000) ≤ 27 := by
  rw [Real.log_le_iff_le_exp (by norm_num)]
  have h := Real.exp_one_gt_d9
  have h27 : Real.exp 27 = Real.exp 1 ^ (27 : ℕ) := by
    rw [← Real.exp_nat_mul]; norm_num
  rw [h27]
  calc (1 + 446000000000 : ℝ) ≤ (2.7182818283 : ℝ) ^ (27 : ℕ) := by norm_num
    _ ≤ Real.exp 1 ^ (27 : ℕ) := pow_le_pow_left₀ (by norm_num) h.le 27

/-- under the conditions of branch (3) the dropped logarithmic term lies in `[0, 2.5e-10 · √C]` -/
theorem c03q_logpart_bound {A B C : ℝ} (hC : 0 ≤ C) (hA : 5 / 10000 * C < A) (hD : 0 ≤ 4 * A * C - B ^ 2)
    (hβ : c03q_bac2 A B C ≤ 1 / 10000000000000 * (2 * √C)) :
    0 ≤ c03q_logpart A B C ∧ c03q_logpart A B C ≤ 25 / 100000000000 * √C := by
  have hApos : 0 < A := by
    have : 0 ≤ 5 / 10000 * C := by positivity
    linarith
  have hβ0 := c03q_bac2_nonneg hApos hD
  have hr0nn : 0 ≤ √C := Real.sqrt_nonneg _
  rcases hβ0.lt_or_eq with hβpos | hβz
  swap
  · have hD0 := c03q_disc_zero_of_bac2_zero hApos hD hβz.symm
    have hl : c03q_logpart A B C = 0 := by
      unfold c03q_logpart
      have : 4 * C * A - B * B = 0 := by linarith
      rw [this]; ring
    rw [hl]; exact ⟨le_refl _, by positivity⟩
  have hu : 0 < √A := Real.sqrt_pos.mpr hApos
  have hune : √A ≠ 0 := ne_of_gt hu
  have huu : √A ^ 2 = A := Real.sq_sqrt hApos.le
  have hrr : √C ^ 2 = C := Real.sq_sqrt hC
  have hr0 : 0 < √C := by linarith
  have hBdef : c03q_bac2 A B C = B * (√A)⁻¹ + 2 * √C := rfl
  unfold c03q_logpart
  set β := c03q_bac2 A B C with hβdef
  set u := √A with hudef
  set r0 := √C with hr0def
  set S := √(A + B + C) with hSdef
  have hB : B = u * β - 2 * u * r0 := by rw [hBdef]; field_simp; ring
  have hS2 : A + B + C = (u - r0) ^ 2 + u * β := by linear_combination hB - huu - hrr
  have hβ4 : β ≤ 4 * r0 := by linarith
  have huβ : u * β ≤ u * (4 * r0) := mul_le_mul_of_nonneg_left hβ4 hu.le
  have huβ0 : 0 < u * β := mul_pos hu hβpos
  have hS_le : S ≤ u + r0 := Real.sqrt_le_iff.mpr ⟨by positivity, by rw [hS2]; linarith⟩
  have hS_ge : r0 - u ≤ S := Real.le_sqrt_of_sq_le (by rw [hS2]; linarith)
  have hN : (2 * A + B) * u⁻¹ + 2 * S = β + 2 * (u + S - r0) := by
    have : (2 * A + B) * u⁻¹ = 2 * u + β - 2 * r0 := by rw [hB, ← huu]; field_simp; ring
    rw [this]; ring
  rw [hN]
  have hNβ : β ≤ β + 2 * (u + S - r0) := by linarith
  have hN4 : β + 2 * (u + S - r0) ≤ 4 * u + β := by linarith
  have hNpos : 0 < β + 2 * (u + S - r0) := lt_of_lt_of_le hβpos hNβ
  have hlog0 : 0 ≤ Real.log ((β + 2 * (u + S - r0)) / β) := Real.log_nonneg ((one_le_div hβpos).mpr hNβ)
  have hlog1 : Real.log ((β + 2 * (u + S - r0)) / β) ≤ Real.log (1 + 4 * u / β) := by
    apply Real.log_le_log (div_pos hNpos hβpos)
    have : 1 + 4 * u / β = (4 * u + β) / β := by field_simp; ring
    rw [this]
    exact div_le_div_of_nonneg_right hN4 hβpos.le
  have hDeq : 4 * C * A - B * B = u ^ 2 * β * (4 * r0 - β) := by rw [hB, ← huu, ← hrr]; ring
  have hcoef : 1 / 4 * u⁻¹ ^ 3 * (4 * C * A - B * B) = 1 / 4 * u⁻¹ * (β * (4 * r0 - β)) := by
    rw [hDeq]; field_simp
  rw [hcoef]
  have hc0 : 0 ≤ 1 / 4 * u⁻¹ * (β * (4 * r0 - β)) := by
    have : 0 ≤ 4 * r0 - β := by linarith
    positivity
  refine ⟨mul_nonneg hc0 hlog0, ?_⟩
  -- step 1: coefficient ≤ (r0/u) β, logarithm ≤ log (1 + 4u/β)
  have hc1 : 1 / 4 * u⁻¹ * (β * (4 * r0 - β)) ≤ r0 / u * β := by
    have e : r0 / u * β = 1 / 4 * u⁻¹ * (β * (4 * r0)) := by field_simp
    rw [e]
    apply mul_le_mul_of_nonneg_left _ (by positivity)
    apply mul_le_mul_of_nonneg_left _ hβpos.le
    linarith
  have hlog10 : 0 ≤ Real.log (1 + 4 * u / β) := le_trans hlog0 hlog1
  have s1 : 1 / 4 * u⁻¹ * (β * (4 * r0 - β)) * Real.log ((β + 2 * (u + S - r0)) / β)
      ≤ r0 / u * (β * Real.log (1 + 4 * u / β)) := by
    calc _ ≤ r0 / u * β * Real.log (1 + 4 * u / β) := mul_le_mul hc1 hlog1 hlog0 (by positivity)
      _ = _ := by ring
  -- step 2: monotonicity in β up to b1 = 2e-13 r0
  have m1 := c03q_xlog_mono hβpos hβ (show 0 ≤ 4 * u by positivity)
  have s2 : r0 / u * (β * Real.log (1 + 4 * u / β))
      ≤ r0 / u * (1 / 10000000000000 * (2 * r0) * Real.log (1 + 4 * u / (1 / 10000000000000 * (2 * r0)))) :=
    mul_le_mul_of_nonneg_left m1 (by positivity)
  -- step 3: monotonicity in y = r0/u up to 10000/223
  have hy0 : 0 < r0 / u := div_pos hr0 hu
  have hy : r0 / u ≤ 10000 / 223 := by
    rw [div_le_div_iff₀ hu (by norm_num)]
    by_contra hcon
    have hcon := not_le.mp hcon
    have h2 := mul_self_lt_mul_self (by positivity : (0:ℝ) ≤ 10000 * u) hcon
    linarith
  have m2 := c03q_xlog_mono (k := 20000000000000) hy0 hy (by norm_num)
  have e4 : 4 * u / (1 / 10000000000000 * (2 * r0)) = 20000000000000 / (r0 / u) := by field_simp; ring
  have e5 : (20000000000000 : ℝ) / (10000 / 223) = 446000000000 := by norm_num
  rw [e5] at m2
  have m3 : r0 / u * Real.log (1 + 20000000000000 / (r0 / u)) ≤ 10000 / 223 * 27 :=
    le_trans m2 (mul_le_mul_of_nonneg_left c03q_log_num (by norm_num))
  have s3 : r0 / u * (1 / 10000000000000 * (2 * r0) * Real.log (1 + 4 * u / (1 / 10000000000000 * (2 * r0))))
      ≤ 25 / 100000000000 * r0 := by
    rw [e4]
    calc _ = 1 / 10000000000000 * (2 * r0) * (r0 / u * Real.log (1 + 20000000000000 / (r0 / u))) := by ring
      _ ≤ 1 / 10000000000000 * (2 * r0) * (10000 / 223 * 27) := mul_le_mul_of_nonneg_left m3 (by positivity)
      _ ≤ 25 / 100000000000 * r0 := by linarith
  exact le_trans s1 (le_trans s2 s3)

/-! ### the bound is not vacuous: a near-cusp where the dropped term is `≥ 4e-12 · √C` -/

theorem c03q_sqrt_441_400 : √(441 / 400 : ℝ) = 21 / 20 := by
  rw [show (441 / 400 : ℝ) = (21 / 20) ^ 2 by norm_num, Real.sqrt_sq (by norm_num)]

theorem c03q_log_num_lower : (27 : ℝ) ≤ Real.log 1250000000000 := by
  rw [Real.le_log_iff_exp_le (by norm_num)]
  have h := Real.exp_one_lt_d9
  have h27 : Real.exp 27 = Real.exp 1 ^ (27 : ℕ) := by
    rw [← Real.exp_nat_mul]; norm_num
  rw [h27]
  calc Real.exp 1 ^ (27 : ℕ) ≤ (2.7182818286 : ℝ) ^ (27 : ℕ) :=
        pow_le_pow_left₀ (Real.exp_pos 1).le h.le 27
    _ ≤ 1250000000000 := by norm_num

/-- `A = (21/20)², C = 1, B = −(21/10)·(n²−1)/(n²+1)` with `n = 5·10⁶` (the angle between `d1` and `−d2` is `≈ 4e-7`):
    `ba_c2 = 4/(n²+1) ≈ 1.6e-13` is below the threshold `2e-13`, and the dropped term is at least `4e-12` -/
theorem c03q_logpart_nearCusp :
    c03q_bac2 (441 / 400) (-(21 / 10) * (24999999999999 / 25000000000001)) 1 = 4 / 25000000000001 ∧
    (4 : ℝ) / 1000000000000 ≤ c03q_logpart (441 / 400) (-(21 / 10) * (24999999999999 / 25000000000001)) 1 := by
  have hb : c03q_bac2 (441 / 400) (-(21 / 10) * (24999999999999 / 25000000000001)) 1 = 4 / 25000000000001 := by
    unfold c03q_bac2
    rw [c03q_sqrt_441_400, Real.sqrt_one]; norm_num
  refine ⟨hb, ?_⟩
  unfold c03q_logpart
  rw [hb, c03q_sqrt_441_400]
  set S := √(441 / 400 + -(21 / 10) * (24999999999999 / 25000000000001) + 1 : ℝ) with hS
  have hS_ge : (1 / 20 : ℝ) ≤ S := Real.le_sqrt_of_sq_le (by norm_num)
  have harg : (1250000000000 : ℝ) ≤
      ((2 * (441 / 400) + -(21 / 10) * (24999999999999 / 25000000000001)) * (21 / 20 : ℝ)⁻¹ + 2 * S)
        / (4 / 25000000000001) := by
    rw [le_div_iff₀ (by norm_num)]
    have : (2 * (441 / 400) + -(21 / 10) * (24999999999999 / 25000000000001)) * (21 / 20 : ℝ)⁻¹
        = 21 / 10 - 2 * (24999999999999 / 25000000000001) := by norm_num
    rw [this]
    linarith
  have hlog := le_trans c03q_log_num_lower (Real.log_le_log (by norm_num) harg)
  have hcoef : (0 : ℝ) ≤ 1 / 4 * (21 / 20 : ℝ)⁻¹ ^ 3 *
      (4 * 1 * (441 / 400) - -(21 / 10) * (24999999999999 / 25000000000001)
        * (-(21 / 10) * (24999999999999 / 25000000000001))) := by norm_num
  calc (4 : ℝ) / 1000000000000 ≤ 1 / 4 * (21 / 20 : ℝ)⁻¹ ^ 3 *
      (4 * 1 * (441 / 400) - -(21 / 10) * (24999999999999 / 25000000000001)
        * (-(21 / 10) * (24999999999999 / 25000000000001))) * 27 := by norm_num
    _ ≤ _ := mul_le_mul_of_nonneg_left hlog hcoef

end Kurbo
