import Proofs.Lemmas.C05
import Proofs.KDefs
import Mathlib.Analysis.SpecialFunctions.Sqrt
import Mathlib.Tactic.LinearCombination
/-! Helper lemmas for C05, arithmetic part: the subdivision parameter map over a lawful scalar and over ℝ. -/
set_option linter.unusedSectionVars false
namespace Kurbo

section lawful
variable {K : Type} [Field K] [LinearOrder K] [IsStrictOrderedRing K] [FloorRing K] [Scalar K] [LawfulScalar K]

theorem natK_eq (n : Nat) : (natK n : K) = (n : K) := by
  unfold natK; rw [sn_ofRat]; simp

theorem determine_subdiv_t_eq (q : QuadBez K) (params : FlattenParams K) (x : K) :
    q.determine_subdiv_t params x =
      (approxParabolaInvIntegral (params.a0 + (params.a2 - params.a0) * x) - params.u0) * params.uscale := by
  unfold QuadBez.determine_subdiv_t
  simp only [scalar_norm]

theorem estimate_subdiv_u0 (q : QuadBez K) (s : K) :
    (q.estimate_subdiv s).u0 = approxParabolaInvIntegral (q.estimate_subdiv s).a0 := rfl

theorem estimate_subdiv_uscale (q : QuadBez K) (s : K) :
    (q.estimate_subdiv s).uscale =
      1 / (approxParabolaInvIntegral (q.estimate_subdiv s).a2 - approxParabolaInvIntegral (q.estimate_subdiv s).a0) := by
  show srecip (Scalar.sub _ _) = _
  rw [sn_srecip]
  simp only [LawfulScalar.sub_eq]
  rfl


theorem flattenQuadT_lawful (q : QuadBez K) (s : K) (i : Nat) :
    flattenQuadT q s i = q.determine_subdiv_t (q.estimate_subdiv s) ((i : K) / (flattenQuadN q s : K)) := by
  rw [flattenQuadT_eq]
  congr 1
  rw [LawfulScalar.mul_eq, LawfulScalar.div_eq, natK_eq, natK_eq, sn_ofRat]
  simp [div_eq_mul_inv]

/-- value 0 at 0 (needs only that `u0` is the image of `a0`) -/
theorem determine_subdiv_t_zero (q : QuadBez K) (params : FlattenParams K)
    (hu0 : params.u0 = approxParabolaInvIntegral params.a0) : q.determine_subdiv_t params 0 = 0 := by
  rw [determine_subdiv_t_eq, hu0]
  simp

/-- value 1 at 1 when the two end images differ -/
theorem determine_subdiv_t_one (q : QuadBez K) (params : FlattenParams K)
    (hu0 : params.u0 = approxParabolaInvIntegral params.a0)
    (hus : params.uscale = 1 / (approxParabolaInvIntegral params.a2 - approxParabolaInvIntegral params.a0))
    (hne : approxParabolaInvIntegral params.a0 ≠ approxParabolaInvIntegral params.a2) :
    q.determine_subdiv_t params 1 = 1 := by
  rw [determine_subdiv_t_eq, hu0, hus]
  have h : approxParabolaInvIntegral params.a2 - approxParabolaInvIntegral params.a0 ≠ 0 :=
    sub_ne_zero.mpr (Ne.symm hne)
  have e : params.a0 + (params.a2 - params.a0) * 1 = params.a2 := by ring
  rw [e]
  field_simp

/-- when the two end images coincide the map is constantly 0 (`uscale = 1/0 = 0`) -/
theorem determine_subdiv_t_degenerate (q : QuadBez K) (params : FlattenParams K)
    (hus : params.uscale = 1 / (approxParabolaInvIntegral params.a2 - approxParabolaInvIntegral params.a0))
    (he : approxParabolaInvIntegral params.a0 = approxParabolaInvIntegral params.a2) (x : K) :
    q.determine_subdiv_t params x = 0 := by
  rw [determine_subdiv_t_eq, hus, he]
  simp


theorem quad_eval_one (q : QuadBez K) : q.eval 1 = q.p2 := by
  cases q; rename_i p0 p1 p2; cases p0; cases p1; cases p2; kring

/-- twice the signed area of the control triangle `p0 p1 p2` -/
def QuadBez.triCross (q : QuadBez K) : K :=
  (q.p1.x - q.p0.x) * (q.p2.y - q.p0.y) - (q.p1.y - q.p0.y) * (q.p2.x - q.p0.x)

theorem subdivX_sub (q : QuadBez K) :
    q.subdivX2 - q.subdivX0 =
      ((2 * q.p1.x - q.p0.x - q.p2.x) ^ 2 + (2 * q.p1.y - q.p0.y - q.p2.y) ^ 2) * (1 / (2 * q.triCross)) := by
  unfold QuadBez.subdivX0 QuadBez.subdivX2 QuadBez.triCross
  simp only [kdefs, scalar_norm]
  rw [← sub_mul]
  have e : (2 * ((q.p1.x - q.p0.x) * (q.p2.y - q.p0.y) - (q.p1.y - q.p0.y) * (q.p2.x - q.p0.x))) =
      -((q.p2.x - q.p0.x) * (q.p1.y - q.p0.y - (q.p2.y - q.p1.y)) - (q.p2.y - q.p0.y) * (q.p1.x - q.p0.x - (q.p2.x - q.p1.x))) := by
    ring
  rw [e, one_div, one_div, inv_neg]
  ring

theorem subdivX_of_triCross_eq_zero (q : QuadBez K) (h : q.triCross = 0) : q.subdivX0 = 0 ∧ q.subdivX2 = 0 := by
  have e : ((q.p2.x - q.p0.x) * (q.p1.y - q.p0.y - (q.p2.y - q.p1.y)) - (q.p2.y - q.p0.y) * (q.p1.x - q.p0.x - (q.p2.x - q.p1.x))) = 0 := by
    unfold QuadBez.triCross at h
    linear_combination (-2) * h
  unfold QuadBez.subdivX0 QuadBez.subdivX2
  simp only [kdefs, scalar_norm]
  rw [e]
  simp

theorem subdivX0_ne_subdivX2_iff (q : QuadBez K) : q.subdivX0 ≠ q.subdivX2 ↔ q.triCross ≠ 0 := by
  constructor
  · intro h hc
    obtain ⟨h0, h2⟩ := subdivX_of_triCross_eq_zero q hc
    exact h (h0.trans h2.symm)
  · intro hc h
    have hs := subdivX_sub q
    rw [h, sub_self] at hs
    have h2 : (2 * q.triCross) ≠ 0 := mul_ne_zero two_ne_zero hc
    have hz : (2 * q.p1.x - q.p0.x - q.p2.x) ^ 2 + (2 * q.p1.y - q.p0.y - q.p2.y) ^ 2 = 0 := by
      have := hs.symm
      rcases mul_eq_zero.mp this with h' | h'
      · exact h'
      · exact absurd h' (one_div_ne_zero h2)
    have hx : 2 * q.p1.x - q.p0.x - q.p2.x = 0 := by nlinarith [sq_nonneg (2 * q.p1.x - q.p0.x - q.p2.x), sq_nonneg (2 * q.p1.y - q.p0.y - q.p2.y)]
    have hy : 2 * q.p1.y - q.p0.y - q.p2.y = 0 := by nlinarith [sq_nonneg (2 * q.p1.x - q.p0.x - q.p2.x), sq_nonneg (2 * q.p1.y - q.p0.y - q.p2.y)]
    apply hc
    unfold QuadBez.triCross
    have ex : q.p2.x = 2 * q.p1.x - q.p0.x := by linarith
    have ey : q.p2.y = 2 * q.p1.y - q.p0.y := by linarith
    rw [ex, ey]; ring


/-- the two derived fields of the subdivision parameters are what `estimate_subdiv` makes them -/
structure FlattenParams.WF (params : FlattenParams K) : Prop where
  u0_eq : params.u0 = approxParabolaInvIntegral params.a0
  uscale_eq : params.uscale = 1 / (approxParabolaInvIntegral params.a2 - approxParabolaInvIntegral params.a0)

theorem estimate_subdiv_wf (q : QuadBez K) (s : K) : (q.estimate_subdiv s).WF :=
  ⟨estimate_subdiv_u0 q s, estimate_subdiv_uscale q s⟩

end lawful

/-! ### over ℝ -/
section real
open Real

/-- the square root of a `Scalar ℝ` instance is the real square root -/
class LawfulSqrt [Scalar ℝ] : Prop where
  sqrt_eq : ∀ x : ℝ, Scalar.sqrt x = Real.sqrt x

/-- `x ↦ x·(1 − B + √(B² + x²/4))`, `B = 39/100` -/
noncomputable def invIntR (x : ℝ) : ℝ := x * (1 - 39/100 + Real.sqrt ((39/100) ^ 2 + x ^ 2 / 4))

variable [Scalar ℝ] [LawfulScalar ℝ] [LawfulSqrt]

theorem approxParabolaInvIntegral_real (x : ℝ) : approxParabolaInvIntegral x = invIntR x := by
  unfold approxParabolaInvIntegral invIntR
  simp only [scalar_norm, paraB, LawfulSqrt.sqrt_eq]
  push_cast
  congr 3
  ring

theorem invIntR_factor_pos (x : ℝ) : 0 < 1 - 39/100 + Real.sqrt ((39/100) ^ 2 + x ^ 2 / 4) := by
  have := Real.sqrt_nonneg ((39/100) ^ 2 + x ^ 2 / 4)
  linarith

theorem invIntR_neg (x : ℝ) : invIntR (-x) = - invIntR x := by
  unfold invIntR
  rw [neg_sq]; ring

theorem invIntR_lt_of_nonneg {x y : ℝ} (hx : 0 ≤ x) (hxy : x < y) : invIntR x < invIntR y := by
  unfold invIntR
  have hs : Real.sqrt ((39/100) ^ 2 + x ^ 2 / 4) ≤ Real.sqrt ((39/100) ^ 2 + y ^ 2 / 4) := by
    apply Real.sqrt_le_sqrt
    have : x ^ 2 ≤ y ^ 2 := by nlinarith
    linarith
  calc x * (1 - 39/100 + Real.sqrt ((39/100) ^ 2 + x ^ 2 / 4))
      ≤ x * (1 - 39/100 + Real.sqrt ((39/100) ^ 2 + y ^ 2 / 4)) := by
        apply mul_le_mul_of_nonneg_left _ hx; linarith
    _ < y * (1 - 39/100 + Real.sqrt ((39/100) ^ 2 + y ^ 2 / 4)) :=
        mul_lt_mul_of_pos_right hxy (invIntR_factor_pos y)

theorem invIntR_strictMono : StrictMono invIntR := by
  intro x y hxy
  rcases le_or_gt 0 x with hx | hx
  · exact invIntR_lt_of_nonneg hx hxy
  · rcases le_or_gt y 0 with hy | hy
    · -- both ≤ 0: use oddness
      have h := invIntR_lt_of_nonneg (x := -y) (y := -x) (by linarith) (by linarith)
      rw [invIntR_neg, invIntR_neg] at h
      linarith
    · have h1 : invIntR x < 0 := by
        unfold invIntR; exact mul_neg_of_neg_of_pos hx (invIntR_factor_pos x)
      have h2 : 0 < invIntR y := by
        unfold invIntR; exact mul_pos hy (invIntR_factor_pos y)
      linarith


/-- an odd function that is strictly increasing on `[0, ∞)` is strictly increasing -/
theorem strictMono_of_odd {f : ℝ → ℝ} (hodd : ∀ x, f (-x) = - f x)
    (h : ∀ x y, 0 ≤ x → x < y → f x < f y) : StrictMono f := by
  have h0 : f 0 = 0 := by have := hodd 0; simp at this; linarith
  intro x y hxy
  rcases le_or_gt 0 x with hx | hx
  · exact h x y hx hxy
  · rcases le_or_gt y 0 with hy | hy
    · have h' := h (-y) (-x) (by linarith) (by linarith)
      rw [hodd, hodd] at h'
      linarith
    · have h1 := h 0 (-x) le_rfl (by linarith)
      rw [hodd, h0] at h1
      have h2 := h 0 y le_rfl hy
      rw [h0] at h2
      linarith

/-- `x ↦ x / (1 − D + ⁴√(D⁴ + x²/4))`, `D = 67/100` -/
noncomputable def intR (x : ℝ) : ℝ := x / (1 - 67/100 + Real.sqrt (Real.sqrt ((67/100) ^ 4 + x ^ 2 / 4)))

theorem approxParabolaIntegral_real (x : ℝ) : approxParabolaIntegral x = intR x := by
  unfold approxParabolaIntegral intR
  simp only [scalar_norm, paraD, LawfulSqrt.sqrt_eq]
  push_cast
  congr 4
  ring

theorem intR_den_pos (x : ℝ) : 0 < 1 - 67/100 + Real.sqrt (Real.sqrt ((67/100) ^ 4 + x ^ 2 / 4)) := by
  have := Real.sqrt_nonneg (Real.sqrt ((67/100) ^ 4 + x ^ 2 / 4))
  linarith

theorem intR_neg (x : ℝ) : intR (-x) = - intR x := by
  unfold intR
  rw [neg_sq]; ring

theorem sqrt_sqrt_pow4 {z : ℝ} (hz : 0 ≤ z) : Real.sqrt (Real.sqrt z) ^ 4 = z := by
  have : Real.sqrt (Real.sqrt z) ^ 4 = (Real.sqrt (Real.sqrt z) ^ 2) ^ 2 := by ring
  rw [this, Real.sq_sqrt (Real.sqrt_nonneg z), Real.sq_sqrt hz]

theorem intR_lt_of_nonneg {x y : ℝ} (hx : 0 ≤ x) (hxy : x < y) : intR x < intR y := by
  unfold intR
  set hx' := Real.sqrt (Real.sqrt ((67/100) ^ 4 + x ^ 2 / 4)) with hhx
  set hy' := Real.sqrt (Real.sqrt ((67/100) ^ 4 + y ^ 2 / 4)) with hhy
  have hy0 : 0 < y := lt_of_le_of_lt hx hxy
  have hx'0 : 0 ≤ hx' := Real.sqrt_nonneg _
  have hy'0 : 0 ≤ hy' := Real.sqrt_nonneg _
  have hx4 : hx' ^ 4 = (67/100) ^ 4 + x ^ 2 / 4 := sqrt_sqrt_pow4 (by positivity)
  have hy4 : hy' ^ 4 = (67/100) ^ 4 + y ^ 2 / 4 := sqrt_sqrt_pow4 (by positivity)
  -- x·h(y) ≤ y·h(x), compared through fourth powers
  have key : x * hy' ≤ y * hx' := by
    have h4 : (x * hy') ^ 4 ≤ (y * hx') ^ 4 := by
      rw [mul_pow, mul_pow, hx4, hy4]
      have h1 : x ^ 4 ≤ y ^ 4 := pow_le_pow_left₀ hx hxy.le 4
      have h2 : x ^ 2 ≤ y ^ 2 := pow_le_pow_left₀ hx hxy.le 2
      have h3 : 0 ≤ x ^ 2 * y ^ 2 * (y ^ 2 - x ^ 2) :=
        mul_nonneg (mul_nonneg (sq_nonneg x) (sq_nonneg y)) (sub_nonneg.mpr h2)
      nlinarith
    exact (pow_le_pow_iff_left₀ (mul_nonneg hx hy'0) (mul_nonneg hy0.le hx'0) (by norm_num)).mp h4
  rw [div_lt_div_iff₀ (by linarith) (by linarith)]
  nlinarith

theorem intR_strictMono : StrictMono intR :=
  strictMono_of_odd intR_neg (fun _ _ hx hxy => intR_lt_of_nonneg hx hxy)


theorem determine_subdiv_t_real (q : QuadBez ℝ) (params : FlattenParams ℝ) (hwf : params.WF) (x : ℝ) :
    q.determine_subdiv_t params x =
      (invIntR (params.a0 + (params.a2 - params.a0) * x) - invIntR params.a0) *
        (1 / (invIntR params.a2 - invIntR params.a0)) := by
  rw [determine_subdiv_t_eq, hwf.u0_eq, hwf.uscale_eq]
  simp only [approxParabolaInvIntegral_real]

theorem determine_subdiv_t_lt (q : QuadBez ℝ) (params : FlattenParams ℝ) (hwf : params.WF)
    (hne : params.a0 ≠ params.a2) {x y : ℝ} (hxy : x < y) :
    q.determine_subdiv_t params x < q.determine_subdiv_t params y := by
  rw [determine_subdiv_t_real q params hwf, determine_subdiv_t_real q params hwf]
  rcases lt_or_gt_of_ne hne with h | h
  · have hin : params.a0 + (params.a2 - params.a0) * x < params.a0 + (params.a2 - params.a0) * y := by
      have : 0 < params.a2 - params.a0 := sub_pos.mpr h
      nlinarith
    have h1 := invIntR_strictMono hin
    have hpos : 0 < invIntR params.a2 - invIntR params.a0 := sub_pos.mpr (invIntR_strictMono h)
    apply mul_lt_mul_of_pos_right _ (one_div_pos.mpr hpos)
    linarith
  · have hin : params.a0 + (params.a2 - params.a0) * y < params.a0 + (params.a2 - params.a0) * x := by
      have : params.a2 - params.a0 < 0 := sub_neg.mpr h
      nlinarith
    have h1 := invIntR_strictMono hin
    have hneg : invIntR params.a2 - invIntR params.a0 < 0 := sub_neg.mpr (invIntR_strictMono h)
    apply mul_lt_mul_of_neg_right _ (one_div_neg.mpr hneg)
    linarith

theorem determine_subdiv_t_le (q : QuadBez ℝ) (params : FlattenParams ℝ) (hwf : params.WF) {x y : ℝ} (hxy : x ≤ y) :
    q.determine_subdiv_t params x ≤ q.determine_subdiv_t params y := by
  by_cases hne : params.a0 = params.a2
  · have he : approxParabolaInvIntegral params.a0 = approxParabolaInvIntegral params.a2 := by rw [hne]
    rw [determine_subdiv_t_degenerate q params hwf.uscale_eq he, determine_subdiv_t_degenerate q params hwf.uscale_eq he]
  · rcases eq_or_lt_of_le hxy with h | h
    · rw [h]
    · exact (determine_subdiv_t_lt q params hwf hne h).le

theorem invInt_ne_of_ne (a0 a2 : ℝ) (h : a0 ≠ a2) : approxParabolaInvIntegral a0 ≠ approxParabolaInvIntegral a2 := by
  rw [approxParabolaInvIntegral_real, approxParabolaInvIntegral_real]
  exact fun he => h (invIntR_strictMono.injective he)

theorem estimate_subdiv_a0_ne_a2_iff (q : QuadBez ℝ) (s : ℝ) :
    (q.estimate_subdiv s).a0 ≠ (q.estimate_subdiv s).a2 ↔ q.triCross ≠ 0 := by
  rw [estimate_subdiv_a0, estimate_subdiv_a2, approxParabolaIntegral_real, approxParabolaIntegral_real,
    ← subdivX0_ne_subdivX2_iff]
  exact ⟨fun h he => h (by rw [he]), fun h he => h (intR_strictMono.injective he)⟩


end real

/-! ### the laws are satisfiable: ℝ with the Mathlib functions -/

/-- ℝ as a `Scalar` (fields that no C05 statement mentions are filled arbitrarily) -/
@[instance_reducible] noncomputable def realScalarC05 : Scalar ℝ where
  add := (· + ·); sub := (· - ·); mul := (· * ·); div := (· / ·); neg := (- ·)
  abs x := |x|
  lt a b := decide (a < b); le a b := decide (a ≤ b); beq a b := decide (a = b)
  ofRat r := (r : ℝ)
  floor x := (⌊x⌋ : ℝ); ceil x := (⌈x⌉ : ℝ)
  round a := if a < 0 then (⌈a - 1/2⌉ : ℝ) else (⌊a + 1/2⌋ : ℝ)
  trunc a := if a < 0 then (⌈a⌉ : ℝ) else (⌊a⌋ : ℝ)
  sqrt := Real.sqrt
  cbrt x := x
  sin x := x
  cos x := x
  tan x := x
  acos x := x
  atan2 y _ := y
  powf x _ := x
  ln x := x
  log2 x := x
  fma a b c := a * b + c
  hypot x y := Real.sqrt (x * x + y * y)
  copysign a b := if b < 0 then -|a| else |a|
  fin _ := true
  finQuot den _ := decide (den ≠ 0)
  isNan _ := false
  toUSize x := ⌊x⌋₊
  signum x := if x < 0 then -1 else 1
  min a b := min a b
  max a b := max a b
  fmod a _ := a
  pi := 3

theorem realScalarC05_lawful : @LawfulScalar ℝ _ _ _ _ realScalarC05 :=
  letI := realScalarC05
  { add_eq := fun _ _ => rfl, sub_eq := fun _ _ => rfl, mul_eq := fun _ _ => rfl, div_eq := fun _ _ => rfl,
    neg_eq := fun _ => rfl, abs_eq := fun _ => rfl, lt_eq := fun _ _ => rfl, le_eq := fun _ _ => rfl,
    beq_eq := fun _ _ => rfl, ofRat_eq := fun _ => rfl, min_eq := fun _ _ => rfl, max_eq := fun _ _ => rfl,
    floor_eq := fun _ => rfl, ceil_eq := fun _ => rfl, trunc_eq := fun _ => rfl, round_eq := fun _ => rfl,
    copysign_eq := fun _ _ => rfl, signum_eq := fun _ => rfl, fin_eq := fun _ => rfl, finQuot_eq := fun _ _ => rfl,
    isNan_eq := fun _ => rfl, fma_eq := fun _ _ _ => rfl }

theorem realScalarC05_lawfulSqrt : @LawfulSqrt realScalarC05 :=
  letI := realScalarC05
  { sqrt_eq := fun _ => rfl }

end Kurbo
