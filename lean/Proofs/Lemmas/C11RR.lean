import Proofs.KDefs
import Proofs.Lemmas.C20
import Kurbo.Shapes
/-! C11 helpers, rounded-rectangle part: the clamp-and-circle test of `RoundedRect::winding` in one quadrant is
    membership in the ideal shape (port of the design-round prototype `Proofs_RR`), the radius selection `rrRadius`,
    the vocabulary `RoundedRect.RadiiOk` / `RoundedRect.Ideal`, and the lift to the whole `RoundedRect.winding`. -/
set_option linter.unusedSectionVars false
set_option linter.unusedVariables false
namespace Kurbo
variable {K : Type} [Field K] [LinearOrder K] [IsStrictOrderedRing K] [FloorRing K] [Scalar K] [LawfulScalar K]

/-! ### rounded rectangle: the clamp-and-circle test in one quadrant (port of the prototype `Proofs_RR`) -/
namespace C11RR

/-- steps 3–5 of `RoundedRect::winding` -/
def inside (u v hw hh r : K) : Prop :=
  let ihw := max (hw - r) 0
  let ihh := max (hh - r) 0
  let px := max (u - ihw) 0
  let py := max (v - ihh) 0
  px * px + py * py ≤ r * r

/-- the ideal shape in that quadrant: inside the rectangle, and outside the corner square or inside the corner disc -/
def ideal (u v hw hh r : K) : Prop :=
  u ≤ hw ∧ v ≤ hh ∧ (u ≤ hw - r ∨ v ≤ hh - r ∨ (u - (hw - r)) * (u - (hw - r)) + (v - (hh - r)) * (v - (hh - r)) ≤ r * r)

theorem sq_le_sq_iff_of_nonneg {a b : K} (ha : 0 ≤ a) (hb : 0 ≤ b) : a * a ≤ b * b ↔ a ≤ b := by
  constructor
  · intro h; by_contra hlt; have := not_le.mp hlt; nlinarith
  · intro h; nlinarith

theorem inside_iff_ideal (u v hw hh r : K) (hr : 0 ≤ r) (hrw : r ≤ hw) (hrh : r ≤ hh) :
    inside u v hw hh r ↔ ideal u v hw hh r := by
  unfold inside ideal
  simp only
  have ha : 0 ≤ hw - r := by linarith
  have hb : 0 ≤ hh - r := by linarith
  rw [max_eq_left ha, max_eq_left hb]
  rcases le_total u (hw - r) with hu | hu <;> rcases le_total v (hh - r) with hv | hv
  · rw [max_eq_right (by linarith), max_eq_right (by linarith)]
    constructor
    · intro _; exact ⟨by linarith, by linarith, Or.inl hu⟩
    · intro _; nlinarith
  · rw [max_eq_right (by linarith), max_eq_left (by linarith)]
    have hpy : 0 ≤ v - (hh - r) := by linarith
    constructor
    · intro h
      have : (v - (hh - r)) * (v - (hh - r)) ≤ r * r := by linarith
      have := (sq_le_sq_iff_of_nonneg hpy hr).mp this
      exact ⟨by linarith, by linarith, Or.inl hu⟩
    · rintro ⟨_, h2, _⟩
      have : v - (hh - r) ≤ r := by linarith
      have := (sq_le_sq_iff_of_nonneg hpy hr).mpr this
      linarith
  · rw [max_eq_left (by linarith), max_eq_right (by linarith)]
    have hpx : 0 ≤ u - (hw - r) := by linarith
    constructor
    · intro h
      have : (u - (hw - r)) * (u - (hw - r)) ≤ r * r := by linarith
      have := (sq_le_sq_iff_of_nonneg hpx hr).mp this
      exact ⟨by linarith, by linarith, Or.inr (Or.inl hv)⟩
    · rintro ⟨h1, _, _⟩
      have : u - (hw - r) ≤ r := by linarith
      have := (sq_le_sq_iff_of_nonneg hpx hr).mpr this
      linarith
  · rw [max_eq_left (by linarith), max_eq_left (by linarith)]
    have hpx : 0 ≤ u - (hw - r) := by linarith
    have hpy : 0 ≤ v - (hh - r) := by linarith
    constructor
    · intro h
      have h1 : (u - (hw - r)) * (u - (hw - r)) ≤ r * r := by nlinarith [mul_self_nonneg (v - (hh - r))]
      have h2 : (v - (hh - r)) * (v - (hh - r)) ≤ r * r := by nlinarith [mul_self_nonneg (u - (hw - r))]
      have := (sq_le_sq_iff_of_nonneg hpx hr).mp h1
      have := (sq_le_sq_iff_of_nonneg hpy hr).mp h2
      exact ⟨by linarith, by linarith, Or.inr (Or.inr h)⟩
    · rintro ⟨h1, h2, h | h | h⟩
      · have e : u - (hw - r) = 0 := by linarith
        have hv' : v - (hh - r) ≤ r := by linarith
        have := (sq_le_sq_iff_of_nonneg hpy hr).mpr hv'
        rw [e]; linarith
      · have e : v - (hh - r) = 0 := by linarith
        have hu' : u - (hw - r) ≤ r := by linarith
        have := (sq_le_sq_iff_of_nonneg hpx hr).mpr hu'
        rw [e]; linarith
      · exact h


end C11RR

theorem ite_one_zero_eq_one_iff (c : Prop) [Decidable c] : (if c then (1 : Int) else 0) = 1 ↔ c := by
  split_ifs with h <;> simp [h]

/-- the corner radius `RoundedRect::winding` selects for the centred coordinates `(dx, dy)` -/
def rrRadius (s : RoundedRect K) (dx dy : K) : K :=
  if dx < 0 ∧ dy < 0 then s.radii.top_left
  else if 0 ≤ dx ∧ dy < 0 then s.radii.top_right
  else if 0 ≤ dx ∧ 0 ≤ dy then s.radii.bottom_right
  else if dx < 0 ∧ 0 ≤ dy then s.radii.bottom_left
  else 0

/-- `RoundedRect::winding` is `1` exactly when the clamp-and-circle test succeeds -/
theorem RoundedRect.winding_eq_one_iff_inside (s : RoundedRect K) (p : Point K) :
    s.winding p = 1 ↔
      C11RR.inside |p.x - 1 / 2 * (s.rect.x0 + s.rect.x1)| |p.y - 1 / 2 * (s.rect.y0 + s.rect.y1)|
        ((s.rect.x1 - s.rect.x0) / 2) ((s.rect.y1 - s.rect.y0) / 2)
        (rrRadius s (p.x - 1 / 2 * (s.rect.x0 + s.rect.x1)) (p.y - 1 / 2 * (s.rect.y0 + s.rect.y1))) := by
  unfold RoundedRect.winding C11RR.inside rrRadius
  simp only [kdefs, Rect.center, Rect.width, Rect.height, scalar_norm, Bool.and_eq_true, decide_eq_true_eq]
  push_cast
  rw [ite_one_zero_eq_one_iff]

theorem RoundedRect.winding_zero_or_one (s : RoundedRect K) (p : Point K) : s.winding p = 0 ∨ s.winding p = 1 := by
  unfold RoundedRect.winding
  dsimp only
  split_ifs <;> first | exact Or.inr rfl | exact Or.inl rfl


/-- the radii are admissible for the rectangle: each lies in `[0, min(width, height)/2]` (what `from_rect` ensures) -/
def RoundedRect.RadiiOk (s : RoundedRect K) : Prop :=
  (0 ≤ s.radii.top_left ∧ s.radii.top_left ≤ min (s.rect.x1 - s.rect.x0) (s.rect.y1 - s.rect.y0) / 2) ∧
  (0 ≤ s.radii.top_right ∧ s.radii.top_right ≤ min (s.rect.x1 - s.rect.x0) (s.rect.y1 - s.rect.y0) / 2) ∧
  (0 ≤ s.radii.bottom_right ∧ s.radii.bottom_right ≤ min (s.rect.x1 - s.rect.x0) (s.rect.y1 - s.rect.y0) / 2) ∧
  (0 ≤ s.radii.bottom_left ∧ s.radii.bottom_left ≤ min (s.rect.x1 - s.rect.x0) (s.rect.y1 - s.rect.y0) / 2)

/-- the ideal rounded rectangle (closed set): the closed rectangle minus, at each corner, the part of the corner
    square `r × r` that lies outside the disc of radius `r` inscribed in that corner (`r` = that corner's radius;
    "top" is `y0`, "left" is `x0`, as in kurbo's y-down convention) -/
def RoundedRect.Ideal (s : RoundedRect K) (p : Point K) : Prop :=
  (s.rect.x0 ≤ p.x ∧ p.x ≤ s.rect.x1 ∧ s.rect.y0 ≤ p.y ∧ p.y ≤ s.rect.y1) ∧
  (p.x < s.rect.x0 + s.radii.top_left → p.y < s.rect.y0 + s.radii.top_left →
    (p.x - (s.rect.x0 + s.radii.top_left)) ^ 2 + (p.y - (s.rect.y0 + s.radii.top_left)) ^ 2 ≤ s.radii.top_left ^ 2) ∧
  (s.rect.x1 - s.radii.top_right < p.x → p.y < s.rect.y0 + s.radii.top_right →
    (p.x - (s.rect.x1 - s.radii.top_right)) ^ 2 + (p.y - (s.rect.y0 + s.radii.top_right)) ^ 2 ≤ s.radii.top_right ^ 2) ∧
  (s.rect.x1 - s.radii.bottom_right < p.x → s.rect.y1 - s.radii.bottom_right < p.y →
    (p.x - (s.rect.x1 - s.radii.bottom_right)) ^ 2 + (p.y - (s.rect.y1 - s.radii.bottom_right)) ^ 2
      ≤ s.radii.bottom_right ^ 2) ∧
  (p.x < s.rect.x0 + s.radii.bottom_left → s.rect.y1 - s.radii.bottom_left < p.y →
    (p.x - (s.rect.x0 + s.radii.bottom_left)) ^ 2 + (p.y - (s.rect.y1 - s.radii.bottom_left)) ^ 2
      ≤ s.radii.bottom_left ^ 2)

namespace C11RR

theorem ideal_TL {x0 x1 y0 y1 r px py : K} (hdx : px - 1 / 2 * (x0 + x1) < 0) (hdy : py - 1 / 2 * (y0 + y1) < 0) :
    ideal |px - 1 / 2 * (x0 + x1)| |py - 1 / 2 * (y0 + y1)| ((x1 - x0) / 2) ((y1 - y0) / 2) r ↔
      x0 ≤ px ∧ y0 ≤ py ∧ (px < x0 + r → py < y0 + r → (px - (x0 + r)) ^ 2 + (py - (y0 + r)) ^ 2 ≤ r ^ 2) := by
  unfold ideal
  rw [abs_of_neg hdx, abs_of_neg hdy]
  constructor
  · rintro ⟨h1, h2, h3⟩
    refine ⟨by linarith, by linarith, fun a b => ?_⟩
    rcases h3 with h | h | h
    · linarith
    · linarith
    · linarith [h]
  · rintro ⟨h1, h2, h3⟩
    refine ⟨by linarith, by linarith, ?_⟩
    by_cases a : px < x0 + r
    · by_cases b : py < y0 + r
      · right; right; have := h3 a b; linarith
      · right; left; linarith
    · left; linarith

theorem ideal_TR {x0 x1 y0 y1 r px py : K} (hdx : 0 ≤ px - 1 / 2 * (x0 + x1)) (hdy : py - 1 / 2 * (y0 + y1) < 0) :
    ideal |px - 1 / 2 * (x0 + x1)| |py - 1 / 2 * (y0 + y1)| ((x1 - x0) / 2) ((y1 - y0) / 2) r ↔
      px ≤ x1 ∧ y0 ≤ py ∧ (x1 - r < px → py < y0 + r → (px - (x1 - r)) ^ 2 + (py - (y0 + r)) ^ 2 ≤ r ^ 2) := by
  unfold ideal
  rw [abs_of_nonneg hdx, abs_of_neg hdy]
  constructor
  · rintro ⟨h1, h2, h3⟩
    refine ⟨by linarith, by linarith, fun a b => ?_⟩
    rcases h3 with h | h | h
    · linarith
    · linarith
    · linarith [h]
  · rintro ⟨h1, h2, h3⟩
    refine ⟨by linarith, by linarith, ?_⟩
    by_cases a : x1 - r < px
    · by_cases b : py < y0 + r
      · right; right; have := h3 a b; linarith
      · right; left; linarith
    · left; linarith

theorem ideal_BR {x0 x1 y0 y1 r px py : K} (hdx : 0 ≤ px - 1 / 2 * (x0 + x1)) (hdy : 0 ≤ py - 1 / 2 * (y0 + y1)) :
    ideal |px - 1 / 2 * (x0 + x1)| |py - 1 / 2 * (y0 + y1)| ((x1 - x0) / 2) ((y1 - y0) / 2) r ↔
      px ≤ x1 ∧ py ≤ y1 ∧ (x1 - r < px → y1 - r < py → (px - (x1 - r)) ^ 2 + (py - (y1 - r)) ^ 2 ≤ r ^ 2) := by
  unfold ideal
  rw [abs_of_nonneg hdx, abs_of_nonneg hdy]
  constructor
  · rintro ⟨h1, h2, h3⟩
    refine ⟨by linarith, by linarith, fun a b => ?_⟩
    rcases h3 with h | h | h
    · linarith
    · linarith
    · linarith [h]
  · rintro ⟨h1, h2, h3⟩
    refine ⟨by linarith, by linarith, ?_⟩
    by_cases a : x1 - r < px
    · by_cases b : y1 - r < py
      · right; right; have := h3 a b; linarith
      · right; left; linarith
    · left; linarith

theorem ideal_BL {x0 x1 y0 y1 r px py : K} (hdx : px - 1 / 2 * (x0 + x1) < 0) (hdy : 0 ≤ py - 1 / 2 * (y0 + y1)) :
    ideal |px - 1 / 2 * (x0 + x1)| |py - 1 / 2 * (y0 + y1)| ((x1 - x0) / 2) ((y1 - y0) / 2) r ↔
      x0 ≤ px ∧ py ≤ y1 ∧ (px < x0 + r → y1 - r < py → (px - (x0 + r)) ^ 2 + (py - (y1 - r)) ^ 2 ≤ r ^ 2) := by
  unfold ideal
  rw [abs_of_neg hdx, abs_of_nonneg hdy]
  constructor
  · rintro ⟨h1, h2, h3⟩
    refine ⟨by linarith, by linarith, fun a b => ?_⟩
    rcases h3 with h | h | h
    · linarith
    · linarith
    · linarith [h]
  · rintro ⟨h1, h2, h3⟩
    refine ⟨by linarith, by linarith, ?_⟩
    by_cases a : px < x0 + r
    · by_cases b : y1 - r < py
      · right; right; have := h3 a b; linarith
      · right; left; linarith
    · left; linarith

end C11RR

theorem RoundedRect.winding_eq_one_iff_ideal (s : RoundedRect K) (hn : s.rect.Nonneg) (hr : s.RadiiOk) (p : Point K) :
    s.winding p = 1 ↔ s.Ideal p := by
  rw [RoundedRect.winding_eq_one_iff_inside]
  obtain ⟨⟨tl0, tl1⟩, ⟨tr0, tr1⟩, ⟨br0, br1⟩, ⟨bl0, bl1⟩⟩ := hr
  obtain ⟨hx, hy⟩ := hn
  have mw := min_le_left (s.rect.x1 - s.rect.x0) (s.rect.y1 - s.rect.y0)
  have mh := min_le_right (s.rect.x1 - s.rect.x0) (s.rect.y1 - s.rect.y0)
  unfold RoundedRect.Ideal
  rcases lt_or_ge (p.x - 1 / 2 * (s.rect.x0 + s.rect.x1)) 0 with hdx | hdx <;>
    rcases lt_or_ge (p.y - 1 / 2 * (s.rect.y0 + s.rect.y1)) 0 with hdy | hdy
  · have e : rrRadius s (p.x - 1 / 2 * (s.rect.x0 + s.rect.x1)) (p.y - 1 / 2 * (s.rect.y0 + s.rect.y1))
        = s.radii.top_left := by
      unfold rrRadius; rw [if_pos ⟨hdx, hdy⟩]
    rw [e, C11RR.inside_iff_ideal _ _ _ _ _ tl0 (by linarith) (by linarith), C11RR.ideal_TL hdx hdy]
    constructor
    · rintro ⟨h1, h2, h3⟩
      exact ⟨⟨h1, by linarith, h2, by linarith⟩, h3, fun a => by linarith, fun a => by linarith,
        fun _ b => by linarith⟩
    · rintro ⟨⟨h1, _, h2, _⟩, h3, _⟩
      exact ⟨h1, h2, h3⟩
  · have e : rrRadius s (p.x - 1 / 2 * (s.rect.x0 + s.rect.x1)) (p.y - 1 / 2 * (s.rect.y0 + s.rect.y1))
        = s.radii.bottom_left := by
      unfold rrRadius
      rw [if_neg (fun h => absurd h.2 (not_lt.mpr hdy)), if_neg (fun h => absurd hdx (not_lt.mpr h.1)),
        if_neg (fun h => absurd hdx (not_lt.mpr h.1)), if_pos ⟨hdx, hdy⟩]
    rw [e, C11RR.inside_iff_ideal _ _ _ _ _ bl0 (by linarith) (by linarith), C11RR.ideal_BL hdx hdy]
    constructor
    · rintro ⟨h1, h2, h3⟩
      exact ⟨⟨h1, by linarith, by linarith, h2⟩, fun _ b => by linarith, fun a => by linarith,
        fun a => by linarith, h3⟩
    · rintro ⟨⟨h1, _, _, h2⟩, _, _, _, h3⟩
      exact ⟨h1, h2, h3⟩
  · have e : rrRadius s (p.x - 1 / 2 * (s.rect.x0 + s.rect.x1)) (p.y - 1 / 2 * (s.rect.y0 + s.rect.y1))
        = s.radii.top_right := by
      unfold rrRadius
      rw [if_neg (fun h => absurd h.1 (not_lt.mpr hdx)), if_pos ⟨hdx, hdy⟩]
    rw [e, C11RR.inside_iff_ideal _ _ _ _ _ tr0 (by linarith) (by linarith), C11RR.ideal_TR hdx hdy]
    constructor
    · rintro ⟨h1, h2, h3⟩
      exact ⟨⟨by linarith, h1, h2, by linarith⟩, fun a => by linarith, h3, fun _ b => by linarith,
        fun a => by linarith⟩
    · rintro ⟨⟨_, h1, h2, _⟩, _, h3, _⟩
      exact ⟨h1, h2, h3⟩
  · have e : rrRadius s (p.x - 1 / 2 * (s.rect.x0 + s.rect.x1)) (p.y - 1 / 2 * (s.rect.y0 + s.rect.y1))
        = s.radii.bottom_right := by
      unfold rrRadius
      rw [if_neg (fun h => absurd h.1 (not_lt.mpr hdx)), if_neg (fun h => absurd h.2 (not_lt.mpr hdy)),
        if_pos ⟨hdx, hdy⟩]
    rw [e, C11RR.inside_iff_ideal _ _ _ _ _ br0 (by linarith) (by linarith), C11RR.ideal_BR hdx hdy]
    constructor
    · rintro ⟨h1, h2, h3⟩
      exact ⟨⟨by linarith, h1, by linarith, h2⟩, fun a => by linarith, fun _ b => by linarith, h3,
        fun a => by linarith⟩
    · rintro ⟨⟨_, h1, _, h2⟩, _, _, h3, _⟩
      exact ⟨h1, h2, h3⟩



theorem RoundedRect.RadiiOk.bounds {s : RoundedRect K} (hr : s.RadiiOk) :
    (0 ≤ s.radii.top_left ∧ 2 * s.radii.top_left ≤ s.rect.x1 - s.rect.x0 ∧ 2 * s.radii.top_left ≤ s.rect.y1 - s.rect.y0) ∧
    (0 ≤ s.radii.top_right ∧ 2 * s.radii.top_right ≤ s.rect.x1 - s.rect.x0 ∧ 2 * s.radii.top_right ≤ s.rect.y1 - s.rect.y0) ∧
    (0 ≤ s.radii.bottom_right ∧ 2 * s.radii.bottom_right ≤ s.rect.x1 - s.rect.x0 ∧
      2 * s.radii.bottom_right ≤ s.rect.y1 - s.rect.y0) ∧
    (0 ≤ s.radii.bottom_left ∧ 2 * s.radii.bottom_left ≤ s.rect.x1 - s.rect.x0 ∧
      2 * s.radii.bottom_left ≤ s.rect.y1 - s.rect.y0) := by
  obtain ⟨⟨a0, a1⟩, ⟨b0, b1⟩, ⟨c0, c1⟩, ⟨d0, d1⟩⟩ := hr
  have mw := min_le_left (s.rect.x1 - s.rect.x0) (s.rect.y1 - s.rect.y0)
  have mh := min_le_right (s.rect.x1 - s.rect.x0) (s.rect.y1 - s.rect.y0)
  exact ⟨⟨a0, by linarith, by linarith⟩, ⟨b0, by linarith, by linarith⟩, ⟨c0, by linarith, by linarith⟩,
    ⟨d0, by linarith, by linarith⟩⟩

/-- the four tangent points where the outline's straight pieces start (`rectEls`) belong to the ideal shape -/
theorem RoundedRect.ideal_tangent_points (s : RoundedRect K) (hn : s.rect.Nonneg) (hr : s.RadiiOk) :
    s.Ideal ⟨s.rect.x0, s.rect.y0 + s.radii.top_left⟩ ∧ s.Ideal ⟨s.rect.x1 - s.radii.top_right, s.rect.y0⟩ ∧
    s.Ideal ⟨s.rect.x1, s.rect.y1 - s.radii.bottom_right⟩ ∧ s.Ideal ⟨s.rect.x0 + s.radii.bottom_left, s.rect.y1⟩ := by
  obtain ⟨⟨a0, a1, a2⟩, ⟨b0, b1, b2⟩, ⟨c0, c1, c2⟩, ⟨d0, d1, d2⟩⟩ := hr.bounds
  obtain ⟨hx, hy⟩ := hn
  unfold RoundedRect.Ideal
  simp only
  refine ⟨⟨⟨by linarith, by linarith, by linarith, by linarith⟩, ?_, ?_, ?_, ?_⟩,
    ⟨⟨by linarith, by linarith, by linarith, by linarith⟩, ?_, ?_, ?_, ?_⟩,
    ⟨⟨by linarith, by linarith, by linarith, by linarith⟩, ?_, ?_, ?_, ?_⟩,
    ⟨⟨by linarith, by linarith, by linarith, by linarith⟩, ?_, ?_, ?_, ?_⟩⟩ <;>
  (intro h1 h2; exfalso; linarith)


namespace C11RR
theorem disc_mono {u v c c' e e' r : K} (hx : (u - c') ^ 2 ≤ (u - c) ^ 2) (hy : (v - e') ^ 2 ≤ (v - e) ^ 2)
    (hd : (u - c) ^ 2 + (v - e) ^ 2 ≤ r ^ 2) : (u - c') ^ 2 + (v - e') ^ 2 ≤ r ^ 2 := by linarith
theorem sq_sub_le_right {u c c' : K} (h1 : c ≤ c') (h2 : c' ≤ u) : (u - c') ^ 2 ≤ (u - c) ^ 2 := by
  nlinarith [mul_nonneg (sub_nonneg.2 h1) (by linarith : (0 : K) ≤ 2 * u - c - c')]
theorem sq_sub_le_left {u c c' : K} (h1 : c' ≤ c) (h2 : u ≤ c') : (u - c') ^ 2 ≤ (u - c) ^ 2 := by
  nlinarith [mul_nonneg (sub_nonneg.2 h1) (by linarith : (0 : K) ≤ c + c' - 2 * u)]
theorem disc_bounds {u v c e r : K} (hr : 0 ≤ r) (hd : (u - c) ^ 2 + (v - e) ^ 2 ≤ r ^ 2) :
    (c - r ≤ u ∧ u ≤ c + r) ∧ (e - r ≤ v ∧ v ≤ e + r) := by
  have hx : (u - c) ^ 2 ≤ r ^ 2 := by nlinarith [sq_nonneg (v - e)]
  have hy : (v - e) ^ 2 ≤ r ^ 2 := by nlinarith [sq_nonneg (u - c)]
  obtain ⟨a1, a2⟩ := abs_le_of_sq_le_sq' hx hr
  obtain ⟨b1, b2⟩ := abs_le_of_sq_le_sq' hy hr
  exact ⟨⟨by linarith, by linarith⟩, ⟨by linarith, by linarith⟩⟩
end C11RR

/-- with one radius for all four corners the ideal shape is the union of the two inner strips and the four corner
    discs -/
theorem RoundedRect.ideal_uniform_iff (rect : Rect K) (r : K) (hn : rect.Nonneg) (hr0 : 0 ≤ r)
    (hrw : 2 * r ≤ rect.x1 - rect.x0) (hrh : 2 * r ≤ rect.y1 - rect.y0) (p : Point K) :
    (⟨rect, ⟨r, r, r, r⟩⟩ : RoundedRect K).Ideal p ↔
      (rect.x0 ≤ p.x ∧ p.x ≤ rect.x1 ∧ rect.y0 + r ≤ p.y ∧ p.y ≤ rect.y1 - r) ∨
      (rect.x0 + r ≤ p.x ∧ p.x ≤ rect.x1 - r ∧ rect.y0 ≤ p.y ∧ p.y ≤ rect.y1) ∨
      (p.x - (rect.x0 + r)) ^ 2 + (p.y - (rect.y0 + r)) ^ 2 ≤ r ^ 2 ∨
      (p.x - (rect.x1 - r)) ^ 2 + (p.y - (rect.y0 + r)) ^ 2 ≤ r ^ 2 ∨
      (p.x - (rect.x1 - r)) ^ 2 + (p.y - (rect.y1 - r)) ^ 2 ≤ r ^ 2 ∨
      (p.x - (rect.x0 + r)) ^ 2 + (p.y - (rect.y1 - r)) ^ 2 ≤ r ^ 2 := by
  obtain ⟨hx, hy⟩ := hn
  unfold RoundedRect.Ideal
  simp only
  constructor
  · rintro ⟨⟨c1, c2, c3, c4⟩, cTL, cTR, cBR, cBL⟩
    by_cases hxl : p.x < rect.x0 + r
    · by_cases hyt : p.y < rect.y0 + r
      · exact Or.inr (Or.inr (Or.inl (cTL hxl hyt)))
      · by_cases hyb : rect.y1 - r < p.y
        · exact Or.inr (Or.inr (Or.inr (Or.inr (Or.inr (cBL hxl hyb)))))
        · exact Or.inl ⟨c1, c2, by linarith, by linarith⟩
    · by_cases hxr : rect.x1 - r < p.x
      · by_cases hyt : p.y < rect.y0 + r
        · exact Or.inr (Or.inr (Or.inr (Or.inl (cTR hxr hyt))))
        · by_cases hyb : rect.y1 - r < p.y
          · exact Or.inr (Or.inr (Or.inr (Or.inr (Or.inl (cBR hxr hyb)))))
          · exact Or.inl ⟨c1, c2, by linarith, by linarith⟩
      · exact Or.inr (Or.inl ⟨by linarith, by linarith, c3, c4⟩)
  · rintro (⟨c1, c2, c3, c4⟩ | ⟨c1, c2, c3, c4⟩ | hd | hd | hd | hd)
    · exact ⟨⟨c1, c2, by linarith, by linarith⟩, fun _ b => by linarith, fun _ b => by linarith,
        fun _ b => by linarith, fun _ b => by linarith⟩
    · exact ⟨⟨by linarith, by linarith, c3, c4⟩, fun a _ => by linarith, fun a _ => by linarith,
        fun a _ => by linarith, fun a _ => by linarith⟩
    all_goals
      obtain ⟨⟨b1, b2⟩, ⟨b3, b4⟩⟩ := C11RR.disc_bounds hr0 hd
      refine ⟨⟨by linarith, by linarith, by linarith, by linarith⟩, ?_, ?_, ?_, ?_⟩ <;>
      (intro a b
       refine C11RR.disc_mono ?_ ?_ hd
       · first
          | exact le_refl _
          | exact C11RR.sq_sub_le_right (by linarith) (by linarith)
          | exact C11RR.sq_sub_le_left (by linarith) (by linarith)
       · first
          | exact le_refl _
          | exact C11RR.sq_sub_le_right (by linarith) (by linarith)
          | exact C11RR.sq_sub_le_left (by linarith) (by linarith))


end Kurbo
