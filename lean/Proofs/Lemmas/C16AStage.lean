import Proofs.KDefs
import Proofs.Lemmas.C15Real
import Proofs.Lemmas.C11Real
import Proofs.Lemmas.C10Real
import Proofs.Lemmas.C16ASweep
import Kurbo.Shapes
/-! C16A helpers, part 3: `Arc.from_svg_arc` of the model, cut into stages (definitionally equal to the model, `rfl`), and its
    form over ℝ in terms of the real functions of `C16AGeom`. -/
set_option linter.unusedSectionVars false
namespace Kurbo
open Real

section generic
variable {K : Type} [Scalar K]
open Ops

/-- the `p` of F.6.5.1 as the code computes it -/
def svgP (arc : SvgArc K) : Vec2 K :=
  let xr := Scalar.fmod arc.x_rotation twoPi
  let sin_phi := Scalar.sin xr
  let cos_phi := Scalar.cos xr
  let hd_x := (arc.from.x - arc.to.x) * (Scalar.ofRat (1/2) : K)
  let hd_y := (arc.from.y - arc.to.y) * (Scalar.ofRat (1/2) : K)
  Vec2.new (cos_phi * hd_x + sin_phi * hd_y) (-sin_phi * hd_x + cos_phi * hd_y)

/-- `rf` of F.6.6.2 -/
def svgRf (arc : SvgArc K) : K :=
  let rx := sabs arc.radii.x
  let ry := sabs arc.radii.y
  let p := svgP arc
  p.x * p.x / (rx * rx) + p.y * p.y / (ry * ry)

/-- the sanitized radii -/
def svgRadii (arc : SvgArc K) : K × K :=
  let rx := sabs arc.radii.x
  let ry := sabs arc.radii.y
  let rf := svgRf arc
  if (1 : K) <. rf then (let scale := Scalar.sqrt rf; (rx * scale, ry * scale)) else (rx, ry)

/-- everything after the radii are fixed -/
def svgTail (arc : SvgArc K) (rx ry : K) : Arc K :=
  let xr := Scalar.fmod arc.x_rotation twoPi
  let sin_phi := Scalar.sin xr
  let cos_phi := Scalar.cos xr
  let hs_x := (arc.from.x + arc.to.x) * (Scalar.ofRat (1/2) : K)
  let hs_y := (arc.from.y + arc.to.y) * (Scalar.ofRat (1/2) : K)
  let p := svgP arc
  let rxry := rx * ry
  let rxpy := rx * p.y
  let rypx := ry * p.x
  let sum_of_sq := rxpy * rxpy + rypx * rypx
  let sign_coe : K := if arc.large_arc == arc.sweep then (-(1 : K)) else (1 : K)
  let coe := sign_coe * Scalar.sqrt (sabs ((rxry * rxry - sum_of_sq) / sum_of_sq))
  let transformed_cx := coe * rxpy / ry
  let transformed_cy := -coe * rypx / rx
  let center : Point K := Point.new (cos_phi * transformed_cx - sin_phi * transformed_cy + hs_x) (sin_phi * transformed_cx + cos_phi * transformed_cy + hs_y)
  let start_v : Vec2 K := Vec2.new ((p.x - transformed_cx) / rx) ((p.y - transformed_cy) / ry)
  let end_v : Vec2 K := Vec2.new ((-p.x - transformed_cx) / rx) ((-p.y - transformed_cy) / ry)
  let start_angle := start_v.atan2
  let sweep_angle := Scalar.fmod (end_v.atan2 - start_angle) twoPi
  let sweep_angle := if arc.sweep && sweep_angle <. (0 : K) then sweep_angle + twoPi
    else if !arc.sweep && (0 : K) <. sweep_angle then sweep_angle - twoPi else sweep_angle
  { center := center, radii := Vec2.new rx ry, start_angle := start_angle, sweep_angle := sweep_angle, x_rotation := arc.x_rotation }

/-- the model function IS the composition of the stages (by unfolding only) -/
theorem from_svg_arc_stages (arc : SvgArc K) :
    Arc.from_svg_arc arc
      = if arc.is_straight_line then none else some (svgTail arc (svgRadii arc).1 (svgRadii arc).2) := rfl

end generic
end Kurbo

namespace Kurbo
open Real SvgArcR

section real
variable [Scalar ℝ] [LawfulScalar ℝ] [LawfulReal] [LawfulRealAngle]

theorem fmod_eq_fmodR (a b : ℝ) : Scalar.fmod a b = fmodR a b := by
  rw [LawfulRealAngle.fmod_eq]; rfl

/-- `p`: half the chord `from − to`, turned by `−x_rotation` -/
noncomputable def pX (arc : SvgArc ℝ) : ℝ :=
  cos arc.x_rotation * ((arc.from.x - arc.to.x) * (1/2)) + sin arc.x_rotation * ((arc.from.y - arc.to.y) * (1/2))
noncomputable def pY (arc : SvgArc ℝ) : ℝ :=
  -sin arc.x_rotation * ((arc.from.x - arc.to.x) * (1/2)) + cos arc.x_rotation * ((arc.from.y - arc.to.y) * (1/2))

theorem svgP_eq (arc : SvgArc ℝ) : svgP arc = ⟨pX arc, pY arc⟩ := by
  simp only [svgP, pX, pY, kdefs, scalar_norm, twoPi_eq, LawfulRealAngle.pi_eq, fmod_eq_fmodR, LawfulReal.sin_eq,
    LawfulReal.cos_eq, sin_fmodR, cos_fmodR]
  push_cast
  rfl

/-- `rf` -/
noncomputable def rfR (arc : SvgArc ℝ) : ℝ :=
  pX arc * pX arc / (|arc.radii.x| * |arc.radii.x|) + pY arc * pY arc / (|arc.radii.y| * |arc.radii.y|)

theorem svgRf_eq (arc : SvgArc ℝ) : svgRf arc = rfR arc := by
  simp only [svgRf, rfR, svgP_eq, scalar_norm]

theorem svgRadii_eq (arc : SvgArc ℝ) :
    svgRadii arc = if 1 < rfR arc then (|arc.radii.x| * √(rfR arc), |arc.radii.y| * √(rfR arc)) else (|arc.radii.x|, |arc.radii.y|) := by
  simp only [svgRadii, svgRf_eq, scalar_norm, LawfulReal.sqrt_eq, decide_eq_true_eq]
  push_cast
  rfl

theorem svgTail_eq (arc : SvgArc ℝ) (rx ry : ℝ) :
    svgTail arc rx ry =
      { center := ⟨cos arc.x_rotation * tcx arc.large_arc arc.sweep (pX arc) (pY arc) rx ry
                    - sin arc.x_rotation * tcy arc.large_arc arc.sweep (pX arc) (pY arc) rx ry + (arc.from.x + arc.to.x) * (1/2),
                   sin arc.x_rotation * tcx arc.large_arc arc.sweep (pX arc) (pY arc) rx ry
                    + cos arc.x_rotation * tcy arc.large_arc arc.sweep (pX arc) (pY arc) rx ry + (arc.from.y + arc.to.y) * (1/2)⟩,
        radii := ⟨rx, ry⟩,
        start_angle := Complex.arg (startV arc.large_arc arc.sweep (pX arc) (pY arc) rx ry),
        sweep_angle := sweepAngle arc.large_arc arc.sweep (pX arc) (pY arc) rx ry,
        x_rotation := arc.x_rotation } := by
  simp only [svgTail, svgP_eq, kdefs, scalar_norm, twoPi_eq, LawfulRealAngle.pi_eq, fmod_eq_fmodR, LawfulReal.sin_eq,
    LawfulReal.cos_eq, sin_fmodR, cos_fmodR, LawfulReal.sqrt_eq, Vec2.atan2, LawfulReal.atan2_eq,
    sweepAngle, startV, endV, tcx, tcy, coe, fixSweep]
  push_cast
  rfl

end real
end Kurbo
