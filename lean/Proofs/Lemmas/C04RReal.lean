import Proofs.C10A
import Proofs.C12
import Proofs.Lemmas.C04RStruct
/-! Helper lemmas for C04R, part 2: the affine maps of `round_join` / `round_join_rev` are similarities with factor `|norm|`
    (any lawful scalar); over ℝ with `LawfulTrig`, `LawfulCount`: the pieces of the unit arc are the standard circular-arc
    cubics, stay in the band `1 ≤ |B(t)| ≤ 1 + T` for the unit tolerance `T > 0` (C10A), start at `(−cos angle, sin angle)` and end at `(−1, 0)`. -/
set_option linter.unusedSectionVars false
namespace Kurbo

section lawful
variable {K : Type} [Field K] [LinearOrder K] [IsStrictOrderedRing K] [FloorRing K] [Scalar K] [LawfulScalar K]

theorem c04rAff_act (c : Point K) (n : Vec2 K) (p : Point K) :
    c04rAff c n * p = ⟨c.x + (n.x * p.x - n.y * p.y), c.y + (n.y * p.x + n.x * p.y)⟩ := by
  unfold c04rAff; kaff

theorem c04rAffRev_act (c : Point K) (n : Vec2 K) (p : Point K) :
    c04rAffRev c n * p = ⟨c.x + (n.x * p.x + n.y * p.y), c.y + (n.y * p.x - n.x * p.y)⟩ := by
  unfold c04rAffRev; kaff

/-- the map of `round_join` multiplies distances from the centre by `|norm|` -/
theorem c04rAff_dist_sq (c : Point K) (n : Vec2 K) (p : Point K) :
    ((c04rAff c n * p).x - c.x) ^ 2 + ((c04rAff c n * p).y - c.y) ^ 2 = (n.x ^ 2 + n.y ^ 2) * (p.x ^ 2 + p.y ^ 2) := by
  rw [c04rAff_act]; ring

/-- … and so does the map of `round_join_rev` -/
theorem c04rAffRev_dist_sq (c : Point K) (n : Vec2 K) (p : Point K) :
    ((c04rAffRev c n * p).x - c.x) ^ 2 + ((c04rAffRev c n * p).y - c.y) ^ 2 = (n.x ^ 2 + n.y ^ 2) * (p.x ^ 2 + p.y ^ 2) := by
  rw [c04rAffRev_act]; ring

/-- the point `(−1, 0)` of the unit circle (angle `π`) goes to `center − norm` under both maps -/
theorem c04rAff_end (c : Point K) (n : Vec2 K) : c04rAff c n * (⟨-1, 0⟩ : Point K) = c - n := by
  rw [c04rAff_act]; cases c; cases n; kaff
theorem c04rAffRev_end (c : Point K) (n : Vec2 K) : c04rAffRev c n * (⟨-1, 0⟩ : Point K) = c - n := by
  rw [c04rAffRev_act]; cases c; cases n; kaff

/-- the point `(1, 0)` (angle `0`) goes to `center + norm` -/
theorem c04rAff_one (c : Point K) (n : Vec2 K) : c04rAff c n * (⟨1, 0⟩ : Point K) = c + n := by
  rw [c04rAff_act]; cases c; cases n; kaff

theorem c04rArc_radii (angle : K) : (c04rArc angle).radii = ⟨1, 1⟩ := by
  simp only [c04rArc, scalar_norm, Vec2.mk.injEq]; push_cast; exact ⟨rfl, rfl⟩
theorem c04rArc_rot (angle : K) : (c04rArc angle).x_rotation = 0 := by
  simp only [c04rArc, scalar_norm]; push_cast; rfl
theorem c04rArc_center (angle : K) : (c04rArc angle).center = ⟨0, 0⟩ := by
  simp only [c04rArc, scalar_norm, Point.mk.injEq]; push_cast; exact ⟨rfl, rfl⟩
theorem c04rArc_start (angle : K) : (c04rArc angle).start_angle = Scalar.pi - angle := by
  simp only [c04rArc, scalar_norm]

end lawful

section count
variable [Scalar ℝ] [LawfulScalar ℝ] [LawfulTrig] [LawfulCount]
open LawfulTrig LawfulCount

/-- piece `k` of the unit arc is the standard circular-arc cubic (radius 1 about the origin) between its accumulated angles -/
theorem c04rPiece_eq (T angle : ℝ) (k : Nat) :
    c04rPiece T angle k = circleArcCubic ⟨0, 0⟩ 1 (c04rArm T angle)
      (accAngle (Real.pi - angle) (c04rStep T angle) k) (accAngle (Real.pi - angle) (c04rStep T angle) (k + 1)) := by
  unfold c04rPiece c04rPt c04rC1 c04rC2
  rw [c04rArc_radii, c04rArc_rot, c04rArc_center, c04rArc_start, pi_eq]
  exact arc_piece_circular _ _ _ _ _ _

/-- every point of every piece of the unit arc at tolerance `T > 0`: `1 ≤ |B(t)| ≤ 1 + T` (C10A, `R = 1`) -/
theorem c04rPiece_band (T : ℝ) (hT : 0 < T) (angle : ℝ) (k : Nat) (t : ℝ) (h0 : 0 ≤ t) (h1 : t ≤ 1) :
    1 ≤ Real.sqrt (((c04rPiece T angle k).eval t).x ^ 2 + ((c04rPiece T angle k).eval t).y ^ 2) ∧
    Real.sqrt (((c04rPiece T angle k).eval t).x ^ 2 + ((c04rPiece T angle k).eval t).y ^ 2) ≤ 1 + T := by
  have h := arc_piece_within_tolerance (c04rArc angle) T 1 (c04rArc_radii angle) (by norm_num) hT k t h0 h1
  simp only [] at h
  rw [c04rArc_center, c04rArc_start, pi_eq] at h
  rw [c04rPiece_eq]
  have e : ∀ v : ℝ, v - (⟨0, 0⟩ : Point ℝ).x = v := fun v => sub_zero v
  simp only [e, abs_one] at h
  unfold c04rArm c04rStep
  exact h

/-- no piece only for `angle = 0` -/
theorem c04rN_eq_zero (T angle : ℝ) (h : c04rN T angle = 0) : angle = 0 :=
  (appendParams_real (c04rArc angle) T).2.2.1 h

/-- a round cap has at least one piece -/
theorem c04rN_pi_ne_zero (T : ℝ) : c04rN T (Scalar.pi : ℝ) ≠ 0 := by
  intro h
  have := c04rN_eq_zero _ _ h
  rw [pi_eq] at this
  exact Real.pi_ne_zero this

/-- the unit arc starts at `(−cos angle, sin angle)` (the angle `π − angle`) -/
theorem c04rPt_zero (T angle : ℝ) : c04rPt T angle 0 = ⟨-Real.cos angle, Real.sin angle⟩ := by
  unfold c04rPt
  rw [c04rArc_radii, c04rArc_rot, c04rArc_center, c04rArc_start, pi_eq, arcPt, accAngle, center_add_sample_circle,
    circlePt, Real.cos_pi_sub, Real.sin_pi_sub]
  simp

/-- … and ends (after its `n` pieces, also for `n = 0`) at `(−1, 0)` (the angle `π`) -/
theorem c04rPt_last (T angle : ℝ) : c04rPt T angle (c04rN T angle) = ⟨-1, 0⟩ := by
  have h := arc_last_point_real (c04rArc angle) T
  unfold c04rPt c04rStep c04rN
  rw [h, Arc.endPt, c04rArc_radii, c04rArc_rot, c04rArc_center, c04rArc_start, pi_eq,
    show (c04rArc angle).sweep_angle = angle from rfl, center_add_sample_circle, circlePt,
    show Real.pi - angle + angle = Real.pi by ring, Real.cos_pi, Real.sin_pi]
  simp

/-- the distance of an image point from the centre, with square roots -/
theorem c04r_sqrt_dist (c : Point ℝ) (n : Vec2 ℝ) (A : Affine ℝ) (p : Point ℝ)
    (hA : ((A * p).x - c.x) ^ 2 + ((A * p).y - c.y) ^ 2 = (n.x ^ 2 + n.y ^ 2) * (p.x ^ 2 + p.y ^ 2)) :
    Real.sqrt (((A * p).x - c.x) ^ 2 + ((A * p).y - c.y) ^ 2)
      = Real.sqrt (n.x ^ 2 + n.y ^ 2) * Real.sqrt (p.x ^ 2 + p.y ^ 2) := by
  rw [hA, Real.sqrt_mul (by positivity)]

/-- every point of the image of a unit-arc piece under a map that multiplies distances from `c` by `|n|` -/
theorem c04r_image_band (T : ℝ) (hT : 0 < T) (c : Point ℝ) (n : Vec2 ℝ) (A : Affine ℝ)
    (hA : ∀ p : Point ℝ, ((A * p).x - c.x) ^ 2 + ((A * p).y - c.y) ^ 2 = (n.x ^ 2 + n.y ^ 2) * (p.x ^ 2 + p.y ^ 2))
    (angle : ℝ) (k : Nat) (t : ℝ) (h0 : 0 ≤ t) (h1 : t ≤ 1) :
    Real.sqrt (n.x ^ 2 + n.y ^ 2)
      ≤ Real.sqrt ((((A * c04rPiece T angle k).eval t).x - c.x) ^ 2 + (((A * c04rPiece T angle k).eval t).y - c.y) ^ 2) ∧
    Real.sqrt ((((A * c04rPiece T angle k).eval t).x - c.x) ^ 2 + (((A * c04rPiece T angle k).eval t).y - c.y) ^ 2)
      ≤ Real.sqrt (n.x ^ 2 + n.y ^ 2) * (1 + T) := by
  obtain ⟨b1, b2⟩ := c04rPiece_band T hT angle k t h0 h1
  rw [cubic_eval_commutes, c04r_sqrt_dist c n A _ (hA _)]
  have hs : 0 ≤ Real.sqrt (n.x ^ 2 + n.y ^ 2) := Real.sqrt_nonneg _
  constructor
  · nlinarith
  · exact mul_le_mul_of_nonneg_left b2 hs

end count
end Kurbo
