import Proofs.Lemmas.C16BCanon
import Proofs.Lemmas.C16BMeaning
/-! C16B: the output *format* of `BezPath::write_to` (svg.rs: `M{},{}`, `L{},{}`, `Q{},{} {},{}`, `C{},{} {},{} {},{}`, `Z`,
    elements separated by one space) as a byte-list function `c16b_write`, parametrised by the number printer `spell`; it is a
    well-formed spelling (`c16b_wSpelled`) of the command list `els.map c16b_ofEl`, whose meaning is `els` again when every
    `ClosePath` is followed by a `MoveTo` or the end.  NOTE: `c16b_write` is defined here, by reading the Rust source; the model of
    `write_to` is `svgWrite` (`Kurbo/SvgWrite.lean`), proved equal to `c16b_write` in `Proofs/C16W.lean`.  Nothing ties `spell` to
    Rust's `Display for f64` (checked numeral by numeral in the correspondence stratum `writer`). -/
set_option linter.unusedSectionVars false
namespace Kurbo

/-- a number spelled `p` with no white space in front and the separator `sep` behind -/
def c16b_chunk (p : NumParts) (sep : List UInt8) : NumChunk := { ws := [], p := p, sep := sep }

/-- the separator after the last number of a command: one space in front of something that is neither white space nor a comma,
    or nothing at the very end -/
def c16b_LastOk (sep r : List UInt8) : Prop := (sep = [32] ∧ StopsAt c16b_isSep r) ∨ (sep = [] ∧ r = [])

theorem c16b_chunk_ok_comma {p : NumParts} (r : List UInt8) (hv : p.Valid) : (c16b_chunk p [44]).Ok r where
  ws := by intro c hc; simp [c16b_chunk] at hc
  valid := hv
  stops := NumParts.stops_cons ⟨by decide, fun _ => ⟨by decide, by decide, fun _ => by decide⟩⟩
  sep := SepOk.comma (ws := []) (by intro c hc; cases hc)

theorem c16b_chunk_ok_last {p : NumParts} {sep r : List UInt8} (hv : p.Valid) (h : c16b_LastOk sep r) :
    (c16b_chunk p sep).Ok r := by
  rcases h with ⟨rfl, hr⟩ | ⟨rfl, rfl⟩
  · exact c16b_canonChunk_ok hv hr
  · exact ⟨by intro c hc; simp [c16b_chunk] at hc, hv, NumParts.stops_nil _,
      SepOk.ws (ws := []) (by intro c hc; cases hc) (StopsAt.nil _)⟩

theorem c16b_chunk_stops {p : NumParts} (hv : p.Valid) (sep r : List UInt8) :
    StopsAt c16b_isSep ((c16b_chunk p sep).bytes ++ r) := by
  obtain ⟨b, br, hb, hnum⟩ := hv.bytes_head
  have : (c16b_chunk p sep).bytes ++ r = b :: (br ++ sep ++ r) := by simp [c16b_chunk, NumChunk.bytes, hb]
  rw [this]
  exact StopsAt.cons (c16b_numStart_not_sep hnum)

section
variable {K : Type} [Scalar K]

/-- the command `write_to` writes for a path element -/
def c16b_ofEl {α : Type} : PathEl α → C16Cmd α
  | .MoveTo p => .moveTo false p
  | .LineTo p => .lineTo false p
  | .QuadTo p1 p2 => .quadTo false p1 p2
  | .CurveTo p1 p2 p3 => .curveTo false p1 p2 p3
  | .ClosePath => .close false

/-- `{},{}` -/
def c16b_writePt (spell : K → NumParts) (p : Point K) : List UInt8 := (spell p.x).bytes ++ 44 :: (spell p.y).bytes

/-- one element as `write_to` formats it -/
def c16b_writeEl (spell : K → NumParts) : PathEl K → List UInt8
  | .MoveTo p => 77 :: c16b_writePt spell p
  | .LineTo p => 76 :: c16b_writePt spell p
  | .QuadTo p1 p2 => 81 :: (c16b_writePt spell p1 ++ 32 :: c16b_writePt spell p2)
  | .CurveTo p1 p2 p3 => 67 :: (c16b_writePt spell p1 ++ 32 :: (c16b_writePt spell p2 ++ 32 :: c16b_writePt spell p3))
  | .ClosePath => [90]

/-- **the format of `write_to`**: the elements, separated by one space -/
def c16b_write (spell : K → NumParts) : List (PathEl K) → List UInt8
  | [] => []
  | [e] => c16b_writeEl spell e
  | e :: e' :: es => c16b_writeEl spell e ++ 32 :: c16b_write spell (e' :: es)

/-- the pair `x,y` as chunks; `sep` follows `y` -/
def c16b_wPt (spell : K → NumParts) (sep : List UInt8) (p : Point K) : Point NumChunk :=
  ⟨c16b_chunk (spell p.x) [44], c16b_chunk (spell p.y) sep⟩

/-- the element as a spelled command; `sep` follows its last number -/
def c16b_wCmd (spell : K → NumParts) (sep : List UInt8) : PathEl K → C16Cmd NumChunk
  | .MoveTo p => .moveTo false (c16b_wPt spell sep p)
  | .LineTo p => .lineTo false (c16b_wPt spell sep p)
  | .QuadTo p1 p2 => .quadTo false (c16b_wPt spell [32] p1) (c16b_wPt spell sep p2)
  | .CurveTo p1 p2 p3 => .curveTo false (c16b_wPt spell [32] p1) (c16b_wPt spell [32] p2) (c16b_wPt spell sep p3)
  | .ClosePath => .close false

def c16b_isClosePath {α : Type} : PathEl α → Bool
  | .ClosePath => true
  | _ => false

/-- the output of `write_to` cut into spelled commands: the space between two elements is the separator after the last number of
    the first – or, after a `Z`, white space in front of the next letter -/
def c16b_wSpelled (spell : K → NumParts) : Bool → List (PathEl K) → List C16Spelled
  | _, [] => []
  | prevClose, e :: es =>
    { ws := if prevClose then [32] else [], explicit := true, cmd := c16b_wCmd spell (if es.isEmpty then [] else [32]) e } ::
      c16b_wSpelled spell (c16b_isClosePath e) es

theorem c16b_wPt_bytes (spell : K → NumParts) (sep : List UInt8) (p : Point K) :
    (c16b_ptc (c16b_wPt spell sep p)).bytes = c16b_writePt spell p ++ sep := by
  simp [c16b_ptc, c16b_wPt, PtChunk.bytes, NumChunk.bytes, c16b_chunk, c16b_writePt]

theorem c16b_wCmd_bytes (spell : K → NumParts) (sep : List UInt8) (e : PathEl K) :
    (c16b_wCmd spell sep e).letter :: (c16b_wCmd spell sep e).argBytes =
      c16b_writeEl spell e ++ (if c16b_isClosePath e then [] else sep) := by
  cases e <;>
    simp [c16b_wCmd, C16Cmd.letter, C16Cmd.argBytes, c16b_writeEl, c16b_wPt_bytes, c16b_isClosePath]

theorem c16b_wSpelled_bytes (spell : K → NumParts) (prevClose : Bool) (els : List (PathEl K)) :
    c16b_spell (c16b_wSpelled spell prevClose els) [] =
      (if prevClose && !els.isEmpty then [32] else []) ++ c16b_write spell els := by
  induction els generalizing prevClose with
  | nil => simp [c16b_wSpelled, c16b_spell, c16b_write]
  | cons e es ih =>
    simp only [c16b_wSpelled, c16b_spell, C16Spelled.bytes, if_true, List.singleton_append, c16b_wCmd_bytes, ih]
    cases es with
    | nil => cases prevClose <;> cases h : c16b_isClosePath e <;> simp [c16b_write]
    | cons e' es => cases prevClose <;> cases h : c16b_isClosePath e <;> simp [c16b_write]

theorem c16b_wPt_ok (spell : K → NumParts) {sep r : List UInt8} (p : Point K) (hx : (spell p.x).Valid)
    (hy : (spell p.y).Valid) (h : c16b_LastOk sep r) : (c16b_ptc (c16b_wPt spell sep p)).Ok r :=
  ⟨c16b_chunk_ok_comma _ hx, c16b_chunk_ok_last hy h⟩

theorem c16b_wPt_last (spell : K → NumParts) (sep r : List UInt8) (p : Point K) (hx : (spell p.x).Valid) :
    c16b_LastOk [32] ((c16b_ptc (c16b_wPt spell sep p)).bytes ++ r) := by
  refine .inl ⟨rfl, ?_⟩
  have := c16b_chunk_stops hx [44] ((c16b_chunk (spell p.y) sep).bytes ++ r)
  simpa [c16b_ptc, c16b_wPt, PtChunk.bytes] using this

theorem c16b_wCmd_argsOk (spell : K → NumParts) (sep r : List UInt8) (e : PathEl K)
    (hv : ∀ x ∈ (c16b_ofEl e).scalars, (spell x).Valid) (h : c16b_isClosePath e = false → c16b_LastOk sep r) :
    (c16b_wCmd spell sep e).ArgsOk r := by
  cases e with
  | MoveTo p => exact c16b_wPt_ok spell p (hv _ (by simp [c16b_ofEl, C16Cmd.scalars])) (hv _ (by simp [c16b_ofEl, C16Cmd.scalars])) (h rfl)
  | LineTo p => exact c16b_wPt_ok spell p (hv _ (by simp [c16b_ofEl, C16Cmd.scalars])) (hv _ (by simp [c16b_ofEl, C16Cmd.scalars])) (h rfl)
  | QuadTo p1 p2 =>
    exact ⟨c16b_wPt_ok spell p1 (hv _ (by simp [c16b_ofEl, C16Cmd.scalars])) (hv _ (by simp [c16b_ofEl, C16Cmd.scalars]))
        (c16b_wPt_last spell sep r p2 (hv _ (by simp [c16b_ofEl, C16Cmd.scalars]))),
      c16b_wPt_ok spell p2 (hv _ (by simp [c16b_ofEl, C16Cmd.scalars])) (hv _ (by simp [c16b_ofEl, C16Cmd.scalars])) (h rfl)⟩
  | CurveTo p1 p2 p3 =>
    exact ⟨c16b_wPt_ok spell p1 (hv _ (by simp [c16b_ofEl, C16Cmd.scalars])) (hv _ (by simp [c16b_ofEl, C16Cmd.scalars]))
        (c16b_wPt_last spell [32] _ p2 (hv _ (by simp [c16b_ofEl, C16Cmd.scalars]))),
      c16b_wPt_ok spell p2 (hv _ (by simp [c16b_ofEl, C16Cmd.scalars])) (hv _ (by simp [c16b_ofEl, C16Cmd.scalars]))
        (c16b_wPt_last spell sep r p3 (hv _ (by simp [c16b_ofEl, C16Cmd.scalars]))),
      c16b_wPt_ok spell p3 (hv _ (by simp [c16b_ofEl, C16Cmd.scalars])) (hv _ (by simp [c16b_ofEl, C16Cmd.scalars])) (h rfl)⟩
  | ClosePath => trivial

theorem c16b_wSpelled_stops (spell : K → NumParts) (els : List (PathEl K)) :
    StopsAt c16b_isSep (c16b_spell (c16b_wSpelled spell false els) []) := by
  cases els with
  | nil => exact StopsAt.nil _
  | cons e es =>
    simp only [c16b_wSpelled, c16b_spell, C16Spelled.bytes, Bool.false_eq_true, if_false, if_true, List.nil_append,
      List.cons_append]
    exact StopsAt.cons (c16b_letter_not_sep _)

theorem c16b_wSpelled_ok (spell : K → NumParts) (els : List (PathEl K)) (lc : UInt8) (prevClose : Bool)
    (hv : ∀ e ∈ els, ∀ x ∈ (c16b_ofEl e).scalars, (spell x).Valid) :
    c16b_SpelledOk lc (c16b_wSpelled spell prevClose els) [] := by
  induction els generalizing lc prevClose with
  | nil => intro b hb; cases hb
  | cons e es ih =>
    refine ⟨⟨?_, ?_, ?_⟩, ih _ _ (fun e' he' => hv e' (List.mem_cons_of_mem _ he'))⟩
    · intro b hb
      cases prevClose <;> simp at hb
      rw [hb]; decide
    · apply c16b_wCmd_argsOk spell _ _ e (hv e List.mem_cons_self)
      intro hc
      rw [hc]
      cases es with
      | nil => exact .inr ⟨rfl, rfl⟩
      | cons e' es => exact .inl ⟨rfl, c16b_wSpelled_stops spell _⟩
    · intro h; cases h

theorem c16b_wCmd_value (spell : K → NumParts) (sep : List UInt8) (e : PathEl K)
    (h : ∀ x ∈ (c16b_ofEl e).scalars, tokValue (parseTok (spell x).bytes) = x) :
    (c16b_wCmd spell sep e).map (NumChunk.value (K := K)) = c16b_ofEl e := by
  have hp : ∀ (sep : List UInt8) (p : Point K), tokValue (parseTok (spell p.x).bytes) = p.x →
      tokValue (parseTok (spell p.y).bytes) = p.y → c16b_mapPt (NumChunk.value (K := K)) (c16b_wPt spell sep p) = p := by
    intro sep p hx hy
    cases p
    simp only [c16b_mapPt, c16b_wPt, NumChunk.value, c16b_chunk] at hx hy ⊢
    rw [hx, hy]
  cases e <;> simp only [c16b_ofEl, C16Cmd.scalars, List.mem_cons, List.not_mem_nil, or_false, forall_eq_or_imp,
    forall_eq] at h <;> simp only [c16b_wCmd, C16Cmd.map, c16b_ofEl]
  all_goals first
    | rfl
    | (congr 1 <;> (apply hp <;> simp only [h]))

theorem c16b_wSpelled_values (spell : K → NumParts) (els : List (PathEl K)) (prevClose : Bool)
    (h : ∀ e ∈ els, ∀ x ∈ (c16b_ofEl e).scalars, tokValue (parseTok (spell x).bytes) = x) :
    (c16b_wSpelled spell prevClose els).map (C16Spelled.value (K := K)) = els.map c16b_ofEl := by
  induction els generalizing prevClose with
  | nil => rfl
  | cons e es ih =>
    simp only [c16b_wSpelled, List.map_cons, C16Spelled.value]
    rw [c16b_wCmd_value spell _ e (h e List.mem_cons_self), ← ih _ (fun e' he' => h e' (List.mem_cons_of_mem _ he'))]

theorem c16b_wSpelled_startsWithMove (spell : K → NumParts) (els : List (PathEl K)) (prevClose : Bool)
    (h : c16b_startsWithMove (els.map c16b_ofEl)) :
    c16b_startsWithMove ((c16b_wSpelled spell prevClose els).map (·.cmd)) := by
  cases els with
  | nil => trivial
  | cons e es => cases e <;> first | trivial | cases h

/-- the meaning of the commands `write_to` writes is the element list itself, if every `ClosePath` is followed by a `MoveTo`
    or the end (otherwise the parser inserts the implicit `MoveTo`) -/
theorem c16b_run_ofEls (st : SvgSt K) (els : List (PathEl K)) (h : c16b_closeThenMove (els.map c16b_ofEl))
    (hp : st.implicit_moveto.isSome = true → c16b_startsWithMove (els.map c16b_ofEl)) :
    (c16b_run st (els.map c16b_ofEl)).path = st.path ++ els := by
  induction els generalizing st with
  | nil => simp
  | cons e es ih =>
    simp only [List.map_cons, c16b_run_cons]
    have hnext : (c16b_interp st (c16b_ofEl e)).implicit_moveto.isSome = true → c16b_startsWithMove (es.map c16b_ofEl) := by
      rw [(c16b_interp_length st (c16b_ofEl e)).2]
      intro hc
      cases es with
      | nil => trivial
      | cons e' es => exact h.1 hc
    have htail : c16b_closeThenMove (es.map c16b_ofEl) := by
      cases es with
      | nil => trivial
      | cons e' es => exact h.2
    rw [ih _ htail hnext]
    have hpath : (c16b_interp st (c16b_ofEl e)).path = st.path ++ [e] := by
      cases e with
      | MoveTo p => rfl
      | _ =>
        have hnone : st.implicit_moveto = none := by
          cases hi : st.implicit_moveto with
          | none => rfl
          | some pt => rw [hi] at hp; exact absurd (hp rfl) (by simp [c16b_startsWithMove, c16b_ofEl, C16Cmd.isMove])
        simp [c16b_ofEl, c16b_interp, SvgSt.flushed_of_none hnone]
    rw [hpath]; simp

end
end Kurbo
