import Proofs.Lemmas.C09
import Proofs.Lemmas.Calc
import Mathlib.Analysis.Calculus.LocalExtr.Basic
import Mathlib.Analysis.Calculus.Deriv.Slope
import Mathlib.Analysis.Calculus.Deriv.Pow
import Mathlib.Topology.Order.Compact
import Mathlib.Topology.Order.IntermediateValue
import Mathlib.Analysis.Real.Sqrt
/-! Helper lemmas for C09, part 2 (ℝ): calculus of the squared distance, soundness of the `need_ends` rule,
    Euclidean distance and its triangle inequality. -/
set_option linter.unusedSectionVars false
namespace Kurbo.C09
open Set

theorem hasDerivAt_poly4 (k0 k1 k2 k3 k4 t : ℝ) :
    HasDerivAt (fun x : ℝ => k0 + k1 * x + k2 * x ^ 2 + k3 * x ^ 3 + k4 * x ^ 4)
      (k1 + k2 * (2 * t) + k3 * (3 * t ^ 2) + k4 * (4 * t ^ 3)) t := by
  have h3 := hasDerivAt_poly3 k0 k1 k2 k3 t
  have h4 : HasDerivAt (fun x : ℝ => k4 * x ^ 4) (k4 * (4 * t ^ 3)) t := by
    have := (hasDerivAt_pow 4 t).const_mul k4
    simpa using this
  exact h3.add h4

/-- if `D` is minimal at the left end of [0,1] then its derivative there is ≥ 0 -/
theorem deriv_nonneg_of_min_left {D D' : ℝ → ℝ} (hD : ∀ t, HasDerivAt D (D' t) t)
    (hmin : ∀ t ∈ Icc (0:ℝ) 1, D 0 ≤ D t) : 0 ≤ D' 0 := by
  by_contra hneg
  have hlt : D' 0 < 0 := not_le.mp hneg
  have h := (hD 0).hasDerivWithinAt (s := Ioi 0)
  have hev := (hasDerivWithinAt_iff_tendsto_slope' (by simp)).mp h
  have : ∀ᶠ x in nhdsWithin (0:ℝ) (Ioi 0), slope D 0 x < 0 := hev.eventually (gt_mem_nhds hlt)
  have hIcc : ∀ᶠ x in nhdsWithin (0:ℝ) (Ioi 0), x ∈ Ioc (0:ℝ) 1 := Ioc_mem_nhdsGT (by norm_num)
  obtain ⟨x, hx1, hx2⟩ := (this.and hIcc).exists
  have hxpos : 0 < x := hx2.1
  have hs : slope D 0 x = (D x - D 0) / (x - 0) := by simp [slope_def_field]
  rw [hs] at hx1
  have hDx : D x < D 0 := by
    have : D x - D 0 < 0 := by
      by_contra hge
      have : 0 ≤ (D x - D 0) / (x - 0) := div_nonneg (not_lt.mp hge) (by linarith)
      linarith
    linarith
  have := hmin x ⟨hxpos.le, hx2.2⟩
  linarith

/-- if `D` is minimal at the right end of [0,1] then its derivative there is ≤ 0 -/
theorem deriv_nonpos_of_min_right {D D' : ℝ → ℝ} (hD : ∀ t, HasDerivAt D (D' t) t)
    (hmin : ∀ t ∈ Icc (0:ℝ) 1, D 1 ≤ D t) : D' 1 ≤ 0 := by
  by_contra hpos
  have hgt : 0 < D' 1 := not_le.mp hpos
  have h := (hD 1).hasDerivWithinAt (s := Iio 1)
  have hev := (hasDerivWithinAt_iff_tendsto_slope' (by simp)).mp h
  have : ∀ᶠ x in nhdsWithin (1:ℝ) (Iio 1), 0 < slope D 1 x := hev.eventually (lt_mem_nhds hgt)
  have hIco : ∀ᶠ x in nhdsWithin (1:ℝ) (Iio 1), x ∈ Ico (0:ℝ) 1 := Ico_mem_nhdsLT (by norm_num)
  obtain ⟨x, hx1, hx2⟩ := (this.and hIco).exists
  have hxlt : x < 1 := hx2.2
  have hs : slope D 1 x = (D x - D 1) / (x - 1) := by simp [slope_def_field]
  rw [hs] at hx1
  have hDx : D x < D 1 := by
    by_contra hge
    have h1 : 0 ≤ D x - D 1 := by linarith [not_lt.mp hge]
    have : (D x - D 1) / (x - 1) ≤ 0 := div_nonpos_of_nonneg_of_nonpos h1 (by linarith)
    linarith
  have := hmin x ⟨hx2.1, hxlt.le⟩
  linarith

/-- a differentiable function attains its minimum over [0,1] at an end point or at an interior critical point -/
theorem exists_min_end_or_crit {D D' : ℝ → ℝ} (hD : ∀ t, HasDerivAt D (D' t) t) :
    ∃ ts ∈ Icc (0:ℝ) 1, (ts = 0 ∨ ts = 1 ∨ D' ts = 0) ∧ ∀ t ∈ Icc (0:ℝ) 1, D ts ≤ D t := by
  have hcont : ContinuousOn D (Icc 0 1) := fun t _ => (hD t).continuousAt.continuousWithinAt
  obtain ⟨ts, hts, hminOn⟩ := isCompact_Icc.exists_isMinOn (⟨0, by simp⟩ : (Icc (0:ℝ) 1).Nonempty) hcont
  refine ⟨ts, hts, ?_, fun t ht => hminOn ht⟩
  rcases hts.1.eq_or_lt with e0 | e0
  · left; exact e0.symm
  rcases hts.2.eq_or_lt with e1 | e1
  · right; left; exact e1
  right; right
  have hloc : IsLocalMin D ts := hminOn.isLocalMin (Icc_mem_nhds e0 e1)
  exact hloc.hasDerivAt_eq_zero (hD ts)

/-- **Soundness of `need_ends`.** If the root list is complete for `g`, every listed root lies in [0,1], and `g` is
    ≤ 0 somewhere at or left of 0 and ≥ 0 somewhere at or right of 1 (true for the critical-point polynomial of a
    squared distance), then the minimum of `D` over [0,1] is attained at a listed root – the end points need not be
    examined. -/
theorem min_at_root_of_all_roots_inside {D g : ℝ → ℝ} {k : ℝ} (hk : 0 < k) (hD : ∀ t, HasDerivAt D (k * g t) t)
    (hg : Continuous g) (R : List ℝ)
    (hcomplete : ∀ t, g t = 0 → t ∈ R)
    (hin : ∀ r ∈ R, 0 ≤ r ∧ r ≤ 1)
    (Tm : ℝ) (hTm : Tm ≤ 0) (hgm : g Tm ≤ 0) (Tp : ℝ) (hTp : 1 ≤ Tp) (hgp : 0 ≤ g Tp) :
    ∀ t ∈ Icc (0:ℝ) 1, ∃ r ∈ R, D r ≤ D t := by
  have hcont : ContinuousOn D (Icc 0 1) := fun t _ => (hD t).continuousAt.continuousWithinAt
  obtain ⟨ts, hts, hminOn⟩ := isCompact_Icc.exists_isMinOn (⟨0, by simp⟩ : (Icc (0:ℝ) 1).Nonempty) hcont
  have hmin : ∀ t ∈ Icc (0:ℝ) 1, D ts ≤ D t := fun t ht => hminOn ht
  suffices hroot : ∃ r ∈ R, D r ≤ D ts by
    intro t ht
    obtain ⟨r, hr, hle⟩ := hroot
    exact ⟨r, hr, hle.trans (hmin t ht)⟩
  rcases hts.1.eq_or_lt with e0 | e0
  · -- minimum at the left end: g 0 ≥ 0; a root ≤ 0 exists by IVT; it must be 0
    subst e0
    have h0 : 0 ≤ k * g 0 := deriv_nonneg_of_min_left hD hmin
    have hg0 : 0 ≤ g 0 := nonneg_of_mul_nonneg_right h0 hk
    have hivt : (0:ℝ) ∈ g '' Icc Tm 0 :=
      intermediate_value_Icc hTm hg.continuousOn ⟨hgm, hg0⟩
    obtain ⟨r, hr, hgr⟩ := hivt
    have hrR := hcomplete r hgr
    have := hin r hrR
    have hr0 : r = 0 := le_antisymm hr.2 this.1
    exact ⟨0, hr0 ▸ hrR, le_refl _⟩
  rcases hts.2.eq_or_lt with e1 | e1
  · -- minimum at the right end: mirror image
    subst e1
    have h0 : k * g 1 ≤ 0 := deriv_nonpos_of_min_right hD hmin
    have hg1 : g 1 ≤ 0 := by
      by_contra h
      have := mul_pos hk (not_le.mp h)
      linarith
    have hivt : (0:ℝ) ∈ g '' Icc 1 Tp :=
      intermediate_value_Icc hTp hg.continuousOn ⟨hg1, hgp⟩
    obtain ⟨r, hr, hgr⟩ := hivt
    have hrR := hcomplete r hgr
    have := hin r hrR
    have hr1 : r = 1 := le_antisymm this.2 hr.1
    exact ⟨1, hr1 ▸ hrR, le_refl _⟩
  · -- interior minimum: the derivative vanishes
    have hloc : IsLocalMin D ts := hminOn.isLocalMin (Icc_mem_nhds e0 e1)
    have hd : k * g ts = 0 := hloc.hasDerivAt_eq_zero (hD ts)
    have : g ts = 0 := by
      rcases mul_eq_zero.mp hd with h | h
      · exact absurd h hk.ne'
      · exact h
    exact ⟨ts, hcomplete ts this, le_refl _⟩

/-- a cubic with positive leading coefficient (or a line with positive slope) is ≤ 0 far left and ≥ 0 far right -/
theorem cubic_sign_witness (c0 c1 c2 c3 : ℝ) (h : 0 < c3 ∨ (c3 = 0 ∧ c2 = 0 ∧ 0 < c1)) :
    (∃ T, T ≤ 0 ∧ c0 + c1 * T + c2 * T ^ 2 + c3 * T ^ 3 ≤ 0) ∧
    (∃ T, 1 ≤ T ∧ 0 ≤ c0 + c1 * T + c2 * T ^ 2 + c3 * T ^ 3) := by
  rcases h with h3 | ⟨h3, h2, h1⟩
  · set M := |c0| + |c1| + |c2| with hM
    have hM0 : 0 ≤ M := by positivity
    set T := 1 + M / c3 with hT
    have hT1 : 1 ≤ T := by
      have : 0 ≤ M / c3 := div_nonneg hM0 h3.le
      linarith
    have hc3T : c3 * T = c3 + M := by
      rw [hT]; field_simp
    have hT2 : 1 ≤ T ^ 2 := by nlinarith
    have hTT2 : T ≤ T ^ 2 := by nlinarith
    have hT0 : 0 ≤ T := by linarith
    have a0 := abs_nonneg c0
    have a1 := abs_nonneg c1
    have a2 := abs_nonneg c2
    have b0 := le_abs_self c0
    have b1 := le_abs_self c1
    have b2 := le_abs_self c2
    have n0 := neg_abs_le c0
    have n1 := neg_abs_le c1
    have n2 := neg_abs_le c2
    have e3 : c3 * T ^ 3 = (c3 + M) * T ^ 2 := by rw [← hc3T]; ring
    have hc0 : |c0| ≤ |c0| * T ^ 2 := by nlinarith
    have hc1 : |c1| * T ≤ |c1| * T ^ 2 := by nlinarith
    have hc1' : |c1 * T| = |c1| * T := by rw [abs_mul, abs_of_nonneg hT0]
    have hc2' : |c2 * T ^ 2| = |c2| * T ^ 2 := by rw [abs_mul, abs_of_nonneg (by positivity : (0:ℝ) ≤ T ^ 2)]
    have q1 := le_abs_self (c1 * T)
    have q1n := neg_abs_le (c1 * T)
    have q2 := le_abs_self (c2 * T ^ 2)
    have q2n := neg_abs_le (c2 * T ^ 2)
    have hc3T2 : 0 ≤ c3 * T ^ 2 := by positivity
    constructor
    · refine ⟨-T, by linarith, ?_⟩
      have e : c0 + c1 * (-T) + c2 * (-T) ^ 2 + c3 * (-T) ^ 3 = c0 - c1 * T + c2 * T ^ 2 - c3 * T ^ 3 := by ring
      rw [e, e3]
      have : (c3 + M) * T ^ 2 = c3 * T ^ 2 + |c0| * T ^ 2 + |c1| * T ^ 2 + |c2| * T ^ 2 := by rw [hM]; ring
      linarith
    · refine ⟨T, hT1, ?_⟩
      rw [e3]
      have : (c3 + M) * T ^ 2 = c3 * T ^ 2 + |c0| * T ^ 2 + |c1| * T ^ 2 + |c2| * T ^ 2 := by rw [hM]; ring
      linarith
  · subst h3; subst h2
    set T := 1 + |c0| / c1 with hT
    have hT1 : 1 ≤ T := by
      have : 0 ≤ |c0| / c1 := div_nonneg (abs_nonneg _) h1.le
      linarith
    have hc1T : c1 * T = c1 + |c0| := by rw [hT]; field_simp
    have b0 := le_abs_self c0
    have n0 := neg_abs_le c0
    constructor
    · refine ⟨-T, by linarith, ?_⟩
      have e : c0 + c1 * (-T) + 0 * (-T) ^ 2 + 0 * (-T) ^ 3 = c0 - c1 * T := by ring
      rw [e, hc1T]; linarith
    · refine ⟨T, hT1, ?_⟩
      have e : c0 + c1 * T + 0 * T ^ 2 + 0 * T ^ 3 = c0 + c1 * T := by ring
      rw [e, hc1T]; linarith

/-- Euclidean distance -/
noncomputable def pdist (p q : Point ℝ) : ℝ := Real.sqrt (dist2 p q)

theorem pdist_nonneg (p q : Point ℝ) : 0 ≤ pdist p q := Real.sqrt_nonneg _

theorem pdist_comm (p q : Point ℝ) : pdist p q = pdist q p := by
  unfold pdist dist2; congr 1; ring

theorem pdist_le_iff (p q : Point ℝ) (a : ℝ) (ha : 0 ≤ a) : pdist p q ≤ a ↔ dist2 p q ≤ a ^ 2 := by
  unfold pdist
  rw [Real.sqrt_le_left ha]

theorem pdist_triangle (p q r : Point ℝ) : pdist p r ≤ pdist p q + pdist q r := by
  unfold pdist dist2
  set a := p.x - q.x
  set b := p.y - q.y
  set c := q.x - r.x
  set d := q.y - r.y
  have e : (p.x - r.x) ^ 2 + (p.y - r.y) ^ 2 = (a + c) ^ 2 + (b + d) ^ 2 := by
    simp only [a, b, c, d]; ring
  rw [e]
  have h1 : 0 ≤ a ^ 2 + b ^ 2 := by positivity
  have h2 : 0 ≤ c ^ 2 + d ^ 2 := by positivity
  have hs : 0 ≤ Real.sqrt (a ^ 2 + b ^ 2) + Real.sqrt (c ^ 2 + d ^ 2) := by positivity
  rw [Real.sqrt_le_left hs]
  have hcs : a * c + b * d ≤ Real.sqrt (a ^ 2 + b ^ 2) * Real.sqrt (c ^ 2 + d ^ 2) := by
    rw [← Real.sqrt_mul h1]
    apply Real.le_sqrt_of_sq_le
    nlinarith [sq_nonneg (a * d - b * c)]
  have s1 := Real.sq_sqrt h1
  have s2 := Real.sq_sqrt h2
  nlinarith [hcs, s1, s2]

/-- distance from `p` to the curve `f` over the parameter range [0,1] -/
noncomputable def curveDist (f : ℝ → Point ℝ) (p : Point ℝ) : ℝ := sInf ((fun t => pdist p (f t)) '' Icc (0:ℝ) 1)

theorem le_curveDist (f : ℝ → Point ℝ) (p : Point ℝ) (lo : ℝ)
    (h : ∀ t, 0 ≤ t → t ≤ 1 → lo ≤ pdist p (f t)) : lo ≤ curveDist f p := by
  unfold curveDist
  apply le_csInf
  · exact ⟨_, mem_image_of_mem _ (⟨le_refl _, zero_le_one⟩ : (0:ℝ) ∈ Icc (0:ℝ) 1)⟩
  · rintro _ ⟨t, ht, rfl⟩
    exact h t ht.1 ht.2

theorem curveDist_le (f : ℝ → Point ℝ) (p : Point ℝ) (t : ℝ) (h0 : 0 ≤ t) (h1 : t ≤ 1) :
    curveDist f p ≤ pdist p (f t) := by
  unfold curveDist
  apply csInf_le
  · refine ⟨0, ?_⟩
    rintro _ ⟨t, _, rfl⟩
    exact pdist_nonneg _ _
  · exact mem_image_of_mem _ ⟨h0, h1⟩

/-- from "reported ≤ every true distance + a", "true distance at t* ≤ reported + a" to the infimum form -/
theorem within_of_bounds (f : ℝ → Point ℝ) (p : Point ℝ) (rep a ts : ℝ) (h0 : 0 ≤ ts) (h1 : ts ≤ 1)
    (hA : ∀ t, 0 ≤ t → t ≤ 1 → rep ≤ pdist p (f t) + a) (hB : pdist p (f ts) ≤ rep + a) :
    |rep - curveDist f p| ≤ a ∧ pdist p (f ts) ≤ curveDist f p + 2 * a := by
  have l1 : rep - a ≤ curveDist f p := le_curveDist f p _ (fun t h0 h1 => by linarith [hA t h0 h1])
  have l2 : curveDist f p ≤ pdist p (f ts) := curveDist_le f p ts h0 h1
  refine ⟨abs_le.mpr ⟨by linarith, by linarith⟩, by linarith⟩

/-- exact minimiser ⇒ within any `a ≥ 0` -/
theorem within_of_exact (f : ℝ → Point ℝ) (p : Point ℝ) (d2 a ts : ℝ) (ha : 0 ≤ a) (h0 : 0 ≤ ts) (h1 : ts ≤ 1)
    (he : d2 = dist2 p (f ts)) (hmin : ∀ s, 0 ≤ s → s ≤ 1 → d2 ≤ dist2 p (f s)) :
    |Real.sqrt d2 - curveDist f p| ≤ a ∧ pdist p (f ts) ≤ curveDist f p + 2 * a := by
  apply within_of_bounds f p _ a ts h0 h1
  · intro t ht0 ht1
    have := Real.sqrt_le_sqrt (hmin t ht0 ht1)
    unfold pdist; linarith
  · unfold pdist; rw [he]; linarith

theorem exact_of_within_zero (f : ℝ → Point ℝ) (p : Point ℝ) (rep ts : ℝ) (h0 : 0 ≤ ts) (h1 : ts ≤ 1)
    (h : |rep - curveDist f p| ≤ 0 ∧ pdist p (f ts) ≤ curveDist f p + 2 * 0) :
    rep = curveDist f p ∧ pdist p (f ts) = curveDist f p := by
  obtain ⟨ha, hb⟩ := h
  have := abs_nonneg (rep - curveDist f p)
  have e : rep - curveDist f p = 0 := abs_eq_zero.mp (le_antisymm ha this)
  have := curveDist_le f p ts h0 h1
  exact ⟨by linarith, by linarith⟩

section real
variable [Scalar ℝ] [LawfulScalar ℝ]

/-- the C17 error bound, as a hypothesis: every quadratic piece stays within `a` of its stretch of the cubic -/
def ToQuadsWithin (c : CubicBez ℝ) (a : ℝ) : Prop :=
  ∀ piece ∈ c.to_quads a, ∀ s, 0 ≤ s → s ≤ 1 →
    pdist (piece.2.2.eval s) (c.eval (piece.1 + s * (piece.2.1 - piece.1))) ≤ a


/-- what `pathSeg_nearest_within` assumes, per segment kind -/
def PathSegNearestHyp (s : PathSeg ℝ) (p : Point ℝ) (a : ℝ) : Prop :=
  match s with
  | .Line _ => True
  | .Quad q => QuadRootsExact q p
  | .Cubic c => (∀ piece ∈ c.to_quads a, QuadRootsExact piece.2.2 p) ∧ ToQuadsWithin c a

theorem quad_dist2_hasDerivAt (q : QuadBez ℝ) (p : Point ℝ) (t : ℝ) :
    HasDerivAt (fun x => dist2 p (q.eval x)) (4 * quadCritPoly q p t) t := by
  have h := hasDerivAt_poly4 (dist2 p q.p0) (4 * (quadNearestCoeffs q p).1) (2 * (quadNearestCoeffs q p).2.1)
    (4 / 3 * (quadNearestCoeffs q p).2.2.1) (quadNearestCoeffs q p).2.2.2 t
  have e1 : (fun x => dist2 p (q.eval x)) = fun x : ℝ => dist2 p q.p0 + 4 * (quadNearestCoeffs q p).1 * x
      + 2 * (quadNearestCoeffs q p).2.1 * x ^ 2 + 4 / 3 * (quadNearestCoeffs q p).2.2.1 * x ^ 3
      + (quadNearestCoeffs q p).2.2.2 * x ^ 4 := by
    funext x; exact quad_dist2_poly q p x
  have e2 : 4 * quadCritPoly q p t = 4 * (quadNearestCoeffs q p).1 + 2 * (quadNearestCoeffs q p).2.1 * (2 * t)
      + 4 / 3 * (quadNearestCoeffs q p).2.2.1 * (3 * t ^ 2) + (quadNearestCoeffs q p).2.2.2 * (4 * t ^ 3) := by
    unfold quadCritPoly; ring
  rw [e1, e2]; exact h

theorem quadCritPoly_continuous (q : QuadBez ℝ) (p : Point ℝ) : Continuous (quadCritPoly q p) := by
  unfold quadCritPoly; fun_prop

/-- the reported squared distance is minimal over the whole quadratic -/
theorem quad_nearest_le (q : QuadBez ℝ) (p : Point ℝ) (a : ℝ) (hS : QuadRootsExact q p) (s : ℝ)
    (hs0 : 0 ≤ s) (hs1 : s ≤ 1) : (q.nearest p a).distance_sq ≤ dist2 p (q.eval s) := by
  obtain ⟨c, hc, ht, hd, hmin⟩ := quad_nearest_min_cands q p a
  obtain ⟨hc0, hc1, hce⟩ := quadCands_on_curve q _ c hc
  by_cases hz : quadCoeffsAllZero q p
  · -- the quadratic is a point: the squared distance is constant
    obtain ⟨z0, z1, z2, z3⟩ := hz
    rw [hd, hce, quad_dist2_poly q p c.1, quad_dist2_poly q p s, z0, z1, z2, z3]
    simp
  have hR := hS hz
  set R := quadNearestRoots q p with hRdef
  set D := fun x => dist2 p (q.eval x) with hDdef
  have hD : ∀ t, HasDerivAt D (4 * quadCritPoly q p t) t := quad_dist2_hasDerivAt q p
  -- every root in [0,1] is a candidate
  have hroot : ∀ r ∈ R, 0 ≤ r → r ≤ 1 → (q.nearest p a).distance_sq ≤ D r := by
    intro r hr h0 h1
    exact hmin (r, q.eval r) ((mem_quadCands_lawful q R _).mpr (Or.inl ⟨r, hr, h0, h1, rfl⟩))
  by_cases hN : R = [] ∨ ∃ t ∈ R, ¬ (0 ≤ t ∧ t ≤ 1)
  · -- need_ends: end points and interior critical points are all candidates
    have hend0 : (q.nearest p a).distance_sq ≤ D 0 := by
      have := hmin (0, q.p0) ((mem_quadCands_lawful q R _).mpr (Or.inr ⟨hN, Or.inl rfl⟩))
      simpa [hDdef, quad_eval_zero] using this
    have hend1 : (q.nearest p a).distance_sq ≤ D 1 := by
      have := hmin (1, q.p2) ((mem_quadCands_lawful q R _).mpr (Or.inr ⟨hN, Or.inr rfl⟩))
      simpa [hDdef, quad_eval_one] using this
    obtain ⟨ts, hts, hcase, hmin'⟩ := exists_min_end_or_crit hD
    have h1 : (q.nearest p a).distance_sq ≤ D ts := by
      rcases hcase with rfl | rfl | hcrit
      · exact hend0
      · exact hend1
      · have : quadCritPoly q p ts = 0 := by linarith
        exact hroot ts ((hR ts).mpr this) hts.1 hts.2
    exact h1.trans (hmin' s ⟨hs0, hs1⟩)
  · -- all roots inside [0,1]: the `need_ends` rule
    have hin : ∀ r ∈ R, 0 ≤ r ∧ r ≤ 1 := by
      intro r hr
      by_contra hcon
      exact hN (Or.inr ⟨r, hr, hcon⟩)
    have hsign : 0 < (quadNearestCoeffs q p).2.2.2 ∨
        ((quadNearestCoeffs q p).2.2.2 = 0 ∧ (quadNearestCoeffs q p).2.2.1 = 0 ∧ 0 < (quadNearestCoeffs q p).2.1) := by
      rcases quadCoeffs_sign q p with h | h | h
      · exact Or.inl h
      · exact Or.inr h
      · exact absurd h hz
    obtain ⟨⟨Tm, hTm, hgm⟩, ⟨Tp, hTp, hgp⟩⟩ := cubic_sign_witness (quadNearestCoeffs q p).1
      (quadNearestCoeffs q p).2.1 (quadNearestCoeffs q p).2.2.1 (quadNearestCoeffs q p).2.2.2 hsign
    obtain ⟨r, hr, hle⟩ := min_at_root_of_all_roots_inside (by norm_num : (0:ℝ) < 4) hD (quadCritPoly_continuous q p) R
      (fun t ht => (hR t).mpr ht) hin Tm hTm hgm Tp hTp hgp s ⟨hs0, hs1⟩
    exact (hroot r hr (hin r hr).1 (hin r hr).2).trans hle

end real


section real2
variable [Scalar ℝ] [LawfulScalar ℝ]

/-- `ToQuadsWithin` from the squared form in which C17 states its bound (`toQuads_error_bound`) -/
theorem toQuadsWithin_of_sq (c : CubicBez ℝ) (a : ℝ) (ha : 0 ≤ a)
    (h : ∀ (i : Nat) (p : ℝ × ℝ × QuadBez ℝ), (c.to_quads a)[i]? = some p → ∀ s, 0 ≤ s → s ≤ 1 →
      ((p.2.2.eval s).x - (c.eval (p.1 + s * (p.2.1 - p.1))).x) ^ 2
        + ((p.2.2.eval s).y - (c.eval (p.1 + s * (p.2.1 - p.1))).y) ^ 2 ≤ a ^ 2) : ToQuadsWithin c a := by
  intro piece hp s s0 s1
  obtain ⟨i, hi⟩ := List.mem_iff_getElem?.mp hp
  rw [pdist_le_iff _ _ _ ha]
  exact h i piece hi s s0 s1

/-- a cubic of degree ≤ 2 is reproduced exactly by `to_quads` -/
theorem toQuadsWithin_of_quadratic (c : CubicBez ℝ)
    (hx : c.p3.x - 3 * c.p2.x + 3 * c.p1.x - c.p0.x = 0) (hy : c.p3.y - 3 * c.p2.y + 3 * c.p1.y - c.p0.y = 0)
    (a : ℝ) (ha : 0 ≤ a) : ToQuadsWithin c a := by
  intro piece hp s _ _
  obtain ⟨i, _, rfl⟩ := (mem_to_quads c a piece).mp hp
  rw [toQuadsPiece_exact_of_quadratic c hx hy]
  unfold pdist dist2
  simpa using ha

end real2

end Kurbo.C09
