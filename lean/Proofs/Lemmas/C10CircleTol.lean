import Proofs.Lemmas.C10Quarter
import Mathlib.Analysis.Real.Pi.Bounds
import Mathlib.Analysis.SpecialFunctions.Trigonometric.Bounds
/-! Helper lemmas for C10, part 4: the tolerance claim for the formula branch of circles
    (`n = ⌈(1.1163·|r|/T)^(1/6)⌉ ≥ 5` pieces with arm `4/3·tan(π/(2n))`).
    * with that arm, `|B(t) − ctr|² = r²·(1 + 16·S⁶/C²·(σ² − 4σ³))`, `S, C = sin, cos (π/(2n))`, `σ = t(1−t)`;
    * `0 ≤ σ² − 4σ³ ≤ 1/108`, so the curve is outside the circle by at most `|r|·(2/27)·S⁶/C²`;
    * `(2/27)·S⁶/C² ≤ 1.1163/n⁶` for `n ≥ 5` (Taylor bounds of `sin`, `cos`, `π < 3.141593`; the margin is ≈ 0.04 %);
    * `1.1163·|r|/T ≤ n⁶` by the definition of `n`. -/
set_option linter.unusedSectionVars false
namespace Kurbo

/-- polynomial core: `(1 − y/6 + y²/100)⁶ ≤ 1.0016²·(1 − y/2)²` on `[0, 0.0987]` -/
theorem trig_poly_core {y : ℝ} (h0 : 0 ≤ y) (h1 : y ≤ 987 / 10000) :
    (1 - y / 6 + y ^ 2 / 100) ^ 6 ≤ (10016 / 10000) ^ 2 * (1 - y / 2) ^ 2 := by
  have hP0 : 0 ≤ 1 - y / 6 + y ^ 2 / 100 := by nlinarith
  have hP1 : 1 - y / 6 + y ^ 2 / 100 ≤ 1 - 1656 / 10000 * y := by nlinarith
  have hB0 : 0 ≤ 1 - 1656 / 10000 * y := by nlinarith
  have hA : (1 - 1656 / 10000 * y) ^ 3 ≤ 10016 / 10000 * (1 - y / 2) := by
    have hy2 : y ^ 2 ≤ 987 / 10000 * y := by nlinarith
    have hy3 : 0 ≤ y ^ 3 := by positivity
    nlinarith
  have hA0 : 0 ≤ (1 - 1656 / 10000 * y) ^ 3 := by positivity
  calc (1 - y / 6 + y ^ 2 / 100) ^ 6 ≤ (1 - 1656 / 10000 * y) ^ 6 := pow_le_pow_left₀ hP0 hP1 6
    _ = ((1 - 1656 / 10000 * y) ^ 3) ^ 2 := by ring
    _ ≤ (10016 / 10000 * (1 - y / 2)) ^ 2 := pow_le_pow_left₀ hA0 hA 2
    _ = (10016 / 10000) ^ 2 * (1 - y / 2) ^ 2 := by ring

/-- for real `m ≥ 5` and `0 ≤ x ≤ π/(2m)`: `(2/27)·sin⁶x·m⁶ ≤ 1.1163·cos²x` -/
theorem trig_bound_real (m x : ℝ) (hm : 5 ≤ m) (hx0 : 0 ≤ x) (hxm : x * m ≤ Real.pi / 2) :
    2 / 27 * Real.sin x ^ 6 * m ^ 6 ≤ 11163 / 10000 * Real.cos x ^ 2 := by
  have hm0 : (0 : ℝ) < m := by linarith
  have hpi := Real.pi_lt_d6
  have hpi0 := Real.pi_pos
  have hx1 : x ≤ 3141593 / 10000000 := by nlinarith
  have hy1 : x ^ 2 ≤ 987 / 10000 := by nlinarith
  have hy0 : 0 ≤ x ^ 2 := sq_nonneg x
  have hxabs : |x| ≤ 1 := by rw [abs_of_nonneg hx0]; linarith
  -- sine
  have hs := (abs_le.mp (Real.sin_bound hxabs)).2
  rw [abs_of_nonneg hx0] at hs
  have hs0 : 0 ≤ Real.sin x := Real.sin_nonneg_of_nonneg_of_le_pi hx0 (by linarith [Real.pi_gt_three])
  have hs1 : Real.sin x ≤ x * (1 - x ^ 2 / 6 + (x ^ 2) ^ 2 / 100) := by nlinarith
  -- cosine
  have hc := Real.one_sub_sq_div_two_le_cos (x := x)
  have hc0 : 0 ≤ 1 - x ^ 2 / 2 := by nlinarith
  have hc2 : (1 - x ^ 2 / 2) ^ 2 ≤ Real.cos x ^ 2 := pow_le_pow_left₀ hc0 hc 2
  have core := trig_poly_core hy0 hy1
  have hP0 : 0 ≤ 1 - x ^ 2 / 6 + (x ^ 2) ^ 2 / 100 := by nlinarith
  have h6 : Real.sin x ^ 6 ≤ (x * (1 - x ^ 2 / 6 + (x ^ 2) ^ 2 / 100)) ^ 6 := pow_le_pow_left₀ hs0 hs1 6
  have hxm0 : 0 ≤ x * m := mul_nonneg hx0 hm0.le
  have hpi6 : (x * m) ^ 6 ≤ (3141593 / 2000000 : ℝ) ^ 6 := pow_le_pow_left₀ hxm0 (by linarith) 6
  have hm6 : (0 : ℝ) ≤ m ^ 6 := by positivity
  have hP6 : 0 ≤ (1 - x ^ 2 / 6 + (x ^ 2) ^ 2 / 100) ^ 6 := by positivity
  calc 2 / 27 * Real.sin x ^ 6 * m ^ 6
      ≤ 2 / 27 * (x * (1 - x ^ 2 / 6 + (x ^ 2) ^ 2 / 100)) ^ 6 * m ^ 6 := by gcongr
    _ = 2 / 27 * (x * m) ^ 6 * (1 - x ^ 2 / 6 + (x ^ 2) ^ 2 / 100) ^ 6 := by ring
    _ ≤ 2 / 27 * (3141593 / 2000000 : ℝ) ^ 6 * ((10016 / 10000) ^ 2 * (1 - x ^ 2 / 2) ^ 2) := by gcongr
    _ ≤ 11163 / 10000 * (1 - x ^ 2 / 2) ^ 2 := by
        have : (2 / 27 * (3141593 / 2000000 : ℝ) ^ 6 * (10016 / 10000) ^ 2) ≤ 11163 / 10000 := by norm_num
        nlinarith [sq_nonneg (1 - x ^ 2 / 2)]
    _ ≤ 11163 / 10000 * Real.cos x ^ 2 := by gcongr

/-- for `n ≥ 5` and `x = π/(2n)`: `(2/27)·sin⁶x·n⁶ ≤ 1.1163·cos²x` -/
theorem trig_bound (n : ℕ) (hn : 5 ≤ n) :
    2 / 27 * Real.sin (Real.pi / 2 / n) ^ 6 * (n : ℝ) ^ 6 ≤ 11163 / 10000 * Real.cos (Real.pi / 2 / n) ^ 2 := by
  have hn5 : (5 : ℝ) ≤ n := by exact_mod_cast hn
  have hn0 : (0 : ℝ) < n := by linarith
  refine trig_bound_real n _ hn5 (by positivity) (le_of_eq ?_)
  field_simp

theorem tanArm_alg1 (S C a : ℝ) (h : S ^ 2 + C ^ 2 = 1) (ha : a * C = 4 / 3 * S) :
    (9 * a ^ 2 - 12 * (2 * S * C) ^ 2 + 12 * a * (C ^ 2 - S ^ 2) * (2 * S * C)) * C ^ 2 = 16 * S ^ 6 := by
  linear_combination (9 * (a * C + 4 / 3 * S) + 24 * S * C ^ 2 * (C ^ 2 - S ^ 2)) * ha
    - 16 * S ^ 2 * (1 + S ^ 2 + C ^ 2) * h

theorem tanArm_alg2 (S C a : ℝ) (ha : a * C = 4 / 3 * S) :
    (2 * (2 * S * C) - 3 * a * (C ^ 2 - S ^ 2)) * C = 4 * S ^ 3 := by
  linear_combination (-3 * (C ^ 2 - S ^ 2)) * ha

theorem sigma_poly_range {σ : ℝ} (h0 : 0 ≤ σ) (h1 : σ ≤ 1 / 4) : 0 ≤ σ ^ 2 - 4 * σ ^ 3 ∧ σ ^ 2 - 4 * σ ^ 3 ≤ 1 / 108 := by
  constructor
  · have : σ ^ 2 - 4 * σ ^ 3 = σ ^ 2 * (1 - 4 * σ) := by ring
    rw [this]; exact mul_nonneg (sq_nonneg σ) (by linarith)
  · have : 1 / 108 - (σ ^ 2 - 4 * σ ^ 3) = 4 * ((σ - 1 / 6) ^ 2 * (σ + 1 / 12)) := by ring
    have h2 : 0 ≤ 4 * ((σ - 1 / 6) ^ 2 * (σ + 1 / 12)) := by positivity
    linarith

/-- from the squared distance to the distance: `D² = r²(1 + u)`, `u ≥ 0` ⇒ `| D − |r| | ≤ |r|·u/2` -/
theorem dist_from_sq {D2 r u : ℝ} (h : D2 = r ^ 2 * (1 + u)) (hu0 : 0 ≤ u) :
    abs (Real.sqrt D2 - abs r) ≤ abs r * u / 2 := by
  rw [h, Real.sqrt_mul (sq_nonneg r), Real.sqrt_sq_eq_abs]
  have hr : 0 ≤ abs r := abs_nonneg r
  have h1 : 1 ≤ Real.sqrt (1 + u) := by
    have := Real.sqrt_le_sqrt (show (1 : ℝ) ≤ 1 + u by linarith)
    rwa [Real.sqrt_one] at this
  have h2 : Real.sqrt (1 + u) ≤ 1 + u / 2 := by
    have : 1 + u ≤ (1 + u / 2) ^ 2 := by nlinarith [sq_nonneg u]
    have := Real.sqrt_le_sqrt this
    rwa [Real.sqrt_sq (by linarith)] at this
  rw [abs_le]
  constructor <;> nlinarith

section
variable [Scalar ℝ] [LawfulScalar ℝ]

/-- squared distance for the arm `4/3·tan(φ/2)`: `r²·(1 + 16·S⁶/C²·(σ² − 4σ³))`, `S, C = sin, cos (φ/2)` -/
theorem circleArcCubic_tan_dist_sq (ctr : Point ℝ) (r μ φ t : ℝ) (hC : Real.cos (φ / 2) ≠ 0) :
    (((circleArcCubic ctr r (4 / 3 * Real.tan (φ / 2)) (μ - φ) (μ + φ)).eval t).x - ctr.x) ^ 2
      + (((circleArcCubic ctr r (4 / 3 * Real.tan (φ / 2)) (μ - φ) (μ + φ)).eval t).y - ctr.y) ^ 2
      = r ^ 2 * (1 + 16 * Real.sin (φ / 2) ^ 6 / Real.cos (φ / 2) ^ 2 * ((t * (1 - t)) ^ 2 - 4 * (t * (1 - t)) ^ 3)) := by
  have hid := circleArcCubic_radial_identity ctr r (4 / 3 * Real.tan (φ / 2)) μ φ t
  set S := Real.sin (φ / 2) with hS
  set C := Real.cos (φ / 2) with hCd
  set a := 4 / 3 * Real.tan (φ / 2) with ha
  have hSC : S ^ 2 + C ^ 2 = 1 := Real.sin_sq_add_cos_sq (φ / 2)
  have haC : a * C = 4 / 3 * S := by
    rw [ha, Real.tan_eq_sin_div_cos, ← hS, ← hCd]; field_simp
  have hsin : Real.sin φ = 2 * S * C := by
    rw [show φ = 2 * (φ / 2) by ring, Real.sin_two_mul]
  have hcos : Real.cos φ = C ^ 2 - S ^ 2 := by
    rw [show φ = 2 * (φ / 2) by ring, Real.cos_two_mul]
    rw [← hCd]
    linear_combination hSC
  rw [hsin, hcos] at hid
  have hC2 : C ^ 2 ≠ 0 := pow_ne_zero 2 hC
  have k1 : 9 * a ^ 2 - 12 * (2 * S * C) ^ 2 + 12 * a * (C ^ 2 - S ^ 2) * (2 * S * C) = 16 * S ^ 6 / C ^ 2 := by
    rw [eq_div_iff hC2]; exact tanArm_alg1 S C a hSC haC
  have k2 : (2 * (2 * S * C) - 3 * a * (C ^ 2 - S ^ 2)) ^ 2 = 16 * S ^ 6 / C ^ 2 := by
    rw [eq_div_iff hC2]
    have := tanArm_alg2 S C a haC
    calc (2 * (2 * S * C) - 3 * a * (C ^ 2 - S ^ 2)) ^ 2 * C ^ 2
        = ((2 * (2 * S * C) - 3 * a * (C ^ 2 - S ^ 2)) * C) ^ 2 := by ring
      _ = 16 * S ^ 6 := by rw [this]; ring
  rw [k1, k2] at hid
  linear_combination hid
end

section count
variable [Scalar ℝ] [LawfulScalar ℝ] [LawfulTrig] [LawfulCount]
open LawfulTrig LawfulCount

/-- in the formula branch the piece count satisfies `1.1163·|r|/T ≤ n⁶` -/
theorem pathParams_pow (c : Circle ℝ) (tol : ℝ) (hb : 100000000 / 19608 ≤ |c.radius| / tol) :
    11163 / 10000 * (|c.radius| / tol) ≤ ((c.pathParams tol).1 : ℝ) ^ 6 := by
  unfold Circle.pathParams
  simp only [scalar_norm, toUSize_eq, powf_eq]
  push_cast
  rw [if_neg (by rw [one_div_div]; simpa using hb)]
  show _ ≤ ((⌊((⌈(11163 / 10000 * (|c.radius| / tol)) ^ ((1:ℝ) / 6)⌉ : ℤ) : ℝ)⌋₊ : ℕ) : ℝ) ^ 6
  set b := 11163 / 10000 * (|c.radius| / tol) with hbdef
  have hb0 : 0 ≤ b := by
    have : (0 : ℝ) ≤ 100000000 / 19608 := by norm_num
    nlinarith
  set z := b ^ ((1:ℝ) / 6) with hz
  have hz0 : 0 ≤ z := Real.rpow_nonneg hb0 _
  have hz6 : z ^ 6 = b := by
    rw [hz, ← Real.rpow_natCast, ← Real.rpow_mul hb0]; norm_num
  have hc0 : (0 : ℝ) ≤ (⌈z⌉ : ℝ) := by exact_mod_cast Int.ceil_nonneg hz0
  have hN : ((⌊(⌈z⌉ : ℝ)⌋₊ : ℕ) : ℝ) = (⌈z⌉ : ℝ) := by
    rw [natCast_floor_eq_intCast_floor hc0, Int.floor_intCast]
  rw [hN, ← hz6]
  exact pow_le_pow_left₀ hz0 (Int.le_ceil z) 6

end count

section real
variable [Scalar ℝ] [LawfulScalar ℝ]

theorem circleAngle_mid (n k : Nat) :
    circleAngle n k = (circleAngle n k + Real.pi / n) - Real.pi / n ∧
    circleAngle n (k + 1) = (circleAngle n k + Real.pi / n) + Real.pi / n := by
  unfold circleAngle; push_cast; constructor <;> ring

/-- one piece of the formula branch: every point is within `1.1163·|r|/n⁶` of the circle (and not inside it) -/
theorem circleArcCubic_formula_radial (ctr : Point ℝ) (r : ℝ) (n k : Nat) (hn : 5 ≤ n) {t : ℝ} (h0 : 0 ≤ t) (h1 : t ≤ 1) :
    abs (Real.sqrt ((((circleArcCubic ctr r (4 / 3 * Real.tan (Real.pi / 2 / n))
            (circleAngle n k) (circleAngle n (k + 1))).eval t).x - ctr.x) ^ 2
        + (((circleArcCubic ctr r (4 / 3 * Real.tan (Real.pi / 2 / n))
            (circleAngle n k) (circleAngle n (k + 1))).eval t).y - ctr.y) ^ 2) - abs r)
      ≤ abs r * (11163 / 10000 / (n : ℝ) ^ 6) := by
  have hn5 : (5 : ℝ) ≤ n := by exact_mod_cast hn
  have hn0 : (0 : ℝ) < n := by linarith
  obtain ⟨e1, e2⟩ := circleAngle_mid n k
  rw [e1, e2, show Real.pi / 2 / (n : ℝ) = Real.pi / n / 2 by ring]
  -- cos (π/(2n)) > 0
  have hpi := Real.pi_pos
  have hxlt : Real.pi / n / 2 < Real.pi / 2 := by
    rw [div_div, div_lt_div_iff_of_pos_left hpi (by positivity) (by norm_num)]
    nlinarith
  have hxpos : 0 < Real.pi / n / 2 := by positivity
  have hC : 0 < Real.cos (Real.pi / n / 2) := Real.cos_pos_of_mem_Ioo ⟨by linarith, hxlt⟩
  obtain ⟨hs0, hs1⟩ := sigma_poly_range (sigma_range h0 h1).1 (sigma_range h0 h1).2
  have hd := circleArcCubic_tan_dist_sq ctr r (circleAngle n k + Real.pi / n) (Real.pi / n) t hC.ne'
  set S := Real.sin (Real.pi / n / 2) with hS
  set C := Real.cos (Real.pi / n / 2) with hCd
  have hE0 : 0 ≤ 16 * S ^ 6 / C ^ 2 := by positivity
  have hu0 : 0 ≤ 16 * S ^ 6 / C ^ 2 * ((t * (1 - t)) ^ 2 - 4 * (t * (1 - t)) ^ 3) := mul_nonneg hE0 hs0
  refine (dist_from_sq hd hu0).trans ?_
  have htrig := trig_bound n hn
  rw [show Real.pi / 2 / (n : ℝ) = Real.pi / n / 2 by ring, ← hS, ← hCd] at htrig
  have hr : 0 ≤ abs r := abs_nonneg r
  have hn6 : (0 : ℝ) < (n : ℝ) ^ 6 := by positivity
  have hC2 : 0 < C ^ 2 := by positivity
  -- 16·S⁶/C²·(σ²−4σ³)/2 ≤ (2/27)·S⁶/C² ≤ 1.1163/n⁶
  have hA : 16 * S ^ 6 / C ^ 2 * ((t * (1 - t)) ^ 2 - 4 * (t * (1 - t)) ^ 3) / 2 ≤ 2 / 27 * S ^ 6 / C ^ 2 := by
    have : 16 * S ^ 6 / C ^ 2 * ((t * (1 - t)) ^ 2 - 4 * (t * (1 - t)) ^ 3) ≤ 16 * S ^ 6 / C ^ 2 * (1 / 108) :=
      mul_le_mul_of_nonneg_left hs1 hE0
    calc 16 * S ^ 6 / C ^ 2 * ((t * (1 - t)) ^ 2 - 4 * (t * (1 - t)) ^ 3) / 2
        ≤ 16 * S ^ 6 / C ^ 2 * (1 / 108) / 2 := by linarith
      _ = 2 / 27 * S ^ 6 / C ^ 2 := by ring
  have hB : 2 / 27 * S ^ 6 / C ^ 2 ≤ 11163 / 10000 / (n : ℝ) ^ 6 := by
    rw [div_le_div_iff₀ hC2 hn6]; linarith
  calc abs r * (16 * S ^ 6 / C ^ 2 * ((t * (1 - t)) ^ 2 - 4 * (t * (1 - t)) ^ 3)) / 2
      = abs r * (16 * S ^ 6 / C ^ 2 * ((t * (1 - t)) ^ 2 - 4 * (t * (1 - t)) ^ 3) / 2) := by ring
    _ ≤ abs r * (11163 / 10000 / (n : ℝ) ^ 6) := mul_le_mul_of_nonneg_left (hA.trans hB) hr

/-- `1.1163·|r|/T ≤ n⁶`, `T > 0`  ⇒  `|r|·1.1163/n⁶ ≤ T` -/
theorem radius_bound_le_tol {r tol : ℝ} {n : ℕ} (htol : 0 < tol) (hn : 5 ≤ n)
    (h : 11163 / 10000 * (|r| / tol) ≤ (n : ℝ) ^ 6) : |r| * (11163 / 10000 / (n : ℝ) ^ 6) ≤ tol := by
  have hn0 : (0 : ℝ) < n := by
    have : (5 : ℝ) ≤ n := by exact_mod_cast hn
    linarith
  have hn6 : (0 : ℝ) < (n : ℝ) ^ 6 := by positivity
  rw [show |r| * (11163 / 10000 / (n : ℝ) ^ 6) = 11163 / 10000 * |r| / (n : ℝ) ^ 6 by ring, div_le_iff₀ hn6]
  have : 11163 / 10000 * (|r| / tol) * tol = 11163 / 10000 * |r| := by field_simp
  nlinarith

end real
end Kurbo
