import Proofs.Lemmas.C03QGauss
import Proofs.Lemmas.C03QKink
/-! Example data for `Proofs/C03Q.lean` (non-vacuity of the hypotheses). -/
namespace Kurbo

/-- an arch: `p0 = (0,0), p1 = (1,2), p2 = (3,0)` (branch (2): `A = 17, B = −14, C = 5`) -/
def c03q_exArch : QuadBez ℝ := ⟨⟨0, 0⟩, ⟨1, 2⟩, ⟨3, 0⟩⟩
/-- collinear control points with a cusp at `t = 2/3`: `p0 = (0,0), p1 = (2,0), p2 = (1,0)` (branch (3): `A = 9, B = −12, C = 4`);
    the point runs from 0 to 4/3 and back to 1: length 5/3 -/
def c03q_exCusp : QuadBez ℝ := ⟨⟨0, 0⟩, ⟨2, 0⟩, ⟨1, 0⟩⟩
/-- a uniformly parametrised straight segment: `p0 = (1,1), p1 = (2,3), p2 = (3,5)` -/
def c03q_exLine : QuadBez ℝ := ⟨⟨1, 1⟩, ⟨2, 3⟩, ⟨3, 5⟩⟩
/-- the same from the origin: `p0 = (0,0), p1 = (1,2), p2 = (2,4)` -/
def c03q_exLine0 : QuadBez ℝ := ⟨⟨0, 0⟩, ⟨1, 2⟩, ⟨2, 4⟩⟩

theorem c03q_exArch_coeffs : c03q_A c03q_exArch = 17 ∧ c03q_B c03q_exArch = -14 ∧ c03q_C c03q_exArch = 5 := by
  unfold c03q_A c03q_B c03q_C c03q_exArch
  norm_num

theorem c03q_exCusp_coeffs : c03q_A c03q_exCusp = 9 ∧ c03q_B c03q_exCusp = -12 ∧ c03q_C c03q_exCusp = 4 := by
  unfold c03q_A c03q_B c03q_C c03q_exCusp
  norm_num

theorem c03q_sqrt_nine : √(9:ℝ) = 3 := by
  rw [show (9:ℝ) = 3 ^ 2 by norm_num, Real.sqrt_sq (by norm_num)]
theorem c03q_sqrt_four : √(4:ℝ) = 2 := by
  rw [show (4:ℝ) = 2 ^ 2 by norm_num, Real.sqrt_sq (by norm_num)]

/-- the arch is in branch (2) -/
theorem c03q_exArch_branch2 :
    ¬ c03q_A c03q_exArch ≤ 5 / 10000 * c03q_C c03q_exArch ∧
    ¬ c03q_bac2 (c03q_A c03q_exArch) (c03q_B c03q_exArch) (c03q_C c03q_exArch)
        ≤ 1 / 10000000000000 * (2 * √(c03q_C c03q_exArch)) := by
  obtain ⟨hA, hB, hC⟩ := c03q_exArch_coeffs
  rw [hA, hB, hC]
  refine ⟨by norm_num, ?_⟩
  unfold c03q_bac2
  have h5 : (22 / 10 : ℝ) < √5 := by rw [Real.lt_sqrt (by norm_num)]; norm_num
  have h5' : √(5:ℝ) < 3 := by rw [Real.sqrt_lt' (by norm_num)]; norm_num
  have h17 : (4 : ℝ) < √17 := by rw [Real.lt_sqrt (by norm_num)]; norm_num
  have hi : (√(17:ℝ))⁻¹ < 4⁻¹ := (inv_lt_inv₀ (by linarith) (by norm_num)).mpr h17
  intro h
  linarith

/-- the cusp curve is in branch (3) and its control points are collinear -/
theorem c03q_exCusp_branch3 :
    ¬ c03q_A c03q_exCusp ≤ 5 / 10000 * c03q_C c03q_exCusp ∧
    c03q_bac2 (c03q_A c03q_exCusp) (c03q_B c03q_exCusp) (c03q_C c03q_exCusp)
        ≤ 1 / 10000000000000 * (2 * √(c03q_C c03q_exCusp)) ∧
    4 * c03q_A c03q_exCusp * c03q_C c03q_exCusp = c03q_B c03q_exCusp ^ 2 := by
  obtain ⟨hA, hB, hC⟩ := c03q_exCusp_coeffs
  rw [hA, hB, hC]
  refine ⟨by norm_num, ?_, by norm_num⟩
  unfold c03q_bac2
  rw [c03q_sqrt_nine, c03q_sqrt_four]
  norm_num

/-- a near-cusp: `d1 = (1,0)`, `d2 = (21/20)·(−(n²−1), 2n)/(n²+1)` with `n = 5·10⁶` (a Pythagorean direction at angle `≈ 4e-7` from
    `−d1`), i.e. `p0 = (0,0), p1 = (1,0), p2 = (2,0) + d2`; true length `≈ 0.954761904766` -/
noncomputable def c03q_exNearCusp : QuadBez ℝ :=
  ⟨⟨0, 0⟩, ⟨1, 0⟩, ⟨475000000000061 / 500000000000020, 10500000 / 25000000000001⟩⟩

theorem c03q_exNearCusp_coeffs : c03q_A c03q_exNearCusp = 441 / 400 ∧
    c03q_B c03q_exNearCusp = -(21 / 10) * (24999999999999 / 25000000000001) ∧ c03q_C c03q_exNearCusp = 1 := by
  unfold c03q_A c03q_B c03q_C c03q_exNearCusp
  norm_num

/-- the near-cusp is in branch (3), `|p1 − p0| = 1`, and the dropped logarithmic term is `≥ 4e-12` -/
theorem c03q_exNearCusp_branch3 :
    ¬ c03q_A c03q_exNearCusp ≤ 5 / 10000 * c03q_C c03q_exNearCusp ∧
    c03q_bac2 (c03q_A c03q_exNearCusp) (c03q_B c03q_exNearCusp) (c03q_C c03q_exNearCusp)
        ≤ 1 / 10000000000000 * (2 * √(c03q_C c03q_exNearCusp)) ∧
    √(c03q_C c03q_exNearCusp) = 1 ∧
    (4 : ℝ) / 1000000000000
      ≤ c03q_logpart (c03q_A c03q_exNearCusp) (c03q_B c03q_exNearCusp) (c03q_C c03q_exNearCusp) := by
  obtain ⟨hA, hB, hC⟩ := c03q_exNearCusp_coeffs
  rw [hA, hB, hC, c03q_logpart_nearCusp.1, Real.sqrt_one]
  exact ⟨by norm_num, by norm_num, rfl, c03q_logpart_nearCusp.2⟩

end Kurbo
