import Proofs.Lemmas.C10ACore
/-! Helper lemmas for C10A, part 3: the tolerance claim for circular arcs (radii `(R, R)`, no rotation) for EVERY
    tolerance – the hypothesis `1.1163·R/T ≥ 5⁶` of `circular_arc_within` is removed.
    With `m = n_err = max((1.1163·R/T)^(1/6), 3.999999)` (`appendParams_nerr`): `|step/4|·m ≤ π/2`, `1.1163·R/T ≤ m⁶`,
    `m ≥ 3.999999`, which is what `c10a_tanArm_piece_within` needs. -/
set_option linter.unusedSectionVars false
namespace Kurbo

section count
variable [Scalar ℝ] [LawfulScalar ℝ] [LawfulTrig] [LawfulCount]
open LawfulTrig LawfulCount

/-- every point of piece `k` of a circular arc is within `T` of the circle: radii `(R, R)`, `R ≥ 0`, every `T > 0` -/
theorem c10a_circular_arc_within (a : Arc ℝ) (tol R : ℝ) (hr : a.radii = ⟨R, R⟩) (hR : 0 ≤ R)
    (htol : 0 < tol) (k : Nat) {t : ℝ} (h0 : 0 ≤ t) (h1 : t ≤ 1) :
    abs (Real.sqrt ((((circleArcCubic a.center R (a.appendParams tol).2.1
            (accAngle a.start_angle (a.appendParams tol).2.2 k)
            (accAngle a.start_angle (a.appendParams tol).2.2 (k + 1))).eval t).x - a.center.x) ^ 2
        + (((circleArcCubic a.center R (a.appendParams tol).2.1
            (accAngle a.start_angle (a.appendParams tol).2.2 k)
            (accAngle a.start_angle (a.appendParams tol).2.2 (k + 1))).eval t).y - a.center.y) ^ 2) - abs R) ≤ tol := by
  obtain ⟨m, hm4, hm1, hm2⟩ := appendParams_nerr a tol
  rw [hr] at hm1
  simp only [max_self] at hm1
  set b := 11163 / 10000 * (R / tol) with hb
  have hb0 : 0 ≤ b := by positivity
  have hz6 : (b ^ ((1 : ℝ) / 6)) ^ 6 = b := by
    rw [← Real.rpow_natCast, ← Real.rpow_mul hb0]; norm_num
  have hm6 : b ≤ m ^ 6 := by
    rw [← hz6]; exact pow_le_pow_left₀ (Real.rpow_nonneg hb0 _) hm1 6
  have hm0 : (0 : ℝ) < m := by linarith
  have hm6pos : (0 : ℝ) < m ^ 6 := by positivity
  have hT : |R| * (11163 / 10000 / m ^ 6) ≤ tol := by
    rw [abs_of_nonneg hR, show R * (11163 / 10000 / m ^ 6) = 11163 / 10000 * R / m ^ 6 by ring, div_le_iff₀ hm6pos]
    have : b * tol = 11163 / 10000 * R := by rw [hb]; field_simp
    nlinarith
  set step := (a.appendParams tol).2.2 with hstep
  set θ := accAngle a.start_angle step k with hθ
  have e1 : θ = (θ + step / 2) - step / 2 := by ring
  have e2 : accAngle a.start_angle step (k + 1) = (θ + step / 2) + step / 2 := by
    rw [hθ, accAngle_eq, accAngle_eq]; push_cast; ring
  rw [arc_arm_eq_tan, e2]
  nth_rewrite 1 [e1]
  nth_rewrite 3 [e1]
  refine c10a_tanArm_piece_within a.center R (θ + step / 2) (step / 2) m tol hm4 ?_ hT h0 h1
  rw [show step / 2 / 2 = step / 4 by ring, abs_div, abs_of_pos (by norm_num : (0 : ℝ) < 4)]
  linarith

/-- … stated for the segments of the arc's outline -/
theorem c10a_circular_arc_segs_within (a : Arc ℝ) (tol R : ℝ) (hr : a.radii = ⟨R, R⟩) (hrot : a.x_rotation = 0)
    (hR : 0 ≤ R) (htol : 0 < tol) :
    ∃ ss, segs (a.path_elements tol) = some ss ∧ ss.length = (a.appendParams tol).1 ∧ ∀ s ∈ ss, ∃ q, s = PathSeg.Cubic q ∧
      ∀ t : ℝ, 0 ≤ t → t ≤ 1 →
        abs (Real.sqrt (((q.eval t).x - a.center.x) ^ 2 + ((q.eval t).y - a.center.y) ^ 2) - abs R) ≤ tol := by
  have hsegs : segs (a.path_elements tol) = some ((List.range (a.appendParams tol).1).map fun k => PathSeg.Cubic
      (circleArcCubic a.center R (a.appendParams tol).2.1 (accAngle a.start_angle (a.appendParams tol).2.2 k)
        (accAngle a.start_angle (a.appendParams tol).2.2 (k + 1)))) := by
    show segs (PathEl.MoveTo (arcPt a.center a.radii a.x_rotation (a.appendParams tol).2.2 a.start_angle 0)
      :: a.append_iter tol) = _
    rw [append_iter_eq, segs_moveTo_curveEls, curveSegs_arc, hr, hrot]
    congr 1
    apply List.map_congr_left
    intro k _
    rw [arc_piece_circular]
  refine ⟨_, hsegs, by simp, ?_⟩
  intro s hs
  obtain ⟨k, -, rfl⟩ := List.mem_map.mp hs
  exact ⟨_, rfl, fun t h0 h1 => c10a_circular_arc_within a tol R hr hR htol k h0 h1⟩

/-- the pieces never enter the circle: `|B(t) − centre| ≥ |R|` (whenever the piece spans less than a full turn) -/
theorem c10a_circular_arc_outside (a : Arc ℝ) (tol R : ℝ) (k : Nat) (t : ℝ) (h0 : 0 ≤ t) (h1 : t ≤ 1) :
    abs R ≤ Real.sqrt ((((circleArcCubic a.center R (a.appendParams tol).2.1
            (accAngle a.start_angle (a.appendParams tol).2.2 k)
            (accAngle a.start_angle (a.appendParams tol).2.2 (k + 1))).eval t).x - a.center.x) ^ 2
        + (((circleArcCubic a.center R (a.appendParams tol).2.1
            (accAngle a.start_angle (a.appendParams tol).2.2 k)
            (accAngle a.start_angle (a.appendParams tol).2.2 (k + 1))).eval t).y - a.center.y) ^ 2) := by
  obtain ⟨m, hm4, -, hm2⟩ := appendParams_nerr a tol
  have hm0 : (0 : ℝ) < m := by linarith
  set step := (a.appendParams tol).2.2 with hstep
  set θ := accAngle a.start_angle step k with hθ
  have e1 : θ = (θ + step / 2) - step / 2 := by ring
  have e2 : accAngle a.start_angle step (k + 1) = (θ + step / 2) + step / 2 := by
    rw [hθ, accAngle_eq, accAngle_eq]; push_cast; ring
  rw [arc_arm_eq_tan, e2]
  nth_rewrite 1 [e1]
  nth_rewrite 3 [e1]
  have hpi := Real.pi_pos
  have hx4 : |step / 2 / 2| * m ≤ Real.pi / 2 := by
    rw [show step / 2 / 2 = step / 4 by ring, abs_div, abs_of_pos (by norm_num : (0 : ℝ) < 4)]
    linarith
  have hx0 : 0 ≤ |step / 2 / 2| := abs_nonneg _
  have hxlt : |step / 2 / 2| < Real.pi / 2 := by nlinarith
  have hC' : 0 < Real.cos |step / 2 / 2| := Real.cos_pos_of_mem_Ioo ⟨by linarith, hxlt⟩
  have hC : 0 < Real.cos (step / 2 / 2) := by rwa [Real.cos_abs] at hC'
  obtain ⟨hs0, -⟩ := sigma_poly_range (sigma_range h0 h1).1 (sigma_range h0 h1).2
  rw [circleArcCubic_tan_dist_sq a.center R (θ + step / 2) (step / 2) t hC.ne']
  have hE0 : 0 ≤ 16 * Real.sin (step / 2 / 2) ^ 6 / Real.cos (step / 2 / 2) ^ 2 := by positivity
  have hu0 := mul_nonneg hE0 hs0
  rw [← Real.sqrt_sq_eq_abs]
  apply Real.sqrt_le_sqrt
  nlinarith [sq_nonneg R]

end count
end Kurbo
