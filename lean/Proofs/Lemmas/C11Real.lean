import Proofs.KDefs
import Proofs.Lemmas.C15Real
import Kurbo.Shapes
import Proofs.Lemmas.C15Quad
import Mathlib.Analysis.SpecialFunctions.Trigonometric.Angle
import Mathlib.Analysis.SpecialFunctions.Complex.Arg
/-! C11 helpers over ℝ: the laws of `%` and of the constant π (`LawfulRealAngle`), the angle reduction of
    `CircleSegment::winding` (`redAngle`: the representative in `[0, 2π)`), and the closed form of
    `CircleSegment.winding` in terms of it. -/
set_option linter.unusedSectionVars false
namespace Kurbo
open Real

/-- over ℝ: `Scalar.pi` is π and `Scalar.fmod` is Rust's `%` on floats (C `fmod`): `a − b·trunc(a/b)` -/
class LawfulRealAngle [Scalar ℝ] : Prop where
  pi_eq : (Scalar.pi : ℝ) = Real.pi
  fmod_eq : ∀ a b : ℝ, Scalar.fmod a b = a - b * (if a / b < 0 then (⌈a / b⌉ : ℝ) else (⌊a / b⌋ : ℝ))

theorem realScalar_lawfulRealAngle : @LawfulRealAngle realScalar :=
  letI := realScalar
  { pi_eq := rfl, fmod_eq := fun _ _ => rfl }

/-- `x % 2π`, then `+ 2π` if negative -/
noncomputable def redAngle (a : ℝ) : ℝ :=
  if a - (2 * π) * (if a / (2 * π) < 0 then (⌈a / (2 * π)⌉ : ℝ) else (⌊a / (2 * π)⌋ : ℝ)) < 0 then
    a - (2 * π) * (if a / (2 * π) < 0 then (⌈a / (2 * π)⌉ : ℝ) else (⌊a / (2 * π)⌋ : ℝ)) + 2 * π
  else a - (2 * π) * (if a / (2 * π) < 0 then (⌈a / (2 * π)⌉ : ℝ) else (⌊a / (2 * π)⌋ : ℝ))

/-- the reduction lands in `[0, 2π)` and changes the angle by a multiple of `2π` -/
theorem redAngle_spec (a : ℝ) : 0 ≤ redAngle a ∧ redAngle a < 2 * π ∧ ∃ k : ℤ, redAngle a = a - 2 * π * k := by
  have hT : 0 < 2 * π := by positivity
  have ha : a = (a / (2 * π)) * (2 * π) := by field_simp
  set q := a / (2 * π) with hq
  unfold redAngle
  rw [← hq]
  by_cases hneg : q < 0
  · simp only [hneg, if_true]
    have h1 : q ≤ (⌈q⌉ : ℝ) := Int.le_ceil q
    have h2 : (⌈q⌉ : ℝ) < q + 1 := Int.ceil_lt_add_one q
    have hf : a - 2 * π * (⌈q⌉ : ℝ) = (q - ⌈q⌉) * (2 * π) := by rw [ha]; ring
    by_cases hlt : a - 2 * π * (⌈q⌉ : ℝ) < 0
    · rw [if_pos hlt]
      refine ⟨?_, by linarith, ⌈q⌉ - 1, by push_cast; ring⟩
      rw [hf]; nlinarith [mul_pos hT (by linarith : (0 : ℝ) < q - ⌈q⌉ + 1)]
    · rw [if_neg hlt]
      refine ⟨not_lt.mp hlt, ?_, ⌈q⌉, rfl⟩
      rw [hf]; nlinarith [mul_nonneg hT.le (by linarith : (0 : ℝ) ≤ ⌈q⌉ - q)]
  · simp only [hneg, if_false]
    have h1 : (⌊q⌋ : ℝ) ≤ q := Int.floor_le q
    have h2 : q < (⌊q⌋ : ℝ) + 1 := Int.lt_floor_add_one q
    have hf : a - 2 * π * (⌊q⌋ : ℝ) = (q - ⌊q⌋) * (2 * π) := by rw [ha]; ring
    have h0 : 0 ≤ a - 2 * π * (⌊q⌋ : ℝ) := by rw [hf]; exact mul_nonneg (by linarith) hT.le
    rw [if_neg (not_lt.mpr h0)]
    refine ⟨h0, ?_, ⌊q⌋, rfl⟩
    rw [hf]; nlinarith [mul_pos hT (by linarith : (0 : ℝ) < ⌊q⌋ + 1 - q)]

/-- a representative `θ − 2πn` in `[0, 2π)` of a non-negative angle `θ` is at most `θ` -/
theorem red_le_of_nonneg {θ r : ℝ} {n : ℤ} (hθ : 0 ≤ θ) (hr : r < 2 * π) (h : r = θ - 2 * π * n) : r ≤ θ := by
  have hT : 0 < 2 * π := by positivity
  by_contra hlt
  push Not at hlt
  have hn : (n : ℝ) < 0 := by
    by_contra hn
    push Not at hn
    have := mul_nonneg hT.le hn
    linarith
  have hn' : n ≤ -1 := by
    have : n < 0 := by exact_mod_cast hn
    omega
  have hn'' : (n : ℝ) ≤ -1 := by exact_mod_cast hn'
  nlinarith [mul_le_mul_of_nonneg_left hn'' hT.le]

theorem ite_ite_eq_one_iff (c d : Prop) [Decidable c] [Decidable d] :
    (if c then (0 : Int) else if d then 1 else 0) = 1 ↔ ¬ c ∧ d := by
  by_cases hc : c <;> by_cases hd : d <;> simp [hc, hd]

section
variable [Scalar ℝ] [LawfulScalar ℝ] [LawfulReal]
theorem sqrtExact_of_lawfulReal (x : ℝ) (hx : 0 ≤ x) : SqrtExact x := by
  unfold SqrtExact; rw [LawfulReal.sqrt_eq]
  exact ⟨Real.sqrt_nonneg x, Real.mul_self_sqrt hx⟩

end

section
variable [Scalar ℝ] [LawfulScalar ℝ] [LawfulReal] [LawfulRealAngle]

/-- `CircleSegment::winding` over ℝ: the reduced angle (relative to the start, in sweep direction) is at most
    `|sweep|`, and the point lies strictly between the two circles -/
theorem CircleSegment.winding_eq_one_iff_real (s : CircleSegment ℝ) (p : Point ℝ) :
    s.winding p = 1 ↔
      redAngle ((Complex.arg ⟨p.x - s.center.x, p.y - s.center.y⟩ - s.start_angle)
          * (if s.sweep_angle < 0 then -1 else 1)) ≤ |s.sweep_angle| ∧
      ((s.inner_radius ^ 2 < (p.x - s.center.x) ^ 2 + (p.y - s.center.y) ^ 2 ∧
          (p.x - s.center.x) ^ 2 + (p.y - s.center.y) ^ 2 < s.outer_radius ^ 2) ∨
        (s.outer_radius ^ 2 < (p.x - s.center.x) ^ 2 + (p.y - s.center.y) ^ 2 ∧
          (p.x - s.center.x) ^ 2 + (p.y - s.center.y) ^ 2 < s.inner_radius ^ 2)) := by
  have e : (p.x - s.center.x) * (p.x - s.center.x) + (p.y - s.center.y) * (p.y - s.center.y)
      = (p.x - s.center.x) ^ 2 + (p.y - s.center.y) ^ 2 := by ring
  unfold CircleSegment.winding redAngle
  simp only [Vec2.hypot2, Vec2.dot, Vec2.atan2, twoPi, point_sub, scalar_norm, LawfulReal.atan2_eq,
    LawfulRealAngle.pi_eq, LawfulRealAngle.fmod_eq, Bool.or_eq_true, Bool.and_eq_true, decide_eq_true_eq, e]
  push_cast
  rw [ite_ite_eq_one_iff, not_lt]
  exact and_congr Iff.rfl (or_congr and_comm and_comm)

/-- the reduced angle is the sweep-direction angle from the start direction to the direction of `z`: going from
    `start` by `σ·redAngle` (σ = ±1 the sweep direction) one looks along `z` -/
theorem redAngle_direction (z : ℂ) (start : ℝ) (σ : ℤ) (hσ : σ = 1 ∨ σ = -1) :
    ‖z‖ * Real.cos (start + σ * redAngle ((Complex.arg z - start) * σ)) = z.re ∧
    ‖z‖ * Real.sin (start + σ * redAngle ((Complex.arg z - start) * σ)) = z.im := by
  obtain ⟨_, _, k, hk⟩ := redAngle_spec ((Complex.arg z - start) * σ)
  have hσ2 : (σ : ℝ) * σ = 1 := by rcases hσ with h | h <;> rw [h] <;> norm_num
  have e : start + σ * redAngle ((Complex.arg z - start) * σ) = Complex.arg z - ((σ * k : ℤ) : ℝ) * (2 * π) := by
    rw [hk]; push_cast
    linear_combination (Complex.arg z - start) * hσ2
  rw [e, Real.cos_sub_int_mul_two_pi, Real.sin_sub_int_mul_two_pi]
  exact ⟨Complex.norm_mul_cos_arg z, Complex.norm_mul_sin_arg z⟩

/-- conversely, if `z ≠ 0` looks along `start + σθ` for some `θ ≥ 0`, the reduced angle is at most `θ` -/
theorem redAngle_le_of_direction (z : ℂ) (hz : z ≠ 0) (start θ : ℝ) (σ : ℤ) (hσ : σ = 1 ∨ σ = -1) (hθ : 0 ≤ θ)
    (hre : z.re = ‖z‖ * Real.cos (start + σ * θ)) (him : z.im = ‖z‖ * Real.sin (start + σ * θ)) :
    redAngle ((Complex.arg z - start) * σ) ≤ θ := by
  have hn : 0 < ‖z‖ := norm_pos_iff.mpr hz
  have hcos : Real.cos (Complex.arg z) = Real.cos (start + σ * θ) := by
    rw [Complex.cos_arg hz, hre]; field_simp
  have hsin : Real.sin (Complex.arg z) = Real.sin (start + σ * θ) := by
    rw [Complex.sin_arg, him]; field_simp
  obtain ⟨m, hm⟩ := Real.Angle.angle_eq_iff_two_pi_dvd_sub.mp (Real.Angle.cos_sin_inj hcos hsin)
  obtain ⟨_, hlt, k, hk⟩ := redAngle_spec ((Complex.arg z - start) * σ)
  have hσ2 : (σ : ℝ) * σ = 1 := by rcases hσ with h | h <;> rw [h] <;> norm_num
  refine red_le_of_nonneg (n := k - m * σ) hθ hlt ?_
  rw [hk]; push_cast
  have : Complex.arg z - start = σ * θ + 2 * π * m := by linarith
  rw [this]
  linear_combination θ * hσ2

end
end Kurbo
