import Proofs.Lemmas.C07Rev
/-! Helper definitions and lemmas for C07, part 3: decomposition of an element list into sub-paths,
    `reverse_subpaths` as "reverse every sub-path", segments as the concatenation of the sub-paths' segments.
    Core Lean only. -/
set_option linter.unusedSectionVars false
namespace Kurbo
variable {K : Type} [Scalar K]

/-! ### sub-paths -/

/-- a sub-path: start point, run of drawing elements, closed or not -/
structure Subpath (K : Type) where
  start : Point K
  body : List (PathEl K)
  closed : Bool

/-- `[ClosePath]` for a closed sub-path, nothing for an open one -/
def closer (closed : Bool) : List (PathEl K) := if closed then [.ClosePath] else []

/-- a sub-path as elements: `MoveTo start`, the body, `ClosePath` if closed -/
def Subpath.render (b : Subpath K) : List (PathEl K) := .MoveTo b.start :: (b.body ++ closer b.closed)

/-- the reversed sub-path: starts where the body ended, reversed body, same closedness -/
def Subpath.rev (b : Subpath K) : Subpath K := ⟨runEnd b.start b.body, revBody b.start b.body, b.closed⟩

/-- the segments of a sub-path (= `segs b.render`) -/
def Subpath.segs (b : Subpath K) : List (PathSeg K) := segsT (b.start, b.start) (b.body ++ closer b.closed)

/-- an open sub-path ends at a `MoveTo` or at the end of the list: it is recorded if it has a body or if it is a
    lone `MoveTo` (`pending`); the empty continuation after a `ClosePath` is not a sub-path -/
def flush (start : Point K) (pending : Bool) (body : List (PathEl K)) : List (Subpath K) :=
  if pending || !body.isEmpty then [⟨start, body, false⟩] else []

/-- decomposition of an element list into sub-paths; state: start point of the current sub-path, whether it
    is so far a lone `MoveTo`, the drawing elements collected so far -/
def subpathsAux (start : Point K) (pending : Bool) (body : List (PathEl K)) :
    List (PathEl K) → List (Subpath K)
  | [] => flush start pending body
  | el :: rest =>
    match el with
    | .MoveTo q => flush start pending body ++ subpathsAux q true [] rest
    | .ClosePath => ⟨start, body, true⟩ :: subpathsAux start false [] rest
    | _ => subpathsAux start false (body ++ [el]) rest

/-- the sub-paths of an element list that starts with `MoveTo` (or is empty) -/
def subpaths : List (PathEl K) → List (Subpath K)
  | .MoveTo p :: rest => subpathsAux p true [] rest
  | _ => []

/-! ### the loop of `reverse_subpaths` -/

/-- loop body of `reverseSubpaths` (verbatim copy of the local `step`) -/
def revStep (elements : List (PathEl K)) (acc : Option (RevSt K)) (ixel : Nat × PathEl K) : Option (RevSt K) :=
  let slice (a b : Nat) : List (PathEl K) := (elements.drop a).take (b - a)
  match acc with
  | none => none
  | some st =>
    let (ix, el) := ixel
    match el with
    | .MoveTo pt =>
      let r1 := if st.pending_move then st.reversed ++ [.MoveTo st.start_pt] else st.reversed
      let r2 : Option (List (PathEl K)) :=
        if st.start_ix < ix then (reverseSubpath st.start_pt (slice st.start_ix ix)).map (r1 ++ ·) else some r1
      r2.map fun r => { start_ix := ix + 1, start_pt := pt, reversed := r, pending_move := true }
    | .ClosePath =>
      let r2 : Option (List (PathEl K)) :=
        if st.start_ix ≤ ix then (reverseSubpath st.start_pt (slice st.start_ix ix)).map (st.reversed ++ ·) else some st.reversed
      r2.map fun r => { st with start_ix := ix + 1, reversed := r ++ [.ClosePath], pending_move := false }
    | _ => some { st with pending_move := false }

/-- what `reverseSubpaths` does after the loop (verbatim copy) -/
def revFinish (elements : List (PathEl K)) : Option (RevSt K) → Option (List (PathEl K))
  | none => none
  | some st =>
    if st.start_ix < elements.length then
      (reverseSubpath st.start_pt (elements.drop st.start_ix)).map (st.reversed ++ ·)
    else if st.pending_move then some (st.reversed ++ [.MoveTo st.start_pt])
    else some st.reversed

theorem reverseSubpaths_moveTo (p0 : Point K) (tl : List (PathEl K)) :
    reverseSubpaths (.MoveTo p0 :: tl) = revFinish (.MoveTo p0 :: tl)
      (((tl.zipIdx 1).map fun (el, ix) => (ix, el)).foldl (revStep (.MoveTo p0 :: tl))
        (some { start_ix := 1, start_pt := p0, reversed := [], pending_move := true })) := by
  rfl

theorem slice_eq (pre post : List (PathEl K)) (a : Nat) (h : a ≤ pre.length) :
    ((pre ++ post).drop a).take (pre.length - a) = pre.drop a := by
  rw [List.drop_append_of_le_length h, List.take_left' (by rw [List.length_drop])]

theorem render_rev (start : Point K) (body : List (PathEl K)) (c : Bool) :
    (Subpath.rev ⟨start, body, c⟩).render = .MoveTo (runEnd start body) :: (revBody start body ++ closer c) := rfl

theorem flush_nil_true (start : Point K) : flush start true [] = [⟨start, [], false⟩] := rfl
theorem flush_nil_false (start : Point K) : flush start false [] = ([] : List (Subpath K)) := rfl
theorem flush_ne (start : Point K) (pending : Bool) (body : List (PathEl K)) (h : body ≠ []) :
    flush start pending body = [⟨start, body, false⟩] := by
  cases body with
  | nil => exact absurd rfl h
  | cons e es => simp [flush]

/-- output of the sub-path decomposition after reversal of each sub-path -/
def revOut (bs : List (Subpath K)) : List (PathEl K) := (bs.map Subpath.rev).flatMap Subpath.render

theorem revOut_append (a b : List (Subpath K)) : revOut (a ++ b) = revOut a ++ revOut b := by
  simp only [revOut, List.map_append, List.flatMap_append]
theorem revOut_cons (a : Subpath K) (b : List (Subpath K)) : revOut (a :: b) = a.rev.render ++ revOut b := by
  simp only [revOut, List.map_cons, List.flatMap_cons]
theorem revOut_nil : revOut ([] : List (Subpath K)) = [] := rfl

/-- the loop of `reverse_subpaths`, started in the middle, computes the reversal of the sub-path decomposition -/
theorem fold_spec (elements : List (PathEl K)) (rest pre : List (PathEl K)) (st : RevSt K)
    (hel : elements = pre ++ rest) (hix : st.start_ix ≤ pre.length)
    (hpend : st.pending_move = true → st.start_ix = pre.length)
    (hdraw : AllDraw (pre.drop st.start_ix)) :
    revFinish elements
        (((rest.zipIdx pre.length).map fun (el, ix) => (ix, el)).foldl (revStep elements) (some st))
      = some (st.reversed ++ revOut (subpathsAux st.start_pt st.pending_move (pre.drop st.start_ix) rest)) := by
  induction rest generalizing pre st with
  | nil =>
    obtain ⟨six, spt, srev, spend⟩ := st
    simp only [List.append_nil] at hel
    subst hel
    simp only at hix hpend hdraw
    simp only [List.zipIdx_nil, List.map_nil, List.foldl_nil, revFinish, subpathsAux]
    by_cases h : six < elements.length
    · have hne : elements.drop six ≠ [] := by
        intro e; have := congrArg List.length e; simp at this; omega
      rw [if_pos h, reverseSubpath_eq _ _ hdraw, flush_ne _ _ _ hne]
      simp [revOut, render_rev, closer]
    · have he : elements.drop six = [] := List.drop_eq_nil_of_le (by omega)
      rw [if_neg h, he]
      cases spend
      · simp [flush_nil_false, revOut_nil]
      · simp [flush_nil_true, revOut, render_rev, closer, runEnd, revBody]
  | cons el rest ih =>
    obtain ⟨six, spt, srev, spend⟩ := st
    simp only at hix hpend hdraw
    have hslice : ((elements.drop six).take (pre.length - six)) = pre.drop six := by
      rw [hel]; exact slice_eq _ _ _ hix
    have hel' : elements = (pre ++ [el]) ++ rest := by rw [hel]; simp
    have hlen' : (pre ++ [el]).length = pre.length + 1 := by simp
    simp only [List.zipIdx_cons, List.map_cons, List.foldl_cons]
    cases el with
    | MoveTo pt =>
      have hstep : revStep elements (some ⟨six, spt, srev, spend⟩) (pre.length, .MoveTo pt)
          = some ⟨pre.length + 1, pt, srev ++ revOut (flush spt spend (pre.drop six)), true⟩ := by
        simp only [revStep, hslice]
        cases spend
        · by_cases h : six < pre.length
          · have hne : pre.drop six ≠ [] := by
              intro e; have := congrArg List.length e; simp at this; omega
            rw [if_pos h, reverseSubpath_eq _ _ hdraw, flush_ne _ _ _ hne]
            simp [revOut, render_rev, closer]
          · have he : pre.drop six = [] := List.drop_eq_nil_of_le (by omega)
            rw [if_neg h, he]
            simp [flush_nil_false, revOut_nil]
        · have h6 : six = pre.length := hpend rfl
          have he : pre.drop six = [] := List.drop_eq_nil_of_le (by omega)
          rw [if_neg (by omega), he]
          simp [flush_nil_true, revOut, render_rev, closer, runEnd, revBody]
      rw [hstep]
      have := ih (pre ++ [.MoveTo pt]) ⟨pre.length + 1, pt, srev ++ revOut (flush spt spend (pre.drop six)), true⟩
        hel' (by simp) (by intro _; simp) (by simp [AllDraw.nil])
      rw [hlen'] at this
      rw [this]
      simp [subpathsAux, revOut_append]
    | ClosePath =>
      have hstep : revStep elements (some ⟨six, spt, srev, spend⟩) (pre.length, .ClosePath)
          = some ⟨pre.length + 1, spt, srev ++ (Subpath.rev ⟨spt, pre.drop six, true⟩).render, false⟩ := by
        simp only [revStep, hslice]
        rw [if_pos hix, reverseSubpath_eq _ _ hdraw]
        simp [render_rev, closer]
      rw [hstep]
      have := ih (pre ++ [.ClosePath]) ⟨pre.length + 1, spt, srev ++ (Subpath.rev ⟨spt, pre.drop six, true⟩).render, false⟩
        hel' (by simp) (by intro h; cases h) (by simp [AllDraw.nil])
      rw [hlen'] at this
      rw [this]
      simp [subpathsAux, revOut_cons]
    | LineTo p =>
      have hstep : revStep elements (some ⟨six, spt, srev, spend⟩) (pre.length, .LineTo p)
          = some ⟨six, spt, srev, false⟩ := rfl
      rw [hstep]
      have := ih (pre ++ [.LineTo p]) ⟨six, spt, srev, false⟩ hel' (by simp; omega) (by intro h; cases h)
        (by rw [List.drop_append_of_le_length hix]; exact hdraw.append (AllDraw.single rfl))
      rw [hlen'] at this
      rw [this]
      simp only [subpathsAux, List.drop_append_of_le_length hix]
    | QuadTo p1 p2 =>
      have hstep : revStep elements (some ⟨six, spt, srev, spend⟩) (pre.length, .QuadTo p1 p2)
          = some ⟨six, spt, srev, false⟩ := rfl
      rw [hstep]
      have := ih (pre ++ [.QuadTo p1 p2]) ⟨six, spt, srev, false⟩ hel' (by simp; omega) (by intro h; cases h)
        (by rw [List.drop_append_of_le_length hix]; exact hdraw.append (AllDraw.single rfl))
      rw [hlen'] at this
      rw [this]
      simp only [subpathsAux, List.drop_append_of_le_length hix]
    | CurveTo p1 p2 p3 =>
      have hstep : revStep elements (some ⟨six, spt, srev, spend⟩) (pre.length, .CurveTo p1 p2 p3)
          = some ⟨six, spt, srev, false⟩ := rfl
      rw [hstep]
      have := ih (pre ++ [.CurveTo p1 p2 p3]) ⟨six, spt, srev, false⟩ hel' (by simp; omega) (by intro h; cases h)
        (by rw [List.drop_append_of_le_length hix]; exact hdraw.append (AllDraw.single rfl))
      rw [hlen'] at this
      rw [this]
      simp only [subpathsAux, List.drop_append_of_le_length hix]

/-- `reverse_subpaths` reverses each sub-path of the decomposition and writes them out in the same order -/
theorem reverseSubpaths_eq_revOut (p0 : Point K) (tl : List (PathEl K)) :
    reverseSubpaths (.MoveTo p0 :: tl) = some (revOut (subpaths (.MoveTo p0 :: tl))) := by
  rw [reverseSubpaths_moveTo]
  have := fold_spec (.MoveTo p0 :: tl) tl [.MoveTo p0] ⟨1, p0, [], true⟩ rfl (by simp) (by intro _; rfl)
    (by simp [AllDraw.nil])
  simp only [List.length_singleton] at this
  rw [this]
  simp [subpaths]

/-! ### segments = concatenation of the sub-paths' segments -/

theorem flush_segs (start : Point K) (pending : Bool) (body : List (PathEl K)) :
    (flush start pending body).flatMap Subpath.segs = segsT (start, start) body := by
  cases body with
  | nil => cases pending <;> rfl
  | cons e es =>
    rw [flush_ne _ _ _ (List.cons_ne_nil _ _)]
    simp [Subpath.segs, closer]

theorem stAfterT_close [LawfulPeq K] (start : Point K) (body : List (PathEl K)) (h : AllDraw body) :
    stAfterT (start, start) (body ++ [.ClosePath]) = (start, start) := by
  rw [stAfterT_snoc, stAfterT_draw _ _ _ h]
  have h1 := stepT_start (start, runEnd start body) PathEl.ClosePath
  have h2 := stepT_last (start, runEnd start body) PathEl.ClosePath
  simp only [mvPt, PathEl.end_point, Option.getD] at h1 h2
  exact Prod.ext h1 h2

theorem segsT_subpathsAux [LawfulPeq K] (rest : List (PathEl K)) (start : Point K) (pending : Bool)
    (body : List (PathEl K)) (h : AllDraw body) :
    segsT (start, start) (body ++ rest) = (subpathsAux start pending body rest).flatMap Subpath.segs := by
  induction rest generalizing start pending body with
  | nil => simp only [List.append_nil, subpathsAux, flush_segs]
  | cons el rest ih =>
    cases el with
    | MoveTo q =>
      simp only [subpathsAux, List.flatMap_append, flush_segs, ← ih q true [] AllDraw.nil, List.nil_append]
      rw [segsT_append, stAfterT_draw _ _ _ h]
      rfl
    | ClosePath =>
      simp only [subpathsAux, List.flatMap_cons, ← ih start false [] AllDraw.nil, List.nil_append]
      have e : body ++ PathEl.ClosePath :: rest = (body ++ [PathEl.ClosePath]) ++ rest := by simp
      rw [e, segsT_append, stAfterT_close _ _ h]
      rfl
    | LineTo p =>
      have e : body ++ PathEl.LineTo p :: rest = (body ++ [PathEl.LineTo p]) ++ rest := by simp
      rw [e, ih start false _ (h.append (AllDraw.single rfl))]; rfl
    | QuadTo p1 p2 =>
      have e : body ++ PathEl.QuadTo p1 p2 :: rest = (body ++ [PathEl.QuadTo p1 p2]) ++ rest := by simp
      rw [e, ih start false _ (h.append (AllDraw.single rfl))]; rfl
    | CurveTo p1 p2 p3 =>
      have e : body ++ PathEl.CurveTo p1 p2 p3 :: rest = (body ++ [PathEl.CurveTo p1 p2 p3]) ++ rest := by simp
      rw [e, ih start false _ (h.append (AllDraw.single rfl))]; rfl

theorem segs_eq_subpaths [LawfulPeq K] (p0 : Point K) (tl : List (PathEl K)) :
    segs (.MoveTo p0 :: tl) = some ((subpaths (.MoveTo p0 :: tl)).flatMap Subpath.segs) := by
  rw [segs_moveTo]
  have := segsT_subpathsAux tl p0 true [] AllDraw.nil
  rw [List.nil_append] at this
  rw [this]; rfl

/-! ### the bodies of the decomposition are runs of drawing elements -/

theorem subpathsAux_allDraw (rest : List (PathEl K)) (start : Point K) (pending : Bool)
    (body : List (PathEl K)) (h : AllDraw body) :
    ∀ b ∈ subpathsAux start pending body rest, AllDraw b.body := by
  induction rest generalizing start pending body with
  | nil =>
    intro b hb
    simp only [subpathsAux, flush] at hb
    split at hb
    · rw [List.mem_singleton] at hb; subst hb; exact h
    · cases hb
  | cons el rest ih =>
    intro b hb
    cases el with
    | MoveTo q =>
      simp only [subpathsAux, List.mem_append, flush] at hb
      rcases hb with hb | hb
      · split at hb
        · rw [List.mem_singleton] at hb; subst hb; exact h
        · cases hb
      · exact ih q true [] AllDraw.nil b hb
    | ClosePath =>
      simp only [subpathsAux, List.mem_cons] at hb
      rcases hb with hb | hb
      · subst hb; exact h
      · exact ih start false [] AllDraw.nil b hb
    | LineTo p => exact ih start false _ (h.append (AllDraw.single rfl)) b hb
    | QuadTo p1 p2 => exact ih start false _ (h.append (AllDraw.single rfl)) b hb
    | CurveTo p1 p2 p3 => exact ih start false _ (h.append (AllDraw.single rfl)) b hb

theorem subpaths_allDraw (els : List (PathEl K)) : ∀ b ∈ subpaths els, AllDraw b.body := by
  cases els with
  | nil => intro b hb; cases hb
  | cons el rest =>
    cases el with
    | MoveTo p => exact subpathsAux_allDraw rest p true [] AllDraw.nil
    | _ => intro b hb; cases hb

/-! ### decomposing a rendered list of sub-paths gives the sub-paths back -/

theorem subpathsAux_draw_append (body : List (PathEl K)) (h : AllDraw body) (start : Point K) (pending : Bool)
    (acc rest : List (PathEl K)) :
    subpathsAux start pending acc (body ++ rest)
      = subpathsAux start (pending && body.isEmpty) (acc ++ body) rest := by
  induction body generalizing pending acc with
  | nil => simp
  | cons e es ih =>
    have he := h.head
    have := ih h.tail false (acc ++ [e])
    cases e <;> simp only [PathEl.isDraw, Bool.false_eq_true] at he <;>
      simp [subpathsAux, this]

/-- a list that is empty or starts with `MoveTo` -/
def MoveFirst (els : List (PathEl K)) : Prop := els = [] ∨ ∃ p t, els = .MoveTo p :: t

theorem subpathsAux_moveFirst (start : Point K) (rest : List (PathEl K)) (h : MoveFirst rest) :
    subpathsAux start false [] rest = subpaths rest := by
  rcases h with h | ⟨p, t, h⟩ <;> subst h <;> rfl

theorem moveFirst_flatMap_render (bs : List (Subpath K)) : MoveFirst (bs.flatMap Subpath.render) := by
  cases bs with
  | nil => exact Or.inl rfl
  | cons b bs => exact Or.inr ⟨b.start, _, rfl⟩

theorem subpaths_flatMap_render (bs : List (Subpath K)) (h : ∀ b ∈ bs, AllDraw b.body) :
    subpaths (bs.flatMap Subpath.render) = bs := by
  induction bs with
  | nil => rfl
  | cons b bs ih =>
    have ihb := ih (fun b' hb' => h b' (List.mem_cons_of_mem _ hb'))
    have hb := h b (List.mem_cons_self ..)
    obtain ⟨start, body, closed⟩ := b
    simp only [List.flatMap_cons, Subpath.render, List.cons_append, subpaths, List.append_assoc]
    rw [subpathsAux_draw_append _ hb]
    have hmf := moveFirst_flatMap_render bs
    cases closed with
    | true =>
      simp only [closer, if_true, List.cons_append, List.nil_append, subpathsAux]
      rw [subpathsAux_moveFirst _ _ hmf, ihb]
    | false =>
      simp only [closer, Bool.false_eq_true, if_false, List.nil_append]
      have hfl : flush start (true && body.isEmpty) body = [⟨start, body, false⟩] := by
        cases body <;> rfl
      rcases hmf with hmf | ⟨p, t, hmf⟩
      · rw [hmf] at ihb ⊢
        simp only [subpathsAux, hfl]
        rw [← ihb]; rfl
      · rw [hmf] at ihb ⊢
        simp only [subpathsAux, hfl]
        rw [← ihb]; rfl
/-! ### reversing one sub-path -/

theorem Subpath.rev_allDraw (b : Subpath K) (h : AllDraw b.body) : AllDraw b.rev.body :=
  revBody_isDraw _ _ h

theorem Subpath.rev_rev (b : Subpath K) (h : AllDraw b.body) : b.rev.rev = b := by
  obtain ⟨s, body, c⟩ := b
  simp only [Subpath.rev, runEnd_revBody _ _ h, revBody_revBody _ _ h]

/-- the segment contributed by `ClosePath` when the sub-path started at `start` and the current point is `last` -/
def closingSeg (start last : Point K) : List (PathSeg K) := segsT (start, last) [.ClosePath]

theorem closingSeg_eq_nil [LawfulPeq K] (start : Point K) : closingSeg start start = [] := by
  simp [closingSeg, segsT, stepT]

theorem closingSeg_ne [LawfulPeq K] (start last : Point K) (h : last ≠ start) :
    closingSeg start last = [.Line ⟨last, start⟩] := by
  have := (peq_false_iff last start).2 h
  simp [closingSeg, segsT, stepT, this]

theorem closingSeg_reverse [LawfulPeq K] (start last : Point K) :
    (closingSeg start last).map PathSeg.reverse = closingSeg last start := by
  simp only [closingSeg, segsT, stepT, peq_comm start last]
  cases last.peq start <;> simp [PathSeg.reverse, Line.new]

theorem closingSeg_length_le [LawfulPeq K] (start last : Point K) : (closingSeg start last).length ≤ 1 := by
  simp only [closingSeg, segsT, stepT]
  cases last.peq start <;> simp

theorem Subpath.segs_eq (b : Subpath K) (h : AllDraw b.body) :
    b.segs = segsT (b.start, b.start) b.body
      ++ (if b.closed then closingSeg b.start (runEnd b.start b.body) else []) := by
  obtain ⟨s, body, c⟩ := b
  simp only [Subpath.segs, segsT_append, stAfterT_draw _ _ _ h]
  cases c <;> simp [closer, closingSeg, segsT]

theorem Subpath.segs_rev [LawfulPeq K] (b : Subpath K) (h : AllDraw b.body) :
    b.rev.segs = ((segsT (b.start, b.start) b.body).map PathSeg.reverse).reverse
      ++ (if b.closed then (closingSeg b.start (runEnd b.start b.body)).map PathSeg.reverse else []) := by
  rw [Subpath.segs_eq _ (b.rev_allDraw h)]
  obtain ⟨s, body, c⟩ := b
  simp only [Subpath.rev, segsT_revBody s _ s body h, runEnd_revBody _ _ h, closingSeg_reverse]

theorem rotateLeft_singleton_append {α : Type} (c : α) (D : List α) : ([c] ++ D).rotateLeft 1 = D ++ [c] := by
  cases D with
  | nil => rfl
  | cons d D => simp [List.rotateLeft]

/-- reversed sub-path = reversed segments in reverse order, rotated by one if there is a closing line -/
theorem Subpath.segs_rev_rotate [LawfulPeq K] (b : Subpath K) (h : AllDraw b.body) :
    b.rev.segs = ((b.segs.reverse).map PathSeg.reverse).rotateLeft
      (if b.closed then (closingSeg b.start (runEnd b.start b.body)).length else 0) := by
  rw [Subpath.segs_rev b h, Subpath.segs_eq b h]
  cases hc : b.closed with
  | false => simp [List.rotateLeft]
  | true =>
    simp only [if_true]
    generalize hcl : closingSeg b.start (runEnd b.start b.body) = cl
    have hl : cl.length ≤ 1 := by rw [← hcl]; exact closingSeg_length_le _ _
    match cl, hl with
    | [], _ => simp [List.rotateLeft]
    | [c], _ =>
      simp only [List.reverse_append, List.reverse_singleton, List.map_append, List.map_cons, List.map_nil,
        List.length_singleton, rotateLeft_singleton_append, List.map_reverse]

/-! ### path level -/

theorem reverseSubpaths_moveFirst (els : List (PathEl K)) (h : MoveFirst els) :
    reverseSubpaths els = some (revOut (subpaths els)) := by
  rcases h with h | ⟨p, t, h⟩ <;> subst h
  · rfl
  · exact reverseSubpaths_eq_revOut p t

theorem moveFirst_revOut (bs : List (Subpath K)) : MoveFirst (revOut bs) :=
  moveFirst_flatMap_render _

theorem subpaths_revOut (bs : List (Subpath K)) (h : ∀ b ∈ bs, AllDraw b.body) :
    subpaths (revOut bs) = bs.map Subpath.rev := by
  apply subpaths_flatMap_render
  intro b hb
  obtain ⟨b', hb', e⟩ := List.mem_map.1 hb
  subst e
  exact b'.rev_allDraw (h b' hb')

theorem map_rev_rev (bs : List (Subpath K)) (h : ∀ b ∈ bs, AllDraw b.body) :
    (bs.map Subpath.rev).map Subpath.rev = bs := by
  induction bs with
  | nil => rfl
  | cons b bs ih =>
    simp only [List.map_cons, b.rev_rev (h b (List.mem_cons_self ..)),
      ih (fun b' hb' => h b' (List.mem_cons_of_mem _ hb'))]

/-- reversing twice writes the sub-path decomposition back out (a `MoveTo` is made explicit after `ClosePath`) -/
theorem reverse_reverse_els_aux (els : List (PathEl K)) (h : MoveFirst els) :
    (reverseSubpaths els).bind reverseSubpaths = some ((subpaths els).flatMap Subpath.render) := by
  rw [reverseSubpaths_moveFirst els h, Option.bind_some, reverseSubpaths_moveFirst _ (moveFirst_revOut _),
    subpaths_revOut _ (subpaths_allDraw els)]
  simp only [revOut, map_rev_rev _ (subpaths_allDraw els)]

theorem segs_moveFirst [LawfulPeq K] (els : List (PathEl K)) (h : MoveFirst els) :
    segs els = some ((subpaths els).flatMap Subpath.segs) := by
  rcases h with h | ⟨p, t, h⟩ <;> subst h
  · rfl
  · exact segs_eq_subpaths p t

theorem segs_flatMap_render [LawfulPeq K] (bs : List (Subpath K)) (h : ∀ b ∈ bs, AllDraw b.body) :
    segs (bs.flatMap Subpath.render) = some (bs.flatMap Subpath.segs) := by
  rw [segs_moveFirst _ (moveFirst_flatMap_render bs), subpaths_flatMap_render bs h]

theorem reverse_reverse_segs_aux [LawfulPeq K] (els : List (PathEl K)) (h : MoveFirst els) :
    ((reverseSubpaths els).bind reverseSubpaths).bind segs = segs els := by
  rw [reverse_reverse_els_aux els h, Option.bind_some, segs_flatMap_render _ (subpaths_allDraw els),
    segs_moveFirst els h]

theorem reverse_segs_aux [LawfulPeq K] (els : List (PathEl K)) (h : MoveFirst els) :
    (reverseSubpaths els).bind segs = some ((subpaths els).flatMap fun b => b.rev.segs) := by
  rw [reverseSubpaths_moveFirst els h, Option.bind_some, segs_moveFirst _ (moveFirst_revOut _),
    subpaths_revOut _ (subpaths_allDraw els), List.flatMap_map]

theorem subpaths_single (b : Subpath K) (h : AllDraw b.body) : subpaths b.render = [b] := by
  have := subpaths_flatMap_render [b] (by intro b' hb'; rw [List.mem_singleton] at hb'; subst hb'; exact h)
  simpa using this

end Kurbo
