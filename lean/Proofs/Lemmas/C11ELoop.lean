import Proofs.Lemmas.C11EAgm
import Proofs.Lemmas.C11EKummer
/-! Helper lemmas for C11E, part 3: `agm_elliptic_perimeter` and `Ellipse::perimeter` around the loop (ordering of the radii,
    the normalised accuracy, the explicit pass bound `agmPassBound`). -/
set_option linter.unusedSectionVars false
namespace Kurbo
open Real

variable [Scalar ℝ] [LawfulScalar ℝ] [LawfulReal] [LawfulRealAngle]

/-- explicit bound on the number of passes of the loop of `agm_elliptic_perimeter(accuracy, (x, y))`, `x ≥ y > 0`:
    `max(1, ⌈log₂⌈c₀² / (acc'·g₀)⌉⌉)` with `g₀ = y/x`, `c₀² = 1 − g₀²`, `acc' = accuracy/(2πx)` -/
noncomputable def agmPassBound (accuracy x y : ℝ) : ℕ :=
  max (Nat.clog 2 ⌈(1 - (y / x) ^ 2) / (accuracy / (2 * π * x) * (y / x))⌉₊) 1

theorem agmPassBound_spec {accuracy x y : ℝ} (hacc : 0 < accuracy) (hy : 0 < y) (hyx : y ≤ x) :
    (agmState x y).c ^ 2 ≤
      2 ^ (Nat.clog 2 ⌈(1 - (y / x) ^ 2) / (accuracy / (2 * π * x) * (y / x))⌉₊) * (accuracy / (2 * π * x) * (agmState x y).g) := by
  obtain ⟨_, _, hg, hc, _⟩ := agmState_fields x y
  have hx : 0 < x := lt_of_lt_of_le hy hyx
  have hq : 0 < y / x := div_pos hy hx
  have hq1 : y / x ≤ 1 := (div_le_one hx).2 hyx
  have h0 : 0 ≤ 1 - (y / x) ^ 2 := by nlinarith
  have hd : 0 < accuracy / (2 * π * x) * (y / x) := by have := Real.pi_pos; positivity
  rw [hc, hg, Real.sq_sqrt h0]
  set Q := (1 - (y / x) ^ 2) / (accuracy / (2 * π * x) * (y / x)) with hQ
  have h1 : Q ≤ (⌈Q⌉₊ : ℝ) := Nat.le_ceil Q
  have h2 : (⌈Q⌉₊ : ℝ) ≤ ((2 ^ Nat.clog 2 ⌈Q⌉₊ : ℕ) : ℝ) := by exact_mod_cast Nat.le_pow_clog (by norm_num) _
  have h3 : 1 - (y / x) ^ 2 = Q * (accuracy / (2 * π * x) * (y / x)) := by rw [hQ, div_mul_cancel₀ _ hd.ne']
  rw [h3]
  push_cast at h2
  exact mul_le_mul_of_nonneg_right (le_trans h1 h2) hd.le

/-- `agm_elliptic_perimeter` written with `max`/`min` of the radii -/
theorem agmEllipticPerimeterFuel_eq (fuel : ℕ) (accuracy : ℝ) (r : Vec2 ℝ) :
    agmEllipticPerimeterFuel fuel accuracy r =
      (2 * π * max r.x r.y / (agmLoop (accuracy / (2 * π * max r.x r.y)) fuel 0 (agmState (max r.x r.y) (min r.x r.y))).1.a
          * (agmLoop (accuracy / (2 * π * max r.x r.y)) fuel 0 (agmState (max r.x r.y) (min r.x r.y))).1.sum,
        (agmLoop (accuracy / (2 * π * max r.x r.y)) fuel 0 (agmState (max r.x r.y) (min r.x r.y))).2) := by
  unfold agmEllipticPerimeterFuel
  simp only [scalar_norm, LawfulRealAngle.pi_eq]
  rcases le_total r.y r.x with h | h
  · rw [max_eq_left h, min_eq_right h]
    simp only [h, decide_true, if_true]
    norm_num
  · rcases eq_or_lt_of_le h with he | hlt
    · rw [max_eq_left he.ge, min_eq_right he.ge]
      simp only [he.ge, decide_true, if_true]
      norm_num
    · rw [max_eq_right h, min_eq_left h]
      simp only [not_le.2 hlt, decide_false, Bool.false_eq_true, if_false]
      norm_num

/-- the radii the perimeter works with are non-negative (they are square roots) -/
theorem ellipse_radii_nonneg (e : Ellipse ℝ) : 0 ≤ e.radii.x ∧ 0 ≤ e.radii.y := by
  simp only [Ellipse.radii, Affine.svd, LawfulReal.sqrt_eq]
  exact ⟨Real.sqrt_nonneg _, Real.sqrt_nonneg _⟩

end Kurbo
