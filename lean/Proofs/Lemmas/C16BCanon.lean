import Proofs.Lemmas.C16BLoop
/-! C16B: the canonical rendering `c16b_render` (letter, then every number followed by one space; the spelling of each number is
    given by a function `spell : K → NumParts`) is well formed (`c16b_canon_ok`) and denotes the command list it was made from
    (`c16b_canon_value`). -/
set_option linter.unusedSectionVars false
namespace Kurbo

/-- the bytes `optComma` would eat: white space and the comma -/
abbrev c16b_isSep (c : UInt8) : Bool := isWs c || c == 44

theorem c16b_letter_not_sep {α : Type} (c : C16Cmd α) : c16b_isSep c.letter = false := by
  cases c <;> simp only [C16Cmd.letter] <;> split <;> decide

theorem c16b_numStart_not_sep {b : UInt8} (h : isNumStart b = true) : c16b_isSep b = false := by
  have h1 := isNumStart_not_ws h
  unfold c16b_isSep
  rw [h1]
  simp only [Bool.false_or, beq_eq_false_iff_ne, ne_eq]
  rintro rfl
  revert h; decide

/-- a number spelled `p` followed by a single space -/
def c16b_canonChunk (p : NumParts) : NumChunk := { ws := [], p := p, sep := [32] }

theorem c16b_canonChunk_ok {p : NumParts} {r : List UInt8} (hv : p.Valid) (hr : StopsAt c16b_isSep r) :
    (c16b_canonChunk p).Ok r where
  ws := by intro c hc; simp [c16b_canonChunk] at hc
  valid := hv
  stops := NumParts.stops_cons ⟨by decide, fun _ => ⟨by decide, by decide, fun _ => by decide⟩⟩
  sep := SepOk.ws (ws := [32]) (by decide) hr

theorem c16b_canonChunk_stops {p : NumParts} (hv : p.Valid) (r : List UInt8) :
    StopsAt c16b_isSep ((c16b_canonChunk p).bytes ++ r) := by
  obtain ⟨b, br, hb, hnum⟩ := hv.bytes_head
  have : (c16b_canonChunk p).bytes ++ r = b :: (br ++ [32] ++ r) := by simp [c16b_canonChunk, NumChunk.bytes, hb]
  rw [this]
  exact StopsAt.cons (c16b_numStart_not_sep hnum)

theorem c16b_canonPt_ok {px py : NumParts} {r : List UInt8} (hx : px.Valid) (hy : py.Valid) (hr : StopsAt c16b_isSep r) :
    (c16b_ptc ⟨c16b_canonChunk px, c16b_canonChunk py⟩).Ok r :=
  ⟨c16b_canonChunk_ok hx (c16b_canonChunk_stops hy r), c16b_canonChunk_ok hy hr⟩

theorem c16b_canonPt_stops {px py : NumParts} (hx : px.Valid) (r : List UInt8) :
    StopsAt c16b_isSep ((c16b_ptc ⟨c16b_canonChunk px, c16b_canonChunk py⟩).bytes ++ r) := by
  have := c16b_canonChunk_stops hx ((c16b_canonChunk py).bytes ++ r)
  simpa [c16b_ptc, PtChunk.bytes] using this

section
variable {K : Type} [Scalar K]

/-- canonical spelling of one command: no white space before the letter, the letter, every number spelled by `spell` and followed
    by one space -/
def c16b_canon (spell : K → NumParts) (c : C16Cmd K) : C16Spelled :=
  { ws := [], explicit := true, cmd := c.map (fun x => c16b_canonChunk (spell x)) }

/-- **the canonical rendering** of a command list, e.g. `M1 2 L3 4 C1 2 3 4 5 6 Z` -/
def c16b_render (spell : K → NumParts) (cs : List (C16Cmd K)) : List UInt8 := c16b_spell (cs.map (c16b_canon spell)) []

theorem c16b_canon_argsOk (spell : K → NumParts) (c : C16Cmd K) (r : List UInt8)
    (hv : ∀ x ∈ c.scalars, (spell x).Valid) (hr : StopsAt c16b_isSep r) :
    (c.map (fun x => c16b_canonChunk (spell x))).ArgsOk r := by
  cases c with
  | moveTo rel p => exact c16b_canonPt_ok (hv _ (by simp [C16Cmd.scalars])) (hv _ (by simp [C16Cmd.scalars])) hr
  | lineTo rel p => exact c16b_canonPt_ok (hv _ (by simp [C16Cmd.scalars])) (hv _ (by simp [C16Cmd.scalars])) hr
  | smoothQuadTo rel p => exact c16b_canonPt_ok (hv _ (by simp [C16Cmd.scalars])) (hv _ (by simp [C16Cmd.scalars])) hr
  | horiz rel x => exact c16b_canonChunk_ok (hv _ (by simp [C16Cmd.scalars])) hr
  | vert rel y => exact c16b_canonChunk_ok (hv _ (by simp [C16Cmd.scalars])) hr
  | quadTo rel p1 p2 =>
    exact ⟨c16b_canonPt_ok (hv _ (by simp [C16Cmd.scalars])) (hv _ (by simp [C16Cmd.scalars]))
        (c16b_canonPt_stops (hv _ (by simp [C16Cmd.scalars])) r),
      c16b_canonPt_ok (hv _ (by simp [C16Cmd.scalars])) (hv _ (by simp [C16Cmd.scalars])) hr⟩
  | smoothCurveTo rel p1 p2 =>
    exact ⟨c16b_canonPt_ok (hv _ (by simp [C16Cmd.scalars])) (hv _ (by simp [C16Cmd.scalars]))
        (c16b_canonPt_stops (hv _ (by simp [C16Cmd.scalars])) r),
      c16b_canonPt_ok (hv _ (by simp [C16Cmd.scalars])) (hv _ (by simp [C16Cmd.scalars])) hr⟩
  | curveTo rel p1 p2 p3 =>
    exact ⟨c16b_canonPt_ok (hv _ (by simp [C16Cmd.scalars])) (hv _ (by simp [C16Cmd.scalars]))
        (c16b_canonPt_stops (hv _ (by simp [C16Cmd.scalars])) _),
      c16b_canonPt_ok (hv _ (by simp [C16Cmd.scalars])) (hv _ (by simp [C16Cmd.scalars]))
        (c16b_canonPt_stops (hv _ (by simp [C16Cmd.scalars])) r),
      c16b_canonPt_ok (hv _ (by simp [C16Cmd.scalars])) (hv _ (by simp [C16Cmd.scalars])) hr⟩
  | close rel => trivial

/-- what follows a canonical command is the end or a letter -/
theorem c16b_render_stops (spell : K → NumParts) (cs : List (C16Cmd K)) : StopsAt c16b_isSep (c16b_render spell cs) := by
  cases cs with
  | nil => exact StopsAt.nil _
  | cons c cs =>
    have : c16b_render spell (c :: cs) =
        c.letter :: ((c.map (fun x => c16b_canonChunk (spell x))).argBytes ++ c16b_render spell cs) := by
      simp [c16b_render, c16b_spell, c16b_canon, C16Spelled.bytes]
    rw [this]
    exact StopsAt.cons (c16b_letter_not_sep c)

/-- the canonical spelling is well formed as soon as `spell` produces valid number tokens for the numbers that occur -/
theorem c16b_canon_ok (spell : K → NumParts) (cs : List (C16Cmd K)) (lc : UInt8)
    (hv : ∀ c ∈ cs, ∀ x ∈ c.scalars, (spell x).Valid) : c16b_SpelledOk lc (cs.map (c16b_canon spell)) [] := by
  induction cs generalizing lc with
  | nil => intro b hb; cases hb
  | cons c cs ih =>
    refine ⟨⟨?_, ?_, ?_⟩, ih _ (fun c' hc' => hv c' (List.mem_cons_of_mem _ hc'))⟩
    · intro b hb; simp [c16b_canon] at hb
    · exact c16b_canon_argsOk spell c _ (hv c List.mem_cons_self) (c16b_render_stops spell cs)
    · intro h; simp [c16b_canon] at h

end

/-! ### the value of the canonical spelling -/
section
variable {α β γ : Type}

theorem C16Cmd.map_map (f : α → β) (g : β → γ) (c : C16Cmd α) : (c.map f).map g = c.map (g ∘ f) := by
  cases c <;> rfl

theorem c16b_mapPt_id_of (f : α → α) (p : Point α) (hx : f p.x = p.x) (hy : f p.y = p.y) : c16b_mapPt f p = p := by
  cases p; simp_all [c16b_mapPt]

theorem C16Cmd.map_id_of (f : α → α) (c : C16Cmd α) (h : ∀ x ∈ c.scalars, f x = x) : c.map f = c := by
  cases c <;> simp only [C16Cmd.map] <;> simp only [C16Cmd.scalars, List.mem_cons, List.not_mem_nil, or_false, forall_eq_or_imp,
    forall_eq] at h
  all_goals first
    | rfl
    | (congr 1 <;> first | exact h | (apply c16b_mapPt_id_of <;> simp only [h]))
end

section
variable {K : Type} [Scalar K]

theorem c16b_canon_value (spell : K → NumParts) (c : C16Cmd K)
    (h : ∀ x ∈ c.scalars, tokValue (parseTok (spell x).bytes) = x) : (c16b_canon spell c).value = c := by
  unfold C16Spelled.value c16b_canon
  simp only [C16Cmd.map_map]
  exact C16Cmd.map_id_of _ c h

theorem c16b_canon_values (spell : K → NumParts) (cs : List (C16Cmd K))
    (h : ∀ c ∈ cs, ∀ x ∈ c.scalars, tokValue (parseTok (spell x).bytes) = x) :
    (cs.map (c16b_canon spell)).map C16Spelled.value = cs := by
  induction cs with
  | nil => rfl
  | cons c cs ih =>
    simp only [List.map_cons]
    rw [c16b_canon_value spell c (h c List.mem_cons_self), ih (fun c' hc' => h c' (List.mem_cons_of_mem _ hc'))]

theorem c16b_canon_startsWithMove (spell : K → NumParts) (cs : List (C16Cmd K)) (h : c16b_startsWithMove cs) :
    c16b_startsWithMove ((cs.map (c16b_canon spell)).map (·.cmd)) := by
  cases cs with
  | nil => trivial
  | cons c cs => simpa [c16b_startsWithMove, c16b_canon] using h

end
end Kurbo
