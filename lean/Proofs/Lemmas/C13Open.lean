import Proofs.Lemmas.C13Sim
/-! C13, end to end on one open polyline sub-path: `dash` = `dashCollect ∘ dashImpl` followed through
    `NeedInput → ToStash (first dash, withheld) → Working → FromStash (playback)`. -/
set_option linter.unusedSectionVars false
namespace Kurbo
open DashSpec
variable {K : Type} [Field K] [LinearOrder K] [IsStrictOrderedRing K] [FloorRing K] [Scalar K] [LawfulScalar K]

/-! ### `collect()` seen from the middle of a `next` call -/

/-- `collect()` continued from inside a `next` call that has `fuel` rounds left -/
def collectFrom (n fuel : Nat) (s : DashIt K) (acc : List (PathEl K)) : DashRes K :=
  match s.next fuel with
  | .some el s' => dashCollect n s' (el :: acc)
  | .none _ => .ok acc.reverse
  | .panic => .panic
  | .outOfFuel => .outOfFuel

theorem dashCollect_succ (n : Nat) (s : DashIt K) (acc : List (PathEl K)) :
    dashCollect (n + 1) s acc = collectFrom n 100000 s acc := by
  unfold collectFrom
  rw [dashCollect]
  rfl

theorem collectFrom_zero (n : Nat) (s : DashIt K) (acc out : List (PathEl K)) :
    collectFrom n 0 s acc ≠ .ok out := by
  unfold collectFrom DashIt.next
  intro h; cases h

theorem dashCollect_zero (s : DashIt K) (acc out : List (PathEl K)) : dashCollect 0 s acc ≠ .ok out := by
  unfold dashCollect
  intro h; cases h

theorem collect_working_some (n fuel : Nat) (s s1 : DashIt K) (el : PathEl K) (acc : List (PathEl K))
    (hw : s.state = .Working) (e : s.step = some (some el, s1)) :
    collectFrom n (fuel + 1) s acc = dashCollect n s1 (el :: acc) := by
  unfold collectFrom
  rw [next_working_some s s1 el fuel hw e]

theorem collect_working_none (n fuel : Nat) (s s1 : DashIt K) (acc : List (PathEl K))
    (hw : s.state = .Working) (e : s.step = some (none, s1)) :
    collectFrom n (fuel + 1) s acc = collectFrom n fuel s1 acc := by
  unfold collectFrom
  rw [next_working_none s s1 fuel hw e]

theorem collect_stash_some (n fuel : Nat) (s s1 : DashIt K) (el : PathEl K) (acc : List (PathEl K))
    (hw : s.state = .ToStash) (e : s.step = some (some el, s1)) :
    collectFrom n (fuel + 1) s acc = collectFrom n fuel { s1 with stash := s1.stash.push el } acc := by
  unfold collectFrom
  conv_lhs => unfold DashIt.next
  rw [hw]; simp only [e]

theorem collect_stash_none (n fuel : Nat) (s s1 : DashIt K) (acc : List (PathEl K))
    (hw : s.state = .ToStash) (e : s.step = some (none, s1)) :
    collectFrom n (fuel + 1) s acc = collectFrom n fuel s1 acc := by
  unfold collectFrom
  conv_lhs => unfold DashIt.next
  rw [hw]; simp only [e]

/-- a chain of `Working` steps is passed through by `collect()`: its elements are collected in order -/
theorem collect_steps {s s' : DashIt K} {outs : List (PathEl K)} (h : Steps s outs s') :
    ∀ (n fuel : Nat) (acc out : List (PathEl K)), collectFrom n fuel s acc = .ok out →
      ∃ n' fuel', collectFrom n' fuel' s' (outs.reverse ++ acc) = .ok out := by
  induction h with
  | refl s => intro n fuel acc out h; exact ⟨n, fuel, by simpa using h⟩
  | @cons s s1 s2 r outs hw e _ ih =>
    intro n fuel acc out h
    cases fuel with
    | zero => exact absurd h (collectFrom_zero _ _ _ _)
    | succ fuel =>
      cases r with
      | none =>
        rw [collect_working_none _ _ _ _ _ hw e] at h
        simpa using ih n fuel acc out h
      | some el =>
        rw [collect_working_some _ _ _ _ _ _ hw e] at h
        cases n with
        | zero => exact absurd h (dashCollect_zero _ _ _)
        | succ n =>
          rw [dashCollect_succ] at h
          obtain ⟨n', fuel', h'⟩ := ih n 100000 (el :: acc) out h
          exact ⟨n', fuel', by simpa using h'⟩

theorem next_fromStash_some (s : DashIt K) (el : PathEl K) (fuel : Nat) (hs : s.state = .FromStash)
    (e : s.stash[s.stash_ix]? = some el) : s.next (fuel + 1) = .some el { s with stash_ix := s.stash_ix + 1 } := by
  unfold DashIt.next
  rw [hs]; simp only [e]

theorem next_fromStash_done (s : DashIt K) (fuel : Nat) (hs : s.state = .FromStash)
    (e : s.stash[s.stash_ix]? = none) (hd : s.input_done = true) :
    s.next (fuel + 1) = .none { s with stash := #[], stash_ix := 0 } := by
  unfold DashIt.next
  rw [hs]; simp only [e, hd, if_true]

/-- playback: in state `FromStash` at the end of the input, `collect()` appends the rest of the stash and stops -/
theorem collect_replay : ∀ (k : Nat) (s : DashIt K) (n fuel : Nat) (acc out : List (PathEl K)),
    s.stash.size - s.stash_ix = k → s.state = .FromStash → s.input_done = true →
    collectFrom n fuel s acc = .ok out → out = acc.reverse ++ s.stash.toList.drop s.stash_ix := by
  intro k
  induction k with
  | zero =>
    intro s n fuel acc out hk hs hd h
    cases fuel with
    | zero => exact absurd h (collectFrom_zero _ _ _ _)
    | succ fuel =>
      have hnone : s.stash[s.stash_ix]? = none := by
        rw [Array.getElem?_eq_none_iff]; omega
      unfold collectFrom at h
      rw [next_fromStash_done s fuel hs hnone hd] at h
      cases h
      rw [List.drop_eq_nil_of_le (by simp; omega), List.append_nil]
  | succ k ih =>
    intro s n fuel acc out hk hs hd h
    cases fuel with
    | zero => exact absurd h (collectFrom_zero _ _ _ _)
    | succ fuel =>
      have hlt : s.stash_ix < s.stash.size := by omega
      have hsome : s.stash[s.stash_ix]? = some s.stash[s.stash_ix] := Array.getElem?_eq_getElem hlt
      unfold collectFrom at h
      rw [next_fromStash_some s _ fuel hs hsome] at h
      simp only at h
      cases n with
      | zero => exact absurd h (dashCollect_zero _ _ _)
      | succ n =>
        rw [dashCollect_succ] at h
        have := ih { s with stash_ix := s.stash_ix + 1 } n 100000 _ out (by show s.stash.size - (s.stash_ix + 1) = k; omega)
          hs hd h
        rw [this]
        show (s.stash[s.stash_ix] :: acc).reverse ++ s.stash.toList.drop (s.stash_ix + 1) = _
        rw [List.reverse_cons, List.append_assoc]
        congr 1
        rw [List.singleton_append]
        have hl : s.stash_ix < s.stash.toList.length := by simpa using hlt
        rw [List.drop_eq_getElem_cons hl]
        simp

/-! ### the `Working` part of an open sub-path, up to the end of the input -/

/-- `get_input` at the end of the input -/
theorem get_input_nil (s : DashIt K) (hcp : s.closepath_pending = false) (hin : s.inner = []) :
    s.get_input = { s with inner := [], input_done := true, state := .FromStash } := by
  unfold DashIt.get_input
  rw [if_neg (by rw [hcp]; exact Bool.false_ne_true), hin]
  rfl

variable [LawfulHypotSq K]

/-- From a `Working` state inside a segment, with only `LineTo`s left in the input: what `collect()` returns is what
    was collected so far, then strokes `E` of total length = the specification's on-length, then the stash. -/
theorem working_collect (pts : List (Point K)) (l : Line K) (L : K) (f : Nat) (s : DashIt K) (o : K) (ph' : Ph K)
    (hpat : ∀ i, 0 ≤ cyc s.dashes i) (hon : OnLine s l L) (hcp : s.closepath_pending = false)
    (hin : s.inner = pts.map .LineTo)
    (hw : walkList s.dashes.size (cyc s.dashes) f s.ph (s.seg_remaining :: polyLens s.last_pt pts) = some (o, ph'))
    (n fuel : Nat) (acc out : List (PathEl K)) (hc : collectFrom n fuel s acc = .ok out) :
    ∃ E, out = acc.reverse ++ E ++ s.stash.toList.drop s.stash_ix ∧
      ∀ pen, (s.is_active = true → pen = l.eval s.t) → drawnLen pen E = o := by
  obtain ⟨outs, s₁, l₁, L₁, h1, hon1, hd1, hn1, hph, hin1, haux, hdraw⟩ :=
    polyline_sim pts [] l L f s o ph' hpat hon hcp (by rw [hin, List.append_nil]) hw
  obtain ⟨n', fuel', hc'⟩ := collect_steps h1 n fuel acc out hc
  cases fuel' with
  | zero => exact absurd hc' (collectFrom_zero _ _ _ _)
  | succ fuel' =>
    have hst : (s₁.state == .ToStash && s₁.stash.isEmpty) = false := by rw [hon1.working]; rfl
    have hstep := step_line_end_working s₁ l₁ hon1.seg hst (by rw [hon1.working]; decide) hn1
    rw [get_input_nil ({ s₁ with dash_remaining := s₁.dash_remaining - s₁.seg_remaining } : DashIt K)
      (haux.1.trans hcp) hin1] at hstep
    obtain ⟨s₃, hs3⟩ : ∃ s₃ : DashIt K, s₃ = { ({ s₁ with dash_remaining := s₁.dash_remaining - s₁.seg_remaining }
      : DashIt K) with inner := [], input_done := true, state := .FromStash } := ⟨_, rfl⟩
    rw [← hs3] at hstep
    have e1 : s₃.state = .FromStash := by subst hs3; rfl
    have e2 : s₃.input_done = true := by subst hs3; rfl
    have e3 : s₃.stash = s.stash := by subst hs3; exact haux.2.1
    have e4 : s₃.stash_ix = s.stash_ix := by subst hs3; exact haux.2.2.1
    cases hact : s₁.is_active
    · -- the last entry is off: nothing is emitted, playback follows
      rw [hact] at hstep
      simp only [Bool.false_eq_true, if_false] at hstep
      rw [collect_working_none _ _ _ _ _ hon1.working hstep] at hc'
      have := collect_replay _ s₃ n' fuel' _ out rfl e1 e2 hc'
      refine ⟨outs, ?_, ?_⟩
      · rw [this, e3, e4]; simp
      · intro pen hpen
        have := (hdraw pen hpen).1
        rwa [finEl, hact, if_neg Bool.false_ne_true, List.append_nil] at this
    · rw [hact] at hstep
      simp only [if_true] at hstep
      rw [collect_working_some _ _ _ _ _ _ hon1.working hstep] at hc'
      cases n' with
      | zero => exact absurd hc' (dashCollect_zero _ _ _)
      | succ n' =>
        rw [dashCollect_succ] at hc'
        have := collect_replay _ s₃ n' 100000 _ out rfl e1 e2 hc'
        refine ⟨outs ++ [.LineTo l₁.p1], ?_, ?_⟩
        · rw [this, e3, e4]; simp
        · intro pen hpen
          have := (hdraw pen hpen).1
          rwa [finEl, hact, if_pos rfl] at this

/-! ### the first dash of the sub-path (state `ToStash`) -/

/-- the iterator is in state `ToStash` inside the straight segment `l` of length `L`: the first dash of the sub-path is on
    and is being written to the (non-empty) stash -/
structure OnLineS (s : DashIt K) (l : Line K) (L : K) : Prop where
  seg : s.current_seg = .Line l
  len : l.arclen 0 = L
  t_lt : s.t < 1
  rem : s.seg_remaining = (1 - s.t) * L
  stashing : s.state = .ToStash
  active : s.is_active = true
  nonempty : s.stash.isEmpty = false
  ix : s.dash_ix < s.dashes.size
  dash_nonneg : 0 ≤ s.dash_remaining
  last : s.last_pt = l.p1

/-- forgetting the routing: the same state in `Working` mode -/
theorem OnLineS.toWorking {s : DashIt K} {l : Line K} {L : K} (h : OnLineS s l L) :
    OnLine ({ s with state := .Working } : DashIt K) l L :=
  ⟨h.seg, h.len, h.t_lt, h.rem, rfl, h.ix, h.dash_nonneg, h.last⟩

theorem OnLineS.dist_end {s : DashIt K} {l : Line K} {L : K} (h : OnLineS s l L) :
    (l.p1 - l.eval s.t).hypot = s.seg_remaining := by
  rw [← (line_eval_zero_one l).2, line_eval_dist l _ _ 0 h.t_lt.le, h.len, ← h.rem]

/-- the first dash ends inside the current segment: one switching `step` (stashed), then the `Working` part -/
theorem first_dash_switch (pts : List (Point K)) (l : Line K) (L : K) (f : Nat) (s : DashIt K) (o : K) (ph' : Ph K)
    (hpat : ∀ i, 0 ≤ cyc s.dashes i) (hon : OnLineS s l L) (hcp : s.closepath_pending = false) (hix : s.stash_ix = 0)
    (hin : s.inner = pts.map .LineTo)
    (hw : walkList s.dashes.size (cyc s.dashes) f s.ph (s.seg_remaining :: polyLens s.last_pt pts) = some (o, ph'))
    (hlt : s.dash_remaining < s.seg_remaining)
    (n fuel : Nat) (acc out : List (PathEl K)) (hc : collectFrom n fuel s acc = .ok out) :
    ∃ N E, out = acc.reverse ++ E ++ (s.stash.toList ++ N) ∧ ∀ pen, drawnLen (l.eval s.t) N + drawnLen pen E = o := by
  cases fuel with
  | zero => exact absurd hc (collectFrom_zero _ _ _ _)
  | succ fuel =>
    have honW := hon.toWorking
    have hLpos : 0 < L := honW.len_pos hlt
    have hst : (s.state == .ToStash && s.stash.isEmpty) = false := by rw [hon.stashing, hon.nonempty]; rfl
    have hstep := step_line_switch s l L hon.seg hon.len hLpos hon.t_lt hst hon.ix hlt
    have hel : (if s.is_active = true then PathEl.LineTo (l.eval (s.t + s.dash_remaining / L))
        else PathEl.MoveTo (l.eval (s.t + s.dash_remaining / L))) = PathEl.LineTo (l.eval (s.t + s.dash_remaining / L)) := by
      rw [hon.active]; rfl
    rw [hel] at hstep
    obtain ⟨s2, hs2⟩ : ∃ s2 : DashIt K, s2 = { s.switched L with
      stash := s.stash.push (.LineTo (l.eval (s.t + s.dash_remaining / L))) } := ⟨_, rfl⟩
    have hcoll : collectFrom n (fuel + 1) s acc = collectFrom n fuel s2 acc := by
      rw [hs2]; exact collect_stash_some n fuel s (s.switched L) _ acc hon.stashing hstep
    rw [hcoll] at hc
    have h2 := honW.switched hpat hlt
    have hon2 : OnLine s2 l L := by
      subst hs2
      refine ⟨h2.seg, h2.len, h2.t_lt, h2.rem, ?_, h2.ix, h2.dash_nonneg, h2.last⟩
      show (if s.is_active then DashState.Working else s.state) = .Working
      rw [hon.active]; rfl
    have hact2 : s2.is_active = false := by subst hs2; show (!s.is_active) = false; rw [hon.active]; rfl
    have hd2 : s2.dashes = s.dashes := by subst hs2; rfl
    have hph2 : s2.ph = s.ph.next s.dashes.size (cyc s.dashes) := by
      subst hs2; simp only [DashIt.switched, DashIt.ph, Ph.next, cyc, Nat.mod_mod]
    have hsr2 : s2.seg_remaining = s.seg_remaining - s.ph.rem := by subst hs2; rfl
    have hl2 : s2.last_pt = s.last_pt := by subst hs2; rfl
    have hst2 : s2.stash = s.stash.push (.LineTo (l.eval (s.t + s.dash_remaining / L))) := by subst hs2; rfl
    have hix2 : s2.stash_ix = 0 := by subst hs2; exact hix
    -- the specification's walk, one switch further
    unfold walkList at hw
    cases hc1 : walk s.dashes.size (cyc s.dashes) f s.ph s.seg_remaining with
    | none => rw [hc1] at hw; simp at hw
    | some r1 =>
      obtain ⟨o1, ph1⟩ := r1
      rw [hc1] at hw
      simp only at hw
      cases hc2 : walkList s.dashes.size (cyc s.dashes) f ph1 (polyLens s.last_pt pts) with
      | none => rw [hc2] at hw; simp at hw
      | some r2 =>
        obtain ⟨o2, ph2⟩ := r2
        rw [hc2] at hw
        simp only [Option.some.injEq, Prod.mk.injEq] at hw
        obtain ⟨ho, hp⟩ := hw
        subst hp
        cases f with
        | zero => simp [walk] at hc1
        | succ f =>
          unfold walk at hc1
          have hlt' : s.ph.rem < s.seg_remaining := hlt
          rw [if_pos hlt'] at hc1
          cases hc3 : walk s.dashes.size (cyc s.dashes) f (s.ph.next s.dashes.size (cyc s.dashes))
              (s.seg_remaining - s.ph.rem) with
          | none => rw [hc3] at hc1; simp at hc1
          | some r3 =>
            obtain ⟨o1', ph1'⟩ := r3
            rw [hc3] at hc1
            simp only [Option.some.injEq, Prod.mk.injEq] at hc1
            obtain ⟨ho1, hp1⟩ := hc1
            subst hp1
            have hm := walk_mono s.dashes.size (cyc s.dashes) f 1 _ _ _ hc3
            have hw2 : walkList s2.dashes.size (cyc s2.dashes) (f + 1) s2.ph
                (s2.seg_remaining :: polyLens s2.last_pt pts) = some (o1' + o2, ph2) := by
              rw [hd2, hph2, hsr2, hl2]
              unfold walkList
              simp only [hm, hc2]
            obtain ⟨E, hE1, hE2⟩ := working_collect pts l L (f + 1) s2 (o1' + o2) ph2 (by rw [hd2]; exact hpat) hon2
              (by subst hs2; exact hcp) (by subst hs2; exact hin) hw2 n fuel acc out hc
            refine ⟨[.LineTo (l.eval (s.t + s.dash_remaining / L))], E, ?_, ?_⟩
            · rw [hE1, hst2, hix2]; simp
            · intro pen
              have htle : s.t ≤ s.t + s.dash_remaining / L := by
                have := div_nonneg hon.dash_nonneg hLpos.le
                linarith
              rw [hE2 pen (fun h => by rw [hact2] at h; cases h)]
              simp only [drawnLen, add_zero]
              rw [line_eval_dist l _ _ 0 htle, hon.len, ← ho, ← ho1]
              simp only [onPart, DashIt.ph, hon.active, if_true]
              field_simp
              ring

/-- From a `ToStash` state (first dash under way, stash not yet played: `stash_ix = 0`) with only `LineTo`s left:
    `collect()` returns what was collected so far, then the strokes `E` emitted after the first dash, then the old stash
    followed by the rest `N` of the first dash; `N` measured from the current point and `E` (from anywhere: it starts with a
    `MoveTo` or is empty) have total length = the specification's on-length. -/
theorem first_dash_collect : ∀ (pts : List (Point K)) (l : Line K) (L : K) (f : Nat) (s : DashIt K) (o : K) (ph' : Ph K),
    (∀ i, 0 ≤ cyc s.dashes i) → OnLineS s l L → s.closepath_pending = false → s.stash_ix = 0 →
    s.inner = pts.map .LineTo →
    walkList s.dashes.size (cyc s.dashes) f s.ph (s.seg_remaining :: polyLens s.last_pt pts) = some (o, ph') →
    ∀ (n fuel : Nat) (acc out : List (PathEl K)), collectFrom n fuel s acc = .ok out →
    ∃ N E, out = acc.reverse ++ E ++ (s.stash.toList ++ N) ∧ ∀ pen, drawnLen (l.eval s.t) N + drawnLen pen E = o := by
  intro pts
  induction pts with
  | nil =>
    intro l L f s o ph' hpat hon hcp hix hin hw n fuel acc out hc
    by_cases hlt : s.dash_remaining < s.seg_remaining
    · exact first_dash_switch [] l L f s o ph' hpat hon hcp hix hin hw hlt n fuel acc out hc
    · cases fuel with
      | zero => exact absurd hc (collectFrom_zero _ _ _ _)
      | succ fuel =>
        have hst : (s.state == .ToStash && s.stash.isEmpty) = false := by rw [hon.stashing, hon.nonempty]; rfl
        have hstep := step_line_end_stash s l hon.seg hst hon.stashing hon.active hlt
        rw [get_input_nil ({ s with stash := s.stash.push (.LineTo l.p1), dash_remaining := s.dash_remaining - s.seg_remaining } : DashIt K) hcp hin] at hstep
        rw [collect_stash_none n fuel s _ acc hon.stashing hstep] at hc
        have hr := collect_replay _ _ n fuel acc out rfl rfl rfl hc
        -- the specification: the rest of the segment is inside the entry
        simp only [polyLens] at hw
        unfold walkList at hw
        cases f with
        | zero => simp [walk] at hw
        | succ f =>
          unfold walk at hw
          have hlt' : ¬ s.ph.rem < s.seg_remaining := hlt
          rw [if_neg hlt'] at hw
          simp only [walkList, Option.some.injEq, Prod.mk.injEq, add_zero] at hw
          obtain ⟨ho, -⟩ := hw
          refine ⟨[.LineTo l.p1], [], ?_, ?_⟩
          · rw [hr]
            show acc.reverse ++ List.drop s.stash_ix (s.stash.push (PathEl.LineTo l.p1)).toList = _
            rw [hix]; simp
          · intro pen
            simp only [drawnLen, add_zero]
            rw [hon.dist_end, ← ho]
            simp only [onPart, DashIt.ph, hon.active, if_true]
  | cons q pts ih =>
    intro l L f s o ph' hpat hon hcp hix hin hw n fuel acc out hc
    by_cases hlt : s.dash_remaining < s.seg_remaining
    · exact first_dash_switch (q :: pts) l L f s o ph' hpat hon hcp hix hin hw hlt n fuel acc out hc
    · cases fuel with
      | zero => exact absurd hc (collectFrom_zero _ _ _ _)
      | succ fuel =>
        have hst : (s.state == .ToStash && s.stash.isEmpty) = false := by rw [hon.stashing, hon.nonempty]; rfl
        have hstep := step_line_end_stash s l hon.seg hst hon.stashing hon.active hlt
        rw [get_input_lineTo ({ s with stash := s.stash.push (.LineTo l.p1), dash_remaining := s.dash_remaining - s.seg_remaining } : DashIt K) q (pts.map .LineTo) hcp hin] at hstep
        rw [collect_stash_none n fuel s _ acc hon.stashing hstep] at hc
        obtain ⟨s4, hs4⟩ : ∃ s4 : DashIt K, s4 = { (({ s with dash_remaining := s.dash_remaining - s.seg_remaining }
          : DashIt K).loadLine q (pts.map .LineTo)) with stash := s.stash.push (.LineTo l.p1) } := ⟨_, rfl⟩
        have hc4 : collectFrom n fuel s4 acc = .ok out := by rw [hs4]; exact hc
        have hon4 : OnLineS s4 ⟨s.last_pt, q⟩ ((Line.mk s.last_pt q).arclen 0) := by
          subst hs4
          exact ⟨rfl, rfl, zero_lt_one, by simp [DashIt.loadLine], hon.stashing, hon.active, by simp, hon.ix,
            sub_nonneg.mpr (not_lt.mp hlt), rfl⟩
        -- the specification: the rest of the segment is inside the entry, then the further segments
        rw [polyLens] at hw
        unfold walkList at hw
        cases f with
        | zero => simp [walk] at hw
        | succ f =>
          unfold walk at hw
          have hlt' : ¬ s.ph.rem < s.seg_remaining := hlt
          rw [if_neg hlt'] at hw
          simp only at hw
          cases hc2 : walkList s.dashes.size (cyc s.dashes) (f + 1) { s.ph with rem := s.ph.rem - s.seg_remaining }
              ((Line.mk s.last_pt q).arclen 0 :: polyLens q pts) with
          | none => rw [hc2] at hw; simp at hw
          | some r2 =>
            obtain ⟨o2, ph2⟩ := r2
            rw [hc2] at hw
            simp only [Option.some.injEq, Prod.mk.injEq] at hw
            obtain ⟨ho, hp⟩ := hw
            subst hp
            obtain ⟨N', E, hE1, hE2⟩ := ih ⟨s.last_pt, q⟩ _ (f + 1) s4 o2 ph2 (by subst hs4; exact hpat) hon4
              (by subst hs4; exact hcp) (by subst hs4; exact hix) (by subst hs4; rfl) (by subst hs4; exact hc2)
              n fuel acc out hc4
            refine ⟨.LineTo l.p1 :: N', E, ?_, ?_⟩
            · rw [hE1]; subst hs4; simp
            · intro pen
              have := hE2 pen
              have e0 : (Line.mk s.last_pt q).eval s4.t = l.p1 := by
                subst hs4
                show (Line.mk s.last_pt q).eval 0 = l.p1
                rw [(line_eval_zero_one _).1, hon.last]
              rw [e0] at this
              simp only [drawnLen]
              rw [hon.dist_end, ← ho, ← this]
              simp only [onPart, DashIt.ph, hon.active, if_true]
              ring

/-! ### start-up and the whole sub-path -/

section
omit [LawfulHypotSq K]
/-- `get_input` on `MoveTo p0, LineTo q` with an empty stash: the phase is reset and the first segment loaded -/
theorem get_input_moveTo_lineTo (s : DashIt K) (p0 q : Point K) (tl : List (PathEl K))
    (hcp : s.closepath_pending = false) (hst : s.stash.isEmpty = true) (hin : s.inner = .MoveTo p0 :: .LineTo q :: tl) :
    s.get_input = (({ s with inner := .LineTo q :: tl, start_pt := p0, last_pt := p0 } : DashIt K).reset_phase).loadLine q tl := by
  unfold DashIt.get_input DashIt.loadLine
  rw [if_neg (by rw [hcp]; exact Bool.false_ne_true), hin]
  simp only [getInputList, hst, Bool.not_true, Bool.false_eq_true, if_false, Line.arclen, scalar_norm, Nat.cast_zero]

/-- the state in which the first `step` of the sub-path `M p0 L q …` is taken -/
def DashIt.startState (it : DashIt K) (p0 q : Point K) (tl : List (PathEl K)) : DashIt K :=
  let s1 : DashIt K := { it with inner := .LineTo q :: tl, start_pt := p0, last_pt := p0 }
  let s2 : DashIt K := s1.reset_phase.loadLine q tl
  { s2 with state := .ToStash }

/-- `next` in state `NeedInput` when `get_input` loads a segment: go on in state `ToStash` -/
theorem next_needInput (s : DashIt K) (fuel : Nat) (hs : s.state = .NeedInput) (hd : s.input_done = false)
    (hd' : s.get_input.input_done = false) (hs' : s.get_input.state = .NeedInput) :
    s.next (fuel + 1) = ({ s.get_input with state := .ToStash } : DashIt K).next fuel := by
  conv_lhs => unfold DashIt.next
  rw [hs]
  simp only [hd, hd', hs', Bool.false_eq_true, if_false]
  rfl
end

/-- **One open polyline sub-path, end to end.**  `out` = everything `dash` returns for `M p0 L q L …`; `it` = the iterator
    `dash_impl` builds.  If the pattern is on at the offset, `out = E ++ MoveTo p0 :: N`: the first dash `MoveTo p0 :: N`
    comes last; otherwise `out` is the strokes in path order.  In both cases the total stroke length is the on-length `o`
    that the specification computes from the start position `it.ph` over the segment lengths. -/
theorem dash_open_total (p0 q : Point K) (pts : List (Point K)) (off : K) (dashes : Array K) (budget : Nat) (it : DashIt K)
    (hit : dashImpl (.MoveTo p0 :: .LineTo q :: pts.map .LineTo) off dashes = some it)
    (hn : 0 < dashes.size) (h0 : 0 ≤ it.dash_remaining) (hpat : ∀ i, 0 ≤ cyc dashes i)
    (f : Nat) (o : K) (ph' : Ph K)
    (hw : walkList dashes.size (cyc dashes) f it.ph (polyLens p0 (q :: pts)) = some (o, ph'))
    (out : List (PathEl K)) (hout : dash (.MoveTo p0 :: .LineTo q :: pts.map .LineTo) off dashes budget = .ok out) :
    (it.is_active = true → ∃ N E, out = E ++ .MoveTo p0 :: N ∧ ∀ pen, drawnLen p0 N + drawnLen pen E = o) ∧
    (it.is_active = false → ∀ pen, drawnLen pen out = o) := by
  obtain ⟨it', a1, a2, a3, a4, a5, a6, a7, a8, a9, a10⟩ :=
    dashImpl_ok (.MoveTo p0 :: .LineTo q :: pts.map .LineTo) off dashes 100000 hn
  rw [hit] at a1
  cases a1
  unfold dash at hout
  rw [hit] at hout
  simp only at hout
  cases budget with
  | zero => exact absurd hout (dashCollect_zero _ _ _)
  | succ n =>
    rw [dashCollect_succ] at hout
    -- `NeedInput`: fetch `MoveTo p0, LineTo q`
    have hgi := get_input_moveTo_lineTo it p0 q (pts.map .LineTo) a10 (by rw [a7]; rfl) a4
    have hnext := next_needInput it 99999 a6 a9 (by rw [hgi]; exact a9) (by rw [hgi]; exact a6)
    unfold collectFrom at hout
    rw [hnext, hgi] at hout
    obtain ⟨sA, hsA⟩ : ∃ sA : DashIt K, sA = it.startState p0 q (pts.map .LineTo) := ⟨_, rfl⟩
    have hcA : collectFrom n 99999 sA [] = .ok out := by rw [hsA]; exact hout
    have hst0 : (sA.state == .ToStash && sA.stash.isEmpty) = true := by subst hsA; show (true && it.stash.isEmpty) = true; rw [a7]; rfl
    have hstepA := step_stash_start sA hst0
    have hactA : sA.is_active = it.is_active := by subst hsA; exact a5.2.2.symm
    have hphA : sA.ph = it.ph := by
      subst hsA
      show (⟨it.init_dash_ix, it.init_dash_remaining, it.init_is_active⟩ : Ph K) = ⟨it.dash_ix, it.dash_remaining, it.is_active⟩
      rw [a5.1, a5.2.1, a5.2.2]
    have hdA : sA.dashes = dashes := by subst hsA; exact a3
    have hwA : walkList sA.dashes.size (cyc sA.dashes) f sA.ph (sA.seg_remaining :: polyLens sA.last_pt pts)
        = some (o, ph') := by
      rw [hdA, hphA]; subst hsA; exact hw
    have hixA : sA.dash_ix < sA.dashes.size := by subst hsA; exact a2.2
    have hnnA : 0 ≤ sA.dash_remaining := by subst hsA; show 0 ≤ it.init_dash_remaining; rw [← a5.2.1]; exact h0
    have hcurA : sA.current_seg.start = p0 := by subst hsA; rfl
    constructor
    · -- the pattern is on at the offset: the opening `MoveTo` is stashed, then the first dash
      intro hact
      rw [if_pos (by rw [hactA, hact]), hcurA] at hstepA
      rw [collect_stash_some n 99998 sA sA _ [] (by subst hsA; rfl) hstepA] at hcA
      obtain ⟨sB, hsB⟩ : ∃ sB : DashIt K, sB = { sA with stash := sA.stash.push (.MoveTo p0) } := ⟨_, rfl⟩
      rw [← hsB] at hcA
      have honB : OnLineS sB ⟨p0, q⟩ ((Line.mk p0 q).arclen 0) := by
        subst hsB
        refine ⟨by subst hsA; rfl, rfl, by subst hsA; exact zero_lt_one,
          by subst hsA; simp [DashIt.startState, DashIt.loadLine, DashIt.reset_phase],
          by subst hsA; rfl, by rw [← hact, ← hactA], by simp, hixA, hnnA, by subst hsA; rfl⟩
      obtain ⟨N, E, hE1, hE2⟩ := first_dash_collect pts ⟨p0, q⟩ _ f sB o ph' (by subst hsB; rw [hdA]; exact hpat) honB
        (by subst hsB; subst hsA; exact a10) (by subst hsB; subst hsA; exact a8) (by subst hsB; subst hsA; rfl)
        (by subst hsB; exact hwA) n 99998 [] out hcA
      refine ⟨N, E, ?_, ?_⟩
      · rw [hE1]; subst hsB; subst hsA
        show [].reverse ++ E ++ ((it.stash.push (PathEl.MoveTo p0)).toList ++ N) = _
        rw [a7]; simp
      · intro pen
        have := hE2 pen
        have e0 : (Line.mk p0 q).eval sB.t = p0 := by
          subst hsB; subst hsA
          show (Line.mk p0 q).eval 0 = p0
          rw [(line_eval_zero_one _).1]
        rwa [e0] at this
    · -- the pattern is off at the offset: straight to `Working`
      intro hact
      rw [if_neg (by rw [hactA, hact]; exact Bool.false_ne_true)] at hstepA
      rw [collect_stash_none n 99998 sA _ [] (by subst hsA; rfl) hstepA] at hcA
      obtain ⟨sB, hsB⟩ : ∃ sB : DashIt K, sB = { sA with state := .Working } := ⟨_, rfl⟩
      rw [← hsB] at hcA
      have honB : OnLine sB ⟨p0, q⟩ ((Line.mk p0 q).arclen 0) := by
        subst hsB
        refine ⟨by subst hsA; rfl, rfl, by subst hsA; exact zero_lt_one,
          by subst hsA; simp [DashIt.startState, DashIt.loadLine, DashIt.reset_phase],
          rfl, hixA, hnnA, by subst hsA; rfl⟩
      obtain ⟨E, hE1, hE2⟩ := working_collect pts ⟨p0, q⟩ _ f sB o ph' (by subst hsB; rw [hdA]; exact hpat) honB
        (by subst hsB; subst hsA; exact a10) (by subst hsB; subst hsA; rfl) (by subst hsB; exact hwA) n 99998 [] out hcA
      intro pen
      have hoE : out = E := by
        rw [hE1]; subst hsB; subst hsA
        show [].reverse ++ E ++ List.drop it.stash_ix it.stash.toList = E
        rw [a7]; simp
      rw [hoE]
      exact hE2 pen (fun h => by subst hsB; rw [hactA, hact] at h; cases h)

/-! ### a segment that lies inside the first dash: `dash` does return (witness that `dash … = .ok out` is satisfiable for
    every lawful scalar) -/

section
omit [LawfulHypotSq K]
/-- playback, forward: with `k` elements left in the stash, `k` units of budget suffice -/
theorem collect_replay_fwd : ∀ (k : Nat) (s : DashIt K) (n fuel : Nat) (acc : List (PathEl K)),
    s.stash.size - s.stash_ix = k → s.state = .FromStash → s.input_done = true → k ≤ n →
    collectFrom n (fuel + 1) s acc = .ok (acc.reverse ++ s.stash.toList.drop s.stash_ix) := by
  intro k
  induction k with
  | zero =>
    intro s n fuel acc hk hs hd _
    have hnone : s.stash[s.stash_ix]? = none := by
      rw [Array.getElem?_eq_none_iff]; omega
    unfold collectFrom
    rw [next_fromStash_done s fuel hs hnone hd]
    simp only
    rw [List.drop_eq_nil_of_le (by simp; omega), List.append_nil]
  | succ k ih =>
    intro s n fuel acc hk hs hd hn
    have hlt : s.stash_ix < s.stash.size := by omega
    have hsome : s.stash[s.stash_ix]? = some s.stash[s.stash_ix] := Array.getElem?_eq_getElem hlt
    unfold collectFrom
    rw [next_fromStash_some s _ fuel hs hsome]
    simp only
    cases n with
    | zero => omega
    | succ n =>
      rw [dashCollect_succ, ih { s with stash_ix := s.stash_ix + 1 } n 99999 _
        (by show s.stash.size - (s.stash_ix + 1) = k; omega) hs hd (by omega)]
      show DashRes.ok ((s.stash[s.stash_ix] :: acc).reverse ++ s.stash.toList.drop (s.stash_ix + 1)) = _
      rw [List.reverse_cons, List.append_assoc]
      congr 2
      rw [List.singleton_append]
      have hl : s.stash_ix < s.stash.toList.length := by simpa using hlt
      rw [List.drop_eq_getElem_cons hl]
      simp

/-- A single segment that is not longer than what is left of the first dash is returned whole. -/
theorem dash_short_segment (p0 q : Point K) (off : K) (dashes : Array K) (budget : Nat) (it : DashIt K)
    (hit : dashImpl [.MoveTo p0, .LineTo q] off dashes = some it) (hn : 0 < dashes.size)
    (hact : it.is_active = true) (hge : ¬ it.dash_remaining < (Line.mk p0 q).arclen 0) (hb : 3 ≤ budget) :
    dash [.MoveTo p0, .LineTo q] off dashes budget = .ok [.MoveTo p0, .LineTo q] := by
  obtain ⟨it', a1, a2, a3, a4, a5, a6, a7, a8, a9, a10⟩ := dashImpl_ok [.MoveTo p0, .LineTo q] off dashes 100000 hn
  rw [hit] at a1
  cases a1
  unfold dash
  rw [hit]
  simp only
  obtain ⟨n, rfl⟩ : ∃ n, budget = n + 1 := ⟨budget - 1, by omega⟩
  rw [dashCollect_succ]
  have hgi := get_input_moveTo_lineTo it p0 q [] a10 (by rw [a7]; rfl) a4
  have hnext := next_needInput it 99999 a6 a9 (by rw [hgi]; exact a9) (by rw [hgi]; exact a6)
  have hc0 : collectFrom n 100000 it [] = collectFrom n 99999 (it.startState p0 q []) [] := by
    unfold collectFrom
    rw [hnext, hgi]
    rfl
  rw [hc0]
  obtain ⟨sA, hsA⟩ : ∃ sA : DashIt K, sA = it.startState p0 q [] := ⟨_, rfl⟩
  rw [← hsA]
  have hst0 : (sA.state == .ToStash && sA.stash.isEmpty) = true := by
    subst hsA; show (true && it.stash.isEmpty) = true; rw [a7]; rfl
  have hstepA := step_stash_start sA hst0
  have hactA : sA.is_active = true := by subst hsA; exact a5.2.2.symm.trans hact
  rw [if_pos hactA] at hstepA
  have hcurA : sA.current_seg.start = p0 := by subst hsA; rfl
  rw [hcurA] at hstepA
  rw [collect_stash_some n 99998 sA sA _ [] (by subst hsA; rfl) hstepA]
  obtain ⟨sB, hsB⟩ : ∃ sB : DashIt K, sB = { sA with stash := sA.stash.push (.MoveTo p0) } := ⟨_, rfl⟩
  rw [← hsB]
  have hstB : (sB.state == .ToStash && sB.stash.isEmpty) = false := by subst hsB; simp
  have hnlt : ¬ sB.dash_remaining < sB.seg_remaining := by
    subst hsB; subst hsA
    show ¬ it.init_dash_remaining < (Line.mk p0 q).arclen 0
    rw [← a5.2.1]; exact hge
  have hactB : sB.is_active = true := by subst hsB; exact hactA
  have hstepB := step_line_end_stash sB ⟨p0, q⟩ (by subst hsB; subst hsA; rfl) hstB (by subst hsB; subst hsA; rfl) hactB hnlt
  rw [get_input_nil ({ sB with stash := sB.stash.push (.LineTo (Line.mk p0 q).p1), dash_remaining := sB.dash_remaining - sB.seg_remaining } : DashIt K)
    (by subst hsB; subst hsA; exact a10) (by subst hsB; subst hsA; rfl)] at hstepB
  rw [collect_stash_none n 99997 sB _ [] (by subst hsB; subst hsA; rfl) hstepB]
  rw [collect_replay_fwd 2 _ n 99996 [] (by subst hsB; subst hsA; show (((it.stash.push _).push _).size - it.stash_ix) = 2; rw [a7, a8]; rfl)
    rfl rfl (by omega)]
  subst hsB; subst hsA
  show DashRes.ok ([].reverse ++ List.drop it.stash_ix ((it.stash.push (PathEl.MoveTo p0)).push (PathEl.LineTo q)).toList) = _
  rw [a7, a8]
  rfl
end

end Kurbo
