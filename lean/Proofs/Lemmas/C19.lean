import Kurbo.FloatFuncs
/-! C19 helper: a small formal vocabulary of the mathematical functions behind the float back ends.
    `stdSpec`  – what each `f64` method of the standard library that kurbo calls denotes (function, argument types after `self`, result);
    `libmSpec` – what each `libm` function name denotes (C99 names, argument order `f(self, args…)`).
    Identifiers are ASCII code lists (see Kurbo/FloatFuncs.lean). Written out by a script from the two tables in its source. -/
namespace Kurbo.FF

inductive MathFn where
  | Abs | Acos | Asin | Atan | Atan2 | Cbrt | Ceil | Copysign | Cos | Exp | Floor | Fma | Fmod | Hypot | Ln | Log10 | Log2 | Pow | Rint | Round | Sin | SinCos | Sqrt | Tan | Trunc
  deriving DecidableEq, Repr

/-- std method name ↦ (function, types of the arguments after `self`, result type) -/
def stdSpec : List (List Nat × MathFn × List (List Nat) × List Nat) := [
  ([97, 98, 115] /- abs -/, .Abs, [], [83, 101, 108, 102]),
  ([97, 99, 111, 115] /- acos -/, .Acos, [], [83, 101, 108, 102]),
  ([97, 116, 97, 110, 50] /- atan2 -/, .Atan2, [[83, 101, 108, 102]], [83, 101, 108, 102]),
  ([99, 98, 114, 116] /- cbrt -/, .Cbrt, [], [83, 101, 108, 102]),
  ([99, 101, 105, 108] /- ceil -/, .Ceil, [], [83, 101, 108, 102]),
  ([99, 111, 115] /- cos -/, .Cos, [], [83, 101, 108, 102]),
  ([99, 111, 112, 121, 115, 105, 103, 110] /- copysign -/, .Copysign, [[83, 101, 108, 102]], [83, 101, 108, 102]),
  ([102, 108, 111, 111, 114] /- floor -/, .Floor, [], [83, 101, 108, 102]),
  ([104, 121, 112, 111, 116] /- hypot -/, .Hypot, [[83, 101, 108, 102]], [83, 101, 108, 102]),
  ([108, 110] /- ln -/, .Ln, [], [83, 101, 108, 102]),
  ([108, 111, 103, 50] /- log2 -/, .Log2, [], [83, 101, 108, 102]),
  ([109, 117, 108, 95, 97, 100, 100] /- mul_add -/, .Fma, [[83, 101, 108, 102], [83, 101, 108, 102]], [83, 101, 108, 102]),
  ([112, 111, 119, 105] /- powi -/, .Pow, [[105, 51, 50]], [83, 101, 108, 102]),
  ([112, 111, 119, 102] /- powf -/, .Pow, [[83, 101, 108, 102]], [83, 101, 108, 102]),
  ([114, 111, 117, 110, 100] /- round -/, .Round, [], [83, 101, 108, 102]),
  ([115, 105, 110] /- sin -/, .Sin, [], [83, 101, 108, 102]),
  ([115, 105, 110, 95, 99, 111, 115] /- sin_cos -/, .SinCos, [], [40, 83, 101, 108, 102, 44, 32, 83, 101, 108, 102, 41]),
  ([115, 113, 114, 116] /- sqrt -/, .Sqrt, [], [83, 101, 108, 102]),
  ([116, 97, 110] /- tan -/, .Tan, [], [83, 101, 108, 102]),
  ([116, 114, 117, 110, 99] /- trunc -/, .Trunc, [], [83, 101, 108, 102])
]

/-- libm (C99) function name ↦ function; the f32 variant carries the suffix `f` -/
def libmSpec : List (List Nat × MathFn) := [
  ([102, 97, 98, 115] /- fabs -/, .Abs),
  ([97, 99, 111, 115] /- acos -/, .Acos),
  ([97, 116, 97, 110, 50] /- atan2 -/, .Atan2),
  ([99, 98, 114, 116] /- cbrt -/, .Cbrt),
  ([99, 101, 105, 108] /- ceil -/, .Ceil),
  ([99, 111, 115] /- cos -/, .Cos),
  ([99, 111, 112, 121, 115, 105, 103, 110] /- copysign -/, .Copysign),
  ([102, 108, 111, 111, 114] /- floor -/, .Floor),
  ([104, 121, 112, 111, 116] /- hypot -/, .Hypot),
  ([108, 111, 103] /- log -/, .Ln),
  ([108, 111, 103, 50] /- log2 -/, .Log2),
  ([102, 109, 97] /- fma -/, .Fma),
  ([112, 111, 119] /- pow -/, .Pow),
  ([114, 111, 117, 110, 100] /- round -/, .Round),
  ([115, 105, 110] /- sin -/, .Sin),
  ([115, 105, 110, 99, 111, 115] /- sincos -/, .SinCos),
  ([115, 113, 114, 116] /- sqrt -/, .Sqrt),
  ([116, 97, 110] /- tan -/, .Tan),
  ([116, 114, 117, 110, 99] /- trunc -/, .Trunc),
  ([101, 120, 112] /- exp -/, .Exp),
  ([108, 111, 103, 49, 48] /- log10 -/, .Log10),
  ([97, 115, 105, 110] /- asin -/, .Asin),
  ([97, 116, 97, 110] /- atan -/, .Atan),
  ([102, 109, 111, 100] /- fmod -/, .Fmod),
  ([114, 105, 110, 116] /- rint -/, .Rint)
]

/-- the float methods kurbo's sources call that are not available in `core` (counted from `kurbo/src/*.rs`) -/
def usedMethods : List (List Nat) := [
  [97, 98, 115] /- abs -/,
  [112, 111, 119, 105] /- powi -/,
  [115, 113, 114, 116] /- sqrt -/,
  [104, 121, 112, 111, 116] /- hypot -/,
  [99, 101, 105, 108] /- ceil -/,
  [102, 108, 111, 111, 114] /- floor -/,
  [114, 111, 117, 110, 100] /- round -/,
  [116, 114, 117, 110, 99] /- trunc -/,
  [99, 111, 112, 121, 115, 105, 103, 110] /- copysign -/,
  [115, 105, 110, 95, 99, 111, 115] /- sin_cos -/,
  [97, 116, 97, 110, 50] /- atan2 -/,
  [109, 117, 108, 95, 97, 100, 100] /- mul_add -/,
  [112, 111, 119, 102] /- powf -/,
  [108, 110] /- ln -/,
  [99, 98, 114, 116] /- cbrt -/,
  [116, 97, 110] /- tan -/,
  [108, 111, 103, 50] /- log2 -/,
  [99, 111, 115] /- cos -/,
  [97, 99, 111, 115] /- acos -/
]

def lookup {α : Type} (k : List Nat) : List (List Nat × α) → Option α
  | [] => none
  | (k', v) :: r => if k = k' then some v else lookup k r

/-- one row of `define_float_funcs!` is right: the libm name denotes the same function as the std method, with the same argument
    list (the macro passes `self` and then the declared arguments in order), the f32 name is the f64 name + `f` -/
def rowOk (r : FloatFuncRow) : Bool :=
  match lookup r.method stdSpec, lookup r.libm64 libmSpec with
  | some (f, argTys, ret), some g =>
    f == g && r.args.map (·.2) == argTys && r.ret == ret && r.libm32 == r.libm64 ++ [102]
  | _, _ => false

/-- every method the crate needs is a row, and no method is defined twice -/
def coverageOk (rows : List FloatFuncRow) : Bool :=
  usedMethods.all (fun m => rows.any (·.method == m)) && (rows.map (·.method)).Nodup

/-- the hand-written `signum` of the no_std trait: NaN ↦ NaN, otherwise `1.0.copysign(self)` (so `signum(±0.0) = ±1.0`, as in std) -/
def signumBodyPinned : List Nat := [105, 102, 32, 115, 101, 108, 102, 46, 105, 115, 95, 110, 97, 110, 40, 41, 32, 123, 32, 102, 54, 52, 58, 58, 78, 65, 78, 32, 125, 32, 101, 108, 115, 101, 32, 123, 32, 49, 46, 48, 95, 102, 54, 52, 46, 99, 111, 112, 121, 115, 105, 103, 110, 40, 115, 101, 108, 102, 41, 32, 125]

end Kurbo.FF
