import Kurbo.Path
/-! Helper definitions and lemmas for C07 (element / segment views of a path), part 1:
    lawful point equality, the `Segments` iterator as a total function on initialised states,
    the fold law, `get_seg`, `from_path_segments`.  Core Lean only (no Mathlib). -/
set_option linter.unusedSectionVars false
namespace Kurbo
variable {K : Type} [Scalar K]

/-- induction from the back of a list (core-only replacement for Mathlib's `List.reverseRecOn`) -/
theorem snoc_induction {α : Type} {motive : List α → Prop} (nil : motive [])
    (snoc : ∀ l a, motive l → motive (l ++ [a])) : ∀ l, motive l := by
  intro l
  have h : ∀ r : List α, motive r.reverse := by
    intro r
    induction r with
    | nil => exact nil
    | cons a r ih => rw [List.reverse_cons]; exact snoc _ _ ih
  have := h l.reverse
  rwa [List.reverse_reverse] at this

/-- Point equality (`Point.peq`, i.e. Rust `PartialEq` on two `f64` pairs) decides equality.
    True for every lawful scalar (`ℚ`, `ℝ`, …; instance in `Proofs/Lemmas/C07Inst.lean`).
    NOT true for `Float`: `NaN ≠ NaN` (and `0.0 == -0.0`), so `Float` is not an instance. -/
class LawfulPeq (K : Type) [Scalar K] : Prop where
  peq_iff : ∀ a b : Point K, a.peq b = true ↔ a = b

section peq
variable [LawfulPeq K]
theorem peq_iff (a b : Point K) : a.peq b = true ↔ a = b := LawfulPeq.peq_iff a b
@[simp] theorem peq_self (a : Point K) : a.peq a = true := (peq_iff a a).2 rfl
theorem peq_false_iff (a b : Point K) : a.peq b = false ↔ a ≠ b := by
  constructor
  · intro h e; rw [(peq_iff a b).2 e] at h; cases h
  · intro h
    cases hp : a.peq b
    · rfl
    · exact absurd ((peq_iff a b).1 hp) h
theorem peq_comm (a b : Point K) : a.peq b = b.peq a := by
  cases h : b.peq a
  · rw [peq_false_iff] at *; exact fun e => h e.symm
  · rw [peq_iff] at *; exact h.symm
end peq

/-! ### the iterator on an initialised state is total -/

/-- `segStep` on an initialised state `(start, last)`: new state and emitted segment -/
def stepT (sl : Point K × Point K) : PathEl K → (Point K × Point K) × Option (PathSeg K)
  | .MoveTo p => ((p, p), none)
  | .LineTo p => ((sl.1, p), some (.Line ⟨sl.2, p⟩))
  | .QuadTo p1 p2 => ((sl.1, p2), some (.Quad ⟨sl.2, p1, p2⟩))
  | .CurveTo p1 p2 p3 => ((sl.1, p3), some (.Cubic ⟨sl.2, p1, p2, p3⟩))
  | .ClosePath =>
    if !(sl.2.peq sl.1) then ((sl.1, sl.1), some (.Line ⟨sl.2, sl.1⟩)) else ((sl.1, sl.2), none)

theorem segStep_some (sl : Point K × Point K) (el : PathEl K) :
    segStep (some sl) el = some (some (stepT sl el).1, (stepT sl el).2) := by
  obtain ⟨s, l⟩ := sl
  cases el <;> simp only [segStep, stepT]
  split <;> rfl

/-- the first element initialises the state with its end point -/
theorem segStep_none (el : PathEl K) :
    segStep none el = match el.end_point with
      | some p => segStep (some (p, p)) el
      | none => none := by
  cases el <;> rfl

/-- list of `(index, segment)` emitted when an emission is optional -/
def outIdx (ix : Nat) : Option (PathSeg K) → List (Nat × PathSeg K)
  | some s => [(ix, s)]
  | none => []

/-- total version of `segsIdxFrom` for an initialised state -/
def segsIdxT (sl : Point K × Point K) (ix : Nat) : List (PathEl K) → List (Nat × PathSeg K)
  | [] => []
  | el :: rest => outIdx ix (stepT sl el).2 ++ segsIdxT (stepT sl el).1 (ix + 1) rest

/-- state of an initialised iterator after consuming a list of elements -/
def stAfterT (sl : Point K × Point K) : List (PathEl K) → Point K × Point K
  | [] => sl
  | el :: rest => stAfterT (stepT sl el).1 rest

theorem segsIdxFrom_some (sl : Point K × Point K) (ix : Nat) (els : List (PathEl K)) :
    segsIdxFrom (some sl) ix els = some (segsIdxT sl ix els) := by
  induction els generalizing sl ix with
  | nil => rfl
  | cons el rest ih =>
    simp only [segsIdxFrom, segStep_some, ih, segsIdxT]
    cases (stepT sl el).2 <;> rfl

/-- the state of the `Segments` iterator after consuming a list of elements (`none` = it panicked) -/
def segStateAfter (st : SegSt K) : List (PathEl K) → Option (SegSt K)
  | [] => some st
  | el :: rest =>
    match segStep st el with
    | none => none
    | some (st', _) => segStateAfter st' rest

theorem segStateAfter_some (sl : Point K × Point K) (els : List (PathEl K)) :
    segStateAfter (some sl) els = some (some (stAfterT sl els)) := by
  induction els generalizing sl with
  | nil => rfl
  | cons el rest ih => simp only [segStateAfter, segStep_some, ih, stAfterT]

theorem stAfterT_append (sl : Point K × Point K) (a b : List (PathEl K)) :
    stAfterT sl (a ++ b) = stAfterT (stAfterT sl a) b := by
  induction a generalizing sl with
  | nil => rfl
  | cons el rest ih => simp only [List.cons_append, stAfterT, ih]

theorem segsIdxT_append (sl : Point K × Point K) (ix : Nat) (a b : List (PathEl K)) :
    segsIdxT sl ix (a ++ b) = segsIdxT sl ix a ++ segsIdxT (stAfterT sl a) (ix + a.length) b := by
  induction a generalizing sl ix with
  | nil => rfl
  | cons el rest ih =>
    simp only [List.cons_append, segsIdxT, ih, stAfterT, List.length_cons, List.append_assoc]
    congr 3; omega

/-- fold law for the model functions themselves -/
theorem segsIdxFrom_append' (st : SegSt K) (ix : Nat) (a b : List (PathEl K)) :
    segsIdxFrom st ix (a ++ b) =
      match segStateAfter st a, segsIdxFrom st ix a with
      | some st', some la => (segsIdxFrom st' (ix + a.length) b).map (la ++ ·)
      | _, _ => none := by
  induction a generalizing st ix with
  | nil => simp [segStateAfter, segsIdxFrom]
  | cons el rest ih =>
    simp only [List.cons_append, segsIdxFrom, segStateAfter]
    cases h : segStep st el with
    | none => rfl
    | some r =>
      obtain ⟨st', out⟩ := r
      simp only [ih, List.length_cons]
      have e : ix + 1 + rest.length = ix + (rest.length + 1) := by omega
      rw [e]
      cases segStateAfter st' rest <;> cases segsIdxFrom st' (ix + 1) rest <;> try rfl
      dsimp only
      cases segsIdxFrom _ (ix + (rest.length + 1)) b <;> cases out <;> rfl

/-! ### indices carried by `segsIdxT` -/

theorem segsIdxT_index (sl : Point K × Point K) (ix : Nat) (els : List (PathEl K)) :
    ∀ q ∈ segsIdxT sl ix els, ix ≤ q.1 ∧ q.1 < ix + els.length := by
  induction els generalizing sl ix with
  | nil => intro q hq; cases hq
  | cons el rest ih =>
    intro q hq
    simp only [segsIdxT, List.mem_append] at hq
    rcases hq with hq | hq
    · cases h : (stepT sl el).2 with
      | none => rw [h] at hq; cases hq
      | some s =>
        rw [h] at hq; simp only [outIdx, List.mem_singleton] at hq
        subst hq; simp only [List.length_cons]; omega
    · have := ih _ _ q hq
      simp only [List.length_cons]; omega

theorem find_segsIdxT_none (sl : Point K × Point K) (ix j : Nat) (els : List (PathEl K))
    (h : j < ix ∨ ix + els.length ≤ j) :
    (segsIdxT sl ix els).find? (fun q => q.1 == j) = none := by
  rw [List.find?_eq_none]
  intro q hq
  have := segsIdxT_index sl ix els q hq
  simp only [beq_iff_eq]; omega

/-- the segment with index `a.length` in the output is the one emitted while consuming the element at that position -/
theorem find_segsIdxT_mid (sl : Point K × Point K) (a : List (PathEl K)) (el : PathEl K) (post : List (PathEl K)) :
    ((segsIdxT sl 0 (a ++ el :: post)).find? (fun q => q.1 == a.length)).map (·.2)
      = (stepT (stAfterT sl a) el).2 := by
  rw [segsIdxT_append, List.find?_append, find_segsIdxT_none _ _ _ _ (Or.inr (by omega))]
  simp only [Option.none_or, segsIdxT, List.find?_append, Nat.zero_add]
  rw [find_segsIdxT_none _ _ _ _ (Or.inl (by omega))]
  cases (stepT (stAfterT sl a) el).2 <;> simp [outIdx]

/-! ### the iterator state in closed form (invariant behind `get_seg`) -/

/-- the closure used by `subpathStart` -/
def mvPt : PathEl K → Option (Point K)
  | .MoveTo s => some s
  | _ => none

theorem subpathStart_eq (els : List (PathEl K)) (ix : Nat) :
    subpathStart els ix = (els.take ix).reverse.findSome? mvPt := rfl

theorem stepT_start (sl : Point K × Point K) (el : PathEl K) :
    (stepT sl el).1.1 = (mvPt el).getD sl.1 := by
  cases el <;> simp only [stepT, mvPt, Option.getD]
  split <;> rfl

/-- after any element the current point is its end point; after `ClosePath` it is the sub-path start -/
theorem stepT_last [LawfulPeq K] (sl : Point K × Point K) (el : PathEl K) :
    (stepT sl el).1.2 = (el.end_point).getD sl.1 := by
  cases el <;> simp only [stepT, PathEl.end_point, Option.getD]
  split
  · rfl
  · rename_i h
    simp only [Bool.not_eq_true', Bool.not_eq_false] at h
    exact (peq_iff _ _).1 h

theorem stAfterT_snoc (sl : Point K × Point K) (a : List (PathEl K)) (el : PathEl K) :
    stAfterT sl (a ++ [el]) = (stepT (stAfterT sl a) el).1 := by
  rw [stAfterT_append]; rfl

/-- the start component of the state is the point of the most recent `MoveTo` -/
theorem stAfterT_start (sl : Point K × Point K) (a : List (PathEl K)) :
    (stAfterT sl a).1 = (a.reverse.findSome? mvPt).getD sl.1 := by
  induction a using snoc_induction with
  | nil => rfl
  | snoc a el ih =>
    rw [stAfterT_snoc, stepT_start, List.reverse_append, List.reverse_singleton, List.singleton_append,
      List.findSome?_cons, ih]
    cases mvPt el <;> rfl

theorem findSome_mvPt_isSome (p : Point K) (t : List (PathEl K)) :
    ((PathEl.MoveTo p :: t).reverse.findSome? mvPt).isSome = true := by
  rw [List.reverse_cons, List.findSome?_append]
  cases t.reverse.findSome? mvPt <;> simp [mvPt]

/-! ### `get_seg` -/

theorem getSeg_mid [LawfulPeq K] (sl0 : Point K × Point K) (Q : List (PathEl K)) (prev el : PathEl K)
    (post : List (PathEl K)) (hM : ((Q ++ [prev]).reverse.findSome? mvPt).isSome = true) :
    getSeg (Q ++ prev :: el :: post) (Q.length + 1) = (stepT (stAfterT sl0 (Q ++ [prev])) el).2 := by
  have h1 : (Q ++ prev :: el :: post)[Q.length + 1 - 1]? = some prev := by simp
  have h2 : (Q ++ prev :: el :: post)[Q.length + 1]? = some el := by
    rw [List.getElem?_append_right (by omega)]; simp
  have htake : (Q ++ prev :: el :: post).take (Q.length + 1) = Q ++ [prev] := by
    have : Q ++ prev :: el :: post = (Q ++ [prev]) ++ el :: post := by simp
    rw [this, List.take_left' (by simp)]
  have hS : subpathStart (Q ++ prev :: el :: post) (Q.length + 1) = some (stAfterT sl0 (Q ++ [prev])).1 := by
    rw [subpathStart_eq, htake, stAfterT_start]
    cases h : (Q ++ [prev]).reverse.findSome? mvPt with
    | none => rw [h] at hM; cases hM
    | some v => rfl
  have hlen : ¬ ((Q.length + 1 == 0 || decide (Q.length + 1 ≥ (Q ++ prev :: el :: post).length)) = true) := by
    simp
  have hl := stepT_last (stAfterT sl0 Q) prev
  have hs := stepT_start (stAfterT sl0 Q) prev
  rw [← stAfterT_snoc] at hl hs
  generalize stAfterT sl0 (Q ++ [prev]) = sl at *
  unfold getSeg
  rw [if_neg hlen, h1]
  simp only [h2, hS]
  obtain ⟨S, L⟩ := sl
  simp only at hl hs ⊢
  cases prev <;> simp only [PathEl.end_point, mvPt, Option.getD] at hl hs <;> subst hl <;>
    (try subst hs) <;> cases el <;> simp only [stepT] <;> (try rw [peq_comm]) <;> split <;> rfl

theorem segsIdx_moveTo (sl0 : Point K × Point K) (p0 : Point K) (tl : List (PathEl K)) :
    segsIdx (.MoveTo p0 :: tl) = some (segsIdxT sl0 0 (.MoveTo p0 :: tl)) := by
  show segsIdxFrom none 0 _ = _
  have h : segStep none (PathEl.MoveTo p0) = some (some (p0, p0), none) := rfl
  simp only [segsIdxFrom, h, segsIdxFrom_some, segsIdxT, stepT, outIdx, List.nil_append]

theorem getSeg_spec_aux [LawfulPeq K] (p0 : Point K) (tl : List (PathEl K)) (ix : Nat) :
    getSeg (.MoveTo p0 :: tl) ix
      = (((segsIdx (.MoveTo p0 :: tl)).getD []).find? (fun q => q.1 == ix)).map (·.2) := by
  rw [segsIdx_moveTo (p0, p0), Option.getD_some]
  cases ix with
  | zero =>
    have : getSeg (.MoveTo p0 :: tl) 0 = none := by simp [getSeg]
    rw [this]
    simp only [segsIdxT, stepT, outIdx, List.nil_append]
    rw [find_segsIdxT_none _ _ _ _ (Or.inl (by omega))]; rfl
  | succ n =>
    by_cases hn : n + 1 < (PathEl.MoveTo p0 :: tl).length
    · have hn' : n < (PathEl.MoveTo p0 :: tl).length := by omega
      have hdec : PathEl.MoveTo p0 :: tl
          = (PathEl.MoveTo p0 :: tl).take n ++ (PathEl.MoveTo p0 :: tl)[n] :: (PathEl.MoveTo p0 :: tl)[n+1]
              :: (PathEl.MoveTo p0 :: tl).drop (n + 2) := by
        rw [List.getElem_cons_drop hn, List.getElem_cons_drop hn', List.take_append_drop]
      have hQ : ((PathEl.MoveTo p0 :: tl).take n).length = n := by
        rw [List.length_take]; omega
      have hM : ((((PathEl.MoveTo p0 :: tl).take n) ++ [(PathEl.MoveTo p0 :: tl)[n]]).reverse.findSome? mvPt).isSome
          = true := by
        rw [List.take_append_getElem hn', List.take_succ_cons]
        exact findSome_mvPt_isSome _ _
      generalize (PathEl.MoveTo p0 :: tl).take n = Q at hdec hQ hM
      generalize (PathEl.MoveTo p0 :: tl)[n] = prev at hdec hM
      generalize (PathEl.MoveTo p0 :: tl)[n+1] = el at hdec
      generalize (PathEl.MoveTo p0 :: tl).drop (n + 2) = post at hdec
      rw [hdec, ← hQ, getSeg_mid (p0, p0) Q prev el post hM]
      have e : Q ++ prev :: el :: post = (Q ++ [prev]) ++ el :: post := by simp
      have e2 : Q.length + 1 = (Q ++ [prev]).length := by simp
      rw [e, e2, find_segsIdxT_mid]
    · have : getSeg (.MoveTo p0 :: tl) (n + 1) = none := by
        unfold getSeg
        rw [if_pos]
        simp only [Bool.or_eq_true, decide_eq_true_eq]
        right; omega
      rw [this, find_segsIdxT_none _ _ _ _ (Or.inr (by omega))]; rfl

/-! ### segments without indices -/

/-- segments emitted by an initialised iterator (total) -/
def segsT (sl : Point K × Point K) : List (PathEl K) → List (PathSeg K)
  | [] => []
  | el :: rest => (stepT sl el).2.toList ++ segsT (stepT sl el).1 rest

theorem map_snd_segsIdxT (sl : Point K × Point K) (ix : Nat) (els : List (PathEl K)) :
    (segsIdxT sl ix els).map (·.2) = segsT sl els := by
  induction els generalizing sl ix with
  | nil => rfl
  | cons el rest ih =>
    simp only [segsIdxT, segsT, List.map_append, ih]
    cases (stepT sl el).2 <;> rfl

theorem segsT_append (sl : Point K × Point K) (a b : List (PathEl K)) :
    segsT sl (a ++ b) = segsT sl a ++ segsT (stAfterT sl a) b := by
  induction a generalizing sl with
  | nil => rfl
  | cons el rest ih => simp only [List.cons_append, segsT, ih, stAfterT, List.append_assoc]

theorem segs_moveTo (p0 : Point K) (tl : List (PathEl K)) :
    segs (.MoveTo p0 :: tl) = some (segsT (p0, p0) tl) := by
  unfold segs
  rw [segsIdx_moveTo (p0, p0), Option.map_some, map_snd_segsIdxT]
  rfl

/-- from an initialised state the iterator never panics -/
theorem segsIdxFrom_some_ne_none (sl : Point K × Point K) (ix : Nat) (els : List (PathEl K)) :
    segsIdxFrom (some sl) ix els ≠ none := by
  rw [segsIdxFrom_some]; exact Option.some_ne_none _

/-! ### `from_path_segments` -/

theorem stepT_as_path_el (S : Point K) (s : PathSeg K) :
    stepT (S, s.start) s.as_path_el = ((S, s.end), some s) := by
  cases s <;> rfl

theorem segsT_fromPathSegmentsAux [LawfulPeq K] (S L : Point K) (ss : List (PathSeg K)) :
    segsT (S, L) (fromPathSegmentsAux (some L) ss) = ss := by
  induction ss generalizing S L with
  | nil => rfl
  | cons s rest ih =>
    unfold fromPathSegmentsAux
    by_cases h : s.start.peq L = true
    · have e := (peq_iff _ _).1 h
      subst e
      simp only [h, if_true, List.nil_append, segsT, stepT_as_path_el, ih]
      rfl
    · have hm : ∀ p : Point K, stepT (S, L) (PathEl.MoveTo p) = ((p, p), none) := fun _ => rfl
      simp only [h, Bool.false_eq_true, if_false, List.cons_append, List.nil_append, segsT, hm,
        stepT_as_path_el, ih]
      rfl

theorem segs_fromPathSegments_aux [LawfulPeq K] (ss : List (PathSeg K)) :
    segs (fromPathSegments ss) = some ss := by
  cases ss with
  | nil => rfl
  | cons s rest =>
    show segs (PathEl.MoveTo s.start :: s.as_path_el :: fromPathSegmentsAux (some s.end) rest) = _
    rw [segs_moveTo]
    simp only [segsT, stepT_as_path_el, segsT_fromPathSegmentsAux]
    rfl

/-- `true` on `MoveTo` -/
def PathEl.isMoveTo : PathEl K → Bool
  | .MoveTo _ => true
  | _ => false

theorem isMoveTo_as_path_el (s : PathSeg K) : s.as_path_el.isMoveTo = false := by
  cases s <;> rfl

/-- the adjacent pairs of a list of segments -/
def adjacentPairs (ss : List (PathSeg K)) : List (PathSeg K × PathSeg K) := ss.zip ss.tail

theorem countP_fromPathSegmentsAux [LawfulPeq K] [DecidableEq K] (s : PathSeg K) (rest : List (PathSeg K)) :
    (fromPathSegmentsAux (some s.end) rest).countP PathEl.isMoveTo
      = (adjacentPairs (s :: rest)).countP (fun p => decide (p.1.end ≠ p.2.start)) := by
  induction rest generalizing s with
  | nil => rfl
  | cons t rest ih =>
    unfold fromPathSegmentsAux
    simp only [adjacentPairs, List.tail_cons, List.zip_cons_cons, List.countP_cons] at ih ⊢
    rw [List.countP_append, List.countP_cons, ih t, isMoveTo_as_path_el]
    by_cases h : t.start.peq s.end = true
    · have e := (peq_iff _ _).1 h
      simp [e]
    · have e : ¬ (s.end = t.start) := fun e => h ((peq_iff _ _).2 e.symm)
      simp [h, e, PathEl.isMoveTo]; omega

/-! ### the whole segment list as a list of `get_seg` look-ups -/

theorem filterMap_congr' {α β : Type} {f g : α → Option β} {l : List α} (h : ∀ a ∈ l, f a = g a) :
    l.filterMap f = l.filterMap g := by
  induction l with
  | nil => rfl
  | cons a l ih =>
    simp only [List.filterMap_cons, h a (List.mem_cons_self ..),
      ih (fun b hb => h b (List.mem_cons_of_mem _ hb))]

/-- the emitted list is the list of per-index look-ups -/
theorem map_snd_segsIdxT_eq_filterMap (sl : Point K × Point K) (ix : Nat) (els : List (PathEl K)) :
    (segsIdxT sl ix els).map (·.2)
      = (List.range' ix els.length).filterMap
          (fun i => ((segsIdxT sl ix els).find? (fun q => q.1 == i)).map (·.2)) := by
  induction els generalizing sl ix with
  | nil => rfl
  | cons el rest ih =>
    simp only [List.length_cons, List.range'_succ, List.filterMap_cons, segsIdxT]
    have hrest : (List.range' (ix + 1) rest.length).filterMap
          (fun i => ((outIdx ix (stepT sl el).2 ++ segsIdxT (stepT sl el).1 (ix + 1) rest).find?
            (fun q => q.1 == i)).map (·.2))
        = (segsIdxT (stepT sl el).1 (ix + 1) rest).map (·.2) := by
      rw [ih]
      apply filterMap_congr'
      intro i hi
      have hi' : ix + 1 ≤ i := (List.mem_range'_1.1 hi).1
      rw [List.find?_append]
      have : (outIdx ix (stepT sl el).2).find? (fun q => q.1 == i) = none := by
        cases (stepT sl el).2 with
        | none => rfl
        | some s =>
          simp only [outIdx, List.find?_cons, List.find?_nil]
          have : (ix == i) = false := by simp; omega
          rw [this]
      rw [this, Option.none_or]
    rw [hrest, List.find?_append, find_segsIdxT_none _ _ _ _ (Or.inl (by omega))]
    cases (stepT sl el).2 <;> simp [outIdx]

theorem segs_eq_filterMap_getSeg_aux [LawfulPeq K] (p0 : Point K) (tl : List (PathEl K)) :
    segs (.MoveTo p0 :: tl)
      = some ((List.range (tl.length + 1)).filterMap (getSeg (.MoveTo p0 :: tl))) := by
  have hg : getSeg (.MoveTo p0 :: tl) = fun i =>
      ((segsIdxT (p0, p0) 0 (.MoveTo p0 :: tl)).find? (fun q => q.1 == i)).map (·.2) := by
    funext i
    rw [getSeg_spec_aux, segsIdx_moveTo (p0, p0), Option.getD_some]
  rw [hg, List.range_eq_range', ← List.length_cons (a := PathEl.MoveTo p0),
    ← map_snd_segsIdxT_eq_filterMap]
  unfold segs
  rw [segsIdx_moveTo (p0, p0), Option.map_some]

end Kurbo
