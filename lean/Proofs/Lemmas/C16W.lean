import Kurbo.SvgWrite
import Proofs.Lemmas.C16BWriter
/-! C16W: the model writer `svgWrite` (Kurbo/SvgWrite.lean, a transcription of svg.rs `write_to`) and the proof-side format
    `c16b_write` (Proofs/Lemmas/C16BWriter.lean) are the same function; hypotheses about the element list and the number printer
    stated directly on `List (PathEl K)` / `K → List UInt8`, and their translation to the vocabulary of C16B. -/
set_option linter.unusedSectionVars false
namespace Kurbo

section
variable {K : Type}

/-- the coordinates of an element in the order `write_to` prints them -/
def PathEl.coords : PathEl K → List K
  | .MoveTo p => [p.x, p.y]
  | .LineTo p => [p.x, p.y]
  | .QuadTo p1 p2 => [p1.x, p1.y, p2.x, p2.y]
  | .CurveTo p1 p2 p3 => [p1.x, p1.y, p2.x, p2.y, p3.x, p3.y]
  | .ClosePath => []

def PathEl.isMove : PathEl K → Bool
  | .MoveTo _ => true
  | _ => false

def PathEl.isClose : PathEl K → Bool
  | .ClosePath => true
  | _ => false

/-- the list is empty or starts with a `MoveTo` (the invariant `BezPath::from_vec` / `push` debug-assert) -/
def StartsWithMoveTo : List (PathEl K) → Prop
  | [] => True
  | e :: _ => e.isMove = true

/-- every `ClosePath` is followed by a `MoveTo` or by the end -/
def CloseThenMoveTo : List (PathEl K) → Prop
  | [] => True
  | [_] => True
  | e :: d :: es => (e.isClose = true → d.isMove = true) ∧ CloseThenMoveTo (d :: es)

instance : (els : List (PathEl K)) → Decidable (StartsWithMoveTo els)
  | [] => isTrue trivial
  | e :: _ => inferInstanceAs (Decidable (e.isMove = true))

def decCloseThenMoveTo : (els : List (PathEl K)) → Decidable (CloseThenMoveTo els)
  | [] => isTrue trivial
  | [_] => isTrue trivial
  | e :: d :: es =>
    have := decCloseThenMoveTo (d :: es)
    inferInstanceAs (Decidable ((e.isClose = true → d.isMove = true) ∧ CloseThenMoveTo (d :: es)))

instance (els : List (PathEl K)) : Decidable (CloseThenMoveTo els) := decCloseThenMoveTo els

/-- number of elements the parser produces for the written text: one per element, plus the implicit `MoveTo` the parser inserts
    in front of every non-`MoveTo` element that directly follows a `ClosePath` (`pending` = the previous element was a `ClosePath`) -/
def reparsedCount (pending : Bool) : List (PathEl K) → Nat
  | [] => 0
  | e :: es => (if pending && !e.isMove then 2 else 1) + reparsedCount e.isClose es

theorem c16w_coords (e : PathEl K) : (c16b_ofEl e).scalars = e.coords := by cases e <;> rfl
theorem c16w_isMove (e : PathEl K) : (c16b_ofEl e).isMove = e.isMove := by cases e <;> rfl
theorem c16w_isClose (e : PathEl K) : (c16b_ofEl e).isClose = e.isClose := by cases e <;> rfl

theorem c16w_startsWithMove (els : List (PathEl K)) : c16b_startsWithMove (els.map c16b_ofEl) ↔ StartsWithMoveTo els := by
  cases els with
  | nil => exact Iff.rfl
  | cons e es => simp [c16b_startsWithMove, StartsWithMoveTo, c16w_isMove]

theorem c16w_closeThenMove (els : List (PathEl K)) : c16b_closeThenMove (els.map c16b_ofEl) ↔ CloseThenMoveTo els := by
  induction els with
  | nil => exact Iff.rfl
  | cons e es ih =>
    cases es with
    | nil => exact Iff.rfl
    | cons d es =>
      simp only [List.map_cons, c16b_closeThenMove, CloseThenMoveTo, c16w_isMove, c16w_isClose] at ih ⊢
      rw [ih]

theorem c16w_elemCount (pending : Bool) (els : List (PathEl K)) :
    c16b_elemCount pending (els.map c16b_ofEl) = reparsedCount pending els := by
  induction els generalizing pending with
  | nil => rfl
  | cons e es ih => simp only [List.map_cons, c16b_elemCount, reparsedCount, c16w_isMove, c16w_isClose, ih]

/-! ### the two writers coincide -/

theorem svgWritePt_eq [Scalar K] (spell : K → NumParts) (p : Point K) :
    svgWritePt (fun x => (spell x).bytes) p = c16b_writePt spell p := by
  simp [svgWritePt, c16b_writePt]

theorem svgWriteEl_eq [Scalar K] (spell : K → NumParts) (e : PathEl K) :
    svgWriteEl (fun x => (spell x).bytes) e = c16b_writeEl spell e := by
  cases e <;> simp [svgWriteEl, c16b_writeEl, svgWritePt_eq]

/-- the index only matters through `i > 0` -/
theorem svgWriteFrom_succ (spell : K → List UInt8) (i : Nat) (els : List (PathEl K)) :
    svgWriteFrom spell (i + 1) els = svgWriteFrom spell 1 els := by
  induction els generalizing i with
  | nil => rfl
  | cons e es ih =>
    simp only [svgWriteFrom, Nat.zero_lt_succ, if_true]
    rw [ih (i + 1), ih 1]

/-- the enumerate loop unrolled: the first element without, every later element with a space in front -/
theorem svgWrite_cons_cons (spell : K → List UInt8) (e d : PathEl K) (es : List (PathEl K)) :
    svgWrite spell (e :: d :: es) = svgWriteEl spell e ++ 32 :: svgWrite spell (d :: es) := by
  simp only [svgWrite, svgWriteFrom, Nat.lt_irrefl, if_false, Nat.zero_lt_succ, if_true, List.nil_append, Nat.zero_add]
  rw [svgWriteFrom_succ spell 1 es]
  simp

theorem svgWrite_nil (spell : K → List UInt8) : svgWrite spell ([] : List (PathEl K)) = [] := rfl

theorem svgWrite_singleton (spell : K → List UInt8) (e : PathEl K) : svgWrite spell [e] = svgWriteEl spell e := by
  simp [svgWrite, svgWriteFrom]

/-- `svgWrite` = the elements joined by single spaces -/
theorem svgWrite_eq_intercalate (spell : K → List UInt8) (els : List (PathEl K)) :
    svgWrite spell els = [32].intercalate (els.map (svgWriteEl spell)) := by
  induction els with
  | nil => rfl
  | cons e es ih =>
    cases es with
    | nil => simp [svgWrite_singleton, List.intercalate]
    | cons d es =>
      rw [svgWrite_cons_cons, ih]
      simp [List.intercalate]

theorem c16b_write_eq_svgWrite_aux [Scalar K] (spell : K → NumParts) (els : List (PathEl K)) :
    c16b_write spell els = svgWrite (fun x => (spell x).bytes) els := by
  induction els with
  | nil => rfl
  | cons e es ih =>
    cases es with
    | nil => rw [svgWrite_singleton, svgWriteEl_eq]; rfl
    | cons d es => rw [svgWrite_cons_cons, svgWriteEl_eq, ← ih]; rfl

/-- the writer only looks at `spell` on the coordinates that occur -/
theorem svgWrite_congr (f g : K → List UInt8) (els : List (PathEl K)) (h : ∀ e ∈ els, ∀ x ∈ e.coords, f x = g x) :
    svgWrite f els = svgWrite g els := by
  have hel : ∀ e ∈ els, svgWriteEl f e = svgWriteEl g e := by
    intro e he
    have := h e he
    cases e <;> simp only [PathEl.coords, List.mem_cons, List.not_mem_nil, or_false, forall_eq_or_imp, forall_eq] at this <;>
      simp [svgWriteEl, svgWritePt, this]
  rw [svgWrite_eq_intercalate, svgWrite_eq_intercalate]
  congr 1
  exact List.map_congr_left hel

end

/-! ### numerals -/

/-- the numerals Rust's `Display for f64` prints for finite numbers – `-?digits(.digits)?`, at least one digit in front of the
    period, no exponent, no `+` (this is the grammar the judge of the correspondence stratum `writer` checks on every numeral
    of the crate's text) -/
def IsDisplayNumeral (bs : List UInt8) : Prop :=
  ∃ (neg : Bool) (ip fd : List UInt8), AllDigits ip ∧ ip ≠ [] ∧ AllDigits fd ∧
    bs = (if neg then [45] else []) ++ ip ++ (if fd = [] then [] else 46 :: fd)

/-- … are number tokens of the parser's grammar -/
theorem IsDisplayNumeral.parts {bs : List UInt8} (h : IsDisplayNumeral bs) : ∃ p : NumParts, p.Valid ∧ p.bytes = bs := by
  obtain ⟨neg, ip, fd, hip, hne, hfd, rfl⟩ := h
  refine ⟨{ sign := if neg then [45] else [], ip := ip, dot := !fd.isEmpty, fd := fd }, ⟨?_, hip, hfd, ?_, ?_, ?_⟩, ?_⟩
  · cases neg
    · exact .inl rfl
    · exact .inr (.inr rfl)
  · cases fd <;> simp
  · cases ip with
    | nil => exact absurd rfl hne
    | cons a r => simp only [List.length_cons]; omega
  · intro h; cases h
  · cases fd <;> simp [NumParts.bytes, NumParts.mantBytes, NumParts.expBytes]

/-- `bs` is a number token (of the grammar of `get_number`) that denotes `x` -/
def SpellsNumber [Scalar K] (bs : List UInt8) (x : K) : Prop :=
  (∃ p : NumParts, p.Valid ∧ p.bytes = bs) ∧ tokValue (parseTok bs) = x

open Classical in
/-- a `NumParts`-valued printer that agrees with `spell` wherever `spell x` is a token -/
noncomputable def c16w_parts {K : Type} (spell : K → List UInt8) (x : K) : NumParts :=
  if h : ∃ p : NumParts, p.Valid ∧ p.bytes = spell x then Classical.choose h else { ip := [48] }

theorem c16w_parts_spec {K : Type} (spell : K → List UInt8) (x : K) (h : ∃ p : NumParts, p.Valid ∧ p.bytes = spell x) :
    (c16w_parts spell x).Valid ∧ (c16w_parts spell x).bytes = spell x := by
  unfold c16w_parts
  rw [dif_pos h]
  exact Classical.choose_spec h

/-- `svgWrite spell` is `c16b_write` of a `NumParts`-valued printer with the hypotheses C16B needs -/
theorem c16w_to_c16b {K : Type} [Scalar K] (spell : K → List UInt8) (els : List (PathEl K))
    (hspell : ∀ e ∈ els, ∀ x ∈ e.coords, SpellsNumber (spell x) x) :
    svgWrite spell els = c16b_write (c16w_parts spell) els ∧
    ∀ e ∈ els, ∀ x ∈ (c16b_ofEl e).scalars,
      (c16w_parts spell x).Valid ∧ tokValue (parseTok (c16w_parts spell x).bytes) = x := by
  constructor
  · rw [c16b_write_eq_svgWrite_aux]
    apply svgWrite_congr
    intro e he x hx
    exact (c16w_parts_spec spell x (hspell e he x hx).1).2.symm
  · intro e he x hx
    rw [c16w_coords] at hx
    have h := hspell e he x hx
    have hs := c16w_parts_spec spell x h.1
    exact ⟨hs.1, by rw [hs.2]; exact h.2⟩

/-! ### an element list that does not start with a `MoveTo` -/

/-- the written text of a non-empty list starts with the letter of the first element -/
theorem svgWrite_head {K : Type} (spell : K → List UInt8) (e : PathEl K) (es : List (PathEl K)) :
    ∃ r, svgWrite spell (e :: es) = (match e with
      | .MoveTo _ => 77 | .LineTo _ => 76 | .QuadTo _ _ => 81 | .CurveTo _ _ _ => 67 | .ClosePath => 90) :: r := by
  cases es with
  | nil => rw [svgWrite_singleton]; cases e <;> exact ⟨_, rfl⟩
  | cons d es => rw [svgWrite_cons_cons]; cases e <;> exact ⟨_, rfl⟩

theorem c16w_first_byte (data : ByteArray) (c : UInt8) (r : List UInt8) (h : data.data.toList = c :: r)
    (hws : isWs c = false) : getByte (skipWs ⟨data, 0⟩) = some (c, Lx.adv ⟨data, 0⟩ 1) := by
  have hrem : Lx.rem ⟨data, 0⟩ = [] ++ c :: r := by simp [Lx.rem, h]
  have hs := skipWs_rem (l := ⟨data, 0⟩) hrem (by intro c hc; cases hc) (by intro c' r' h'; cases h'; exact hws)
  rw [hs]
  exact Lx.getByte_cons hrem

end Kurbo
