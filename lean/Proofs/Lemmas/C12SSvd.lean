import Proofs.KDefs
import Proofs.Lemmas.C12
import Proofs.Lemmas.C10Real
import Proofs.Lemmas.C10Ellipse
import Mathlib.Tactic.LinearCombination
/-! Helper lemmas for C12S, part 1: the content of `Affine::svd` over ℝ as a statement about points.
    For a non-singular affine map `B` with `(r, φ) = B.svd` there is a phase `ψ = svdPhase B` such that
    `B·(cos θ, sin θ) = B.translation + R(φ)·diag(rx, ry)·(cos θ', sin θ')`, `θ' = σ·(θ − ψ)`, `σ = sign det B`
    (i.e. `B_lin = R(φ)·diag(rx, ry)·W` with `W` the rotation by `−ψ` resp. the reflection `θ ↦ ψ − θ`). -/
set_option linter.unusedSectionVars false
namespace Kurbo
open Real

/-- `σ = −1` for a negative argument, `+1` otherwise (the sign that `Affine * Arc` applies to the sweep) -/
noncomputable def sgnNeg (D : ℝ) : ℝ := if D < 0 then -1 else 1

theorem sgnNeg_of_neg {D : ℝ} (h : D < 0) : sgnNeg D = -1 := if_pos h
theorem sgnNeg_of_nonneg {D : ℝ} (h : ¬ D < 0) : sgnNeg D = 1 := if_neg h
theorem sgnNeg_sq (D : ℝ) : sgnNeg D * sgnNeg D = 1 := by
  unfold sgnNeg; split_ifs <;> norm_num

/-- rows `(u1, u2)`, `(v1, v2)` orthogonal, of lengths `rx`, `ry`, with determinant `D` and `rx·ry = |D| ≠ 0`:
    the matrix is `diag(rx, ry)` times the rotation by `−ψ` (`D > 0`) or times the reflection `θ ↦ ψ − θ` (`D < 0`),
    `ψ = arg (u1 + i·u2)` -/
theorem orth_rows_param {rx ry u1 u2 v1 v2 D : ℝ} (hrx : 0 < rx)
    (hu : u1 ^ 2 + u2 ^ 2 = rx ^ 2) (hdet : u1 * v2 - u2 * v1 = D) (horth : u1 * v1 + u2 * v2 = 0)
    (hprod : rx * ry = |D|) (θ : ℝ) :
    u1 * cos θ + u2 * sin θ = rx * cos (sgnNeg D * (θ - Complex.arg ⟨u1, u2⟩)) ∧
    v1 * cos θ + v2 * sin θ = ry * sin (sgnNeg D * (θ - Complex.arg ⟨u1, u2⟩)) := by
  obtain ⟨hc, hs⟩ := hyp_cos_sin_arg u1 u2
  rw [hu, Real.sqrt_sq hrx.le] at hc hs
  set ψ := Complex.arg ⟨u1, u2⟩ with hψ
  have h1 := Real.cos_sq_add_sin_sq ψ
  have e2 : rx * v2 = D * cos ψ := by
    rw [← hc, ← hs] at hdet horth
    linear_combination (cos ψ) * hdet + (sin ψ) * horth - (rx * v2) * h1
  have e1 : rx * v1 = -(D * sin ψ) := by
    rw [← hc, ← hs] at hdet horth
    linear_combination (-(sin ψ)) * hdet + (cos ψ) * horth - (rx * v1) * h1
  have hrx' : rx ≠ 0 := hrx.ne'
  by_cases hD : D < 0
  · rw [sgnNeg_of_neg hD, show (-1 : ℝ) * (θ - ψ) = ψ - θ by ring, Real.cos_sub, Real.sin_sub]
    rw [abs_of_neg hD] at hprod
    have f2 : v2 = -(ry * cos ψ) := by
      apply mul_left_cancel₀ hrx'
      linear_combination e2 + (cos ψ) * hprod
    have f1 : v1 = ry * sin ψ := by
      apply mul_left_cancel₀ hrx'
      linear_combination e1 - (sin ψ) * hprod
    constructor
    · rw [← hc, ← hs]; ring
    · rw [f1, f2]; ring
  · rw [sgnNeg_of_nonneg hD, one_mul, Real.cos_sub, Real.sin_sub]
    rw [abs_of_nonneg (not_lt.mp hD)] at hprod
    have f2 : v2 = ry * cos ψ := by
      apply mul_left_cancel₀ hrx'
      linear_combination e2 - (cos ψ) * hprod
    have f1 : v1 = -(ry * sin ψ) := by
      apply mul_left_cancel₀ hrx'
      linear_combination e1 + (sin ψ) * hprod
    constructor
    · rw [← hc, ← hs]; ring
    · rw [f1, f2]; ring

section
variable [Scalar ℝ] [LawfulScalar ℝ] [LawfulReal]

theorem determinant_eq (A : Affine ℝ) : A.determinant = A.c0 * A.c3 - A.c1 * A.c2 := by
  simp only [Affine.determinant, scalar_norm]

/-- `rx·ry = |det|` -/
theorem svd_radii_prod (A : Affine ℝ) : A.svd.1.x * A.svd.1.y = |A.determinant| := by
  obtain ⟨h1, h2, -⟩ := svd_gram A
  rw [determinant_eq, ← abs_of_nonneg (mul_nonneg h1 h2)]
  exact (sq_eq_sq_iff_abs_eq_abs _ _).mp (svd_radii_prod_sq A)

/-- non-singular map: both singular values are positive -/
theorem svd_radii_pos (A : Affine ℝ) (hdet : A.determinant ≠ 0) : 0 < A.svd.1.x ∧ 0 < A.svd.1.y := by
  obtain ⟨h1, h2, -⟩ := svd_gram A
  have hp : 0 < A.svd.1.x * A.svd.1.y := by rw [svd_radii_prod]; exact abs_pos.mpr hdet
  constructor
  · rcases h1.lt_or_eq with h | h
    · exact h
    · rw [← h, zero_mul] at hp; exact absurd hp (lt_irrefl _)
  · rcases h2.lt_or_eq with h | h
    · exact h
    · rw [← h, mul_zero] at hp; exact absurd hp (lt_irrefl _)

/-- the first radius is the larger one -/
theorem svd_radii_le (A : Affine ℝ) : A.svd.1.y ≤ A.svd.1.x := by
  simp only [Affine.svd, scalar_norm, LawfulReal.sqrt_eq]
  push_cast
  apply Real.sqrt_le_sqrt
  have := Real.sqrt_nonneg ((A.c0 * A.c0 - A.c1 * A.c1 + A.c2 * A.c2 - A.c3 * A.c3) ^ 2 + 4 * (A.c0 * A.c1 + A.c2 * A.c3) ^ 2)
  linarith

/-- the phase of the right orthogonal factor of the SVD: `arg` of the first row of `R(−φ)·M` -/
noncomputable def svdPhase (B : Affine ℝ) : ℝ :=
  Complex.arg ⟨B.c0 * Real.cos B.svd.2 + B.c1 * Real.sin B.svd.2, B.c2 * Real.cos B.svd.2 + B.c3 * Real.sin B.svd.2⟩

/-- the rows of `R(−φ)·M` in the frame of the `svd` -/
theorem svd_rows (B : Affine ℝ) (hdet : B.determinant ≠ 0) (θ : ℝ) :
    (B.c0 * cos B.svd.2 + B.c1 * sin B.svd.2) * cos θ + (B.c2 * cos B.svd.2 + B.c3 * sin B.svd.2) * sin θ
      = B.svd.1.x * cos (sgnNeg B.determinant * (θ - svdPhase B)) ∧
    (-(B.c0 * sin B.svd.2) + B.c1 * cos B.svd.2) * cos θ + (-(B.c2 * sin B.svd.2) + B.c3 * cos B.svd.2) * sin θ
      = B.svd.1.y * sin (sgnNeg B.determinant * (θ - svdPhase B)) := by
  obtain ⟨-, -, g1, g2, g3⟩ := svd_gram B
  have hprod := svd_radii_prod B
  obtain ⟨hx, -⟩ := svd_radii_pos B hdet
  have h1 := Real.sin_sq_add_cos_sq B.svd.2
  unfold svdPhase
  rw [determinant_eq] at hprod ⊢
  generalize B.svd.2 = φ at *
  generalize B.svd.1 = r at *
  refine orth_rows_param hx ?_ ?_ ?_ hprod θ
  · linear_combination (-(cos φ) ^ 2) * g1 + (-2 * sin φ * cos φ) * g2 + (-(sin φ) ^ 2) * g3
      + (r.x ^ 2 * (cos φ ^ 2 + sin φ ^ 2 + 1)) * h1
  · linear_combination (B.c0 * B.c3 - B.c1 * B.c2) * h1
  · linear_combination (-(sin φ * cos φ)) * g3 + (sin φ * cos φ) * g1 - (cos φ ^ 2 - sin φ ^ 2) * g2

variable [LawfulTrig]

/-- from the two rows of `R(−φ)·M` to the point equation -/
theorem svd_point_of_rows (B : Affine ℝ) (θ θ' : ℝ)
    (r1 : (B.c0 * cos B.svd.2 + B.c1 * sin B.svd.2) * cos θ + (B.c2 * cos B.svd.2 + B.c3 * sin B.svd.2) * sin θ
      = B.svd.1.x * cos θ')
    (r2 : (-(B.c0 * sin B.svd.2) + B.c1 * cos B.svd.2) * cos θ + (-(B.c2 * sin B.svd.2) + B.c3 * cos B.svd.2) * sin θ
      = B.svd.1.y * sin θ') :
    B * (⟨cos θ, sin θ⟩ : Point ℝ) = B.translation.to_point + sampleEllipse B.svd.1 B.svd.2 θ' := by
  rw [sampleEllipse_real]
  have h1 := Real.sin_sq_add_cos_sq B.svd.2
  generalize B.svd.2 = φ at *
  generalize B.svd.1 = r at *
  simp only [kdefs, scalar_norm, Vec2.to_point, Point.mk.injEq]
  constructor
  · linear_combination (cos φ) * r1 - (sin φ) * r2 - (B.c0 * cos θ + B.c2 * sin θ) * h1
  · linear_combination (sin φ) * r1 + (cos φ) * r2 - (B.c1 * cos θ + B.c3 * sin θ) * h1

/-- THE SVD AS A STATEMENT ABOUT POINTS: the image of the unit-circle point at angle `θ` under a non-singular `B` is
    the point of the `svd` ellipse (centre `B.translation`, radii and rotation from `B.svd`) at angle `σ·(θ − ψ)` -/
theorem svd_point (B : Affine ℝ) (hdet : B.determinant ≠ 0) (θ : ℝ) :
    B * (⟨cos θ, sin θ⟩ : Point ℝ)
      = B.translation.to_point + sampleEllipse B.svd.1 B.svd.2 (sgnNeg B.determinant * (θ - svdPhase B)) := by
  obtain ⟨r1, r2⟩ := svd_rows B hdet θ
  exact svd_point_of_rows B θ _ r1 r2

/-- singular `B`: the smaller radius is `0`, the second row of `R(−φ)·M` vanishes, and the image of the unit vector at
    `θ` is the sample (of the degenerate ellipse – a segment or a point) at `θ − ψ` -/
theorem svd_point_singular (B : Affine ℝ) (hdet : B.determinant = 0) (θ : ℝ) :
    B.svd.1.y = 0 ∧
    B * (⟨cos θ, sin θ⟩ : Point ℝ)
      = B.translation.to_point + sampleEllipse B.svd.1 B.svd.2 (θ - svdPhase B) := by
  obtain ⟨hx0, hy0, g1, g2, g3⟩ := svd_gram B
  have hprod := svd_radii_prod B
  rw [hdet, abs_zero] at hprod
  have hle := svd_radii_le B
  have hy : B.svd.1.y = 0 := by
    rcases mul_eq_zero.mp hprod with h | h
    · exact le_antisymm (h ▸ hle) hy0
    · exact h
  refine ⟨hy, ?_⟩
  have h1 := Real.sin_sq_add_cos_sq B.svd.2
  have hD : B.c0 * B.c3 - B.c1 * B.c2 = 0 := by rw [← determinant_eq]; exact hdet
  apply svd_point_of_rows
  · -- first row: `(u1, u2) = rx·(cos ψ, sin ψ)`
    obtain ⟨hc, hs⟩ := hyp_cos_sin_arg (B.c0 * cos B.svd.2 + B.c1 * sin B.svd.2) (B.c2 * cos B.svd.2 + B.c3 * sin B.svd.2)
    have hu : (B.c0 * cos B.svd.2 + B.c1 * sin B.svd.2) ^ 2 + (B.c2 * cos B.svd.2 + B.c3 * sin B.svd.2) ^ 2
        = B.svd.1.x ^ 2 := by
      linear_combination (-(cos B.svd.2) ^ 2) * g1 + (-2 * sin B.svd.2 * cos B.svd.2) * g2 + (-(sin B.svd.2) ^ 2) * g3
        + (B.svd.1.x ^ 2 * (cos B.svd.2 ^ 2 + sin B.svd.2 ^ 2 + 1)) * h1
    rw [hu, Real.sqrt_sq hx0] at hc hs
    unfold svdPhase
    rw [Real.cos_sub]
    linear_combination (-(cos θ)) * hc - (sin θ) * hs
  · -- second row vanishes
    rw [hy, zero_mul]
    have hv : (-(B.c0 * sin B.svd.2) + B.c1 * cos B.svd.2) ^ 2 + (-(B.c2 * sin B.svd.2) + B.c3 * cos B.svd.2) ^ 2 = 0 := by
      have : (-(B.c0 * sin B.svd.2) + B.c1 * cos B.svd.2) ^ 2 + (-(B.c2 * sin B.svd.2) + B.c3 * cos B.svd.2) ^ 2
          = B.svd.1.y ^ 2 := by
        linear_combination (-(sin B.svd.2) ^ 2) * g1 + (2 * sin B.svd.2 * cos B.svd.2) * g2 + (-(cos B.svd.2) ^ 2) * g3
          + (B.svd.1.y ^ 2 * (cos B.svd.2 ^ 2 + sin B.svd.2 ^ 2 + 1)) * h1
      rw [this, hy]; norm_num
    have hv1 : -(B.c0 * sin B.svd.2) + B.c1 * cos B.svd.2 = 0 := by
      have h : (-(B.c0 * sin B.svd.2) + B.c1 * cos B.svd.2) ^ 2 ≤ 0 := by
        linarith [sq_nonneg (-(B.c2 * sin B.svd.2) + B.c3 * cos B.svd.2)]
      exact pow_eq_zero_iff (two_ne_zero) |>.mp (le_antisymm h (sq_nonneg _))
    have hv2 : -(B.c2 * sin B.svd.2) + B.c3 * cos B.svd.2 = 0 := by
      have h : (-(B.c2 * sin B.svd.2) + B.c3 * cos B.svd.2) ^ 2 ≤ 0 := by
        linarith [sq_nonneg (-(B.c0 * sin B.svd.2) + B.c1 * cos B.svd.2)]
      exact pow_eq_zero_iff (two_ne_zero) |>.mp (le_antisymm h (sq_nonneg _))
    rw [hv1, hv2]; ring

/-- the inverse reparametrisation: every point of the `svd` ellipse is the image of a unit-circle point -/
theorem svd_point_inv (B : Affine ℝ) (hdet : B.determinant ≠ 0) (θ' : ℝ) :
    B.translation.to_point + sampleEllipse B.svd.1 B.svd.2 θ'
      = B * (⟨cos (sgnNeg B.determinant * θ' + svdPhase B), sin (sgnNeg B.determinant * θ' + svdPhase B)⟩ : Point ℝ) := by
  rw [svd_point B hdet]
  congr 2
  have := sgnNeg_sq B.determinant
  linear_combination (-θ') * this

end
end Kurbo
