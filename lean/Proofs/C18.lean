import Kurbo.Kernel
namespace Kurbo
end Kurbo
