import Proofs.KDefs
import Proofs.Lemmas.C18
import Proofs.Lemmas.C18Real
import Proofs.C06
/-! C18 – curve fitting / offsetting / simplification: the ingredients of the fitter.

    "The path fitted to a source curve starts and ends at the source's end points, is continuous, and stays within
    about the requested accuracy of the source.  For the offset of a cubic whose curvature radius exceeds the offset
    distance, every point of the fitted path lies at the offset distance from the source curve to that accuracy. …"

    The acceptance test of the fitter is an approximate error estimate, so no accuracy theorem is possible (accuracy
    is decided by an exact-distance oracle on the implementation).  What is proved here is that the kernel functions
    the fitter is built on (`momentIntegrals`, `CubicOffset.new/eval_offset/eval/cusp_sign/eval_deriv` of
    `Kurbo/Kernel.lean`, translator output of `simplify.rs` / `offset.rs`, exactly as they are) compute what their
    documentation says.

    What is proved:

    A. `momentIntegrals`
       1. (ℝ) `moment_integrals_spec`: `momentIntegrals c = (∫₀¹ y·x′, ∫₀¹ x·y·x′, ∫₀¹ y²·x′)` with `x, y` the coordinates
          of the model's `c.eval t` and `x′` of `c.deriv.eval t` – exactly the documented "integrals of y dx, x y dx and
          y² dx", no stray factor or sign.  `moment_integrals_subsegment_spec`: for the sub-segment `[t0,t1]` (any order)
          the same integrals of the ORIGINAL curve over `t0..t1`.  `moment_integrals_quad_spec`,
          `moment_integrals_line_spec`: the same for the cubics `SimplifyBezPath::new` makes of quadratic and line
          segments (`to_cubic`), along the segment's own `eval`.
       2. (any lawful scalar, polynomial identities)
          `moment_integrals_subsegment` – the value on a sub-segment is a difference `P(t1) − P(t0)` of one polynomial
          primitive `P = c18_momentPrim c` with `P(0) = 0`, `P(1) = momentIntegrals c`; hence
          `moment_integrals_split` (`⟨t0,t1⟩ + ⟨t1,t2⟩ = ⟨t0,t2⟩`, no ordering assumed), `moment_integrals_additive`
          (`⟨0,t⟩ + ⟨t,1⟩ = whole`), `moment_integrals_subsegment_full/empty/swap`;
          `moment_integrals_translate`; `moment_integrals_area` (first component = `½(x3·y3 − x0·y0) − signed_area`,
          and the chord form `moment_integrals_area_chord`); `moment_integrals_line_any` (every cubic whose two inner
          control points lie anywhere on the line through its end points has the moment integrals of the straight
          segment; special cases `moment_integrals_line` – controls at the thirds – and
          `moment_integrals_line_to_cubic` – `PathSeg.Line.to_cubic`, which puts them ON the end points);
          `moment_integrals_reverse`.
    B. `CubicOffset` (ℝ with `C18RealLaws`: `Scalar.sqrt = √`, `Scalar.hypot x y = √(x²+y²)`; inhabited)
       3. `offset_point_distance`: where `c′(t) ≠ 0`, `o = (CubicOffset.new c d).eval t − c.eval t` has `|o|² = d²`,
          `o ⋅ c′(t) = 0` and `c′(t) × o = d·|c′(t)|`: `o = d · turn_90(c′/|c′|)`, `turn_90 (x,y) = (−y,x)`.  For `d > 0`
          this is the side towards which `+x` turns into `+y` (the LEFT of the direction of travel when `y` points up,
          the RIGHT on a `y`-down screen).  `offset_point_degenerate`: where `c′(t) = 0` the model's offset vector is
          `0` (lawful division by zero; in `f64` it is `NaN` – the source has a `TODO: deal with hypot = 0`).
          `offset_eval_zero`, `offset_eval_one`: the end points of the offset curve.
       4. `cusp_sign_numerator` (any lawful scalar, nothing assumed about `sqrt`): the quadratic
          `(c2·t + c1)·t + c0` is exactly `d · (c″(t) × c′(t))`, `c″ = c.deriv.deriv` (constant factor `1`, as the comment
          in the source says); `cusp_sign_model_form`, `offset_eval_deriv_eq` (unfoldings).
          `cusp_sign_formula` (ℝ): `cusp_sign t = 1 + d·(c″×c′)/|c′|³`, `cusp_sign_curvature`: `= 1 − d·κ(t)` with the
          usual signed curvature `κ = (c′×c″)/|c′|³` (positive when turning from `+x` towards `+y`);
          `cusp_sign_pos_iff`: positive iff `d·κ < 1`.
       5. `offset_deriv`: `eval_deriv t` IS the derivative of `u ↦ (CubicOffset.new c d).eval u` at `t`, coordinate by
          coordinate, wherever `c′(t) ≠ 0`.

    What is NOT proved:
    * nothing about `fit_to_bezpath`, `fit_to_bezpath_opt`, `SimplifyBezPath`'s prefix sums / index arithmetic
      (`scale`, the `i0 == i1` branching), `CubicOffset::sample_pt_tangent` / `break_cusp`, `new_regularized`, or the
      accuracy of any fitted path; the additivity theorems are the algebraic fact the prefix sums rely on, the loop
      itself is not modelled here.
    * `offset_point_distance` is about the distance to the CORRESPONDING source point `c(t)`; that no other point of
      the source curve is nearer (the global "lies at the offset distance from the source curve", which needs the
      curvature-radius condition) is not proved.
    * everything is about exact (lawful) scalars; nothing about `Float` rounding.
    * part B (except `cusp_sign_numerator`, `cusp_sign_model_form`) needs `sqrt`/`hypot` to be exact, so it is stated
      over ℝ only (`Rat`'s `ratSqrt` is an approximation).
    Helper lemmas: `Proofs/Lemmas/C18.lean`, `Proofs/Lemmas/C18Real.lean`; `cubic_deriv_hasDerivAt`,
    `quad_deriv_hasDerivAt`, `quad_raise_eval`, `cubic_eval_zero_one` are used from `Proofs/C06.lean`. -/
set_option linter.unusedSectionVars false

/-! ## A.1 the documented integrals (ℝ) -/
namespace Kurbo
section real
variable [Scalar ℝ] [LawfulScalar ℝ]

/-- "computes the integrals of y dx, x y dx, and y² dx over the length of this curve" – exactly, for the model's own
    `eval` and `deriv` -/
theorem moment_integrals_spec (c : CubicBez ℝ) :
    momentIntegrals c =
      (∫ t in (0:ℝ)..1, (c.eval t).y * (c.deriv.eval t).x,
       ∫ t in (0:ℝ)..1, (c.eval t).x * (c.eval t).y * (c.deriv.eval t).x,
       ∫ t in (0:ℝ)..1, (c.eval t).y ^ 2 * (c.deriv.eval t).x) := by
  rw [c18_integrals_eq_prim, c18_momentPrim_zero, c18_mi_eq_prim, sub_zero]

/-- what `SimplifyBezPath::moment_integrals(i, t0..t1)` computes: the integrals of the ORIGINAL cubic over `t0..t1`
    (any order of `t0 t1`, also outside `[0,1]`) -/
theorem moment_integrals_subsegment_spec (c : CubicBez ℝ) (t0 t1 : ℝ) :
    momentIntegrals (c.subsegment ⟨t0, t1⟩) =
      (∫ t in t0..t1, (c.eval t).y * (c.deriv.eval t).x,
       ∫ t in t0..t1, (c.eval t).x * (c.eval t).y * (c.deriv.eval t).x,
       ∫ t in t0..t1, (c.eval t).y ^ 2 * (c.deriv.eval t).x) := by
  rw [c18_integrals_eq_prim, c18_mi_subsegment]

/-- quadratic segments enter `SimplifyBezPath::new` through `to_cubic = raise`: the same three integrals along the
    quadratic's own `eval` / `deriv` -/
theorem moment_integrals_quad_spec (q : QuadBez ℝ) :
    momentIntegrals (PathSeg.Quad q).to_cubic =
      (∫ t in (0:ℝ)..1, (q.eval t).y * (q.deriv.eval t).x,
       ∫ t in (0:ℝ)..1, (q.eval t).x * (q.eval t).y * (q.deriv.eval t).x,
       ∫ t in (0:ℝ)..1, (q.eval t).y ^ 2 * (q.deriv.eval t).x) := by
  show momentIntegrals q.raise = _
  rw [moment_integrals_spec]
  simp only [quad_raise_eval, c18_raise_deriv_eval]

/-- line segments enter through `to_cubic = CubicBez(p0, p0, p1, p1)`, which is NOT the line's own parametrisation
    (`Line.eval`), but the three line integrals do not depend on the parametrisation: they are those along
    `Line.eval` with its constant velocity `p1 − p0` (closed forms: `moment_integrals_line_to_cubic`) -/
theorem moment_integrals_line_spec (l : Line ℝ) :
    momentIntegrals (PathSeg.Line l).to_cubic =
      (∫ t in (0:ℝ)..1, (l.eval t).y * (l.p1.x - l.p0.x),
       ∫ t in (0:ℝ)..1, (l.eval t).x * (l.eval t).y * (l.p1.x - l.p0.x),
       ∫ t in (0:ℝ)..1, (l.eval t).y ^ 2 * (l.p1.x - l.p0.x)) := by
  rw [c18_line_integrals]
  cases l
  simp only [PathSeg.to_cubic, momentIntegrals, kdefs, scalar_norm, Prod.mk.injEq]
  push_cast
  refine ⟨?_, ?_, ?_⟩ <;> ring

end real
end Kurbo

/-! ## A.2 polynomial identities (any lawful scalar) -/
namespace Kurbo
variable {K : Type} [Field K] [LinearOrder K] [IsStrictOrderedRing K] [FloorRing K] [Scalar K] [LawfulScalar K]

/-- the moment integrals of a sub-segment are a difference of one polynomial primitive of the whole cubic
    (`c18_momentPrim c`, an explicit polynomial of degree ≤ 9 in `t`, see `Proofs/Lemmas/C18.lean`), which vanishes at
    `0` and is `momentIntegrals c` at `1` -/
theorem moment_integrals_subsegment (c : CubicBez K) (t0 t1 : K) :
    momentIntegrals (c.subsegment ⟨t0, t1⟩) = c18_momentPrim c t1 - c18_momentPrim c t0 ∧
    c18_momentPrim c 0 = 0 ∧ c18_momentPrim c 1 = momentIntegrals c :=
  ⟨c18_mi_subsegment c t0 t1, c18_momentPrim_zero c, (c18_mi_eq_prim c).symm⟩

/-- additive over any split of the parameter range; no ordering of `t0 t1 t2` assumed -/
theorem moment_integrals_split (c : CubicBez K) (t0 t1 t2 : K) :
    momentIntegrals (c.subsegment ⟨t0, t1⟩) + momentIntegrals (c.subsegment ⟨t1, t2⟩)
      = momentIntegrals (c.subsegment ⟨t0, t2⟩) := by
  simp only [c18_mi_subsegment]; abel

/-- the whole range gives the whole cubic's moment integrals -/
theorem moment_integrals_subsegment_full (c : CubicBez K) :
    momentIntegrals (c.subsegment ⟨0, 1⟩) = momentIntegrals c := by
  rw [c18_mi_subsegment, c18_momentPrim_zero, c18_mi_eq_prim, sub_zero]

/-- what the prefix sums of `SimplifyBezPath` rely on: splitting at any `t` (also outside `[0,1]`) -/
theorem moment_integrals_additive (c : CubicBez K) (t : K) :
    momentIntegrals (c.subsegment ⟨0, t⟩) + momentIntegrals (c.subsegment ⟨t, 1⟩) = momentIntegrals c := by
  rw [moment_integrals_split, moment_integrals_subsegment_full]

/-- the empty range gives `(0,0,0)` – consistent with the special case `range.end == range.start` in
    `SimplifyBezPath::moment_integrals` -/
theorem moment_integrals_subsegment_empty (c : CubicBez K) (t : K) :
    momentIntegrals (c.subsegment ⟨t, t⟩) = 0 := by
  rw [c18_mi_subsegment]; simp

/-- swapping the range negates -/
theorem moment_integrals_subsegment_swap (c : CubicBez K) (t0 t1 : K) :
    momentIntegrals (c.subsegment ⟨t1, t0⟩) = - momentIntegrals (c.subsegment ⟨t0, t1⟩) := by
  simp only [c18_mi_subsegment]; abel

/-- reversing the cubic negates all three (line integrals change sign with the direction of travel) -/
theorem moment_integrals_reverse (c : CubicBez K) :
    momentIntegrals ⟨c.p3, c.p2, c.p1, c.p0⟩ = - momentIntegrals c := by
  simp only [momentIntegrals, kdefs, scalar_norm, Prod.neg_mk, Prod.mk.injEq]
  push_cast
  refine ⟨?_, ?_, ?_⟩ <;> ring

/-- translation by `v`, with `(A, Mx, My) = momentIntegrals c` and `Δx = x3 − x0`:
    `A ↦ A + v.y·Δx`, `Mx ↦ Mx + v.x·A + v.y·(x3² − x0²)/2 + v.x·v.y·Δx`, `My ↦ My + 2·v.y·A + v.y²·Δx` -/
theorem moment_integrals_translate (c : CubicBez K) (v : Vec2 K) :
    momentIntegrals ⟨c.p0 + v, c.p1 + v, c.p2 + v, c.p3 + v⟩ =
      ((momentIntegrals c).1 + v.y * (c.p3.x - c.p0.x),
       (momentIntegrals c).2.1 + v.x * (momentIntegrals c).1 + v.y * (c.p3.x ^ 2 - c.p0.x ^ 2) / 2
         + v.x * v.y * (c.p3.x - c.p0.x),
       (momentIntegrals c).2.2 + 2 * v.y * (momentIntegrals c).1 + v.y ^ 2 * (c.p3.x - c.p0.x)) := by
  simp only [momentIntegrals, kdefs, scalar_norm, Prod.mk.injEq]
  push_cast
  refine ⟨?_, ?_, ?_⟩ <;> ring

/-- first component against the signed area: `∫ y dx = ½·[x·y]₀¹ − ½∫(x dy − y dx)` -/
theorem moment_integrals_area (c : CubicBez K) :
    (momentIntegrals c).1 = (c.p3.x * c.p3.y - c.p0.x * c.p0.y) / 2 - c.signed_area := by
  simp only [momentIntegrals, kdefs, scalar_norm]
  push_cast
  ring

/-- the same with the chord: the trapezoid under the chord `p0 → p3` minus the signed area between curve and chord
    (curve followed by the chord back).  Summed over a closed path the first components give MINUS `area()`. -/
theorem moment_integrals_area_chord (c : CubicBez K) :
    (momentIntegrals c).1 = (c.p3.x - c.p0.x) * (c.p0.y + c.p3.y) / 2
      - (c.signed_area - (Line.mk c.p0 c.p3).signed_area) := by
  simp only [momentIntegrals, kdefs, scalar_norm]
  push_cast
  ring

/-- a cubic whose inner control points lie ANYWHERE on the line through `p0, p3` (`p0 + s·(p3−p0)`, `p0 + u·(p3−p0)`):
    the three integrals depend on the end points only -/
theorem moment_integrals_line_any (l : Line K) (s u : K) :
    momentIntegrals ⟨l.p0, l.eval s, l.eval u, l.p1⟩ =
      ((l.p1.x - l.p0.x) * (l.p0.y + l.p1.y) / 2,
       (l.p1.x - l.p0.x) * (2 * l.p0.x * l.p0.y + l.p0.x * l.p1.y + l.p1.x * l.p0.y + 2 * l.p1.x * l.p1.y) / 6,
       (l.p1.x - l.p0.x) * (l.p0.y ^ 2 + l.p0.y * l.p1.y + l.p1.y ^ 2) / 3) := by
  simp only [momentIntegrals, kdefs, scalar_norm, Prod.mk.injEq]
  push_cast
  refine ⟨?_, ?_, ?_⟩ <;> ring

/-- the straight line `p0 → p3` with the control points at the thirds -/
theorem moment_integrals_line (p0 p3 : Point K) :
    momentIntegrals ⟨p0, p0.lerp p3 (1 / 3), p0.lerp p3 (2 / 3), p3⟩ =
      ((p3.x - p0.x) * (p0.y + p3.y) / 2,
       (p3.x - p0.x) * (2 * p0.x * p0.y + p0.x * p3.y + p3.x * p0.y + 2 * p3.x * p3.y) / 6,
       (p3.x - p0.x) * (p0.y ^ 2 + p0.y * p3.y + p3.y ^ 2) / 3) :=
  moment_integrals_line_any ⟨p0, p3⟩ (1 / 3) (2 / 3)

/-- the cubic `SimplifyBezPath::new` makes of a line segment (`to_cubic` puts the control points on the end points) -/
theorem moment_integrals_line_to_cubic (l : Line K) :
    momentIntegrals (PathSeg.Line l).to_cubic =
      ((l.p1.x - l.p0.x) * (l.p0.y + l.p1.y) / 2,
       (l.p1.x - l.p0.x) * (2 * l.p0.x * l.p0.y + l.p0.x * l.p1.y + l.p1.x * l.p0.y + 2 * l.p1.x * l.p1.y) / 6,
       (l.p1.x - l.p0.x) * (l.p0.y ^ 2 + l.p0.y * l.p1.y + l.p1.y ^ 2) / 3) := by
  cases l
  simp only [PathSeg.to_cubic, momentIntegrals, kdefs, scalar_norm, Prod.mk.injEq]
  push_cast
  refine ⟨?_, ?_, ?_⟩ <;> ring

end Kurbo

/-! ## B. `CubicOffset` -/
namespace Kurbo

/-! ### B.4 the cusp quadratic (any lawful scalar; nothing is assumed about `Scalar.sqrt`) -/
section lawful
variable {K : Type} [Field K] [LinearOrder K] [IsStrictOrderedRing K] [FloorRing K] [Scalar K] [LawfulScalar K]

/-- the quadratic `(c2·t + c1)·t + c0` prepared by `CubicOffset.new` is `d · (c″(t) × c′(t))` with
    `c′ = c.deriv`, `c″ = c.deriv.deriv` (`a × b = a.x·b.y − a.y·b.x`); the constant factor is `1` -/
theorem cusp_sign_numerator (c : CubicBez K) (d t : K) :
    ((CubicOffset.new c d).c2 * t + (CubicOffset.new c d).c1) * t + (CubicOffset.new c d).c0
      = d * ((c.deriv.deriv.eval t).x * (c.deriv.eval t).y - (c.deriv.deriv.eval t).y * (c.deriv.eval t).x) := by
  simp only [CubicOffset.new, kdefs, scalar_norm]
  push_cast
  ring

/-- `cusp_sign` with the numerator identified; the denominator is the model's own `|c′|² · sqrt(|c′|²)` -/
theorem cusp_sign_model_form (c : CubicBez K) (d t : K) :
    (CubicOffset.new c d).cusp_sign t
      = d * ((c.deriv.deriv.eval t).x * (c.deriv.eval t).y - (c.deriv.deriv.eval t).y * (c.deriv.eval t).x)
          / (((c.deriv.eval t).x ^ 2 + (c.deriv.eval t).y ^ 2)
              * Scalar.sqrt ((c.deriv.eval t).x ^ 2 + (c.deriv.eval t).y ^ 2)) + 1 := by
  rw [← cusp_sign_numerator]
  have e : (Vec2.hypot2 ((c.deriv.eval t).to_vec2) : K) = (c.deriv.eval t).x ^ 2 + (c.deriv.eval t).y ^ 2 := by
    simp only [kdefs, scalar_norm]; ring
  simp only [CubicOffset.cusp_sign, c18_new_q, scalar_norm, e, Nat.cast_one]

/-- `eval_deriv` is `cusp_sign` times the source velocity (definitionally; holds for every `Scalar`) -/
theorem offset_eval_deriv_eq {K' : Type} [Scalar K'] (c : CubicBez K') (d t : K') :
    (CubicOffset.new c d).eval_deriv t = (CubicOffset.new c d).cusp_sign t * (c.deriv.eval t).to_vec2 := rfl

end lawful

section real
variable [Scalar ℝ] [LawfulScalar ℝ] [C18RealLaws]

/-! ### B.3 the offset point -/

/-- Where the source velocity `v = c′(t)` does not vanish, the offset vector `o = offset point − source point` has
    length `|d|`, is orthogonal to `v`, and `v × o = d·|v|`: `o = d·(−v.y, v.x)/|v|`, the unit tangent turned by
    `turn_90`.  For `d > 0` it points to the side towards which `+x` turns into `+y`: the LEFT of the direction of
    travel in a `y`-up picture, the RIGHT on a `y`-down screen (kurbo's usual reading); `d < 0` gives the other side. -/
theorem offset_point_distance (c : CubicBez ℝ) (d t : ℝ) (h : c.deriv.eval t ≠ ⟨0, 0⟩) :
    let o : Vec2 ℝ := (CubicOffset.new c d).eval t - c.eval t
    let v : Point ℝ := c.deriv.eval t
    o.x ^ 2 + o.y ^ 2 = d ^ 2 ∧ o.x * v.x + o.y * v.y = 0 ∧
      v.x * o.y - v.y * o.x = d * Real.sqrt (v.x ^ 2 + v.y ^ 2) ∧
      o = ⟨d * (-v.y / Real.sqrt (v.x ^ 2 + v.y ^ 2)), d * (v.x / Real.sqrt (v.x ^ 2 + v.y ^ 2))⟩ := by
  intro o v
  have hv : ¬ (v.x = 0 ∧ v.y = 0) := c18_point_ne_zero h
  have hs := c18_sqrt_pos hv
  have ho : o = ⟨-v.y * d * (1 / Real.sqrt (v.x ^ 2 + v.y ^ 2)), v.x * d * (1 / Real.sqrt (v.x ^ 2 + v.y ^ 2))⟩ := by
    show ((CubicOffset.new c d).eval t - c.eval t : Vec2 ℝ) = _
    rw [← c18_eval_offset_eq]
    simp only [CubicOffset.eval, c18_new_c]
    exact c18_point_add_sub _ _
  set s := Real.sqrt (v.x ^ 2 + v.y ^ 2) with hsdef
  have hne : s ≠ 0 := ne_of_gt hs
  have hss : s ^ 2 = v.x ^ 2 + v.y ^ 2 := Real.sq_sqrt (by positivity)
  have hinv : (1 / s) ^ 2 * (v.x ^ 2 + v.y ^ 2) = 1 := by rw [← hss]; field_simp
  have hinv2 : (1 / s) * (v.x ^ 2 + v.y ^ 2) = s := by rw [← hss]; field_simp
  rw [ho]
  refine ⟨?_, ?_, ?_, ?_⟩
  · simp only
    linear_combination (d ^ 2) * hinv
  · simp only
    ring
  · simp only
    linear_combination d * hinv2
  · simp only [Vec2.mk.injEq]
    constructor <;> ring

/-- where the source velocity vanishes the model's offset vector is `0` (division by `hypot = 0`), so the "offset
    curve" passes through the source point there -/
theorem offset_point_degenerate (c : CubicBez ℝ) (d t : ℝ) (h : c.deriv.eval t = ⟨0, 0⟩) :
    (CubicOffset.new c d).eval t = c.eval t := by
  have e := c18_eval_offset_eq c d t
  rw [h] at e
  simp only [CubicOffset.eval, c18_new_c, e]
  simp only [kdefs, scalar_norm]
  cases c.eval t
  simp

/-- the end points of the offset curve (what a path fitted to it starts and ends at): the source end points moved by
    `d` along `turn_90` of the unit end tangents `p1 − p0`, `p3 − p2`.  (No hypothesis: for `p1 = p0` resp. `p3 = p2` the
    model's velocity vanishes and both sides are the source end point, cf. `offset_point_degenerate`.) -/
theorem offset_eval_zero (c : CubicBez ℝ) (d : ℝ) :
    (CubicOffset.new c d).eval 0 =
      ⟨c.p0.x + d * (-(c.p1.y - c.p0.y) / Real.sqrt ((c.p1.x - c.p0.x) ^ 2 + (c.p1.y - c.p0.y) ^ 2)),
       c.p0.y + d * ((c.p1.x - c.p0.x) / Real.sqrt ((c.p1.x - c.p0.x) ^ 2 + (c.p1.y - c.p0.y) ^ 2))⟩ := by
  simp only [CubicOffset.eval, c18_new_c, c18_eval_offset_eq, c18_deriv_eval_zero, c18_sqrt_scale3,
    (cubic_eval_zero_one c).1, point_add_vec, scalar_norm, Point.mk.injEq]
  constructor
  · rcases eq_or_ne (Real.sqrt ((c.p1.x - c.p0.x) ^ 2 + (c.p1.y - c.p0.y) ^ 2)) 0 with h | h
    · rw [h]; simp
    · field_simp
  · rcases eq_or_ne (Real.sqrt ((c.p1.x - c.p0.x) ^ 2 + (c.p1.y - c.p0.y) ^ 2)) 0 with h | h
    · rw [h]; simp
    · field_simp

theorem offset_eval_one (c : CubicBez ℝ) (d : ℝ) :
    (CubicOffset.new c d).eval 1 =
      ⟨c.p3.x + d * (-(c.p3.y - c.p2.y) / Real.sqrt ((c.p3.x - c.p2.x) ^ 2 + (c.p3.y - c.p2.y) ^ 2)),
       c.p3.y + d * ((c.p3.x - c.p2.x) / Real.sqrt ((c.p3.x - c.p2.x) ^ 2 + (c.p3.y - c.p2.y) ^ 2))⟩ := by
  simp only [CubicOffset.eval, c18_new_c, c18_eval_offset_eq, c18_deriv_eval_one, c18_sqrt_scale3,
    (cubic_eval_zero_one c).2, point_add_vec, scalar_norm, Point.mk.injEq]
  constructor
  · rcases eq_or_ne (Real.sqrt ((c.p3.x - c.p2.x) ^ 2 + (c.p3.y - c.p2.y) ^ 2)) 0 with h | h
    · rw [h]; simp
    · field_simp
  · rcases eq_or_ne (Real.sqrt ((c.p3.x - c.p2.x) ^ 2 + (c.p3.y - c.p2.y) ^ 2)) 0 with h | h
    · rw [h]; simp
    · field_simp
/-! ### B.4 the cusp sign -/

/-- `cusp_sign t = 1 + d·(c″(t) × c′(t)) / |c′(t)|³` (for every `t`; where `c′(t) = 0` both sides are `1`) -/
theorem cusp_sign_formula (c : CubicBez ℝ) (d t : ℝ) :
    (CubicOffset.new c d).cusp_sign t
      = 1 + d * ((c.deriv.deriv.eval t).x * (c.deriv.eval t).y - (c.deriv.deriv.eval t).y * (c.deriv.eval t).x)
          / Real.sqrt ((c.deriv.eval t).x ^ 2 + (c.deriv.eval t).y ^ 2) ^ 3 := by
  rw [cusp_sign_model_form, C18RealLaws.sqrt_eq]
  have hss : Real.sqrt ((c.deriv.eval t).x ^ 2 + (c.deriv.eval t).y ^ 2) ^ 3
      = ((c.deriv.eval t).x ^ 2 + (c.deriv.eval t).y ^ 2)
        * Real.sqrt ((c.deriv.eval t).x ^ 2 + (c.deriv.eval t).y ^ 2) := by
    have := Real.mul_self_sqrt (show 0 ≤ (c.deriv.eval t).x ^ 2 + (c.deriv.eval t).y ^ 2 by positivity)
    linear_combination Real.sqrt ((c.deriv.eval t).x ^ 2 + (c.deriv.eval t).y ^ 2) * this
  rw [hss]; ring

/-- with the usual signed curvature `κ = (c′ × c″)/|c′|³` (positive where the curve turns from `+x` towards `+y`):
    `cusp_sign = 1 − d·κ`.  It vanishes exactly where the offset curve has a cusp (`κ = 1/d`). -/
theorem cusp_sign_curvature (c : CubicBez ℝ) (d t : ℝ) :
    (CubicOffset.new c d).cusp_sign t
      = 1 - d * (((c.deriv.eval t).x * (c.deriv.deriv.eval t).y - (c.deriv.eval t).y * (c.deriv.deriv.eval t).x)
          / Real.sqrt ((c.deriv.eval t).x ^ 2 + (c.deriv.eval t).y ^ 2) ^ 3) := by
  rw [cusp_sign_formula]; ring

/-- the offset curve keeps the direction of travel of the source (`cusp_sign > 0`) exactly where `d·κ < 1`, i.e. where
    the centre of curvature is not reached: `κ ≤ 0` on the side of a positive `d`, or radius of curvature `1/κ > d` -/
theorem cusp_sign_pos_iff (c : CubicBez ℝ) (d t : ℝ) :
    0 < (CubicOffset.new c d).cusp_sign t ↔
      d * (((c.deriv.eval t).x * (c.deriv.deriv.eval t).y - (c.deriv.eval t).y * (c.deriv.deriv.eval t).x)
          / Real.sqrt ((c.deriv.eval t).x ^ 2 + (c.deriv.eval t).y ^ 2) ^ 3) < 1 := by
  rw [cusp_sign_curvature]; constructor <;> intro h <;> linarith

/-! ### B.5 the derivative of the offset curve -/

/-- Where the source velocity does not vanish, `eval_deriv t = cusp_sign t · c′(t)` IS the derivative of the offset
    curve `u ↦ (CubicOffset.new c d).eval u`, coordinate by coordinate (`c′`, `c″` are the derivatives of `c.eval`,
    `c.deriv.eval`: `cubic_deriv_hasDerivAt`, `quad_deriv_hasDerivAt` of C06). -/
theorem offset_deriv (c : CubicBez ℝ) (d t : ℝ) (h : c.deriv.eval t ≠ ⟨0, 0⟩) :
    HasDerivAt (fun u => ((CubicOffset.new c d).eval u).x) ((CubicOffset.new c d).eval_deriv t).x t ∧
    HasDerivAt (fun u => ((CubicOffset.new c d).eval u).y) ((CubicOffset.new c d).eval_deriv t).y t := by
  have hv := c18_point_ne_zero h
  have hX := (quad_deriv_hasDerivAt c.deriv t).1
  have hY := (quad_deriv_hasDerivAt c.deriv t).2
  have hx := (cubic_deriv_hasDerivAt c t).1
  have hy := (cubic_deriv_hasDerivAt c t).2
  have ex : (fun u => ((CubicOffset.new c d).eval u).x) = fun u => (c.eval u).x
      + -(c.deriv.eval u).y * d * (1 / Real.sqrt ((c.deriv.eval u).x ^ 2 + (c.deriv.eval u).y ^ 2)) := by
    funext u
    simp only [CubicOffset.eval, c18_new_c, c18_eval_offset_eq, point_add_vec, scalar_norm]
  have ey : (fun u => ((CubicOffset.new c d).eval u).y) = fun u => (c.eval u).y
      + (c.deriv.eval u).x * d * (1 / Real.sqrt ((c.deriv.eval u).x ^ 2 + (c.deriv.eval u).y ^ 2)) := by
    funext u
    simp only [CubicOffset.eval, c18_new_c, c18_eval_offset_eq, point_add_vec, scalar_norm]
  rw [ex, ey]
  constructor
  · refine (hx.fun_add (c18_hasDerivAt_offset_x d hX hY hv)).congr_deriv ?_
    rw [offset_eval_deriv_eq, cusp_sign_formula]
    simp only [vec2_smul, Point.to_vec2, scalar_norm]
    ring
  · refine (hy.fun_add (c18_hasDerivAt_offset_y d hX hY hv)).congr_deriv ?_
    rw [offset_eval_deriv_eq, cusp_sign_formula]
    simp only [vec2_smul, Point.to_vec2, scalar_norm]
    ring

end real
end Kurbo

/-! ## Non-vacuity and concrete values -/
namespace Kurbo
namespace C18Examples

-- example data (defined in `Proofs/Lemmas/C18.lean`): `c18_cb = ⟨(1,2), (3,5), (4,−1), (7,3)⟩`, an S-shaped cubic;
-- `c18_cbDeg` = the same with `p1 = p0` (vanishing velocity at `t = 0`)

-- the class assumptions of part B are satisfiable (ℝ with Mathlib's `√`)
example : ∃ (S : Scalar ℝ) (_ : @LawfulScalar ℝ _ _ _ _ S), @C18RealLaws S :=
  ⟨c18_realScalar, c18_realScalar_lawful, c18_realScalar_laws⟩

-- values on the executable scalar: `(∫ y dx, ∫ x y dx, ∫ y² dx)` of `c18_cb` (checked against an independent exact
-- integration of the Bernstein polynomials: 267/20, 1437/28, 2167/70)
example : momentIntegrals c18_cb = (267 / 20, 1437 / 28, 2167 / 70) := by decide +kernel
-- additivity at `t = 1/3`
example : momentIntegrals (c18_cb.subsegment ⟨0, 1 / 3⟩) + momentIntegrals (c18_cb.subsegment ⟨1 / 3, 1⟩)
    = momentIntegrals c18_cb := by decide +kernel
-- first component against the signed area: `½(7·3 − 1·2) − (−77/20) = 267/20`
example : c18_cb.signed_area = -77 / 20 ∧ (momentIntegrals c18_cb).1 = (7 * 3 - 1 * 2) / 2 - c18_cb.signed_area := by
  decide +kernel
-- hypothesis of `offset_point_distance` / `offset_deriv`: non-vanishing velocity (here at `t = 1/2`)
example : c18_cb.deriv.eval (1 / 2) ≠ ⟨0, 0⟩ := by decide +kernel
-- hypothesis of `offset_point_degenerate`: vanishing velocity
example : c18_cbDeg.deriv.eval 0 = ⟨0, 0⟩ := by decide +kernel
-- `cusp_sign_numerator` on `c18_cb`, `d = 2`, `t = 1/2`: the prepared quadratic `(c2·t + c1)·t + c0 = (−288/2 − 1044)/2 + 540 = −54`
-- and `d·(c″×c′) = 2·(3·(−15/4) − 3·(21/4)) = −54`
example : ((CubicOffset.new c18_cb 2).c0, (CubicOffset.new c18_cb 2).c1, (CubicOffset.new c18_cb 2).c2) = (540, -1044, -288) ∧
    c18_cb.deriv.eval (1 / 2) = ⟨21 / 4, -15 / 4⟩ ∧ c18_cb.deriv.deriv.eval (1 / 2) = ⟨3, 3⟩ := by decide +kernel

end C18Examples
end Kurbo
