import Proofs.Lawful
/-! Unfolding lemmas for the hand-written operator instances and constructors of `Kurbo/Types.lean`
    (simp set `kdefs`), and the tactic `kring` that decides polynomial identities between kernel terms. -/
namespace Kurbo
open Ops
variable {K : Type} [Scalar K]

@[kdefs] theorem vec2_add (a b : Vec2 K) : a + b = ⟨a.x + b.x, a.y + b.y⟩ := rfl
@[kdefs] theorem vec2_sub (a b : Vec2 K) : a - b = ⟨a.x - b.x, a.y - b.y⟩ := rfl
@[kdefs] theorem vec2_mul (a : Vec2 K) (t : K) : a * t = ⟨a.x * t, a.y * t⟩ := rfl
@[kdefs] theorem vec2_smul (t : K) (a : Vec2 K) : t * a = ⟨a.x * t, a.y * t⟩ := rfl
@[kdefs] theorem vec2_div (a : Vec2 K) (t : K) : a / t = ⟨a.x * srecip t, a.y * srecip t⟩ := rfl
@[kdefs] theorem vec2_neg (a : Vec2 K) : -a = ⟨-a.x, -a.y⟩ := rfl
@[kdefs] theorem point_add_vec (a : Point K) (b : Vec2 K) : a + b = ⟨a.x + b.x, a.y + b.y⟩ := rfl
@[kdefs] theorem point_sub_vec (a : Point K) (b : Vec2 K) : a - b = ⟨a.x - b.x, a.y - b.y⟩ := rfl
@[kdefs] theorem point_sub (a b : Point K) : a - b = (⟨a.x - b.x, a.y - b.y⟩ : Vec2 K) := rfl

attribute [kdefs] Vec2.new Point.new Size.new Rect.new Insets.new Line.new QuadBez.new CubicBez.new Affine.new
  TranslateScale.new Point.to_vec2 Vec2.to_point Vec2.to_size Size.to_vec2 Vec2.ZERO Point.ZERO Point.ORIGIN

attribute [kdefs] Vec2.dot Vec2.cross Vec2.hypot2 Vec2.lerp Vec2.turn_90 Vec2.rotate_scale
  Point.lerp Point.midpoint Point.distance_squared
  Line.eval Line.subsegment Line.start Line.end Line.reversed Line.midpoint Line.signed_area
  QuadBez.eval QuadBez.subsegment QuadBez.subdivide QuadBez.start QuadBez.end QuadBez.deriv QuadBez.signed_area QuadBez.raise
  CubicBez.eval CubicBez.subsegment CubicBez.subdivide CubicBez.start CubicBez.end CubicBez.deriv CubicBez.signed_area

end Kurbo

/-- decide a polynomial identity between kernel terms over a lawful scalar -/
macro "kring" : tactic => `(tactic| (
  simp only [kdefs, scalar_norm, Kurbo.Point.mk.injEq, Kurbo.Vec2.mk.injEq, Kurbo.Line.mk.injEq,
    Kurbo.QuadBez.mk.injEq, Kurbo.CubicBez.mk.injEq, Kurbo.Affine.mk.injEq, Kurbo.Rect.mk.injEq, Prod.mk.injEq]
  <;> (try push_cast) <;> (try refine ⟨?_, ?_⟩) <;> (try refine ⟨?_, ?_⟩) <;> (try refine ⟨?_, ?_⟩)
  <;> (try refine ⟨?_, ?_⟩) <;> (try refine ⟨?_, ?_⟩) <;> ring))

/-- introduce all function arguments of an equation between functions -/
macro "funext_all" : tactic => `(tactic| (repeat (apply funext; intro)))

open Lean Elab Tactic in
/-- fallback of the GenEquiv obligations: unfold both sides and the structure-level helpers, normalise the
    scalar operations, split on the conditions and compare ring normal forms -/
syntax "ge_alg" "[" Lean.Parser.Tactic.simpLemma,* "]" : tactic
macro_rules
  | `(tactic| ge_alg [$ls,*]) => `(tactic| (
      simp only [$ls,*, kdefs, scalar_norm, Kurbo.Point.mk.injEq, Kurbo.Vec2.mk.injEq, Kurbo.Line.mk.injEq,
        Kurbo.QuadBez.mk.injEq, Kurbo.CubicBez.mk.injEq, Kurbo.Affine.mk.injEq, Kurbo.Rect.mk.injEq,
        Kurbo.Size.mk.injEq, Kurbo.Insets.mk.injEq, Kurbo.TranslateScale.mk.injEq, Kurbo.Nearest.mk.injEq, Prod.mk.injEq]
      <;> (try push_cast) <;> (try split_ifs) <;> (try (repeat' constructor)) <;> (try ring_nf) <;> (try norm_num) <;> (try linarith)))
