import Kurbo.Svg
namespace Kurbo
end Kurbo
