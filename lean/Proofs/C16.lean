import Proofs.Lemmas.C16Num
/-! # C16 (and the parser part of C14) – the SVG path parser `BezPath::from_svg`

Everything is about the hand-written model `Kurbo/Svg.lean` exactly as it stands and holds for an arbitrary `[Scalar K]`
(no arithmetic law is used), hence verbatim for the `Float` instantiation that is compared bit for bit with the crate.
`panic` in `LR` / `SvgRes` models a Rust panic (`unget` at `ix = 0`; fuel exhaustion in `svgLoop`).
Helper definitions and lemmas: `Proofs/Lemmas/C16.lean` (lexer), `C16Cmd` (one command), `C16Loop` (fuel), `C16Spec` (number
grammar, lexer as a function of the unread bytes), `C16Step` (separators, chunks, arms of `svgCommand`), `C16Num` (malformed numbers).

## Proved
1. **Lexer invariants** (`skipWs_ix`, `digitsLoop_ix`, `expDigits_ix`, `getNumber_ix`, `optComma_ix`, `getFlag_ix`,
   `getNumberPair_ix`, `getMaybeRelative_ix`, `getCmd_ix`, `getCmd_result`): every lexer function returns a lexer over the same bytes
   whose index did not decrease and is still `≤ data.size`; the index increases strictly for every function that returns a value
   (`getNumber`, `getFlag`, `getNumberPair`, `getMaybeRelative`).
2. **No lexer function panics** (`digitsLoop_no_panic` … `getCmd_no_panic`): every `unget` follows a successful `getByte`
   (`unget_after_getByte_ok`).
3. `svgCommand_no_panic`, `svgCommand_progress`, `svgCommand_last_cmd`, `loop_iteration_progress` (one iteration of the loop
   consumes at least one byte; needs – and preserves – the invariant `SvgSt.Inv`: `last_cmd` is never `z`/`Z`; a counterexample
   without it is given).
4. **`from_svg_total`, `from_svg_total_string`, `from_svg_total'`**: the parser never panics, the fuel `data.size + 1` always
   suffices (`svgLoop_fuel_enough`), and more fuel changes nothing (`svgLoop_fuel_irrelevant`).
5. **`parse_errors_*`**: `UninitializedPath` for a first letter other than `M`/`m` – known command or not, the test precedes the
   unknown-command test (`parse_errors_uninitialized`, `…_cmd`); `UnknownCommand c` for any other byte on a non-empty path
   (`parse_errors_unknown_cmd`); the complete case list `parse_errors_cmd`; the number/flag readers only ever fail with `Wrong` or
   `UnexpectedEof` (`parse_errors_number`), `UnexpectedEof` exactly when only white space is left (`parse_errors_number_eof`),
   `Wrong` when the first byte is no digit/sign/period (`parse_errors_number_start`).  Also stated, because it is what the model
   (and the crate) does: a byte that is neither a letter nor – after a first command – a number start *ends the parse with `Ok`*
   (`parse_stops_silently`): `from_svg "M1 2 #L3 4"` is `Ok [MoveTo (1,2)]`, `from_svg "1 2"` is `Ok []`.
6. **`getNumber_spec`** in full generality (`getNumber_spec_at` anywhere in a buffer): white space, then a token of
   `[+-]? (d+ ('.' d*)? | '.' d+) ([eE] [+-]? d+)?` (structure `NumParts` with the decidable predicate `NumParts.Valid`), then the end
   of input or a byte that cannot continue the token (`NumParts.Stops`): `getNumber` returns `tokValue (parseTok token)` and stops
   right behind the token.  Malformed shapes that give `Wrong`: no digit at all (`getNumber_wrong_without_digits`: `"+"`, `"."`,
   `"-.x"`), exponent without digits (`getNumber_wrong_exponent_without_digits`: `"1e"`, `"1e+"`, `"2.5Ex"`).
7. **Step lemmas**, for arbitrary white space, comma separators and number spellings (`NumChunk`, `PtChunk`, `FlagChunk`):
   `cmd_*` = `svgCommand` on the spelled arguments of `Z M L H V Q T C S A` (absolute and relative); `loop_letter` /
   `loop_implicit` / `step_letter` / `step_implicit` = how the loop reaches `svgCommand` for a spelled letter and for implicit
   repetition (of *any* command); the combined `step_*` (`svgLoop (fuel+1) st (spelling ++ rest) = svgLoop fuel st' rest`) for
   `Z M L H V Q T C S`, `step_lineTo_implicit`, `step_curveTo_implicit`, `step_end`; the fuel-free `run_step`; and a whole-string
   instance `parse_moveTo_lineTo_close` (`ws* M x y x' y' ws* Z ws*` ⇒ `[MoveTo, LineTo, ClosePath]`) showing that they compose.
8. Concrete evaluations over `Rat` by kernel evaluation (`decide +kernel`, no `native_decide`).

## NOT proved here
* `parse_render` (induction over an arbitrary command list) and the write→parse round trip (DESIGN targets) – only the step
  lemmas they need and one composed instance.
* Nothing about the *geometry* of the arc command: `cmd_arc` says which arguments are lexed and that the appended elements are
  `arcElements …` (= the cubics of `Arc.from_svg_arc`, or a `LineTo`), not what those are.
* `tokValue (parseTok tok)` is *the model's* value of a token; that `parseTok` computes the decimal value denoted by the digits
  (and that Rust's `str::parse::<f64>` rounds it correctly) is not a theorem – it is tied by the bit-exact correspondence runs.
* The grammar is given as a structure of parts (`NumParts`) with a decidable validity predicate, not as a recogniser on raw byte
  lists; no theorem says that every byte list on which `getNumber` succeeds has such a decomposition (the converse of the spec).
-/
set_option linter.unusedSectionVars false
namespace Kurbo
variable {K : Type} [Scalar K]

/-! ## 1. Lexer invariants: same bytes, index never decreases and stays inside the buffer

`Lx.Le l l'` unfolds (`Lx.Le_iff`) to `l'.data = l.data ∧ l.ix ≤ l'.ix ∧ (l.ix ≤ l.data.size → l'.ix ≤ l'.data.size)`,
`Lx.Lt` is the same with `l.ix < l'.ix`. -/

theorem skipWs_ix (l : Lx) :
    (skipWs l).data = l.data ∧ l.ix ≤ (skipWs l).ix ∧ (l.ix ≤ l.data.size → (skipWs l).ix ≤ (skipWs l).data.size) :=
  Lx.Le_iff.mp (skipWs_le l)

theorem digitsLoop_ix {l l' : Lx} {cnt n : Nat} {seen : Bool} (h : digitsLoop l cnt seen = .ok n l') :
    l'.data = l.data ∧ l.ix ≤ l'.ix ∧ (l.ix ≤ l.data.size → l'.ix ≤ l'.data.size) ∧
    -- it counts at most one digit per byte consumed
    cnt ≤ n ∧ n - cnt ≤ l'.ix - l.ix := by
  obtain ⟨h1, h2, h3⟩ := digitsLoop_ok h
  exact ⟨h1.data, h1.ix, h1.wf, h2, h3⟩

theorem expDigits_ix {l l' : Lx} {u : Unit} (h : expDigits l = .ok u l') :
    l'.data = l.data ∧ l.ix ≤ l'.ix ∧ (l.ix ≤ l.data.size → l'.ix ≤ l'.data.size) :=
  Lx.Le_iff.mp (expDigits_ok h)

/-- `getNumber` consumed at least one byte (in fact at least one digit) -/
theorem getNumber_ix {l l' : Lx} {x : K} (h : getNumber (K := K) l = .ok x l') :
    l'.data = l.data ∧ l.ix < l'.ix ∧ (l.ix ≤ l.data.size → l'.ix ≤ l'.data.size) :=
  Lx.Lt_iff.mp (getNumber_ok h)

theorem optComma_ix {l l' : Lx} (h : optComma l = some l') :
    l'.data = l.data ∧ l.ix ≤ l'.ix ∧ (l.ix ≤ l.data.size → l'.ix ≤ l'.data.size) :=
  Lx.Le_iff.mp (optComma_le h)

theorem getFlag_ix {l l' : Lx} {b : Bool} (h : getFlag l = .ok b l') :
    l'.data = l.data ∧ l.ix < l'.ix ∧ (l.ix ≤ l.data.size → l'.ix ≤ l'.data.size) :=
  Lx.Lt_iff.mp (getFlag_ok h)

theorem getNumberPair_ix {l l' : Lx} {p : Point K} (h : getNumberPair (K := K) l = .ok p l') :
    l'.data = l.data ∧ l.ix < l'.ix ∧ (l.ix ≤ l.data.size → l'.ix ≤ l'.data.size) :=
  Lx.Lt_iff.mp (getNumberPair_ok h)

theorem getMaybeRelative_ix {cmd : UInt8} {p q : Point K} {l l' : Lx} (h : getMaybeRelative cmd p l = .ok q l') :
    l'.data = l.data ∧ l.ix < l'.ix ∧ (l.ix ≤ l.data.size → l'.ix ≤ l'.data.size) :=
  Lx.Lt_iff.mp (getMaybeRelative_ok h)

theorem getCmd_ix {lc : UInt8} {l l' : Lx} {oc : Option UInt8} (h : getCmd lc l = some (oc, l')) :
    l'.data = l.data ∧ l.ix ≤ l'.ix ∧ (l.ix ≤ l.data.size → l'.ix ≤ l'.data.size) := by
  rcases getCmd_cases lc l with ⟨l1, h1, hle⟩ | ⟨c, l1, h1, hc, hlt⟩ | ⟨c, l1, h1, hne, hg, hc⟩
  · rw [h] at h1; simp only [Option.some.injEq, Prod.mk.injEq] at h1; obtain ⟨rfl, rfl⟩ := h1
    exact ⟨hle.data, hle.ix, hle.wf⟩
  · rw [h] at h1; simp only [Option.some.injEq, Prod.mk.injEq] at h1; obtain ⟨rfl, rfl⟩ := h1
    exact ⟨hlt.data, Nat.le_of_lt hlt.ix, hlt.wf⟩
  · rw [h] at h1; simp only [Option.some.injEq, Prod.mk.injEq] at h1; obtain ⟨rfl, rfl⟩ := h1
    exact Lx.Le_iff.mp (skipWs_le l)

/-- the three things `getCmd` can do: end the command loop (`none`) without moving past the white space; consume a letter (index
    strictly larger); or – implicit repetition, only if there was a previous command – return that command and stay *at* a byte
    that can start a number (sign, period, digit) -/
theorem getCmd_result (lc : UInt8) (l : Lx) :
    (∃ l', getCmd lc l = some (none, l') ∧ l.Le l') ∨
    (∃ c l', getCmd lc l = some (some c, l') ∧ (isLower c || isUpper c) = true ∧ l.Lt l') ∨
    (∃ c l1, getCmd lc l = some (some lc, skipWs l) ∧ lc ≠ 0 ∧ getByte (skipWs l) = some (c, l1) ∧ isNumStart c = true) :=
  getCmd_cases lc l

example : getCmd 0 ⟨"  L1".toUTF8, 0⟩ = some (some 76, ⟨"  L1".toUTF8, 3⟩) := by decide +kernel
example : getCmd 76 ⟨" -1".toUTF8, 0⟩ = some (some 76, ⟨" -1".toUTF8, 1⟩) := by decide +kernel
example : getCmd 0 ⟨" -1".toUTF8, 0⟩ = some (none, ⟨" -1".toUTF8, 1⟩) := by decide +kernel
example : getNumber (K := Rat) ⟨" -1.5e1,".toUTF8, 0⟩ = .ok (-15) ⟨" -1.5e1,".toUTF8, 7⟩ := by decide +kernel
example : digitsLoop ⟨"12.5.".toUTF8, 0⟩ 0 false = .ok 3 ⟨"12.5.".toUTF8, 4⟩ := by decide +kernel
example : expDigits ⟨"12x".toUTF8, 0⟩ = .ok () ⟨"12x".toUTF8, 2⟩ := by decide +kernel
example : optComma ⟨" ,1".toUTF8, 0⟩ = some ⟨" ,1".toUTF8, 2⟩ := by decide +kernel
example : getFlag ⟨" 1".toUTF8, 0⟩ = .ok true ⟨" 1".toUTF8, 2⟩ := by decide +kernel
example : getNumberPair (K := Rat) ⟨"1,2 ".toUTF8, 0⟩ = .ok ⟨1, 2⟩ ⟨"1,2 ".toUTF8, 4⟩ := by decide +kernel
example : getMaybeRelative (K := Rat) 108 ⟨10, 20⟩ ⟨"1-2".toUTF8, 0⟩ = .ok ⟨11, 18⟩ ⟨"1-2".toUTF8, 3⟩ := by decide +kernel


/-! ## 2. No lexer function panics: every `unget` follows a successful `getByte`, hence happens at `ix ≥ 1` -/

/-- the reason: `unget` directly after `getByte` succeeds and restores the lexer -/
theorem unget_after_getByte_ok {l l' : Lx} {c : UInt8} (h : getByte l = some (c, l')) : unget l' = some l :=
  unget_after_getByte h

example : getByte ⟨"ab".toUTF8, 1⟩ = some (98, ⟨"ab".toUTF8, 2⟩) := by decide +kernel

theorem digitsLoop_no_panic (l : Lx) (cnt : Nat) (seen : Bool) : digitsLoop l cnt seen ≠ .panic :=
  digitsLoop_ne_panic l cnt seen
theorem expDigits_no_panic (l : Lx) : expDigits l ≠ .panic := expDigits_ne_panic l
theorem getNumber_no_panic (l : Lx) : getNumber (K := K) l ≠ .panic := getNumber_ne_panic l
/-- `optComma` returns `some` -/
theorem optComma_no_panic (l : Lx) : ∃ l', optComma l = some l' := by
  obtain ⟨l', h, _⟩ := optComma_some l; exact ⟨l', h⟩
theorem getFlag_no_panic (l : Lx) : getFlag l ≠ .panic := getFlag_ne_panic l
theorem getNumberPair_no_panic (l : Lx) : getNumberPair (K := K) l ≠ .panic := getNumberPair_ne_panic l
theorem getMaybeRelative_no_panic (cmd : UInt8) (p : Point K) (l : Lx) : getMaybeRelative cmd p l ≠ .panic :=
  getMaybeRelative_ne_panic cmd p l
/-- `getCmd` returns `some` -/
theorem getCmd_no_panic (lc : UInt8) (l : Lx) : ∃ r, getCmd lc l = some r := by
  cases h : getCmd lc l with
  | none => exact absurd h (getCmd_ne_panic lc l)
  | some r => exact ⟨r, rfl⟩

/-! ## 3. One command: no panic, progress -/

/-- for every command byte, state and lexer the result of `svgCommand` is `.ok` or `.err`, never `.panic` -/
theorem svgCommand_no_panic (c : UInt8) (st : SvgSt K) (l : Lx) : svgCommand c st l ≠ .panic := by
  intro h; exact svgCommand_post h

/-- on `.ok` the lexer did not move backwards; it moved forward by at least one byte unless the command is `z`/`Z`
    (which reads nothing and returns the lexer unchanged); and `.ok` is only returned for the twenty known command letters -/
theorem svgCommand_progress {c : UInt8} {st st' : SvgSt K} {l l' : Lx} (h : svgCommand c st l = .ok st' l') :
    l'.data = l.data ∧ l.ix ≤ l'.ix ∧ (l.ix ≤ l.data.size → l'.ix ≤ l'.data.size) ∧
    knownCmd (lowerCmd c) = true ∧ st'.path ≠ [] ∧
    (c ≠ 122 → c ≠ 90 → l.ix < l'.ix) ∧ ((c = 122 ∨ c = 90) → l' = l) := by
  obtain ⟨h1, h2, h3, -, h4, h5⟩ := svgCommand_post h
  refine ⟨h1.data, h1.ix, h1.wf, h3, h2, ?_, ?_⟩
  · intro hz hZ
    exact (h4 (fun h => by rcases lowerCmd_eq_122.mp h with h | h <;> contradiction)).1.ix
  · intro hz
    exact (h5 (lowerCmd_eq_122.mpr hz)).1

example : svgCommand (K := Rat) 76 { path := [.MoveTo ⟨0, 0⟩], first_pt := ⟨0, 0⟩, last_pt := ⟨0, 0⟩ } ⟨"L1 2".toUTF8, 1⟩ =
    .ok { path := [.MoveTo ⟨0, 0⟩, .LineTo ⟨1, 2⟩], last_cmd := 76, last_ctrl := some ⟨1, 2⟩, first_pt := ⟨0, 0⟩, last_pt := ⟨1, 2⟩ }
      ⟨"L1 2".toUTF8, 4⟩ := by decide +kernel

/-- what a successful command leaves in `last_cmd`: the command itself (`M`/`m` leave `L`/`l`), and `z`/`Z` leave it untouched –
    so `last_cmd` is never `z`/`Z` (`SvgSt.Inv`), which is why an implicitly repeated command always reads a number -/
theorem svgCommand_last_cmd {c : UInt8} {st st' : SvgSt K} {l l' : Lx} (h : svgCommand c st l = .ok st' l') :
    ((c = 109 ∨ c = 77) → st'.last_cmd = c - 1) ∧
    ((c = 122 ∨ c = 90) → st'.last_cmd = st.last_cmd) ∧
    (c ≠ 109 → c ≠ 77 → c ≠ 122 → c ≠ 90 → st'.last_cmd = c) ∧
    (st.Inv → st'.Inv) := by
  obtain ⟨-, -, -, -, h4, h5⟩ := svgCommand_post h
  refine ⟨?_, fun hz => (h5 (lowerCmd_eq_122.mpr hz)).2, ?_, svgCommand_inv h⟩
  · intro hm
    have hlc : lowerCmd c = 109 := by rcases hm with rfl | rfl <;> decide
    exact (h4 (by rw [hlc]; decide)).2.1 hlc
  · intro h1 h2 h3 h4'
    have hne : lowerCmd c ≠ 122 := fun h => by rcases lowerCmd_eq_122.mp h with h | h <;> contradiction
    exact (h4 hne).2.2 (fun h => by rcases lowerCmd_eq_109 h with h | h <;> contradiction)

/-- **one loop iteration consumes at least one byte**: if `getCmd` returns a command and `svgCommand` succeeds, the lexer index
    is strictly larger than before `getCmd` – either `getCmd` consumed the command letter, or (implicit repetition) it consumed
    nothing and the repeated command, which is never `z`, starts with a `getNumber` that consumes at least one byte -/
theorem loop_iteration_progress {st st' : SvgSt K} {l l1 l2 : Lx} {c : UInt8} (hinv : st.Inv)
    (hg : getCmd st.last_cmd l = some (some c, l1)) (hs : svgCommand c st l1 = .ok st' l2) :
    l2.data = l.data ∧ l.ix < l2.ix ∧ (l.ix ≤ l.data.size → l2.ix ≤ l2.data.size) ∧ st'.Inv := by
  rcases svgLoop_step st l hinv with ⟨l', h⟩ | ⟨c', l1', h, ⟨e, hs'⟩ | ⟨st'', l2', hs', hinv', hlt⟩⟩
  · rw [hg] at h; simp at h
  · rw [hg] at h; simp only [Option.some.injEq, Prod.mk.injEq] at h
    obtain ⟨rfl, rfl⟩ := h
    rw [hs] at hs'; simp at hs'
  · rw [hg] at h; simp only [Option.some.injEq, Prod.mk.injEq] at h
    obtain ⟨rfl, rfl⟩ := h
    rw [hs] at hs'; simp only [LR.ok.injEq] at hs'
    obtain ⟨rfl, rfl⟩ := hs'
    exact ⟨hlt.data, hlt.ix, hlt.wf, hinv'⟩

/-- the hypotheses are satisfiable: the implicit `L` in `"M0 0 1 2"` (state after the `M`, lexer behind `"M0 0"`) -/
example :
    let st : SvgSt Rat := { path := [.MoveTo ⟨0, 0⟩], last_cmd := 76, last_ctrl := some ⟨0, 0⟩, first_pt := ⟨0, 0⟩, last_pt := ⟨0, 0⟩ }
    st.Inv ∧ getCmd st.last_cmd ⟨"M0 0 1 2".toUTF8, 4⟩ = some (some 76, ⟨"M0 0 1 2".toUTF8, 5⟩) ∧
    svgCommand 76 st ⟨"M0 0 1 2".toUTF8, 5⟩ =
      .ok { path := [.MoveTo ⟨0, 0⟩, .LineTo ⟨1, 2⟩], last_cmd := 76, last_ctrl := some ⟨1, 2⟩, first_pt := ⟨0, 0⟩, last_pt := ⟨1, 2⟩ }
        ⟨"M0 0 1 2".toUTF8, 8⟩ :=
  ⟨by show lowerCmd 76 ≠ 122; decide, by decide +kernel, by decide +kernel⟩

/-- without the invariant the statement is false: with `last_cmd = 'z'` the iteration on `"1"` consumes nothing -/
example : getCmd 122 ⟨"1".toUTF8, 0⟩ = some (some 122, ⟨"1".toUTF8, 0⟩) ∧
    svgCommand (K := Rat) 122 { path := [.MoveTo ⟨0, 0⟩], last_cmd := 122, first_pt := ⟨0, 0⟩, last_pt := ⟨0, 0⟩ } ⟨"1".toUTF8, 0⟩ =
      .ok { path := [.MoveTo ⟨0, 0⟩, .ClosePath], last_cmd := 122, first_pt := ⟨0, 0⟩, last_pt := ⟨0, 0⟩,
            implicit_moveto := some ⟨0, 0⟩ } ⟨"1".toUTF8, 0⟩ := by decide +kernel


/-! ## 4. Totality: `from_svg` never panics (C14 for the parser) -/

/-- the fuel is never exhausted and no `unget` underflows: from a lexer inside its buffer and a state whose `last_cmd` is not
    `z`/`Z`, any fuel larger than the number of remaining bytes gives a non-panic result -/
theorem svgLoop_fuel_enough (fuel : Nat) (st : SvgSt K) (l : Lx) (hwf : l.ix ≤ l.data.size) (hinv : st.Inv)
    (hf : l.data.size - l.ix < fuel) : svgLoop fuel st l ≠ .panic :=
  svgLoop_ne_panic fuel st l hwf hinv hf

/-- … and the result does not depend on how much larger the fuel is -/
theorem svgLoop_fuel_irrelevant (f1 f2 : Nat) (st : SvgSt K) (l : Lx) (hwf : l.ix ≤ l.data.size) (hinv : st.Inv)
    (h1 : l.data.size - l.ix < f1) (h2 : l.data.size - l.ix < f2) : svgLoop f1 st l = svgLoop f2 st l :=
  svgLoop_fuel_irrel f1 f2 st l hwf hinv h1 h2

/-- the hypotheses hold at the start of `fromSvgBytes`: index 0, initial state (`last_cmd = 0`), fuel `size + 1` -/
example : (⟨"M1 2Z".toUTF8, 0⟩ : Lx).ix ≤ "M1 2Z".toUTF8.size ∧ (svgInit (K := Rat)).Inv ∧
    "M1 2Z".toUTF8.size - 0 < "M1 2Z".toUTF8.size + 1 := ⟨by decide, svgInit_inv, by decide⟩

/-- **THE no-panic theorem**: for every byte string the parser returns `Ok` or one of the four errors -/
theorem from_svg_total (data : ByteArray) : fromSvgBytes (K := K) data ≠ .panic := fromSvgBytes_ne_panic data

theorem from_svg_total_string (s : String) : fromSvg (K := K) s ≠ .panic := fromSvgBytes_ne_panic s.toUTF8

/-- the same, in the form of DESIGN appendix A -/
theorem from_svg_total' (s : String) : ∃ r, fromSvg (K := K) s = r ∧ r ≠ .panic := ⟨_, rfl, from_svg_total_string s⟩

/-! ## 5. Which error when -/

/-- (b′) a first command other than `M`/`m`: any byte other than `m`/`M` given to `svgCommand` on an empty path is
    `UninitializedPath` – the test comes *before* the unknown-command test, so also for unknown letters -/
theorem parse_errors_uninitialized_cmd (c : UInt8) (st : SvgSt K) (l : Lx) (h1 : c ≠ 109) (h2 : c ≠ 77)
    (hp : st.path = []) : svgCommand c st l = .err .uninitializedPath := by
  cases h : svgCommand c st l with
  | panic => exact (svgCommand_post h).elim
  | ok st' l' =>
    obtain ⟨-, -, -, h3, -⟩ := svgCommand_post h
    rcases h3 with h3 | h3 | h3 <;> contradiction
  | err e =>
    rcases svgCommand_post h with ⟨h3, -⟩ | ⟨h3, -⟩
    · rw [h3]
    · rcases h3 with h3 | h3 | h3 <;> contradiction

/-- (a) if the first non-white-space byte of the input is a letter other than `m`/`M` – known command or not – the result is
    `UninitializedPath` -/
theorem parse_errors_uninitialized (data : ByteArray) (c : UInt8) (l1 : Lx)
    (hg : getByte (skipWs ⟨data, 0⟩) = some (c, l1)) (hl : (isLower c || isUpper c) = true) (h1 : c ≠ 109) (h2 : c ≠ 77) :
    fromSvgBytes (K := K) data = .err .uninitializedPath := by
  have hcmd : getCmd 0 ⟨data, 0⟩ = some (some c, l1) := by
    unfold getCmd; simp only [hg, hl, if_true]
  unfold fromSvgBytes
  exact svgLoop_step_err _ hcmd (parse_errors_uninitialized_cmd c _ l1 h1 h2 rfl)

example : getByte (skipWs ⟨" L1 1".toUTF8, 0⟩) = some (76, ⟨" L1 1".toUTF8, 2⟩) := by decide +kernel
example : fromSvg (K := Rat) "L1 1" = .err .uninitializedPath := by decide +kernel
example : fromSvg (K := Rat) " X" = .err .uninitializedPath := by decide +kernel

/-- (b) on a non-empty path a byte whose lower-case form (`lowerCmd`: `+32` for `A..Z`) is not one of `m l h v q t c s a z`
    gives `UnknownCommand` with exactly that byte – in particular every letter other than `mMlLhHvVqQtTcCsSaAzZ` -/
theorem parse_errors_unknown_cmd (c : UInt8) (st : SvgSt K) (l : Lx) (hk : knownCmd (lowerCmd c) = false)
    (hp : st.path ≠ []) : svgCommand c st l = .err (.unknownCommand c) := by
  cases h : svgCommand c st l with
  | panic => exact (svgCommand_post h).elim
  | ok st' l' =>
    obtain ⟨-, -, h3, -⟩ := svgCommand_post h
    rw [hk] at h3; simp at h3
  | err e =>
    rcases svgCommand_post h with ⟨-, -, -, h3⟩ | ⟨-, ⟨-, h3, -⟩ | ⟨h3, -⟩⟩
    · exact absurd h3 hp
    · rw [hk] at h3; simp at h3
    · rw [h3]

example : knownCmd (lowerCmd 88) = false := by decide
example : fromSvg (K := Rat) "M1 2 X" = .err (.unknownCommand 88) := by decide +kernel
example : fromSvg (K := Rat) "M1 2 b3" = .err (.unknownCommand 98) := by decide +kernel

/-- the complete list of errors of one command, with the conditions under which each occurs -/
theorem parse_errors_cmd {c : UInt8} {st : SvgSt K} {l : Lx} {e : SvgErr} (h : svgCommand c st l = .err e) :
    (e = .uninitializedPath ∧ c ≠ 109 ∧ c ≠ 77 ∧ st.path = []) ∨
    ((c = 109 ∨ c = 77 ∨ st.path ≠ []) ∧
      (((e = .wrong ∨ e = .unexpectedEof) ∧ knownCmd (lowerCmd c) = true ∧ c ≠ 122 ∧ c ≠ 90) ∨
       (e = .unknownCommand c ∧ knownCmd (lowerCmd c) = false))) := by
  rcases svgCommand_post h with h1 | ⟨h1, ⟨h2, h3, h4⟩ | h2⟩
  · exact .inl h1
  · refine .inr ⟨h1, .inl ⟨h2, h3, ?_, ?_⟩⟩ <;> (intro hc; exact h4 (lowerCmd_eq_122.mpr (by simp [hc])))
  · exact .inr ⟨h1, .inr h2⟩

/-- (c) the lexer functions that read numbers and flags produce no other errors than `Wrong` and `UnexpectedEof` -/
theorem parse_errors_number {l : Lx} {e : SvgErr} :
    (getNumber (K := K) l = .err e → e = .wrong ∨ e = .unexpectedEof) ∧
    (getFlag l = .err e → e = .wrong ∨ e = .unexpectedEof) ∧
    (getNumberPair (K := K) l = .err e → e = .wrong ∨ e = .unexpectedEof) ∧
    (∀ cmd (p : Point K), getMaybeRelative cmd p l = .err e → e = .wrong ∨ e = .unexpectedEof) :=
  ⟨getNumber_err, getFlag_err, getNumberPair_err, fun _ _ => getMaybeRelative_err⟩

/-- (c) `getNumber` says `UnexpectedEof` exactly when only white space is left -/
theorem parse_errors_number_eof (l : Lx) :
    getNumber (K := K) l = .err .unexpectedEof ↔ (skipWs l).data.size ≤ (skipWs l).ix :=
  getNumber_eof_iff l

/-- (c) a number position whose first non-white-space byte is not a digit, a sign or a period gives `Wrong` -/
theorem parse_errors_number_start {l l1 : Lx} {c : UInt8} (hg : getByte (skipWs l) = some (c, l1))
    (hd : isDigit c = false) (h43 : c ≠ 43) (h45 : c ≠ 45) (h46 : c ≠ 46) : getNumber (K := K) l = .err .wrong :=
  getNumber_wrong_of_start hg hd h43 h45 h46

example : getByte (skipWs ⟨" x".toUTF8, 0⟩) = some (120, ⟨" x".toUTF8, 2⟩) := by decide +kernel
example : getNumber (K := Rat) ⟨"  ".toUTF8, 0⟩ = .err .unexpectedEof := by decide +kernel
example : fromSvg (K := Rat) "M1e 2" = .err .wrong := by decide +kernel
example : fromSvg (K := Rat) "M1 ." = .err .wrong := by decide +kernel
example : fromSvg (K := Rat) "M1 +" = .err .wrong := by decide +kernel
example : fromSvg (K := Rat) "M1 1e+" = .err .wrong := by decide +kernel
example : fromSvg (K := Rat) "M1" = .err .unexpectedEof := by decide +kernel
example : fromSvg (K := Rat) "M 1 2 A 1 1 0 2 0 3 3" = .err .wrong := by decide +kernel   -- flag must be 0/1

/-- not an error, but what the model (and the crate) does with garbage: a byte that is neither a letter nor – once there was a
    command – a sign, period or digit ends the parse loop, and the path read so far is returned as `Ok` -/
theorem parse_stops_silently (fuel : Nat) (st : SvgSt K) (l l1 : Lx) (c : UInt8) (hg : getByte (skipWs l) = some (c, l1))
    (hl : (isLower c || isUpper c) = false) (hn : st.last_cmd = 0 ∨ isNumStart c = false) :
    svgLoop (fuel + 1) st l = .ok st.path := by
  have hcmd : getCmd st.last_cmd l = some (none, skipWs l) := by
    unfold getCmd
    simp only [hg, hl, Bool.false_eq_true, if_false, unget_after_getByte hg]
    have : (st.last_cmd != 0 && (c == 45 || c == 43 || c == 46 || isDigit c)) = false := by
      rcases hn with h | h
      · simp [h]
      · unfold isNumStart at h; simp [h]
    rw [if_neg (by simp [this])]; rfl
  exact svgLoop_step_end fuel hcmd

example : fromSvg (K := Rat) "M1 2 #L3 4" = .ok [.MoveTo ⟨1, 2⟩] := by decide +kernel
example : fromSvg (K := Rat) "1 2" = .ok [] := by decide +kernel
example : fromSvg (K := Rat) "" = .ok [] := by decide +kernel


/-! ## 6. `getNumber_spec`

The grammar `[+-]? (d+ ('.' d*)? | '.' d+) ([eE] [+-]? d+)?` is the structure `NumParts` (sign, digits before the period, period
present?, digits after it, exponent present?, exponent letter, exponent sign, exponent digits) with
`NumParts.Valid` (each part is what it should be, at least one mantissa digit, at least one exponent digit) and
`NumParts.bytes` (the concatenation).  `p.Stops rest` says `rest` cannot continue the token: it is empty or starts with a
non-digit that – if there is no exponent – is not `e`/`E` and – if there is neither exponent nor period – is not a period.
`l.rem` are the unread bytes of `l`, `l.adv n` is `l` moved forward by `n`. -/

/-- general form: anywhere in a buffer -/
theorem getNumber_spec_at (l : Lx) (ws rest : List UInt8) (p : NumParts) (hv : p.Valid) (hs : p.Stops rest)
    (hws : ∀ c ∈ ws, isWs c = true) (hrem : l.rem = ws ++ p.bytes ++ rest) :
    getNumber (K := K) l = .ok (tokValue (parseTok p.bytes)) (l.adv (ws.length + p.bytes.length)) :=
  getNumber_spec_rem l ws rest p hv hs hws hrem

/-- the form of DESIGN appendix A: the buffer is `ws ++ token ++ rest`, read from index 0 -/
theorem getNumber_spec (ws rest : List UInt8) (p : NumParts) (hv : p.Valid) (hs : p.Stops rest)
    (hws : ∀ c ∈ ws, isWs c = true) :
    getNumber (K := K) ⟨⟨(ws ++ p.bytes ++ rest).toArray⟩, 0⟩ =
      .ok (tokValue (parseTok p.bytes)) ⟨⟨(ws ++ p.bytes ++ rest).toArray⟩, ws.length + p.bytes.length⟩ := by
  have := getNumber_spec_rem (K := K) ⟨⟨(ws ++ p.bytes ++ rest).toArray⟩, 0⟩ ws rest p hv hs hws (by simp [Lx.rem])
  rw [this]; simp [Lx.adv]

/-- `" -12.5e+3,"`: white space, then sign `-`, digits `12`, period, digits `5`, exponent `e+3`, then a comma -/
example : let p : NumParts := { sign := [45], ip := [49, 50], dot := true, fd := [53], hasExp := true, e := 101, esign := [43], ed := [51] }
    p.Valid ∧ p.Stops [44] ∧ p.bytes = "-12.5e+3".toUTF8.data.toList ∧
    getNumber (K := Rat) ⟨" -12.5e+3,".toUTF8, 0⟩ = .ok (-12500) ⟨" -12.5e+3,".toUTF8, 9⟩ := by
  refine ⟨⟨by decide, by decide, by decide, by decide, by decide, by decide⟩, ?_, by decide, by decide +kernel⟩
  intro c r h
  simp only [List.cons.injEq] at h
  rw [← h.1]; decide

/-- `".5"` in front of a second period (as in the packed spelling `"0.5.5"` = two numbers) -/
example : let p : NumParts := { ip := [], dot := true, fd := [53] }
    p.Valid ∧ p.Stops [46, 53] := by
  refine ⟨⟨by decide, by decide, by decide, by decide, by decide, by decide⟩, ?_⟩
  intro c r h
  simp only [List.cons.injEq] at h
  rw [← h.1]; decide


/-- malformed: a sign and/or a period with no digit at all (`"+"`, `"-."`, `"."`, `"+x"` …) gives `Wrong`, whatever follows
    (`rest` = what comes after the sign/period: empty or not starting with a digit, nor with a period if none was read) -/
theorem getNumber_wrong_without_digits (l : Lx) (ws sign rest : List UInt8) (dot : Bool)
    (hws : ∀ c ∈ ws, isWs c = true) (hsign : IsSign sign) (hne : sign ≠ [] ∨ dot = true)
    (hr : StopsAt (fun c => isDigit c || (c == 46 && !dot)) rest)
    (hrem : l.rem = ws ++ (sign ++ ((if dot then [46] else []) ++ rest))) : getNumber (K := K) l = .err .wrong :=
  getNumber_wrong_no_digits l ws sign rest dot hws hsign hne hr hrem

example : IsSign [45] ∧ StopsAt (fun c => isDigit c || (c == 46 && !true)) [120] ∧
    getNumber (K := Rat) ⟨" -.x".toUTF8, 0⟩ = .err .wrong := ⟨by decide, by decide, by decide +kernel⟩

/-- malformed: a valid mantissa followed by `e`/`E`, an optional sign and then no digit (`"1e"`, `"1e+"`, `"2.5Ex"`, `"1e-,"` …)
    gives `Wrong` – the parser does not back up to before the `e` -/
theorem getNumber_wrong_exponent_without_digits (l : Lx) (ws rest : List UInt8) (p : NumParts) (e : UInt8)
    (esign : List UInt8) (hv : p.Valid) (hnoexp : p.hasExp = false) (hws : ∀ c ∈ ws, isWs c = true)
    (he : e = 101 ∨ e = 69) (hes : IsSign esign) (hr : StopsAt isDigit rest)
    (hr' : esign = [] → StopsAt (fun c => c == 45 || c == 43) rest)
    (hrem : l.rem = ws ++ p.bytes ++ (e :: esign ++ rest)) : getNumber (K := K) l = .err .wrong :=
  getNumber_wrong_bad_exponent l ws rest p e esign hv hnoexp hws he hes hr hr' hrem

example : ({ ip := [49] } : NumParts).Valid ∧ StopsAt isDigit [32] ∧
    getNumber (K := Rat) ⟨"1e+ ".toUTF8, 0⟩ = .err .wrong := ⟨by decide, by decide, by decide +kernel⟩

/-! ## 7. Step lemmas: one spelled command = one state update, for every choice of white space, separators and number spelling

Vocabulary (all in `Proofs/Lemmas/C16Step.lean`): a `NumChunk` is `ws* number sep` with `sep = ws* ','?`; `k.Ok r` says its parts are
well formed in front of the remaining bytes `r` (number valid, cannot be continued by `sep ++ r`, and `sep` is all that `optComma`
will eat); `k.value` is `tokValue (parseTok number)`.  A `PtChunk` is two of them.  `relPt c last p` is `last + p` for a lower-case
command `c` and `p` otherwise.  `st.flushed` is `st` after the pending implicit `MoveTo` (set by `Z`) has been pushed. -/

/-- `Z` / `z` -/
theorem step_close (fuel : Nat) (st : SvgSt K) (l : Lx) (ws r : List UInt8) (c : UInt8) (hc : c = 122 ∨ c = 90)
    (hrem : l.rem = ws ++ c :: r) (hws : ∀ b ∈ ws, isWs b = true) (hp : st.path ≠ []) :
    svgLoop (fuel + 1) st l =
      svgLoop fuel
        { st.flushed with
            path := st.flushed.path ++ [.ClosePath], last_pt := st.first_pt, last_ctrl := none,
            implicit_moveto := some st.first_pt }
        (l.adv (ws.length + 1)) :=
  svgLoop_step_ok fuel (getCmd_letter_rem _ hrem hws (by rcases hc with rfl | rfl <;> decide)) (svgCommand_close st _ hc hp)

/-- `M x y` / `m x y` (no condition on the path; the following pairs are implicit `L`/`l`: `last_cmd := c - 1`) -/
theorem step_moveTo (fuel : Nat) (st : SvgSt K) (l : Lx) (ws r : List UInt8) (c : UInt8) (hc : c = 109 ∨ c = 77)
    (q : PtChunk) (hrem : l.rem = ws ++ c :: (q.bytes ++ r)) (hws : ∀ b ∈ ws, isWs b = true) (hq : q.Ok r) :
    svgLoop (fuel + 1) st l =
      svgLoop fuel
        (let pt := relPt c st.last_pt q.value
         { st with
            implicit_moveto := none, path := st.path ++ [.MoveTo pt], last_pt := pt, first_pt := pt,
            last_ctrl := some pt, last_cmd := c - 1 })
        (l.adv (ws.length + 1 + q.bytes.length)) := by
  have hg := getCmd_letter_rem st.last_cmd hrem hws (by rcases hc with rfl | rfl <;> decide)
  have h1 : (l.adv (ws.length + 1)).rem = q.bytes ++ r := by
    have : l.rem = (ws ++ [c]) ++ (q.bytes ++ r) := by rw [hrem]; simp
    simpa using Lx.rem_adv this
  rw [svgLoop_step_ok fuel hg (svgCommand_moveTo hc (getMaybeRelative_pt c st.last_pt h1 hq)), Lx.adv_adv]

/-- `L x y` / `l x y` with the letter spelled out -/
theorem step_lineTo (fuel : Nat) (st : SvgSt K) (l : Lx) (ws r : List UInt8) (c : UInt8) (hc : c = 108 ∨ c = 76)
    (q : PtChunk) (hrem : l.rem = ws ++ c :: (q.bytes ++ r)) (hws : ∀ b ∈ ws, isWs b = true) (hq : q.Ok r)
    (hp : st.path ≠ []) :
    svgLoop (fuel + 1) st l =
      svgLoop fuel
        (let pt := relPt c st.last_pt q.value
         { st.flushed with path := st.flushed.path ++ [.LineTo pt], last_ctrl := some pt, last_pt := pt, last_cmd := c })
        (l.adv (ws.length + 1 + q.bytes.length)) := by
  have hg := getCmd_letter_rem st.last_cmd hrem hws (by rcases hc with rfl | rfl <;> decide)
  have h1 : (l.adv (ws.length + 1)).rem = q.bytes ++ r := by
    have : l.rem = (ws ++ [c]) ++ (q.bytes ++ r) := by rw [hrem]; simp
    simpa using Lx.rem_adv this
  have hpre : svgPre c st = some st.flushed := svgPre_of_nonempty (by rcases hc with rfl | rfl <;> decide) hp
  have hlc : lowerCmd c = 108 := by rcases hc with rfl | rfl <;> decide
  have hm := getMaybeRelative_pt c st.flushed.last_pt h1 hq
  rw [svgLoop_step_ok fuel hg (svgCommand_lineTo hlc hpre hm), Lx.adv_adv, SvgSt.flushed_last_pt]

/-- implicit repetition: after `M`/`L` (`last_cmd = 'L'`) or `m`/`l` (`last_cmd = 'l'`) a further coordinate pair without a letter
    is a `LineTo` -/
theorem step_lineTo_implicit (fuel : Nat) (st : SvgSt K) (l : Lx) (r : List UInt8) (hc : st.last_cmd = 108 ∨ st.last_cmd = 76)
    (q : PtChunk) (hrem : l.rem = q.bytes ++ r) (hq : q.Ok r) (hp : st.path ≠ []) :
    svgLoop (fuel + 1) st l =
      svgLoop fuel
        (let pt := relPt st.last_cmd st.last_pt q.value
         { st.flushed with path := st.flushed.path ++ [.LineTo pt], last_ctrl := some pt, last_pt := pt })
        (l.adv q.bytes.length) := by
  obtain ⟨b, br, hb, hnum⟩ := hq.1.valid.bytes_head
  have hrem' : l.rem = q.x.ws ++ b :: (br ++ q.x.sep ++ q.y.bytes ++ r) := by
    rw [hrem]; simp [PtChunk.bytes, NumChunk.bytes, hb]
  have hg : getCmd st.last_cmd l = some (some st.last_cmd, l.adv q.x.ws.length) :=
    getCmd_implicit_rem hrem' hq.1.ws hnum (by rcases hc with h | h <;> rw [h] <;> decide)
  let q' : PtChunk := { x := q.x.noWs, y := q.y }
  have hq' : q'.Ok r := ⟨hq.1.noWs, hq.2⟩
  have h1 : (l.adv q.x.ws.length).rem = q'.bytes ++ r := by
    have : l.rem = q.x.ws ++ (q'.bytes ++ r) := by
      rw [hrem]; simp [PtChunk.bytes, q', NumChunk.bytes_noWs q.x]
    exact Lx.rem_adv this
  have hpre : svgPre st.last_cmd st = some st.flushed :=
    svgPre_of_nonempty (by rcases hc with h | h <;> rw [h] <;> decide) hp
  have hlc : lowerCmd st.last_cmd = 108 := by rcases hc with h | h <;> rw [h] <;> decide
  have hm := getMaybeRelative_pt st.last_cmd st.flushed.last_pt h1 hq'
  rw [svgLoop_step_ok fuel hg (svgCommand_lineTo hlc hpre hm), Lx.adv_adv, SvgSt.flushed_last_pt]
  have hlen : q.x.ws.length + q'.bytes.length = q.bytes.length := by
    simp [PtChunk.bytes, q', NumChunk.bytes, NumChunk.noWs]
  rw [hlen]
  have hst : ∀ pt : Point K,
      ({ st.flushed with path := st.flushed.path ++ [.LineTo pt], last_ctrl := some pt, last_pt := pt,
                         last_cmd := st.last_cmd } : SvgSt K) =
      { st.flushed with path := st.flushed.path ++ [.LineTo pt], last_ctrl := some pt, last_pt := pt } := by
    intro pt; rw [← SvgSt.flushed_last_cmd st]
  exact congrArg (fun s => svgLoop fuel s (l.adv q.bytes.length)) (hst _)


/-- `H x` / `h x` -/
theorem step_horiz (fuel : Nat) (st : SvgSt K) (l : Lx) (ws r : List UInt8) (c : UInt8) (hc : c = 104 ∨ c = 72)
    (k : NumChunk) (hrem : l.rem = ws ++ c :: (k.bytes ++ r)) (hws : ∀ b ∈ ws, isWs b = true) (hk : k.Ok r)
    (hp : st.path ≠ []) :
    svgLoop (fuel + 1) st l =
      svgLoop fuel
        (let pt : Point K := ⟨if c == 104 then Scalar.add k.value st.last_pt.x else k.value, st.last_pt.y⟩
         { st.flushed with path := st.flushed.path ++ [.LineTo pt], last_ctrl := some pt, last_pt := pt, last_cmd := c })
        (l.adv (ws.length + 1 + k.bytes.length)) := by
  have hg := getCmd_letter_rem st.last_cmd hrem hws (by rcases hc with rfl | rfl <;> decide)
  have h1 : (l.adv (ws.length + 1)).rem = k.bytes ++ r := by
    have : l.rem = (ws ++ [c]) ++ (k.bytes ++ r) := by rw [hrem]; simp
    simpa using Lx.rem_adv this
  have hpre : svgPre c st = some st.flushed := svgPre_of_nonempty (by rcases hc with rfl | rfl <;> decide) hp
  have hlc : lowerCmd c = 104 := by rcases hc with rfl | rfl <;> decide
  obtain ⟨hn, ho⟩ := getNumber_chunk (K := K) h1 hk
  rw [svgLoop_step_ok fuel hg (svgCommand_horiz hlc hpre hn ho), Lx.adv_adv, SvgSt.flushed_last_pt]

/-- `V y` / `v y` -/
theorem step_vert (fuel : Nat) (st : SvgSt K) (l : Lx) (ws r : List UInt8) (c : UInt8) (hc : c = 118 ∨ c = 86)
    (k : NumChunk) (hrem : l.rem = ws ++ c :: (k.bytes ++ r)) (hws : ∀ b ∈ ws, isWs b = true) (hk : k.Ok r)
    (hp : st.path ≠ []) :
    svgLoop (fuel + 1) st l =
      svgLoop fuel
        (let pt : Point K := ⟨st.last_pt.x, if c == 118 then Scalar.add k.value st.last_pt.y else k.value⟩
         { st.flushed with path := st.flushed.path ++ [.LineTo pt], last_ctrl := some pt, last_pt := pt, last_cmd := c })
        (l.adv (ws.length + 1 + k.bytes.length)) := by
  have hg := getCmd_letter_rem st.last_cmd hrem hws (by rcases hc with rfl | rfl <;> decide)
  have h1 : (l.adv (ws.length + 1)).rem = k.bytes ++ r := by
    have : l.rem = (ws ++ [c]) ++ (k.bytes ++ r) := by rw [hrem]; simp
    simpa using Lx.rem_adv this
  have hpre : svgPre c st = some st.flushed := svgPre_of_nonempty (by rcases hc with rfl | rfl <;> decide) hp
  have hlc : lowerCmd c = 118 := by rcases hc with rfl | rfl <;> decide
  obtain ⟨hn, ho⟩ := getNumber_chunk (K := K) h1 hk
  rw [svgLoop_step_ok fuel hg (svgCommand_vert hlc hpre hn ho), Lx.adv_adv, SvgSt.flushed_last_pt]

/-- `Q x1 y1 x y` / `q …` (both points relative to the *same* current point) -/
theorem step_quadTo (fuel : Nat) (st : SvgSt K) (l : Lx) (ws r : List UInt8) (c : UInt8) (hc : c = 113 ∨ c = 81)
    (q1 q2 : PtChunk) (hrem : l.rem = ws ++ c :: (q1.bytes ++ (q2.bytes ++ r))) (hws : ∀ b ∈ ws, isWs b = true)
    (hq1 : q1.Ok (q2.bytes ++ r)) (hq2 : q2.Ok r) (hp : st.path ≠ []) :
    svgLoop (fuel + 1) st l =
      svgLoop fuel
        (let p1 := relPt c st.last_pt q1.value
         let p2 := relPt c st.last_pt q2.value
         { st.flushed with path := st.flushed.path ++ [.QuadTo p1 p2], last_ctrl := some p1, last_pt := p2, last_cmd := c })
        (l.adv (ws.length + 1 + q1.bytes.length + q2.bytes.length)) := by
  have hg := getCmd_letter_rem st.last_cmd hrem hws (by rcases hc with rfl | rfl <;> decide)
  have h1 : (l.adv (ws.length + 1)).rem = q1.bytes ++ (q2.bytes ++ r) := by
    have : l.rem = (ws ++ [c]) ++ (q1.bytes ++ (q2.bytes ++ r)) := by rw [hrem]; simp
    simpa using Lx.rem_adv this
  have h2 := Lx.rem_adv h1
  have hpre : svgPre c st = some st.flushed := svgPre_of_nonempty (by rcases hc with rfl | rfl <;> decide) hp
  have hlc : lowerCmd c = 113 := by rcases hc with rfl | rfl <;> decide
  have hm1 := getMaybeRelative_pt c st.flushed.last_pt h1 hq1
  have hm2 := getMaybeRelative_pt c st.flushed.last_pt h2 hq2
  rw [svgLoop_step_ok fuel hg (svgCommand_quadTo hlc hpre hm1 hm2), Lx.adv_adv, Lx.adv_adv, SvgSt.flushed_last_pt]
  simp only [Nat.add_assoc]

/-- `T x y` / `t x y`: the control point is `st.flushed.smoothQuadCtrl` – the reflection of `last_ctrl` about the current point if
    the previous command was `Q q T t`, else the current point -/
theorem step_smoothQuadTo (fuel : Nat) (st : SvgSt K) (l : Lx) (ws r : List UInt8) (c : UInt8) (hc : c = 116 ∨ c = 84)
    (q : PtChunk) (hrem : l.rem = ws ++ c :: (q.bytes ++ r)) (hws : ∀ b ∈ ws, isWs b = true) (hq : q.Ok r)
    (hp : st.path ≠ []) :
    svgLoop (fuel + 1) st l =
      svgLoop fuel
        (let p1 := st.flushed.smoothQuadCtrl
         let p2 := relPt c st.last_pt q.value
         { st.flushed with path := st.flushed.path ++ [.QuadTo p1 p2], last_ctrl := some p1, last_pt := p2, last_cmd := c })
        (l.adv (ws.length + 1 + q.bytes.length)) := by
  have hg := getCmd_letter_rem st.last_cmd hrem hws (by rcases hc with rfl | rfl <;> decide)
  have h1 : (l.adv (ws.length + 1)).rem = q.bytes ++ r := by
    have : l.rem = (ws ++ [c]) ++ (q.bytes ++ r) := by rw [hrem]; simp
    simpa using Lx.rem_adv this
  have hpre : svgPre c st = some st.flushed := svgPre_of_nonempty (by rcases hc with rfl | rfl <;> decide) hp
  have hlc : lowerCmd c = 116 := by rcases hc with rfl | rfl <;> decide
  have hm := getMaybeRelative_pt c st.flushed.last_pt h1 hq
  rw [svgLoop_step_ok fuel hg (svgCommand_smoothQuadTo hlc hpre hm), Lx.adv_adv, SvgSt.flushed_last_pt]

/-- `C x1 y1 x2 y2 x y` / `c …` -/
theorem step_curveTo (fuel : Nat) (st : SvgSt K) (l : Lx) (ws r : List UInt8) (c : UInt8) (hc : c = 99 ∨ c = 67)
    (q1 q2 q3 : PtChunk) (hrem : l.rem = ws ++ c :: (q1.bytes ++ (q2.bytes ++ (q3.bytes ++ r))))
    (hws : ∀ b ∈ ws, isWs b = true) (hq1 : q1.Ok (q2.bytes ++ (q3.bytes ++ r))) (hq2 : q2.Ok (q3.bytes ++ r)) (hq3 : q3.Ok r)
    (hp : st.path ≠ []) :
    svgLoop (fuel + 1) st l =
      svgLoop fuel
        (let p1 := relPt c st.last_pt q1.value
         let p2 := relPt c st.last_pt q2.value
         let p3 := relPt c st.last_pt q3.value
         { st.flushed with path := st.flushed.path ++ [.CurveTo p1 p2 p3], last_ctrl := some p2, last_pt := p3, last_cmd := c })
        (l.adv (ws.length + 1 + q1.bytes.length + q2.bytes.length + q3.bytes.length)) := by
  have hg := getCmd_letter_rem st.last_cmd hrem hws (by rcases hc with rfl | rfl <;> decide)
  have h1 : (l.adv (ws.length + 1)).rem = q1.bytes ++ (q2.bytes ++ (q3.bytes ++ r)) := by
    have : l.rem = (ws ++ [c]) ++ (q1.bytes ++ (q2.bytes ++ (q3.bytes ++ r))) := by rw [hrem]; simp
    simpa using Lx.rem_adv this
  have h2 := Lx.rem_adv h1
  have h3 := Lx.rem_adv h2
  have hpre : svgPre c st = some st.flushed := svgPre_of_nonempty (by rcases hc with rfl | rfl <;> decide) hp
  have hlc : lowerCmd c = 99 := by rcases hc with rfl | rfl <;> decide
  have hm1 := getMaybeRelative_pt c st.flushed.last_pt h1 hq1
  have hm2 := getMaybeRelative_pt c st.flushed.last_pt h2 hq2
  have hm3 := getMaybeRelative_pt c st.flushed.last_pt h3 hq3
  rw [svgLoop_step_ok fuel hg (svgCommand_curveTo hlc hpre hm1 hm2 hm3), Lx.adv_adv, Lx.adv_adv, Lx.adv_adv,
    SvgSt.flushed_last_pt]
  simp only [Nat.add_assoc]

/-- `S x2 y2 x y` / `s …`: first control point `st.flushed.smoothCubicCtrl` (reflection only after `C c S s`) -/
theorem step_smoothCurveTo (fuel : Nat) (st : SvgSt K) (l : Lx) (ws r : List UInt8) (c : UInt8) (hc : c = 115 ∨ c = 83)
    (q1 q2 : PtChunk) (hrem : l.rem = ws ++ c :: (q1.bytes ++ (q2.bytes ++ r))) (hws : ∀ b ∈ ws, isWs b = true)
    (hq1 : q1.Ok (q2.bytes ++ r)) (hq2 : q2.Ok r) (hp : st.path ≠ []) :
    svgLoop (fuel + 1) st l =
      svgLoop fuel
        (let p1 := st.flushed.smoothCubicCtrl
         let p2 := relPt c st.last_pt q1.value
         let p3 := relPt c st.last_pt q2.value
         { st.flushed with path := st.flushed.path ++ [.CurveTo p1 p2 p3], last_ctrl := some p2, last_pt := p3, last_cmd := c })
        (l.adv (ws.length + 1 + q1.bytes.length + q2.bytes.length)) := by
  have hg := getCmd_letter_rem st.last_cmd hrem hws (by rcases hc with rfl | rfl <;> decide)
  have h1 : (l.adv (ws.length + 1)).rem = q1.bytes ++ (q2.bytes ++ r) := by
    have : l.rem = (ws ++ [c]) ++ (q1.bytes ++ (q2.bytes ++ r)) := by rw [hrem]; simp
    simpa using Lx.rem_adv this
  have h2 := Lx.rem_adv h1
  have hpre : svgPre c st = some st.flushed := svgPre_of_nonempty (by rcases hc with rfl | rfl <;> decide) hp
  have hlc : lowerCmd c = 115 := by rcases hc with rfl | rfl <;> decide
  have hm1 := getMaybeRelative_pt c st.flushed.last_pt h1 hq1
  have hm2 := getMaybeRelative_pt c st.flushed.last_pt h2 hq2
  rw [svgLoop_step_ok fuel hg (svgCommand_smoothCurveTo hlc hpre hm1 hm2), Lx.adv_adv, Lx.adv_adv, SvgSt.flushed_last_pt]
  simp only [Nat.add_assoc]

/-! ### the same at the level of `svgCommand`, and implicit repetition for *every* command

`cmd_*`: the command byte has been read, the lexer is in front of the arguments.  `loop_letter` / `loop_implicit` say how the loop
gets there (`svgAfterCmd fuel st c l1` = "run `svgCommand c st l1`, stop on an error, else continue the loop").  The `step_*`
theorems above are `loop_letter` + `cmd_*`; `loop_implicit` + `cmd_*` gives the implicit repetition of any command. -/

theorem loop_letter (fuel : Nat) (st : SvgSt K) {l : Lx} {ws r : List UInt8} {c : UInt8} (h : l.rem = ws ++ c :: r)
    (hws : ∀ b ∈ ws, isWs b = true) (hc : (isLower c || isUpper c) = true) :
    svgLoop (fuel + 1) st l = svgAfterCmd fuel st c (l.adv (ws.length + 1)) :=
  svgLoop_letter fuel st h hws hc

/-- implicit repetition: if the next non-white-space byte is a sign, a period or a digit and there was a command before (which
    is never `z`: `st.Inv`), the loop behaves as if `last_cmd` were spelled at the current position – `getCmd` consumes only
    the white space, and that does not matter to a command that starts by reading a number -/
theorem loop_implicit (fuel : Nat) (st : SvgSt K) {l : Lx} {ws r : List UInt8} {b : UInt8} (h : l.rem = ws ++ b :: r)
    (hws : ∀ b ∈ ws, isWs b = true) (hb : isNumStart b = true) (hlc : st.last_cmd ≠ 0) (hinv : st.Inv) :
    svgLoop (fuel + 1) st l = svgAfterCmd fuel st st.last_cmd l :=
  svgLoop_implicit fuel st h hws hb hlc hinv

theorem cmd_close (st : SvgSt K) (l : Lx) (c : UInt8) (hc : c = 122 ∨ c = 90) (hp : st.path ≠ []) :
    svgCommand c st l =
      .ok { st.flushed with
              path := st.flushed.path ++ [.ClosePath], last_pt := st.first_pt, last_ctrl := none,
              implicit_moveto := some st.first_pt } l :=
  svgCommand_close st l hc hp

theorem cmd_moveTo (st : SvgSt K) (l : Lx) (r : List UInt8) (c : UInt8) (hc : c = 109 ∨ c = 77) (q : PtChunk)
    (hrem : l.rem = q.bytes ++ r) (hq : q.Ok r) :
    svgCommand c st l =
      .ok (let pt := relPt c st.last_pt q.value
           { st with
              implicit_moveto := none, path := st.path ++ [.MoveTo pt], last_pt := pt, first_pt := pt,
              last_ctrl := some pt, last_cmd := c - 1 })
        (l.adv q.bytes.length) :=
  svgCommand_moveTo hc (getMaybeRelative_pt c st.last_pt hrem hq)

theorem cmd_lineTo (st : SvgSt K) (l : Lx) (r : List UInt8) (c : UInt8) (hc : c = 108 ∨ c = 76) (q : PtChunk)
    (hrem : l.rem = q.bytes ++ r) (hq : q.Ok r) (hp : st.path ≠ []) :
    svgCommand c st l =
      .ok (let pt := relPt c st.last_pt q.value
           { st.flushed with path := st.flushed.path ++ [.LineTo pt], last_ctrl := some pt, last_pt := pt, last_cmd := c })
        (l.adv q.bytes.length) := by
  have hpre : svgPre c st = some st.flushed := svgPre_of_nonempty (by rcases hc with rfl | rfl <;> decide) hp
  have hlc : lowerCmd c = 108 := by rcases hc with rfl | rfl <;> decide
  rw [svgCommand_lineTo hlc hpre (getMaybeRelative_pt c st.flushed.last_pt hrem hq), SvgSt.flushed_last_pt]

theorem cmd_horiz (st : SvgSt K) (l : Lx) (r : List UInt8) (c : UInt8) (hc : c = 104 ∨ c = 72) (k : NumChunk)
    (hrem : l.rem = k.bytes ++ r) (hk : k.Ok r) (hp : st.path ≠ []) :
    svgCommand c st l =
      .ok (let pt : Point K := ⟨if c == 104 then Scalar.add k.value st.last_pt.x else k.value, st.last_pt.y⟩
           { st.flushed with path := st.flushed.path ++ [.LineTo pt], last_ctrl := some pt, last_pt := pt, last_cmd := c })
        (l.adv k.bytes.length) := by
  have hpre : svgPre c st = some st.flushed := svgPre_of_nonempty (by rcases hc with rfl | rfl <;> decide) hp
  have hlc : lowerCmd c = 104 := by rcases hc with rfl | rfl <;> decide
  obtain ⟨hn, ho⟩ := getNumber_chunk (K := K) hrem hk
  rw [svgCommand_horiz hlc hpre hn ho, SvgSt.flushed_last_pt]

theorem cmd_vert (st : SvgSt K) (l : Lx) (r : List UInt8) (c : UInt8) (hc : c = 118 ∨ c = 86) (k : NumChunk)
    (hrem : l.rem = k.bytes ++ r) (hk : k.Ok r) (hp : st.path ≠ []) :
    svgCommand c st l =
      .ok (let pt : Point K := ⟨st.last_pt.x, if c == 118 then Scalar.add k.value st.last_pt.y else k.value⟩
           { st.flushed with path := st.flushed.path ++ [.LineTo pt], last_ctrl := some pt, last_pt := pt, last_cmd := c })
        (l.adv k.bytes.length) := by
  have hpre : svgPre c st = some st.flushed := svgPre_of_nonempty (by rcases hc with rfl | rfl <;> decide) hp
  have hlc : lowerCmd c = 118 := by rcases hc with rfl | rfl <;> decide
  obtain ⟨hn, ho⟩ := getNumber_chunk (K := K) hrem hk
  rw [svgCommand_vert hlc hpre hn ho, SvgSt.flushed_last_pt]

theorem cmd_quadTo (st : SvgSt K) (l : Lx) (r : List UInt8) (c : UInt8) (hc : c = 113 ∨ c = 81) (q1 q2 : PtChunk)
    (hrem : l.rem = q1.bytes ++ (q2.bytes ++ r)) (hq1 : q1.Ok (q2.bytes ++ r)) (hq2 : q2.Ok r) (hp : st.path ≠ []) :
    svgCommand c st l =
      .ok (let p1 := relPt c st.last_pt q1.value
           let p2 := relPt c st.last_pt q2.value
           { st.flushed with path := st.flushed.path ++ [.QuadTo p1 p2], last_ctrl := some p1, last_pt := p2, last_cmd := c })
        (l.adv (q1.bytes.length + q2.bytes.length)) := by
  have hpre : svgPre c st = some st.flushed := svgPre_of_nonempty (by rcases hc with rfl | rfl <;> decide) hp
  have hlc : lowerCmd c = 113 := by rcases hc with rfl | rfl <;> decide
  have hm1 := getMaybeRelative_pt c st.flushed.last_pt hrem hq1
  have hm2 := getMaybeRelative_pt c st.flushed.last_pt (Lx.rem_adv hrem) hq2
  rw [svgCommand_quadTo hlc hpre hm1 hm2, Lx.adv_adv, SvgSt.flushed_last_pt]

theorem cmd_smoothQuadTo (st : SvgSt K) (l : Lx) (r : List UInt8) (c : UInt8) (hc : c = 116 ∨ c = 84) (q : PtChunk)
    (hrem : l.rem = q.bytes ++ r) (hq : q.Ok r) (hp : st.path ≠ []) :
    svgCommand c st l =
      .ok (let p1 := st.flushed.smoothQuadCtrl
           let p2 := relPt c st.last_pt q.value
           { st.flushed with path := st.flushed.path ++ [.QuadTo p1 p2], last_ctrl := some p1, last_pt := p2, last_cmd := c })
        (l.adv q.bytes.length) := by
  have hpre : svgPre c st = some st.flushed := svgPre_of_nonempty (by rcases hc with rfl | rfl <;> decide) hp
  have hlc : lowerCmd c = 116 := by rcases hc with rfl | rfl <;> decide
  rw [svgCommand_smoothQuadTo hlc hpre (getMaybeRelative_pt c st.flushed.last_pt hrem hq), SvgSt.flushed_last_pt]

theorem cmd_curveTo (st : SvgSt K) (l : Lx) (r : List UInt8) (c : UInt8) (hc : c = 99 ∨ c = 67) (q1 q2 q3 : PtChunk)
    (hrem : l.rem = q1.bytes ++ (q2.bytes ++ (q3.bytes ++ r))) (hq1 : q1.Ok (q2.bytes ++ (q3.bytes ++ r)))
    (hq2 : q2.Ok (q3.bytes ++ r)) (hq3 : q3.Ok r) (hp : st.path ≠ []) :
    svgCommand c st l =
      .ok (let p1 := relPt c st.last_pt q1.value
           let p2 := relPt c st.last_pt q2.value
           let p3 := relPt c st.last_pt q3.value
           { st.flushed with path := st.flushed.path ++ [.CurveTo p1 p2 p3], last_ctrl := some p2, last_pt := p3, last_cmd := c })
        (l.adv (q1.bytes.length + q2.bytes.length + q3.bytes.length)) := by
  have hpre : svgPre c st = some st.flushed := svgPre_of_nonempty (by rcases hc with rfl | rfl <;> decide) hp
  have hlc : lowerCmd c = 99 := by rcases hc with rfl | rfl <;> decide
  have h2 := Lx.rem_adv hrem
  have hm1 := getMaybeRelative_pt c st.flushed.last_pt hrem hq1
  have hm2 := getMaybeRelative_pt c st.flushed.last_pt h2 hq2
  have hm3 := getMaybeRelative_pt c st.flushed.last_pt (Lx.rem_adv h2) hq3
  rw [svgCommand_curveTo hlc hpre hm1 hm2 hm3, Lx.adv_adv, Lx.adv_adv, SvgSt.flushed_last_pt]
  simp only [Nat.add_assoc]

theorem cmd_smoothCurveTo (st : SvgSt K) (l : Lx) (r : List UInt8) (c : UInt8) (hc : c = 115 ∨ c = 83) (q1 q2 : PtChunk)
    (hrem : l.rem = q1.bytes ++ (q2.bytes ++ r)) (hq1 : q1.Ok (q2.bytes ++ r)) (hq2 : q2.Ok r) (hp : st.path ≠ []) :
    svgCommand c st l =
      .ok (let p1 := st.flushed.smoothCubicCtrl
           let p2 := relPt c st.last_pt q1.value
           let p3 := relPt c st.last_pt q2.value
           { st.flushed with path := st.flushed.path ++ [.CurveTo p1 p2 p3], last_ctrl := some p2, last_pt := p3, last_cmd := c })
        (l.adv (q1.bytes.length + q2.bytes.length)) := by
  have hpre : svgPre c st = some st.flushed := svgPre_of_nonempty (by rcases hc with rfl | rfl <;> decide) hp
  have hlc : lowerCmd c = 115 := by rcases hc with rfl | rfl <;> decide
  have hm1 := getMaybeRelative_pt c st.flushed.last_pt hrem hq1
  have hm2 := getMaybeRelative_pt c st.flushed.last_pt (Lx.rem_adv hrem) hq2
  rw [svgCommand_smoothCurveTo hlc hpre hm1 hm2, Lx.adv_adv, SvgSt.flushed_last_pt]

/-- `A rx ry x-rotation large-arc sweep x y` / `a …`: the lexing of the seven arguments (two flags: one byte `0`/`1` each, so they
    may be packed); the appended elements are `arcElements …` = the cubics of `Arc.from_svg_arc` (or a `LineTo` if it returns
    `none`) – nothing is proved here about that geometry -/
theorem cmd_arc (st : SvgSt K) (l : Lx) (r : List UInt8) (c : UInt8) (hc : c = 97 ∨ c = 65)
    (qr : PtChunk) (kx : NumChunk) (f1 f2 : FlagChunk) (qp : PtChunk)
    (hrem : l.rem = qr.bytes ++ (kx.bytes ++ (f1.bytes ++ (f2.bytes ++ (qp.bytes ++ r)))))
    (hqr : qr.Ok (kx.bytes ++ (f1.bytes ++ (f2.bytes ++ (qp.bytes ++ r))))) (hkx : kx.Ok (f1.bytes ++ (f2.bytes ++ (qp.bytes ++ r))))
    (hf1 : f1.Ok (f2.bytes ++ (qp.bytes ++ r))) (hf2 : f2.Ok (qp.bytes ++ r)) (hqp : qp.Ok r) (hp : st.path ≠ []) :
    svgCommand c st l =
      .ok (let p := relPt c st.last_pt qp.value
           { st.flushed with
              path := st.flushed.path ++ arcElements st.last_pt p qr.value kx.value f1.value f2.value,
              last_ctrl := some p, last_pt := p, last_cmd := c })
        (l.adv (qr.bytes.length + kx.bytes.length + f1.bytes.length + f2.bytes.length + qp.bytes.length)) := by
  have hpre : svgPre c st = some st.flushed := svgPre_of_nonempty (by rcases hc with rfl | rfl <;> decide) hp
  have hlc : lowerCmd c = 97 := by rcases hc with rfl | rfl <;> decide
  have h1 : l.rem = qr.x.bytes ++ (qr.y.bytes ++ (kx.bytes ++ (f1.bytes ++ (f2.bytes ++ (qp.bytes ++ r))))) := by
    rw [hrem]; simp [PtChunk.bytes]
  have hpair := getNumberPair_spec (K := K) h1 hqr.1 hqr.2
  rw [← List.length_append] at hpair
  have h2 : (l.adv qr.bytes.length).rem = kx.bytes ++ (f1.bytes ++ (f2.bytes ++ (qp.bytes ++ r))) := Lx.rem_adv hrem
  obtain ⟨hn, ho⟩ := getNumber_chunk (K := K) h2 hkx
  have h3 := Lx.rem_adv h2
  obtain ⟨hfa, hoa⟩ := getFlag_chunk h3 hf1
  have h4 := Lx.rem_adv h3
  obtain ⟨hfb, hob⟩ := getFlag_chunk h4 hf2
  have h5 := Lx.rem_adv h4
  have hm := getMaybeRelative_pt c st.flushed.last_pt h5 hqp
  rw [svgCommand_arc hlc hpre hpair hn ho hfa hoa hfb hob hm, Lx.adv_adv, Lx.adv_adv, Lx.adv_adv, Lx.adv_adv,
    SvgSt.flushed_last_pt]
  simp only [Nat.add_assoc]
  rfl

/-- the arguments of `"A1 1 0 0 1 2 2"` (after the letter) meet the hypotheses of `cmd_arc` -/
example :
    let n (d : UInt8) (sep : List UInt8) : NumChunk := { p := { ip := [d] }, sep := sep }
    let qr : PtChunk := { x := n 49 [32], y := n 49 [32] }
    let kx : NumChunk := n 48 [32]
    let f1 : FlagChunk := { flag := 48, sep := [32] }
    let f2 : FlagChunk := { flag := 49, sep := [32] }
    let qp : PtChunk := { x := n 50 [32], y := n 50 [] }
    "1 1 0 0 1 2 2".toUTF8.data.toList = qr.bytes ++ (kx.bytes ++ (f1.bytes ++ (f2.bytes ++ (qp.bytes ++ [])))) ∧
    qr.Ok (kx.bytes ++ (f1.bytes ++ (f2.bytes ++ (qp.bytes ++ [])))) ∧ kx.Ok (f1.bytes ++ (f2.bytes ++ (qp.bytes ++ []))) ∧
    f1.Ok (f2.bytes ++ (qp.bytes ++ [])) ∧ f2.Ok (qp.bytes ++ []) ∧ qp.Ok [] := by
  refine ⟨by decide, ⟨⟨by decide, by decide, by decide, SepOk.ws (by decide) (by decide)⟩,
      ⟨by decide, by decide, by decide, SepOk.ws (by decide) (by decide)⟩⟩,
    ⟨by decide, by decide, by decide, SepOk.ws (by decide) (by decide)⟩,
    ⟨by decide, by decide, SepOk.ws (by decide) (by decide)⟩,
    ⟨by decide, by decide, SepOk.ws (by decide) (by decide)⟩,
    ⟨⟨by decide, by decide, by decide, SepOk.ws (by decide) (by decide)⟩,
      ⟨by decide, by decide, by decide, SepOk.ws (by decide) (by decide)⟩⟩⟩

/-- glue for a spelled letter: from a `cmd_*` result to a loop step -/
theorem step_letter (fuel : Nat) (st st' : SvgSt K) {l l2 : Lx} {ws r : List UInt8} {c : UInt8} (h : l.rem = ws ++ c :: r)
    (hws : ∀ b ∈ ws, isWs b = true) (hc : (isLower c || isUpper c) = true)
    (hcmd : svgCommand c st (l.adv (ws.length + 1)) = .ok st' l2) : svgLoop (fuel + 1) st l = svgLoop fuel st' l2 := by
  rw [loop_letter fuel st h hws hc, svgAfterCmd, hcmd]

/-- glue for implicit repetition: from a `cmd_*` result *at the current position* to a loop step -/
theorem step_implicit (fuel : Nat) (st st' : SvgSt K) {l l2 : Lx} {ws r : List UInt8} {b : UInt8} (h : l.rem = ws ++ b :: r)
    (hws : ∀ b ∈ ws, isWs b = true) (hb : isNumStart b = true) (hlc : st.last_cmd ≠ 0) (hinv : st.Inv)
    (hcmd : svgCommand st.last_cmd st l = .ok st' l2) : svgLoop (fuel + 1) st l = svgLoop fuel st' l2 := by
  rw [loop_implicit fuel st h hws hb hlc hinv, svgAfterCmd, hcmd]

/-- e.g. a second coordinate triple after `C`/`c` without a letter is another `CurveTo` -/
theorem step_curveTo_implicit (fuel : Nat) (st : SvgSt K) (l : Lx) (r : List UInt8)
    (hc : st.last_cmd = 99 ∨ st.last_cmd = 67) (q1 q2 q3 : PtChunk)
    (hrem : l.rem = q1.bytes ++ (q2.bytes ++ (q3.bytes ++ r))) (hq1 : q1.Ok (q2.bytes ++ (q3.bytes ++ r)))
    (hq2 : q2.Ok (q3.bytes ++ r)) (hq3 : q3.Ok r) (hp : st.path ≠ []) :
    svgLoop (fuel + 1) st l =
      svgLoop fuel
        (let p1 := relPt st.last_cmd st.last_pt q1.value
         let p2 := relPt st.last_cmd st.last_pt q2.value
         let p3 := relPt st.last_cmd st.last_pt q3.value
         { st.flushed with
            path := st.flushed.path ++ [.CurveTo p1 p2 p3], last_ctrl := some p2, last_pt := p3, last_cmd := st.last_cmd })
        (l.adv (q1.bytes.length + q2.bytes.length + q3.bytes.length)) := by
  obtain ⟨b, br, hb, hnum⟩ := hq1.1.valid.bytes_head
  have hrem' : l.rem = q1.x.ws ++ b :: (br ++ q1.x.sep ++ q1.y.bytes ++ (q2.bytes ++ (q3.bytes ++ r))) := by
    rw [hrem]; simp [PtChunk.bytes, NumChunk.bytes, hb]
  have hinv : st.Inv := by unfold SvgSt.Inv; rcases hc with h | h <;> rw [h] <;> decide
  exact step_implicit fuel st _ hrem' hq1.1.ws hnum (by rcases hc with h | h <;> rw [h] <;> decide) hinv
    (cmd_curveTo st l r st.last_cmd hc q1 q2 q3 hrem hq1 hq2 hq3 hp)

/-- end of the commands: only white space left -/
theorem step_end (fuel : Nat) (st : SvgSt K) (l : Lx) (ws : List UInt8) (hrem : l.rem = ws)
    (hws : ∀ b ∈ ws, isWs b = true) : svgLoop (fuel + 1) st l = .ok st.path :=
  svgLoop_step_end fuel (getCmd_end_rem st.last_cmd hrem hws)

/-- fuel-free form of a loop iteration (`svgRun st l` = the loop with the fuel `fromSvgBytes` provides for the bytes left;
    `fromSvgBytes data = svgRun svgInit ⟨data, 0⟩` by `fromSvgBytes_eq_run`): the next iteration starts from a lexer and state that
    again satisfy the hypotheses, so the steps chain -/
theorem run_step {st st' : SvgSt K} {l l1 l2 : Lx} {c : UInt8} (hwf : l.ix ≤ l.data.size) (hinv : st.Inv)
    (hg : getCmd st.last_cmd l = some (some c, l1)) (hs : svgCommand c st l1 = .ok st' l2) :
    svgRun st l = svgRun st' l2 ∧ l2.ix ≤ l2.data.size ∧ st'.Inv :=
  svgRun_step hwf hinv hg hs

/-- the step lemmas compose: `ws* M x y x' y' ws* Z ws*` with arbitrary white space, separators and number spellings parses to
    `[MoveTo (x,y), LineTo (x',y'), ClosePath]` -/
theorem parse_moveTo_lineTo_close (data : ByteArray) (ws0 ws1 ws2 : List UInt8) (q1 q2 : PtChunk)
    (hdata : data.data.toList = ws0 ++ 77 :: (q1.bytes ++ (q2.bytes ++ (ws1 ++ 90 :: ws2))))
    (hws0 : ∀ b ∈ ws0, isWs b = true) (hws1 : ∀ b ∈ ws1, isWs b = true) (hws2 : ∀ b ∈ ws2, isWs b = true)
    (hq1 : q1.Ok (q2.bytes ++ (ws1 ++ 90 :: ws2))) (hq2 : q2.Ok (ws1 ++ 90 :: ws2)) :
    fromSvgBytes (K := K) data = .ok [.MoveTo q1.value, .LineTo q2.value, .ClosePath] := by
  have hsize : data.size = (ws0 ++ 77 :: (q1.bytes ++ (q2.bytes ++ (ws1 ++ 90 :: ws2)))).length := by
    rw [← hdata]; simp
  obtain ⟨b, br, hb, -⟩ := hq1.1.valid.bytes_head
  have hq1len : 0 < q1.bytes.length := by simp [PtChunk.bytes, NumChunk.bytes, hb]; omega
  obtain ⟨f, hf⟩ : ∃ f, data.size + 1 = f + 1 + 1 + 1 + 1 := ⟨data.size - 3, by
    rw [hsize]; simp only [List.length_append, List.length_cons]; omega⟩
  unfold fromSvgBytes
  rw [hf]
  have hrem0 : Lx.rem ⟨data, 0⟩ = ws0 ++ 77 :: (q1.bytes ++ (q2.bytes ++ (ws1 ++ 90 :: ws2))) := by
    simp [Lx.rem, hdata]
  rw [step_moveTo _ _ _ ws0 _ 77 (.inr rfl) q1 hrem0 hws0 hq1]
  have hrem1 : (Lx.adv ⟨data, 0⟩ (ws0.length + 1 + q1.bytes.length)).rem = q2.bytes ++ (ws1 ++ 90 :: ws2) := by
    have : Lx.rem ⟨data, 0⟩ = (ws0 ++ 77 :: q1.bytes) ++ (q2.bytes ++ (ws1 ++ 90 :: ws2)) := by rw [hrem0]; simp
    have h := Lx.rem_adv this
    rw [show (ws0 ++ 77 :: q1.bytes).length = ws0.length + 1 + q1.bytes.length by simp; omega] at h
    exact h
  simp only [relPt_upper (c := 77) (by decide)]
  rw [step_lineTo_implicit _ _ _ _ (.inr rfl) q2 hrem1 hq2 (by simp)]
  have hrem2 : ((Lx.adv ⟨data, 0⟩ (ws0.length + 1 + q1.bytes.length)).adv q2.bytes.length).rem = ws1 ++ 90 :: ws2 :=
    Lx.rem_adv hrem1
  rw [step_close _ _ _ ws1 ws2 90 (.inr rfl) hrem2 hws1 (by simp [SvgSt.flushed_path])]
  have hrem3 := Lx.rem_adv (xs := ws1 ++ [90]) (r := ws2) (by rw [hrem2]; simp)
  simp only [List.length_append, List.length_cons, List.length_nil, Nat.zero_add] at hrem3
  rw [step_end _ _ _ ws2 hrem3 hws2]
  simp [SvgSt.flushed_of_none, relPt_upper (c := 76) (by decide)]

/-- an instance of the hypotheses of the step lemmas and of `parse_moveTo_lineTo_close`: the string `"M1,2 3 4 Z"` -/
example :
    let q1 : PtChunk := { x := { p := { ip := [49] }, sep := [44] }, y := { p := { ip := [50] }, sep := [32] } }
    let q2 : PtChunk := { x := { p := { ip := [51] }, sep := [32] }, y := { p := { ip := [52] }, sep := [32] } }
    "M1,2 3 4 Z".toUTF8.data.toList = [] ++ 77 :: (q1.bytes ++ (q2.bytes ++ ([] ++ 90 :: []))) ∧
    q1.Ok (q2.bytes ++ ([] ++ 90 :: [])) ∧ q2.Ok ([] ++ 90 :: []) ∧
    (q1.value : Point Rat) = ⟨1, 2⟩ ∧ (q2.value : Point Rat) = ⟨3, 4⟩ := by
  refine ⟨by decide, ⟨⟨by decide, by decide, by decide, SepOk.comma (ws := []) (by decide)⟩,
      ⟨by decide, by decide, by decide, SepOk.ws (by decide) (by decide)⟩⟩,
    ⟨⟨by decide, by decide, by decide, SepOk.ws (by decide) (by decide)⟩,
      ⟨by decide, by decide, by decide, SepOk.ws (by decide) (by decide)⟩⟩, by decide +kernel, by decide +kernel⟩

/-! ## 8. Concrete evaluations over `Rat` (kernel evaluation of the model; `Rat` arithmetic is exact) -/

/-- relative `m` followed by an implicit `l` whose first number carries a `+` -/
example : fromSvg (K := Rat) "m1 1 +2 3" = .ok [.MoveTo ⟨1, 1⟩, .LineTo ⟨3, 4⟩] := by decide +kernel
/-- `S` after `Q`: the first control point is the current point `(2,0)` (no reflection of a quadratic's control point) -/
example : fromSvg (K := Rat) "M0 0Q1 1 2 0S4 1 5 0" =
    .ok [.MoveTo ⟨0, 0⟩, .QuadTo ⟨1, 1⟩ ⟨2, 0⟩, .CurveTo ⟨2, 0⟩ ⟨4, 1⟩ ⟨5, 0⟩] := by decide +kernel
/-- `T` after `C`: control point = current point `(3,0)` -/
example : fromSvg (K := Rat) "M0 0C1 1 2 1 3 0T6 0" =
    .ok [.MoveTo ⟨0, 0⟩, .CurveTo ⟨1, 1⟩ ⟨2, 1⟩ ⟨3, 0⟩, .QuadTo ⟨3, 0⟩ ⟨6, 0⟩] := by decide +kernel
/-- `S` after `C` and `T` after `Q` do reflect -/
example : fromSvg (K := Rat) "M0 0C1 1 2 1 3 0S5 1 6 0" =
    .ok [.MoveTo ⟨0, 0⟩, .CurveTo ⟨1, 1⟩ ⟨2, 1⟩ ⟨3, 0⟩, .CurveTo ⟨4, -1⟩ ⟨5, 1⟩ ⟨6, 0⟩] := by decide +kernel
example : fromSvg (K := Rat) "M0 0Q1 1 2 0T4 0" =
    .ok [.MoveTo ⟨0, 0⟩, .QuadTo ⟨1, 1⟩ ⟨2, 0⟩, .QuadTo ⟨3, -1⟩ ⟨4, 0⟩] := by decide +kernel
/-- after `Z` the control point is cleared and a drawing command first emits the implicit `MoveTo` -/
example : fromSvg (K := Rat) "M0 0L1 0ZT2 2" =
    .ok [.MoveTo ⟨0, 0⟩, .LineTo ⟨1, 0⟩, .ClosePath, .MoveTo ⟨0, 0⟩, .QuadTo ⟨0, 0⟩ ⟨2, 2⟩] := by decide +kernel
example : fromSvg (K := Rat) "L1 1" = .err .uninitializedPath := by decide +kernel
example : fromSvg (K := Rat) "M1 2 X" = .err (.unknownCommand 88) := by decide +kernel
example : fromSvg (K := Rat) "M1e 2" = .err .wrong := by decide +kernel
/-- packed spellings: no separator before a sign or a second period; exponents; `H`/`v` -/
example : fromSvg (K := Rat) "M1.5e1-.5.5.25H3v-1z" =
    .ok [.MoveTo ⟨15, -1/2⟩, .LineTo ⟨1/2, 1/4⟩, .LineTo ⟨3, 1/4⟩, .LineTo ⟨3, -3/4⟩, .ClosePath] := by decide +kernel
/-- multi-byte UTF-8 is just bytes that are no letters: the loop ends silently -/
example : fromSvg (K := Rat) "M1 2 é L3 4" = .ok [.MoveTo ⟨1, 2⟩] := by decide +kernel

end Kurbo
