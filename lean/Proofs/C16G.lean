import Proofs.C16
import Proofs.C16A
import Proofs.C10
import Proofs.Lemmas.C16G
import Proofs.Lemmas.C16GCount
/-! C16G – what an elliptical-arc COMMAND appends to the path (glue of C16, C16A and C10; over ℝ).

    Property text (C16): "an elliptical arc command produces a curve from the current point to the stated end point with the
    requested sweep direction and large-arc choice".

    Pieces glued here
    * `Proofs/C16.lean` (`cmd_arc`, any `Scalar`): the `A`/`a` branch of `svgCommand` lexes `rx ry rot fl fs x y` and appends
      `arcElements last_pt p radii rot fl fs`, then sets `last_pt := p`.
    * `Proofs/C16A.lean` (ℝ): the `Arc` returned by `Arc.from_svg_arc` starts at `from`, ends at `to`, sweep sign = sweep flag,
      `|sweep| > π` iff large-arc (radii fit).
    * `Proofs/C10.lean` (ℝ): `Arc.append_iter` is `n` `CurveTo`s, piece `k` from ellipse point `k` to ellipse point `k+1`.

    Model objects, exactly as they are: `svgCommand`/`arcToCubics` (`Kurbo/Svg.lean`), `Arc.from_svg_arc`, `Arc.append_iter`,
    `Arc.appendParams`, `sampleEllipse` (`Kurbo/Shapes.lean`).  `arcCommandEls arc` (`Lemmas/C16G.lean`) is literally the
    `added` of the arc branch: `match Arc.from_svg_arc arc with | some a => arcToCubics a | none => [LineTo arc.to]`, and
    `arcElements f t radii rot la sw` of C16's `cmd_arc` is `arcCommandEls ⟨f, t, radii.to_vec2, toRadians rot, la, sw⟩` by `rfl`
    (`arc_command_elements`).  `segsT (s, l) els` / `stAfterT` (C07) are the `Segments` iterator started with sub-path start `s` and
    pen `l`; `penAfter l els` (C10) is the pen after drawing `els` from `l`.

    Vocabulary for the arc `a` of a command (definitions in `Lemmas/C16G.lean`, spelled out by `cmd_vocabulary` below):
    `a.cmdN` = number of pieces `(a.appendParams 0.1).1`; `a.cmdAngle k = start + k·sweep/n`; `a.cmdPt k` = the ellipse point
    `center + sampleEllipse radii x_rotation (cmdAngle k)`; `a.cmdC1 k`, `a.cmdC2 k` = the two inner control points of piece `k`
    (`arcC1`, `arcC2` of C10: `arc_piece_p1`, `arc_piece_p2`, tangent to the ellipse by `arc_arms_tangent`).

    Scalars: ℝ with any `Scalar ℝ` structure satisfying `LawfulScalar`, `LawfulReal`, `LawfulRealAngle` (as C16A) and `LawfulTrig`,
    `LawfulCount` (as C10; `LawfulTrig` repeats `sin`/`cos`/`pi` and adds `tan`; `LawfulCount`: `as usize = ⌊·⌋₊`, `powf = rpow`).
    All five are inhabited together by `realScalar` (example at the end).

    PROVED
    1. `svg_arc_command_curves` – for a command with `is_straight_line = false` (⇔ `|rx|,|ry| > 10⁻⁵`, `from ≠ to`), `a` the arc
       of `from_svg_arc`: the appended list is EXACTLY the `n = a.cmdN ≥ 1` elements `CurveTo (C1 k) (C2 k) (P (k+1))`, `k < n`
       (nothing else: no `MoveTo`, no `LineTo`); `P 0 = from` (the first cubic is drawn from the pen = current point, which IS the
       arc's own start point: no gap), `P n = to`; drawn from `from`, the `Segments` iterator gives the `n` cubics
       `⟨P k, C1 k, C2 k, P (k+1)⟩` – each starts where the previous ended – and leaves the pen on `to`.
       Exactness of the last end point: `append_iter` does NOT emit the stated end point; the last `CurveTo` ends at the COMPUTED
       `center + sampleEllipse(start + step + … + step)` (`n` additions).  What is proved is that over ℝ this equals
       `center + sampleEllipse(start + sweep)` (C10) which equals `to` (C16A).  The parser separately sets `last_pt := p` (the
       stated end point): over ℝ the two agree (`svg_arc_command_pen`); in `f64` they differ by rounding (see NOT PROVED).
    2. `svg_arc_command_on_ellipse` – every appended end point lies on the ellipse with centre `a.center`, radii `a.radii` (both
       `> 0`), rotation `arc.x_rotation`; element `k` ends at the ellipse point of angle `θ_{k+1}`, `θ_k = start + k·sweep/n`,
       `θ_0 = start`, `θ_n = start + sweep`; the angles are strictly increasing when the sweep flag is set and strictly decreasing
       when it is clear; each step is `|sweep|/n ≤ 2π/3.999999`; the total turning `|θ_n − θ_0| = |sweep|` is `< 2π`, is `> π` iff
       the large-arc flag is set when the radii fit strictly (`rf < 1`), and in all cases flag set ⇒ `≥ π`, clear ⇒ `≤ π`
       (for `rf ≥ 1` it is exactly `π` for both flag values: C16A `svg_arc_half_turn`).
    3. `svg_arc_command_straight` (ANY `Scalar`, also `Float`) – `is_straight_line = true` ⇒ exactly one `LineTo to` is appended,
       it is the segment `from → to`, the pen ends on `to`.  `svg_arc_straight_iff` (ℝ): `is_straight_line` ⇔ `|rx| ≤ 10⁻⁵` or
       `|ry| ≤ 10⁻⁵` or `from = to`.  So for `from = to` (where SVG says the segment is omitted) the model – and the crate – emit a
       zero-length `LineTo` (`svg_arc_same_point`); for a zero radius a straight line as SVG demands; the threshold `10⁻⁵` (instead
       of `0`) is kurbo's.
       `svg_arc_command_pen`: in EVERY case the pen after the appended elements, drawn from `from`, is `to` – which is what the
       parser stores as `last_pt`.
    4. Parser level: `parse_moveTo_arc` (ANY `Scalar`): the text `ws* M x0 y0 ws* A rx ry rot fl fs x y ws*` (arbitrary white
       space, separators, number spellings; chunks as in C16) parses to `MoveTo (x0,y0) :: arcCommandEls ⟨(x0,y0), (x,y), (rx,ry),
       toRadians rot, fl, fs⟩`.  About that path: `moveTo_arc_segs` (ℝ): for a non-degenerate command its `Segments` are the
       `n ≥ 1` cubics of 1, from `(x0,y0)` to `(x,y)`; `moveTo_arc_straight` (any `Scalar`): otherwise `[MoveTo, LineTo (x,y)]`,
       one line segment.

    5. `svg_arc_command_count`: for sanitized radii `max(rx, ry) ≤ 366` the number of cubics is `⌈3.999999·|sweep|/(2π)⌉ ≤ 4`,
       and exactly `2` for a half turn (`rf ≥ 1`, e.g. every command whose radii had to be scaled up).

    NOT PROVED
    * Floating point.  Everything in 1, 2 and `moveTo_arc_segs` is over ℝ.  In `f64` the first control polygon starts at the
      pen (exactly `from`) while `C1 0` is computed from the arc's own start `center + sampleEllipse(start)` which only
      approximates `from`; the last `CurveTo` ends at a computed point that only approximates `to`, while `last_pt := to` exactly –
      so a following RELATIVE command is offset from `to`, whereas the next segment starts at the computed end point (difference:
      rounding of the centre/angle computation, not bounded here).  Parts 3 and `parse_moveTo_arc`, `moveTo_arc_straight` hold for `Float`.
    * That the cubics stay within the tolerance `0.1` of the ellipse between the knots: C10/C10A prove this only for circular arcs
      of large radius; for genuinely elliptical arcs only knots and tangent directions are exact (see C10's header).
    * `as usize` saturation (not in `LawfulCount`), so astronomically large radii (n > usize::MAX) are outside the statement.
    * The parser lift is for ONE arc command after a `MoveTo` with the letter spelled; implicit repetition of `A` and arbitrary
      command lists are not composed here (the step lemmas `cmd_arc`, `step_letter`, `step_implicit` of C16 are what is needed).
    No input class was found where the model violates the clause. -/
set_option linter.unusedSectionVars false
namespace Kurbo
open Real SvgArcR

/-! ### vocabulary -/

/-- `arcElements` of C16's `cmd_arc` is `arcCommandEls` of the `SvgArc` the parser builds; `arcCommandEls` is the `added` of the
    arc branch -/
theorem arc_command_elements {K : Type} [Scalar K] (f t radii : Point K) (xrot : K) (la sw : Bool) (arc : SvgArc K) :
    arcElements f t radii xrot la sw = arcCommandEls ⟨f, t, radii.to_vec2, toRadians xrot, la, sw⟩ ∧
    arcCommandEls arc = (match Arc.from_svg_arc arc with
      | some a => a.append_iter (Scalar.ofRat (1/10) : K)
      | none => [.LineTo arc.to]) := ⟨rfl, rfl⟩

section count
variable [Scalar ℝ] [LawfulScalar ℝ] [LawfulTrig] [LawfulCount]

/-- the `cmd…` names spelled out; the tolerance literal of the model is `1/10` -/
theorem cmd_vocabulary (a : Arc ℝ) (k : ℕ) :
    (Scalar.ofRat (1/10) : ℝ) = 1/10 ∧
    a.cmdN = (a.appendParams (1/10)).1 ∧
    a.cmdAngle k = a.start_angle + k * (a.sweep_angle / (a.cmdN : ℝ)) ∧
    a.cmdPt k = a.center + sampleEllipse a.radii a.x_rotation (a.cmdAngle k) ∧
    a.cmdC1 k = arcC1 a.center a.radii a.x_rotation (a.appendParams (1/10)).2.1 (a.appendParams (1/10)).2.2 a.start_angle k ∧
    a.cmdC2 k = arcC2 a.center a.radii a.x_rotation (a.appendParams (1/10)).2.1 (a.appendParams (1/10)).2.2 a.start_angle k :=
  ⟨arcTol_real, rfl, rfl, rfl, rfl, rfl⟩

end count

/-! ### 3. degenerate commands: one `LineTo` (any scalar) -/

theorem svg_arc_command_straight {K : Type} [Scalar K] (arc : SvgArc K) (h : arc.is_straight_line = true) (s : Point K) :
    arcCommandEls arc = [.LineTo arc.to] ∧
    segsT (s, arc.from) (arcCommandEls arc) = [.Line ⟨arc.from, arc.to⟩] ∧
    stAfterT (s, arc.from) (arcCommandEls arc) = (s, arc.to) ∧
    penAfter arc.from (arcCommandEls arc) = arc.to := by
  rw [arcCommandEls_straight arc h]
  exact ⟨rfl, rfl, rfl, rfl⟩

section real
variable [Scalar ℝ] [LawfulScalar ℝ] [LawfulReal] [LawfulRealAngle]

/-- what `is_straight_line` means over ℝ -/
theorem svg_arc_straight_iff (arc : SvgArc ℝ) :
    arc.is_straight_line = true ↔ (|arc.radii.x| ≤ 1/100000 ∨ |arc.radii.y| ≤ 1/100000 ∨ arc.from = arc.to) := by
  rw [← not_iff_not, Bool.not_eq_true, is_straight_line_false_iff]
  simp only [not_or, not_le]

/-- `from = to`: a zero-length `LineTo` (SVG would omit the segment) -/
theorem svg_arc_same_point (arc : SvgArc ℝ) (h : arc.from = arc.to) (s : Point ℝ) :
    arcCommandEls arc = [.LineTo arc.from] ∧ segsT (s, arc.from) (arcCommandEls arc) = [.Line ⟨arc.from, arc.from⟩] := by
  have hs := (svg_arc_straight_iff arc).mpr (.inr (.inr h))
  obtain ⟨h1, h2, -⟩ := svg_arc_command_straight arc hs s
  rw [h2, h1, ← h]; exact ⟨rfl, rfl⟩

example : (⟨⟨1, 2⟩, ⟨1, 2⟩, ⟨3, 4⟩, 0, true, false⟩ : SvgArc ℝ).from = (⟨⟨1, 2⟩, ⟨1, 2⟩, ⟨3, 4⟩, 0, true, false⟩ : SvgArc ℝ).to :=
  rfl
/-- a zero radius: `is_straight_line` -/
example : (⟨⟨0, 0⟩, ⟨2, 0⟩, ⟨0, 1⟩, 0, false, true⟩ : SvgArc ℝ).is_straight_line = true := by
  rw [svg_arc_straight_iff]; left; norm_num

end real

/-! ### 1. non-degenerate commands: a chain of cubics from `from` to `to` -/
section glue
variable [Scalar ℝ] [LawfulScalar ℝ] [LawfulReal] [LawfulRealAngle] [LawfulTrig] [LawfulCount]

theorem svg_arc_command_curves (arc : SvgArc ℝ) (h : arc.is_straight_line = false) (s : Point ℝ) :
    ∃ a, Arc.from_svg_arc arc = some a ∧ 1 ≤ a.cmdN ∧
      arcCommandEls arc = (List.range a.cmdN).map (fun k => PathEl.CurveTo (a.cmdC1 k) (a.cmdC2 k) (a.cmdPt (k + 1))) ∧
      (arcCommandEls arc).length = a.cmdN ∧
      a.cmdPt 0 = arc.from ∧ a.cmdPt a.cmdN = arc.to ∧
      segsT (s, arc.from) (arcCommandEls arc)
        = (List.range a.cmdN).map (fun k => PathSeg.Cubic ⟨a.cmdPt k, a.cmdC1 k, a.cmdC2 k, a.cmdPt (k + 1)⟩) ∧
      stAfterT (s, arc.from) (arcCommandEls arc) = (s, arc.to) ∧
      penAfter arc.from (arcCommandEls arc) = arc.to := by
  obtain ⟨a, ha, h0, hn, -, h1, -, -, -⟩ := svg_arc_exists arc h
  have hels : arcCommandEls arc = curveEls a.cmdC1 a.cmdC2 (fun k => a.cmdPt (k + 1)) a.cmdN := by
    unfold arcCommandEls; rw [ha]; exact arcToCubics_eq a
  refine ⟨a, ha, h1, hels, ?_, h0, hn, ?_, ?_, ?_⟩
  · rw [hels, curveEls_length]
  · rw [hels, ← h0, (segsT_curveEls s (a.cmdPt 0) _ _ _ _).1]
    simp only [curveSegs, chainStart_cmd]
  · rw [hels, ← h0, (segsT_curveEls s (a.cmdPt 0) _ _ _ _).2, chainStart_cmd, hn]
  · rw [hels, ← h0, penAfter_curveEls, chainStart_cmd, hn]

/-- in every case the pen after the appended elements is the stated end point – the parser's new `last_pt` -/
theorem svg_arc_command_pen (arc : SvgArc ℝ) (s : Point ℝ) :
    penAfter arc.from (arcCommandEls arc) = arc.to ∧ stAfterT (s, arc.from) (arcCommandEls arc) = (s, arc.to) := by
  cases h : arc.is_straight_line
  · obtain ⟨a, -, -, -, -, -, -, -, h1, h2⟩ := svg_arc_command_curves arc h s
    exact ⟨h2, h1⟩
  · obtain ⟨-, -, h1, h2⟩ := svg_arc_command_straight arc h s
    exact ⟨h2, h1⟩

/-! ### 2. on the ellipse, in the requested direction, with the requested size -/

theorem svg_arc_command_on_ellipse (arc : SvgArc ℝ) (h : arc.is_straight_line = false) :
    ∃ a, Arc.from_svg_arc arc = some a ∧ 0 < a.radii.x ∧ 0 < a.radii.y ∧ a.x_rotation = arc.x_rotation ∧
      (∀ el ∈ arcCommandEls arc, ∃ p, el.end_point = some p ∧ OnEllipse a.center a.radii.x a.radii.y arc.x_rotation p) ∧
      (∀ k, k < a.cmdN → ((arcCommandEls arc)[k]?.bind PathEl.end_point) = some (a.cmdPt (k + 1))) ∧
      a.cmdAngle 0 = a.start_angle ∧ a.cmdAngle a.cmdN = a.start_angle + a.sweep_angle ∧
      (arc.sweep = true → ∀ k, a.cmdAngle k < a.cmdAngle (k + 1)) ∧
      (arc.sweep = false → ∀ k, a.cmdAngle (k + 1) < a.cmdAngle k) ∧
      (∀ k, |a.cmdAngle (k + 1) - a.cmdAngle k| = |a.sweep_angle| / (a.cmdN : ℝ) ∧
            |a.cmdAngle (k + 1) - a.cmdAngle k| ≤ 2 * π / (3999999 / 1000000)) ∧
      |a.cmdAngle a.cmdN - a.cmdAngle 0| = |a.sweep_angle| ∧ |a.sweep_angle| < 2 * π ∧
      (rfR arc < 1 → (π < |a.sweep_angle| ↔ arc.large_arc = true)) ∧
      (arc.large_arc = true → π ≤ |a.sweep_angle|) ∧ (arc.large_arc = false → |a.sweep_angle| ≤ π) := by
  obtain ⟨a, ha, -, -, -, h1, hx, hy, hrot⟩ := svg_arc_exists arc h
  have hn0 : a.cmdN ≠ 0 := Nat.one_le_iff_ne_zero.mp h1
  have hnpos : (0 : ℝ) < (a.cmdN : ℝ) := by exact_mod_cast Nat.pos_of_ne_zero hn0
  have hels : arcCommandEls arc = curveEls a.cmdC1 a.cmdC2 (fun k => a.cmdPt (k + 1)) a.cmdN := by
    unfold arcCommandEls; rw [ha]; exact arcToCubics_eq a
  obtain ⟨d1, d2⟩ := svg_arc_sweep_direction arc a h ha
  obtain ⟨-, -, habs⟩ := svg_arc_sweep_iff arc a h ha
  obtain ⟨w1, w2⟩ := svg_arc_large_arc_weak arc a h ha
  refine ⟨a, ha, hx, hy, hrot, ?_, ?_, cmdAngle_zero a, cmdAngle_last a, ?_, ?_, ?_, ?_, habs, ?_, w1, w2⟩
  · intro el hel
    rw [hels] at hel
    obtain ⟨k, -, rfl⟩ := mem_curveEls hel
    rw [← hrot]
    exact ⟨_, rfl, center_add_onEllipse _ _ _ _ hx.ne' hy.ne'⟩
  · intro k hk
    rw [hels, curveEls_getElem? _ _ _ _ _ hk]; rfl
  · intro hs k
    have := cmdAngle_succ_sub a k
    have hpos : 0 < a.sweep_angle / (a.cmdN : ℝ) := div_pos (d1 hs).1 hnpos
    linarith
  · intro hs k
    have := cmdAngle_succ_sub a k
    have hneg : a.sweep_angle / (a.cmdN : ℝ) < 0 := div_neg_of_neg_of_pos (d2 hs).2 hnpos
    linarith
  · intro k
    rw [cmdAngle_succ_sub]
    refine ⟨?_, cmd_step_le a hn0⟩
    rw [abs_div, abs_of_pos hnpos]
  · rw [cmdAngle_zero, cmdAngle_last]; ring_nf
  · intro hrf
    exact (svg_arc_large_arc arc a h ha hrf).1

/-- how many cubics: for sanitized radii up to 366 (error-based count below the minimum `3.999999` per turn) the count is
    `⌈3.999999·|sweep|/(2π)⌉ ∈ {1,…,4}`; a half turn (in particular every command whose radii were too small, `rf ≥ 1`) is drawn
    with exactly two cubics -/
theorem svg_arc_command_count (arc : SvgArc ℝ) (h : arc.is_straight_line = false) :
    ∃ a, Arc.from_svg_arc arc = some a ∧
      (max a.radii.x a.radii.y ≤ 366 →
        (a.cmdN : ℝ) = (⌈3999999 / 1000000 * |a.sweep_angle| * (1 / (2 * π))⌉ : ℝ) ∧ a.cmdN ≤ 4 ∧
        (1 ≤ rfR arc → a.cmdN = 2)) := by
  obtain ⟨a, ha, -, -, -, -, hx, hy, -⟩ := svg_arc_exists arc h
  refine ⟨a, ha, fun hr => ?_⟩
  have h0 : 0 ≤ max a.radii.x a.radii.y := le_max_of_le_left hx.le
  have hN := cmdN_small a h0 hr
  refine ⟨hN, ?_, fun hrf => cmdN_half_turn a h0 hr ((svg_arc_half_turn arc a h ha).1.mpr hrf)⟩
  obtain ⟨-, -, habs⟩ := svg_arc_sweep_iff arc a h ha
  have hpi := Real.pi_pos
  have hy4 : 3999999 / 1000000 * |a.sweep_angle| * (1 / (2 * π)) ≤ ((4 : ℤ) : ℝ) := by
    rw [mul_one_div, div_le_iff₀ (by positivity)]; push_cast; nlinarith [abs_nonneg a.sweep_angle]
  have : ⌈3999999 / 1000000 * |a.sweep_angle| * (1 / (2 * π))⌉ ≤ 4 := Int.ceil_le.mpr hy4
  have h4 : (a.cmdN : ℝ) ≤ 4 := by rw [hN]; exact_mod_cast this
  exact_mod_cast h4

/-! ### non-vacuity: the arcs `exFit`, `exBig`, `exSmall` of C16A -/

example : exFit.is_straight_line = false ∧ exBig.is_straight_line = false ∧ exSmall.is_straight_line = false := by
  refine ⟨?_, ?_, ?_⟩ <;> rw [is_straight_line_false_iff] <;> refine ⟨?_, ?_, ?_⟩ <;> norm_num [exFit, exBig, exSmall]

/-- `A 1 1 0 0 1 2 0` from `(0,0)`: `n ≥ 1` cubics, the first starts at `(0,0)`, the pen ends at `(2,0)`, counter-clockwise in
    the y-up reading (angles increase), a half turn -/
example (s : Point ℝ) : ∃ a, Arc.from_svg_arc exFit = some a ∧ 1 ≤ a.cmdN ∧ a.cmdPt 0 = ⟨0, 0⟩ ∧ a.cmdPt a.cmdN = ⟨2, 0⟩ ∧
    penAfter ⟨0, 0⟩ (arcCommandEls exFit) = ⟨2, 0⟩ ∧ (∀ k, a.cmdAngle k < a.cmdAngle (k + 1)) ∧ |a.sweep_angle| = π := by
  have h : exFit.is_straight_line = false := by
    rw [is_straight_line_false_iff]; refine ⟨?_, ?_, ?_⟩ <;> norm_num [exFit]
  obtain ⟨a, ha, hn, -, -, h0, h1, -, -, hp⟩ := svg_arc_command_curves exFit h s
  obtain ⟨a', ha', -, -, -, -, -, -, -, hinc, -, -, -, -, -, -, -⟩ := svg_arc_command_on_ellipse exFit h
  obtain rfl : a' = a := Option.some.inj (ha'.symm.trans ha)
  have hrf : rfR exFit = 1 := by norm_num [rfR, pX, pY, exFit]
  exact ⟨a', ha, hn, h0, h1, hp, hinc rfl, (svg_arc_half_turn exFit a' h ha).1.mpr hrf.ge⟩

/-- `A 2 -2 0 1 0 2 0` from `(0,0)`: angles decrease, total turning between `π` and `2π` -/
example : ∃ a, Arc.from_svg_arc exBig = some a ∧ (∀ k, a.cmdAngle (k + 1) < a.cmdAngle k) ∧
    π < |a.cmdAngle a.cmdN - a.cmdAngle 0| ∧ |a.cmdAngle a.cmdN - a.cmdAngle 0| < 2 * π := by
  have h : exBig.is_straight_line = false := by
    rw [is_straight_line_false_iff]; refine ⟨?_, ?_, ?_⟩ <;> norm_num [exBig]
  have hrf : rfR exBig < 1 := by norm_num [rfR, pX, pY, exBig]
  obtain ⟨a, ha, -, -, -, -, -, -, -, -, hdec, -, htot, hlt, hla, -, -⟩ := svg_arc_command_on_ellipse exBig h
  refine ⟨a, ha, hdec rfl, ?_, ?_⟩
  · rw [htot]; exact (hla hrf).mpr rfl
  · rw [htot]; exact hlt

/-- `A .5 .5 0 0 1 2 0` from `(0,0)`: radii too small, scaled; still from `(0,0)` to `(2,0)` -/
example (s : Point ℝ) : ∃ a, Arc.from_svg_arc exSmall = some a ∧ 1 ≤ a.cmdN ∧
    penAfter ⟨0, 0⟩ (arcCommandEls exSmall) = ⟨2, 0⟩ := by
  have h : exSmall.is_straight_line = false := by
    rw [is_straight_line_false_iff]; refine ⟨?_, ?_, ?_⟩ <;> norm_num [exSmall]
  obtain ⟨a, ha, hn, -, -, -, -, -, -, hp⟩ := svg_arc_command_curves exSmall h s
  exact ⟨a, ha, hn, hp⟩

/-- `exFit` (radii `(1,1)`, half turn) is drawn with exactly 2 cubics -/
example : ∃ a, Arc.from_svg_arc exFit = some a ∧ a.cmdN = 2 := by
  have h : exFit.is_straight_line = false := by
    rw [is_straight_line_false_iff]; refine ⟨?_, ?_, ?_⟩ <;> norm_num [exFit]
  have hrf : rfR exFit = 1 := by norm_num [rfR, pX, pY, exFit]
  obtain ⟨a, ha, hc⟩ := svg_arc_command_count exFit h
  obtain ⟨r1, -⟩ := svg_arc_radii exFit a h ha
  have hr : max a.radii.x a.radii.y ≤ 366 := by rw [r1 hrf.le]; norm_num [exFit]
  exact ⟨a, ha, (hc hr).2.2 hrf.ge⟩

end glue

/-! ### 4. parser level: `M x0 y0 A rx ry rot fl fs x y` -/
section parse
variable {K : Type} [Scalar K]

/-- `ws* M x0 y0 ws* A rx ry rot fl fs x y ws*` parses to the `MoveTo` followed by what the arc command appends -/
theorem parse_moveTo_arc (data : ByteArray) (ws0 ws1 ws2 : List UInt8) (q0 : PtChunk)
    (qr : PtChunk) (kx : NumChunk) (f1 f2 : FlagChunk) (qp : PtChunk)
    (hdata : data.data.toList
      = ws0 ++ 77 :: (q0.bytes ++ (ws1 ++ 65 :: (qr.bytes ++ (kx.bytes ++ (f1.bytes ++ (f2.bytes ++ (qp.bytes ++ ws2))))))))
    (hws0 : ∀ b ∈ ws0, isWs b = true) (hws1 : ∀ b ∈ ws1, isWs b = true) (hws2 : ∀ b ∈ ws2, isWs b = true)
    (hq0 : q0.Ok (ws1 ++ 65 :: (qr.bytes ++ (kx.bytes ++ (f1.bytes ++ (f2.bytes ++ (qp.bytes ++ ws2)))))))
    (hqr : qr.Ok (kx.bytes ++ (f1.bytes ++ (f2.bytes ++ (qp.bytes ++ ws2))))) (hkx : kx.Ok (f1.bytes ++ (f2.bytes ++ (qp.bytes ++ ws2))))
    (hf1 : f1.Ok (f2.bytes ++ (qp.bytes ++ ws2))) (hf2 : f2.Ok (qp.bytes ++ ws2)) (hqp : qp.Ok ws2) :
    fromSvgBytes (K := K) data
      = .ok (.MoveTo q0.value ::
          arcCommandEls ⟨q0.value, qp.value, (qr.value : Point K).to_vec2, toRadians kx.value, f1.value, f2.value⟩) := by
  set tailA := qr.bytes ++ (kx.bytes ++ (f1.bytes ++ (f2.bytes ++ (qp.bytes ++ ws2)))) with htailA
  have hsize : data.size = (ws0 ++ 77 :: (q0.bytes ++ (ws1 ++ 65 :: tailA))).length := by
    rw [← hdata]; simp
  obtain ⟨f, hf⟩ : ∃ f, data.size + 1 = f + 1 + 1 + 1 := ⟨data.size - 2, by
    rw [hsize]; simp only [List.length_append, List.length_cons]; omega⟩
  unfold fromSvgBytes
  rw [hf]
  have hrem0 : Lx.rem ⟨data, 0⟩ = ws0 ++ 77 :: (q0.bytes ++ (ws1 ++ 65 :: tailA)) := by
    simp [Lx.rem, hdata]
  rw [step_moveTo _ _ _ ws0 _ 77 (.inr rfl) q0 hrem0 hws0 hq0]
  have hrem1 : (Lx.adv ⟨data, 0⟩ (ws0.length + 1 + q0.bytes.length)).rem = ws1 ++ 65 :: tailA := by
    have : Lx.rem ⟨data, 0⟩ = (ws0 ++ 77 :: q0.bytes) ++ (ws1 ++ 65 :: tailA) := by rw [hrem0]; simp
    have h := Lx.rem_adv this
    rw [show (ws0 ++ 77 :: q0.bytes).length = ws0.length + 1 + q0.bytes.length by simp; omega] at h
    exact h
  simp only [relPt_upper (c := 77) (by decide)]
  have hrem2 : ((Lx.adv ⟨data, 0⟩ (ws0.length + 1 + q0.bytes.length)).adv (ws1.length + 1)).rem = tailA := by
    have h := Lx.rem_adv (xs := ws1 ++ [65]) (r := tailA) (by rw [hrem1]; simp)
    simpa using h
  have hcmd := fun (st : SvgSt K) hp =>
    cmd_arc (K := K) st _ ws2 65 (.inr rfl) qr kx f1 f2 qp hrem2 hqr hkx hf1 hf2 hqp hp
  refine (step_letter _ _ _ hrem1 hws1 (by decide) (hcmd _ (by simp))).trans ?_
  have hrem3 := Lx.rem_adv (xs := qr.bytes ++ (kx.bytes ++ (f1.bytes ++ (f2.bytes ++ qp.bytes)))) (r := ws2)
    (by rw [hrem2, htailA]; simp)
  simp only [List.length_append, ← Nat.add_assoc] at hrem3
  rw [step_end _ _ _ ws2 hrem3 hws2]
  simp [SvgSt.flushed_of_none, relPt_upper (c := 65) (by decide), arcElements_eq_cmd]

/-- the string `"M0 0 A1 1 0 0 1 2 0"` meets the hypotheses of `parse_moveTo_arc` -/
example :
    let n (d : UInt8) (sep : List UInt8) : NumChunk := { p := { ip := [d] }, sep := sep }
    let q0 : PtChunk := { x := n 48 [32], y := n 48 [32] }
    let qr : PtChunk := { x := n 49 [32], y := n 49 [32] }
    let kx : NumChunk := n 48 [32]
    let f1 : FlagChunk := { flag := 48, sep := [32] }
    let f2 : FlagChunk := { flag := 49, sep := [32] }
    let qp : PtChunk := { x := n 50 [32], y := n 48 [] }
    "M0 0 A1 1 0 0 1 2 0".toUTF8.data.toList
      = [] ++ 77 :: (q0.bytes ++ ([] ++ 65 :: (qr.bytes ++ (kx.bytes ++ (f1.bytes ++ (f2.bytes ++ (qp.bytes ++ []))))))) ∧
    q0.Ok ([] ++ 65 :: (qr.bytes ++ (kx.bytes ++ (f1.bytes ++ (f2.bytes ++ (qp.bytes ++ [])))))) ∧
    qr.Ok (kx.bytes ++ (f1.bytes ++ (f2.bytes ++ (qp.bytes ++ [])))) ∧ kx.Ok (f1.bytes ++ (f2.bytes ++ (qp.bytes ++ []))) ∧
    f1.Ok (f2.bytes ++ (qp.bytes ++ [])) ∧ f2.Ok (qp.bytes ++ []) ∧ qp.Ok [] ∧
    (q0.value : Point Rat) = ⟨0, 0⟩ ∧ (qp.value : Point Rat) = ⟨2, 0⟩ ∧ (qr.value : Point Rat) = ⟨1, 1⟩ := by
  refine ⟨by decide, ⟨⟨by decide, by decide, by decide, SepOk.ws (by decide) (by decide)⟩,
      ⟨by decide, by decide, by decide, SepOk.ws (by decide) (by decide)⟩⟩,
    ⟨⟨by decide, by decide, by decide, SepOk.ws (by decide) (by decide)⟩,
      ⟨by decide, by decide, by decide, SepOk.ws (by decide) (by decide)⟩⟩,
    ⟨by decide, by decide, by decide, SepOk.ws (by decide) (by decide)⟩,
    ⟨by decide, by decide, SepOk.ws (by decide) (by decide)⟩,
    ⟨by decide, by decide, SepOk.ws (by decide) (by decide)⟩,
    ⟨⟨by decide, by decide, by decide, SepOk.ws (by decide) (by decide)⟩,
      ⟨by decide, by decide, by decide, SepOk.ws (by decide) (by decide)⟩⟩,
    by decide +kernel, by decide +kernel, by decide +kernel⟩

/-- the same text, evaluated over `Rat` up to the call of `from_svg_arc` is not possible (`sqrt`, `atan2` are not rational);
    a degenerate one is: radius `0` gives the straight line -/
example : fromSvg (K := Rat) "M0 0 A0 1 0 0 1 2 0" = .ok [.MoveTo ⟨0, 0⟩, .LineTo ⟨2, 0⟩] := by decide +kernel
/-- `from = to`: a zero-length `LineTo` -/
example : fromSvg (K := Rat) "M1 2 A3 4 0 1 0 1 2" = .ok [.MoveTo ⟨1, 2⟩, .LineTo ⟨1, 2⟩] := by decide +kernel

/-- degenerate command after `MoveTo from`: the path `[MoveTo from, LineTo to]`, one line segment (any scalar) -/
theorem moveTo_arc_straight (arc : SvgArc K) (h : arc.is_straight_line = true) :
    PathEl.MoveTo arc.from :: arcCommandEls arc = [.MoveTo arc.from, .LineTo arc.to] ∧
    segs (PathEl.MoveTo arc.from :: arcCommandEls arc) = some [.Line ⟨arc.from, arc.to⟩] := by
  rw [arcCommandEls_straight _ h, segs_moveTo]
  exact ⟨rfl, rfl⟩

end parse

section parseReal
variable [Scalar ℝ] [LawfulScalar ℝ] [LawfulReal] [LawfulRealAngle] [LawfulTrig] [LawfulCount]

/-- non-degenerate command after `MoveTo from` (the path `parse_moveTo_arc` returns, `from = (x0,y0)`, `to = (x,y)`): the
    `Segments` of the path are the `n ≥ 1` cubics from `from` to `to`, and the pen ends on `to` -/
theorem moveTo_arc_segs (arc : SvgArc ℝ) (h : arc.is_straight_line = false) :
    ∃ a, Arc.from_svg_arc arc = some a ∧ 1 ≤ a.cmdN ∧ a.cmdPt 0 = arc.from ∧ a.cmdPt a.cmdN = arc.to ∧
      segs (PathEl.MoveTo arc.from :: arcCommandEls arc) = some ((List.range a.cmdN).map
        (fun k => PathSeg.Cubic ⟨a.cmdPt k, a.cmdC1 k, a.cmdC2 k, a.cmdPt (k + 1)⟩)) ∧
      penAfter arc.from (PathEl.MoveTo arc.from :: arcCommandEls arc) = arc.to := by
  obtain ⟨a, ha, hn, he, hlen, h0, h1, hs, -, hp⟩ := svg_arc_command_curves arc h arc.from
  refine ⟨a, ha, hn, h0, h1, ?_, ?_⟩
  · rw [segs_moveTo]; exact congrArg some hs
  · have hne : arcCommandEls arc ≠ [] := by
      intro h0'
      have := congrArg List.length h0'
      rw [hlen] at this
      simp at this; omega
    unfold penAfter at hp ⊢
    rw [List.getLast?_cons_of_ne_nil hne]
    exact hp

end parseReal

/-- all five law classes are inhabited together: ℝ with the Mathlib functions -/
example : ∃ (_ : Scalar ℝ) (_ : LawfulScalar ℝ) (_ : LawfulReal) (_ : LawfulRealAngle) (_ : LawfulTrig), LawfulCount :=
  ⟨realScalar, realScalar_lawful, realScalar_lawfulReal, realScalar_lawfulRealAngle, realScalar_lawfulTrig,
    realScalar_lawfulCount⟩

end Kurbo
