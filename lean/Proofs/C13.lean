import Proofs.Lemmas.C13
import Proofs.Lemmas.C13Arith
import Proofs.Lemmas.C13Sim
import Proofs.Lemmas.C13Real
import Proofs.Lemmas.C13Open
/-! C13 – Dashing.
    "Dashing a path yields pieces that lie on the source path, in path order, whose total length equals the length of the
    path that falls in the 'on' intervals of the pattern shifted by the dash offset, each piece starting and ending where
    the pattern switches.  The pattern restarts at every sub-path, and on a closed sub-path the final dash is joined to the
    first when both are on."

    All theorems are about the hand-written model `Kurbo/Dash.lean` (`DashIt`, `dashImpl`, `getInputList`, `DashIt.step`,
    `DashIt.next`, `dashCollect`, `dash`) exactly as it is.  Helper lemmas and the specification side live in
    `Proofs/Lemmas/C13.lean` (structure), `C13Arith.lean` (arc-length specification `DashSpec.walk`, `dash_impl`, one
    `step` on a line), `C13Sim.lean` (simulation of `step` chains), `C13Open.lean` (`dash` end to end on an open polyline),
    `C13Real.lean` (`LawfulHypotSq ℝ`, witnesses over ℝ).

    PROVED
    A. structure / totality, for every `[Scalar K]` (so also for `Float`):
       * `dashImpl_no_panic`, `dashImpl_empty_pattern_panics`, `dash_ix_invariant`, `step_no_panic`, `next_no_panic`,
         `dashCollect_no_panic`, `dash_no_panic`, `dash_empty_pattern_panics`: for a non-empty pattern the index panic
         `self.dashes[self.dash_ix]` is unreachable (and for the empty pattern `dash` does panic);
       * `get_input_loop_progress`, `get_input_loop_outcome`, `get_input_outcome`, `getInputList_skips_empty_closepath`:
         how `get_input` ends;
       * `phase_reset_per_subpath`: `MoveTo` and `handle_closepath` restart the pattern at the phase of `dash_impl`;
       * `step_output_kinds`, `next_polyline_kinds`, `dash_polyline_kinds`: a polyline dashes to a polyline.
    B. arithmetic, for every lawful `K` (straight segments; geometry needs `LawfulHypotSq K`: `hypot² = x²+y²`, `hypot ≥ 0`):
       * `dash_impl_phase`, `dash_impl_phase_exists`, `dash_impl_phase_rem_le`: `dash_impl` finds the position of the
         offset in the periodic pattern (odd-length patterns alternate across the wrap);
       * `dash_step_line_switch`, `dash_step_line_switch_arclen`, `dash_step_line_end`: one `step` on a line: the emitted
         point is ON the segment (`l.eval t'`), exactly `dash_remaining` further by arc length, i.e. where the pattern switches;
       * `dash_vertices_invisible` (= `consume_add`), `dash_conservation_arclen`, `dash_walk_bounds`,
         `dash_walk_terminates`: the arc-length specification; `steps_are_next_calls`, `dash_segment_refines`,
         `dash_open_polyline_refines`, `dash_open_polyline_conserves`: the model's `step` chain on an open polyline
         (state `Working`) emits strokes of total length = the on-length that the specification assigns to ONE straight
         stretch of the total length, and ends at the specification's pattern position.
    C. (partial)
       * `dash_open_conserves`, `dash_open_spec_onlength`: END TO END for ONE OPEN POLYLINE SUB-PATH `M p0 L q L q₁ …`:
         whenever `dash` returns a list, the total stroke length of that list equals the on-length of the pattern, started
         at the position of the offset (`dash_impl_phase`), over one straight stretch of the total length of the path, and it
         lies in `[0, length]`; and when the pattern is on at the offset the output is `E ++ MoveTo p0 :: N` – the first dash
         comes last (the rotation of "in path order").  The iterator is followed through all four states.
       * `dash_short_segment_whole`: a segment inside the first dash is returned whole (in particular `dash` does return).
       * the stash mechanism as equations on the model: `next_toStash_withholds`, `next_fromStash_replays`,
         `handle_closepath_join`; rotation, join on a closed square, restart per sub-path, odd patterns and `M p Z` are
         checked on the model itself over `Rat` by `decide +kernel` (last section).

    NOT PROVED
    * `dash_open_spec` in full (the arc-length INTERVAL of every output piece: sorted, interior-disjoint, inside the on-set,
      end points at switch points): proved are the total length (C), the per-`step` position of every emitted point (B) and
      the rotation; the per-piece intervals are not assembled into one statement.
    * several sub-paths in one path, and closed sub-paths (`dash_closed_spec`: splice of the final dash with the first at a
      `ClosePath`): only A (no panic, kinds, phase reset) and the equations / `Rat` evaluations of C.
    * that `dash` returns at all (a fuel bound for `DashIt.next` / `dashCollect`, `next_terminates`) in general: C is
      conditional on `dash … = .ok out`; unconditional only `dash_short_segment_whole` and the arc-length form
      `dash_walk_terminates`.
    * curves (`QuadTo`/`CurveTo`): nothing beyond part A (depends on the accuracy of `inv_arclen`, C03).
    * patterns with zero or negative entries are outside B and C (`0 ≤ cyc dashes i` / `0 < dashes[i]` are hypotheses).
    * `Rat` is not an instance of `LawfulHypotSq` (its `hypot` approximates irrational roots), so the non-vacuity witnesses
      of the geometric theorems are over `ℝ` (`realScalar`); on `Rat` the model is evaluated directly. -/
set_option linter.unusedSectionVars false
namespace Kurbo
open DashSpec

/-! ## A. Structure and totality (every `Scalar`, also `Float`) -/
section structural
variable {K : Type} [Scalar K]

/-- `dash_impl` does not panic on a non-empty pattern (whatever the offset and the entries – also negative or NaN), and
    the index it computes is in range; it starts in `NeedInput` with an empty stash, at the initial phase. -/
theorem dashImpl_no_panic (inner : List (PathEl K)) (off : K) (dashes : Array K) (fuel : Nat) (hn : 0 < dashes.size) :
    ∃ it, dashImpl inner off dashes fuel = some it ∧ it.dash_ix < dashes.size ∧ it.init_dash_ix < dashes.size ∧
      it.dashes = dashes ∧ it.inner = inner ∧ it.PhaseInit ∧ it.state = .NeedInput ∧ it.stash = #[] ∧
      it.input_done = false ∧ it.closepath_pending = false := by
  obtain ⟨it, h1, h2, h3, h4, h5, h6, h7, -, h9, h10⟩ := dashImpl_ok inner off dashes fuel hn
  exact ⟨it, h1, h3 ▸ h2.1, h3 ▸ h2.2, h3, h4, h5, h6, h7, h9, h10⟩
example : 0 < (#[1, 5, 2, 5] : Array Rat).size := by decide

/-- … and it does panic (`dashes[0]`) on the empty pattern: the hypothesis above is necessary. -/
theorem dashImpl_empty_pattern_panics (inner : List (PathEl K)) (off : K) (fuel : Nat) :
    dashImpl inner off (#[] : Array K) fuel = none := rfl

/-- `dash_ix < dashes.len()` and `init_dash_ix < dashes.len()` are kept by everything that touches the phase. -/
theorem dash_ix_invariant (s : DashIt K) (h : s.IxOk) :
    s.reset_phase.IxOk ∧ s.handle_closepath.IxOk ∧ s.get_input.IxOk ∧ (∀ b l, (getInputList b l s).IxOk) ∧
      ∀ r s', s.step = some (r, s') → s'.IxOk :=
  ⟨reset_phase_ixOk s h, handle_closepath_ixOk s h, get_input_ixOk s h,
    fun b l => IxOk_of_phase h (getInputList_phase b l s).1 (getInputList_phase b l s).2,
    fun r s' e => (step_ixOk s s' r h e).1⟩

example : exWorking.IxOk := by unfold DashIt.IxOk exWorking; decide
example : exWorking.step.map (·.1) = some (some (.MoveTo ⟨6, 0⟩)) := by decide +kernel

/-- hence `step` never hits the index panic … -/
theorem step_no_panic (s : DashIt K) (h : s.IxOk) :
    s.step ≠ none ∧ dashAt s.dashes s.dash_ix ≠ none ∧ dashAt s.dashes s.nextIx ≠ none := by
  refine ⟨step_ne_none s h, ?_, ?_⟩
  · rw [dashAt_lt _ _ h.1]; exact Option.some_ne_none _
  · rw [dashAt_lt _ _ (nextIx_lt s h.1)]; exact Option.some_ne_none _

/-- … nor does `Iterator::next`, and the invariant holds for the state it returns … -/
theorem next_no_panic (fuel : Nat) (s : DashIt K) (h : s.IxOk) :
    s.next fuel ≠ .panic ∧ (∀ el s', s.next fuel = .some el s' → s'.IxOk) ∧ (∀ s', s.next fuel = .none s' → s'.IxOk) := by
  have hg := next_inv ixOk_nextInv fuel s h
  refine ⟨?_, ?_, ?_⟩
  · intro e
    rw [e] at hg
    exact hg step_ne_none
  · intro el s' e
    rw [e] at hg
    exact hg.1
  · intro s' e
    rw [e] at hg
    exact hg

example : (exWorking.next 10).el? = some (.MoveTo ⟨6, 0⟩) := by decide +kernel

/-- … nor `collect()` … -/
theorem dashCollect_no_panic (n : Nat) (s : DashIt K) (acc : List (PathEl K)) (h : s.IxOk) :
    dashCollect n s acc ≠ .panic := by
  have hg := dashCollect_inv ixOk_nextInv n s acc h (fun _ _ => trivial)
  intro e
  rw [e] at hg
  exact hg step_ne_none

/-- … so `dash` with a non-empty pattern never panics (for every path, offset, pattern entries and scalar type). -/
theorem dash_no_panic (inner : List (PathEl K)) (off : K) (dashes : Array K) (budget : Nat) (hn : 0 < dashes.size) :
    dash inner off dashes budget ≠ .panic := by
  obtain ⟨it, h1, h2, -⟩ := dashImpl_ok inner off dashes 100000 hn
  unfold dash
  rw [h1]
  exact dashCollect_no_panic budget it [] h2
example : 0 < (#[1, 5, 2, 5] : Array Rat).size := by decide

/-- With the empty pattern it does (Rust: index out of bounds in `dash_impl`). -/
theorem dash_empty_pattern_panics (inner : List (PathEl K)) (off : K) (budget : Nat) :
    (match dash inner off (#[] : Array K) budget with | .panic => True | _ => False) := by
  unfold dash
  rw [dashImpl_empty_pattern_panics]
  trivial

/-! ### `get_input` -/

/-- `get_input`'s loop consumes at least one element or reports the end of the input. -/
theorem get_input_loop_progress (b : Bool) (l : List (PathEl K)) (s : DashIt K) :
    (getInputList b l s).input_done = true ∨ (getInputList b l s).inner.length < l.length :=
  getInputList_progress b l s

/-- The three ways the loop ends (`DashIt.InputOutcome`, `Proofs/Lemmas/C13.lean`): end of input
    (`input_done ∧ state = FromStash`); or a segment was loaded with `t = 0`, starting at the previous `last_pt` with the phase
    untouched, or – after `MoveTo`s – at the last `MoveTo` point (= new `start_pt`) with the phase reset; or a `ClosePath`
    was handled (`state = FromStash`, phase reset, `closepath_pending`). -/
theorem get_input_loop_outcome (b : Bool) (l : List (PathEl K)) (s : DashIt K) :
    s.InputOutcome l (getInputList b l s) := getInputList_outcome b l s

/-- `get_input` itself: a pending `ClosePath` is handled first (state `FromStash`, phase reset, no input consumed),
    otherwise the loop runs on the remaining input. -/
theorem get_input_outcome (s : DashIt K) :
    (s.closepath_pending = true → s.get_input.state = .FromStash ∧ s.get_input.PhaseInit ∧
        s.get_input.inner = s.inner ∧ s.get_input.t = Scalar.ofRat (0 : Nat)) ∧
    (s.closepath_pending = false → s.InputOutcome s.inner s.get_input) := by
  constructor
  · intro h
    unfold DashIt.get_input
    rw [if_pos h]
    exact ⟨handle_closepath_state s, handle_closepath_phaseInit s, (handle_closepath_fields s).2.1, rfl⟩
  · intro h
    unfold DashIt.get_input
    rw [if_neg (by rw [h]; exact Bool.false_ne_true)]
    exact getInputList_outcome false s.inner s
example : exWorking.closepath_pending = false := rfl

/-- A `ClosePath` that closes a sub-path without segments (`subpath_is_empty`) is skipped: directly after a `MoveTo`
    consumed in the same call, or after another skipped `ClosePath`. -/
theorem getInputList_skips_empty_closepath (b : Bool) (p : Point K) (rest : List (PathEl K)) (s : DashIt K) :
    getInputList b (.MoveTo p :: .ClosePath :: rest) s = getInputList b (.MoveTo p :: rest) s ∧
    getInputList true (.ClosePath :: rest) s = getInputList true rest { s with inner := rest } :=
  ⟨getInputList_moveTo_closePath b p rest s, rfl⟩

/-! ### the pattern restarts at every sub-path -/

/-- After `get_input` consumed a `MoveTo` (whatever it consumed after it in the same call), and after
    `handle_closepath`, the phase is the one `dash_impl` computed: `dash_ix = init_dash_ix`,
    `dash_remaining = init_dash_remaining`, `is_active = init_is_active`; and the `init_*` fields and the pattern are
    never written. -/
theorem phase_reset_per_subpath (s : DashIt K) :
    (∀ p rest, s.closepath_pending = false → s.inner = .MoveTo p :: rest → s.get_input.PhaseInit) ∧
    s.handle_closepath.PhaseInit ∧ s.reset_phase.PhaseInit ∧
    s.SameInit s.get_input ∧ s.SameInit s.handle_closepath ∧ (∀ r s', s.IxOk → s.step = some (r, s') → s.SameInit s') := by
  refine ⟨?_, handle_closepath_phaseInit s, reset_phase_phaseInit s, (get_input_phase s).1,
    handle_closepath_sameInit s, fun r s' h e => (step_ixOk s s' r h e).2⟩
  intro p rest hcp hin
  unfold DashIt.get_input
  rw [if_neg (by rw [hcp]; exact Bool.false_ne_true), hin]
  exact getInputList_moveTo_phaseInit false p rest s

/-! ### output kinds -/

/-- Every element produced by `step` is a `MoveTo`, or `seg_to_el` of a sub-segment (of a sub-segment) of the current
    segment. -/
theorem step_output_kinds (s s' : DashIt K) (el : PathEl K) (e : s.step = some (some el, s')) :
    (∃ p, el = .MoveTo p) ∨ (∃ r : Range K, el = segToEl (s.current_seg.subsegment r)) ∨
      (∃ r r' : Range K, el = segToEl ((s.current_seg.subsegment r).subsegment r')) := step_output s s' el e
example : exWorking.step.map (·.1) = some (some (.MoveTo ⟨6, 0⟩)) := by decide +kernel

/-- One `next` on a polyline state (remaining input, current segment and stash consist of `MoveTo`/`LineTo`/`ClosePath`
    and a `Line`): the element returned is `MoveTo`/`LineTo`/`ClosePath` and the new state is again a polyline state. -/
theorem next_polyline_kinds (fuel : Nat) (s : DashIt K) (h : s.PolyInv) :
    (∀ el s', s.next fuel = .some el s' → el.isPoly = true ∧ s'.PolyInv) ∧ (∀ s', s.next fuel = .none s' → s'.PolyInv) := by
  have hg := next_inv polyInv_nextInv fuel s h
  refine ⟨?_, ?_⟩
  · intro el s' e
    rw [e] at hg
    exact ⟨hg.2, hg.1⟩
  · intro s' e
    rw [e] at hg
    exact hg

example : exWorking.PolyInv := by
  refine ⟨by decide, ⟨_, rfl⟩, ?_⟩
  intro el hel
  simp [exWorking] at hel

/-- If the input has only `MoveTo`/`LineTo`/`ClosePath`, so has the output of `dash`. -/
theorem dash_polyline_kinds (inner : List (PathEl K)) (off : K) (dashes : Array K) (budget : Nat)
    (out : List (PathEl K)) (hp : ∀ el ∈ inner, el.isPoly = true) (h : dash inner off dashes budget = .ok out) :
    ∀ el ∈ out, el.isPoly = true := by
  unfold dash at h
  split at h
  · cases h
  · rename_i it hit
    have hg := dashCollect_inv polyInv_nextInv budget it [] (dashImpl_polyInv inner off dashes _ it hp hit)
      (fun _ hel => by cases hel)
    rw [h] at hg
    exact hg

example : (∀ el ∈ [PathEl.MoveTo (⟨0, 0⟩ : Point Rat), .LineTo ⟨4, 0⟩, .LineTo ⟨4, 4⟩, .ClosePath], el.isPoly = true) ∧
    (dash [.MoveTo ⟨0, 0⟩, .LineTo ⟨4, 0⟩, .LineTo ⟨4, 4⟩, .ClosePath] (0 : Rat) #[3, 2]).okList.isSome = true := by
  decide +kernel

end structural

/-! ## B. Arithmetic (every lawful scalar; straight segments) -/
section arithmetic
variable {K : Type} [Field K] [LinearOrder K] [IsStrictOrderedRing K] [FloorRing K] [Scalar K] [LawfulScalar K]

/-! ### `dash_impl`: the position of the offset in the periodic pattern
    `cyc dashes j = dashes[j % n]` is the pattern repeated, `prefixSum dashes k = Σ_{j ≤ k} cyc dashes j` the end of its
    `k`-th entry. -/

/-- `dash_impl` stops at the first entry `steps` of the repeated pattern whose end is not before the offset:
    `dash_ix = steps mod n`, `dash_remaining = (Σ_{j ≤ steps} dashes[j mod n]) − offset ≥ 0`, and `is_active` flips once per
    entry, so it is `steps even` – also across the wrap of an odd-length pattern, where entry 0 is "off" the second time
    round.  (For `offset < 0` this gives `steps = 0` and `dash_remaining = dashes[0] − offset`: the first dash is
    lengthened; for `0 ≤ offset` the position is inside entry `steps`, `dash_impl_phase_rem_le`.) -/
theorem dash_impl_phase (inner : List (PathEl K)) (dashes : Array K) (hn : 0 < dashes.size) (offset : K)
    (steps fuel : Nat) (hf : steps ≤ fuel) (hmin : ∀ k < steps, prefixSum dashes k < offset)
    (hlast : offset ≤ prefixSum dashes steps) :
    ∃ it, dashImpl inner offset dashes fuel = some it ∧ it.dash_ix = steps % dashes.size ∧
      it.dash_remaining = prefixSum dashes steps - offset ∧ 0 ≤ it.dash_remaining ∧
      it.is_active = decide (steps % 2 = 0) ∧ it.PhaseInit ∧ it.dashes = dashes := by
  obtain ⟨it, h1, h2, h3, h4, h5, h6⟩ := dashImpl_phase inner dashes hn offset steps fuel hf hmin hlast
  exact ⟨it, h1, h2, h3, by rw [h3]; linarith, h4, h5, h6⟩
-- pattern [1,5,2,5], offset 7: entries end at 1, 6, 8: `steps = 2`, inside the dash of length 2 with 1 to go
example : (∀ k < 2, prefixSum (#[1, 5, 2, 5] : Array Rat) k < 7) ∧ (7 : Rat) ≤ prefixSum #[1, 5, 2, 5] 2 := by
  decide +kernel
example : (dashImpl ([] : List (PathEl Rat)) 7 #[1, 5, 2, 5]).map (fun it => (it.dash_ix, it.dash_remaining, it.is_active))
    = some (2, 1, true) := by decide +kernel
-- odd-length pattern [2,2,1], offset 6: entries end at 2, 4, 5, 7: `steps = 3`, entry 0 again, but now it is a gap
example : (∀ k < 3, prefixSum (#[2, 2, 1] : Array Rat) k < 6) ∧ (6 : Rat) ≤ prefixSum #[2, 2, 1] 3 := by
  decide +kernel
example : (dashImpl ([] : List (PathEl Rat)) 6 #[2, 2, 1]).map (fun it => (it.dash_ix, it.dash_remaining, it.is_active))
    = some (0, 1, false) := by decide +kernel

/-- For a pattern of positive entries such a `steps` exists for every offset (so with enough fuel `dash_impl` always ends
    as described; the model's default fuel is 100000 rounds). -/
theorem dash_impl_phase_exists (dashes : Array K) (hn : 0 < dashes.size)
    (hpos : ∀ i, (h : i < dashes.size) → 0 < dashes[i]) (offset : K) :
    ∃ steps, (∀ k < steps, prefixSum dashes k < offset) ∧ offset ≤ prefixSum dashes steps :=
  exists_steps dashes hn hpos offset
example : ∀ i, (h : i < (#[1, 5, 2, 5] : Array Rat).size) → 0 < (#[1, 5, 2, 5] : Array Rat)[i] := by decide +kernel

/-- For `0 ≤ offset` the remaining length does not exceed the entry: the position is inside entry `steps`. -/
theorem dash_impl_phase_rem_le (dashes : Array K) (offset : K) (h0 : 0 ≤ offset) (steps : Nat)
    (hmin : ∀ k < steps, prefixSum dashes k < offset) : prefixSum dashes steps - offset ≤ cyc dashes steps :=
  prefixSum_rem_le dashes offset h0 steps hmin

/-! ### one `step` on a straight segment -/

/-- **Switch inside a line.** State not at the start of a stash (`Working`, or `ToStash` with a non-empty stash), current
    segment the line `l` of length `L > 0`, `t < 1`, and the current entry ends inside the segment
    (`dash_remaining < seg_remaining`): the step emits the point `l.eval t'` at `t' = t + dash_remaining / L` – as `LineTo`
    if the entry was on, as `MoveTo` if it was off –, flips `is_active`, sets `t := t'`, shortens `seg_remaining` by
    `dash_remaining` and loads the next pattern entry (cyclically). -/
theorem dash_step_line_switch [LawfulHypotSq K] (s : DashIt K) (l : Line K) (L : K) (hseg : s.current_seg = .Line l)
    (hL : l.arclen 0 = L) (hLpos : 0 < L) (ht : s.t < 1) (hst : (s.state == .ToStash && s.stash.isEmpty) = false)
    (hix : s.dash_ix < s.dashes.size) (hlt : s.dash_remaining < s.seg_remaining) :
    s.step = some (some (if s.is_active then .LineTo (l.eval (s.t + s.dash_remaining / L))
                         else .MoveTo (l.eval (s.t + s.dash_remaining / L))),
      { s with state := if s.is_active then .Working else s.state, is_active := !s.is_active,
               t := s.t + s.dash_remaining / L, seg_remaining := s.seg_remaining - s.dash_remaining,
               dash_ix := (s.dash_ix + 1) % s.dashes.size, dash_remaining := cyc s.dashes (s.dash_ix + 1) }) :=
  step_line_switch s l L hseg hL hLpos ht hst hix hlt
example : ∃ (_ : Scalar ℝ) (_ : LawfulScalar ℝ) (_ : LawfulHypotSq ℝ) (s : DashIt ℝ) (l : Line ℝ) (L : ℝ),
    s.current_seg = .Line l ∧ l.arclen 0 = L ∧ 0 < L ∧ s.t < 1 ∧ (s.state == .ToStash && s.stash.isEmpty) = false ∧
      s.dash_ix < s.dashes.size ∧ s.dash_remaining < s.seg_remaining := by
  obtain ⟨i1, i2, i3, s, l, L, h1, h2, h3, -, -, -, -, h8, -⟩ := exReal_witness
  exact ⟨i1, i2, i3, s, l, L, h1.seg, h1.len, h3, h1.t_lt, h8, h1.ix, h2⟩
-- the same step evaluated on the model over `Rat` (axis-parallel, so `hypot` is exact): from t = 1/21, gap of 5: MoveTo (6,0)
example : exWorking.step.map (fun r => (r.1, r.2.t, r.2.seg_remaining, r.2.dash_ix, r.2.dash_remaining, r.2.is_active))
    = some (some (.MoveTo ⟨6, 0⟩), 6 / 21, 15, 2, 2, true) := by decide +kernel

/-- The arc-length bookkeeping of that step: with `t' = t + d / L`, the emitted point is `d` further along the line,
    the invariant `seg_remaining = (1 − t)·L` is kept, `t' < 1`, and the stroke from the pen position `l.eval t` to the
    emitted point has length exactly `d`. -/
theorem dash_step_line_switch_arclen [LawfulHypotSq K] (l : Line K) (L t d : K) (hL : l.arclen 0 = L) (hLpos : 0 < L) :
    ((t + d / L) - t) * L = d ∧ (1 - (t + d / L)) * L = (1 - t) * L - d ∧ (d < (1 - t) * L → t + d / L < 1) ∧
      (0 ≤ d → (l.eval (t + d / L) - l.eval t).hypot = d) := by
  have hne : L ≠ 0 := hLpos.ne'
  refine ⟨by field_simp; ring, by field_simp; ring, ?_, ?_⟩
  · intro h
    have : d / L < 1 - t := by rw [div_lt_iff₀ hLpos]; exact h
    linarith
  · intro h0
    have hle : t ≤ t + d / L := by have := div_nonneg h0 hLpos.le; linarith
    rw [line_eval_dist l _ _ 0 hle, hL]
    field_simp; ring
example : ∃ (_ : Scalar ℝ) (_ : LawfulScalar ℝ) (_ : LawfulHypotSq ℝ) (l : Line ℝ) (L : ℝ), l.arclen 0 = L ∧ 0 < L := by
  obtain ⟨i1, i2, i3, s, l, L, h1, -, h3, -⟩ := exReal_witness
  exact ⟨i1, i2, i3, l, L, h1.len, h3⟩

/-- **End of a line.** If the rest of the segment fits into the current entry, the step emits the segment end `l.p1` if the
    entry is on (nothing otherwise), shortens the entry by `seg_remaining` and fetches input.  "Emits": outside `ToStash` the
    element is returned; in `ToStash` (first dash of the sub-path, withheld) it is pushed to the stash at once, BEFORE the
    input is fetched, and nothing is returned – so that a `ClosePath` which `get_input` appends to the stash comes after it
    (crate repair 7127469; before, `next` pushed the returned element after `get_input` had run).  (No `hypot` law needed.) -/
theorem dash_step_line_end (s : DashIt K) (l : Line K) (hseg : s.current_seg = .Line l)
    (hst : (s.state == .ToStash && s.stash.isEmpty) = false) (hnlt : ¬ s.dash_remaining < s.seg_remaining) :
    s.step = some (if s.is_active && !(s.state == .ToStash) then some (.LineTo l.p1) else none,
      ({ (if s.is_active && s.state == .ToStash then { s with stash := s.stash.push (.LineTo l.p1) } else s) with
          dash_remaining := s.dash_remaining - s.seg_remaining } : DashIt K).get_input) :=
  step_line_end s l hseg hst hnlt
example : ({ exWorking with dash_remaining := 30 } : DashIt Rat).current_seg = .Line ⟨⟨0, 0⟩, ⟨21, 0⟩⟩ ∧
    ¬ ({ exWorking with dash_remaining := 30 } : DashIt Rat).dash_remaining
      < ({ exWorking with dash_remaining := 30 } : DashIt Rat).seg_remaining := by
  constructor
  · rfl
  · show ¬ ((30 : Rat) < 20)
    decide +kernel
-- the same in `ToStash` (first dash under way, `MoveTo (0,0)` stashed): nothing is returned, `LineTo (21,0)` is on the stash when
-- `get_input` runs; and when `get_input` then finds the `ClosePath` (sub-path ends at its start), `ClosePath` comes after it
example : ({ exToStash with dash_remaining := 30 } : DashIt Rat).step.map (fun r => (r.1, r.2.stash, r.2.state, r.2.dash_remaining))
    = some (none, #[.MoveTo ⟨0, 0⟩, .LineTo ⟨21, 0⟩], .ToStash, 9) ∧
  ({ exToStash with dash_remaining := 30, inner := [.ClosePath], last_pt := ⟨0, 0⟩, current_seg := .Line ⟨⟨5, 0⟩, ⟨0, 0⟩⟩, seg_remaining := 5 } : DashIt Rat).step.map (fun r => (r.1, r.2.stash, r.2.state))
    = some (none, #[.MoveTo ⟨0, 0⟩, .LineTo ⟨0, 0⟩, .ClosePath], .FromStash) := by decide +kernel

/-! ### the specification by arc length (`DashSpec`, `Proofs/Lemmas/C13Arith.lean`)
    `Ph = (ix, rem, act)` is a position in the pattern, `walk n pat fuel ph ℓ` advances it by the length `ℓ` and returns the
    on-length covered (literally the `dash_remaining < seg_remaining` loop on a stretch of length `ℓ`). -/

/-- **Vertices are invisible** (`consume_add`): walking `ℓ₁` and then `ℓ₂` covers the same on-length and ends at the same
    pattern position as walking `ℓ₁ + ℓ₂` in one piece. -/
theorem dash_vertices_invisible {K : Type} [Field K] [LinearOrder K] [IsStrictOrderedRing K]
    (n : Nat) (pat : Nat → K) (f m : Nat) (ph ph1 ph2 : Ph K) (l1 l2 o1 o2 : K) (h2 : 0 ≤ l2)
    (c1 : walk n pat f ph l1 = some (o1, ph1)) (c2 : walk n pat m ph1 l2 = some (o2, ph2)) :
    walk n pat (f + m) ph (l1 + l2) = some (o1 + o2, ph2) :=
  walk_add n pat f m ph ph1 ph2 l1 l2 o1 o2 h2 c1 c2
-- pattern 1,5,2,5 from its start: 4 then 5 units (the vertex in the middle of the first gap)
example : walk 4 (fun i => (#[1, 5, 2, 5] : Array Rat).getD i 0) 3 ⟨0, 1, true⟩ (4 : Rat) = some (1, ⟨1, 2, false⟩) ∧
    walk 4 (fun i => (#[1, 5, 2, 5] : Array Rat).getD i 0) 3 ⟨1, 2, false⟩ (5 : Rat) = some (2, ⟨3, 4, false⟩) ∧
    walk 4 (fun i => (#[1, 5, 2, 5] : Array Rat).getD i 0) 6 ⟨0, 1, true⟩ (9 : Rat) = some (3, ⟨3, 4, false⟩) := by
  decide +kernel

/-- **Conservation over a polyline** (arc-length form): dashing the segments `ℓ, ℓ₁, …, ℓₖ` one after the other covers
    the same on-length, and ends at the same pattern position, as dashing one straight stretch of length `ℓ + Σ ℓᵢ`. -/
theorem dash_conservation_arclen {K : Type} [Field K] [LinearOrder K] [IsStrictOrderedRing K]
    (n : Nat) (pat : Nat → K) (f : Nat) (ls : List K) (l : K) (ph ph' : Ph K) (o : K)
    (hnn : ∀ x ∈ ls, 0 ≤ x) (h : walkList n pat f ph (l :: ls) = some (o, ph')) :
    walk n pat (f * (ls.length + 1)) ph (l + ls.sum) = some (o, ph') :=
  walkList_eq_walk n pat f ls l ph ph' o hnn h
example : walkList 4 (fun i => (#[1, 5, 2, 5] : Array Rat).getD i 0) 4 ⟨0, 1, true⟩ [4, 5, 12]
    = some (6, ⟨2, 0, true⟩) := by decide +kernel

/-- With a non-negative pattern the on-length of a stretch lies between `0` and its length, and `rem` stays `≥ 0`. -/
theorem dash_walk_bounds {K : Type} [Field K] [LinearOrder K] [IsStrictOrderedRing K]
    (n : Nat) (pat : Nat → K) (hpat : ∀ i, 0 ≤ pat i) (f : Nat) (ph ph' : Ph K) (l o : K)
    (hr : 0 ≤ ph.rem) (hl : 0 ≤ l) (h : walk n pat f ph l = some (o, ph')) : 0 ≤ o ∧ o ≤ l ∧ 0 ≤ ph'.rem :=
  walk_bounds n pat hpat f ph ph' l o hr hl h

example : walk 4 (fun i => (#[1, 5, 2, 5] : Array Rat).getD i 0) 6 ⟨0, 1, true⟩ (9 : Rat) = some (3, ⟨3, 4, false⟩) ∧
    (∀ i, (0 : Rat) ≤ (#[1, 5, 2, 5] : Array Rat).getD i 0) := by
  refine ⟨by decide +kernel, fun i => ?_⟩
  rcases Nat.lt_or_ge i 4 with h | h
  · interval_cases i <;> decide +kernel
  · rw [Array.getD_eq_getD_getElem?, Array.getElem?_eq_none (by simpa using h)]; rfl

/-- Termination, arc-length form: if every entry is at least `m` and the stretch (every segment of the polyline) is at most
    `(f+1)·m` long, `f + 2` rounds of fuel suffice. -/
theorem dash_walk_terminates {K : Type} [Field K] [LinearOrder K] [IsStrictOrderedRing K]
    (n : Nat) (pat : Nat → K) (m : K) (hm : 0 ≤ m) (hpat : ∀ i, m ≤ pat i) (f : Nat) (ph : Ph K) (hr : 0 ≤ ph.rem) :
    (∀ l : K, l ≤ (f + 1 : Nat) * m → ∃ r, walk n pat (f + 2) ph l = some r) ∧
    (∀ ls : List K, (∀ l ∈ ls, 0 ≤ l ∧ l ≤ (f + 1 : Nat) * m) → ∃ r, walkList n pat (f + 2) ph ls = some r) :=
  ⟨fun l hl => walk_terminates n pat m hpat f ph l hr hl,
   fun ls hls => walkList_terminates n pat m hm hpat f ls ph hr hls⟩
example : ∃ (_ : Scalar ℝ) (_ : LawfulScalar ℝ) (s : DashIt ℝ), ∀ i, (1 : ℝ) ≤ cyc s.dashes i := by
  obtain ⟨i1, i2, -, s, -, -, -, -, -, -, h, -⟩ := exReal_witness
  exact ⟨i1, i2, s, h⟩

/-! ### the model refines the specification (state `Working`, straight segments)
    `Steps s outs s'`: a chain of `step`s, each taken in state `Working`, from `s` to `s'` producing `outs`; `OnLine s l L`: `s` is in state `Working`
    inside the line `l` of length `L` (`seg_remaining = (1−t)·L`, `t < 1`, `dash_ix` in range, `dash_remaining ≥ 0`,
    `last_pt = l.p1`); `s.ph = (dash_ix, dash_remaining, is_active)`; `drawnLen pen outs` = total length of the `LineTo`
    strokes of `outs` with the pen starting at `pen`; `finEl s₁ l` = the `LineTo l.p1` that the segment-ending `step`
    emits when the entry is on; `s.SameAux s₁`: `closepath_pending`, `stash`, `stash_ix`, `input_done` are untouched.
    (`Proofs/Lemmas/C13Sim.lean`.) -/

/-- In state `Working` the chain of `step`s is what successive `next` calls do: a `step` with an element is one `next`,
    a `step` without is skipped inside `next`. -/
theorem steps_are_next_calls {K : Type} [Scalar K] (s s1 : DashIt K) (fuel : Nat) (hw : s.state = .Working) :
    (∀ el, s.step = some (some el, s1) → s.next (fuel + 1) = .some el s1) ∧
    (s.step = some (none, s1) → s.next (fuel + 1) = s1.next fuel) := by
  refine ⟨fun el e => ?_, fun e => ?_⟩
  · unfold DashIt.next; rw [hw]; simp only [e]
  · conv_lhs => unfold DashIt.next
    rw [hw]; simp only [e]
example : exWorking.state = .Working := rfl

/-- **One segment.**  If the specification walks the rest of the current segment from the iterator's pattern position,
    the iterator makes a chain of switching `step`s to a state `s₁` in the same segment at which the rest fits into the
    current entry; `s₁` is at the pattern position the specification computes (the subtraction is done by the next,
    segment-ending `step`), nothing of the input is consumed, and the strokes produced – with the final `LineTo` to the
    segment end if the entry is on – have total length = the specification's on-length. -/
theorem dash_segment_refines [LawfulHypotSq K] (l : Line K) (L : K) (f : Nat) (s : DashIt K) (o : K) (ph' : Ph K)
    (hpat : ∀ i, 0 ≤ cyc s.dashes i) (hon : OnLine s l L)
    (h : walk s.dashes.size (cyc s.dashes) f s.ph s.seg_remaining = some (o, ph')) :
    ∃ outs s₁, Steps s outs s₁ ∧ OnLine s₁ l L ∧ s₁.dashes = s.dashes ∧ ¬ s₁.dash_remaining < s₁.seg_remaining ∧
      ph' = ⟨s₁.dash_ix, s₁.dash_remaining - s₁.seg_remaining, s₁.is_active⟩ ∧
      s₁.inner = s.inner ∧ s.SameAux s₁ ∧
      ∀ pen, (s.is_active = true → pen = l.eval s.t) →
        drawnLen pen (outs ++ finEl s₁ l) = o ∧ (s₁.is_active = true → c13_penAfter pen (outs ++ finEl s₁ l) = l.p1) :=
  seg_sim l L f s o ph' hpat hon h

example : ∃ (_ : Scalar ℝ) (_ : LawfulScalar ℝ) (_ : LawfulHypotSq ℝ) (s : DashIt ℝ) (l : Line ℝ) (L : ℝ),
    OnLine s l L ∧ (∀ i, 0 ≤ cyc s.dashes i) ∧
    ∃ r, walk s.dashes.size (cyc s.dashes) (19 + 2) s.ph s.seg_remaining = some r := by
  obtain ⟨i1, i2, i3, s, l, L, h1, h2, h3, h4, h5, h6, h7, h8, h9⟩ := exReal_witness
  refine ⟨i1, i2, i3, s, l, L, h1, h4, ?_⟩
  refine (dash_walk_terminates s.dashes.size (cyc s.dashes) 1 zero_le_one h5 19 s.ph h1.dash_nonneg).1 _ ?_
  have := (h9 s.seg_remaining List.mem_cons_self).2
  push_cast; linarith

/-- **Open polyline.**  The same over `LineTo q₁, …, LineTo qₖ` following in the input: if the specification walks the
    rest of the current segment and then the `k` further segments (fuel `f` each), the iterator makes a chain of `step`s
    that consumes exactly these `LineTo`s and ends in the last segment, at the specification's pattern position, having
    produced strokes of total length = the specification's on-length. -/
theorem dash_open_polyline_refines [LawfulHypotSq K] (pts : List (Point K)) (rest : List (PathEl K)) (l : Line K) (L : K)
    (f : Nat) (s : DashIt K) (o : K) (ph' : Ph K) (hpat : ∀ i, 0 ≤ cyc s.dashes i) (hon : OnLine s l L)
    (hcp : s.closepath_pending = false) (hin : s.inner = pts.map .LineTo ++ rest)
    (h : walkList s.dashes.size (cyc s.dashes) f s.ph (s.seg_remaining :: polyLens s.last_pt pts) = some (o, ph')) :
    ∃ outs s₁ l₁ L₁, Steps s outs s₁ ∧ OnLine s₁ l₁ L₁ ∧ s₁.dashes = s.dashes ∧
      ¬ s₁.dash_remaining < s₁.seg_remaining ∧
      ph' = ⟨s₁.dash_ix, s₁.dash_remaining - s₁.seg_remaining, s₁.is_active⟩ ∧
      s₁.inner = rest ∧ s.SameAux s₁ ∧
      ∀ pen, (s.is_active = true → pen = l.eval s.t) →
        drawnLen pen (outs ++ finEl s₁ l₁) = o ∧ (s₁.is_active = true → c13_penAfter pen (outs ++ finEl s₁ l₁) = l₁.p1) :=
  polyline_sim pts rest l L f s o ph' hpat hon hcp hin h

/-- **Conservation of on-length on an open polyline** (vertices are invisible to the model): under the hypotheses above the
    total length of the strokes the iterator produces equals the on-length that the specification assigns to ONE straight
    stretch of the total remaining length `seg_remaining + Σ |qᵢ₊₁ − qᵢ|`, walked from the iterator's pattern position; and
    the iterator ends at that stretch's end position. -/
theorem dash_open_polyline_conserves [LawfulHypotSq K] (pts : List (Point K)) (rest : List (PathEl K)) (l : Line K) (L : K)
    (f : Nat) (s : DashIt K) (o : K) (ph' : Ph K) (hpat : ∀ i, 0 ≤ cyc s.dashes i) (hon : OnLine s l L)
    (hcp : s.closepath_pending = false) (hin : s.inner = pts.map .LineTo ++ rest)
    (h : walkList s.dashes.size (cyc s.dashes) f s.ph (s.seg_remaining :: polyLens s.last_pt pts) = some (o, ph')) :
    walk s.dashes.size (cyc s.dashes) (f * (pts.length + 1)) s.ph (s.seg_remaining + (polyLens s.last_pt pts).sum)
      = some (o, ph') ∧
    ∃ outs s₁ l₁, Steps s outs s₁ ∧ s₁.inner = rest ∧
      ph' = ⟨s₁.dash_ix, s₁.dash_remaining - s₁.seg_remaining, s₁.is_active⟩ ∧
      drawnLen (l.eval s.t) (outs ++ finEl s₁ l₁) = o := by
  constructor
  · have := walkList_eq_walk s.dashes.size (cyc s.dashes) f (polyLens s.last_pt pts) s.seg_remaining s.ph ph' o
      (polyLens_nonneg _ _) h
    rwa [polyLens_length] at this
  · obtain ⟨outs, s₁, l₁, L₁, h1, -, -, -, h5, h6, -, h8⟩ := polyline_sim pts rest l L f s o ph' hpat hon hcp hin h
    exact ⟨outs, s₁, l₁, h1, h6, h5, (h8 _ (fun _ => rfl)).1⟩
/-- the hypotheses are satisfiable (ℝ; inside (0,0)–(21,0) with `LineTo (21,5)` next, pattern [1,5,2,5]): an `OnLine` state
    with the right input, and – the pattern being ≥ 1 – the specification's walk exists by `dash_walk_terminates` -/
example : ∃ (_ : Scalar ℝ) (_ : LawfulScalar ℝ) (_ : LawfulHypotSq ℝ) (s : DashIt ℝ) (l : Line ℝ) (L : ℝ)
    (pts : List (Point ℝ)) (rest : List (PathEl ℝ)),
    OnLine s l L ∧ (∀ i, 0 ≤ cyc s.dashes i) ∧ s.closepath_pending = false ∧ s.inner = pts.map .LineTo ++ rest ∧
    ∃ r, walkList s.dashes.size (cyc s.dashes) (19 + 2) s.ph (s.seg_remaining :: polyLens s.last_pt pts) = some r := by
  obtain ⟨i1, i2, i3, s, l, L, h1, h2, h3, h4, h5, h6, h7, h8, h9⟩ := exReal_witness
  refine ⟨i1, i2, i3, s, l, L, _, _, h1, h4, h6, h7, ?_⟩
  refine (dash_walk_terminates s.dashes.size (cyc s.dashes) 1 zero_le_one h5 19 s.ph h1.dash_nonneg).2 _ ?_
  intro x hx
  obtain ⟨a, b⟩ := h9 x hx
  exact ⟨a, by push_cast; linarith⟩

/-! ## C. (partial) `dash` end to end on one open polyline sub-path (`Proofs/Lemmas/C13Open.lean`)
    The iterator is followed through `NeedInput → ToStash → Working → FromStash`: the first dash is withheld in the stash
    and played back at the end of the input. -/

/-- **`dash` on `M p0 L q L q₁ … L qₖ` conserves the on-length.**  Let `it` be the iterator that `dash_impl` builds
    (`0 ≤ it.dash_remaining`, i.e. its `while` loop ended – `dash_impl_phase`), the pattern non-negative, and let the
    specification walk the segment lengths from the start position `it.ph`, covering the on-length `o`.  If `dash` returns
    `out` (it did not run out of its budgets) then
    * the strokes of `out` have total length `o`, from whatever pen position (`out` starts with a `MoveTo` or is empty);
    * `o` is also the on-length of ONE straight stretch of the total length of the polyline (vertices are invisible);
    * if the pattern is on at the offset, `out = E ++ MoveTo p0 :: N`: the first dash `MoveTo p0 :: N` comes LAST
      (the rotation "dash₂ … dashₙ dash₁"), `E` being what was emitted after it. -/
theorem dash_open_conserves [LawfulHypotSq K] (p0 q : Point K) (pts : List (Point K)) (off : K) (dashes : Array K)
    (budget : Nat) (it : DashIt K)
    (hit : dashImpl (.MoveTo p0 :: .LineTo q :: pts.map .LineTo) off dashes = some it)
    (hn : 0 < dashes.size) (h0 : 0 ≤ it.dash_remaining) (hpat : ∀ i, 0 ≤ cyc dashes i)
    (f : Nat) (o : K) (ph' : Ph K)
    (hw : walkList dashes.size (cyc dashes) f it.ph (polyLens p0 (q :: pts)) = some (o, ph'))
    (out : List (PathEl K)) (hout : dash (.MoveTo p0 :: .LineTo q :: pts.map .LineTo) off dashes budget = .ok out) :
    (∀ pen, drawnLen pen out = o) ∧
    walk dashes.size (cyc dashes) (f * (pts.length + 1)) it.ph (polyLens p0 (q :: pts)).sum = some (o, ph') ∧
    (it.is_active = true → ∃ N E, out = E ++ .MoveTo p0 :: N ∧ ∀ pen, drawnLen p0 N + drawnLen pen E = o) := by
  obtain ⟨h1, h2⟩ := dash_open_total p0 q pts off dashes budget it hit hn h0 hpat f o ph' hw out hout
  refine ⟨?_, ?_, h1⟩
  · intro pen
    cases hact : it.is_active
    · exact h2 hact pen
    · obtain ⟨N, E, e1, e2⟩ := h1 hact
      rw [e1, drawnLen_append]
      simp only [drawnLen]
      rw [add_comm]; exact e2 pen
  · have := walkList_eq_walk dashes.size (cyc dashes) f (polyLens q pts) ((Line.mk p0 q).arclen 0) it.ph ph' o
      (polyLens_nonneg _ _) hw
    rw [polyLens_length] at this
    simpa [polyLens] using this

/-- **The same with the natural hypotheses only**: a non-empty pattern of positive entries, `steps` the first entry of
    the repeated pattern that ends at or after the offset (it exists, `dash_impl_phase_exists`; `dash_impl` needs
    `steps ≤ 100000` rounds), and `dash` returned `out`.  Then the strokes of `out` have total length = the on-length, over
    one straight stretch of the polyline's total length, of the pattern started at the position of the offset:
    entry `steps mod n`, with `(Σ_{j ≤ steps} dashes[j mod n]) − offset` of it still ahead, on iff `steps` is even. -/
theorem dash_open_spec_onlength [LawfulHypotSq K] (p0 q : Point K) (pts : List (Point K)) (off : K) (dashes : Array K)
    (budget : Nat) (hn : 0 < dashes.size) (hpos : ∀ i, (h : i < dashes.size) → 0 < dashes[i])
    (steps : Nat) (hf : steps ≤ 100000) (hmin : ∀ k < steps, prefixSum dashes k < off)
    (hlast : off ≤ prefixSum dashes steps)
    (out : List (PathEl K)) (hout : dash (.MoveTo p0 :: .LineTo q :: pts.map .LineTo) off dashes budget = .ok out) :
    ∃ (f : Nat) (o : K) (ph' : Ph K),
      walk dashes.size (cyc dashes) f ⟨steps % dashes.size, prefixSum dashes steps - off, decide (steps % 2 = 0)⟩
        (polyLens p0 (q :: pts)).sum = some (o, ph') ∧
      (∀ pen, drawnLen pen out = o) ∧ 0 ≤ o ∧ o ≤ (polyLens p0 (q :: pts)).sum := by
  obtain ⟨it, hit, e1, e2, e3, e4, -, -⟩ :=
    dash_impl_phase (.MoveTo p0 :: .LineTo q :: pts.map .LineTo) dashes hn off steps 100000 hf hmin hlast
  obtain ⟨m, hm0, hm⟩ := exists_pos_lower_bound dashes hn hpos
  have hpat : ∀ i, 0 ≤ cyc dashes i := fun i => le_trans hm0.le (hm i)
  have hnn := polyLens_nonneg p0 (q :: pts)
  -- enough fuel for every segment
  obtain ⟨k, hk⟩ := Archimedean.arch (polyLens p0 (q :: pts)).sum hm0
  have hlen : ∀ l ∈ polyLens p0 (q :: pts), 0 ≤ l ∧ l ≤ ((k + 1 : Nat) : K) * m := by
    intro l hl
    refine ⟨hnn l hl, ?_⟩
    have h1 := List.single_le_sum hnn l hl
    rw [nsmul_eq_mul] at hk
    push_cast
    nlinarith
  obtain ⟨⟨o, ph'⟩, hw⟩ := walkList_terminates dashes.size (cyc dashes) m hm0.le hm k (polyLens p0 (q :: pts)) it.ph e3 hlen
  obtain ⟨c1, c2, -⟩ := dash_open_conserves p0 q pts off dashes budget it hit hn e3 hpat (k + 2) o ph' hw out hout
  have hph : it.ph = ⟨steps % dashes.size, prefixSum dashes steps - off, decide (steps % 2 = 0)⟩ := by
    unfold DashIt.ph; rw [e1, e2, e4]
  rw [hph] at c2
  have hb := walk_bounds dashes.size (cyc dashes) hpat _ _ ph' _ o (by show 0 ≤ prefixSum dashes steps - off; rw [← e2]; exact e3) (List.sum_nonneg hnn) c2
  exact ⟨_, o, ph', c2, c1, hb.1, hb.2.1⟩
/-- the hypotheses are satisfiable over ℝ (`exReal_dash_ok`: the segment (0,0)–(1,0), pattern [2], offset 0, `steps = 0`;
    `dash` does return there by `dash_short_segment_whole`); the extra hypotheses of `dash_open_conserves`
    (`0 ≤ it.dash_remaining`, the specification's walk) are derived from these inside the proof above -/
example : ∃ (_ : Scalar ℝ) (_ : LawfulScalar ℝ) (_ : LawfulHypotSq ℝ) (p0 q : Point ℝ) (pts : List (Point ℝ)) (off : ℝ)
    (dashes : Array ℝ) (budget steps : Nat) (out : List (PathEl ℝ)),
    0 < dashes.size ∧ (∀ i, (h : i < dashes.size) → 0 < dashes[i]) ∧ steps ≤ 100000 ∧
    (∀ k < steps, prefixSum dashes k < off) ∧ off ≤ prefixSum dashes steps ∧
    dash (.MoveTo p0 :: .LineTo q :: pts.map .LineTo) off dashes budget = .ok out := by
  obtain ⟨i1, i2, i3, h1, h2, h3, h4⟩ := exReal_dash_ok
  exact ⟨i1, i2, i3, ⟨0, 0⟩, ⟨1, 0⟩, [], 0, #[2], 10, 0, _, by decide, h2, by omega, h3, h4, h1⟩
/-- and the model on such input over `Rat` (pattern [1,5,2,5], offset 7, so `steps = 2`; L-shaped path of length 26): the
    pieces [6,7], [12,14], [19,20], [25,26] in path order, then the first dash [0,1] -/
example : (∀ i, (h : i < (#[1, 5, 2, 5] : Array Rat).size) → 0 < (#[1, 5, 2, 5] : Array Rat)[i]) ∧
    (∀ k < 2, prefixSum (#[1, 5, 2, 5] : Array Rat) k < 7) ∧ (7 : Rat) ≤ prefixSum #[1, 5, 2, 5] 2 ∧
    (dash [.MoveTo ⟨0, 0⟩, .LineTo ⟨21, 0⟩, .LineTo ⟨21, 5⟩] (7 : Rat) #[1, 5, 2, 5]).okList =
      some [.MoveTo ⟨6, 0⟩, .LineTo ⟨7, 0⟩, .MoveTo ⟨12, 0⟩, .LineTo ⟨14, 0⟩, .MoveTo ⟨19, 0⟩, .LineTo ⟨20, 0⟩,
            .MoveTo ⟨21, 4⟩, .LineTo ⟨21, 5⟩, .MoveTo ⟨0, 0⟩, .LineTo ⟨1, 0⟩] := by
  decide +kernel

/-- A single segment not longer than what is left of the first dash is returned whole (and `dash` does return: no fuel or
    budget problem, for every lawful scalar). -/
theorem dash_short_segment_whole (p0 q : Point K) (off : K) (dashes : Array K) (budget : Nat) (it : DashIt K)
    (hit : dashImpl [.MoveTo p0, .LineTo q] off dashes = some it) (hn : 0 < dashes.size)
    (hact : it.is_active = true) (hge : ¬ it.dash_remaining < (Line.mk p0 q).arclen 0) (hb : 3 ≤ budget) :
    dash [.MoveTo p0, .LineTo q] off dashes budget = .ok [.MoveTo p0, .LineTo q] :=
  dash_short_segment p0 q off dashes budget it hit hn hact hge hb
example : (dashImpl [.MoveTo ⟨0, 0⟩, .LineTo ⟨1, 0⟩] (0 : Rat) #[2]).map
      (fun it => (it.is_active, decide (it.dash_remaining < (Line.mk (⟨0, 0⟩ : Point Rat) ⟨1, 0⟩).arclen 0)))
    = some (true, false) := by decide +kernel

end arithmetic

/-! ## C. (partial, continued) the stash: the first dash of a sub-path is withheld, played back last, and joined on closing -/
section stash
variable {K : Type} [Scalar K]

/-- In state `ToStash` (first dash of a sub-path) `next` does not return what `step` produces but pushes it onto the stash
    and goes on. -/
theorem next_toStash_withholds (s s1 : DashIt K) (el : PathEl K) (fuel : Nat) (hs : s.state = .ToStash)
    (e : s.step = some (some el, s1)) :
    s.next (fuel + 1) = ({ s1 with stash := s1.stash.push el } : DashIt K).next fuel := by
  conv_lhs => unfold DashIt.next
  rw [hs]; simp only [e]

example : exToStash.state = .ToStash ∧ exToStash.step.map (·.1) = some (some (.LineTo ⟨1, 0⟩)) := by decide +kernel

/-- In state `FromStash` `next` returns the stashed elements in order, starting at `stash_ix`. -/
theorem next_fromStash_replays (s : DashIt K) (el : PathEl K) (fuel : Nat) (hs : s.state = .FromStash)
    (e : s.stash[s.stash_ix]? = some el) : s.next (fuel + 1) = .some el { s with stash_ix := s.stash_ix + 1 } := by
  unfold DashIt.next
  rw [hs]; simp only [e]

example : exFromStash.state = .FromStash ∧ exFromStash.stash[exFromStash.stash_ix]? = some (.MoveTo ⟨0, 0⟩) := by
  decide +kernel

/-- `handle_closepath`: if the whole sub-path is still inside its first dash (`ToStash`), `ClosePath` is appended to that
    dash; otherwise, if the final dash is on, playback starts at index 1 – it skips the `MoveTo` that opens the stashed first
    dash, so the final dash runs on into the first one (the join); if the final dash is off the first dash is played back
    with its `MoveTo`. -/
theorem handle_closepath_join (s : DashIt K) :
    (s.state = .ToStash → s.handle_closepath.stash = s.stash.push .ClosePath ∧
        s.handle_closepath.stash_ix = s.stash_ix) ∧
    (s.state ≠ .ToStash → s.handle_closepath.stash = s.stash ∧
        s.handle_closepath.stash_ix = if s.is_active then 1 else s.stash_ix) := by
  constructor
  · intro h
    unfold DashIt.handle_closepath
    rw [if_pos (by rw [h]; rfl)]
    exact ⟨rfl, rfl⟩
  · intro h
    unfold DashIt.handle_closepath
    rw [if_neg (by simpa using h)]
    cases s.is_active <;> exact ⟨rfl, rfl⟩
example : exWorking.state ≠ .ToStash := by decide

end stash

/-! ## The model itself on concrete input (over `Rat`, kernel evaluation; axis-parallel so that `hypot` is exact) -/
section concrete

/-- the crate's own test `dash_sequence`: pattern [1,5,2,5] on (0,0)–(21,0); the first dash (0,0)–(1,0) comes LAST -/
example : (dash [.MoveTo ⟨0, 0⟩, .LineTo ⟨21, 0⟩] (0 : Rat) #[1, 5, 2, 5]).okList =
    some [.MoveTo ⟨6, 0⟩, .LineTo ⟨8, 0⟩, .MoveTo ⟨13, 0⟩, .LineTo ⟨14, 0⟩, .MoveTo ⟨19, 0⟩, .LineTo ⟨21, 0⟩,
          .MoveTo ⟨0, 0⟩, .LineTo ⟨1, 0⟩] := by decide +kernel

/-- vertices are invisible, odd-length pattern [2,2,1] on (0,0)–(3,0)–(3,4): on [0,2] and [4,5] (across the corner at 3) -/
example : (dash [.MoveTo ⟨0, 0⟩, .LineTo ⟨3, 0⟩, .LineTo ⟨3, 4⟩] (0 : Rat) #[2, 2, 1]).okList =
    some [.MoveTo ⟨3, 1⟩, .LineTo ⟨3, 2⟩, .MoveTo ⟨0, 0⟩, .LineTo ⟨2, 0⟩] := by decide +kernel

/-- the pattern restarts at every sub-path (offset 1 into [2,1]: each sub-path starts 1 unit into the first dash) -/
example : (dash [.MoveTo ⟨0, 0⟩, .LineTo ⟨4, 0⟩, .MoveTo ⟨0, 1⟩, .LineTo ⟨4, 1⟩] (1 : Rat) #[2, 1]).okList =
    some [.MoveTo ⟨2, 0⟩, .LineTo ⟨4, 0⟩, .MoveTo ⟨0, 0⟩, .LineTo ⟨1, 0⟩,
          .MoveTo ⟨2, 1⟩, .LineTo ⟨4, 1⟩, .MoveTo ⟨0, 1⟩, .LineTo ⟨1, 1⟩] := by decide +kernel

/-- closed square of side 4, pattern [3,2]: the final dash [15,16] is on, and so is the first [0,3]: they are joined into
    (0,1)–(0,0)–(3,0) (no `MoveTo` at the start point); the dash [5,8] ends exactly at the corner (4,4), which yields a
    zero-length `LineTo` -/
example : (dash [.MoveTo ⟨0, 0⟩, .LineTo ⟨4, 0⟩, .LineTo ⟨4, 4⟩, .LineTo ⟨0, 4⟩, .ClosePath] (0 : Rat) #[3, 2]).okList =
    some [.MoveTo ⟨4, 1⟩, .LineTo ⟨4, 4⟩, .LineTo ⟨4, 4⟩, .MoveTo ⟨2, 4⟩, .LineTo ⟨0, 4⟩, .LineTo ⟨0, 3⟩,
          .MoveTo ⟨0, 1⟩, .LineTo ⟨0, 0⟩, .LineTo ⟨3, 0⟩] := by decide +kernel

/-- a closed square that lies inside the first dash (perimeter 16 < 20) is returned whole, in order, `ClosePath` last -/
example : (dash [.MoveTo ⟨0, 0⟩, .LineTo ⟨4, 0⟩, .LineTo ⟨4, 4⟩, .LineTo ⟨0, 4⟩, .LineTo ⟨0, 0⟩, .ClosePath] (0 : Rat) #[20, 2]).okList =
    some [.MoveTo ⟨0, 0⟩, .LineTo ⟨4, 0⟩, .LineTo ⟨4, 4⟩, .LineTo ⟨0, 4⟩, .LineTo ⟨0, 0⟩, .ClosePath] := by decide +kernel

/-- a 3-4-5 segment (length 5, `hypot` exact), pattern [5/2, 5/2]: the dash ends at the midpoint -/
example : (dash [.MoveTo ⟨0, 0⟩, .LineTo ⟨3, 4⟩] (0 : Rat) #[5 / 2, 5 / 2]).okList =
    some [.MoveTo ⟨0, 0⟩, .LineTo ⟨3 / 2, 2⟩] := by decide +kernel

/-- a sub-path without segments (`M p Z`) yields nothing; the empty pattern panics -/
example : (dash [.MoveTo ⟨1, 2⟩, .ClosePath] (0 : Rat) #[1, 1]).okList = some [] := by decide +kernel
example : (dash [.MoveTo ⟨0, 0⟩, .LineTo ⟨3, 0⟩] (0 : Rat) #[]).okList = none := by decide +kernel

end concrete

end Kurbo
