import Kurbo.Dash
namespace Kurbo
end Kurbo
