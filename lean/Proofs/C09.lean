import Kurbo.Quads
namespace Kurbo
end Kurbo
