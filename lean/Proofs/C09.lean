import Proofs.Lemmas.C09
import Proofs.Lemmas.C09Real
import Proofs.Lemmas.C09Discharge
/-! # C09 – nearest point

Property: "For every segment, point `p` and accuracy `a`, `nearest` returns a parameter in [0,1] and a squared distance
whose square root is within `a` of the true minimum distance from `p` to the segment.  The curve point at the returned
parameter realises that minimum to within `2a`."

Notation (helper definitions live in namespace `Kurbo.C09`, files `Proofs/Lemmas/C09*.lean`):
`dist2 p q = (p.x-q.x)² + (p.y-q.y)²`, `pdist p q = √(dist2 p q)`, `curveDist f p = inf_{t∈[0,1]} pdist p (f t)`;
`quadNearestCoeffs q p = (c0,c1,c2,c3)` and `quadNearestRoots q p = solveCubic c0 c1 c2 c3` are the coefficients /
the root list built by `QuadBez.nearest` (`rfl`-equal to the model, `quad_nearest_eq_ofRoots`),
`quadCritPoly q p x = c0 + c1 x + c2 x² + c3 x³`; `quadCands q roots` is the list of `(t, point)` pairs handed to
`eval_t`, in evaluation order: `(r, q.eval r)` for the listed roots `r ∈ [0,1]`, then – iff `need_ends`, i.e. iff the
root list is empty or has a member outside [0,1] – `(0, p0)` and `(1, p2)`.

## Proved

*Any lawful scalar `K`* (ℚ, ℝ, …; no hypotheses):
* `line_nearest_min` – `Line::nearest`: `t ∈ [0,1]`, `distance_sq = dist2 p (l.eval t)`, and it is the minimum of
  `dist2 p (l.eval s)` over `s ∈ [0,1]`; all three branches, including the degenerate line `p0 = p1`; `accuracy` is
  unconstrained (it is ignored).
* `quad_critical_coeffs`, `quad_critical_poly`, `quad_critical_sign` –
  `dist2 p (q.eval t) = dist2 p p0 + 4c0 t + 2c1 t² + (4/3)c2 t³ + c3 t⁴`, whose formal derivative is
  `4·(c0 + c1 t + c2 t² + c3 t³)`, for exactly the coefficients the code builds; `c3 > 0`, or `c3 = c2 = 0 < c1`, or
  all four vanish.
* `quad_nearest_on_curve` – the result of `QuadBez::nearest` has `t ∈ [0,1]` and `distance_sq = dist2 p (q.eval t)`
  for *any* root list (no solver law): the returned pair is one of the evaluated candidates.
* `quad_nearest_candidates_min` – `distance_sq ≤` the squared distance of every evaluated candidate: every listed root
  in [0,1], and – when `need_ends` – both end points.  `quad_nearest_first_min` – ties keep the earliest candidate.
* `cubic_nearest_structure`, `cubic_nearest_t_range`, `cubic_pieces_tile` – `CubicBez::nearest` reports
  `(t0 + t·(t1−t0), d²)` of the *first* piece of `to_quads(a)` with the smallest reported `d²`; the result `t` is in
  [0,1]; the pieces' parameter ranges `[i/n,(i+1)/n]` tile [0,1].
* `solveCubic_all_zero` – `solveCubic 0 0 0 0 = [0]` (why the zero polynomial is excluded from `CubicSolverSpec`).

*Any `[Scalar K]`* (also `Float`; purely structural): `quad_nearest_is_candidate` + `quad_candidates` (the result is
one of the candidates; the list of candidates is never empty, so `best.2 = none` and with it the `unwrap_or(0.0)`
default is unreachable) and `cubic_nearest_is_piece`.

*ℝ* (any lawful scalar structure on ℝ; one exists: `realScalar`, `realScalar_lawful` of C15):
* `quad_critical_hasDerivAt` – `d/dt dist2 p (q.eval t) = 4·quadCritPoly q p t`.
* `quad_nearest_min` – under `QuadRootsExact q p` (unless all four coefficients vanish, the list returned by
  `solveCubic` for *this* query contains exactly the real roots of the critical polynomial; order/multiplicity
  irrelevant): the four conjuncts of `line_nearest_min` for the quadratic – the returned squared distance is the
  minimum over [0,1].  **All cases are covered**: `c3 > 0`; `c3 = 0` (then `c2 = 0` and `c1 > 0`: the quadratic is an
  affinely parametrised segment); all coefficients zero (`p0 = p1 = p2`; there the solver hypothesis is not needed:
  every candidate is optimal).  The `need_ends` rule is shown sound (`C09.min_at_root_of_all_roots_inside`: one-sided
  derivative at an end-point minimum + intermediate value theorem + the sign of the odd-degree critical polynomial
  far left/right, `C09.cubic_sign_witness`).
  `quad_nearest_min_of_spec`: the same from the global `CubicSolverSpec ℝ`; `quad_nearest_min_affine`: *no* solver
  hypothesis when `p1` is the midpoint of `p0 p2` (`C09.solveCubic_linear`);
  `quad_nearest_min_real`: *no* hypothesis at all under `[LawfulReal]` (the real `sqrt cbrt sin cos atan2`), by the
  C15 theorems `solveCubic_mem_iff`, `solveQuadratic_spec_real` (`C09.cubicSolverSpec_real`).
* `cubic_nearest_within` – from the C17 bound taken as hypothesis `ToQuadsWithin c a` (each quadratic piece of
  `to_quads(a)` stays within `a` of its stretch of the cubic; `toQuadsWithin_of_squared_bound` converts from the
  squared, indexed form of C17's `toQuads_error_bound`) and `QuadRootsExact` for each piece:
  `t ∈ [0,1]`, `|√distance_sq − curveDist c.eval p| ≤ a`, `pdist p (c.eval t) ≤ curveDist c.eval p + 2a`
  (`cubic_nearest_bounds` is the infimum-free form).  The tiling of [0,1] is proved, not assumed.
  `cubic_nearest_within_real`: under `[LawfulReal]` only `ToQuadsWithin` remains.
* `pathSeg_nearest_within` (`…_real`) – the property text for `PathSeg.nearest`, under `PathSegNearestHyp` (nothing
  for a line, `QuadRootsExact` for a quadratic, the two hypotheses above for a cubic) and `0 ≤ a`;
  `pathSeg_nearest_exact`: for lines and quadratics the reported distance *is* the distance.

## NOT proved
* `ToQuadsWithin` (the `to_quads` error bound) – that is property C17; here a hypothesis (shown satisfiable, and a
  theorem for cubics of degree ≤ 2: `C09.toQuadsWithin_of_quadratic`).
* `CubicSolverSpec ℝ` is not proved *here*: it is taken as a hypothesis, or (the `…_real` theorems) obtained from C15
  under the extra class `LawfulReal`.
* Nothing about `Float`: rounding in the solver (design findings 5.f / row l: `solve_cubic` with a tiny leading
  coefficient; distances ~5e-7 for points on the curve) is outside these theorems; only the `[Scalar K]` structural
  statements apply to `Float`.  `accuracy` is ignored by `Line`/`QuadBez::nearest`, so over ℝ they are exact. -/
set_option linter.unusedSectionVars false
namespace Kurbo
open C09

/-! ## 1. `Line::nearest` (any lawful scalar) -/
section line
variable {K : Type} [Field K] [LinearOrder K] [IsStrictOrderedRing K] [FloorRing K] [Scalar K] [LawfulScalar K]

theorem line_nearest_min (l : Line K) (p : Point K) (acc : K) :
    0 ≤ (l.nearest p acc).t ∧ (l.nearest p acc).t ≤ 1 ∧
    (l.nearest p acc).distance_sq = dist2 p (l.eval (l.nearest p acc).t) ∧
    ∀ s, 0 ≤ s → s ≤ 1 → (l.nearest p acc).distance_sq ≤ dist2 p (l.eval s) := by
  rw [line_nearest_eq]
  set dx := l.p1.x - l.p0.x with hdx
  set dy := l.p1.y - l.p0.y with hdy
  set wx := p.x - l.p0.x with hwx
  set wy := p.y - l.p0.y with hwy
  have hD0 : 0 ≤ dx * dx + dy * dy := add_nonneg (mul_self_nonneg _) (mul_self_nonneg _)
  by_cases h1 : dx * wx + dy * wy ≤ 0
  · rw [if_pos h1]
    refine ⟨le_refl _, zero_le_one, by rw [line_eval_zero], ?_⟩
    intro s hs0 hs1
    rw [dist2_line_eval, ← hdx, ← hdy, ← hwx, ← hwy]
    have e : dist2 p l.p0 = wx ^ 2 + wy ^ 2 := rfl
    rw [e]
    have h2 : 0 ≤ s * (-(dx * wx + dy * wy)) := mul_nonneg hs0 (neg_nonneg.mpr h1)
    have h3 : 0 ≤ s ^ 2 * (dx * dx + dy * dy) := mul_nonneg (sq_nonneg s) hD0
    nlinarith [h2, h3]
  · rw [if_neg h1]
    by_cases h2 : dx * dx + dy * dy ≤ dx * wx + dy * wy
    · rw [if_pos h2]
      refine ⟨zero_le_one, le_refl _, by rw [line_eval_one], ?_⟩
      intro s hs0 hs1
      rw [dist2_line_eval, ← hdx, ← hdy, ← hwx, ← hwy]
      have e : dist2 p l.p1 = (wx - dx) ^ 2 + (wy - dy) ^ 2 := by
        unfold dist2; rw [hwx, hwy, hdx, hdy]; ring
      rw [e]
      have h3 : 0 ≤ (1 - s) * ((dx * wx + dy * wy) - (dx * dx + dy * dy)) :=
        mul_nonneg (sub_nonneg.mpr hs1) (sub_nonneg.mpr h2)
      have h4 : 0 ≤ (1 - s) ^ 2 * (dx * dx + dy * dy) := mul_nonneg (sq_nonneg _) hD0
      nlinarith [h3, h4]
    · rw [if_neg h2]
      have hpos : 0 < dx * wx + dy * wy := not_le.mp h1
      have hlt : dx * wx + dy * wy < dx * dx + dy * dy := not_le.mp h2
      have hD : 0 < dx * dx + dy * dy := hpos.trans hlt
      refine ⟨div_nonneg hpos.le hD.le, (div_le_one hD).mpr hlt.le, rfl, ?_⟩
      intro s hs0 hs1
      simp only
      rw [dist2_line_eval, dist2_line_eval, ← hdx, ← hdy, ← hwx, ← hwy]
      exact proj_min wx wy dx dy s _ hD (div_mul_cancel₀ _ hD.ne')

/-- the three branches and the degenerate line, evaluated (`Nearest` is `⟨distance_sq, t⟩`) -/
example : (Line.nearest (⟨⟨0, 0⟩, ⟨4, 0⟩⟩ : Line Rat) ⟨1, 2⟩ 0).t = 1 / 4 ∧
    (Line.nearest (⟨⟨0, 0⟩, ⟨4, 0⟩⟩ : Line Rat) ⟨1, 2⟩ 0).distance_sq = 4 ∧
    (Line.nearest (⟨⟨0, 0⟩, ⟨4, 0⟩⟩ : Line Rat) ⟨-3, 4⟩ 0).t = 0 ∧
    (Line.nearest (⟨⟨0, 0⟩, ⟨4, 0⟩⟩ : Line Rat) ⟨-3, 4⟩ 0).distance_sq = 25 ∧
    (Line.nearest (⟨⟨0, 0⟩, ⟨4, 0⟩⟩ : Line Rat) ⟨7, 4⟩ 0).t = 1 ∧
    (Line.nearest (⟨⟨0, 0⟩, ⟨4, 0⟩⟩ : Line Rat) ⟨7, 4⟩ 0).distance_sq = 25 ∧
    (Line.nearest (⟨⟨1, 1⟩, ⟨1, 1⟩⟩ : Line Rat) ⟨4, 5⟩ 0).t = 0 ∧
    (Line.nearest (⟨⟨1, 1⟩, ⟨1, 1⟩⟩ : Line Rat) ⟨4, 5⟩ 0).distance_sq = 25 := by decide +kernel

end line

/-! ## 2. the critical-point polynomial of `QuadBez::nearest` -/
section critical
variable {K : Type} [Field K] [LinearOrder K] [IsStrictOrderedRing K] [FloorRing K] [Scalar K] [LawfulScalar K]

/-- the coefficients the code builds, in coordinates: with `d = p0 − p`, `d0 = p1 − p0`, `d1 = p0 + p2 − 2p1`,
    `c0 = d·d0`, `c1 = 2|d0|² + d·d1`, `c2 = 3 d1·d0`, `c3 = |d1|²` -/
theorem quad_critical_coeffs (q : QuadBez K) (p : Point K) :
    quadNearestCoeffs q p =
      ( (q.p0.x - p.x) * (q.p1.x - q.p0.x) + (q.p0.y - p.y) * (q.p1.y - q.p0.y),
        2 * ((q.p1.x - q.p0.x) ^ 2 + (q.p1.y - q.p0.y) ^ 2)
          + ((q.p0.x - p.x) * (q.p0.x + q.p2.x - 2 * q.p1.x) + (q.p0.y - p.y) * (q.p0.y + q.p2.y - 2 * q.p1.y)),
        3 * ((q.p0.x + q.p2.x - 2 * q.p1.x) * (q.p1.x - q.p0.x) + (q.p0.y + q.p2.y - 2 * q.p1.y) * (q.p1.y - q.p0.y)),
        (q.p0.x + q.p2.x - 2 * q.p1.x) ^ 2 + (q.p0.y + q.p2.y - 2 * q.p1.y) ^ 2 ) ∧
    ∀ a, q.nearest p a = nearestOfRoots q p
      (solveCubic (quadNearestCoeffs q p).1 (quadNearestCoeffs q p).2.1 (quadNearestCoeffs q p).2.2.1
        (quadNearestCoeffs q p).2.2.2) :=
  ⟨quadNearestCoeffs_eq q p, fun _ => rfl⟩

/-- the squared distance along the quadratic is the quartic `D(t) = |p−p0|² + 4c0 t + 2c1 t² + (4/3)c2 t³ + c3 t⁴`,
    and `D′ = 4·(c0 + c1 t + c2 t² + c3 t³)` formally -/
theorem quad_critical_poly (q : QuadBez K) (p : Point K) (t : K) :
    dist2 p (q.eval t) = dist2 p q.p0 + 4 * (quadNearestCoeffs q p).1 * t + 2 * (quadNearestCoeffs q p).2.1 * t ^ 2
      + 4 / 3 * (quadNearestCoeffs q p).2.2.1 * t ^ 3 + (quadNearestCoeffs q p).2.2.2 * t ^ 4 ∧
    4 * (quadNearestCoeffs q p).1 + 2 * (quadNearestCoeffs q p).2.1 * (2 * t)
      + 4 / 3 * (quadNearestCoeffs q p).2.2.1 * (3 * t ^ 2) + (quadNearestCoeffs q p).2.2.2 * (4 * t ^ 3)
      = 4 * quadCritPoly q p t :=
  ⟨quad_dist2_poly q p t, by unfold quadCritPoly; ring⟩

/-- the sign structure that makes the `need_ends` rule sound: positive leading coefficient of odd degree, or the
    zero polynomial -/
theorem quad_critical_sign (q : QuadBez K) (p : Point K) :
    0 < (quadNearestCoeffs q p).2.2.2 ∨
    ((quadNearestCoeffs q p).2.2.2 = 0 ∧ (quadNearestCoeffs q p).2.2.1 = 0 ∧ 0 < (quadNearestCoeffs q p).2.1) ∨
    quadCoeffsAllZero q p := quadCoeffs_sign q p

example : quadNearestCoeffs (⟨⟨0, 0⟩, ⟨1, 2⟩, ⟨3, 0⟩⟩ : QuadBez Rat) ⟨1, 1⟩ = (-3, 13, -21, 17) := by decide +kernel

end critical

section criticalReal
variable [Scalar ℝ] [LawfulScalar ℝ]

theorem quad_critical_hasDerivAt (q : QuadBez ℝ) (p : Point ℝ) (t : ℝ) :
    HasDerivAt (fun x => dist2 p (q.eval x)) (4 * quadCritPoly q p t) t := quad_dist2_hasDerivAt q p t

end criticalReal

/-! ## 3. structure of `QuadBez::nearest` (no solver law) -/
section structural
variable {K' : Type} [Scalar K']

/-- any `Scalar` (also `Float`): the candidate list is never empty (so `best.2 = none`, hence the `unwrap_or(0.0)`
    default, is unreachable), and the result is one of the candidates with its squared distance as `eval_t`
    computes it -/
theorem quad_nearest_is_candidate (q : QuadBez K') (p : Point K') (a : K') :
    quadCands q (quadNearestRoots q p) ≠ [] ∧
    ∃ c ∈ quadCands q (quadNearestRoots q p), (q.nearest p a).t = c.1 ∧ (q.nearest p a).distance_sq = (c.2 - p).hypot2 := by
  refine ⟨quadCands_ne_nil q _, ?_⟩
  rw [quad_nearest_eq_ofRoots, nearestOfRoots_eq, bestOf_eq_minFold]
  obtain ⟨c, hc, h⟩ := minFold_none_mem Prod.fst (candDist p) (quadCands q (quadNearestRoots q p)) (quadCands_ne_nil q _)
  refine ⟨c, hc, ?_, ?_⟩
  · show (minFold _ _ _ _).1 = _
    rw [h]
  · show (minFold _ _ _ _).2.getD _ = _
    rw [h]; rfl

/-- what the candidates are: a listed root that passes the range test, or – only when `need_ends` – an end point -/
theorem quad_candidates (q : QuadBez K') (roots : List K') (c : K' × Point K') :
    c ∈ quadCands q roots ↔
      (∃ t ∈ roots, nearInRange t = true ∧ c = (t, q.eval t)) ∨
      ((roots = [] ∨ ∃ t ∈ roots, nearInRange t = false) ∧
        (c = (Scalar.ofRat ((0 : Nat) : Rat), q.p0) ∨ c = (Scalar.ofRat ((1 : Nat) : Rat), q.p2))) := by
  rw [mem_quadCands, quadNeedEnds_iff]

end structural

section structuralLawful
variable {K : Type} [Field K] [LinearOrder K] [IsStrictOrderedRing K] [FloorRing K] [Scalar K] [LawfulScalar K]

/-- the candidates in ordinary arithmetic -/
theorem quad_candidates_lawful (q : QuadBez K) (roots : List K) (c : K × Point K) :
    c ∈ quadCands q roots ↔
      (∃ t ∈ roots, 0 ≤ t ∧ t ≤ 1 ∧ c = (t, q.eval t)) ∨
      ((roots = [] ∨ ∃ t ∈ roots, ¬ (0 ≤ t ∧ t ≤ 1)) ∧ (c = (0, q.p0) ∨ c = (1, q.p2))) :=
  mem_quadCands_lawful q roots c

/-- whatever the solver returns: `t ∈ [0,1]` and `distance_sq` is the squared distance to the curve point at `t` -/
theorem quad_nearest_on_curve (q : QuadBez K) (p : Point K) (a : K) :
    0 ≤ (q.nearest p a).t ∧ (q.nearest p a).t ≤ 1 ∧
    (q.nearest p a).distance_sq = dist2 p (q.eval (q.nearest p a).t) := by
  obtain ⟨c, hc, ht, hd, -⟩ := quad_nearest_min_cands q p a
  obtain ⟨h0, h1, he⟩ := quadCands_on_curve q _ c hc
  rw [ht, hd, he]
  exact ⟨h0, h1, rfl⟩

/-- the result is the minimum over all evaluated candidates: the listed roots in [0,1], and – when the list is empty
    or has a member outside [0,1] (`need_ends`) – the two end points -/
theorem quad_nearest_candidates_min (q : QuadBez K) (p : Point K) (a : K) :
    (∀ r ∈ quadNearestRoots q p, 0 ≤ r → r ≤ 1 → (q.nearest p a).distance_sq ≤ dist2 p (q.eval r)) ∧
    ((quadNearestRoots q p = [] ∨ ∃ t ∈ quadNearestRoots q p, ¬ (0 ≤ t ∧ t ≤ 1)) →
      (q.nearest p a).distance_sq ≤ dist2 p q.p0 ∧ (q.nearest p a).distance_sq ≤ dist2 p q.p2) := by
  obtain ⟨c, -, -, -, hmin⟩ := quad_nearest_min_cands q p a
  constructor
  · intro r hr h0 h1
    exact hmin (r, q.eval r) ((mem_quadCands_lawful q _ _).mpr (Or.inl ⟨r, hr, h0, h1, rfl⟩))
  · intro hN
    exact ⟨hmin (0, q.p0) ((mem_quadCands_lawful q _ _).mpr (Or.inr ⟨hN, Or.inl rfl⟩)),
      hmin (1, q.p2) ((mem_quadCands_lawful q _ _).mpr (Or.inr ⟨hN, Or.inr rfl⟩))⟩

/-- `eval_t` replaces the best candidate only on a strict improvement: the result is the *first* candidate (in
    evaluation order) of minimal squared distance -/
theorem quad_nearest_first_min (q : QuadBez K) (p : Point K) (a : K) :
    ∃ l₁ c l₂, quadCands q (quadNearestRoots q p) = l₁ ++ c :: l₂ ∧
      (q.nearest p a).t = c.1 ∧ (q.nearest p a).distance_sq = dist2 p c.2 ∧
      (∀ c' ∈ l₁, dist2 p c.2 < dist2 p c'.2) ∧ (∀ c' ∈ l₂, dist2 p c.2 ≤ dist2 p c'.2) :=
  quad_nearest_firstMin q p a

/-- an interior root, all roots inside [0,1]: `need_ends` stays false and the root is the only candidate -/
example : quadNearestRoots (⟨⟨0, 0⟩, ⟨1, 0⟩, ⟨2, 0⟩⟩ : QuadBez Rat) ⟨1/2, 3⟩ = [1 / 4] ∧
    quadCands (⟨⟨0, 0⟩, ⟨1, 0⟩, ⟨2, 0⟩⟩ : QuadBez Rat) [1 / 4] = [(1 / 4, ⟨1 / 2, 0⟩)] ∧
    (QuadBez.nearest (⟨⟨0, 0⟩, ⟨1, 0⟩, ⟨2, 0⟩⟩ : QuadBez Rat) ⟨1/2, 3⟩ 0).t = 1 / 4 ∧
    (QuadBez.nearest (⟨⟨0, 0⟩, ⟨1, 0⟩, ⟨2, 0⟩⟩ : QuadBez Rat) ⟨1/2, 3⟩ 0).distance_sq = 9 := by decide +kernel

/-- a root outside [0,1]: `need_ends`, the end points are evaluated and the nearer one wins -/
example : quadNearestRoots (⟨⟨0, 0⟩, ⟨1, 0⟩, ⟨2, 0⟩⟩ : QuadBez Rat) ⟨-3, 4⟩ = [-3 / 2] ∧
    quadCands (⟨⟨0, 0⟩, ⟨1, 0⟩, ⟨2, 0⟩⟩ : QuadBez Rat) [-3 / 2] = [(0, ⟨0, 0⟩), (1, ⟨2, 0⟩)] ∧
    (QuadBez.nearest (⟨⟨0, 0⟩, ⟨1, 0⟩, ⟨2, 0⟩⟩ : QuadBez Rat) ⟨-3, 4⟩ 0).t = 0 ∧
    (QuadBez.nearest (⟨⟨0, 0⟩, ⟨1, 0⟩, ⟨2, 0⟩⟩ : QuadBez Rat) ⟨-3, 4⟩ 0).distance_sq = 25 := by decide +kernel

/-- the one-point quadratic: all coefficients vanish, the solver answers `[0]` -/
example : quadNearestCoeffs (⟨⟨1, 1⟩, ⟨1, 1⟩, ⟨1, 1⟩⟩ : QuadBez Rat) ⟨4, 5⟩ = (0, 0, 0, 0) ∧
    quadNearestRoots (⟨⟨1, 1⟩, ⟨1, 1⟩, ⟨1, 1⟩⟩ : QuadBez Rat) ⟨4, 5⟩ = [0] ∧
    (QuadBez.nearest (⟨⟨1, 1⟩, ⟨1, 1⟩, ⟨1, 1⟩⟩ : QuadBez Rat) ⟨4, 5⟩ 0).distance_sq = 25 := by decide +kernel

end structuralLawful

/-! ## 4. `QuadBez::nearest` returns the minimum (ℝ, under the solver hypothesis) -/
section quadReal
variable [Scalar ℝ] [LawfulScalar ℝ]

theorem quad_nearest_min (q : QuadBez ℝ) (p : Point ℝ) (a : ℝ) (hS : QuadRootsExact q p) :
    0 ≤ (q.nearest p a).t ∧ (q.nearest p a).t ≤ 1 ∧
    (q.nearest p a).distance_sq = dist2 p (q.eval (q.nearest p a).t) ∧
    ∀ s, 0 ≤ s → s ≤ 1 → (q.nearest p a).distance_sq ≤ dist2 p (q.eval s) := by
  obtain ⟨h0, h1, h2⟩ := quad_nearest_on_curve q p a
  exact ⟨h0, h1, h2, fun s hs0 hs1 => quad_nearest_le q p a hS s hs0 hs1⟩

/-- the same from the global specification of the solver -/
theorem quad_nearest_min_of_spec (hS : CubicSolverSpec ℝ) (q : QuadBez ℝ) (p : Point ℝ) (a : ℝ) :
    0 ≤ (q.nearest p a).t ∧ (q.nearest p a).t ≤ 1 ∧
    (q.nearest p a).distance_sq = dist2 p (q.eval (q.nearest p a).t) ∧
    ∀ s, 0 ≤ s → s ≤ 1 → (q.nearest p a).distance_sq ≤ dist2 p (q.eval s) :=
  quad_nearest_min q p a (hS.quadRootsExact q p)

/-- no solver hypothesis at all when `p1` is the midpoint of `p0 p2` (`c3 = c2 = 0`: the solver only divides);
    this includes the one-point quadratic (all coefficients zero) -/
theorem quad_nearest_min_affine (q : QuadBez ℝ) (p : Point ℝ) (a : ℝ)
    (hx : q.p0.x + q.p2.x = 2 * q.p1.x) (hy : q.p0.y + q.p2.y = 2 * q.p1.y) :
    0 ≤ (q.nearest p a).t ∧ (q.nearest p a).t ≤ 1 ∧
    (q.nearest p a).distance_sq = dist2 p (q.eval (q.nearest p a).t) ∧
    ∀ s, 0 ≤ s → s ≤ 1 → (q.nearest p a).distance_sq ≤ dist2 p (q.eval s) :=
  quad_nearest_min q p a (quadRootsExact_of_affine q p hx hy)

end quadReal

/-- the all-zero polynomial is excluded from `CubicSolverSpec` because the model answers `[0]` for it -/
theorem solveCubic_all_zero {K : Type} [Field K] [LinearOrder K] [IsStrictOrderedRing K] [FloorRing K] [Scalar K]
    [LawfulScalar K] : solveCubic (0 : K) 0 0 0 = [0] := solveCubic_zero

/-- non-vacuity of `QuadRootsExact` over ℝ: a lawful scalar structure on ℝ exists (`realScalar`, from C15), and for it the
    hypothesis holds for a non-degenerate query (`c1 = 2 ≠ 0`) by field arithmetic alone -/
example : ∃ (_ : Scalar ℝ) (_ : LawfulScalar ℝ),
    QuadRootsExact (⟨⟨0, 0⟩, ⟨1, 0⟩, ⟨2, 0⟩⟩ : QuadBez ℝ) ⟨1/2, 3⟩ ∧
    ¬ quadCoeffsAllZero (⟨⟨0, 0⟩, ⟨1, 0⟩, ⟨2, 0⟩⟩ : QuadBez ℝ) ⟨1/2, 3⟩ := by
  refine ⟨realScalar, realScalar_lawful, ?_, ?_⟩
  · let _ := realScalar
    have _ := realScalar_lawful
    exact quadRootsExact_of_affine _ _ (by norm_num) (by norm_num)
  · let _ := realScalar
    have _ := realScalar_lawful
    unfold quadCoeffsAllZero
    rw [quadNearestCoeffs_eq]
    norm_num

/-- … and with the real `sqrt`, `cbrt`, `sin`, `cos`, `atan2` (`LawfulReal`, C15) the hypothesis is a theorem:
    `QuadBez::nearest` over ℝ returns the minimum, for every quadratic and every point -/
theorem quad_nearest_min_real [Scalar ℝ] [LawfulScalar ℝ] [LawfulReal] (q : QuadBez ℝ) (p : Point ℝ) (a : ℝ) :
    0 ≤ (q.nearest p a).t ∧ (q.nearest p a).t ≤ 1 ∧
    (q.nearest p a).distance_sq = dist2 p (q.eval (q.nearest p a).t) ∧
    ∀ s, 0 ≤ s → s ≤ 1 → (q.nearest p a).distance_sq ≤ dist2 p (q.eval s) :=
  quad_nearest_min_of_spec cubicSolverSpec_real q p a

example : ∃ (_ : Scalar ℝ) (_ : LawfulScalar ℝ), LawfulReal :=
  ⟨realScalar, realScalar_lawful, realScalar_lawfulReal⟩

/-! ## 5. `CubicBez::nearest` -/
section cubicStructural
variable {K' : Type} [Scalar K']

/-- any `Scalar`: `to_quads` is never empty and the result is `(t0 + t·(t1 − t0), d²)` of one of its pieces -/
theorem cubic_nearest_is_piece (c : CubicBez K') (p : Point K') (a : K') :
    c.to_quads a ≠ [] ∧
    ∃ piece ∈ c.to_quads a, (c.nearest p a).t = cubicPieceT p a piece ∧
      (c.nearest p a).distance_sq = (piece.2.2.nearest p a).distance_sq := by
  refine ⟨to_quads_ne_nil c a, ?_⟩
  rw [cubic_nearest_eq_minFold]
  obtain ⟨x, hx, h⟩ := minFold_none_mem (cubicPieceT p a) (cubicPieceD p a) (c.to_quads a) (to_quads_ne_nil c a)
  refine ⟨x, hx, ?_, ?_⟩
  · show (minFold _ _ _ _).1 = _
    rw [h]
  · show (minFold _ _ _ _).2.getD _ = _
    rw [h]; rfl

end cubicStructural

section cubicLawful
variable {K : Type} [Field K] [LinearOrder K] [IsStrictOrderedRing K] [FloorRing K] [Scalar K] [LawfulScalar K]

/-- the result is that of the first piece `(t0, t1, quad)` with the smallest reported squared distance, mapped back
    to the cubic's parameter -/
theorem cubic_nearest_structure (c : CubicBez K) (p : Point K) (a : K) :
    ∃ l₁ piece l₂, c.to_quads a = l₁ ++ piece :: l₂ ∧
      (c.nearest p a).t = piece.1 + (piece.2.2.nearest p a).t * (piece.2.1 - piece.1) ∧
      (c.nearest p a).distance_sq = (piece.2.2.nearest p a).distance_sq ∧
      (∀ x ∈ l₁, (piece.2.2.nearest p a).distance_sq < (x.2.2.nearest p a).distance_sq) ∧
      (∀ x ∈ l₂, (piece.2.2.nearest p a).distance_sq ≤ (x.2.2.nearest p a).distance_sq) :=
  cubic_nearest_firstMin c p a

/-- piece `i` of `n` covers `[i/n, (i+1)/n]`; the pieces tile [0,1] -/
theorem cubic_pieces_tile (c : CubicBez K) (a : K) :
    (∀ piece ∈ c.to_quads a, 0 ≤ piece.1 ∧ piece.1 ≤ piece.2.1 ∧ piece.2.1 ≤ 1) ∧
    ∀ t, 0 ≤ t → t ≤ 1 → ∃ piece ∈ c.to_quads a, ∃ s, 0 ≤ s ∧ s ≤ 1 ∧ t = piece.1 + s * (piece.2.1 - piece.1) :=
  ⟨fun piece h => piece_bounds c a piece h, fun t h0 h1 => to_quads_tiling c a t h0 h1⟩

theorem cubic_nearest_t_range (c : CubicBez K) (p : Point K) (a : K) :
    0 ≤ (c.nearest p a).t ∧ (c.nearest p a).t ≤ 1 := by
  obtain ⟨piece, hp, ht, -, -⟩ := cubic_nearest_min_pieces c p a
  obtain ⟨b0, b1, b2⟩ := piece_bounds c a piece hp
  obtain ⟨u0, u1, -⟩ := quad_nearest_on_curve piece.2.2 p a
  have hw : 0 ≤ piece.2.1 - piece.1 := by linarith
  have hu : (piece.2.2.nearest p a).t * (piece.2.1 - piece.1) ≤ 1 * (piece.2.1 - piece.1) :=
    mul_le_mul_of_nonneg_right u1 hw
  have hu' : 0 ≤ (piece.2.2.nearest p a).t * (piece.2.1 - piece.1) := mul_nonneg u0 hw
  rw [ht]
  constructor <;> linarith

end cubicLawful

section cubicReal
variable [Scalar ℝ] [LawfulScalar ℝ]

/-- infimum-free form: the reported distance is at most `a` above every true distance, and the true distance at the
    reported parameter is at most `a` above the reported one -/
theorem cubic_nearest_bounds (c : CubicBez ℝ) (p : Point ℝ) (a : ℝ)
    (hS : ∀ piece ∈ c.to_quads a, QuadRootsExact piece.2.2 p) (hE : ToQuadsWithin c a) :
    0 ≤ (c.nearest p a).t ∧ (c.nearest p a).t ≤ 1 ∧
    (∀ t, 0 ≤ t → t ≤ 1 → Real.sqrt (c.nearest p a).distance_sq ≤ pdist p (c.eval t) + a) ∧
    pdist p (c.eval (c.nearest p a).t) ≤ Real.sqrt (c.nearest p a).distance_sq + a := by
  obtain ⟨piece, hp, ht, hd, hmin⟩ := cubic_nearest_min_pieces c p a
  obtain ⟨b0, b1, b2⟩ := piece_bounds c a piece hp
  obtain ⟨cq, hcq, hqt, hqd, -⟩ := quad_nearest_min_cands piece.2.2 p a
  obtain ⟨u0, u1, ue⟩ := quadCands_on_curve piece.2.2 _ cq hcq
  rw [← hqt] at u0 u1 ue
  obtain ⟨r0, r1⟩ := cubic_nearest_t_range c p a
  refine ⟨r0, r1, ?_, ?_⟩
  · intro t h0 h1
    obtain ⟨x, hx, s, s0, s1, hts⟩ := to_quads_tiling c a t h0 h1
    have h1 : (c.nearest p a).distance_sq ≤ dist2 p (x.2.2.eval s) :=
      (hmin x hx).trans (quad_nearest_le x.2.2 p a (hS x hx) s s0 s1)
    have h2 : Real.sqrt (c.nearest p a).distance_sq ≤ pdist p (x.2.2.eval s) := Real.sqrt_le_sqrt h1
    have h3 := pdist_triangle p (c.eval t) (x.2.2.eval s)
    have h4 := hE x hx s s0 s1
    rw [← hts, pdist_comm] at h4
    linarith
  · rw [hd, hqd, ue]
    have h3 := pdist_triangle p (piece.2.2.eval (piece.2.2.nearest p a).t) (c.eval (c.nearest p a).t)
    have h4 := hE piece hp _ u0 u1
    rw [← ht] at h4
    unfold pdist at h3 h4 ⊢
    linarith

theorem cubic_nearest_within (c : CubicBez ℝ) (p : Point ℝ) (a : ℝ)
    (hS : ∀ piece ∈ c.to_quads a, QuadRootsExact piece.2.2 p) (hE : ToQuadsWithin c a) :
    0 ≤ (c.nearest p a).t ∧ (c.nearest p a).t ≤ 1 ∧
    |Real.sqrt (c.nearest p a).distance_sq - curveDist c.eval p| ≤ a ∧
    pdist p (c.eval (c.nearest p a).t) ≤ curveDist c.eval p + 2 * a := by
  obtain ⟨h0, h1, hA, hB⟩ := cubic_nearest_bounds c p a hS hE
  exact ⟨h0, h1, within_of_bounds c.eval p _ a _ h0 h1 hA hB⟩

/-- the property text, for every segment kind -/
theorem pathSeg_nearest_within (s : PathSeg ℝ) (p : Point ℝ) (a : ℝ) (ha : 0 ≤ a) (h : PathSegNearestHyp s p a) :
    0 ≤ (s.nearest p a).t ∧ (s.nearest p a).t ≤ 1 ∧
    |Real.sqrt (s.nearest p a).distance_sq - curveDist s.eval p| ≤ a ∧
    pdist p (s.eval (s.nearest p a).t) ≤ curveDist s.eval p + 2 * a := by
  cases s with
  | Line l =>
    obtain ⟨h0, h1, h2, h3⟩ := line_nearest_min l p a
    exact ⟨h0, h1, within_of_exact l.eval p _ a _ ha h0 h1 h2 h3⟩
  | Quad q =>
    obtain ⟨h0, h1, h2, h3⟩ := quad_nearest_min q p a h
    exact ⟨h0, h1, within_of_exact q.eval p _ a _ ha h0 h1 h2 h3⟩
  | Cubic c => exact cubic_nearest_within c p a h.1 h.2

/-- lines and quadratics are exact (`a = 0`): the reported distance *is* the distance to the segment -/
theorem pathSeg_nearest_exact (s : PathSeg ℝ) (p : Point ℝ) (a : ℝ)
    (hs : match s with | .Line _ => True | .Quad q => QuadRootsExact q p | .Cubic _ => False) :
    Real.sqrt (s.nearest p a).distance_sq = curveDist s.eval p ∧
    pdist p (s.eval (s.nearest p a).t) = curveDist s.eval p := by
  cases s with
  | Line l =>
    obtain ⟨h0, h1, h2, h3⟩ := line_nearest_min l p a
    have := within_of_exact l.eval p _ 0 _ (le_refl _) h0 h1 h2 h3
    exact exact_of_within_zero _ _ _ _ h0 h1 this
  | Quad q =>
    obtain ⟨h0, h1, h2, h3⟩ := quad_nearest_min q p a hs
    have := within_of_exact q.eval p _ 0 _ (le_refl _) h0 h1 h2 h3
    exact exact_of_within_zero _ _ _ _ h0 h1 this
  | Cubic c => exact absurd hs id

/-- with the C15 solver theorems only the C17 bound remains as a hypothesis -/
theorem cubic_nearest_within_real [LawfulReal] (c : CubicBez ℝ) (p : Point ℝ) (a : ℝ) (hE : ToQuadsWithin c a) :
    0 ≤ (c.nearest p a).t ∧ (c.nearest p a).t ≤ 1 ∧
    |Real.sqrt (c.nearest p a).distance_sq - curveDist c.eval p| ≤ a ∧
    pdist p (c.eval (c.nearest p a).t) ≤ curveDist c.eval p + 2 * a :=
  cubic_nearest_within c p a (fun piece _ => cubicSolverSpec_real.quadRootsExact piece.2.2 p) hE

theorem pathSeg_nearest_within_real [LawfulReal] (s : PathSeg ℝ) (p : Point ℝ) (a : ℝ) (ha : 0 ≤ a)
    (hE : ∀ c, s = .Cubic c → ToQuadsWithin c a) :
    0 ≤ (s.nearest p a).t ∧ (s.nearest p a).t ≤ 1 ∧
    |Real.sqrt (s.nearest p a).distance_sq - curveDist s.eval p| ≤ a ∧
    pdist p (s.eval (s.nearest p a).t) ≤ curveDist s.eval p + 2 * a := by
  apply pathSeg_nearest_within s p a ha
  cases s with
  | Line l => exact trivial
  | Quad q => exact cubicSolverSpec_real.quadRootsExact q p
  | Cubic c => exact ⟨fun piece _ => cubicSolverSpec_real.quadRootsExact piece.2.2 p, hE c rfl⟩

end cubicReal

/-- non-vacuity of the hypotheses of `cubic_nearest_within` over ℝ (a straight, uniformly parametrised cubic: every
    piece of `to_quads` is exact and affine, whatever the piece count) -/
example : ∃ (_ : Scalar ℝ) (_ : LawfulScalar ℝ),
    (∀ piece ∈ (⟨⟨0, 0⟩, ⟨1, 1⟩, ⟨2, 2⟩, ⟨3, 3⟩⟩ : CubicBez ℝ).to_quads 1, QuadRootsExact piece.2.2 ⟨1, 3⟩) ∧
    ToQuadsWithin (⟨⟨0, 0⟩, ⟨1, 1⟩, ⟨2, 2⟩, ⟨3, 3⟩⟩ : CubicBez ℝ) 1 := by
  refine ⟨realScalar, realScalar_lawful, ?_, ?_⟩
  · let _ := realScalar
    have _ := realScalar_lawful
    intro piece hp
    obtain ⟨i, _, rfl⟩ := (mem_to_quads _ _ piece).mp hp
    apply quadRootsExact_of_affine
    · unfold toQuadsPiece
      simp only [kdefs, scalar_norm]
      generalize (natK i : ℝ) / natK _ = t0
      generalize (natK (i + 1) : ℝ) / natK _ = t1
      push_cast
      ring
    · unfold toQuadsPiece
      simp only [kdefs, scalar_norm]
      generalize (natK i : ℝ) / natK _ = t0
      generalize (natK (i + 1) : ℝ) / natK _ = t1
      push_cast
      ring
  · let _ := realScalar
    have _ := realScalar_lawful
    exact toQuadsWithin_of_quadratic _ (by norm_num) (by norm_num) 1 zero_le_one

/-- `ToQuadsWithin` is exactly what C17's `toQuads_error_bound` delivers (squared form, indexed pieces) -/
theorem toQuadsWithin_of_squared_bound [Scalar ℝ] [LawfulScalar ℝ] (c : CubicBez ℝ) (a : ℝ) (ha : 0 ≤ a)
    (h : ∀ (i : Nat) (p : ℝ × ℝ × QuadBez ℝ), (c.to_quads a)[i]? = some p → ∀ s, 0 ≤ s → s ≤ 1 →
      ((p.2.2.eval s).x - (c.eval (p.1 + s * (p.2.1 - p.1))).x) ^ 2
        + ((p.2.2.eval s).y - (c.eval (p.1 + s * (p.2.1 - p.1))).y) ^ 2 ≤ a ^ 2) : ToQuadsWithin c a :=
  toQuadsWithin_of_sq c a ha h

example : (CubicBez.nearest (⟨⟨0, 0⟩, ⟨1, 0⟩, ⟨2, 0⟩, ⟨3, 0⟩⟩ : CubicBez Rat) ⟨1, 2⟩ 1).t = 1 / 3 ∧
    (CubicBez.nearest (⟨⟨0, 0⟩, ⟨1, 0⟩, ⟨2, 0⟩, ⟨3, 0⟩⟩ : CubicBez Rat) ⟨1, 2⟩ 1).distance_sq = 4 ∧
    (PathSeg.nearest (.Cubic (⟨⟨0, 0⟩, ⟨1, 0⟩, ⟨2, 0⟩, ⟨3, 0⟩⟩ : CubicBez Rat)) ⟨-4, 3⟩ 1).t = 0 ∧
    (PathSeg.nearest (.Cubic (⟨⟨0, 0⟩, ⟨1, 0⟩, ⟨2, 0⟩, ⟨3, 0⟩⟩ : CubicBez Rat)) ⟨-4, 3⟩ 1).distance_sq = 25 := by
  decide +kernel

/-- `to_quads` of a concrete cubic over ℚ (here `n = 1`: the `Rat` stand-in for `powf` is the identity and the error
    term vanishes), and the parameter ranges of the pieces -/
example : (CubicBez.to_quads (⟨⟨0, 0⟩, ⟨1, 0⟩, ⟨2, 0⟩, ⟨3, 0⟩⟩ : CubicBez Rat) 1).map (fun x => (x.1, x.2.1))
    = [(0, 1)] := by decide +kernel

end Kurbo
