import Proofs.KDefs
import Proofs.Lemmas.C12
import Proofs.Lemmas.C12Path
/-! C12 – affine maps act as the documented matrices.  Model = the kernel definitions `Affine.*`, `TranslateScale.*`
    of `Kurbo/Kernel.lean` (translator output) and `segs` of `Kurbo/Path.lean`; all algebraic statements are for an
    arbitrary lawful scalar `K`, the "by definition" ones for an arbitrary `Scalar`.

    PROVED
    1. `(A*B)*p = A*(B*p)`, associativity, `Affine.scale 1` is the two-sided unit and acts trivially; closed forms of
       the action of every generator (scale, scale_non_uniform, translate, skew, rotate, scale_about, rotate_about) and
       `X_about c = translate c * X * translate (-c)`.
    2. `det (A*B) = det A * det B`, determinants of the generators.
    3. `det A ≠ 0`: `A * A.inverse = A.inverse * A = scale 1`, action version, injectivity, `det A⁻¹ = 1 / det A`.
    4. every `pre_X` is `self * X`, every `then_X` is `X * self` (11 members; `then_translate`, which is implemented by
       mutating the last column, needs arithmetic, the others are definitional), plus the action form;
       `translation`/`with_translation`.
    5. `scale_about`/`rotate_about` fix their centre (`sin`/`cos` arbitrary); `reflect p d` fixes `p` and every point
       `p + t·d` of its axis *whatever `Scalar.hypot` returns*; with `hypot² = d.x²+d.y² ≠ 0` it flips the normal
       direction, is an involution and has determinant −1.
    6. `(A * s).eval t = A * s.eval t` for Line/QuadBez/CubicBez/PathSeg, sub-segments commute, start/end/`as_path_el`/
       `end_point` commute, `A * PathSeg`/`A * PathEl` keep the kind and map the points; for `det A ≠ 0` the segments of
       the mapped element list are the mapped segments (`path_segments_commute`, `path_eval_commutes`).
    7. `TranslateScale`: action, product, inverse (`scale ≠ 0`), `translate`, `from_scale_about`, `add_Vec2`/`sub_Vec2`,
       `mul_Line/QuadBez/CubicBez` all agree with `to_affine`; `mul_Rect = to_affine.transform_rect_bbox` for EVERY scale
       (also negative and zero) and every corner order; `T * r` contains `T * p` for every `p` of the closed `r`, and for
       `scale ≠ 0` exactly those (`ts_mul_rect_image`).
    8. `transform_rect_bbox r` contains the image of every point of the closed rectangle `r` (corners in any order), in
       particular of the four corners; it is tight (each side passes through a corner image) and non-negative.

    NOT PROVED / out of scope of this file
    * nothing about `sin`/`cos` themselves: `Affine.rotate th` is treated as the matrix `[c s; -s c]` for arbitrary values
      `s = Scalar.sin th`, `c = Scalar.cos th` (so "rotate is an isometry", `rotate a * rotate b = rotate (a+b)` are not stated).
    * `reflect` being the *metric* reflection needs `Scalar.hypot` to be the Euclidean norm; that is a hypothesis of
      `reflect_flips_normal`/`reflect_involution`, not a theorem (a lawful `K` need not have square roots).
    * `path_segments_commute` is false for singular maps (a collapsed closing line is no longer emitted – `example` below);
      it is proved for `det ≠ 0` only.
    * `Affine * Arc/Ellipse/Circle/RoundedRect`, `svd`, `BezPath::apply_affine` as a mutation (here: `List.map`)
      are not covered: they are not among the kernel items of this property.
    Helper lemmas: `Proofs/Lemmas/C12.lean`, `Proofs/Lemmas/C12Path.lean`. -/
set_option linter.unusedSectionVars false
namespace Kurbo
variable {K : Type} [Field K] [LinearOrder K] [IsStrictOrderedRing K] [FloorRing K] [Scalar K] [LawfulScalar K]

/-! ### 1. composition is a monoid acting on points; `Affine.scale 1` is the identity -/

theorem affine_mul_action (A B : Affine K) (p : Point K) : (A * B) * p = A * (B * p) := by kaff
theorem affine_mul_assoc (A B C : Affine K) : (A * B) * C = A * (B * C) := by kaff
theorem affine_one_mul (A : Affine K) : Affine.scale (1 : K) * A = A := by cases A; kaff
theorem affine_mul_one (A : Affine K) : A * Affine.scale (1 : K) = A := by cases A; kaff
theorem affine_one_act (p : Point K) : Affine.scale (1 : K) * p = p := by cases p; kaff

/-! ### the generators act as the documented matrices -/

theorem affine_act_formula (A : Affine K) (p : Point K) :
    A * p = ⟨A.c0 * p.x + A.c2 * p.y + A.c4, A.c1 * p.x + A.c3 * p.y + A.c5⟩ := by kaff
theorem scale_act (s : K) (p : Point K) : Affine.scale s * p = ⟨s * p.x, s * p.y⟩ := by kaff
theorem scale_non_uniform_act (sx sy : K) (p : Point K) : Affine.scale_non_uniform sx sy * p = ⟨sx * p.x, sy * p.y⟩ := by kaff
theorem translate_act (v : Vec2 K) (p : Point K) : Affine.translate v * p = p + v := by kaff
theorem skew_act (kx ky : K) (p : Point K) : Affine.skew kx ky * p = ⟨p.x + kx * p.y, ky * p.x + p.y⟩ := by kaff
theorem rotate_act (th : K) (p : Point K) :
    Affine.rotate th * p = ⟨Scalar.cos th * p.x - Scalar.sin th * p.y, Scalar.sin th * p.x + Scalar.cos th * p.y⟩ := by kaff
theorem scale_about_act (s : K) (c p : Point K) :
    Affine.scale_about s c * p = ⟨c.x + s * (p.x - c.x), c.y + s * (p.y - c.y)⟩ := by kaff
theorem rotate_about_act (th : K) (c p : Point K) :
    Affine.rotate_about th c * p =
      ⟨c.x + (Scalar.cos th * (p.x - c.x) - Scalar.sin th * (p.y - c.y)),
       c.y + (Scalar.sin th * (p.x - c.x) + Scalar.cos th * (p.y - c.y))⟩ := by kaff
theorem scale_about_decomp (s : K) (c : Point K) :
    Affine.scale_about s c = Affine.translate c.to_vec2 * Affine.scale s * Affine.translate (-c.to_vec2) := by kaff
theorem rotate_about_decomp (th : K) (c : Point K) :
    Affine.rotate_about th c = Affine.translate c.to_vec2 * Affine.rotate th * Affine.translate (-c.to_vec2) := by kaff

/-! ### 2. the determinant is multiplicative -/

theorem affine_det_mul (A B : Affine K) : (A * B).determinant = A.determinant * B.determinant := by kaff
theorem affine_det_scale (s : K) : (Affine.scale s).determinant = s * s := by kaff
theorem affine_det_scale_non_uniform (sx sy : K) : (Affine.scale_non_uniform sx sy).determinant = sx * sy := by kaff
theorem affine_det_translate (v : Vec2 K) : (Affine.translate v).determinant = 1 := by kaff
theorem affine_det_skew (kx ky : K) : (Affine.skew kx ky).determinant = 1 - kx * ky := by kaff
theorem affine_det_rotate (th : K) :
    (Affine.rotate th).determinant = Scalar.cos th * Scalar.cos th + Scalar.sin th * Scalar.sin th := by kaff

/-! ### 3. `inverse` is the two-sided inverse of a non-singular map -/

theorem affine_mul_inverse (A : Affine K) (h : A.determinant ≠ 0) :
    A * A.inverse = Affine.scale (1 : K) ∧ A.inverse * A = Affine.scale (1 : K) := by
  have h' : A.c0 * A.c3 - A.c1 * A.c2 ≠ 0 := by simpa only [kdefs, scalar_norm] using h
  constructor <;> kaff_unfold <;> (repeat' (refine And.intro ?_ ?_)) <;> field_simp <;> ring

theorem affine_inverse_act (A : Affine K) (h : A.determinant ≠ 0) (p : Point K) :
    A.inverse * (A * p) = p ∧ A * (A.inverse * p) = p := by
  obtain ⟨h1, h2⟩ := affine_mul_inverse A h
  constructor
  · rw [← affine_mul_action, h2, affine_one_act]
  · rw [← affine_mul_action, h1, affine_one_act]

theorem affine_act_injective (A : Affine K) (h : A.determinant ≠ 0) (p q : Point K) (e : A * p = A * q) : p = q := by
  rw [← (affine_inverse_act A h p).1, e, (affine_inverse_act A h q).1]

theorem affine_inverse_det (A : Affine K) (h : A.determinant ≠ 0) :
    A.inverse.determinant = 1 / A.determinant := by
  have h' : A.c0 * A.c3 - A.c1 * A.c2 ≠ 0 := by simpa only [kdefs, scalar_norm] using h
  kaff_unfold; field_simp

example : (Affine.mk (2 : Rat) 1 (-3) 5 7 (-1)).determinant ≠ 0 := by decide +kernel

/-! ### 4. every `pre_*` is `self * T`, every `then_*` is `T * self` -/

section structural
/-! by definition (no arithmetic law used; holds for every `Scalar`, also `Float`) -/
variable {K' : Type} [Scalar K']
theorem pre_translate_spec (A : Affine K') (v : Vec2 K') : A.pre_translate v = A * Affine.translate v := rfl
theorem pre_scale_spec (A : Affine K') (s : K') : A.pre_scale s = A * Affine.scale s := rfl
theorem pre_scale_non_uniform_spec (A : Affine K') (sx sy : K') :
    A.pre_scale_non_uniform sx sy = A * Affine.scale_non_uniform sx sy := rfl
theorem pre_rotate_spec (A : Affine K') (th : K') : A.pre_rotate th = A * Affine.rotate th := rfl
/-- (the pinned tree computed `rotate_about * self` here; the model is the corrected source) -/
theorem pre_rotate_about_spec (A : Affine K') (th : K') (c : Point K') :
    A.pre_rotate_about th c = A * Affine.rotate_about th c := rfl
theorem then_scale_spec (A : Affine K') (s : K') : A.then_scale s = Affine.scale s * A := rfl
theorem then_scale_non_uniform_spec (A : Affine K') (sx sy : K') :
    A.then_scale_non_uniform sx sy = Affine.scale_non_uniform sx sy * A := rfl
theorem then_rotate_spec (A : Affine K') (th : K') : A.then_rotate th = Affine.rotate th * A := rfl
theorem then_rotate_about_spec (A : Affine K') (th : K') (c : Point K') :
    A.then_rotate_about th c = Affine.rotate_about th c * A := rfl
theorem then_scale_about_spec (A : Affine K') (s : K') (c : Point K') :
    A.then_scale_about s c = Affine.scale_about s c * A := rfl
end structural

/-- `then_translate` is implemented by adding to the last column; that *is* left multiplication by the translation -/
theorem then_translate_spec (A : Affine K) (v : Vec2 K) : A.then_translate v = Affine.translate v * A := by kaff

/-- in terms of the action: `pre_X` applies `X` first, `then_X` applies `X` last -/
theorem pre_then_act (A : Affine K) (p : Point K) (v : Vec2 K) (s sx sy th : K) (c : Point K) :
    A.pre_translate v * p = A * (Affine.translate v * p) ∧ A.then_translate v * p = Affine.translate v * (A * p) ∧
    A.pre_scale s * p = A * (Affine.scale s * p) ∧ A.then_scale s * p = Affine.scale s * (A * p) ∧
    A.pre_scale_non_uniform sx sy * p = A * (Affine.scale_non_uniform sx sy * p) ∧
    A.then_scale_non_uniform sx sy * p = Affine.scale_non_uniform sx sy * (A * p) ∧
    A.pre_rotate th * p = A * (Affine.rotate th * p) ∧ A.then_rotate th * p = Affine.rotate th * (A * p) ∧
    A.pre_rotate_about th c * p = A * (Affine.rotate_about th c * p) ∧
    A.then_rotate_about th c * p = Affine.rotate_about th c * (A * p) ∧
    A.then_scale_about s c * p = Affine.scale_about s c * (A * p) := by
  rw [then_translate_spec]
  exact ⟨affine_mul_action _ _ _, affine_mul_action _ _ _, affine_mul_action _ _ _, affine_mul_action _ _ _,
    affine_mul_action _ _ _, affine_mul_action _ _ _, affine_mul_action _ _ _, affine_mul_action _ _ _,
    affine_mul_action _ _ _, affine_mul_action _ _ _, affine_mul_action _ _ _⟩

theorem map_unit_square_act (r : Rect K) (u v : K) :
    Affine.map_unit_square r * (⟨u, v⟩ : Point K) = ⟨r.x0 + u * (r.x1 - r.x0), r.y0 + v * (r.y1 - r.y0)⟩ := by
  simp only [Rect.width, Rect.height, Affine.map_unit_square]; kaff

/-! ### translation part -/

theorem translation_spec (A : Affine K) : A.translation = (A * (⟨0, 0⟩ : Point K)).to_vec2 := by kaff
theorem with_translation_spec (A : Affine K) (v : Vec2 K) :
    (A.with_translation v).translation = v ∧
    A.with_translation v = Affine.translate (v - A.translation) * A := by
  constructor
  · cases v; kaff
  · kaff

/-! ### 5. fixed points -/

theorem scale_about_fixes_center (s : K) (c : Point K) : Affine.scale_about s c * c = c := by cases c; kaff
/-- holds for arbitrary values of `sin th`, `cos th` -/
theorem rotate_about_fixes_center (th : K) (c : Point K) : Affine.rotate_about th c * c = c := by cases c; kaff

/-! ### reflection about the line through `p` with direction `d`
    `Affine.reflect` normalises the normal `(d.y, -d.x)` with `Scalar.hypot`, which a lawful scalar does not interpret.
    The line itself is fixed pointwise *whatever* value `hypot` returns; that the normal direction is flipped (so the
    map is the reflection) needs `hypot² = d.x² + d.y² ≠ 0`. -/

theorem reflect_fixes_point (p : Point K) (d : Vec2 K) : Affine.reflect p d * p = p := by
  cases p; simp only [Affine.reflect, Vec2.normalize, Vec2.hypot]; kaff
theorem reflect_fixes_axis (p : Point K) (d : Vec2 K) (t : K) :
    Affine.reflect p d * (p + t * d) = p + t * d := by
  cases p; simp only [Affine.reflect, Vec2.normalize, Vec2.hypot]; kaff

theorem reflect_flips_normal (p : Point K) (d : Vec2 K) (t : K)
    (hh : Scalar.hypot d.y (-d.x) ^ 2 = d.x ^ 2 + d.y ^ 2) (hd : d.x ^ 2 + d.y ^ 2 ≠ 0) :
    Affine.reflect p d * (p + t * (⟨d.y, -d.x⟩ : Vec2 K)) = p - t * (⟨d.y, -d.x⟩ : Vec2 K) := by
  have h0 : Scalar.hypot d.y (-d.x) ≠ 0 := by
    intro e; rw [e] at hh; apply hd; rw [← hh]; ring
  simp only [Affine.reflect, Vec2.normalize, Vec2.hypot]; kaff_unfold
  generalize Scalar.hypot d.y (-d.x) = h at *
  constructor <;> field_simp <;> rw [hh] <;> ring

theorem reflect_involution (p : Point K) (d : Vec2 K)
    (hh : Scalar.hypot d.y (-d.x) ^ 2 = d.x ^ 2 + d.y ^ 2) (hd : d.x ^ 2 + d.y ^ 2 ≠ 0) :
    Affine.reflect p d * Affine.reflect p d = Affine.scale (1 : K) ∧ (Affine.reflect p d).determinant = -1 := by
  have h0 : Scalar.hypot d.y (-d.x) ≠ 0 := by
    intro e; rw [e] at hh; apply hd; rw [← hh]; ring
  simp only [Affine.reflect, Vec2.normalize, Vec2.hypot]; kaff_unfold
  generalize Scalar.hypot d.y (-d.x) = h at *
  have hh4 : h ^ 4 = (d.x ^ 2 + d.y ^ 2) ^ 2 := by rw [← hh]; ring
  refine ⟨⟨?_, ?_, ?_, ?_, ?_, ?_⟩, ?_⟩ <;> field_simp <;> (try rw [hh4]) <;> (try rw [hh]) <;> ring

example : Scalar.hypot (4 : Rat) (-3) ^ 2 = (3 : Rat) ^ 2 + 4 ^ 2 ∧ (3 : Rat) ^ 2 + 4 ^ 2 ≠ 0 := by decide +kernel

/-! ### 6. transforming and then evaluating = evaluating and then transforming -/

theorem line_eval_commutes (A : Affine K) (l : Line K) (t : K) : (A * l).eval t = A * (l.eval t) := by kaff
theorem quad_eval_commutes (A : Affine K) (q : QuadBez K) (t : K) : (A * q).eval t = A * (q.eval t) := by kaff
theorem cubic_eval_commutes (A : Affine K) (c : CubicBez K) (t : K) : (A * c).eval t = A * (c.eval t) := by kaff
theorem pathSeg_eval_commutes (A : Affine K) (s : PathSeg K) (t : K) : (A * s).eval t = A * (s.eval t) := by
  cases s with
  | Line l => exact line_eval_commutes A l t
  | Quad q => exact quad_eval_commutes A q t
  | Cubic c => exact cubic_eval_commutes A c t

/-- sub-segments commute with the map as well (so "transform then split" = "split then transform") -/
theorem subsegment_commutes (A : Affine K) (t0 t1 : K) :
    (∀ l : Line K, (A * l).subsegment ⟨t0, t1⟩ = A * l.subsegment ⟨t0, t1⟩) ∧
    (∀ q : QuadBez K, (A * q).subsegment ⟨t0, t1⟩ = A * q.subsegment ⟨t0, t1⟩) ∧
    (∀ c : CubicBez K, (A * c).subsegment ⟨t0, t1⟩ = A * c.subsegment ⟨t0, t1⟩) := by
  refine ⟨fun l => ?_, fun q => ?_, fun c => ?_⟩ <;> kaff

end Kurbo

namespace Kurbo
section structural
/-! structure theorems: hold for every `Scalar` (also `Float`), no arithmetic law is used -/
variable {K' : Type} [Scalar K']

theorem affine_mul_line (A : Affine K') (l : Line K') : A * l = ⟨A * l.p0, A * l.p1⟩ := rfl
theorem affine_mul_quad (A : Affine K') (q : QuadBez K') : A * q = ⟨A * q.p0, A * q.p1, A * q.p2⟩ := rfl
theorem affine_mul_cubic (A : Affine K') (c : CubicBez K') : A * c = ⟨A * c.p0, A * c.p1, A * c.p2, A * c.p3⟩ := rfl

/-- the kind of a segment is preserved and its control points are mapped one by one -/
theorem affine_mul_pathSeg (A : Affine K') :
    (∀ l : Line K', A * PathSeg.Line l = PathSeg.Line (A * l)) ∧
    (∀ q : QuadBez K', A * PathSeg.Quad q = PathSeg.Quad (A * q)) ∧
    (∀ c : CubicBez K', A * PathSeg.Cubic c = PathSeg.Cubic (A * c)) := ⟨fun _ => rfl, fun _ => rfl, fun _ => rfl⟩

/-- the kind of a path element is preserved and its points are mapped one by one -/
theorem affine_mul_pathEl (A : Affine K') :
    (∀ p : Point K', A * PathEl.MoveTo p = PathEl.MoveTo (A * p)) ∧
    (∀ p : Point K', A * PathEl.LineTo p = PathEl.LineTo (A * p)) ∧
    (∀ p1 p2 : Point K', A * PathEl.QuadTo p1 p2 = PathEl.QuadTo (A * p1) (A * p2)) ∧
    (∀ p1 p2 p3 : Point K', A * PathEl.CurveTo p1 p2 p3 = PathEl.CurveTo (A * p1) (A * p2) (A * p3)) ∧
    A * (PathEl.ClosePath : PathEl K') = PathEl.ClosePath :=
  ⟨fun _ => rfl, fun _ => rfl, fun _ _ => rfl, fun _ _ _ => rfl, rfl⟩

theorem pathSeg_start_end_commute (A : Affine K') (s : PathSeg K') :
    (A * s).start = A * s.start ∧ (A * s).end = A * s.end := by
  cases s <;> exact ⟨rfl, rfl⟩

theorem pathSeg_as_path_el_commutes (A : Affine K') (s : PathSeg K') : (A * s).as_path_el = A * s.as_path_el := by
  cases s <;> rfl

theorem pathEl_end_point_commutes (A : Affine K') (e : PathEl K') :
    (A * e).end_point = e.end_point.map (fun p : Point K' => A * p) := by
  cases e <;> rfl

end structural
end Kurbo

namespace Kurbo
variable {K : Type} [Field K] [LinearOrder K] [IsStrictOrderedRing K] [FloorRing K] [Scalar K] [LawfulScalar K]

/-! ### 7. a `TranslateScale` behaves exactly like the `Affine` it converts to -/

theorem ts_act_formula (T : TranslateScale K) (p : Point K) :
    T * p = ⟨T.scale * p.x + T.translation.x, T.scale * p.y + T.translation.y⟩ := by kaff
theorem ts_to_affine_act (T : TranslateScale K) (p : Point K) : T.to_affine * p = T * p := by kaff
theorem ts_mul_to_affine (S T : TranslateScale K) : (S * T).to_affine = S.to_affine * T.to_affine := by kaff
theorem ts_mul_action (S T : TranslateScale K) (p : Point K) : (S * T) * p = S * (T * p) := by kaff
theorem ts_to_affine_det (T : TranslateScale K) : T.to_affine.determinant = T.scale * T.scale := by kaff
/-- `k * ts` (the scalar multiple, `impl Mul<TranslateScale> for f64`) converts to the scalar multiple of the affine map: every coefficient is scaled -/
theorem ts_scalar_mul_to_affine (k : K) (T : TranslateScale K) :
    (TranslateScale.scalar_mul k T).to_affine = Affine.scalar_mul k T.to_affine := by
  simp only [TranslateScale.scalar_mul, Affine.scalar_mul, TranslateScale.to_affine, kdefs, scalar_norm, Affine.mk.injEq]
  refine ⟨?_, ?_, ?_, ?_, ?_, ?_⟩ <;> ring

theorem ts_inverse_act (T : TranslateScale K) (h : T.scale ≠ 0) (p : Point K) :
    T * (T.inverse * p) = p ∧ T.inverse * (T * p) = p := by
  cases p
  constructor <;> kaff_unfold <;> (repeat' (refine And.intro ?_ ?_)) <;> field_simp <;> ring
theorem ts_inverse_to_affine (T : TranslateScale K) (h : T.scale ≠ 0) :
    T.inverse.to_affine = T.to_affine.inverse := by
  kaff_unfold; (repeat' (refine And.intro ?_ ?_)) <;> field_simp <;> ring
theorem ts_mul_inverse (T : TranslateScale K) (h : T.scale ≠ 0) :
    T * T.inverse = ⟨⟨0, 0⟩, 1⟩ ∧ T.inverse * T = ⟨⟨0, 0⟩, 1⟩ := by
  constructor <;> kaff_unfold <;> (repeat' (refine And.intro ?_ ?_)) <;> field_simp <;> ring

example : (TranslateScale.mk (⟨3, -2⟩ : Vec2 Rat) (-5/2)).scale ≠ 0 := by decide +kernel

theorem ts_mul_line (T : TranslateScale K) (l : Line K) : T.mul_Line l = T.to_affine * l := by kaff
theorem ts_mul_quad (T : TranslateScale K) (q : QuadBez K) : T.mul_QuadBez q = T.to_affine * q := by kaff
theorem ts_mul_cubic (T : TranslateScale K) (c : CubicBez K) : T.mul_CubicBez c = T.to_affine * c := by kaff

theorem ts_translate_to_affine (v : Vec2 K) : (TranslateScale.translate v).to_affine = Affine.translate v := by kaff
theorem ts_from_scale_about_to_affine (s : K) (c : Point K) :
    (TranslateScale.from_scale_about s c).to_affine = Affine.scale_about s c := by kaff
theorem ts_from_scale_about_fixes (s : K) (c : Point K) : TranslateScale.from_scale_about s c * c = c := by
  cases c; kaff
theorem ts_add_sub_vec2 (T : TranslateScale K) (v : Vec2 K) (p : Point K) :
    (T.add_Vec2 v).to_affine = T.to_affine.then_translate v ∧ (T.sub_Vec2 v).to_affine = T.to_affine.then_translate (-v) ∧
    T.add_Vec2 v * p = T * p + v ∧ T.sub_Vec2 v * p = T * p - v := by
  refine ⟨?_, ?_, ?_, ?_⟩ <;> kaff

theorem ts_mul_rect (T : TranslateScale K) (r : Rect K) : T.mul_Rect r = T.to_affine.transform_rect_bbox r := by
  simp only [TranslateScale.mul_Rect, Affine.transform_rect_bbox, Rect.from_points, Rect.abs, Rect.union,
    kdefs, scalar_norm, Rect.mk.injEq]
  push_cast
  have ex : ∀ a b : K, T.scale * a + 0 * b + T.translation.x = a * T.scale + T.translation.x := fun a b => by ring
  have ey : ∀ a b : K, 0 * a + T.scale * b + T.translation.y = b * T.scale + T.translation.y := fun a b => by ring
  simp only [ex, ey, min_self, max_self, and_self]

/-! ### 8. `transform_rect_bbox` encloses the image of the rectangle -/

/-- every point of the closed rectangle (corners in any order) is mapped into the closed box -/
theorem transform_rect_bbox_contains (A : Affine K) (r : Rect K) (p : Point K)
    (hx0 : min r.x0 r.x1 ≤ p.x) (hx1 : p.x ≤ max r.x0 r.x1) (hy0 : min r.y0 r.y1 ≤ p.y) (hy1 : p.y ≤ max r.y0 r.y1) :
    (A.transform_rect_bbox r).x0 ≤ (A * p).x ∧ (A * p).x ≤ (A.transform_rect_bbox r).x1 ∧
    (A.transform_rect_bbox r).y0 ≤ (A * p).y ∧ (A * p).y ≤ (A.transform_rect_bbox r).y1 := by
  simp only [Affine.transform_rect_bbox, Rect.from_points, Rect.abs, Rect.union, kdefs, scalar_norm]
  exact ⟨c12_min4_le_bilin _ _ _ _ _ _ _ _ _ hx0 hx1 hy0 hy1, c12_bilin_le_max4 _ _ _ _ _ _ _ _ _ hx0 hx1 hy0 hy1,
    c12_min4_le_bilin _ _ _ _ _ _ _ _ _ hx0 hx1 hy0 hy1, c12_bilin_le_max4 _ _ _ _ _ _ _ _ _ hx0 hx1 hy0 hy1⟩

example : min (3 : Rat) 1 ≤ 2 ∧ (2 : Rat) ≤ max 3 1 := by decide +kernel

/-- in particular the images of the four corners -/
theorem transform_rect_bbox_contains_corners (A : Affine K) (r : Rect K) (p : Point K)
    (hp : p = ⟨r.x0, r.y0⟩ ∨ p = ⟨r.x0, r.y1⟩ ∨ p = ⟨r.x1, r.y0⟩ ∨ p = ⟨r.x1, r.y1⟩) :
    (A.transform_rect_bbox r).x0 ≤ (A * p).x ∧ (A * p).x ≤ (A.transform_rect_bbox r).x1 ∧
    (A.transform_rect_bbox r).y0 ≤ (A * p).y ∧ (A * p).y ≤ (A.transform_rect_bbox r).y1 := by
  apply transform_rect_bbox_contains <;> rcases hp with h | h | h | h <;> subst h <;>
    first | exact min_le_left _ _ | exact min_le_right _ _ | exact le_max_left _ _ | exact le_max_right _ _

/-- the box is tight: each of its four sides passes through the image of a corner -/
theorem transform_rect_bbox_tight (A : Affine K) (r : Rect K) :
    let corners : List (Point K) := [⟨r.x0, r.y0⟩, ⟨r.x0, r.y1⟩, ⟨r.x1, r.y0⟩, ⟨r.x1, r.y1⟩]
    (∃ p ∈ corners, (A * p).x = (A.transform_rect_bbox r).x0) ∧ (∃ p ∈ corners, (A * p).x = (A.transform_rect_bbox r).x1) ∧
    (∃ p ∈ corners, (A * p).y = (A.transform_rect_bbox r).y0) ∧ (∃ p ∈ corners, (A * p).y = (A.transform_rect_bbox r).y1) := by
  intro corners
  simp only [Affine.transform_rect_bbox, Rect.from_points, Rect.abs, Rect.union, kdefs, scalar_norm]
  exact ⟨c12_min4_attained (fun p : Point K => A.c0 * p.x + A.c2 * p.y + A.c4) _ _ _ _,
    c12_max4_attained (fun p : Point K => A.c0 * p.x + A.c2 * p.y + A.c4) _ _ _ _,
    c12_min4_attained (fun p : Point K => A.c1 * p.x + A.c3 * p.y + A.c5) _ _ _ _,
    c12_max4_attained (fun p : Point K => A.c1 * p.x + A.c3 * p.y + A.c5) _ _ _ _⟩

/-- the result is a well-formed (non-negative) rectangle -/
theorem transform_rect_bbox_nonneg (A : Affine K) (r : Rect K) :
    (A.transform_rect_bbox r).x0 ≤ (A.transform_rect_bbox r).x1 ∧ (A.transform_rect_bbox r).y0 ≤ (A.transform_rect_bbox r).y1 := by
  obtain ⟨h1, h2, h3, h4⟩ := transform_rect_bbox_contains_corners A r ⟨r.x0, r.y0⟩ (Or.inl rfl)
  exact ⟨le_trans h1 h2, le_trans h3 h4⟩


/-- `TranslateScale * Rect` as a shape: every point of the closed rectangle is mapped into the closed image rectangle
    (any scale, also `≤ 0`; corners in any order) -/
theorem ts_mul_rect_contains (T : TranslateScale K) (r : Rect K) (p : Point K)
    (hx0 : min r.x0 r.x1 ≤ p.x) (hx1 : p.x ≤ max r.x0 r.x1) (hy0 : min r.y0 r.y1 ≤ p.y) (hy1 : p.y ≤ max r.y0 r.y1) :
    (T.mul_Rect r).x0 ≤ (T * p).x ∧ (T * p).x ≤ (T.mul_Rect r).x1 ∧
    (T.mul_Rect r).y0 ≤ (T * p).y ∧ (T * p).y ≤ (T.mul_Rect r).y1 := by
  rw [ts_mul_rect, ← ts_to_affine_act]
  exact transform_rect_bbox_contains _ r p hx0 hx1 hy0 hy1

/-- … and for `scale ≠ 0` nothing else is: the image rectangle is exactly the image of the rectangle -/
theorem ts_mul_rect_image (T : TranslateScale K) (h : T.scale ≠ 0) (r : Rect K) (p : Point K) :
    ((T.mul_Rect r).x0 ≤ (T * p).x ∧ (T * p).x ≤ (T.mul_Rect r).x1 ∧
      (T.mul_Rect r).y0 ≤ (T * p).y ∧ (T * p).y ≤ (T.mul_Rect r).y1) ↔
    (min r.x0 r.x1 ≤ p.x ∧ p.x ≤ max r.x0 r.x1 ∧ min r.y0 r.y1 ≤ p.y ∧ p.y ≤ max r.y0 r.y1) := by
  constructor
  · simp only [TranslateScale.mul_Rect, Rect.from_points, Rect.abs, kdefs, scalar_norm]
    rintro ⟨h1, h2, h3, h4⟩
    obtain ⟨a, b⟩ := c12_between_of_scaled _ _ _ _ _ h h1 h2
    obtain ⟨c, d⟩ := c12_between_of_scaled _ _ _ _ _ h h3 h4
    exact ⟨a, b, c, d⟩
  · rintro ⟨h1, h2, h3, h4⟩
    exact ts_mul_rect_contains T r p h1 h2 h3 h4

/-! ### paths: the segments of the transformed element list are the transformed segments (non-singular map)
    `segs` models `BezPath::segments().collect()` (`none` = the iterator panics).  For a *singular* map the statement
    fails in a harmless way: a `ClosePath` whose closing line collapses to a point no longer emits that zero-length
    line (see the `example` below), which is why `det ≠ 0` is assumed. -/

theorem path_segments_commute (A : Affine K) (h : A.determinant ≠ 0) (els : List (PathEl K)) :
    segs (els.map (fun e : PathEl K => A * e)) = (segs els).map (List.map (fun s : PathSeg K => A * s)) := by
  have key := segsIdxFrom_commutes A (affine_act_injective A h) els none 0
  have e0 : mapSegSt A (none : SegSt K) = none := rfl
  rw [e0] at key
  simp only [segs, segsIdx, key]
  cases segsIdxFrom none 0 els with
  | none => rfl
  | some l => simp only [Option.map_some, List.map_map]; rfl

/-- evaluating the `i`-th segment of the transformed path at `t` gives the transform of the original evaluation -/
theorem path_eval_commutes (A : Affine K) (h : A.determinant ≠ 0) (els : List (PathEl K)) (ss : List (PathSeg K))
    (hs : segs els = some ss) :
    ∃ ss', segs (els.map (fun e : PathEl K => A * e)) = some ss' ∧ ss'.length = ss.length ∧
      ∀ (i : Nat) (t : K) (h1 : i < ss'.length) (h2 : i < ss.length), (ss'[i]).eval t = A * (ss[i]).eval t := by
  refine ⟨ss.map (fun s : PathSeg K => A * s), ?_, List.length_map _, ?_⟩
  · rw [path_segments_commute A h, hs]; rfl
  · intro i t h1 h2
    rw [List.getElem_map, pathSeg_eval_commutes]

example : (Affine.scale (2 : Rat)).determinant ≠ 0 ∧
    segs [PathEl.MoveTo ⟨0, 0⟩, PathEl.LineTo ⟨(1 : Rat), 0⟩, PathEl.ClosePath]
      = some [PathSeg.Line ⟨⟨0, 0⟩, ⟨1, 0⟩⟩, PathSeg.Line ⟨⟨1, 0⟩, ⟨0, 0⟩⟩] := by decide +kernel
/-- the singular map `scale 0` loses the closing segment -/
example : let els := [PathEl.MoveTo ⟨0, 0⟩, PathEl.LineTo ⟨(1 : Rat), 0⟩, PathEl.ClosePath]
    segs (els.map (fun e : PathEl Rat => Affine.scale (0 : Rat) * e)) ≠ (segs els).map (List.map (fun s : PathSeg Rat => Affine.scale (0 : Rat) * s)) := by
  decide +kernel

end Kurbo
