import Proofs.Lemmas.C16AMain
/-! C16A – the geometry of `Arc::from_svg_arc` over ℝ (supplement to `Proofs/C16.lean`, `Proofs/C16B.lean`).

    Property text (C16), the clause treated here: "an elliptical arc command produces a curve from the current point to the
    stated end point with the requested sweep direction and large-arc choice".  `C16.lean`/`C16B.lean` show that the parser
    hands the current point, the end point, the radii, the rotation (in radians) and the two flags to `Arc.from_svg_arc`;
    this file is about what that function returns.

    Model: `Arc.from_svg_arc`, `SvgArc`, `SvgArc.is_straight_line`, `sampleEllipse`, `rotatePt`, `Arc` of
    `Kurbo/Shapes.lean`, exactly as they are (transcription of kurbo/src/svg.rs `Arc::from_svg_arc`).  The curve of an
    `Arc a` is `θ ↦ a.center + sampleEllipse a.radii a.x_rotation θ` for `θ` from `a.start_angle` to
    `a.start_angle + a.sweep_angle` (C10, C12S).

    Scalars: ℝ with ANY `Scalar ℝ` structure satisfying `LawfulScalar` (field operations, comparisons), `LawfulReal` (C15:
    `sqrt`, `sin`, `cos` are the real functions, `y.atan2(x) = arg (x + iy) ∈ (−π, π]`) and `LawfulRealAngle` (C11: `pi = π`,
    `a % b = a − b·trunc(a/b)`).  No new law class was needed: from `LawfulRealAngle.fmod_eq` the law "`x % 2π` differs from
    `x` by an integer multiple of `2π`, lies in `(−2π, 2π)` and has the sign of `x`" is PROVED (`SvgArcR.fmodR_two_pi_spec`
    in `Lemmas/C16AGeom.lean`).  The classes are inhabited by `realScalar` (example at the end), so no law is merely postulated.

    Notation (definitions in `Proofs/Lemmas/C16AStage.lean`, `C16AMain.lean`; `rf_explicit` below spells `rfR` out):
    * `pX arc, pY arc` – half the chord `(from − to)/2` turned by `−x_rotation` (F.6.5.1);
    * `rfR arc = pX²/rx² + pY²/ry²` – the `rf` of the code (F.6.6.2): `> 1` iff the radii are too small for the chord.

    PROVED, for every `SvgArc` over ℝ with `is_straight_line = false` (⇔ `|rx|, |ry| > 10⁻⁵` and `from ≠ to`:
    `is_straight_line_false_iff'`), every `x_rotation`, both flags, `a` = the returned arc:
     0. `from_svg_arc_none_iff` (any `Scalar K`): `none` exactly for straight lines.
     1. `svg_arc_start_point`: `a.center + sampleEllipse a.radii a.x_rotation a.start_angle = arc.from` (exact).
     2. `svg_arc_end_point`: `a.center + sampleEllipse a.radii a.x_rotation (a.start_angle + a.sweep_angle) = arc.to`.
     3. `svg_arc_radii`: `rf ≤ 1` ⇒ radii `(|rx|, |ry|)`; `rf > 1` ⇒ radii `(|rx|·√rf, |ry|·√rf)` with `√rf > 1`;
        `a.x_rotation = arc.x_rotation` (EQUAL, not only mod 2π: the code stores the unreduced angle and uses the reduced
        one only for `sin`/`cos`); the centre is the chord midpoint IFF `1 ≤ rf` (so in particular whenever the radii were
        scaled up).
     4. `svg_arc_sweep_direction`: sweep flag set ⇒ `0 < sweep_angle < 2π`; clear ⇒ `−2π < sweep_angle < 0`.  (Exact
        range: the `%` is the identity here because the difference of two `atan2` values is already in `(−2π, 2π)`; the
        value `0` cannot occur because `start_v ≠ end_v`; `±2π` cannot occur.)  `svg_arc_sweep_iff`: `0 ≤ sweep_angle`
        iff `0 < sweep_angle` iff the flag is set; `|sweep_angle| < 2π`.
     5. `svg_arc_large_arc`: for `rf < 1`: `π < |sweep_angle|` iff the large-arc flag is set, and `|sweep_angle| ≠ π`.
        `svg_arc_half_turn`: `|sweep_angle| = π` IFF `1 ≤ rf` IFF the centre is the chord midpoint – then BOTH values of
        the large-arc flag give a half turn (the two candidate arcs are the two halves of the same ellipse, the flag
        cannot distinguish them; the sweep flag still picks the side).  `svg_arc_large_arc_weak` (all cases):
        flag set ⇒ `π ≤ |sweep_angle|`, flag clear ⇒ `|sweep_angle| ≤ π`.

    NOT PROVED / not covered
    * Floating point: everything is over ℝ.  In `f64` the start/end points are hit only approximately, `rf` slightly above
      `1` by rounding makes `coe` a small non-zero number (through the `.abs()`), and for `rf` extremely close to 1 the
      choice in 5 is decided by rounding.  The oracle comparison of C16 covers `f64`.
    * The conversion of the `Arc` to cubic Béziers (`append_iter`, C10) and its use by the parser (C16) are other files;
      this file does not restate that the emitted cubics approximate the arc.
    * Inputs with `is_straight_line = true` (`from = to` or a radius `≤ 10⁻⁵` in absolute value): the function returns
      `none` and the parser emits a `LineTo` (C16); for `from = to` the SVG specification says to omit the segment, kurbo
      emits a zero-length `LineTo` – no point of the clause is violated.
    No input class was found where the model (hence, over ℝ, the crate) violates the clause. -/
set_option linter.unusedSectionVars false
namespace Kurbo
open Real SvgArcR

/-! ### 0. `none` exactly for straight lines (any scalar) -/

theorem from_svg_arc_none_iff {K : Type} [Scalar K] (arc : SvgArc K) :
    Arc.from_svg_arc arc = none ↔ arc.is_straight_line = true := by
  rw [from_svg_arc_stages]
  cases arc.is_straight_line <;> simp

section real
variable [Scalar ℝ] [LawfulScalar ℝ] [LawfulReal] [LawfulRealAngle]

/-- what `is_straight_line = false` means -/
theorem is_straight_line_false_iff' (arc : SvgArc ℝ) :
    arc.is_straight_line = false ↔ (1/100000 < |arc.radii.x| ∧ 1/100000 < |arc.radii.y| ∧ arc.from ≠ arc.to) :=
  is_straight_line_false_iff arc

/-- `rf`, spelled out in the fields of the `SvgArc` -/
theorem rf_explicit (arc : SvgArc ℝ) :
    rfR arc
      = (cos arc.x_rotation * ((arc.from.x - arc.to.x) * (1/2)) + sin arc.x_rotation * ((arc.from.y - arc.to.y) * (1/2))) ^ 2
          / arc.radii.x ^ 2
        + (-sin arc.x_rotation * ((arc.from.x - arc.to.x) * (1/2)) + cos arc.x_rotation * ((arc.from.y - arc.to.y) * (1/2))) ^ 2
          / arc.radii.y ^ 2 := by
  unfold rfR pX pY
  rw [abs_mul_abs_self, abs_mul_abs_self, pow_two, pow_two, pow_two, pow_two]

/-! ### 1, 2. start and end point -/

theorem svg_arc_start_point (arc : SvgArc ℝ) (a : Arc ℝ) (h : arc.is_straight_line = false)
    (ha : Arc.from_svg_arc arc = some a) :
    a.center + sampleEllipse a.radii a.x_rotation a.start_angle = arc.from :=
  start_point_real arc h a ha

theorem svg_arc_end_point (arc : SvgArc ℝ) (a : Arc ℝ) (h : arc.is_straight_line = false)
    (ha : Arc.from_svg_arc arc = some a) :
    a.center + sampleEllipse a.radii a.x_rotation (a.start_angle + a.sweep_angle) = arc.to :=
  end_point_real arc h a ha

/-! ### 3. radii, rotation, centre of the scaled-up case -/

theorem svg_arc_radii (arc : SvgArc ℝ) (a : Arc ℝ) (h : arc.is_straight_line = false)
    (ha : Arc.from_svg_arc arc = some a) :
    (rfR arc ≤ 1 → a.radii = ⟨|arc.radii.x|, |arc.radii.y|⟩) ∧
    (1 < rfR arc → a.radii = ⟨|arc.radii.x| * √(rfR arc), |arc.radii.y| * √(rfR arc)⟩ ∧ 1 < √(rfR arc)) ∧
    a.x_rotation = arc.x_rotation ∧
    (a.center = ⟨(arc.from.x + arc.to.x) * (1/2), (arc.from.y + arc.to.y) * (1/2)⟩ ↔ 1 ≤ rfR arc) := by
  refine ⟨?_, ?_, ?_, center_mid_iff arc h a ha⟩
  all_goals
    rw [from_svg_arc_real arc h] at ha
    have ha := (Option.some.inj ha).symm
    subst ha
  · intro hle
    simp only [radX, radY, scaleR, if_neg (not_lt.mpr hle), mul_one]
  · intro hlt
    refine ⟨by simp only [radX, radY, scaleR, if_pos hlt], ?_⟩
    rw [Real.lt_sqrt (by norm_num)]; linarith
  · rfl

/-! ### 4. sweep direction -/

theorem svg_arc_sweep_direction (arc : SvgArc ℝ) (a : Arc ℝ) (h : arc.is_straight_line = false)
    (ha : Arc.from_svg_arc arc = some a) :
    (arc.sweep = true → 0 < a.sweep_angle ∧ a.sweep_angle < 2 * π) ∧
    (arc.sweep = false → -(2 * π) < a.sweep_angle ∧ a.sweep_angle < 0) := by
  rw [from_svg_arc_real arc h] at ha
  obtain ⟨hrx, hry, hp, hle⟩ := svg_hyps arc h
  have ha := (Option.some.inj ha).symm
  subst ha
  constructor
  · intro hs; simp only [hs]; exact sweep_range_true hrx hry hp hle
  · intro hs; simp only [hs]; exact sweep_range_false hrx hry hp hle

theorem svg_arc_sweep_iff (arc : SvgArc ℝ) (a : Arc ℝ) (h : arc.is_straight_line = false)
    (ha : Arc.from_svg_arc arc = some a) :
    (0 ≤ a.sweep_angle ↔ arc.sweep = true) ∧ (0 < a.sweep_angle ↔ arc.sweep = true) ∧ |a.sweep_angle| < 2 * π := by
  obtain ⟨h1, h2⟩ := svg_arc_sweep_direction arc a h ha
  cases hs : arc.sweep
  · obtain ⟨r1, r2⟩ := h2 hs
    refine ⟨⟨fun h0 => absurd h0 (not_le.mpr r2), fun h0 => by cases h0⟩,
      ⟨fun h0 => absurd h0.le (not_le.mpr r2), fun h0 => by cases h0⟩, ?_⟩
    rw [abs_lt]; constructor <;> linarith
  · obtain ⟨r1, r2⟩ := h1 hs
    refine ⟨⟨fun _ => rfl, fun _ => r1.le⟩, ⟨fun _ => rfl, fun _ => r1⟩, ?_⟩
    rw [abs_lt]; constructor <;> linarith

/-! ### 5. large-arc choice -/

theorem svg_arc_large_arc (arc : SvgArc ℝ) (a : Arc ℝ) (h : arc.is_straight_line = false)
    (ha : Arc.from_svg_arc arc = some a) (hrf : rfR arc < 1) :
    (π < |a.sweep_angle| ↔ arc.large_arc = true) ∧ |a.sweep_angle| ≠ π := by
  rw [from_svg_arc_real arc h] at ha
  obtain ⟨hrx, hry, hp, -⟩ := svg_hyps arc h
  obtain ⟨h1, h2, -⟩ := (is_straight_line_false_iff arc).mp h
  have hlt := sumsq_lt arc (by linarith) (by linarith) hrf
  have ha := (Option.some.inj ha).symm
  subst ha
  obtain ⟨l1, l2⟩ := large_arc_strict (la := arc.large_arc) (sw := arc.sweep) hrx hry hp hlt
  cases hl : arc.large_arc
  · have := l2 hl
    simp only [hl] at this
    exact ⟨⟨fun h0 => absurd h0 (not_lt.mpr this.le), fun h0 => by cases h0⟩, this.ne⟩
  · have := l1 hl
    simp only [hl] at this
    exact ⟨⟨fun _ => rfl, fun _ => this⟩, this.ne'⟩

theorem svg_arc_half_turn (arc : SvgArc ℝ) (a : Arc ℝ) (h : arc.is_straight_line = false)
    (ha : Arc.from_svg_arc arc = some a) :
    (|a.sweep_angle| = π ↔ 1 ≤ rfR arc) ∧
    (|a.sweep_angle| = π ↔ a.center = ⟨(arc.from.x + arc.to.x) * (1/2), (arc.from.y + arc.to.y) * (1/2)⟩) := by
  have hmain : |a.sweep_angle| = π ↔ 1 ≤ rfR arc := by
    constructor
    · intro he
      by_contra hlt
      exact (svg_arc_large_arc arc a h ha (not_le.mp hlt)).2 he
    · intro hge
      rw [from_svg_arc_real arc h] at ha
      obtain ⟨hrx, hry, hp, -⟩ := svg_hyps arc h
      obtain ⟨h1, h2, -⟩ := (is_straight_line_false_iff arc).mp h
      have heq := sumsq_eq arc (by linarith) (by linarith) hge
      have ha := (Option.some.inj ha).symm
      subst ha
      exact half_turn hrx hry hp heq
  exact ⟨hmain, hmain.trans (center_mid_iff arc h a ha).symm⟩

theorem svg_arc_large_arc_weak (arc : SvgArc ℝ) (a : Arc ℝ) (h : arc.is_straight_line = false)
    (ha : Arc.from_svg_arc arc = some a) :
    (arc.large_arc = true → π ≤ |a.sweep_angle|) ∧ (arc.large_arc = false → |a.sweep_angle| ≤ π) := by
  rcases lt_or_ge (rfR arc) 1 with hrf | hrf
  · obtain ⟨l1, -⟩ := svg_arc_large_arc arc a h ha hrf
    constructor
    · intro hl; exact (l1.mpr hl).le
    · intro hl; by_contra hc
      have := l1.mp (not_le.mp hc); rw [hl] at this; cases this
  · have := (svg_arc_half_turn arc a h ha).1.mpr hrf
    exact ⟨fun _ => this.ge, fun _ => this.le⟩

/-! ### non-vacuity -/

/-! `exFit`: `(0,0) → (2,0)`, radii `(1,1)` (`rf = 1`); `exBig`: radii `(2,−2)`, large arc, negative direction (`rf = 1/4`);
    `exSmall`: radii `(1/2,1/2)` (`rf = 4`) – definitions in `Lemmas/C16AMain.lean`. -/

example : exFit.is_straight_line = false := by
  rw [is_straight_line_false_iff]; refine ⟨?_, ?_, ?_⟩ <;> norm_num [exFit]
example : exBig.is_straight_line = false := by
  rw [is_straight_line_false_iff]; refine ⟨?_, ?_, ?_⟩ <;> norm_num [exBig]
example : exSmall.is_straight_line = false := by
  rw [is_straight_line_false_iff]; refine ⟨?_, ?_, ?_⟩ <;> norm_num [exSmall]

example : rfR exFit = 1 := by norm_num [rfR, pX, pY, exFit]
example : rfR exBig = 1/4 := by norm_num [rfR, pX, pY, exBig]
example : rfR exSmall = 4 := by norm_num [rfR, pX, pY, exSmall]

/-- the result for `exFit`: centre `(1,0)`, radii `(1,1)`, a positive half turn from `(0,0)` to `(2,0)` -/
example : ∃ a, Arc.from_svg_arc exFit = some a ∧ a.center = ⟨1, 0⟩ ∧ a.radii = ⟨1, 1⟩ ∧ a.sweep_angle = π ∧
    a.center + sampleEllipse a.radii a.x_rotation a.start_angle = ⟨0, 0⟩ ∧
    a.center + sampleEllipse a.radii a.x_rotation (a.start_angle + a.sweep_angle) = ⟨2, 0⟩ := by
  have h : exFit.is_straight_line = false := by
    rw [is_straight_line_false_iff]; refine ⟨?_, ?_, ?_⟩ <;> norm_num [exFit]
  have hrf : rfR exFit = 1 := by norm_num [rfR, pX, pY, exFit]
  refine ⟨_, from_svg_arc_real exFit h, ?_⟩
  have ha := from_svg_arc_real exFit h
  obtain ⟨r1, -, -, r4⟩ := svg_arc_radii exFit _ h ha
  obtain ⟨s1, -⟩ := svg_arc_sweep_direction exFit _ h ha
  have ht := (svg_arc_half_turn exFit _ h ha).1.mpr hrf.ge
  refine ⟨?_, ?_, ?_, svg_arc_start_point exFit _ h ha, svg_arc_end_point exFit _ h ha⟩
  · rw [r4.mpr hrf.ge]; norm_num [exFit]
  · rw [r1 hrf.le]; norm_num [exFit]
  · rw [← ht, abs_of_pos (s1 rfl).1]

/-- the result for `exBig`: radii `(2,2)` unchanged, large arc in the negative direction: `−2π < sweep < −π` -/
example : ∃ a, Arc.from_svg_arc exBig = some a ∧ a.radii = ⟨2, 2⟩ ∧ -(2 * π) < a.sweep_angle ∧ a.sweep_angle < -π := by
  have h : exBig.is_straight_line = false := by
    rw [is_straight_line_false_iff]; refine ⟨?_, ?_, ?_⟩ <;> norm_num [exBig]
  have hrf : rfR exBig < 1 := by norm_num [rfR, pX, pY, exBig]
  have ha := from_svg_arc_real exBig h
  refine ⟨_, ha, ?_⟩
  obtain ⟨r1, -⟩ := svg_arc_radii exBig _ h ha
  obtain ⟨-, s2⟩ := svg_arc_sweep_direction exBig _ h ha
  obtain ⟨l1, -⟩ := svg_arc_large_arc exBig _ h ha hrf
  have hl := l1.mpr rfl
  obtain ⟨s3, s4⟩ := s2 rfl
  rw [abs_of_neg s4] at hl
  refine ⟨?_, s3, by linarith⟩
  rw [r1 hrf.le]; norm_num [exBig]

/-- the result for `exSmall`: radii scaled up to `(1/2·√4, 1/2·√4)`, centre = chord midpoint `(1,0)` -/
example : ∃ a, Arc.from_svg_arc exSmall = some a ∧ a.radii = ⟨1/2 * √4, 1/2 * √4⟩ ∧ a.center = ⟨1, 0⟩ := by
  have h : exSmall.is_straight_line = false := by
    rw [is_straight_line_false_iff]; refine ⟨?_, ?_, ?_⟩ <;> norm_num [exSmall]
  have hrf : rfR exSmall = 4 := by norm_num [rfR, pX, pY, exSmall]
  have ha := from_svg_arc_real exSmall h
  refine ⟨_, ha, ?_⟩
  obtain ⟨-, r2, -, r4⟩ := svg_arc_radii exSmall _ h ha
  constructor
  · rw [(r2 (by rw [hrf]; norm_num)).1, hrf]; norm_num [exSmall]
  · rw [r4.mpr (by rw [hrf]; norm_num)]; norm_num [exSmall]

end real

/-- the law classes are inhabited: ℝ with the Mathlib functions -/
example : ∃ (_ : Scalar ℝ) (_ : LawfulScalar ℝ) (_ : LawfulReal), LawfulRealAngle :=
  ⟨realScalar, realScalar_lawful, realScalar_lawfulReal, realScalar_lawfulRealAngle⟩

end Kurbo
