import Kurbo.Kernel
/-! Hand-written model of the element/segment views of a path (bezpath.rs, svg.rs):
    `Segments::next`, `BezPath::get_seg`, `from_path_segments`, `reverse_subpaths`, `Segments::area`.
    Generic in the point type's scalar; the only scalar operation used is the equality test of `Point`
    (Rust `PartialEq` on two `f64`s).  Tied to the crate by the correspondence ops `path.*`. -/
namespace Kurbo
open Ops
variable {K : Type} [Scalar K]

/-- `#[derive(PartialEq)]` on `Point` -/
def Point.peq (a b : Point K) : Bool := (a.x ==. b.x) && (a.y ==. b.y)

/-- `PathEl::end_point` -/
def PathEl.end_point : PathEl K → Option (Point K)
  | .MoveTo p => some p
  | .LineTo p => some p
  | .QuadTo _ p2 => some p2
  | .CurveTo _ _ p3 => some p3
  | .ClosePath => none

/-- State of the `Segments` iterator: `start_last` -/
abbrev SegSt (K : Type) := Option (Point K × Point K)

/-- One element consumed by `Segments::next`: the new state and the segment emitted while consuming it (if any).
    `none` = the iterator panics ("Can't start a segment on a ClosePath"). -/
def segStep (st : SegSt K) (el : PathEl K) : Option (SegSt K × Option (PathSeg K)) :=
  -- `get_or_insert_with`: the first element seen initialises (start, last) with its end point
  let init : Option (Point K × Point K) :=
    match st with
    | some sl => some sl
    | none => match el.end_point with
      | some p => some (p, p)
      | none => none
  match init with
  | none => none
  | some (start, last) =>
    match el with
    | .MoveTo p => some (some (p, p), none)
    | .LineTo p => some (some (start, p), some (.Line ⟨last, p⟩))
    | .QuadTo p1 p2 => some (some (start, p2), some (.Quad ⟨last, p1, p2⟩))
    | .CurveTo p1 p2 p3 => some (some (start, p3), some (.Cubic ⟨last, p1, p2, p3⟩))
    | .ClosePath =>
      if !(last.peq start) then some (some (start, start), some (.Line ⟨last, start⟩))
      else some (some (start, last), none)

/-- `segments(els)` with the index of the element that produced each segment; `none` = panic -/
def segsIdxFrom (st : SegSt K) (ix : Nat) : List (PathEl K) → Option (List (Nat × PathSeg K))
  | [] => some []
  | el :: rest =>
    match segStep st el with
    | none => none
    | some (st', out) =>
      match segsIdxFrom st' (ix + 1) rest with
      | none => none
      | some l => some (match out with | some s => (ix, s) :: l | none => l)

def segsIdx (els : List (PathEl K)) : Option (List (Nat × PathSeg K)) := segsIdxFrom none 0 els

/-- `segments(els).collect()` -/
def segs (els : List (PathEl K)) : Option (List (PathSeg K)) := (segsIdx els).map (·.map (·.2))

/-- the start point of the sub-path that element `ix` belongs to (closure `subpath_start` of `get_seg`) -/
def subpathStart (els : List (PathEl K)) (ix : Nat) : Option (Point K) :=
  (els.take ix).reverse.findSome? fun el => match el with | .MoveTo s => some s | _ => none

/-- `BezPath::get_seg` -/
def getSeg (els : List (PathEl K)) (ix : Nat) : Option (PathSeg K) :=
  if ix == 0 || ix ≥ els.length then none else
  match els[ix - 1]? with
  | none => none
  | some prev =>
    let last? : Option (Point K) := match prev with
      | .MoveTo p => some p
      | .LineTo p => some p
      | .QuadTo _ p2 => some p2
      | .CurveTo _ _ p3 => some p3
      | .ClosePath => subpathStart els ix
    match last? with
    | none => none
    | some last =>
      match els[ix]? with
      | some (.LineTo p) => some (.Line ⟨last, p⟩)
      | some (.QuadTo p1 p2) => some (.Quad ⟨last, p1, p2⟩)
      | some (.CurveTo p1 p2 p3) => some (.Cubic ⟨last, p1, p2, p3⟩)
      | some .ClosePath =>
        match subpathStart els ix with
        | some start => if !(start.peq last) then some (.Line ⟨last, start⟩) else none
        | none => none
      | _ => none

/-- `BezPath::from_path_segments` -/
def fromPathSegmentsAux (cur : Option (Point K)) : List (PathSeg K) → List (PathEl K)
  | [] => []
  | s :: rest =>
    let start := s.start
    let mv : List (PathEl K) := match cur with
      | some c => if start.peq c then [] else [.MoveTo start]
      | none => [.MoveTo start]
    mv ++ s.as_path_el :: fromPathSegmentsAux (some s.end) rest

def fromPathSegments (ss : List (PathSeg K)) : List (PathEl K) := fromPathSegmentsAux none ss

/-- `reverse_subpath(start_pt, els, reversed)`: the elements pushed.  `none` = panic (MoveTo/ClosePath inside). -/
def reverseSubpath (start_pt : Point K) (els : List (PathEl K)) : Option (List (PathEl K)) :=
  let end_pt := (els.getLast?.bind PathEl.end_point).getD start_pt
  -- iterate in reverse; for element ix the end point is that of element ix-1 (or start_pt)
  let rec go : List (PathEl K) → Option (List (PathEl K))
    -- argument: the reversed element list (last element first)
    | [] => some []
    | el :: before =>
      let ep : Option (Point K) := match before with
        | [] => some start_pt
        | prev :: _ => prev.end_point
      match ep, go before with
      | some ep, some rest =>
        match el with
        | .LineTo _ => some (.LineTo ep :: rest)
        | .QuadTo c0 _ => some (.QuadTo c0 ep :: rest)
        | .CurveTo c0 c1 _ => some (.CurveTo c1 c0 ep :: rest)
        | _ => none
      | _, _ => none
  match go els.reverse with
  | some l => some (.MoveTo end_pt :: l)
  | none => none

/-- loop state of `reverse_subpaths` -/
structure RevSt (K : Type) where
  start_ix : Nat
  start_pt : Point K
  reversed : List (PathEl K)
  pending_move : Bool

/-- `BezPath::reverse_subpaths`; `none` = panic -/
def reverseSubpaths (elements : List (PathEl K)) : Option (List (PathEl K)) :=
  let slice (a b : Nat) : List (PathEl K) := (elements.drop a).take (b - a)
  let step (acc : Option (RevSt K)) (ixel : Nat × PathEl K) : Option (RevSt K) :=
    match acc with
    | none => none
    | some st =>
      let (ix, el) := ixel
      match el with
      | .MoveTo pt =>
        let r1 := if st.pending_move then st.reversed ++ [.MoveTo st.start_pt] else st.reversed
        let r2 : Option (List (PathEl K)) :=
          if st.start_ix < ix then (reverseSubpath st.start_pt (slice st.start_ix ix)).map (r1 ++ ·) else some r1
        r2.map fun r => { start_ix := ix + 1, start_pt := pt, reversed := r, pending_move := true }
      | .ClosePath =>
        let r2 : Option (List (PathEl K)) :=
          if st.start_ix ≤ ix then (reverseSubpath st.start_pt (slice st.start_ix ix)).map (st.reversed ++ ·) else some st.reversed
        r2.map fun r => { st with start_ix := ix + 1, reversed := r ++ [.ClosePath], pending_move := false }
      | _ => some { st with pending_move := false }
  let init : RevSt K := { start_ix := 1, start_pt := ⟨0, 0⟩, reversed := [], pending_move := false }
  match (elements.zipIdx.map fun (el, ix) => (ix, el)).foldl step (some init) with
  | none => none
  | some st =>
    if st.start_ix < elements.length then
      (reverseSubpath st.start_pt (elements.drop st.start_ix)).map (st.reversed ++ ·)
    else if st.pending_move then some (st.reversed ++ [.MoveTo st.start_pt])
    else some st.reversed

/-- `Segments::area`: `map(signed_area).sum()` (f64 `Sum` folds from 0.0 on the left) -/
def pathArea (els : List (PathEl K)) : Option K :=
  (segs els).map fun ss => ss.foldl (fun acc s => acc + s.signed_area) (0 : K)

end Kurbo
