import Kurbo.Driver
import Kurbo.EllipsePerimeter
/-! protocol ops for `Ellipse::perimeter` (C11E): the full query through `Ellipse::new`, the same with the number of passes of
    the AGM loop (the crate side reads its work counter), and model-only ops for the private parts. -/
namespace Kurbo.Driver
open Kurbo Kurbo.Ops
variable {K : Type} [Scalar K] [Codec K]

def opsEllipsePerimeter (op : String) : Option (Rd String) :=
  match op with
  | "ellipse.perimeter_full" => some do
      let c : Point K ← pt; let r : Vec2 K ← vec; let rot : K ← num; let acc : K ← num
      return e ((Ellipse.new c r rot).perimeter acc)
  | "ellipse.perimeter_work" => some do
      -- value and number of passes of the AGM loop (0: the loop was not reached)
      let c : Point K ← pt; let r : Vec2 K ← vec; let rot : K ← num; let acc : K ← num
      let (v, n) := (Ellipse.new c r rot).perimeterFuel agmFuel acc
      return s!"{e v} {n}"
  | "ellipse.kummer" => some do
      -- `kummer_elliptic_perimeter` and `kummer_elliptic_perimeter_range` (private in the crate: model-only op)
      let r : Vec2 K ← vec
      return s!"{e (kummerEllipticPerimeter r)} {e (kummerEllipticPerimeterRange r)}"
  | "ellipse.agm" => some do
      -- `agm_elliptic_perimeter accuracy radii` (private in the crate: model-only op): value and number of passes
      let acc : K ← num; let r : Vec2 K ← vec
      let (v, n) := agmEllipticPerimeterFuel agmFuel acc r
      return s!"{e v} {n}"
  | "ellipse.radii" => some do
      -- the radii that `perimeter` works with (`Ellipse::new(..).radii()`)
      let c : Point K ← pt; let r : Vec2 K ← vec; let rot : K ← num
      let rr := (Ellipse.new c r rot).radii
      return s!"{e rr.x} {e rr.y}"
  | _ => none

end Kurbo.Driver
