import Kurbo.Driver
import Kurbo.Quads
/-! protocol ops for cubic→quadratic conversion and nearest (C17, C09) -/
namespace Kurbo.Driver
open Kurbo Kurbo.Ops
variable {K : Type} [Scalar K] [Codec K]

def ePts (l : List (Point K)) : String := s!"{l.length}" ++ String.join (l.map fun p => " " ++ ePt p)

def rdCubics : Nat → Rd (List (CubicBez K))
  | 0 => pure []
  | k + 1 => do let c ← cubic; let r ← rdCubics k; pure (c :: r)
def rdPts : Nat → Rd (List (Point K))
  | 0 => pure []
  | k + 1 => do let c ← pt; let r ← rdPts k; pure (c :: r)

def opsQuads (op : String) : Option (Rd String) :=
  match op with
  | "cubic.to_quads" => some do
      let c : CubicBez K ← cubic; let acc : K ← num
      let l := c.to_quads acc
      return s!"{l.length}" ++ String.join (l.map fun (t0, t1, q) => s!" | {e t0} {e t1} {eQuad q}")
  | "cubic.approx_spline" => some do
      let c : CubicBez K ← cubic; let acc : K ← num
      match c.approx_spline acc with
      | none => return "none"
      | some pts => return ePts pts
  | "cubics.to_splines" => some do
      let acc : K ← num; let n ← nat
      let cs : List (CubicBez K) ← rdCubics n
      match cubicsToQuadraticSplines cs acc with
      | none => return "none"
      | some sps => return " | ".intercalate (sps.map ePts)
  | "spline.to_quads" => some do
      let n ← nat
      let pts : List (Point K) ← rdPts n
      let qs := quadSplineToQuads pts
      return s!"{qs.length}" ++ String.join (qs.map fun q => " | " ++ eQuad q)
  | "seg.nearest" => some do
      let s : PathSeg K ← seg; let p : Point K ← pt; let acc : K ← num
      let n := s.nearest p acc
      return s!"{e n.t} {e n.distance_sq}"
  | _ => none

end Kurbo.Driver
