import Kurbo.Quads
import Kurbo.Path
import Kurbo.GLTables
/-! Hand-written model of arc length and its inverse (quadbez.rs, cubicbez.rs, param_curve.rs, bezpath.rs): C03. -/
namespace Kurbo
open Ops
variable {K : Type} [Scalar K]

/-- `impl ParamCurveArclen for QuadBez` (after the repair of `sabc`) -/
def QuadBez.arclen (self : QuadBez K) (_accuracy : K) : K :=
  let d2 := self.p0.to_vec2 - (2 : K) * self.p1.to_vec2 + self.p2.to_vec2
  let a := d2.hypot2
  let d1 := self.p1 - self.p0
  let c := d1.hypot2
  if a <=. (Scalar.ofRat (5/10000) : K) * c then
    let v0 := ((-(Scalar.ofRat (492943519233745/1000000000000000) : K)) * self.p0.to_vec2
        + (Scalar.ofRat (430331482911935/1000000000000000) : K) * self.p1.to_vec2
        + (Scalar.ofRat (626120363218102/10000000000000000) : K) * self.p2.to_vec2).hypot
    let v1 := ((self.p2 - self.p0) * (Scalar.ofRat (4444444444444444/10000000000000000) : K)).hypot
    let v2 := ((-(Scalar.ofRat (626120363218102/10000000000000000) : K)) * self.p0.to_vec2
        - (Scalar.ofRat (430331482911935/1000000000000000) : K) * self.p1.to_vec2
        + (Scalar.ofRat (492943519233745/1000000000000000) : K) * self.p2.to_vec2).hypot
    v0 + v1 + v2
  else
    let b := (2 : K) * d2.dot d1
    let sabc := (self.p2 - self.p1).hypot
    let a2 := Scalar.powf a (-(Scalar.ofRat (1/2) : K))
    let a32 := spowi a2 3
    let c2 := (2 : K) * Scalar.sqrt c
    let ba_c2 := b * a2 + c2
    let v0 := (Scalar.ofRat (1/4) : K) * a2 * a2 * b * ((2 : K) * sabc - c2) + sabc
    if ba_c2 <=. (Scalar.ofRat (1/10000000000000) : K) * c2 then v0
    else v0 + (Scalar.ofRat (1/4) : K) * a32 * ((4 : K) * c * a - b * b) * Scalar.ln ((((2 : K) * a + b) * a2 + (2 : K) * sabc) / ba_c2)

/-- `arclen_quadrature_core` -/
def arclenQuadratureCore (coeffs : List (Rat × Rat)) (dm dm1 dm2 : Vec2 K) : K :=
  coeffs.foldl (fun acc wx =>
    let wi : K := Scalar.ofRat wx.1
    let xi : K := Scalar.ofRat wx.2
    let d := dm + dm2 * (xi * xi)
    let dpx := (d + dm1 * xi).hypot
    let dmx := (d - dm1 * xi).hypot
    acc + (Scalar.sqrt (Scalar.ofRat (9/4) : K) * wi) * (dpx + dmx)) (0 : K)

/-- the quantities `arclen_rec` computes before deciding: `(dm, dm1, dm2, est, lp_lc)` -/
def arclenEst (c : CubicBez K) : Vec2 K × Vec2 K × Vec2 K × K × K :=
  let d03 := c.p3 - c.p0
  let d01 := c.p1 - c.p0
  let d12 := c.p2 - c.p1
  let d23 := c.p3 - c.p2
  let lp_lc := d01.hypot + d12.hypot + d23.hypot - d03.hypot
  let dd1 := d12 - d01
  let dd2 := d23 - d12
  let dm := (Scalar.ofRat (1/4) : K) * (d01 + d23) + (Scalar.ofRat (1/2) : K) * d12
  let dm1 := (Scalar.ofRat (1/2) : K) * (dd2 + dd1)
  let dm2 := (Scalar.ofRat (1/4) : K) * (dd2 - dd1)
  let est := gl8.foldl (fun acc wx =>
    let wi : K := Scalar.ofRat wx.1
    let xi : K := Scalar.ofRat wx.2
    let d_norm2 := (dm + dm1 * xi + dm2 * (xi * xi)).hypot2
    let dd_norm2 := (dm1 + dm2 * ((2 : K) * xi)).hypot2
    acc + wi * (dd_norm2 / d_norm2)) (0 : K)
  (dm, dm1, dm2, est, lp_lc)

/-- `arclen_rec` with explicit fuel = remaining depth (the crate stops subdividing at depth 20) -/
def arclenRec : Nat → CubicBez K → K → K
  | fuel, c, accuracy =>
    let (dm, dm1, dm2, est, lp_lc) := arclenEst c
    let est_gauss8_error := smin (spowi est 3 * (Scalar.ofRat (25/10000000) : K)) (Scalar.ofRat (3/100) : K) * lp_lc
    let est_gauss16_error := smin (spowi est 6 * (Scalar.ofRat (15/1000000000000) : K)) (Scalar.ofRat (9/1000) : K) * lp_lc
    let est_gauss24_error := smin (spowi est 9 * (Scalar.ofRat (35/100000000000000000) : K)) (Scalar.ofRat (35/10000) : K) * lp_lc
    if est_gauss8_error <. accuracy then arclenQuadratureCore gl8Half dm dm1 dm2
    else if est_gauss16_error <. accuracy then arclenQuadratureCore gl16Half dm dm1 dm2
    else
      match fuel with
      | 0 => arclenQuadratureCore gl24Half dm dm1 dm2            -- `depth >= 20`
      | fuel' + 1 =>
        if est_gauss24_error <. accuracy then arclenQuadratureCore gl24Half dm dm1 dm2
        else
          arclenRec fuel' c.subdivide.1 (accuracy * (Scalar.ofRat (1/2) : K)) + arclenRec fuel' c.subdivide.2 (accuracy * (Scalar.ofRat (1/2) : K))

/-- `impl ParamCurveArclen for CubicBez` -/
def CubicBez.arclen (self : CubicBez K) (accuracy : K) : K := arclenRec 20 self accuracy

/-- cost model: the number of `arclen_rec` activations (= ticks of the work counter at the head of `arclen_rec` under
    `--cfg kurbo_verif`); same branch structure as `arclenRec` -/
def arclenRecCalls : Nat → CubicBez K → K → Nat
  | fuel, c, accuracy =>
    let (_, _, _, est, lp_lc) := arclenEst c
    let est_gauss8_error := smin (spowi est 3 * (Scalar.ofRat (25/10000000) : K)) (Scalar.ofRat (3/100) : K) * lp_lc
    let est_gauss16_error := smin (spowi est 6 * (Scalar.ofRat (15/1000000000000) : K)) (Scalar.ofRat (9/1000) : K) * lp_lc
    let est_gauss24_error := smin (spowi est 9 * (Scalar.ofRat (35/100000000000000000) : K)) (Scalar.ofRat (35/10000) : K) * lp_lc
    if est_gauss8_error <. accuracy then 1
    else if est_gauss16_error <. accuracy then 1
    else
      match fuel with
      | 0 => 1
      | fuel' + 1 =>
        if est_gauss24_error <. accuracy then 1
        else
          1 + arclenRecCalls fuel' c.subdivide.1 (accuracy * (Scalar.ofRat (1/2) : K)) + arclenRecCalls fuel' c.subdivide.2 (accuracy * (Scalar.ofRat (1/2) : K))

def CubicBez.arclenCalls (self : CubicBez K) (accuracy : K) : Nat := arclenRecCalls 20 self accuracy

def PathSeg.arclen (s : PathSeg K) (accuracy : K) : K :=
  match s with
  | .Line l => l.arclen accuracy
  | .Quad q => q.arclen accuracy
  | .Cubic c => c.arclen accuracy

/-- `Segments::perimeter` -/
def pathPerimeter (els : List (PathEl K)) (accuracy : K) : Option K :=
  (segs els).map fun ss => ss.foldl (fun acc s => acc + s.arclen accuracy) (0 : K)

/-! ### inverse arc length: the default `inv_arclen` drives `solve_itp` with a closure that remembers the last evaluation -/

/-- state of the closure `f` of `inv_arclen`: `(t_last, arclen_last)` -/
structure InvSt (K : Type) where
  t_last : K
  arclen_last : K

/-- the closure `f` -/
def invArclenF (s : PathSeg K) (arclen inner_accuracy : K) (st : InvSt K) (t : K) : InvSt K × K :=
  let (range, dir) : Range K × K := if st.t_last <. t then (⟨st.t_last, t⟩, (1 : K)) else (⟨t, st.t_last⟩, (-(1 : K)))
  let arc := (s.subsegment range).arclen inner_accuracy
  let al := st.arclen_last + arc * dir
  ({ t_last := t, arclen_last := al }, al - arclen)

/-- `solve_itp` driven by a state-passing function (same arithmetic as `itpStep` / `itpLoop` in Solve.lean) -/
def itpLoopS {σ : Type} (f : σ → K → σ × K) (epsilon k1 : K) : Nat → σ → ItpSt K → K
  | 0, _, st => (Scalar.ofRat (1/2) : K) * (st.a + st.b)
  | fuel + 1, fs, st =>
    if (2 : K) * epsilon <. st.b - st.a then
      let a := st.a
      let b := st.b
      let x1_2 := (Scalar.ofRat (1/2) : K) * (a + b)
      let r := st.scaled_epsilon - (Scalar.ofRat (1/2) : K) * (b - a)
      let xf := (st.yb * a - st.ya * b) / (st.yb - st.ya)
      let sigma := x1_2 - xf
      let delta := k1 * spowi (b - a) 2
      let xt := if delta <=. sabs (x1_2 - xf) then xf + Scalar.copysign delta sigma else x1_2
      let xitp := if sabs (xt - x1_2) <=. r then xt else x1_2 - Scalar.copysign r sigma
      let (fs', yitp) := f fs xitp
      if (0 : K) <. yitp then itpLoopS f epsilon k1 fuel fs' { st with b := xitp, yb := yitp, scaled_epsilon := st.scaled_epsilon * (Scalar.ofRat (1/2) : K) }
      else if yitp <. (0 : K) then itpLoopS f epsilon k1 fuel fs' { st with a := xitp, ya := yitp, scaled_epsilon := st.scaled_epsilon * (Scalar.ofRat (1/2) : K) }
      else xitp
    else (Scalar.ofRat (1/2) : K) * (st.a + st.b)

/-- `ParamCurveArclen::inv_arclen` (default method, used by QuadBez, CubicBez) -/
def invArclenDefault (s : PathSeg K) (arclen accuracy : K) : K :=
  if arclen <=. (0 : K) then (0 : K) else
  let total_arclen := s.arclen accuracy
  if total_arclen <=. arclen then (1 : K) else
  let epsilon := accuracy / total_arclen
  let n := (1 : K) - smin (Scalar.ceil (Scalar.log2 epsilon)) (0 : K)
  let inner_accuracy := accuracy / n
  -- solve_itp(f, 0, 1, epsilon, 1, 0.2, -arclen, total_arclen - arclen)
  let n1_2 := Scalar.toUSize (smax (Scalar.ceil (Scalar.log2 (((1 : K) - (0 : K)) / epsilon)) - (1 : K)) (0 : K))
  let nmax := 1 + n1_2
  let scaled_epsilon := epsilon * (Scalar.ofRat ((2 ^ nmax : Nat) : Rat) : K)
  itpLoopS (invArclenF s arclen inner_accuracy) epsilon (Scalar.ofRat (2/10) : K) (nmax + 64)
    { t_last := (0 : K), arclen_last := (0 : K) }
    { a := (0 : K), b := (1 : K), ya := -arclen, yb := total_arclen - arclen, scaled_epsilon := scaled_epsilon }

def PathSeg.inv_arclen (s : PathSeg K) (arclen accuracy : K) : K :=
  match s with
  | .Line l => l.inv_arclen arclen accuracy
  | _ => invArclenDefault s arclen accuracy

end Kurbo
