import Kurbo.Path
/-! Hand-written model of the `BezPath` constructors and mutators (bezpath.rs 176–362, 495–499): the path as a STATE
    (`BezPath(Vec<PathEl>)` = `List (PathEl K)`) and every `&mut self` method as a function returning the new state.

The crate is observed with debug assertions ON (the harness profile sets `debug-assertions = true`), so the `debug_assert!`s are
part of the behaviour and are modelled as a `panic` outcome carrying the assertion message:
* `from_vec(v)`:  `debug_assert!(v.is_empty() || matches!(v.first(), Some(MoveTo(_))), "BezPath must begin with MoveTo")`
* `push(el)`:     the element is pushed FIRST, then `debug_assert!(matches!(self.0.first(), Some(MoveTo(_))), "BezPath must begin with MoveTo")`
* `line_to` / `quad_to` / `curve_to` / `close_path`: `debug_assert!(!self.0.is_empty(), "uninitialized subpath (missing MoveTo)")`, then `push`
* `move_to` = `push(MoveTo(p))`; `pop`, `truncate`, `extend` (`impl Extend<PathEl>`), `apply_affine`, `with_capacity`, `new`: no assertion.
A panic ends the history (the value is lost with the unwinding).  Tied to the crate by the op `path.mut` (C07, tag C07M). -/
namespace Kurbo
open Ops
variable {K : Type} [Scalar K]

inductive PanicMsg where
  /-- "BezPath must begin with MoveTo" (`from_vec`, `push`) -/
  | mustBeginWithMoveTo
  /-- "uninitialized subpath (missing MoveTo)" (`line_to`, `quad_to`, `curve_to`, `close_path`) -/
  | uninitializedSubpath
  deriving DecidableEq, Repr

/-- outcome of a method that may hit a `debug_assert!` -/
inductive MutRes (α : Type) where
  | ok (a : α)
  | panic (m : PanicMsg)
  deriving DecidableEq, Repr

/-- the state of a `BezPath` -/
abbrev BezPath (K : Type) := List (PathEl K)

namespace BezPath

/-- `matches!(v.first(), Some(PathEl::MoveTo(_)))` -/
def firstIsMoveTo : BezPath K → Bool
  | .MoveTo _ :: _ => true
  | _ => false

/-- `BezPath::new()` = `BezPath::default()` -/
def new : BezPath K := []

/-- `BezPath::with_capacity(capacity)`: the capacity is not observable -/
def with_capacity (_capacity : Nat) : BezPath K := []

/-- `BezPath::from_vec(v)` -/
def from_vec (v : List (PathEl K)) : MutRes (BezPath K) :=
  if v.isEmpty || firstIsMoveTo v then .ok v else .panic .mustBeginWithMoveTo

/-- `pop(&mut self) -> Option<PathEl>` (`Vec::pop`): the returned element and the new state -/
def pop (self : BezPath K) : Option (PathEl K) × BezPath K := (self.getLast?, self.dropLast)

/-- `push(&mut self, el)`: `self.0.push(el)`, then the assertion on the NEW vector -/
def push (self : BezPath K) (el : PathEl K) : MutRes (BezPath K) :=
  let v := self ++ [el]
  if firstIsMoveTo v then .ok v else .panic .mustBeginWithMoveTo

/-- `move_to(p)` -/
def move_to (self : BezPath K) (p : Point K) : MutRes (BezPath K) := self.push (.MoveTo p)

/-- `line_to(p)` -/
def line_to (self : BezPath K) (p : Point K) : MutRes (BezPath K) :=
  if self.isEmpty then .panic .uninitializedSubpath else self.push (.LineTo p)

/-- `quad_to(p1, p2)` -/
def quad_to (self : BezPath K) (p1 p2 : Point K) : MutRes (BezPath K) :=
  if self.isEmpty then .panic .uninitializedSubpath else self.push (.QuadTo p1 p2)

/-- `curve_to(p1, p2, p3)` -/
def curve_to (self : BezPath K) (p1 p2 p3 : Point K) : MutRes (BezPath K) :=
  if self.isEmpty then .panic .uninitializedSubpath else self.push (.CurveTo p1 p2 p3)

/-- `close_path()` -/
def close_path (self : BezPath K) : MutRes (BezPath K) :=
  if self.isEmpty then .panic .uninitializedSubpath else self.push .ClosePath

/-- `truncate(len)` (`Vec::truncate`: no effect if `len ≥ self.len()`) -/
def truncate (self : BezPath K) (len : Nat) : BezPath K := self.take len

/-- `impl Extend<PathEl> for BezPath`: `self.0.extend(iter)` – no assertion -/
def extend (self : BezPath K) (iter : List (PathEl K)) : BezPath K := self ++ iter

/-- `apply_affine(affine)`: `*el = affine * (*el)` for every element -/
def apply_affine (self : BezPath K) (affine : Affine K) : BezPath K := self.map (fun el => affine * el)

/-- `elements(&self) -> &[PathEl]` -/
def elements (self : BezPath K) : List (PathEl K) := self

/-- `iter(&self)`: `self.0.iter().copied()`, collected -/
def iter (self : BezPath K) : List (PathEl K) := self

/-- `is_empty(&self)`: "contains no segments" – every element is a `MoveTo` or a `ClosePath` (NOT `self.0.is_empty()`) -/
def is_empty (self : BezPath K) : Bool :=
  self.all fun el => match el with | .MoveTo _ => true | .ClosePath => true | _ => false

/-- `segments(&self)` collected (`none` = the iterator panics: "Can't start a segment on a ClosePath") -/
def segments (self : BezPath K) : Option (List (PathSeg K)) := segs self

/-- `get_seg(&self, ix)` -/
def get_seg (self : BezPath K) (ix : Nat) : Option (PathSeg K) := getSeg self ix

end BezPath

/-- one step of a builder history -/
inductive MutOp (K : Type) where
  | new
  | with_capacity (n : Nat)
  | from_vec (v : List (PathEl K))
  | push (el : PathEl K)
  | pop
  | truncate (n : Nat)
  | extend (els : List (PathEl K))
  | move_to (p : Point K)
  | line_to (p : Point K)
  | quad_to (p1 p2 : Point K)
  | curve_to (p1 p2 p3 : Point K)
  | close_path
  | apply_affine (a : Affine K)

/-- the step: new state and, for `pop`, the value returned -/
def mutStep (self : BezPath K) : MutOp K → MutRes (BezPath K × Option (Option (PathEl K)))
  | .new => .ok (BezPath.new, none)
  | .with_capacity n => .ok (BezPath.with_capacity n, none)
  | .from_vec v => match BezPath.from_vec v with | .ok p => .ok (p, none) | .panic m => .panic m
  | .push el => match self.push el with | .ok p => .ok (p, none) | .panic m => .panic m
  | .pop => let (r, p) := self.pop; .ok (p, some r)
  | .truncate n => .ok (self.truncate n, none)
  | .extend els => .ok (self.extend els, none)
  | .move_to p => match self.move_to p with | .ok p => .ok (p, none) | .panic m => .panic m
  | .line_to p => match self.line_to p with | .ok p => .ok (p, none) | .panic m => .panic m
  | .quad_to p1 p2 => match self.quad_to p1 p2 with | .ok p => .ok (p, none) | .panic m => .panic m
  | .curve_to p1 p2 p3 => match self.curve_to p1 p2 p3 with | .ok p => .ok (p, none) | .panic m => .panic m
  | .close_path => match self.close_path with | .ok p => .ok (p, none) | .panic m => .panic m
  | .apply_affine a => .ok (self.apply_affine a, none)

/-- a history: the final state and the values returned by the `pop`s, in order; the first panic ends it -/
def mutRun (self : BezPath K) : List (MutOp K) → MutRes (BezPath K × List (Option (PathEl K)))
  | [] => .ok (self, [])
  | op :: ops =>
    match mutStep self op with
    | .panic m => .panic m
    | .ok (p, out) =>
      match mutRun p ops with
      | .panic m => .panic m
      | .ok (q, outs) => .ok (q, (match out with | some r => [r] | none => []) ++ outs)

end Kurbo
