import Kurbo.Shapes
/-! Hand-written model of the SVG path parser and writer (svg.rs): `SvgLexer`, `BezPath::from_svg`, `BezPath::write_to`.
    Total, monad-free functions with an explicit `panic` outcome (so that "no input makes the parser panic" is a theorem);
    loops terminate by well-founded recursion on the remaining bytes.  C16, C14. -/
namespace Kurbo
open Ops

structure Lx where
  data : ByteArray
  ix : Nat

inductive SvgErr where
  | wrong | unexpectedEof | unknownCommand (c : UInt8) | uninitializedPath
  deriving DecidableEq, Repr

/-- result of a lexer/parser function: value + new lexer, a kurbo error, or a Rust panic -/
inductive LR (α : Type) where
  | ok (a : α) (l : Lx)
  | err (e : SvgErr)
  | panic

def isWs (c : UInt8) : Bool := c == 32 || c == 9 || c == 10 || c == 12 || c == 13
def isDigit (c : UInt8) : Bool := 48 ≤ c && c ≤ 57
def isLower (c : UInt8) : Bool := 97 ≤ c && c ≤ 122
def isUpper (c : UInt8) : Bool := 65 ≤ c && c ≤ 90

/-- `get_byte` -/
def getByte (l : Lx) : Option (UInt8 × Lx) :=
  if h : l.ix < l.data.size then some (l.data[l.ix], { l with ix := l.ix + 1 }) else none

/-- `unget`: `self.ix -= 1` panics on underflow (debug) / wraps (release) – both count as panic here -/
def unget (l : Lx) : Option Lx := if l.ix = 0 then none else some { l with ix := l.ix - 1 }

theorem getByte_spec {l : Lx} {c : UInt8} {l' : Lx} (h : getByte l = some (c, l')) :
    l'.data = l.data ∧ l'.ix = l.ix + 1 ∧ l.ix < l.data.size := by
  unfold getByte at h
  split at h
  · simp only [Option.some.injEq, Prod.mk.injEq] at h
    obtain ⟨_, rfl⟩ := h
    exact ⟨rfl, rfl, by assumption⟩
  · simp at h

/-- `skip_ws` -/
def skipWs (l : Lx) : Lx :=
  if h : l.ix < l.data.size then
    if isWs l.data[l.ix] then skipWs { l with ix := l.ix + 1 } else l
  else l
termination_by l.data.size - l.ix

/-- the `while let Some(c) = self.get_byte()` loop of `get_number` (digits and at most one period) -/
def digitsLoop (l : Lx) (cnt : Nat) (seen : Bool) : LR Nat :=
  match h : getByte l with
  | none => .ok cnt l
  | some (c, l') =>
    if isDigit c then digitsLoop l' (cnt + 1) seen
    else if c == 46 && !seen then digitsLoop l' cnt true
    else match unget l' with
      | some l'' => .ok cnt l''
      | none => .panic
termination_by l.data.size - l.ix
decreasing_by
  all_goals
    obtain ⟨hd, hi, hlt⟩ := getByte_spec h
    rw [hd, hi]; omega

/-- exponent digits loop -/
def expDigits (l : Lx) : LR Unit :=
  match h : getByte l with
  | none => .ok () l
  | some (c, l') =>
    if !isDigit c then
      match unget l' with
      | some l'' => .ok () l''
      | none => .panic
    else expDigits l'
termination_by l.data.size - l.ix
decreasing_by
  obtain ⟨hd, hi, hlt⟩ := getByte_spec h
  rw [hd, hi]; omega

/-- exact value of a token `[+-]? digits [. digits] [e [+-] digits]` (what `str::parse::<f64>` rounds): sign, mantissa digits,
    decimal exponent -/
structure NumTok where
  neg : Bool
  mant : Nat
  exp10 : Int

def parseTok (tok : List UInt8) : NumTok :=
  let (neg, rest) : Bool × List UInt8 := match tok with
    | c :: r => if c == 45 then (true, r) else if c == 43 then (false, r) else (false, tok)
    | [] => (false, [])
  -- mantissa part up to e/E
  let mantPart := rest.takeWhile fun c => !(c == 101 || c == 69)
  let expPart := (rest.dropWhile fun c => !(c == 101 || c == 69)).drop 1
  let (mant, scale, _) : Nat × Int × Bool := mantPart.foldl (fun (acc : Nat × Int × Bool) c =>
      let (m, s, dot) := acc
      if isDigit c then (m * 10 + (c.toNat - 48), if dot then s - 1 else s, dot)
      else (m, s, true)) (0, 0, false)
  let (eneg, edigits) : Bool × List UInt8 := match expPart with
    | c :: r => if c == 45 then (true, r) else if c == 43 then (false, r) else (false, expPart)
    | [] => (false, [])
  let ev : Nat := edigits.foldl (fun acc c => if acc > 100000 then acc else acc * 10 + (c.toNat - 48)) 0
  { neg := neg, mant := mant, exp10 := scale + (if eneg then -(ev : Int) else (ev : Int)) }

/-- value of the token as an exact rational, exponents clamped to ±400 (beyond the f64 range either way) -/
def NumTok.toRat (t : NumTok) : Rat :=
  if t.mant == 0 then 0 else
  let digits := (Nat.toDigits 10 t.mant).length
  let r : Rat :=
    if t.exp10 + digits > 400 then ((10 ^ 400 : Nat) : Rat)
    else if t.exp10 + digits < -400 then 1 / ((10 ^ 400 : Nat) : Rat)
    else if t.exp10 ≥ 0 then ((t.mant * 10 ^ t.exp10.toNat : Nat) : Rat)
    else (t.mant : Rat) / ((10 ^ (-t.exp10).toNat : Nat) : Rat)
  if t.neg then -r else r

section
variable {K : Type} [Scalar K]

/-- the f64 a token parses to: correctly rounded value; `-0.0` for a negative zero token -/
def tokValue (t : NumTok) : K :=
  if t.mant == 0 && t.neg then -(0 : K) else Scalar.ofRat t.toRat

/-- `get_number` -/
def getNumber (l0 : Lx) : LR K :=
  let l := skipWs l0
  let start := l.ix
  match getByte l with
  | none => .err .unexpectedEof
  | some (c, l1) =>
    -- `if !(c == b'-' || c == b'+') { self.unget(); }`
    let l2? : Option Lx := if !(c == 45 || c == 43) then unget l1 else some l1
    match l2? with
    | none => .panic
    | some l2 =>
      match digitsLoop l2 0 false with
      | .panic => .panic
      | .err e => .err e
      | .ok digit_count l3 =>
        -- exponent
        let afterExp : LR Unit :=
          match getByte l3 with
          | none => .ok () l3
          | some (c, l4) =>
            if c == 101 || c == 69 then
              match getByte l4 with
              | none => .err .wrong
              | some (c1, l5) =>
                let sd : LR UInt8 :=
                  if c1 == 45 || c1 == 43 then
                    match getByte l5 with
                    | none => .err .wrong
                    | some (c2, l6) => .ok c2 l6
                  else .ok c1 l5
                match sd with
                | .ok cd l7 => if !isDigit cd then .err .wrong else expDigits l7
                | .err e => .err e
                | .panic => .panic
            else
              match unget l4 with
              | some l5 => .ok () l5
              | none => .panic
        match afterExp with
        | .panic => .panic
        | .err e => .err e
        | .ok _ l8 =>
          if digit_count > 0 then
            .ok (tokValue (parseTok ((l8.data.extract start l8.ix).toList))) l8
          else .err .wrong

/-- `opt_comma` -/
def optComma (l0 : Lx) : Option Lx :=
  let l := skipWs l0
  match getByte l with
  | none => some l
  | some (c, l1) => if c != 44 then unget l1 else some l1

/-- `get_flag` -/
def getFlag (l0 : Lx) : LR Bool :=
  let l := skipWs l0
  match getByte l with
  | none => .err .unexpectedEof
  | some (c, l1) => if c == 48 then .ok false l1 else if c == 49 then .ok true l1 else .err .wrong

/-- `get_number_pair` -/
def getNumberPair (l : Lx) : LR (Point K) :=
  match getNumber (K := K) l with
  | .panic => .panic
  | .err e => .err e
  | .ok x l1 =>
    match optComma l1 with
    | none => .panic
    | some l2 =>
      match getNumber (K := K) l2 with
      | .panic => .panic
      | .err e => .err e
      | .ok y l3 =>
        match optComma l3 with
        | none => .panic
        | some l4 => .ok ⟨x, y⟩ l4

/-- `get_maybe_relative` -/
def getMaybeRelative (cmd : UInt8) (last_pt : Point K) (l : Lx) : LR (Point K) :=
  match getNumberPair (K := K) l with
  | .panic => .panic
  | .err e => .err e
  | .ok pt l1 => if isLower cmd then .ok (last_pt + pt.to_vec2) l1 else .ok pt l1

/-- `get_cmd`: `none` ends the parse loop -/
def getCmd (last_cmd : UInt8) (l0 : Lx) : Option (Option UInt8 × Lx) :=
  let l := skipWs l0
  match getByte l with
  | none => some (none, l)
  | some (c, l1) =>
    if isLower c || isUpper c then some (some c, l1)
    else if last_cmd != 0 && (c == 45 || c == 43 || c == 46 || isDigit c) then
      (unget l1).map fun l2 => (some last_cmd, l2)
    else (unget l1).map fun l2 => (none, l2)

/-- parser state of `from_svg` -/
structure SvgSt (K : Type) where
  path : List (PathEl K) := []      -- in push order
  last_cmd : UInt8 := 0
  last_ctrl : Option (Point K) := none
  first_pt : Point K
  implicit_moveto : Option (Point K) := none
  last_pt : Point K

inductive SvgRes (K : Type) where
  | ok (els : List (PathEl K))
  | err (e : SvgErr)
  | panic

def reflectCtrl (last_pt : Point K) (ctrl : Point K) : Point K :=
  ((2 : K) * last_pt.to_vec2 - ctrl.to_vec2).to_point

/-- `x.to_radians()` -/
def toRadians (x : K) : K := x * ((Scalar.pi : K) / (180 : K))

/-- the curves `arc.to_cubic_beziers(0.1, …)` appends -/
def arcToCubics (a : Arc K) : List (PathEl K) := a.append_iter (Scalar.ofRat (1/10) : K)

/-- one iteration of the `while let Some(c) = lexer.get_cmd(last_cmd)` loop, after the command byte `c` has been read.
    Returns the new state and lexer. -/
def svgCommand (c : UInt8) (st : SvgSt K) (l : Lx) : LR (SvgSt K) :=
  -- non-move commands need an initialised path and flush the implicit moveto
  let pre : Option (SvgSt K) :=
    if c != 109 && c != 77 then
      if st.path.isEmpty then none
      else match st.implicit_moveto with
        | some pt => some { st with path := st.path ++ [.MoveTo pt], implicit_moveto := none }
        | none => some st
    else some st
  match pre with
  | none => .err .uninitializedPath
  | some st =>
    let lc := if isUpper c then c + 32 else c
    if lc == 109 then        -- m
      match getMaybeRelative c st.last_pt l with
      | .panic => .panic | .err e => .err e
      | .ok pt l1 =>
        .ok { st with implicit_moveto := none, path := st.path ++ [.MoveTo pt], last_pt := pt, first_pt := pt, last_ctrl := some pt, last_cmd := c - 1 } l1
    else if lc == 108 then   -- l
      match getMaybeRelative c st.last_pt l with
      | .panic => .panic | .err e => .err e
      | .ok pt l1 => .ok { st with path := st.path ++ [.LineTo pt], last_ctrl := some pt, last_pt := pt, last_cmd := c } l1
    else if lc == 104 then   -- h
      match getNumber (K := K) l with
      | .panic => .panic | .err e => .err e
      | .ok x l1 =>
        match optComma l1 with
        | none => .panic
        | some l2 =>
          let x := if c == 104 then x + st.last_pt.x else x
          let pt : Point K := ⟨x, st.last_pt.y⟩
          .ok { st with path := st.path ++ [.LineTo pt], last_ctrl := some pt, last_pt := pt, last_cmd := c } l2
    else if lc == 118 then   -- v
      match getNumber (K := K) l with
      | .panic => .panic | .err e => .err e
      | .ok y l1 =>
        match optComma l1 with
        | none => .panic
        | some l2 =>
          let y := if c == 118 then y + st.last_pt.y else y
          let pt : Point K := ⟨st.last_pt.x, y⟩
          .ok { st with path := st.path ++ [.LineTo pt], last_ctrl := some pt, last_pt := pt, last_cmd := c } l2
    else if lc == 113 then   -- q
      match getMaybeRelative c st.last_pt l with
      | .panic => .panic | .err e => .err e
      | .ok p1 l1 =>
        match getMaybeRelative c st.last_pt l1 with
        | .panic => .panic | .err e => .err e
        | .ok p2 l2 => .ok { st with path := st.path ++ [.QuadTo p1 p2], last_ctrl := some p1, last_pt := p2, last_cmd := c } l2
    else if lc == 116 then   -- t
      let p1 : Point K := match st.last_ctrl with
        | some ctrl => if st.last_cmd == 113 || st.last_cmd == 81 || st.last_cmd == 116 || st.last_cmd == 84 then reflectCtrl st.last_pt ctrl else st.last_pt
        | none => st.last_pt
      match getMaybeRelative c st.last_pt l with
      | .panic => .panic | .err e => .err e
      | .ok p2 l1 => .ok { st with path := st.path ++ [.QuadTo p1 p2], last_ctrl := some p1, last_pt := p2, last_cmd := c } l1
    else if lc == 99 then    -- c
      match getMaybeRelative c st.last_pt l with
      | .panic => .panic | .err e => .err e
      | .ok p1 l1 =>
        match getMaybeRelative c st.last_pt l1 with
        | .panic => .panic | .err e => .err e
        | .ok p2 l2 =>
          match getMaybeRelative c st.last_pt l2 with
          | .panic => .panic | .err e => .err e
          | .ok p3 l3 => .ok { st with path := st.path ++ [.CurveTo p1 p2 p3], last_ctrl := some p2, last_pt := p3, last_cmd := c } l3
    else if lc == 115 then   -- s
      let p1 : Point K := match st.last_ctrl with
        | some ctrl => if st.last_cmd == 99 || st.last_cmd == 67 || st.last_cmd == 115 || st.last_cmd == 83 then reflectCtrl st.last_pt ctrl else st.last_pt
        | none => st.last_pt
      match getMaybeRelative c st.last_pt l with
      | .panic => .panic | .err e => .err e
      | .ok p2 l1 =>
        match getMaybeRelative c st.last_pt l1 with
        | .panic => .panic | .err e => .err e
        | .ok p3 l2 => .ok { st with path := st.path ++ [.CurveTo p1 p2 p3], last_ctrl := some p2, last_pt := p3, last_cmd := c } l2
    else if lc == 97 then    -- a
      match getNumberPair (K := K) l with
      | .panic => .panic | .err e => .err e
      | .ok radii l1 =>
        match getNumber (K := K) l1 with
        | .panic => .panic | .err e => .err e
        | .ok xrot l2 =>
          match optComma l2 with
          | none => .panic
          | some l3 =>
            match getFlag l3 with
            | .panic => .panic | .err e => .err e
            | .ok large_arc l4 =>
              match optComma l4 with
              | none => .panic
              | some l5 =>
                match getFlag l5 with
                | .panic => .panic | .err e => .err e
                | .ok sweep l6 =>
                  match optComma l6 with
                  | none => .panic
                  | some l7 =>
                    match getMaybeRelative c st.last_pt l7 with
                    | .panic => .panic | .err e => .err e
                    | .ok p l8 =>
                      let svg_arc : SvgArc K := { «from» := st.last_pt, to := p, radii := radii.to_vec2, x_rotation := toRadians xrot, large_arc := large_arc, sweep := sweep }
                      let added : List (PathEl K) := match Arc.from_svg_arc svg_arc with
                        | some arc => arcToCubics arc
                        | none => [.LineTo p]
                      .ok { st with path := st.path ++ added, last_ctrl := some p, last_pt := p, last_cmd := c } l8
    else if lc == 122 then   -- z
      .ok { st with path := st.path ++ [.ClosePath], last_pt := st.first_pt, last_ctrl := none, implicit_moveto := some st.first_pt } l
    else .err (.unknownCommand c)

/-- the parse loop; fuel = number of bytes + 1 (each iteration consumes at least one byte: `svgLoop_fuel_enough`) -/
def svgLoop : Nat → SvgSt K → Lx → SvgRes K
  | 0, _, _ => .panic      -- unreachable with fuel = size + 1
  | fuel + 1, st, l =>
    match getCmd st.last_cmd l with
    | none => .panic
    | some (none, _) => .ok st.path
    | some (some c, l1) =>
      match svgCommand c st l1 with
      | .panic => .panic
      | .err e => .err e
      | .ok st' l2 => svgLoop fuel st' l2

/-- `BezPath::from_svg` on the UTF-8 bytes of the string -/
def fromSvgBytes (data : ByteArray) : SvgRes K :=
  svgLoop (data.size + 1) { first_pt := ⟨0, 0⟩, last_pt := ⟨0, 0⟩ } { data := data, ix := 0 }

def fromSvg (s : String) : SvgRes K := fromSvgBytes s.toUTF8

end
end Kurbo
