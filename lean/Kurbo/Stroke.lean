import Kurbo.Shapes
import Kurbo.Path
/-! Hand-written model of the stroker (stroke.rs) for POLYLINE sources: `stroke_undashed` element loop, `do_join` (join-skip threshold,
    bevel / miter / round, the inner-join pivot), `do_line`, `finish`, `finish_closed`, caps, `extend_reversed`, `round_join(_rev)` (tolerance of round joins/caps = `join_thresh`).
    `QuadTo`/`CurveTo` sources go through curve fitting (`do_cubic` -> `fit_to_bezpath`), which is not modelled: the model answers `none`.
    C04. -/
namespace Kurbo
open Ops
variable {K : Type} [Scalar K]

/-- `Join`: 0 bevel, 1 miter, 2 round; `Cap`: 0 butt, 1 square, 2 round -/
structure StrokeStyle (K : Type) where
  width : K
  join : Nat
  miter_limit : K
  start_cap : Nat
  end_cap : Nat

structure StrokeCtx (K : Type) where
  output : List (PathEl K) := []
  forward_path : List (PathEl K) := []
  backward_path : List (PathEl K) := []
  start_pt : Point K
  start_norm : Vec2 K
  start_tan : Vec2 K
  last_pt : Point K
  last_tan : Vec2 K
  join_thresh : K

/-- `Arc::to_cubic_beziers(tolerance, …)` composed with the affine map of `round_join` / `round_join_rev`; `tolerance` is the
    tolerance for the UNIT arc (the callers pass `join_thresh` = stroke tolerance / half width) -/
def roundJoinWith (tolerance : K) (a : Affine K) (angle : K) : List (PathEl K) :=
  let arc : Arc K := { center := ⟨0, 0⟩, radii := ⟨1, 1⟩, start_angle := (Scalar.pi : K) - angle, sweep_angle := angle, x_rotation := (0 : K) }
  (arc.append_iter tolerance).filterMap fun
    | .CurveTo p1 p2 p3 => some (.CurveTo (a * p1) (a * p2) (a * p3))
    | _ => none

/-- `round_join` -/
def roundJoin (tolerance : K) (center : Point K) (norm : Vec2 K) (angle : K) : List (PathEl K) :=
  roundJoinWith tolerance (Affine.new norm.x norm.y (-norm.y) norm.x center.x center.y) angle

/-- `round_join_rev` -/
def roundJoinRev (tolerance : K) (center : Point K) (norm : Vec2 K) (angle : K) : List (PathEl K) :=
  roundJoinWith tolerance (Affine.new norm.x norm.y norm.y (-norm.x) center.x center.y) angle

/-- `round_cap` -/
def roundCap (tolerance : K) (center : Point K) (norm : Vec2 K) : List (PathEl K) :=
  roundJoin tolerance center norm (Scalar.pi : K)

/-- `square_cap` -/
def squareCap (close : Bool) (center : Point K) (norm : Vec2 K) : List (PathEl K) :=
  let a : Affine K := Affine.new norm.x norm.y (-norm.y) norm.x center.x center.y
  [.LineTo (a * (⟨1, 1⟩ : Point K)), .LineTo (a * (⟨-(1 : K), 1⟩ : Point K))] ++
    (if close then [.ClosePath] else [.LineTo (a * (⟨-(1 : K), 0⟩ : Point K))])

/-- `extend_reversed`: the elements `i = n, …, 1`, each drawn back to the end point of its predecessor; `none` = `unwrap`/`unreachable!` -/
def extendReversedGo : List (PathEl K) → Option (List (PathEl K))
  | [] => some []
  | [_] => some []
  | prev :: el :: rest =>
    match extendReversedGo (el :: rest), prev.end_point with
    | some tail, some e =>
      match el with
      | .LineTo _ => some (tail ++ [.LineTo e])
      | .QuadTo p1 _ => some (tail ++ [.QuadTo p1 e])
      | .CurveTo p1 p2 _ => some (tail ++ [.CurveTo p2 p1 e])
      | _ => none
    | _, _ => none

def extendReversed (els : List (PathEl K)) : Option (List (PathEl K)) := extendReversedGo els

/-- end point of the last element (`back_els[len-1].end_point().unwrap()`) -/
def lastEndPoint (els : List (PathEl K)) : Option (Point K) :=
  match els.getLast? with
  | some e => e.end_point
  | none => none

/-- the inner side of a join goes through the join point -/
def StrokeCtx.inner_join_pivot (c : StrokeCtx K) (p0 : Point K) (cross : K) : StrokeCtx K :=
  if (0 : K) <. cross then { c with backward_path := c.backward_path ++ [.LineTo p0] }
  else if cross <. (0 : K) then { c with forward_path := c.forward_path ++ [.LineTo p0] }
  else c

/-- `do_join` -/
def StrokeCtx.do_join (c : StrokeCtx K) (style : StrokeStyle K) (tan0 : Vec2 K) : StrokeCtx K :=
  let scale := (Scalar.ofRat (1/2) : K) * style.width / tan0.hypot
  let norm : Vec2 K := scale * (⟨-tan0.y, tan0.x⟩ : Vec2 K)
  let p0 := c.last_pt
  if c.forward_path.isEmpty then
    { c with forward_path := c.forward_path ++ [.MoveTo (p0 - norm)], backward_path := c.backward_path ++ [.MoveTo (p0 + norm)],
             start_tan := tan0, start_norm := norm }
  else
    let ab := c.last_tan
    let cd := tan0
    let cross := ab.cross cd
    let dot := ab.dot cd
    let hypot := Scalar.hypot cross dot
    if (dot <=. (0 : K)) || (hypot * c.join_thresh <=. sabs cross) then
      match style.join with
      | 0 =>
        let c := c.inner_join_pivot p0 cross
        { c with forward_path := c.forward_path ++ [.LineTo (p0 - norm)], backward_path := c.backward_path ++ [.LineTo (p0 + norm)] }
      | 1 =>
        let c :=
          if (2 : K) * hypot <. (hypot + dot) * spowi style.miter_limit 2 then
            let last_scale := (Scalar.ofRat (1/2) : K) * style.width / ab.hypot
            let last_norm : Vec2 K := last_scale * (⟨-ab.y, ab.x⟩ : Vec2 K)
            if (0 : K) <. cross then
              let fp_last := p0 - last_norm
              let fp_this := p0 - norm
              let h := ab.cross (fp_this - fp_last) / cross
              let miter_pt := fp_this - cd * h
              { c with forward_path := c.forward_path ++ [.LineTo miter_pt] }
            else if cross <. (0 : K) then
              let fp_last := p0 + last_norm
              let fp_this := p0 + norm
              let h := ab.cross (fp_this - fp_last) / cross
              let miter_pt := fp_this - cd * h
              { c with backward_path := c.backward_path ++ [.LineTo miter_pt] }
            else c
          else c
        let c := c.inner_join_pivot p0 cross
        { c with forward_path := c.forward_path ++ [.LineTo (p0 - norm)], backward_path := c.backward_path ++ [.LineTo (p0 + norm)] }
      | _ =>
        let angle := Scalar.atan2 cross dot
        let c := c.inner_join_pivot p0 cross
        if (0 : K) <. angle then
          { c with backward_path := c.backward_path ++ [.LineTo (p0 + norm)], forward_path := c.forward_path ++ roundJoin c.join_thresh p0 norm angle }
        else
          { c with forward_path := c.forward_path ++ [.LineTo (p0 - norm)], backward_path := c.backward_path ++ roundJoinRev c.join_thresh p0 (-norm) (-angle) }
    else c

/-- `do_line` -/
def StrokeCtx.do_line (c : StrokeCtx K) (style : StrokeStyle K) (tangent : Vec2 K) (p1 : Point K) : StrokeCtx K :=
  let scale := (Scalar.ofRat (1/2) : K) * style.width / tangent.hypot
  let norm : Vec2 K := scale * (⟨-tangent.y, tangent.x⟩ : Vec2 K)
  { c with forward_path := c.forward_path ++ [.LineTo (p1 - norm)], backward_path := c.backward_path ++ [.LineTo (p1 + norm)], last_pt := p1 }

/-- `finish`; `none` = a Rust panic (`unwrap` on a missing end point) -/
def StrokeCtx.finish (c : StrokeCtx K) (style : StrokeStyle K) : Option (StrokeCtx K) :=
  if c.forward_path.isEmpty then some c else
  match lastEndPoint c.backward_path, extendReversed c.backward_path with
  | some return_p, some rev =>
    let d := c.last_pt - return_p
    let out := c.output ++ c.forward_path
    let out := out ++ (match style.end_cap with
      | 0 => [.LineTo return_p]
      | 2 => roundCap c.join_thresh c.last_pt d
      | _ => squareCap false c.last_pt d)
    let out := out ++ rev
    let out := out ++ (match style.start_cap with
      | 0 => [.ClosePath]
      | 2 => roundCap c.join_thresh c.start_pt c.start_norm
      | _ => squareCap true c.start_pt c.start_norm)
    some { c with output := out, forward_path := [], backward_path := [] }
  | _, _ => none

/-- `finish_closed` -/
def StrokeCtx.finish_closed (c : StrokeCtx K) (style : StrokeStyle K) : Option (StrokeCtx K) :=
  if c.forward_path.isEmpty then some c else
  let c := c.do_join style c.start_tan
  match lastEndPoint c.backward_path, extendReversed c.backward_path with
  | some last_pt, some rev =>
    let out := c.output ++ c.forward_path ++ [.ClosePath] ++ [.MoveTo last_pt] ++ rev ++ [.ClosePath]
    some { c with output := out, forward_path := [], backward_path := [] }
  | _, _ => none

inductive StrokeRes (K : Type) where
  | ok (els : List (PathEl K))
  | panic
  | notModelled

/-- the element loop of `stroke_undashed` -/
def strokeLoop (style : StrokeStyle K) : List (PathEl K) → StrokeCtx K → StrokeRes K
  | [], c =>
    match c.finish style with
    | some c => .ok c.output
    | none => .panic
  | el :: rest, c =>
    let p0 := c.last_pt
    match el with
    | .MoveTo p =>
      match c.finish style with
      | some c => strokeLoop style rest { c with start_pt := p, last_pt := p }
      | none => .panic
    | .LineTo p1 =>
      if !(p1.peq p0) then
        let tangent := p1 - p0
        let c := c.do_join style tangent
        let c := { c with last_tan := tangent }
        strokeLoop style rest (c.do_line style tangent p1)
      else strokeLoop style rest c
    | .ClosePath =>
      let c :=
        if !(p0.peq c.start_pt) then
          let tangent := c.start_pt - p0
          let c := c.do_join style tangent
          let c := { c with last_tan := tangent }
          c.do_line style tangent c.start_pt
        else c
      match c.finish_closed style with
      | some c => strokeLoop style rest c
      | none => .panic
    | _ => .notModelled

/-- `stroke_undashed` on a polyline source -/
def strokeUndashed (els : List (PathEl K)) (style : StrokeStyle K) (tolerance : K) : StrokeRes K :=
  strokeLoop style els
    { start_pt := ⟨0, 0⟩, start_norm := ⟨0, 0⟩, start_tan := ⟨0, 0⟩, last_pt := ⟨0, 0⟩, last_tan := ⟨0, 0⟩,
      join_thresh := (2 : K) * tolerance / style.width }

end Kurbo
