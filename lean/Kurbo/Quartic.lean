import Kurbo.Solve
/-! Hand-written model of the GENERAL path of `common::solve_quartic` (kurbo/src/common.rs): `eps_rel`,
    `depressed_cubic_dominant`, `factor_quartic_inner` (shift, resolvent, LDLᵀ candidate selection, the two
    branches `d_2 < 0` / `d_2 == 0`, Newton polishing), `solve_quartic_inner` and the rescaling retries with
    `K_Q = 7.16e76`, `K_C = 3.49e102`.

    The transcription keeps the order of the floating-point operations of the Rust source; `factor_quartic_inner` is
    cut into named pieces (`quarticShift`, `resolventGH`, `ldlSelect`, `ldlInit`, `quarticNewton`) only so that
    the theorems of `Proofs/C15Q.lean` can speak about the intermediate values; `factorQuarticInner` is their
    composition in the order of the source.  `for _ in 0..8` loops are recursions on a `Nat` counter. -/
namespace Kurbo
open Ops
variable {K : Type} [Scalar K]

/-- `f64::EPSILON` = 2⁻⁵² -/
def f64Epsilon : K := Scalar.ofRat (1 / 4503599627370496)
/-- the exact (integer) value of the double nearest to `7.16e76` -/
def quarticKQRat : Rat := 71600000000000002212510238040358624193354039594688002456249404746260625227776
/-- `K_Q = 7.16e76` of `solve_quartic` (the double the literal denotes) -/
def quarticKQ : K := Scalar.ofRat quarticKQRat
/-- `K_C = 3.49e102` of `factor_quartic_inner` -/
def quarticKC : K := Scalar.ofRat 3490000000000000000000000000000000000000000000000000000000000000000000000000000000000000000000000000000
/-- `EPS_M = 2.22045e-16` of `depressed_cubic_dominant` -/
def dcdEpsM : K := Scalar.ofRat (222045 / 1000000000000000000000)
/-- `1e102` -/
def dcdQBig : K := Scalar.ofRat 1000000000000000000000000000000000000000000000000000000000000000000000000000000000000000000000000000000
/-- `1e154` -/
def dcdRBig : K := Scalar.ofRat 10000000000000000000000000000000000000000000000000000000000000000000000000000000000000000000000000000000000000000000000000000000000000000000000000000000

/-- `common::eps_rel` -/
def epsRel (raw a : K) : K :=
  if a ==. (0 : K) then sabs raw else sabs ((raw - a) / a)

/-! ### `depressed_cubic_dominant` -/

/-- the Newton refinement loop at the end of `depressed_cubic_dominant` (`for _ in 0..8`), state `(x, f)` -/
def dcdNewton (g h : K) : Nat → K → K → K
  | 0, x, _ => x
  | n + 1, x, f =>
    let delt_f := (3 : K) * x * x + g
    if delt_f ==. (0 : K) then x
    else
      let new_x := x - f / delt_f
      let new_f := (new_x * new_x + g) * new_x + h
      if new_f ==. (0 : K) then new_x
      else if sge (sabs new_f) (sabs f) then x
      else dcdNewton g h n new_x new_f

/-- the scaling factor `k` of `depressed_cubic_dominant` (`None` for moderate `q`, `r`) -/
def dcdK (q r : K) : Option K :=
  if (sabs q <. (dcdQBig : K)) && (sabs r <. (dcdRBig : K)) then none
  else if sabs q <. sabs r then some ((1 : K) - q * spowi (q / r) 2)
  else some (Scalar.signum q * (spowi (r / q) 2 / q - (1 : K)))

/-- the start value `phi_0` of `depressed_cubic_dominant` -/
def dcdPhi0 (g h : K) : K :=
  let q := ((-(1 : K)) / (3 : K)) * g
  let r := (Scalar.ofRat (1/2) : K) * h
  let k := dcdK q r
  if k.isSome && (r ==. (0 : K)) then
    (if (0 : K) <. g then (0 : K) else Scalar.sqrt (-g))
  else if (match k with | some kv => kv <. (0 : K) | none => r * r <. spowi q 3) then
    let t := if k.isSome then r / q / Scalar.sqrt q else r / Scalar.sqrt (spowi q 3)
    (-(2 : K)) * Scalar.sqrt q * Scalar.copysign (Scalar.cos (Scalar.acos (sabs t) * ((1 : K) / (3 : K)))) t
  else
    let a := Scalar.cbrt
      (match k with
       | some kv =>
         if sabs q <. sabs r then (-r) * ((1 : K) + Scalar.sqrt kv)
         else (-r) - Scalar.copysign (Scalar.sqrt (sabs q) * q * Scalar.sqrt kv) r
       | none => (-r) - Scalar.copysign (Scalar.sqrt (r * r - spowi q 3)) r)
    let b := if a ==. (0 : K) then (0 : K) else q / a
    a + b

/-- `common::depressed_cubic_dominant`: dominant root of `x³ + g x + h` -/
def depressedCubicDominant (g h : K) : K :=
  let x := dcdPhi0 g h
  let f := (x * x + g) * x + h
  if sabs f <. (dcdEpsM : K) * smax (smax (spowi x 3) (g * x)) h then x
  else dcdNewton g h 8 x f

/-! ### `factor_quartic_inner` -/

/-- closure `calc_eps_q` -/
def calcEpsQ (a b c : K) (a1 b1 a2 b2 : K) : K :=
  let eps_a := epsRel (a1 + a2) a
  let eps_b := epsRel (b1 + a1 * a2 + b2) b
  let eps_c := epsRel (b1 * a2 + a1 * b2) c
  eps_a + eps_b + eps_c

/-- closure `calc_eps_t` -/
def calcEpsT (a b c d : K) (a1 b1 a2 b2 : K) : K :=
  calcEpsQ a b c a1 b1 a2 b2 + epsRel (b1 * b2) d

/-- the shift `s` -/
def quarticShift (a b : K) : K :=
  let disc := (9 : K) * a * a - (24 : K) * b
  if sge disc (0 : K) && (sne a (0 : K) || sne b (0 : K)) then
    (-(2 : K)) * b / ((3 : K) * a + Scalar.copysign (Scalar.sqrt disc) a)
  else (-(Scalar.ofRat (1/4) : K)) * a

/-- `(g_prime, h_prime)`: the depressed resolvent cubic of the shifted quartic -/
def resolventGH (a b c d : K) (rescale : Bool) : K × K :=
  let s := quarticShift a b
  let a_prime := a + (4 : K) * s
  let b_prime := b + (3 : K) * s * (a + (2 : K) * s)
  let c_prime := c + s * ((2 : K) * b + s * ((3 : K) * a + (4 : K) * s))
  let d_prime := d + s * (c + s * (b + s * (a + s)))
  let kc : K := quarticKC
  if rescale then
    let a_prime_s := a_prime / kc
    let b_prime_s := b_prime / kc
    let c_prime_s := c_prime / kc
    let d_prime_s := d_prime / kc
    let g_prime := a_prime_s * c_prime_s - ((4 : K) / kc) * d_prime_s - ((1 : K) / (3 : K)) * spowi b_prime_s 2
    let h_prime := (a_prime_s * c_prime_s + ((8 : K) / kc) * d_prime_s - ((2 : K) / (9 : K)) * spowi b_prime_s 2)
        * ((1 : K) / (3 : K)) * b_prime_s
        - c_prime_s * (c_prime_s / kc)
        - spowi a_prime_s 2 * d_prime_s
    (g_prime, h_prime)
  else
    let g_prime := a_prime * c_prime - (4 : K) * d_prime - ((1 : K) / (3 : K)) * spowi b_prime 2
    let h_prime := (a_prime * c_prime + (8 : K) * d_prime - ((2 : K) / (9 : K)) * spowi b_prime 2) * ((1 : K) / (3 : K)) * b_prime
        - spowi c_prime 2
        - spowi a_prime 2 * d_prime
    (g_prime, h_prime)

/-- `eps_l` of one LDLᵀ candidate `(d_2, l_2)` -/
def ldlEps (b c d l_1 l_3 d_2 l_2 : K) : K :=
  let eps_0 := epsRel (d_2 + l_1 * l_1 + (2 : K) * l_3) b
  let eps_1 := epsRel ((2 : K) * (d_2 * l_2 + l_1 * l_3)) c
  let eps_2 := epsRel (d_2 * l_2 * l_2 + l_3 * l_3) d
  eps_0 + eps_1 + eps_2

/-- the candidate loop: first candidate unconditionally, a later one only if its `eps_l` is strictly smaller;
    state `(d_2_best, l_2_best, eps_l_best)` -/
def ldlPick (b c d l_1 l_3 : K) (best : K × K × K) (cand : K × K) : K × K × K :=
  let eps_l := ldlEps b c d l_1 l_3 cand.1 cand.2
  if eps_l <. best.2.2 then (cand.1, cand.2, eps_l) else best

/-- the whole candidate loop over `[cand_1, cand_2, cand_3]`: `(d_2_best, l_2_best, eps_l_best)` -/
def ldlBest (b c d l_1 l_3 : K) (c1 c2 c3 : K × K) : K × K × K :=
  ldlPick b c d l_1 l_3 (ldlPick b c d l_1 l_3 (c1.1, c1.2, ldlEps b c d l_1 l_3 c1.1 c1.2) c2) c3

/-- `d_2` after the test "what is left is rounding noise": `|d_2| <= 64 ε (|b| + |phi| + l_1²)` counts as zero -/
def ldlNoiseZero (b phi l_1 d_2 : K) : K :=
  if sabs d_2 <=. (64 : K) * (f64Epsilon : K) * (sabs b + sabs phi + l_1 * l_1) then (0 : K) else d_2

/-- LDLᵀ quantities chosen from `phi`: `(l_1, l_3, d_2, l_2)`, `d_2` after the "rounding noise is zero" test -/
def ldlSelect (a b c d phi : K) : K × K × K × K :=
  let l_1 := a * (Scalar.ofRat (1/2) : K)
  let l_3 := ((1 : K) / (6 : K)) * b + (Scalar.ofRat (1/2) : K) * phi
  let delt_2 := c - a * l_3
  let d_2_cand_1 := ((2 : K) / (3 : K)) * b - phi - l_1 * l_1
  let l_2_cand_1 := (Scalar.ofRat (1/2) : K) * delt_2 / d_2_cand_1
  let l_2_cand_2 := (2 : K) * (d - l_3 * l_3) / delt_2
  let d_2_cand_2 := (Scalar.ofRat (1/2) : K) * delt_2 / l_2_cand_2
  let d_2_cand_3 := d_2_cand_1
  let l_2_cand_3 := l_2_cand_2
  let best := ldlBest b c d l_1 l_3 (d_2_cand_1, l_2_cand_1) (d_2_cand_2, l_2_cand_2) (d_2_cand_3, l_2_cand_3)
  (l_1, l_3, ldlNoiseZero b phi l_1 best.1, best.2.1)

/-- one step of the alpha-candidate loop: candidate `(a1, a2)` with its `is_finite` flag, state `(alpha_1, alpha_2, eps_q_best)`;
    `first` = `i == 0` -/
def alphaPick (a b c beta_1 beta_2 : K) (first : Bool) (st : K × K × K) (cand : K × K × Bool) : K × K × K :=
  if cand.2.2 then
    let eps_q := calcEpsQ a b c cand.1 beta_1 cand.2.1 beta_2
    if first || (eps_q <. st.2.2) then (cand.1, cand.2.1, eps_q) else st
  else st

/-- `d_2 < 0` branch: the smaller of `beta_1`, `beta_2` is recomputed from the larger one as `d / beta` -/
def betaFixNeg (d beta_1 beta_2 : K) : K × K :=
  if sabs beta_2 <. sabs beta_1 then (beta_1, d / beta_1)
  else if sgt (sabs beta_2) (sabs beta_1) then (d / beta_2, beta_2)
  else (beta_1, beta_2)

/-- `d_2 == 0` branch: the same replacement (the tests are written the other way round in the source) -/
def betaFixZero (d beta_1 beta_2 : K) : K × K :=
  if sgt (sabs beta_1) (sabs beta_2) then (beta_1, d / beta_1)
  else if sgt (sabs beta_2) (sabs beta_1) then (d / beta_2, beta_2)
  else (beta_1, beta_2)

/-- the three `(a1, a2)` candidates of the `d_2 < 0` branch with their `a1.is_finite() && a2.is_finite()` flags -/
def alphaCands (a b c alpha_1 alpha_2 beta_1 beta_2 : K) : (K × K × Bool) × (K × K × Bool) × (K × K × Bool) :=
  if sabs alpha_1 <. sabs alpha_2 then
    let a1_cand_1 := (c - beta_1 * alpha_2) / beta_2
    let a1_cand_2 := (b - beta_2 - beta_1) / alpha_2
    let a1_cand_3 := a - alpha_2
    -- Note: cand 3 is first because it is infallible, simplifying logic
    ((a1_cand_3, alpha_2, Scalar.fin a1_cand_3 && Scalar.fin alpha_2),
     (a1_cand_1, alpha_2, Scalar.finQuot beta_2 a1_cand_1 && Scalar.fin alpha_2),
     (a1_cand_2, alpha_2, Scalar.finQuot alpha_2 a1_cand_2 && Scalar.fin alpha_2))
  else
    let a2_cand_1 := (c - alpha_1 * beta_2) / beta_1
    let a2_cand_2 := (b - beta_2 - beta_1) / alpha_1
    let a2_cand_3 := a - alpha_1
    ((alpha_1, a2_cand_3, Scalar.fin alpha_1 && Scalar.fin a2_cand_3),
     (alpha_1, a2_cand_1, Scalar.fin alpha_1 && Scalar.finQuot beta_1 a2_cand_1),
     (alpha_1, a2_cand_2, Scalar.fin alpha_1 && Scalar.finQuot alpha_1 a2_cand_2))

/-- the alpha pair after the candidate loop (`if alpha_1.abs() != alpha_2.abs() { … }`) -/
def alphaSelect (a b c alpha_1 alpha_2 beta_1 beta_2 : K) : K × K :=
  if sne (sabs alpha_1) (sabs alpha_2) then
    let cands := alphaCands a b c alpha_1 alpha_2 beta_1 beta_2
    let st0 : K × K × K := (alpha_1, alpha_2, (0 : K))
    let st := alphaPick a b c beta_1 beta_2 false
      (alphaPick a b c beta_1 beta_2 false (alphaPick a b c beta_1 beta_2 true st0 cands.1) cands.2.1) cands.2.2
    (st.1, st.2.1)
  else (alpha_1, alpha_2)

/-- the quadratic pair `(alpha_1, beta_1, alpha_2, beta_2)` before the Newton loop; `none` when `d_2 > 0` (or NaN) -/
def ldlInit (a b c d l_1 l_3 d_2 l_2 : K) : Option (K × K × K × K) :=
  if d_2 <. (0 : K) then
    let sq := Scalar.sqrt (-d_2)
    let alpha_1 := l_1 + sq
    let beta_1 := l_3 + sq * l_2
    let alpha_2 := l_1 - sq
    let beta_2 := l_3 - sq * l_2
    let bb := betaFixNeg d beta_1 beta_2
    let al := alphaSelect a b c alpha_1 alpha_2 bb.1 bb.2
    some (al.1, bb.1, al.2, bb.2)
  else if d_2 ==. (0 : K) then
    let d_3 := d - l_3 * l_3
    let alpha_1 := l_1
    let beta_1 := l_3 + Scalar.sqrt (-d_3)
    let alpha_2 := l_1
    let beta_2 := l_3 - Scalar.sqrt (-d_3)
    let bb := betaFixZero d beta_1 beta_2
    some (alpha_1, bb.1, alpha_2, bb.2)
  else none

/-- one Newton–Raphson step on `(alpha_1, beta_1, alpha_2, beta_2)`: `none` = `det_j == 0.0` (break) -/
def quarticNewtonStep (a b c d : K) (alpha_1 beta_1 alpha_2 beta_2 : K) : Option (K × K × K × K) :=
  let f_0 := beta_1 * beta_2 - d
  let f_1 := beta_1 * alpha_2 + alpha_1 * beta_2 - c
  let f_2 := beta_1 + alpha_1 * alpha_2 + beta_2 - b
  let f_3 := alpha_1 + alpha_2 - a
  let c_1 := alpha_1 - alpha_2
  let det_j := beta_1 * beta_1 - beta_1 * (alpha_2 * c_1 + (2 : K) * beta_2) + beta_2 * (alpha_1 * c_1 + beta_2)
  if det_j ==. (0 : K) then none
  else
    let inv := srecip det_j
    let c_2 := beta_2 - beta_1
    let c_3 := beta_1 * alpha_2 - alpha_1 * beta_2
    let dz_0 := c_1 * f_0 + c_2 * f_1 + c_3 * f_2 - (beta_1 * c_2 + alpha_1 * c_3) * f_3
    let dz_1 := (alpha_1 * c_1 + c_2) * f_0 - beta_1 * c_1 * f_1 - beta_1 * c_2 * f_2 - beta_1 * c_3 * f_3
    let dz_2 := (-c_1) * f_0 - c_2 * f_1 - c_3 * f_2 + (alpha_2 * c_3 + beta_2 * c_2) * f_3
    let dz_3 := (-(alpha_2 * c_1 + c_2)) * f_0 + beta_2 * c_1 * f_1 + beta_2 * c_2 * f_2 + beta_2 * c_3 * f_3
    let a1 := alpha_1 - inv * dz_0
    let b1 := beta_1 - inv * dz_1
    let a2 := alpha_2 - inv * dz_2
    let b2 := beta_2 - inv * dz_3
    some (a1, b1, a2, b2)

/-- the Newton loop (`for _ in 0..8`), state `(alpha_1, beta_1, alpha_2, beta_2)` and `eps_t` -/
def quarticNewton (a b c d : K) : Nat → (K × K × K × K) → K → (K × K × K × K)
  | 0, z, _ => z
  | n + 1, z, eps_t =>
    if eps_t ==. (0 : K) then z
    else
      match quarticNewtonStep a b c d z.1 z.2.1 z.2.2.1 z.2.2.2 with
      | none => z
      | some z' =>
        let new_eps_t := calcEpsT a b c d z'.1 z'.2.1 z'.2.2.1 z'.2.2.2
        if new_eps_t <. eps_t then quarticNewton a b c d n z' new_eps_t
        else z

/-- `phi`: the dominant root of the resolvent (scaled back when `rescale`), `none` when `g_prime`/`h_prime` overflowed -/
def quarticPhi (a b c d : K) (rescale : Bool) : Option K :=
  let gh := resolventGH a b c d rescale
  if !(Scalar.fin gh.1 && Scalar.fin gh.2) then none
  else
    let phi := depressedCubicDominant gh.1 gh.2
    some (if rescale then phi * (quarticKC : K) else phi)

/-- `common::factor_quartic_inner`: `x⁴ + a x³ + b x² + c x + d = (x² + α₁x + β₁)(x² + α₂x + β₂)` -/
def factorQuarticInner (a b c d : K) (rescale : Bool) : Option ((K × K) × (K × K)) :=
  match quarticPhi a b c d rescale with
  | none => none
  | some phi =>
    let l := ldlSelect a b c d phi
    match ldlInit a b c d l.1 l.2.1 l.2.2.1 l.2.2.2 with
    | none => none
    | some z0 =>
      let eps_t := calcEpsT a b c d z0.1 z0.2.1 z0.2.2.1 z0.2.2.2
      let z := quarticNewton a b c d 8 z0 eps_t
      some ((z.1, z.2.1), (z.2.2.1, z.2.2.2))

/-- `common::solve_quartic_inner` -/
def solveQuarticInner (a b c d : K) (rescale : Bool) : Option (List K) :=
  (factorQuarticInner a b c d rescale).map fun qs =>
    solveQuadratic qs.1.2 qs.1.1 (1 : K) ++ solveQuadratic qs.2.2 qs.2.1 (1 : K)

/-- `K_Q.powi(n)`, `n = 2, 3, 4`: with both arguments constant the compiler folds `powi` to the correctly rounded power of the
    double `K_Q` (for `n = 3, 4` this differs in the last bit from repeated multiplication) -/
def quarticKQpow (n : Nat) : K := Scalar.ofRat (quarticKQRat ^ n)

/-- the general path of `common::solve_quartic` on the monic coefficients: plain attempt, then the two rescaled attempts -/
def solveQuarticGeneral (a b c d : K) : List K :=
  match solveQuarticInner a b c d false with
  | some r => r
  | none =>
    let kq : K := quarticKQ
    let a' := a / kq
    let b' := b / quarticKQpow 2
    let c' := c / quarticKQpow 3
    let d' := d / quarticKQpow 4
    match solveQuarticInner a' b' c' d' false with
    | some r => r.map (· * kq)
    | none =>
      match solveQuarticInner a' b' c' d' true with
      | some r => r.map (· * kq)
      | none => []

/-- `common::solve_quartic` in full: the three reductions of `solveQuarticWith`, then the general path -/
def solveQuartic (c0 c1 c2 c3 c4 : K) : List K :=
  solveQuarticWith (fun c0 c1 c2 c3 c4 => solveQuarticGeneral (c3 / c4) (c2 / c4) (c1 / c4) (c0 / c4)) c0 c1 c2 c3 c4

end Kurbo
