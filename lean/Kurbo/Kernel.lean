import Kurbo.Types
/-! The kernel model: output of tools/rs2lean.py on the pinned tree (committed; reviewed).
    `Kurbo/Gen/Kernel.lean` is the same translation of the *current* tree; `Proofs/GenEquiv.lean` proves them equal. -/
set_option linter.unusedVariables false
namespace Kurbo
open Ops
variable {K : Type} [Scalar K]

def Vec2.dot (self other : Vec2 K) : K :=
  ((self.x * other.x) + (self.y * other.y))

def Vec2.cross (self other : Vec2 K) : K :=
  ((self.x * other.y) - (self.y * other.x))

def Vec2.hypot2 (self : Vec2 K) : K :=
  (self.dot self)

def Vec2.hypot (self : Vec2 K) : K :=
  (Scalar.hypot self.x self.y)

def Vec2.atan2 (self : Vec2 K) : K :=
  (Scalar.atan2 self.y self.x)

def Vec2.lerp (self other : Vec2 K) (t : K) : Vec2 K :=
  (self + (t * (other - self)))

def Vec2.normalize (self : Vec2 K) : Vec2 K :=
  (self / self.hypot)

def Vec2.turn_90 (self : Vec2 K) : Vec2 K :=
  (Vec2.new (-self.y) self.x)

def Vec2.rotate_scale (self rhs : Vec2 K) : Vec2 K :=
  (Vec2.new ((self.x * rhs.x) - (self.y * rhs.y)) ((self.x * rhs.y) + (self.y * rhs.x)))

def Vec2.round (self : Vec2 K) : Vec2 K :=
  (Vec2.new (MRound.round self.x) (MRound.round self.y))

instance : MRound (Vec2 K) := ⟨Vec2.round⟩

def Vec2.ceil (self : Vec2 K) : Vec2 K :=
  (Vec2.new (MCeil.ceil self.x) (MCeil.ceil self.y))

instance : MCeil (Vec2 K) := ⟨Vec2.ceil⟩

def Vec2.floor (self : Vec2 K) : Vec2 K :=
  (Vec2.new (MFloor.floor self.x) (MFloor.floor self.y))

instance : MFloor (Vec2 K) := ⟨Vec2.floor⟩

def Vec2.expand (self : Vec2 K) : Vec2 K :=
  (Vec2.new (MExpand.expand self.x) (MExpand.expand self.y))

instance : MExpand (Vec2 K) := ⟨Vec2.expand⟩

def Vec2.trunc (self : Vec2 K) : Vec2 K :=
  (Vec2.new (MTrunc.trunc self.x) (MTrunc.trunc self.y))

instance : MTrunc (Vec2 K) := ⟨Vec2.trunc⟩

def Vec2.is_finite (self : Vec2 K) : Bool :=
  ((MIsFinite.is_finite self.x) && (MIsFinite.is_finite self.y))

instance : MIsFinite (Vec2 K) := ⟨Vec2.is_finite⟩

def Vec2.is_nan (self : Vec2 K) : Bool :=
  ((MIsNan.is_nan self.x) || (MIsNan.is_nan self.y))

instance : MIsNan (Vec2 K) := ⟨Vec2.is_nan⟩

def Point.lerp (self other : Point K) (t : K) : Point K :=
  (self.to_vec2.lerp other.to_vec2 t).to_point

def Point.midpoint (self other : Point K) : Point K :=
  (Point.new ((Scalar.ofRat (1/2 : Rat) : K) * (self.x + other.x)) ((Scalar.ofRat (1/2 : Rat) : K) * (self.y + other.y)))

def Point.distance (self other : Point K) : K :=
  (self - other).hypot

def Point.distance_squared (self other : Point K) : K :=
  (self - other).hypot2

def Point.round (self : Point K) : Point K :=
  (Point.new (MRound.round self.x) (MRound.round self.y))

instance : MRound (Point K) := ⟨Point.round⟩

def Point.ceil (self : Point K) : Point K :=
  (Point.new (MCeil.ceil self.x) (MCeil.ceil self.y))

instance : MCeil (Point K) := ⟨Point.ceil⟩

def Point.floor (self : Point K) : Point K :=
  (Point.new (MFloor.floor self.x) (MFloor.floor self.y))

instance : MFloor (Point K) := ⟨Point.floor⟩

def Point.expand (self : Point K) : Point K :=
  (Point.new (MExpand.expand self.x) (MExpand.expand self.y))

instance : MExpand (Point K) := ⟨Point.expand⟩

def Point.trunc (self : Point K) : Point K :=
  (Point.new (MTrunc.trunc self.x) (MTrunc.trunc self.y))

instance : MTrunc (Point K) := ⟨Point.trunc⟩

def Point.is_finite (self : Point K) : Bool :=
  ((MIsFinite.is_finite self.x) && (MIsFinite.is_finite self.y))

instance : MIsFinite (Point K) := ⟨Point.is_finite⟩

def Point.is_nan (self : Point K) : Bool :=
  ((MIsNan.is_nan self.x) || (MIsNan.is_nan self.y))

instance : MIsNan (Point K) := ⟨Point.is_nan⟩

def Size.round (self : Size K) : Size K :=
  (Size.new (MRound.round self.width) (MRound.round self.height))

instance : MRound (Size K) := ⟨Size.round⟩

def Size.ceil (self : Size K) : Size K :=
  (Size.new (MCeil.ceil self.width) (MCeil.ceil self.height))

instance : MCeil (Size K) := ⟨Size.ceil⟩

def Size.floor (self : Size K) : Size K :=
  (Size.new (MFloor.floor self.width) (MFloor.floor self.height))

instance : MFloor (Size K) := ⟨Size.floor⟩

def Size.expand (self : Size K) : Size K :=
  (Size.new (MExpand.expand self.width) (MExpand.expand self.height))

instance : MExpand (Size K) := ⟨Size.expand⟩

def Size.trunc (self : Size K) : Size K :=
  (Size.new (MTrunc.trunc self.width) (MTrunc.trunc self.height))

instance : MTrunc (Size K) := ⟨Size.trunc⟩

def Size.area (self : Size K) : K :=
  (self.width * self.height)

def Size.max_side (self : Size K) : K :=
  (smax self.width self.height)

def Size.min_side (self : Size K) : K :=
  (smin self.width self.height)

def Line.eval (self : Line K) (t : K) : Point K :=
  (self.p0.lerp self.p1 t)

def Line.subsegment (self : Line K) (range : Range K) : Line K :=
  ({ p0 := (self.eval range.start), p1 := (self.eval range.«end») } : Line K)

def Line.start (self : Line K) : Point K :=
  self.p0

def Line.end (self : Line K) : Point K :=
  self.p1

def Line.reversed (self : Line K) : Line K :=
  ({ p0 := self.p1, p1 := self.p0 } : Line K)

def Line.midpoint (self : Line K) : Point K :=
  (self.p0.midpoint self.p1)

def Line.arclen (self : Line K) (_accuracy : K) : K :=
  (self.p1 - self.p0).hypot

def Line.inv_arclen (self : Line K) (arclen _accuracy : K) : K :=
  (arclen / (self.p1 - self.p0).hypot)

def Line.signed_area (self : Line K) : K :=
  ((self.p0.to_vec2.cross self.p1.to_vec2) * (Scalar.ofRat (1/2 : Rat) : K))

def Line.nearest (self : Line K) (p : Point K) (_accuracy : K) : Nearest K :=
  (let d := (self.p1 - self.p0); (let dotp := (d.dot (p - self.p0)); (let d_squared := (d.dot d); (let (t, distance_sq) := (if (dotp <=. (0 : K)) then ((0 : K), (p - self.p0).hypot2) else (if (d_squared <=. dotp) then ((1 : K), (p - self.p1).hypot2) else (let t := (dotp / d_squared); (let dist := (p - (self.eval t)).hypot2; (t, dist))))); ({ distance_sq := distance_sq, t := t } : Nearest K)))))

def QuadBez.eval (self : QuadBez K) (t : K) : Point K :=
  (let mt := ((1 : K) - t); ((self.p0.to_vec2 * (mt * mt)) + (((self.p1.to_vec2 * (mt * (2 : K))) + (self.p2.to_vec2 * t)) * t)).to_point)

def QuadBez.subsegment (self : QuadBez K) (range : Range K) : QuadBez K :=
  (let (t0, t1) := (range.start, range.«end»); (let p0 := (self.eval t0); (let p2 := (self.eval t1); (let p1 := (p0 + (((self.p1 - self.p0).lerp (self.p2 - self.p1) t0) * (t1 - t0))); ({ p0 := p0, p1 := p1, p2 := p2 } : QuadBez K)))))

def QuadBez.subdivide (self : QuadBez K) : QuadBez K × QuadBez K :=
  (let pm := (self.eval (Scalar.ofRat (1/2 : Rat) : K)); ((QuadBez.new self.p0 (self.p0.midpoint self.p1) pm), (QuadBez.new pm (self.p1.midpoint self.p2) self.p2)))

def QuadBez.start (self : QuadBez K) : Point K :=
  self.p0

def QuadBez.end (self : QuadBez K) : Point K :=
  self.p2

def QuadBez.deriv (self : QuadBez K) : Line K :=
  (Line.new ((2 : K) * (self.p1.to_vec2 - self.p0.to_vec2)).to_point ((2 : K) * (self.p2.to_vec2 - self.p1.to_vec2)).to_point)

def QuadBez.signed_area (self : QuadBez K) : K :=
  ((((self.p0.x * (((2 : K) * self.p1.y) + self.p2.y)) + (((2 : K) * self.p1.x) * (self.p2.y - self.p0.y))) - (self.p2.x * (self.p0.y + ((2 : K) * self.p1.y)))) * ((1 : K) / (6 : K)))

def CubicBez.eval (self : CubicBez K) (t : K) : Point K :=
  (let mt := ((1 : K) - t); (let v := ((self.p0.to_vec2 * ((mt * mt) * mt)) + (((self.p1.to_vec2 * ((mt * mt) * (3 : K))) + (((self.p2.to_vec2 * (mt * (3 : K))) + (self.p3.to_vec2 * t)) * t)) * t)); v.to_point))

def CubicBez.deriv (self : CubicBez K) : QuadBez K :=
  (QuadBez.new ((3 : K) * (self.p1 - self.p0)).to_point ((3 : K) * (self.p2 - self.p1)).to_point ((3 : K) * (self.p3 - self.p2)).to_point)

def CubicBez.subsegment (self : CubicBez K) (range : Range K) : CubicBez K :=
  (let (t0, t1) := (range.start, range.«end»); (let p0 := (self.eval t0); (let p3 := (self.eval t1); (let d := self.deriv; (let scale := ((t1 - t0) * ((1 : K) / (3 : K))); (let p1 := (p0 + (scale * (d.eval t0).to_vec2)); (let p2 := (p3 - (scale * (d.eval t1).to_vec2)); ({ p0 := p0, p1 := p1, p2 := p2, p3 := p3 } : CubicBez K))))))))

def CubicBez.subdivide (self : CubicBez K) : CubicBez K × CubicBez K :=
  (let pm := (self.eval (Scalar.ofRat (1/2 : Rat) : K)); ((CubicBez.new self.p0 (self.p0.midpoint self.p1) (((self.p0.to_vec2 + (self.p1.to_vec2 * (2 : K))) + self.p2.to_vec2) * (Scalar.ofRat (1/4 : Rat) : K)).to_point pm), (CubicBez.new pm (((self.p1.to_vec2 + (self.p2.to_vec2 * (2 : K))) + self.p3.to_vec2) * (Scalar.ofRat (1/4 : Rat) : K)).to_point (self.p2.midpoint self.p3) self.p3)))

def CubicBez.start (self : CubicBez K) : Point K :=
  self.p0

def CubicBez.end (self : CubicBez K) : Point K :=
  self.p3

def CubicBez.signed_area (self : CubicBez K) : K :=
  ((((self.p0.x * ((((6 : K) * self.p1.y) + ((3 : K) * self.p2.y)) + self.p3.y)) + ((3 : K) * ((self.p1.x * ((((-(2 : K)) * self.p0.y) + self.p2.y) + self.p3.y)) - (self.p2.x * ((self.p0.y + self.p1.y) - ((2 : K) * self.p3.y)))))) - (self.p3.x * ((self.p0.y + ((3 : K) * self.p1.y)) + ((6 : K) * self.p2.y)))) * ((1 : K) / (20 : K)))

def QuadBez.raise (self : QuadBez K) : CubicBez K :=
  (CubicBez.new self.p0 (self.p0 + (((2 : K) / (3 : K)) * (self.p1 - self.p0))) (self.p2 + (((2 : K) / (3 : K)) * (self.p1 - self.p2))) self.p2)

def PathSeg.eval (self : PathSeg K) (t : K) : Point K :=
  (match self with | (PathSeg.Line line) => (line.eval t) | (PathSeg.Quad quad) => (quad.eval t) | (PathSeg.Cubic cubic) => (cubic.eval t))

def PathSeg.subsegment (self : PathSeg K) (range : Range K) : PathSeg K :=
  (match self with | (PathSeg.Line line) => (PathSeg.Line (line.subsegment range)) | (PathSeg.Quad quad) => (PathSeg.Quad (quad.subsegment range)) | (PathSeg.Cubic cubic) => (PathSeg.Cubic (cubic.subsegment range)))

def PathSeg.start (self : PathSeg K) : Point K :=
  (match self with | (PathSeg.Line line) => line.start | (PathSeg.Quad quad) => quad.start | (PathSeg.Cubic cubic) => cubic.start)

def PathSeg.end (self : PathSeg K) : Point K :=
  (match self with | (PathSeg.Line line) => line.«end» | (PathSeg.Quad quad) => quad.«end» | (PathSeg.Cubic cubic) => cubic.«end»)

def PathSeg.signed_area (self : PathSeg K) : K :=
  (match self with | (PathSeg.Line line) => line.signed_area | (PathSeg.Quad quad) => quad.signed_area | (PathSeg.Cubic cubic) => cubic.signed_area)

def PathSeg.as_path_el (self : PathSeg K) : PathEl K :=
  (match self with | (PathSeg.Line line) => (PathEl.LineTo line.p1) | (PathSeg.Quad q) => (PathEl.QuadTo q.p1 q.p2) | (PathSeg.Cubic c) => (PathEl.CurveTo c.p1 c.p2 c.p3))

def PathSeg.reverse (self : PathSeg K) : PathSeg K :=
  (match self with | (PathSeg.Line { p0 := p0, p1 := p1 }) => (PathSeg.Line (Line.new p1 p0)) | (PathSeg.Quad q) => (PathSeg.Quad (QuadBez.new q.p2 q.p1 q.p0)) | (PathSeg.Cubic c) => (PathSeg.Cubic (CubicBez.new c.p3 c.p2 c.p1 c.p0)))

def PathSeg.to_cubic (self : PathSeg K) : CubicBez K :=
  (match self with | (PathSeg.Line { p0 := p0, p1 := p1 }) => (CubicBez.new p0 p0 p1 p1) | (PathSeg.Cubic c) => c | (PathSeg.Quad q) => q.raise)

def Rect.width (self : Rect K) : K :=
  (self.x1 - self.x0)

def Rect.height (self : Rect K) : K :=
  (self.y1 - self.y0)

def Rect.min_x (self : Rect K) : K :=
  (smin self.x0 self.x1)

def Rect.max_x (self : Rect K) : K :=
  (smax self.x0 self.x1)

def Rect.min_y (self : Rect K) : K :=
  (smin self.y0 self.y1)

def Rect.max_y (self : Rect K) : K :=
  (smax self.y0 self.y1)

def Rect.area (self : Rect K) : K :=
  (self.width * self.height)

def Rect.origin (self : Rect K) : Point K :=
  (Point.new self.x0 self.y0)

def Rect.size (self : Rect K) : Size K :=
  (Size.new self.width self.height)

def Rect.center (self : Rect K) : Point K :=
  (Point.new ((Scalar.ofRat (1/2 : Rat) : K) * (self.x0 + self.x1)) ((Scalar.ofRat (1/2 : Rat) : K) * (self.y0 + self.y1)))

def Rect.is_zero_area (self : Rect K) : Bool :=
  (self.area ==. (0 : K))

def Rect.contains (self : Rect K) (point : Point K) : Bool :=
  ((((self.x0 <=. point.x) && (point.x <. self.x1)) && (self.y0 <=. point.y)) && (point.y <. self.y1))

def Rect.abs (self : Rect K) : Rect K :=
  (let ⟨x0, y0, x1, y1⟩ := self; (Rect.new (smin x0 x1) (smin y0 y1) (smax x0 x1) (smax y0 y1)))

instance : MAbs (Rect K) := ⟨Rect.abs⟩

def Rect.from_points (p0 p1 : Point K) : Rect K :=
  (let p0 := p0; (let p1 := p1; (MAbs.abs (Rect.new p0.x p0.y p1.x p1.y))))

/-- `impl From<(Point, Point)> for Rect` -/
instance : Coe (Point K × Point K) (Rect K) := ⟨fun p => Rect.from_points p.1 p.2⟩

def Rect.union (self other : Rect K) : Rect K :=
  (Rect.new (smin self.x0 other.x0) (smin self.y0 other.y0) (smax self.x1 other.x1) (smax self.y1 other.y1))

def Rect.union_pt (self : Rect K) (pt : Point K) : Rect K :=
  (Rect.new (smin self.x0 pt.x) (smin self.y0 pt.y) (smax self.x1 pt.x) (smax self.y1 pt.y))

def Rect.intersect (self other : Rect K) : Rect K :=
  (let x0 := (smax self.x0 other.x0); (let y0 := (smax self.y0 other.y0); (let x1 := (smin self.x1 other.x1); (let y1 := (smin self.y1 other.y1); (Rect.new x0 y0 (smax x1 x0) (smax y1 y0))))))

def Rect.overlaps (self other : Rect K) : Bool :=
  ((((self.x0 <=. other.x1) && (other.x0 <=. self.x1)) && (self.y0 <=. other.y1)) && (other.y0 <=. self.y1))

def Rect.contains_rect (self other : Rect K) : Bool :=
  ((((self.x0 <=. other.x0) && (self.y0 <=. other.y0)) && (other.x1 <=. self.x1)) && (other.y1 <=. self.y1))

def Rect.inflate (self : Rect K) (width height : K) : Rect K :=
  (Rect.new (self.x0 - width) (self.y0 - height) (self.x1 + width) (self.y1 + height))

def Rect.round (self : Rect K) : Rect K :=
  (Rect.new (MRound.round self.x0) (MRound.round self.y0) (MRound.round self.x1) (MRound.round self.y1))

instance : MRound (Rect K) := ⟨Rect.round⟩

def Rect.ceil (self : Rect K) : Rect K :=
  (Rect.new (MCeil.ceil self.x0) (MCeil.ceil self.y0) (MCeil.ceil self.x1) (MCeil.ceil self.y1))

instance : MCeil (Rect K) := ⟨Rect.ceil⟩

def Rect.floor (self : Rect K) : Rect K :=
  (Rect.new (MFloor.floor self.x0) (MFloor.floor self.y0) (MFloor.floor self.x1) (MFloor.floor self.y1))

instance : MFloor (Rect K) := ⟨Rect.floor⟩

def Rect.expand (self : Rect K) : Rect K :=
  (let (x0, x1) := (if (self.x0 <=. self.x1) then ((MFloor.floor self.x0), (MCeil.ceil self.x1)) else ((MCeil.ceil self.x0), (MFloor.floor self.x1))); (let (y0, y1) := (if (self.y0 <=. self.y1) then ((MFloor.floor self.y0), (MCeil.ceil self.y1)) else ((MCeil.ceil self.y0), (MFloor.floor self.y1))); (Rect.new x0 y0 x1 y1)))

instance : MExpand (Rect K) := ⟨Rect.expand⟩

def Rect.trunc (self : Rect K) : Rect K :=
  (let (x0, x1) := (if (self.x0 <=. self.x1) then ((MCeil.ceil self.x0), (MFloor.floor self.x1)) else ((MFloor.floor self.x0), (MCeil.ceil self.x1))); (let (y0, y1) := (if (self.y0 <=. self.y1) then ((MCeil.ceil self.y0), (MFloor.floor self.y1)) else ((MFloor.floor self.y0), (MCeil.ceil self.y1))); (Rect.new x0 y0 x1 y1)))

instance : MTrunc (Rect K) := ⟨Rect.trunc⟩

def Rect.scale_from_origin (self : Rect K) (factor : K) : Rect K :=
  ({ x0 := (self.x0 * factor), y0 := (self.y0 * factor), x1 := (self.x1 * factor), y1 := (self.y1 * factor) } : Rect K)

def Rect.add_Vec2 (self : Rect K) (v : Vec2 K) : Rect K :=
  (Rect.new (self.x0 + v.x) (self.y0 + v.y) (self.x1 + v.x) (self.y1 + v.y))

instance : HAdd (Rect K) (Vec2 K) (Rect K) := ⟨Rect.add_Vec2⟩

def Rect.sub_Vec2 (self : Rect K) (v : Vec2 K) : Rect K :=
  (Rect.new (self.x0 - v.x) (self.y0 - v.y) (self.x1 - v.x) (self.y1 - v.y))

instance : HSub (Rect K) (Vec2 K) (Rect K) := ⟨Rect.sub_Vec2⟩

def Rect.sub_Rect (self other : Rect K) : Insets K :=
  (let x0 := (other.x0 - self.x0); (let y0 := (other.y0 - self.y0); (let x1 := (self.x1 - other.x1); (let y1 := (self.y1 - other.y1); ({ x0 := x0, y0 := y0, x1 := x1, y1 := y1 } : Insets K)))))

instance : HSub (Rect K) (Rect K) (Insets K) := ⟨Rect.sub_Rect⟩

def Rect.perimeter (self : Rect K) (_accuracy : K) : K :=
  ((2 : K) * ((MAbs.abs self.width) + (MAbs.abs self.height)))

def Rect.winding (self : Rect K) (pt : Point K) : Int :=
  (let xmin := (smin self.x0 self.x1); (let xmax := (smax self.x0 self.x1); (let ymin := (smin self.y0 self.y1); (let ymax := (smax self.y0 self.y1); (if ((((xmin <=. pt.x) && (pt.x <. xmax)) && (ymin <=. pt.y)) && (pt.y <. ymax)) then (if ((self.x0 <. self.x1) ^^ (self.y0 <. self.y1)) then (-1) else 1) else 0)))))

def Rect.bounding_box (self : Rect K) : Rect K :=
  (MAbs.abs self)

def Insets.neg (self : Insets K) : Insets K :=
  (Insets.new (-self.x0) (-self.y0) (-self.x1) (-self.y1))

instance : Neg (Insets K) := ⟨Insets.neg⟩

def Insets.add_Rect (self : Insets K) (other : Rect K) : Rect K :=
  (let other := (MAbs.abs other); (Rect.new (other.x0 - self.x0) (other.y0 - self.y0) (other.x1 + self.x1) (other.y1 + self.y1)))

instance : HAdd (Insets K) (Rect K) (Rect K) := ⟨Insets.add_Rect⟩

def Rect.add_Insets (self : Rect K) (other : Insets K) : Rect K :=
  (other + self)

instance : HAdd (Rect K) (Insets K) (Rect K) := ⟨Rect.add_Insets⟩

def Insets.sub_Rect (self : Insets K) (other : Rect K) : Rect K :=
  (other + (-self))

instance : HSub (Insets K) (Rect K) (Rect K) := ⟨Insets.sub_Rect⟩

def Rect.sub_Insets (self : Rect K) (other : Insets K) : Rect K :=
  (other - self)

instance : HSub (Rect K) (Insets K) (Rect K) := ⟨Rect.sub_Insets⟩

def Insets.x_value (self : Insets K) : K :=
  (self.x0 + self.x1)

def Insets.y_value (self : Insets K) : K :=
  (self.y0 + self.y1)

def Insets.size (self : Insets K) : Size K :=
  (Size.new self.x_value self.y_value)

def Affine.mul_Point (self : Affine K) (other : Point K) : Point K :=
  (Point.new (((self.c0 * other.x) + (self.c2 * other.y)) + self.c4) (((self.c1 * other.x) + (self.c3 * other.y)) + self.c5))

instance : HMul (Affine K) (Point K) (Point K) := ⟨Affine.mul_Point⟩

def Affine.mul_Affine (self other : Affine K) : Affine K :=
  (Affine.mk ((self.c0 * other.c0) + (self.c2 * other.c1)) ((self.c1 * other.c0) + (self.c3 * other.c1)) ((self.c0 * other.c2) + (self.c2 * other.c3)) ((self.c1 * other.c2) + (self.c3 * other.c3)) (((self.c0 * other.c4) + (self.c2 * other.c5)) + self.c4) (((self.c1 * other.c4) + (self.c3 * other.c5)) + self.c5))

instance : HMul (Affine K) (Affine K) (Affine K) := ⟨Affine.mul_Affine⟩

def Affine.scale (s : K) : Affine K :=
  (Affine.mk s (0 : K) (0 : K) s (0 : K) (0 : K))

def Affine.scale_non_uniform (s_x s_y : K) : Affine K :=
  (Affine.mk s_x (0 : K) (0 : K) s_y (0 : K) (0 : K))

def Affine.translate (p : Vec2 K) : Affine K :=
  (let p := p; (Affine.mk (1 : K) (0 : K) (0 : K) (1 : K) p.x p.y))

def Affine.skew (skew_x skew_y : K) : Affine K :=
  (Affine.mk (1 : K) skew_y skew_x (1 : K) (0 : K) (0 : K))

def Affine.rotate (th : K) : Affine K :=
  (let (s, c) := ((Scalar.sin th, Scalar.cos th)); (Affine.mk c s (-s) c (0 : K) (0 : K)))

def Affine.then_translate (self : Affine K) (trans : Vec2 K) : Affine K :=
  (let self := { self with c4 := (self.c4 + trans.x) }; (let self := { self with c5 := (self.c5 + trans.y) }; self))

def Affine.then_rotate (self : Affine K) (th : K) : Affine K :=
  ((Affine.rotate th) * self)

def Affine.then_scale (self : Affine K) (scale : K) : Affine K :=
  ((Affine.scale scale) * self)

def Affine.then_scale_non_uniform (self : Affine K) (scale_x scale_y : K) : Affine K :=
  ((Affine.scale_non_uniform scale_x scale_y) * self)

def Affine.scale_about (s : K) (center : Point K) : Affine K :=
  (let center := center.to_vec2; (((Affine.translate (-center)).then_scale s).then_translate center))

def Affine.rotate_about (th : K) (center : Point K) : Affine K :=
  (let center := center.to_vec2; (((Affine.translate (-center)).then_rotate th).then_translate center))

def Affine.then_rotate_about (self : Affine K) (th : K) (center : Point K) : Affine K :=
  ((Affine.rotate_about th center) * self)

def Affine.then_scale_about (self : Affine K) (scale : K) (center : Point K) : Affine K :=
  ((Affine.scale_about scale center) * self)

def Affine.pre_rotate (self : Affine K) (th : K) : Affine K :=
  (self * (Affine.rotate th))

def Affine.pre_rotate_about (self : Affine K) (th : K) (center : Point K) : Affine K :=
  (self * (Affine.rotate_about th center))

def Affine.pre_scale (self : Affine K) (scale : K) : Affine K :=
  (self * (Affine.scale scale))

def Affine.pre_scale_non_uniform (self : Affine K) (scale_x scale_y : K) : Affine K :=
  (self * (Affine.scale_non_uniform scale_x scale_y))

def Affine.pre_translate (self : Affine K) (trans : Vec2 K) : Affine K :=
  (self * (Affine.translate trans))

def Affine.reflect (point : Point K) (direction : Vec2 K) : Affine K :=
  (let point := point; (let direction := direction; (let n := ({ x := direction.y, y := (-direction.x) } : Vec2 K).normalize; (let x2 := (n.x * n.x); (let xy := (n.x * n.y); (let y2 := (n.y * n.y); (let aff := (Affine.mk ((1 : K) - ((2 : K) * x2)) ((-(2 : K)) * xy) ((-(2 : K)) * xy) ((1 : K) - ((2 : K) * y2)) point.x point.y); (aff.pre_translate (-point.to_vec2)))))))))

def Affine.map_unit_square (rect : Rect K) : Affine K :=
  (Affine.mk rect.width (0 : K) (0 : K) rect.height rect.x0 rect.y0)

def Affine.determinant (self : Affine K) : K :=
  ((self.c0 * self.c3) - (self.c1 * self.c2))

def Affine.inverse (self : Affine K) : Affine K :=
  (let inv_det := (srecip self.determinant); (Affine.mk (inv_det * self.c3) ((-inv_det) * self.c1) ((-inv_det) * self.c2) (inv_det * self.c0) (inv_det * ((self.c2 * self.c5) - (self.c3 * self.c4))) (inv_det * ((self.c1 * self.c4) - (self.c0 * self.c5)))))

def Affine.transform_rect_bbox (self : Affine K) (rect : Rect K) : Rect K :=
  (let p00 := (self * (Point.new rect.x0 rect.y0)); (let p01 := (self * (Point.new rect.x0 rect.y1)); (let p10 := (self * (Point.new rect.x1 rect.y0)); (let p11 := (self * (Point.new rect.x1 rect.y1)); ((Rect.from_points p00 p01).union (Rect.from_points p10 p11))))))

def Affine.translation (self : Affine K) : Vec2 K :=
  ({ x := self.c4, y := self.c5 } : Vec2 K)

def Affine.with_translation (self : Affine K) (trans : Vec2 K) : Affine K :=
  (let self := { self with c4 := trans.x }; (let self := { self with c5 := trans.y }; self))

def Affine.mul_Line (self : Affine K) (other : Line K) : Line K :=
  ({ p0 := (self * other.p0), p1 := (self * other.p1) } : Line K)

instance : HMul (Affine K) (Line K) (Line K) := ⟨Affine.mul_Line⟩

def Affine.mul_QuadBez (self : Affine K) (other : QuadBez K) : QuadBez K :=
  ({ p0 := (self * other.p0), p1 := (self * other.p1), p2 := (self * other.p2) } : QuadBez K)

instance : HMul (Affine K) (QuadBez K) (QuadBez K) := ⟨Affine.mul_QuadBez⟩

def Affine.mul_CubicBez (self : Affine K) (c : CubicBez K) : CubicBez K :=
  ({ p0 := (self * c.p0), p1 := (self * c.p1), p2 := (self * c.p2), p3 := (self * c.p3) } : CubicBez K)

instance : HMul (Affine K) (CubicBez K) (CubicBez K) := ⟨Affine.mul_CubicBez⟩

def Affine.mul_PathSeg (self : Affine K) (other : PathSeg K) : PathSeg K :=
  (match other with | (PathSeg.Line line) => (PathSeg.Line (self * line)) | (PathSeg.Quad quad) => (PathSeg.Quad (self * quad)) | (PathSeg.Cubic cubic) => (PathSeg.Cubic (self * cubic)))

instance : HMul (Affine K) (PathSeg K) (PathSeg K) := ⟨Affine.mul_PathSeg⟩

def Affine.mul_PathEl (self : Affine K) (other : PathEl K) : PathEl K :=
  (match other with | (PathEl.MoveTo p) => (PathEl.MoveTo (self * p)) | (PathEl.LineTo p) => (PathEl.LineTo (self * p)) | (PathEl.QuadTo p1 p2) => (PathEl.QuadTo (self * p1) (self * p2)) | (PathEl.CurveTo p1 p2 p3) => (PathEl.CurveTo (self * p1) (self * p2) (self * p3)) | PathEl.ClosePath => PathEl.ClosePath)

instance : HMul (Affine K) (PathEl K) (PathEl K) := ⟨Affine.mul_PathEl⟩

def TranslateScale.translate (translation : Vec2 K) : TranslateScale K :=
  (TranslateScale.new translation (1 : K))

def TranslateScale.from_scale_about (scale : K) (focus : Point K) : TranslateScale K :=
  (let focus := focus.to_vec2; (let translation := (focus - (focus * scale)); (TranslateScale.new translation scale)))

def TranslateScale.inverse (self : TranslateScale K) : TranslateScale K :=
  (let scale_recip := (srecip self.scale); ({ translation := (self.translation * (-scale_recip)), scale := scale_recip } : TranslateScale K))

def TranslateScale.to_affine (ts : TranslateScale K) : Affine K :=
  (let ⟨translation, scale⟩ := ts; (Affine.mk scale (0 : K) (0 : K) scale translation.x translation.y))

def TranslateScale.mul_Point (self : TranslateScale K) (other : Point K) : Point K :=
  ((self.scale * other.to_vec2).to_point + self.translation)

instance : HMul (TranslateScale K) (Point K) (Point K) := ⟨TranslateScale.mul_Point⟩

def TranslateScale.mul_TranslateScale (self other : TranslateScale K) : TranslateScale K :=
  ({ translation := (self.translation + (self.scale * other.translation)), scale := (self.scale * other.scale) } : TranslateScale K)

instance : HMul (TranslateScale K) (TranslateScale K) (TranslateScale K) := ⟨TranslateScale.mul_TranslateScale⟩

def TranslateScale.add_Vec2 (self : TranslateScale K) (other : Vec2 K) : TranslateScale K :=
  ({ translation := (self.translation + other), scale := self.scale } : TranslateScale K)

def TranslateScale.sub_Vec2 (self : TranslateScale K) (other : Vec2 K) : TranslateScale K :=
  ({ translation := (self.translation - other), scale := self.scale } : TranslateScale K)

def TranslateScale.mul_Line (self : TranslateScale K) (other : Line K) : Line K :=
  (Line.new (self * other.p0) (self * other.p1))

def TranslateScale.mul_Rect (self : TranslateScale K) (other : Rect K) : Rect K :=
  (let pt0 := (self * (Point.new other.x0 other.y0)); (let pt1 := (self * (Point.new other.x1 other.y1)); (pt0, pt1)))

def TranslateScale.mul_QuadBez (self : TranslateScale K) (other : QuadBez K) : QuadBez K :=
  (QuadBez.new (self * other.p0) (self * other.p1) (self * other.p2))

def TranslateScale.mul_CubicBez (self : TranslateScale K) (other : CubicBez K) : CubicBez K :=
  (CubicBez.new (self * other.p0) (self * other.p1) (self * other.p2) (self * other.p3))

def Vec2.div_exact (self : Vec2 K) (divisor : K) : Vec2 K :=
  ({ x := (self.x / divisor), y := (self.y / divisor) } : Vec2 K)

def CubicBez.approx_quad_control (self : CubicBez K) (t : K) : Point K :=
  (let p1 := (self.p0 + ((self.p1 - self.p0) * (Scalar.ofRat (3/2 : Rat) : K))); (let p2 := (self.p3 + ((self.p2 - self.p3) * (Scalar.ofRat (3/2 : Rat) : K))); (p1.lerp p2 t)))

def CubicBez.parameters (self : CubicBez K) : Vec2 K × Vec2 K × Vec2 K × Vec2 K :=
  (let c := ((self.p1 - self.p0) * (3 : K)); (let b := (((self.p2 - self.p1) * (3 : K)) - c); (let d := self.p0.to_vec2; (let a := (((self.p3.to_vec2 - d) - c) - b); (a, b, c, d)))))

def CubicBez.from_parameters (a b c d : Vec2 K) : CubicBez K :=
  (let p0 := d.to_point; (let p1 := ((c.div_exact (3 : K)).to_point + d); (let p2 := (((b + c).div_exact (3 : K)).to_point + p1.to_vec2); (let p3 := (((a + d) + c) + b).to_point; (CubicBez.new p0 p1 p2 p3)))))

def CubicBez.subdivide_3 (self : CubicBez K) : CubicBez K × CubicBez K × CubicBez K :=
  (let (p0, p1, p2, p3) := (self.p0.to_vec2, self.p1.to_vec2, self.p2.to_vec2, self.p3.to_vec2); (let one_27th := (srecip (27 : K)); (let mid1 := ((((((8 : K) * p0) + ((12 : K) * p1)) + ((6 : K) * p2)) + p3) * one_27th).to_point; (let deriv1 := (((p3 + ((3 : K) * p2)) - ((4 : K) * p0)) * one_27th); (let mid2 := ((((p0 + ((6 : K) * p1)) + ((12 : K) * p2)) + ((8 : K) * p3)) * one_27th).to_point; (let deriv2 := (((((4 : K) * p3) - ((3 : K) * p1)) - p0) * one_27th); (let left := (CubicBez.new self.p0 ((((2 : K) * p0) + p1).div_exact (3 : K)).to_point (mid1 - deriv1) mid1); (let mid := (CubicBez.new mid1 (mid1 + deriv1) (mid2 - deriv2) mid2); (let right := (CubicBez.new mid2 (mid2 + deriv2) ((p2 + ((2 : K) * p3)).div_exact (3 : K)).to_point self.p3); (left, mid, right))))))))))

def momentIntegrals (c : CubicBez K) : K × K × K :=
  (let (x0, y0) := (c.p0.x, c.p0.y); (let (x1, y1) := ((c.p1.x - x0), (c.p1.y - y0)); (let (x2, y2) := ((c.p2.x - x0), (c.p2.y - y0)); (let (x3, y3) := ((c.p3.x - x0), (c.p3.y - y0)); (let r0 := ((3 : K) * x1); (let r1 := ((3 : K) * y1); (let r2 := (x2 * y3); (let r3 := (x3 * y2); (let r4 := (x3 * y3); (let r5 := ((27 : K) * y1); (let r6 := (x1 * x2); (let r7 := ((27 : K) * y2); (let r8 := ((45 : K) * r2); (let r9 := ((18 : K) * x3); (let r10 := (x1 * y1); (let r11 := ((30 : K) * x1); (let r12 := ((45 : K) * x3); (let r13 := (x2 * y1); (let r14 := ((45 : K) * r3); (let r15 := (spowi x1 2); (let r16 := ((18 : K) * y3); (let r17 := (spowi x2 2); (let r18 := ((45 : K) * y3); (let r19 := (spowi x3 2); (let r20 := ((30 : K) * y1); (let r21 := (spowi y2 2); (let r22 := (spowi y3 2); (let r23 := (spowi y1 2); (let a := ((((((((-r0) * y2) - (r0 * y3)) + (r1 * x2)) + (r1 * x3)) - ((6 : K) * r2)) + ((6 : K) * r3)) + ((10 : K) * r4)); (let lift := (x3 * y0); (let area := ((a * (Scalar.ofRat (1/20 : Rat) : K)) + lift); (let x := (((((((((((((((r10 * r9) - (r11 * r4)) + (r12 * r13)) + (r14 * x2)) - (r15 * r16)) - (r15 * r7)) - (r17 * r18)) + (r17 * r5)) + (r19 * r20)) + (((105 : K) * r19) * y2)) + (((280 : K) * r19) * y3)) - (((105 : K) * r2) * x3)) + (r5 * r6)) - (r6 * r7)) - (r8 * x1)); (let y := ((((((((((((((((-r10) * r16) - (r10 * r7)) - (r11 * r22)) + (r12 * r21)) + (r13 * r7)) + (r14 * y1)) - ((r18 * x1) * y2)) + (r20 * r4)) - (((27 : K) * r21) * x1)) - (((105 : K) * r22) * x2)) + (((140 : K) * r22) * x3)) + (r23 * r9)) + (((27 : K) * r23) * x2)) + (((105 : K) * r3) * y3)) - (r8 * y2)); (let mx := (((x * ((1 : K) / (840 : K))) + (x0 * area)) + (((Scalar.ofRat (1/2 : Rat) : K) * x3) * lift)); (let my := (((y * ((1 : K) / (420 : K))) + ((y0 * a) * (Scalar.ofRat (1/10 : Rat) : K))) + (y0 * lift)); (area, mx, my))))))))))))))))))))))))))))))))))))

def CubicOffset.new (c : CubicBez K) (d : K) : CubicOffset K :=
  (let q := c.deriv; (let d0 := q.p0.to_vec2; (let d1 := ((2 : K) * (q.p1 - q.p0)); (let d2 := ((q.p0.to_vec2 - ((2 : K) * q.p1.to_vec2)) + q.p2.to_vec2); ({ c := c, q := q, d := d, c0 := (d * (d1.cross d0)), c1 := ((d * (2 : K)) * (d2.cross d0)), c2 := (d * (d2.cross d1)) } : CubicOffset K)))))

def CubicOffset.eval_offset (self : CubicOffset K) (t : K) : Vec2 K :=
  (let dp := (self.q.eval t).to_vec2; (let norm := (Vec2.new (-dp.y) dp.x); ((norm * self.d) / dp.hypot)))

def CubicOffset.eval (self : CubicOffset K) (t : K) : Point K :=
  ((self.c.eval t) + (self.eval_offset t))

def CubicOffset.cusp_sign (self : CubicOffset K) (t : K) : K :=
  (let ds2 := (self.q.eval t).to_vec2.hypot2; ((((((self.c2 * t) + self.c1) * t) + self.c0) / (ds2 * (Scalar.sqrt ds2))) + (1 : K)))

def CubicOffset.eval_deriv (self : CubicOffset K) (t : K) : Vec2 K :=
  ((self.cusp_sign t) * (self.q.eval t).to_vec2)

def TranslateScale.scalar_mul (self : K) (other : TranslateScale K) : TranslateScale K :=
  ({ translation := (other.translation * self), scale := (other.scale * self) } : TranslateScale K)

def Affine.scalar_mul (self : K) (other : Affine K) : Affine K :=
  (Affine.mk (self * other.c0) (self * other.c1) (self * other.c2) (self * other.c3) (self * other.c4) (self * other.c5))

end Kurbo
