import Kurbo.Types
/-! The kernel model: output of tools/rs2lean.py on the pinned tree (committed; reviewed).
    `Kurbo/Gen/Kernel.lean` is the same translation of the *current* tree; `Proofs/GenEquiv.lean` proves them equal. -/
set_option linter.unusedVariables false
namespace Kurbo
open Ops
variable {K : Type} [Scalar K]

def Vec2.dot (self other : Vec2 K) : K :=
  ((self.x * other.x) + (self.y * other.y))

def Vec2.cross (self other : Vec2 K) : K :=
  ((self.x * other.y) - (self.y * other.x))

def Vec2.hypot2 (self : Vec2 K) : K :=
  (self.dot self)

def Vec2.hypot (self : Vec2 K) : K :=
  (Scalar.hypot self.x self.y)

def Vec2.atan2 (self : Vec2 K) : K :=
  (Scalar.atan2 self.y self.x)

def Vec2.lerp (self other : Vec2 K) (t : K) : Vec2 K :=
  (self + (t * (other - self)))

def Vec2.normalize (self : Vec2 K) : Vec2 K :=
  (self / self.hypot)

def Vec2.turn_90 (self : Vec2 K) : Vec2 K :=
  (Vec2.new (-self.y) self.x)

def Vec2.rotate_scale (self rhs : Vec2 K) : Vec2 K :=
  (Vec2.new ((self.x * rhs.x) - (self.y * rhs.y)) ((self.x * rhs.y) + (self.y * rhs.x)))

def Vec2.round (self : Vec2 K) : Vec2 K :=
  (Vec2.new (MRound.round self.x) (MRound.round self.y))

instance : MRound (Vec2 K) := ⟨Vec2.round⟩

def Vec2.ceil (self : Vec2 K) : Vec2 K :=
  (Vec2.new (MCeil.ceil self.x) (MCeil.ceil self.y))

instance : MCeil (Vec2 K) := ⟨Vec2.ceil⟩

def Vec2.floor (self : Vec2 K) : Vec2 K :=
  (Vec2.new (MFloor.floor self.x) (MFloor.floor self.y))

instance : MFloor (Vec2 K) := ⟨Vec2.floor⟩

def Vec2.expand (self : Vec2 K) : Vec2 K :=
  (Vec2.new (MExpand.expand self.x) (MExpand.expand self.y))

instance : MExpand (Vec2 K) := ⟨Vec2.expand⟩

def Vec2.trunc (self : Vec2 K) : Vec2 K :=
  (Vec2.new (MTrunc.trunc self.x) (MTrunc.trunc self.y))

instance : MTrunc (Vec2 K) := ⟨Vec2.trunc⟩

def Vec2.is_finite (self : Vec2 K) : Bool :=
  ((MIsFinite.is_finite self.x) && (MIsFinite.is_finite self.y))

instance : MIsFinite (Vec2 K) := ⟨Vec2.is_finite⟩

def Vec2.is_nan (self : Vec2 K) : Bool :=
  ((MIsNan.is_nan self.x) || (MIsNan.is_nan self.y))

instance : MIsNan (Vec2 K) := ⟨Vec2.is_nan⟩

def Point.lerp (self other : Point K) (t : K) : Point K :=
  (self.to_vec2.lerp other.to_vec2 t).to_point

def Point.midpoint (self other : Point K) : Point K :=
  (Point.new ((Scalar.ofRat (1/2 : Rat) : K) * (self.x + other.x)) ((Scalar.ofRat (1/2 : Rat) : K) * (self.y + other.y)))

def Point.distance (self other : Point K) : K :=
  (self - other).hypot

def Point.distance_squared (self other : Point K) : K :=
  (self - other).hypot2

def Point.round (self : Point K) : Point K :=
  (Point.new (MRound.round self.x) (MRound.round self.y))

instance : MRound (Point K) := ⟨Point.round⟩

def Point.ceil (self : Point K) : Point K :=
  (Point.new (MCeil.ceil self.x) (MCeil.ceil self.y))

instance : MCeil (Point K) := ⟨Point.ceil⟩

def Point.floor (self : Point K) : Point K :=
  (Point.new (MFloor.floor self.x) (MFloor.floor self.y))

instance : MFloor (Point K) := ⟨Point.floor⟩

def Point.expand (self : Point K) : Point K :=
  (Point.new (MExpand.expand self.x) (MExpand.expand self.y))

instance : MExpand (Point K) := ⟨Point.expand⟩

def Point.trunc (self : Point K) : Point K :=
  (Point.new (MTrunc.trunc self.x) (MTrunc.trunc self.y))

instance : MTrunc (Point K) := ⟨Point.trunc⟩

def Point.is_finite (self : Point K) : Bool :=
  ((MIsFinite.is_finite self.x) && (MIsFinite.is_finite self.y))

instance : MIsFinite (Point K) := ⟨Point.is_finite⟩

def Point.is_nan (self : Point K) : Bool :=
  ((MIsNan.is_nan self.x) || (MIsNan.is_nan self.y))

instance : MIsNan (Point K) := ⟨Point.is_nan⟩

def Size.round (self : Size K) : Size K :=
  (Size.new (MRound.round self.width) (MRound.round self.height))

instance : MRound (Size K) := ⟨Size.round⟩

def Size.ceil (self : Size K) : Size K :=
  (Size.new (MCeil.ceil self.width) (MCeil.ceil self.height))

instance : MCeil (Size K) := ⟨Size.ceil⟩

def Size.floor (self : Size K) : Size K :=
  (Size.new (MFloor.floor self.width) (MFloor.floor self.height))

instance : MFloor (Size K) := ⟨Size.floor⟩

def Size.expand (self : Size K) : Size K :=
  (Size.new (MExpand.expand self.width) (MExpand.expand self.height))

instance : MExpand (Size K) := ⟨Size.expand⟩

def Size.trunc (self : Size K) : Size K :=
  (Size.new (MTrunc.trunc self.width) (MTrunc.trunc self.height))

instance : MTrunc (Size K) := ⟨Size.trunc⟩

def Size.area (self : Size K) : K :=
  (self.width * self.height)

def Size.max_side (self : Size K) : K :=
  (smax self.width self.height)

def Size.min_side (self : Size K) : K :=
  (smin self.width self.height)

def Line.eval (self : Line K) (t : K) : Point K :=
  (self.p0.lerp self.p1 t)

def Line.subsegment (self : Line K) (range : Range K) : Line K :=
  ({ p0 := (self.eval range.start), p1 := (self.eval range.«end») } : Line K)

def Line.start (self : Line K) : Point K :=
  self.p0

def Line.end (self : Line K) : Point K :=
  self.p1

def Line.reversed (self : Line K) : Line K :=
  ({ p0 := self.p1, p1 := self.p0 } : Line K)

def Line.midpoint (self : Line K) : Point K :=
  (self.p0.midpoint self.p1)

def Line.arclen (self : Line K) (_accuracy : K) : K :=
  (self.p1 - self.p0).hypot

def Line.inv_arclen (self : Line K) (arclen _accuracy : K) : K :=
  (arclen / (self.p1 - self.p0).hypot)

def Line.signed_area (self : Line K) : K :=
  ((self.p0.to_vec2.cross self.p1.to_vec2) * (Scalar.ofRat (1/2 : Rat) : K))

def Line.nearest (self : Line K) (p : Point K) (_accuracy : K) : Nearest K :=
  (let d := (self.p1 - self.p0); (let dotp := (d.dot (p - self.p0)); (let d_squared := (d.dot d); (let (t, distance_sq) := (if (dotp <=. (0 : K)) then ((0 : K), (p - self.p0).hypot2) else (if (d_squared <=. dotp) then ((1 : K), (p - self.p1).hypot2) else (let t := (dotp / d_squared); (let dist := (p - (self.eval t)).hypot2; (t, dist))))); ({ distance_sq := distance_sq, t := t } : Nearest K)))))

def QuadBez.eval (self : QuadBez K) (t : K) : Point K :=
  (let mt := ((1 : K) - t); ((self.p0.to_vec2 * (mt * mt)) + (((self.p1.to_vec2 * (mt * (2 : K))) + (self.p2.to_vec2 * t)) * t)).to_point)

def QuadBez.subsegment (self : QuadBez K) (range : Range K) : QuadBez K :=
  (let (t0, t1) := (range.start, range.«end»); (let p0 := (self.eval t0); (let p2 := (self.eval t1); (let p1 := (p0 + (((self.p1 - self.p0).lerp (self.p2 - self.p1) t0) * (t1 - t0))); ({ p0 := p0, p1 := p1, p2 := p2 } : QuadBez K)))))

def QuadBez.subdivide (self : QuadBez K) : QuadBez K × QuadBez K :=
  (let pm := (self.eval (Scalar.ofRat (1/2 : Rat) : K)); ((QuadBez.new self.p0 (self.p0.midpoint self.p1) pm), (QuadBez.new pm (self.p1.midpoint self.p2) self.p2)))

def QuadBez.start (self : QuadBez K) : Point K :=
  self.p0

def QuadBez.end (self : QuadBez K) : Point K :=
  self.p2

def QuadBez.deriv (self : QuadBez K) : Line K :=
  (Line.new ((2 : K) * (self.p1.to_vec2 - self.p0.to_vec2)).to_point ((2 : K) * (self.p2.to_vec2 - self.p1.to_vec2)).to_point)

def QuadBez.signed_area (self : QuadBez K) : K :=
  ((((self.p0.x * (((2 : K) * self.p1.y) + self.p2.y)) + (((2 : K) * self.p1.x) * (self.p2.y - self.p0.y))) - (self.p2.x * (self.p0.y + ((2 : K) * self.p1.y)))) * ((1 : K) / (6 : K)))

def CubicBez.eval (self : CubicBez K) (t : K) : Point K :=
  (let mt := ((1 : K) - t); (let v := ((self.p0.to_vec2 * ((mt * mt) * mt)) + (((self.p1.to_vec2 * ((mt * mt) * (3 : K))) + (((self.p2.to_vec2 * (mt * (3 : K))) + (self.p3.to_vec2 * t)) * t)) * t)); v.to_point))

def CubicBez.deriv (self : CubicBez K) : QuadBez K :=
  (QuadBez.new ((3 : K) * (self.p1 - self.p0)).to_point ((3 : K) * (self.p2 - self.p1)).to_point ((3 : K) * (self.p3 - self.p2)).to_point)

def CubicBez.subsegment (self : CubicBez K) (range : Range K) : CubicBez K :=
  (let (t0, t1) := (range.start, range.«end»); (let p0 := (self.eval t0); (let p3 := (self.eval t1); (let d := self.deriv; (let scale := ((t1 - t0) * ((1 : K) / (3 : K))); (let p1 := (p0 + (scale * (d.eval t0).to_vec2)); (let p2 := (p3 - (scale * (d.eval t1).to_vec2)); ({ p0 := p0, p1 := p1, p2 := p2, p3 := p3 } : CubicBez K))))))))

def CubicBez.subdivide (self : CubicBez K) : CubicBez K × CubicBez K :=
  (let pm := (self.eval (Scalar.ofRat (1/2 : Rat) : K)); ((CubicBez.new self.p0 (self.p0.midpoint self.p1) (((self.p0.to_vec2 + (self.p1.to_vec2 * (2 : K))) + self.p2.to_vec2) * (Scalar.ofRat (1/4 : Rat) : K)).to_point pm), (CubicBez.new pm (((self.p1.to_vec2 + (self.p2.to_vec2 * (2 : K))) + self.p3.to_vec2) * (Scalar.ofRat (1/4 : Rat) : K)).to_point (self.p2.midpoint self.p3) self.p3)))

def CubicBez.start (self : CubicBez K) : Point K :=
  self.p0

def CubicBez.end (self : CubicBez K) : Point K :=
  self.p3

def CubicBez.signed_area (self : CubicBez K) : K :=
  ((((self.p0.x * ((((6 : K) * self.p1.y) + ((3 : K) * self.p2.y)) + self.p3.y)) + ((3 : K) * ((self.p1.x * ((((-(2 : K)) * self.p0.y) + self.p2.y) + self.p3.y)) - (self.p2.x * ((self.p0.y + self.p1.y) - ((2 : K) * self.p3.y)))))) - (self.p3.x * ((self.p0.y + ((3 : K) * self.p1.y)) + ((6 : K) * self.p2.y)))) * ((1 : K) / (20 : K)))

def QuadBez.raise (self : QuadBez K) : CubicBez K :=
  (CubicBez.new self.p0 (self.p0 + (((2 : K) / (3 : K)) * (self.p1 - self.p0))) (self.p2 + (((2 : K) / (3 : K)) * (self.p1 - self.p2))) self.p2)

def PathSeg.eval (self : PathSeg K) (t : K) : Point K :=
  (match self with | (PathSeg.Line line) => (line.eval t) | (PathSeg.Quad quad) => (quad.eval t) | (PathSeg.Cubic cubic) => (cubic.eval t))

def PathSeg.subsegment (self : PathSeg K) (range : Range K) : PathSeg K :=
  (match self with | (PathSeg.Line line) => (PathSeg.Line (line.subsegment range)) | (PathSeg.Quad quad) => (PathSeg.Quad (quad.subsegment range)) | (PathSeg.Cubic cubic) => (PathSeg.Cubic (cubic.subsegment range)))

def PathSeg.start (self : PathSeg K) : Point K :=
  (match self with | (PathSeg.Line line) => line.start | (PathSeg.Quad quad) => quad.start | (PathSeg.Cubic cubic) => cubic.start)

def PathSeg.end (self : PathSeg K) : Point K :=
  (match self with | (PathSeg.Line line) => line.«end» | (PathSeg.Quad quad) => quad.«end» | (PathSeg.Cubic cubic) => cubic.«end»)

def PathSeg.signed_area (self : PathSeg K) : K :=
  (match self with | (PathSeg.Line line) => line.signed_area | (PathSeg.Quad quad) => quad.signed_area | (PathSeg.Cubic cubic) => cubic.signed_area)

def PathSeg.as_path_el (self : PathSeg K) : PathEl K :=
  (match self with | (PathSeg.Line line) => (PathEl.LineTo line.p1) | (PathSeg.Quad q) => (PathEl.QuadTo q.p1 q.p2) | (PathSeg.Cubic c) => (PathEl.CurveTo c.p1 c.p2 c.p3))

def PathSeg.reverse (self : PathSeg K) : PathSeg K :=
  (match self with | (PathSeg.Line { p0 := p0, p1 := p1 }) => (PathSeg.Line (Line.new p1 p0)) | (PathSeg.Quad q) => (PathSeg.Quad (QuadBez.new q.p2 q.p1 q.p0)) | (PathSeg.Cubic c) => (PathSeg.Cubic (CubicBez.new c.p3 c.p2 c.p1 c.p0)))

def PathSeg.to_cubic (self : PathSeg K) : CubicBez K :=
  (match self with | (PathSeg.Line { p0 := p0, p1 := p1 }) => (CubicBez.new p0 p0 p1 p1) | (PathSeg.Cubic c) => c | (PathSeg.Quad q) => q.raise)

end Kurbo
