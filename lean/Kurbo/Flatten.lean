import Kurbo.Quads
/-! Hand-written model of `flatten` (bezpath.rs) with `QuadBez::estimate_subdiv`, `determine_subdiv_t` and the two parabola
    integral approximations (quadbez.rs).  C05. -/
namespace Kurbo
open Ops
variable {K : Type} [Scalar K]

structure FlattenParams (K : Type) where
  a0 : K
  a2 : K
  u0 : K
  uscale : K
  val : K

def paraD : Rat := 67/100
def paraB : Rat := 39/100
def toQuadTol : Rat := 1/10

/-- `approx_parabola_integral` -/
def approxParabolaIntegral (x : K) : K :=
  let d : K := Scalar.ofRat paraD
  x / ((1 : K) - d + Scalar.sqrt (Scalar.sqrt (spowi d 4 + (Scalar.ofRat (1/4) : K) * x * x)))

/-- `approx_parabola_inv_integral` -/
def approxParabolaInvIntegral (x : K) : K :=
  let b : K := Scalar.ofRat paraB
  x * ((1 : K) - b + Scalar.sqrt (b * b + (Scalar.ofRat (1/4) : K) * x * x))

/-- `QuadBez::estimate_subdiv` -/
def QuadBez.estimate_subdiv (self : QuadBez K) (sqrt_tol : K) : FlattenParams K :=
  let d01 := self.p1 - self.p0
  let d12 := self.p2 - self.p1
  let dd := d01 - d12
  let cross := (self.p2 - self.p0).cross dd
  let x0 := d01.dot dd * srecip cross
  let x2 := d12.dot dd * srecip cross
  let den := dd.hypot * (x2 - x0)
  let scale := sabs (cross / den)
  let a0 := approxParabolaIntegral x0
  let a2 := approxParabolaIntegral x2
  -- `scale.is_finite()`: scale is a quotient by `den` (for `cross = 0` the floats x0, x2 are infinite/NaN and so is `den` or
  -- `scale`; in a lawful field `cross = 0` gives x0 = x2 = 0 and den = 0, the same branch)
  let val := if Scalar.finQuot den scale then
      let da := sabs (a2 - a0)
      let sqrt_scale := Scalar.sqrt scale
      if Scalar.signum x0 ==. Scalar.signum x2 then da * sqrt_scale
      else
        let xmin := sqrt_tol / sqrt_scale
        sqrt_tol * da / approxParabolaIntegral xmin
    else (0 : K)
  let u0 := approxParabolaInvIntegral a0
  let u2 := approxParabolaInvIntegral a2
  let uscale := srecip (u2 - u0)
  { a0 := a0, a2 := a2, u0 := u0, uscale := uscale, val := val }

/-- `QuadBez::determine_subdiv_t` -/
def QuadBez.determine_subdiv_t (_self : QuadBez K) (params : FlattenParams K) (x : K) : K :=
  let a := params.a0 + (params.a2 - params.a0) * x
  let u := approxParabolaInvIntegral a
  (u - params.u0) * params.uscale

/-- the run emitted for a `QuadTo` when there is a current point -/
def flattenQuad (q : QuadBez K) (sqrt_tol : K) : List (PathEl K) :=
  let params := q.estimate_subdiv sqrt_tol
  let n0 := Scalar.toUSize (Scalar.ceil ((Scalar.ofRat (1/2) : K) * params.val / sqrt_tol))
  let n := if n0 < 1 then 1 else n0
  let step : K := (1 : K) / natK n
  ((List.range (n - 1)).map fun k =>
    let i := k + 1
    let u := natK i * step
    let t := q.determine_subdiv_t params u
    PathEl.LineTo (q.eval t)) ++ [PathEl.LineTo q.p2]

/-- state of the cubic emission loop: index `i` of the next point and the running `val_sum` -/
structure CubicFlatSt (K : Type) where
  i : Nat
  val_sum : K
  out : List (PathEl K)
  done : Bool        -- the `i == n + 1` break left the while loop (the for loop continues, adding val only)

/-- the `while target < val_sum + params.val` loop for one quadratic (fuelled by the number of points still allowed) -/
def cubicWhile (q : QuadBez K) (params : FlattenParams K) (step : K) (n : Nat) (val_sum recip_val : K) :
    Nat → Nat → List (PathEl K) → Nat × List (PathEl K)
  | 0, i, out => (i, out)
  | fuel + 1, i, out =>
    let target := natK i * step
    if target <. val_sum + params.val then
      let u := (target - val_sum) * recip_val
      let t := q.determine_subdiv_t params u
      let out' := out ++ [PathEl.LineTo (q.eval t)]
      let i' := i + 1
      if i' == n + 1 then (i', out') else cubicWhile q params step n val_sum recip_val fuel i' out'
    else (i, out)

/-- the run emitted for a `CurveTo` when there is a current point -/
def flattenCubic (c : CubicBez K) (tolerance sqrt_tol : K) : List (PathEl K) :=
  let quads := c.to_quads (tolerance * (Scalar.ofRat toQuadTol : K))
  let sqrt_remain_tol := sqrt_tol * Scalar.sqrt ((1 : K) - (Scalar.ofRat toQuadTol : K))
  let buf := quads.map fun (_, _, q) => (q, q.estimate_subdiv sqrt_remain_tol)
  let sum := buf.foldl (fun acc qp => acc + qp.2.val) (0 : K)
  let n0 := Scalar.toUSize (Scalar.ceil ((Scalar.ofRat (1/2) : K) * sum / sqrt_remain_tol))
  let n := if n0 < 1 then 1 else n0
  let step := sum / natK n
  let (_, _, out) := buf.foldl (fun (acc : Nat × K × List (PathEl K)) qp =>
      let (i, val_sum, out) := acc
      let (q, params) := qp
      let recip_val := srecip params.val
      -- once `i == n + 1` the inner loop can emit nothing more: `target = (n+1)·step > sum ≥ val_sum + val`… the crate
      -- re-enters the while with the stale `target` of the break; that target is ≥ the new one only if … (see note below)
      let (i', out') := cubicWhile q params step n val_sum recip_val (n + 2) i out
      (i', val_sum + params.val, out')) (1, (0 : K), [])
  out ++ [PathEl.LineTo c.p3]

/-- `flatten(path, tolerance, callback)`: the list of callback arguments.  State = (last_pt, start_pt). -/
def flatten (path : List (PathEl K)) (tolerance : K) : List (PathEl K) :=
  let sqrt_tol := Scalar.sqrt tolerance
  let (_, _, out) := path.foldl (fun (acc : Option (Point K) × Option (Point K) × List (PathEl K)) el =>
      let (last_pt, start_pt, out) := acc
      match el with
      | .MoveTo p => (some p, some p, out ++ [.MoveTo p])
      | .LineTo p => (some p, start_pt, out ++ [.LineTo p])
      | .QuadTo p1 p2 =>
        match last_pt with
        | some p0 => (some p2, start_pt, out ++ flattenQuad ⟨p0, p1, p2⟩ sqrt_tol)
        | none => (some p2, start_pt, out)
      | .CurveTo p1 p2 p3 =>
        match last_pt with
        | some p0 => (some p3, start_pt, out ++ flattenCubic ⟨p0, p1, p2, p3⟩ tolerance sqrt_tol)
        | none => (some p3, start_pt, out)
      | .ClosePath => (start_pt, start_pt, out ++ [.ClosePath])) (none, none, [])
  out

end Kurbo
