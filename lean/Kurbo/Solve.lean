import Kurbo.Scalar
/-! Hand-written model of the polynomial solvers of common.rs: `solve_quadratic`, `solve_cubic`, the reductions of
    `solve_quartic`, and the ITP bracketing solver `solve_itp` (fuelled).  `ArrayVec` results are lists.
    The "divide first, test `is_finite()` afterwards" idiom is modelled through `Scalar.finQuot` (see Scalar.lean). -/
namespace Kurbo
open Ops
variable {K : Type} [Scalar K]

/-- `common::solve_quadratic` -/
def solveQuadratic (c0 c1 c2 : K) : List K :=
  let sc0 := c0 * srecip c2
  let sc1 := c1 * srecip c2
  if !(Scalar.finQuot c2 sc0) || !(Scalar.finQuot c2 sc1) then
    -- c2 is zero or very small, treat as linear eqn
    let root := -c0 / c1
    if Scalar.finQuot c1 root then [root]
    else if (c0 ==. (0 : K)) && (c1 ==. (0 : K)) then [(0 : K)]
    else []
  else
    let arg := sc1 * sc1 - (4 : K) * sc0
    if !(Scalar.fin arg) then
      let root1 := -sc1
      let root2 := sc0 / root1
      if Scalar.finQuot root1 root2 then (if root1 <. root2 then [root1, root2] else [root2, root1]) else [root1]
    else if arg <. (0 : K) then []
    else if arg ==. (0 : K) then [(-(Scalar.ofRat (1/2) : K)) * sc1]
    else
      let root1 := (-(Scalar.ofRat (1/2) : K)) * (sc1 + Scalar.copysign (Scalar.sqrt arg) sc1)
      let root2 := sc0 / root1
      if Scalar.finQuot root1 root2 then (if root1 <. root2 then [root1, root2] else [root2, root1]) else [root1]

/-- `common::solve_cubic` -/
def solveCubic (c0 c1 c2 c3 : K) : List K :=
  let c3_recip := srecip c3
  let onethird : K := (1 : K) / (3 : K)
  let scaled_c2 := c2 * (onethird * c3_recip)
  let scaled_c1 := c1 * (onethird * c3_recip)
  let scaled_c0 := c0 * c3_recip
  if !(Scalar.finQuot c3 scaled_c0 && Scalar.finQuot c3 scaled_c1 && Scalar.finQuot c3 scaled_c2) then
    solveQuadratic c0 c1 c2
  else
    let c0 := scaled_c0
    let c1 := scaled_c1
    let c2 := scaled_c2
    let d0 := smulAdd (-c2) c2 c1
    let d1 := smulAdd (-c1) c2 c0
    let d2 := c2 * c0 - c1 * c1
    let d := (4 : K) * d0 * d2 - d1 * d1
    let de := smulAdd ((-(2 : K)) * c2) d0 d1
    if d <. (0 : K) then
      let sq := Scalar.sqrt ((-(Scalar.ofRat (1/4) : K)) * d)
      let r := (-(Scalar.ofRat (1/2) : K)) * de
      let t1 := Scalar.cbrt (r + sq) + Scalar.cbrt (r - sq)
      [t1 - c2]
    else if d ==. (0 : K) then
      let t1 := Scalar.copysign (Scalar.sqrt (-d0)) de
      [t1 - c2, (-(2 : K)) * t1 - c2]
    else
      let th := Scalar.atan2 (Scalar.sqrt d) (-de) * onethird
      let th_sin := Scalar.sin th
      let th_cos := Scalar.cos th
      let r0 := th_cos
      let ss3 := th_sin * Scalar.sqrt (3 : K)
      let r1 := (Scalar.ofRat (1/2) : K) * (-th_cos + ss3)
      let r2 := (Scalar.ofRat (1/2) : K) * (-th_cos - ss3)
      let t := (2 : K) * Scalar.sqrt (-d0)
      [smulAdd t r0 (-c2), smulAdd t r1 (-c2), smulAdd t r2 (-c2)]

/-- the biquadratic branch of `solve_quartic` (`a == 0 && c == 0` after division by `c4`): `x⁴ + b x² + d` -/
def solveBiquadratic (b d : K) : List K :=
  (solveQuadratic d b (1 : K)).flatMap fun y => if (0 : K) <. y then [-(Scalar.sqrt y), Scalar.sqrt y] else []

/-- the three reductions at the head of `common::solve_quartic`; the general case is delegated to `inner`
    (the LDLᵀ factorisation `solve_quartic_inner` with rescaling, not transcribed) -/
def solveQuarticWith (inner : K → K → K → K → K → List K) (c0 c1 c2 c3 c4 : K) : List K :=
  if c4 ==. (0 : K) then solveCubic c0 c1 c2 c3
  else if c0 ==. (0 : K) then solveCubic c1 c2 c3 c4 ++ [(0 : K)]
  else if (c3 / c4 ==. (0 : K)) && (c1 / c4 ==. (0 : K)) then solveBiquadratic (c2 / c4) (c0 / c4)   -- biquadratic: quadratic in x²
  else inner c0 c1 c2 c3 c4

/-- loop state of `solve_itp` -/
structure ItpSt (K : Type) where
  a : K
  b : K
  ya : K
  yb : K
  scaled_epsilon : K

/-- one iteration of the `while b - a > 2 ε` loop: `Sum.inl x` = return `x` now, `Sum.inr st` = continue -/
def itpStep (f : K → K) (epsilon k1 : K) (st : ItpSt K) : K ⊕ ItpSt K :=
  let a := st.a
  let b := st.b
  let x1_2 := (Scalar.ofRat (1/2) : K) * (a + b)
  let r := st.scaled_epsilon - (Scalar.ofRat (1/2) : K) * (b - a)
  let xf := (st.yb * a - st.ya * b) / (st.yb - st.ya)
  let sigma := x1_2 - xf
  let delta := k1 * spowi (b - a) 2
  let xt := if delta <=. sabs (x1_2 - xf) then xf + Scalar.copysign delta sigma else x1_2
  let xitp := if sabs (xt - x1_2) <=. r then xt else x1_2 - Scalar.copysign r sigma
  let yitp := f xitp
  if (0 : K) <. yitp then .inr { st with b := xitp, yb := yitp, scaled_epsilon := st.scaled_epsilon * (Scalar.ofRat (1/2) : K) }
  else if yitp <. (0 : K) then .inr { st with a := xitp, ya := yitp, scaled_epsilon := st.scaled_epsilon * (Scalar.ofRat (1/2) : K) }
  else .inl xitp

/-- the loop, with fuel (the theorem `itp_iterations` bounds the iterations by `nmax + 1`) -/
def itpLoop (f : K → K) (epsilon k1 : K) : Nat → ItpSt K → K
  | 0, st => (Scalar.ofRat (1/2) : K) * (st.a + st.b)
  | fuel + 1, st =>
    if (2 : K) * epsilon <. st.b - st.a then
      match itpStep f epsilon k1 st with
      | .inl x => x
      | .inr st' => itpLoop f epsilon k1 fuel st'
    else (Scalar.ofRat (1/2) : K) * (st.a + st.b)

/-- `common::solve_itp` (pure `f`); `nmax = n0 + max(ceil(log2((b-a)/ε)) - 1, 0)` is computed by the caller of the model
    through `Scalar.log2` -/
def solveItp (f : K → K) (a b epsilon : K) (n0 : Nat) (k1 ya yb : K) : K :=
  let n1_2 := Scalar.toUSize (smax (Scalar.ceil (Scalar.log2 ((b - a) / epsilon)) - (1 : K)) (0 : K))
  let nmax := n0 + n1_2
  let scaled_epsilon := epsilon * (Scalar.ofRat ((2 ^ nmax : Nat) : Rat) : K)
  itpLoop f epsilon k1 (nmax + 64) { a := a, b := b, ya := ya, yb := yb, scaled_epsilon := scaled_epsilon }

end Kurbo
