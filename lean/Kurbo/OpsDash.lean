import Kurbo.Driver
import Kurbo.Dash
/-! protocol ops for arc length (C03) and dashing (C13) -/
namespace Kurbo.Driver
open Kurbo Kurbo.Ops
variable {K : Type} [Scalar K] [Codec K]

partial def rdNums : Nat → Rd (List K)
  | 0 => pure []
  | k + 1 => do let c : K ← num; let r ← rdNums k; pure (c :: r)

def opsDash (op : String) : Option (Rd String) :=
  match op with
  | "seg.arclen" => some do let s : PathSeg K ← seg; let acc : K ← num; return e (s.arclen acc)
  | "seg.inv_arclen" => some do
      let s : PathSeg K ← seg; let len : K ← num; let acc : K ← num
      return e (s.inv_arclen len acc)
  | "cubic.arclen_work" => some do let c : CubicBez K ← cubic; let acc : K ← num; return s!"{e (c.arclen acc)} {c.arclenCalls acc}"
  | "path.perimeter" => some do
      let acc : K ← num; let p : List (PathEl K) ← els
      match pathPerimeter p acc with
      | none => return "PANIC"
      | some x => return e x
  | "path.dash" => some do
      let off : K ← num; let n ← nat; let pat : List K ← rdNums n; let p : List (PathEl K) ← els
      match dash p off pat.toArray with
      | .ok out => return "ok " ++ eEls out
      | .panic => return "PANIC"
      | .outOfFuel => return "OUT-OF-FUEL"
  | _ => none

end Kurbo.Driver
