import Kurbo.Arclen
/-! Hand-written model of the dash iterator (stroke.rs `dash`, `dash_impl`, `DashIterator`): all four states, the stash,
    close-path handling and phase reset.  C13, C14. -/
namespace Kurbo
open Ops
variable {K : Type} [Scalar K]

inductive DashState where
  | NeedInput | ToStash | Working | FromStash
  deriving DecidableEq, Repr

def dashAccuracy : Rat := 1/1000000

structure DashIt (K : Type) where
  inner : List (PathEl K)
  input_done : Bool := false
  closepath_pending : Bool := false
  dashes : Array K
  dash_ix : Nat
  init_dash_ix : Nat
  init_dash_remaining : K
  init_is_active : Bool
  is_active : Bool
  state : DashState := .NeedInput
  current_seg : PathSeg K
  t : K
  dash_remaining : K
  seg_remaining : K
  start_pt : Point K
  last_pt : Point K
  stash : Array (PathEl K) := #[]
  stash_ix : Nat := 0

/-- `dashes[i]` (a Rust index panic is modelled by `none`) -/
def dashAt (d : Array K) (i : Nat) : Option K := d[i]?

/-- the `while dash_remaining < 0.0` loop of `dash_impl` (fuelled; `none` = index panic on an empty pattern) -/
def dashInitLoop (dashes : Array K) : Nat → Nat → K → Bool → Option (Nat × K × Bool)
  | 0, ix, rem, act => some (ix, rem, act)
  | fuel + 1, ix, rem, act =>
    if rem <. (0 : K) then
      let ix' := (ix + 1) % dashes.size
      match dashAt dashes ix' with
      | none => none
      | some d => dashInitLoop dashes fuel ix' (rem + d) (!act)
    else some (ix, rem, act)

/-- `dash_impl` -/
def dashImpl (inner : List (PathEl K)) (dash_offset : K) (dashes : Array K) (fuel : Nat := 100000) : Option (DashIt K) :=
  match dashAt dashes 0 with
  | none => none
  | some d0 =>
    match dashInitLoop dashes fuel 0 (d0 - dash_offset) true with
    | none => none
    | some (dash_ix, dash_remaining, is_active) =>
      some { inner := inner, dashes := dashes, dash_ix := dash_ix, init_dash_ix := dash_ix, init_dash_remaining := dash_remaining,
             init_is_active := is_active, is_active := is_active, current_seg := .Line ⟨⟨0, 0⟩, ⟨0, 0⟩⟩, t := (0 : K),
             dash_remaining := dash_remaining, seg_remaining := (0 : K), start_pt := ⟨0, 0⟩, last_pt := ⟨0, 0⟩ }

def DashIt.reset_phase (s : DashIt K) : DashIt K :=
  { s with dash_ix := s.init_dash_ix, dash_remaining := s.init_dash_remaining, is_active := s.init_is_active }

def DashIt.handle_closepath (s : DashIt K) : DashIt K :=
  let s := if s.state == .ToStash then { s with stash := s.stash.push .ClosePath }
           else if s.is_active then { s with stash_ix := 1 } else s
  ({ s with state := .FromStash } : DashIt K).reset_phase

/-- body of `get_input` after the `closepath_pending` test; the Rust `loop` only repeats on `MoveTo` (and on a `ClosePath` that
    closes a sub-path without segments; first argument = the local `subpath_is_empty`): structural recursion on the remaining input.  The trailing `self.t = 0.0` is skipped by the early `return` at the end of input. -/
def getInputList : Bool → List (PathEl K) → DashIt K → DashIt K
  | _, [], s => { s with inner := [], input_done := true, state := .FromStash }
  | subpath_is_empty, el :: rest, s =>
    let s := { s with inner := rest }
    let p0 := s.last_pt
    let acc : K := Scalar.ofRat dashAccuracy
    match el with
    | .MoveTo p =>
      let s := if !s.stash.isEmpty then { s with state := .FromStash } else s
      getInputList true rest ({ s with start_pt := p, last_pt := p } : DashIt K).reset_phase
    | .LineTo p1 =>
      let l : Line K := ⟨p0, p1⟩
      { s with seg_remaining := l.arclen acc, current_seg := .Line l, last_pt := p1, t := (0 : K) }
    | .QuadTo p1 p2 =>
      let q : QuadBez K := ⟨p0, p1, p2⟩
      { s with seg_remaining := q.arclen acc, current_seg := .Quad q, last_pt := p2, t := (0 : K) }
    | .CurveTo p1 p2 p3 =>
      let c : CubicBez K := ⟨p0, p1, p2, p3⟩
      { s with seg_remaining := c.arclen acc, current_seg := .Cubic c, last_pt := p3, t := (0 : K) }
    | .ClosePath =>
      -- closing a sub-path that has no segments: nothing to dash, nothing to join
      if subpath_is_empty then getInputList true rest s else
      let s := { s with closepath_pending := true }
      if !(p0.peq s.start_pt) then
        let l : Line K := ⟨p0, s.start_pt⟩
        { s with seg_remaining := l.arclen acc, current_seg := .Line l, last_pt := s.start_pt, t := (0 : K) }
      else { s.handle_closepath with t := (0 : K) }

/-- `get_input` -/
def DashIt.get_input (s : DashIt K) : DashIt K :=
  if s.closepath_pending then { s.handle_closepath with t := (0 : K) } else getInputList false s.inner s

/-- `seg_to_el` -/
def segToEl : PathSeg K → PathEl K
  | .Line l => .LineTo l.p1
  | .Quad q => .QuadTo q.p1 q.p2
  | .Cubic c => .CurveTo c.p1 c.p2 c.p3

/-- `step`; `none` as state = index panic (`self.dashes[self.dash_ix]`) -/
def DashIt.step (s : DashIt K) : Option (Option (PathEl K) × DashIt K) :=
  let acc : K := Scalar.ofRat dashAccuracy
  if s.state == .ToStash && s.stash.isEmpty then
    if s.is_active then some (some (.MoveTo s.current_seg.start), s)
    else some (none, { s with state := .Working })
  else if s.dash_remaining <. s.seg_remaining then
    let seg := s.current_seg.subsegment ⟨s.t, (1 : K)⟩
    let t1 := seg.inv_arclen s.dash_remaining acc
    let (res, s) : Option (PathEl K) × DashIt K :=
      if s.is_active then (some (segToEl (seg.subsegment ⟨(0 : K), t1⟩)), { s with state := .Working })
      else (some (.MoveTo (seg.eval t1)), s)
    let s := { s with is_active := !s.is_active, t := s.t + t1 * ((1 : K) - s.t), seg_remaining := s.seg_remaining - s.dash_remaining }
    let ix := if s.dash_ix + 1 == s.dashes.size then 0 else s.dash_ix + 1
    match dashAt s.dashes ix with
    | none => none
    | some d => some (res, { s with dash_ix := ix, dash_remaining := d })
  else
    let (res, s) : Option (PathEl K) × DashIt K :=
      if s.is_active then
        let el := segToEl (s.current_seg.subsegment ⟨s.t, (1 : K)⟩)
        -- `get_input` appends `ClosePath` to the stash when the sub-path ends here without a dash break; this segment goes
        -- before that (repair 7127469)
        if s.state == .ToStash then (none, { s with stash := s.stash.push el }) else (some el, s)
      else (none, s)
    let s := { s with dash_remaining := s.dash_remaining - s.seg_remaining }
    some (res, s.get_input)

/-- result of one `Iterator::next` call -/
inductive DashNext (K : Type) where
  | some (el : PathEl K) (s : DashIt K)
  | none (s : DashIt K)
  | panic
  | outOfFuel

/-- `Iterator::next` with fuel for the inner `loop` -/
def DashIt.next : Nat → DashIt K → DashNext K
  | 0, _ => .outOfFuel
  | fuel + 1, s =>
    match s.state with
    | .NeedInput =>
      if s.input_done then .none s else
      let s := s.get_input
      if s.input_done then .none s
      else if s.state == .FromStash then DashIt.next fuel s     -- a sub-path without segments was closed by `get_input` itself
      else DashIt.next fuel { s with state := .ToStash }
    | .ToStash =>
      match s.step with
      | none => .panic
      | some (some el, s) => DashIt.next fuel { s with stash := s.stash.push el }
      | some (none, s) => DashIt.next fuel s
    | .Working =>
      match s.step with
      | none => .panic
      | some (some el, s) => .some el s
      | some (none, s) => DashIt.next fuel s
    | .FromStash =>
      match s.stash[s.stash_ix]? with
      | some el => .some el { s with stash_ix := s.stash_ix + 1 }
      | none =>
        let s := { s with stash := #[], stash_ix := 0 }
        if s.input_done then .none s
        else if s.closepath_pending then DashIt.next fuel { s with closepath_pending := false, state := .NeedInput }
        else DashIt.next fuel { s with state := .ToStash }

inductive DashRes (K : Type) where
  | ok (els : List (PathEl K))
  | panic
  | outOfFuel

/-- `dash(inner, offset, dashes).collect()` with an output budget -/
def dashCollect : Nat → DashIt K → List (PathEl K) → DashRes K
  | 0, _, _ => .outOfFuel
  | n + 1, s, acc =>
    match s.next 100000 with
    | .some el s' => dashCollect n s' (el :: acc)
    | .none _ => .ok acc.reverse
    | .panic => .panic
    | .outOfFuel => .outOfFuel

def dash (inner : List (PathEl K)) (dash_offset : K) (dashes : Array K) (budget : Nat := 100000) : DashRes K :=
  match dashImpl inner dash_offset dashes with
  | none => .panic
  | some it => dashCollect budget it []

end Kurbo
