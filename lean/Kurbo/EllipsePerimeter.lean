import Kurbo.Shapes
/-! Hand-written model of `Ellipse::perimeter` (ellipse.rs): the truncated Kummer series with its remainder bound, and the
    arithmetic-geometric-mean iteration `agm_elliptic_perimeter` (the only unbounded loop of the shape queries).  C11, C14.

    Same order of floating-point operations as the Rust.  `x.powi(2)` is `x * x` (`spowi`), `h.powi(7)` is the binary
    powering `(h·h²)·h⁴` that LLVM emits for a constant exponent (checked against the crate at the Kummer/AGM switch).
    The loop takes fuel; it returns the state at exit and the number of times the loop body was entered (the work counter
    `verif_hooks::tick()` sits at the top of the body). -/
namespace Kurbo
open Ops
variable {K : Type} [Scalar K]

/-- `h.powi(7)` with a literal exponent: `res = h; sq = h·h; res = res·sq; sq = sq·sq; res = res·sq` -/
def powi7 (h : K) : K :=
  let h2 := h * h
  let h4 := h2 * h2
  (h * h2) * h4

/-- `kummer_elliptic_perimeter` -/
def kummerEllipticPerimeter (radii : Vec2 K) : K :=
  let x := radii.x
  let y := radii.y
  let h := spowi ((x - y) / (x + y)) 2
  let h2 := h * h
  let h3 := h2 * h
  let h4 := h3 * h
  let h5 := h4 * h
  let h6 := h5 * h
  let pi : K := Scalar.pi
  let lower := pi
    + h * (pi / (4 : K))
    + h2 * (pi / (64 : K))
    + h3 * (pi / (256 : K))
    + h4 * (pi * (25 : K) / (16384 : K))
    + h5 * (pi * (49 : K) / (65536 : K))
    + h6 * (pi * (441 : K) / (1048576 : K))
  (x + y) * lower

/-- `BINOM_SQUARED_REMAINDER = 0.00101416479131503` -/
def binomSquaredRemainder : K := Scalar.ofRat (101416479131503 / 100000000000000000 : Rat)

/-- `kummer_elliptic_perimeter_range` -/
def kummerEllipticPerimeterRange (radii : Vec2 K) : K :=
  let x := radii.x
  let y := radii.y
  let h := spowi ((x - y) / (x + y)) 2
  (Scalar.pi : K) * binomSquaredRemainder * powi7 h * (x + y)

/-- the mutable variables of the loop of `agm_elliptic_perimeter` -/
structure AgmState (K : Type) where
  sum : K
  a : K
  g : K
  c : K
  mul : K
deriving Repr

/-- the state before the first pass: `sum = 1, a = 1, g = y/x, c = √(1 − g²), mul = 0.5` (for `x ≥ y`) -/
def agmState (x y : K) : AgmState K :=
  let g := y / x
  { sum := (1 : K), a := (1 : K), g := g, c := Scalar.sqrt ((1 : K) - spowi g 2), mul := (Scalar.ofRat (1/2) : K) }

/-- `term = mul * c.powi(2)` of the current pass -/
def AgmState.term (s : AgmState K) : K := s.mul * spowi s.c 2

/-- the stopping test of the current pass: `term <= accuracy * g` -/
def AgmState.stops (accuracy : K) (s : AgmState K) : Bool := s.term <=. accuracy * s.g

/-- a pass that leaves by `break`: `sum -= term; sum -= term; a = (a + g) / 2.` (the last assignment since 93c0fd9: the value is
    divided by the NEXT arithmetic mean, not by the current one) -/
def agmExit (s : AgmState K) : AgmState K :=
  { s with sum := s.sum - s.term - s.term, a := (s.a + s.g) / (2 : K) }

/-- a pass that does not stop: `sum -= term; mul *= 2; c = (a − g)/2; a_next = (a + g)/2; g = √(a·g); a = a_next` -/
def agmStep (s : AgmState K) : AgmState K :=
  { sum := s.sum - s.term
    mul := s.mul * (2 : K)
    c := (s.a - s.g) / (2 : K)
    a := (s.a + s.g) / (2 : K)
    g := Scalar.sqrt (s.a * s.g) }

/-- the `loop { … }` with fuel; `n` counts the passes entered so far.  Out of fuel: the current state is returned as it is. -/
def agmLoop (accuracy : K) : Nat → Nat → AgmState K → AgmState K × Nat
  | 0, n, s => (s, n)
  | fuel + 1, n, s =>
    if s.stops accuracy then (agmExit s, n + 1)
    else agmLoop accuracy fuel (n + 1) (agmStep s)

/-- `agm_elliptic_perimeter` with fuel: the value and the number of passes of the loop -/
def agmEllipticPerimeterFuel (fuel : Nat) (accuracy : K) (radii : Vec2 K) : K × Nat :=
  let (x, y) : K × K := if radii.y <=. radii.x then (radii.x, radii.y) else (radii.y, radii.x)
  let accuracy := accuracy / ((2 : K) * (Scalar.pi : K) * x)
  let (s, n) := agmLoop accuracy fuel 0 (agmState x y)
  ((2 : K) * (Scalar.pi : K) * x / s.a * s.sum, n)

/-- fuel of the executable model: far above the pass counts that occur for `accuracy > 0` (binary64: below 70) -/
def agmFuel : Nat := 4096

/-- `agm_elliptic_perimeter` -/
def agmEllipticPerimeter (accuracy : K) (radii : Vec2 K) : K := (agmEllipticPerimeterFuel agmFuel accuracy radii).1

/-- `f64::NAN` (only produced under `Float`: a lawful scalar never takes this branch) -/
def nanK : K := (0 : K) / (0 : K)

/-- `Ellipse::perimeter` with fuel for the AGM loop: value and number of loop passes (0 when the loop is not reached) -/
def Ellipse.perimeterFuel (fuel : Nat) (e : Ellipse K) (accuracy : K) : K × Nat :=
  let radii := e.radii
  if !(MIsFinite.is_finite e.radii) then (nanK, 0)
  else if (radii.x ==. (0 : K)) || (radii.y ==. (0 : K)) then ((4 : K) * smax radii.x radii.y, 0)
  else if kummerEllipticPerimeterRange radii <=. accuracy then (kummerEllipticPerimeter radii, 0)
  else agmEllipticPerimeterFuel fuel accuracy radii

/-- `impl Shape for Ellipse`: `perimeter` -/
def Ellipse.perimeter (e : Ellipse K) (accuracy : K) : K := (e.perimeterFuel agmFuel accuracy).1

end Kurbo
