import Kurbo.Scalar
/-! Data types of kurbo and the operator overloads between them (hand-written; tied to the crate by the
    correspondence ops `vec.*`).  Everything else about these types is regenerated from the Rust source. -/
namespace Kurbo
open Ops

structure Vec2 (K : Type) where
  x : K
  y : K
deriving Repr, BEq, DecidableEq

structure Point (K : Type) where
  x : K
  y : K
deriving Repr, BEq, DecidableEq

structure Size (K : Type) where
  width : K
  height : K
deriving Repr, BEq, DecidableEq

structure Rect (K : Type) where
  x0 : K
  y0 : K
  x1 : K
  y1 : K
deriving Repr, BEq, DecidableEq

structure Insets (K : Type) where
  x0 : K
  y0 : K
  x1 : K
  y1 : K
deriving Repr, BEq, DecidableEq

/-- `Range<f64>` -/
structure Range (K : Type) where
  start : K
  «end» : K
deriving Repr

structure Line (K : Type) where
  p0 : Point K
  p1 : Point K
deriving Repr, BEq, DecidableEq

structure QuadBez (K : Type) where
  p0 : Point K
  p1 : Point K
  p2 : Point K
deriving Repr, BEq, DecidableEq

structure CubicBez (K : Type) where
  p0 : Point K
  p1 : Point K
  p2 : Point K
  p3 : Point K
deriving Repr, BEq, DecidableEq

/-- `Affine([f64; 6])`; `self.0[i]` is field `ci` -/
structure Affine (K : Type) where
  c0 : K
  c1 : K
  c2 : K
  c3 : K
  c4 : K
  c5 : K
deriving Repr, BEq, DecidableEq

structure TranslateScale (K : Type) where
  translation : Vec2 K
  scale : K
deriving Repr, BEq, DecidableEq

/-- `offset::CubicOffset` -/
structure CubicOffset (K : Type) where
  c : CubicBez K
  q : QuadBez K
  d : K
  c0 : K
  c1 : K
  c2 : K
deriving Repr

structure Nearest (K : Type) where
  distance_sq : K
  t : K
deriving Repr

structure Triangle (K : Type) where
  a : Point K
  b : Point K
  c : Point K
deriving Repr

structure Circle (K : Type) where
  center : Point K
  radius : K
deriving Repr

structure CircleSegment (K : Type) where
  center : Point K
  outer_radius : K
  inner_radius : K
  start_angle : K
  sweep_angle : K
deriving Repr

structure Ellipse (K : Type) where
  inner : Affine K
deriving Repr

structure RoundedRectRadii (K : Type) where
  top_left : K
  top_right : K
  bottom_right : K
  bottom_left : K
deriving Repr

structure RoundedRect (K : Type) where
  rect : Rect K
  radii : RoundedRectRadii K
deriving Repr

structure Arc (K : Type) where
  center : Point K
  radii : Vec2 K
  start_angle : K
  sweep_angle : K
  x_rotation : K
deriving Repr

inductive PathEl (K : Type) where
  | MoveTo (p : Point K)
  | LineTo (p : Point K)
  | QuadTo (p1 p2 : Point K)
  | CurveTo (p1 p2 p3 : Point K)
  | ClosePath
deriving Repr, BEq, DecidableEq

inductive PathSeg (K : Type) where
  | Line (l : Line K)
  | Quad (q : QuadBez K)
  | Cubic (c : CubicBez K)
deriving Repr, BEq, DecidableEq

section ops
variable {K : Type} [Scalar K]

-- vec2.rs
instance : HAdd (Vec2 K) (Vec2 K) (Vec2 K) := ⟨fun a b => ⟨a.x + b.x, a.y + b.y⟩⟩
instance : HSub (Vec2 K) (Vec2 K) (Vec2 K) := ⟨fun a b => ⟨a.x - b.x, a.y - b.y⟩⟩
instance : HMul (Vec2 K) K (Vec2 K) := ⟨fun a t => ⟨a.x * t, a.y * t⟩⟩
/-- `impl Mul<Vec2> for f64`: `other * self` -/
instance : HMul K (Vec2 K) (Vec2 K) := ⟨fun t a => ⟨a.x * t, a.y * t⟩⟩
/-- `impl Div<f64> for Vec2`: `self * other.recip()` -/
instance : HDiv (Vec2 K) K (Vec2 K) := ⟨fun a t => ⟨a.x * srecip t, a.y * srecip t⟩⟩
instance : Neg (Vec2 K) := ⟨fun a => ⟨-a.x, -a.y⟩⟩
-- point.rs
instance : HAdd (Point K) (Vec2 K) (Point K) := ⟨fun a b => ⟨a.x + b.x, a.y + b.y⟩⟩
instance : HSub (Point K) (Vec2 K) (Point K) := ⟨fun a b => ⟨a.x - b.x, a.y - b.y⟩⟩
instance : HSub (Point K) (Point K) (Vec2 K) := ⟨fun a b => ⟨a.x - b.x, a.y - b.y⟩⟩

def Vec2.new (x y : K) : Vec2 K := ⟨x, y⟩
def Point.new (x y : K) : Point K := ⟨x, y⟩
def Size.new (w h : K) : Size K := ⟨w, h⟩
def Rect.new (x0 y0 x1 y1 : K) : Rect K := ⟨x0, y0, x1, y1⟩
def Insets.new (x0 y0 x1 y1 : K) : Insets K := ⟨x0, y0, x1, y1⟩
def Line.new (p0 p1 : Point K) : Line K := ⟨p0, p1⟩
def QuadBez.new (p0 p1 p2 : Point K) : QuadBez K := ⟨p0, p1, p2⟩
def CubicBez.new (p0 p1 p2 p3 : Point K) : CubicBez K := ⟨p0, p1, p2, p3⟩
def Affine.new (c0 c1 c2 c3 c4 c5 : K) : Affine K := ⟨c0, c1, c2, c3, c4, c5⟩
def TranslateScale.new (translation : Vec2 K) (scale : K) : TranslateScale K := ⟨translation, scale⟩
def Point.to_vec2 (p : Point K) : Vec2 K := ⟨p.x, p.y⟩
def Vec2.to_point (p : Vec2 K) : Point K := ⟨p.x, p.y⟩
def Vec2.to_size (p : Vec2 K) : Size K := ⟨p.x, p.y⟩
def Size.to_vec2 (p : Size K) : Vec2 K := ⟨p.width, p.height⟩
def Vec2.ZERO : Vec2 K := ⟨0, 0⟩
def Point.ZERO : Point K := ⟨0, 0⟩
def Point.ORIGIN : Point K := ⟨0, 0⟩

/-- methods whose name is shared by scalars and structures are dispatched by one small class per method, so the
    translator needs no type inference (`x.abs()` ↦ `MAbs.abs x`) -/
class MAbs (α : Type) where abs : α → α
class MFloor (α : Type) where floor : α → α
class MCeil (α : Type) where ceil : α → α
class MRound (α : Type) where round : α → α
class MTrunc (α : Type) where trunc : α → α
class MExpand (α : Type) where expand : α → α
class MIsFinite (α : Type) where is_finite : α → Bool
class MIsNan (α : Type) where is_nan : α → Bool

/-- `FloatExt::expand` (common.rs): `self.abs().ceil().copysign(self)` -/
def fexpand (x : K) : K := Scalar.copysign (Scalar.ceil (Scalar.abs x)) x

instance : MAbs K := ⟨Scalar.abs⟩
instance : MFloor K := ⟨Scalar.floor⟩
instance : MCeil K := ⟨Scalar.ceil⟩
instance : MRound K := ⟨Scalar.round⟩
instance : MTrunc K := ⟨Scalar.trunc⟩
instance : MExpand K := ⟨fexpand⟩
instance : MIsFinite K := ⟨Scalar.fin⟩
instance : MIsNan K := ⟨Scalar.isNan⟩

end ops
end Kurbo
