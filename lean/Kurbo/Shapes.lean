import Kurbo.Curve
import Kurbo.Quads
/-! Hand-written model of the shape outlines and closed-form queries (circle.rs, arc.rs, ellipse.rs, rounded_rect.rs,
    rounded_rect_radii.rs, triangle.rs, rect.rs, line.rs, svg.rs `Arc::from_svg_arc`).  C10, C11, C16. -/
namespace Kurbo
open Ops
variable {K : Type} [Scalar K]

def fracPi2 : K := (Scalar.pi : K) / (2 : K)
def fracPi4 : K := (Scalar.pi : K) / (4 : K)
def twoPi : K := (2 : K) * (Scalar.pi : K)

/-! ### exact shapes -/

def Line.path_elements (l : Line K) : List (PathEl K) := [.MoveTo l.p0, .LineTo l.p1]

def Rect.path_elements (r : Rect K) : List (PathEl K) :=
  [.MoveTo ⟨r.x0, r.y0⟩, .LineTo ⟨r.x1, r.y0⟩, .LineTo ⟨r.x1, r.y1⟩, .LineTo ⟨r.x0, r.y1⟩, .ClosePath]

def Triangle.path_elements (t : Triangle K) : List (PathEl K) := [.MoveTo t.a, .LineTo t.b, .LineTo t.c, .ClosePath]

def QuadBez.path_elements (q : QuadBez K) : List (PathEl K) := [.MoveTo q.p0, .QuadTo q.p1 q.p2]
def CubicBez.path_elements (c : CubicBez K) : List (PathEl K) := [.MoveTo c.p0, .CurveTo c.p1 c.p2 c.p3]

/-! ### triangle -/

def Triangle.area (t : Triangle K) : K := (Scalar.ofRat (1/2) : K) * (t.b - t.a).cross (t.c - t.a)

def Triangle.perimeter (t : Triangle K) : K := t.a.distance t.b + t.b.distance t.c + t.c.distance t.a

/-- `Triangle::winding`: three signums (`signum(±0.0) = ±1.0`), equal ⇒ that sign -/
def Triangle.winding (t : Triangle K) (pt : Point K) : Int :=
  let s0 := Scalar.signum ((t.b - t.a).cross (pt - t.a))
  let s1 := Scalar.signum ((t.c - t.b).cross (pt - t.b))
  let s2 := Scalar.signum ((t.a - t.c).cross (pt - t.c))
  if (s0 ==. s1) && (s1 ==. s2) then (if s0 <. (0 : K) then -1 else if (0 : K) <. s0 then 1 else 0) else 0

def Triangle.bounding_box (t : Triangle K) : Rect K :=
  Rect.new (smin t.a.x (smin t.b.x t.c.x)) (smin t.a.y (smin t.b.y t.c.y)) (smax t.a.x (smax t.b.x t.c.x)) (smax t.a.y (smax t.b.y t.c.y))

/-! ### arcs -/

/-- `rotate_pt` -/
def rotatePt (pt : Vec2 K) (angle : K) : Vec2 K :=
  let angle_sin := Scalar.sin angle
  let angle_cos := Scalar.cos angle
  Vec2.new (pt.x * angle_cos - pt.y * angle_sin) (pt.x * angle_sin + pt.y * angle_cos)

/-- `sample_ellipse` -/
def sampleEllipse (radii : Vec2 K) (x_rotation angle : K) : Vec2 K :=
  let angle_sin := Scalar.sin angle
  let angle_cos := Scalar.cos angle
  let u := radii.x * angle_cos
  let v := radii.y * angle_sin
  rotatePt (Vec2.new u v) x_rotation

/-- parameters computed by `Arc::append_iter`: `(n, arm_len, angle_step)` -/
def Arc.appendParams (a : Arc K) (tolerance : K) : Nat × K × K :=
  let sign := Scalar.signum a.sweep_angle
  let scaled_err := smax a.radii.x a.radii.y / tolerance
  let n_err := smax (Scalar.powf ((Scalar.ofRat (11163/10000) : K) * scaled_err) ((1 : K) / (6 : K))) (Scalar.ofRat (3999999/1000000) : K)
  let n := Scalar.ceil (n_err * sabs a.sweep_angle * ((1 : K) / ((2 : K) * (Scalar.pi : K))))
  let angle_step := a.sweep_angle / n
  let arm_len := ((4 : K) / (3 : K)) * Scalar.tan (sabs ((Scalar.ofRat (1/4) : K) * angle_step)) * sign
  (Scalar.toUSize n, arm_len, angle_step)

/-- the `CurveTo`s of `ArcAppendIter` (state: `p0`, `angle0`) -/
def arcAppendGo (center : Point K) (radii : Vec2 K) (x_rotation arm_len angle_step : K) : Nat → Vec2 K → K → List (PathEl K)
  | 0, _, _ => []
  | k + 1, p0, angle0 =>
    let angle1 := angle0 + angle_step
    let p1 := p0 + arm_len * sampleEllipse radii x_rotation (angle0 + fracPi2)
    let p3 := sampleEllipse radii x_rotation angle1
    let p2 := p3 - arm_len * sampleEllipse radii x_rotation (angle1 + fracPi2)
    PathEl.CurveTo (center + p1) (center + p2) (center + p3) :: arcAppendGo center radii x_rotation arm_len angle_step k p3 angle1

/-- `Arc::append_iter(tolerance).collect()` -/
def Arc.append_iter (a : Arc K) (tolerance : K) : List (PathEl K) :=
  let (n, arm_len, angle_step) := a.appendParams tolerance
  let p0 := sampleEllipse a.radii a.x_rotation a.start_angle
  arcAppendGo a.center a.radii a.x_rotation arm_len angle_step n p0 a.start_angle

/-- `impl Shape for Arc`: `path_elements` -/
def Arc.path_elements (a : Arc K) (tolerance : K) : List (PathEl K) :=
  PathEl.MoveTo (a.center + sampleEllipse a.radii a.x_rotation a.start_angle) :: a.append_iter tolerance

/-! ### circle -/

/-- `(n, arm_len)` chosen by `Circle::path_elements` -/
def Circle.pathParams (c : Circle K) (tolerance : K) : Nat × K :=
  let scaled_err := sabs c.radius / tolerance
  if scaled_err <. (1 : K) / (Scalar.ofRat (19608/100000000) : K) then (4, (Scalar.ofRat (551915024494/1000000000000) : K))
  else
    let n := Scalar.toUSize (Scalar.ceil (Scalar.powf ((Scalar.ofRat (11163/10000) : K) * scaled_err) ((1 : K) / (6 : K))))
    (n, ((4 : K) / (3 : K)) * Scalar.tan (fracPi2 / natK n))

/-- `CirclePathIter` collected -/
def Circle.path_elements (c : Circle K) (tolerance : K) : List (PathEl K) :=
  let (n, a) := c.pathParams tolerance
  let delta_th := (2 : K) * (Scalar.pi : K) / natK n
  let r := c.radius
  let x := c.center.x
  let y := c.center.y
  PathEl.MoveTo ⟨x + r, y⟩ ::
    ((List.range n).map fun k =>
      let ix := k + 1
      let th1 := delta_th * natK ix
      let th0 := th1 - delta_th
      let s0 := Scalar.sin th0
      let c0 := Scalar.cos th0
      let (s1, c1) : K × K := if ix == n then ((0 : K), (1 : K)) else (Scalar.sin th1, Scalar.cos th1)
      PathEl.CurveTo ⟨x + r * (c0 - a * s0), y + r * (s0 + a * c0)⟩ ⟨x + r * (c1 + a * s1), y + r * (s1 - a * c1)⟩ ⟨x + r * c1, y + r * s1⟩)
    ++ [PathEl.ClosePath]

def Circle.area (c : Circle K) : K := (Scalar.pi : K) * spowi c.radius 2
def Circle.perimeter (c : Circle K) : K := sabs ((2 : K) * (Scalar.pi : K) * c.radius)
def Circle.winding (c : Circle K) (pt : Point K) : Int := if (pt - c.center).hypot2 <. spowi c.radius 2 then 1 else 0
def Circle.bounding_box (c : Circle K) : Rect K :=
  let r := sabs c.radius
  Rect.new (c.center.x - r) (c.center.y - r) (c.center.x + r) (c.center.y + r)

/-! ### circle segment -/

def pointOnCircle (center : Point K) (radius angle : K) : Point K :=
  center + (⟨Scalar.cos angle * radius, Scalar.sin angle * radius⟩ : Vec2 K)

def CircleSegment.outer_arc (s : CircleSegment K) : Arc K :=
  { center := s.center, radii := Vec2.new s.outer_radius s.outer_radius, start_angle := s.start_angle, sweep_angle := s.sweep_angle, x_rotation := (0 : K) }
def CircleSegment.inner_arc (s : CircleSegment K) : Arc K :=
  { center := s.center, radii := Vec2.new s.inner_radius s.inner_radius, start_angle := s.start_angle + s.sweep_angle, sweep_angle := -s.sweep_angle, x_rotation := (0 : K) }

def CircleSegment.path_elements (s : CircleSegment K) (tolerance : K) : List (PathEl K) :=
  [PathEl.MoveTo (pointOnCircle s.center s.inner_radius s.start_angle), PathEl.LineTo (pointOnCircle s.center s.outer_radius s.start_angle)]
    ++ s.outer_arc.append_iter tolerance
    ++ [PathEl.LineTo (pointOnCircle s.center s.inner_radius (s.start_angle + s.sweep_angle))]
    ++ s.inner_arc.append_iter tolerance

def CircleSegment.area (s : CircleSegment K) : K :=
  (Scalar.ofRat (1/2) : K) * sabs (spowi s.outer_radius 2 - spowi s.inner_radius 2) * s.sweep_angle
def CircleSegment.perimeter (s : CircleSegment K) : K :=
  (2 : K) * sabs (s.outer_radius - s.inner_radius) + s.sweep_angle * (s.inner_radius + s.outer_radius)

/-- `CircleSegment::winding` (after the repair: angle relative to the start, in sweep direction, reduced to [0, 2π)) -/
def CircleSegment.winding (s : CircleSegment K) (pt : Point K) : Int :=
  let angle := ((pt - s.center).atan2 - s.start_angle) * Scalar.signum s.sweep_angle
  let angle := Scalar.fmod angle twoPi
  let angle := if angle <. (0 : K) then angle + twoPi else angle
  if sabs s.sweep_angle <. angle then 0
  else
    let dist2 := (pt - s.center).hypot2
    if (dist2 <. spowi s.outer_radius 2 && spowi s.inner_radius 2 <. dist2)
        || (dist2 <. spowi s.inner_radius 2 && spowi s.outer_radius 2 <. dist2) then 1 else 0

def CircleSegment.bounding_box (s : CircleSegment K) : Rect K :=
  let r := smax s.inner_radius s.outer_radius
  Rect.new (s.center.x - r) (s.center.y - r) (s.center.x + r) (s.center.y + r)

/-! ### ellipse -/

/-- `Affine::svd` -/
def Affine.svd (self : Affine K) : Vec2 K × K :=
  let a := self.c0
  let a2 := a * a
  let b := self.c1
  let b2 := b * b
  let c := self.c2
  let c2 := c * c
  let d := self.c3
  let d2 := d * d
  let ab := a * b
  let cd := c * d
  let angle := (Scalar.ofRat (1/2) : K) * Scalar.atan2 ((2 : K) * (ab + cd)) (a2 - b2 + c2 - d2)
  let s1 := a2 + b2 + c2 + d2
  let s2 := Scalar.sqrt (spowi (a2 - b2 + c2 - d2) 2 + (4 : K) * spowi (ab + cd) 2)
  (⟨Scalar.sqrt ((Scalar.ofRat (1/2) : K) * (s1 + s2)), Scalar.sqrt ((Scalar.ofRat (1/2) : K) * (s1 - s2))⟩, angle)

/-- `Ellipse::private_new` -/
def Ellipse.private_new (center : Vec2 K) (scale_x scale_y x_rotation : K) : Ellipse K :=
  ⟨Affine.translate center * Affine.rotate x_rotation * Affine.scale_non_uniform (sabs scale_x) (sabs scale_y)⟩

def Ellipse.new (center : Point K) (radii : Vec2 K) (x_rotation : K) : Ellipse K :=
  Ellipse.private_new ⟨center.x, center.y⟩ radii.x radii.y x_rotation

def Ellipse.center (e : Ellipse K) : Point K := e.inner.translation.to_point

def Ellipse.path_elements (e : Ellipse K) (tolerance : K) : List (PathEl K) :=
  let (radii, x_rotation) := e.inner.svd
  ({ center := e.center, radii := radii, start_angle := (0 : K), sweep_angle := twoPi, x_rotation := x_rotation } : Arc K).path_elements tolerance

/-- `Ellipse::radii` -/
def Ellipse.radii (e : Ellipse K) : Vec2 K := e.inner.svd.1

def Ellipse.area (e : Ellipse K) : K :=
  let r := e.inner.svd.1
  (Scalar.pi : K) * r.x * r.y

def Ellipse.winding (e : Ellipse K) (pt : Point K) : Int :=
  let inv := e.inner.inverse
  if (inv * pt).to_vec2.hypot2 <. (1 : K) then 1 else 0

def Ellipse.bounding_box (e : Ellipse K) : Rect K :=
  let aff := e.inner
  let a2 := aff.c0 * aff.c0
  let b2 := aff.c1 * aff.c1
  let c2 := aff.c2 * aff.c2
  let d2 := aff.c3 * aff.c3
  let cx := aff.c4
  let cy := aff.c5
  let range_x := Scalar.sqrt (a2 + c2)
  let range_y := Scalar.sqrt (b2 + d2)
  ⟨cx - range_x, cy - range_y, cx + range_x, cy + range_y⟩

/-- `impl Mul<Ellipse> for Affine` -/
def Affine.mul_Ellipse (a : Affine K) (e : Ellipse K) : Ellipse K := ⟨a * e.inner⟩

/-- `Ellipse::radii_and_rotation` -/
def Ellipse.radii_and_rotation (e : Ellipse K) : Vec2 K × K := e.inner.svd

/-- `impl Mul<Arc> for Affine` -/
def Affine.mul_Arc (a : Affine K) (arc : Arc K) : Arc K :=
  let ellipse := a.mul_Ellipse (Ellipse.new arc.center arc.radii arc.x_rotation)
  let center := ellipse.center
  let (radii, rotation) := ellipse.inner.svd
  -- the start angle is measured anew in the frame of the image; an orientation-reversing map reverses the sweep
  let start : Vec2 K := a * (arc.center + sampleEllipse arc.radii arc.x_rotation arc.start_angle) - center
  let rot_sin := Scalar.sin rotation
  let rot_cos := Scalar.cos rotation
  let loc : Vec2 K := Vec2.new (rot_cos * start.x + rot_sin * start.y) (rot_cos * start.y - rot_sin * start.x)
  let start_angle := Scalar.atan2 (loc.y * radii.x) (loc.x * radii.y)
  let sweep_angle := if a.determinant <. (0 : K) then -arc.sweep_angle else arc.sweep_angle
  { center := center, radii := radii, x_rotation := rotation, start_angle := start_angle, sweep_angle := sweep_angle }

/-! ### rounded rectangle -/

def RoundedRectRadii.new (top_left top_right bottom_right bottom_left : K) : RoundedRectRadii K := ⟨top_left, top_right, bottom_right, bottom_left⟩
def RoundedRectRadii.abs (r : RoundedRectRadii K) : RoundedRectRadii K :=
  ⟨sabs r.top_left, sabs r.top_right, sabs r.bottom_right, sabs r.bottom_left⟩
def RoundedRectRadii.clamp (r : RoundedRectRadii K) (max : K) : RoundedRectRadii K :=
  ⟨smin r.top_left max, smin r.top_right max, smin r.bottom_right max, smin r.bottom_left max⟩

/-- `RoundedRect::from_rect` -/
def RoundedRect.from_rect (rect : Rect K) (radii : RoundedRectRadii K) : RoundedRect K :=
  let rect := rect.abs
  let shortest_side_length := smin rect.width rect.height
  ⟨rect, radii.abs.clamp (shortest_side_length / (2 : K))⟩

/-- the four arcs of `RoundedRect::path_elements` (order follows the rectangle path iterator) -/
def RoundedRect.arcs (s : RoundedRect K) : List (Arc K) :=
  let r := s.radii
  let mk (i : Nat) (center : Point K) (rad : K) : Arc K :=
    { center := center, radii := ⟨rad, rad⟩, start_angle := fracPi2 * natK i, sweep_angle := fracPi2, x_rotation := (0 : K) }
  [ mk 2 ⟨s.rect.x0 + r.top_left, s.rect.y0 + r.top_left⟩ r.top_left,
    mk 3 ⟨s.rect.x1 - r.top_right, s.rect.y0 + r.top_right⟩ r.top_right,
    mk 0 ⟨s.rect.x1 - r.bottom_right, s.rect.y1 - r.bottom_right⟩ r.bottom_right,
    mk 1 ⟨s.rect.x0 + r.bottom_left, s.rect.y1 - r.bottom_left⟩ r.bottom_left ]

/-- the inner `RectPathIter` of rounded_rect.rs -/
def RoundedRect.rectEls (s : RoundedRect K) : List (PathEl K) :=
  let r := s.radii
  [ .MoveTo ⟨s.rect.x0, s.rect.y0 + r.top_left⟩, .LineTo ⟨s.rect.x1 - r.top_right, s.rect.y0⟩,
    .LineTo ⟨s.rect.x1, s.rect.y1 - r.bottom_right⟩, .LineTo ⟨s.rect.x0 + r.bottom_left, s.rect.y1⟩, .ClosePath ]

/-- interleaving automaton of `RoundedRectPathIter::next`, for arbitrary arc element lists:
    rect[0], arcs[0]…, rect[1], arcs[1]…, rect[2], arcs[2]…, rect[3], arcs[3]…, rect[4] -/
def interleaveRounded (rect : List (PathEl K)) (arcs : List (List (PathEl K))) : List (PathEl K) :=
  match rect, arcs with
  | r0 :: rs, _ => r0 :: go rs arcs
  | [], _ => []
where
  go : List (PathEl K) → List (List (PathEl K)) → List (PathEl K)
    | r :: rs, a :: as => a ++ r :: go rs as
    | _, _ => []

def RoundedRect.path_elements (s : RoundedRect K) (tolerance : K) : List (PathEl K) :=
  interleaveRounded s.rectEls (s.arcs.map fun a => a.append_iter tolerance)

def RoundedRect.area (s : RoundedRect K) : K :=
  let r := s.radii
  s.rect.area + [r.top_left, r.top_right, r.bottom_right, r.bottom_left].foldl (fun acc radius => acc + (fracPi4 - (1 : K)) * radius * radius) (0 : K)

def RoundedRect.perimeter (s : RoundedRect K) : K :=
  let r := s.radii
  s.rect.perimeter (1 : K) + [r.top_left, r.top_right, r.bottom_right, r.bottom_left].foldl (fun acc radius => acc + (-(2 : K) + fracPi2) * radius) (0 : K)

/-- `RoundedRect::winding` -/
def RoundedRect.winding (s : RoundedRect K) (pt : Point K) : Int :=
  let center := s.rect.center
  let pt : Point K := ⟨pt.x - center.x, pt.y - center.y⟩
  let r := s.radii
  let radius : K :=
    if pt.x <. (0 : K) && pt.y <. (0 : K) then r.top_left
    else if (0 : K) <=. pt.x && pt.y <. (0 : K) then r.top_right
    else if (0 : K) <=. pt.x && (0 : K) <=. pt.y then r.bottom_right
    else if pt.x <. (0 : K) && (0 : K) <=. pt.y then r.bottom_left
    else (0 : K)
  let inside_half_width := smax (s.rect.width / (2 : K) - radius) (0 : K)
  let inside_half_height := smax (s.rect.height / (2 : K) - radius) (0 : K)
  let px := smax (sabs pt.x - inside_half_width) (0 : K)
  let py := smax (sabs pt.y - inside_half_height) (0 : K)
  if px * px + py * py <=. radius * radius then 1 else 0

def RoundedRect.bounding_box (s : RoundedRect K) : Rect K := s.rect.bounding_box

/-! ### `Arc::from_svg_arc` (svg.rs) -/

structure SvgArc (K : Type) where
  «from» : Point K
  to : Point K
  radii : Vec2 K
  x_rotation : K
  large_arc : Bool
  sweep : Bool

def SvgArc.is_straight_line (a : SvgArc K) : Bool :=
  sabs a.radii.x <=. (Scalar.ofRat (1/100000) : K) || sabs a.radii.y <=. (Scalar.ofRat (1/100000) : K) || a.from.peq a.to

/-- `Arc::from_svg_arc` (the `debug_assert!(sum_of_sq != 0.0)` is not modelled: see C14) -/
def Arc.from_svg_arc (arc : SvgArc K) : Option (Arc K) :=
  if arc.is_straight_line then none else
  let rx := sabs arc.radii.x
  let ry := sabs arc.radii.y
  let xr := Scalar.fmod arc.x_rotation twoPi
  let sin_phi := Scalar.sin xr
  let cos_phi := Scalar.cos xr
  let hd_x := (arc.from.x - arc.to.x) * (Scalar.ofRat (1/2) : K)
  let hd_y := (arc.from.y - arc.to.y) * (Scalar.ofRat (1/2) : K)
  let hs_x := (arc.from.x + arc.to.x) * (Scalar.ofRat (1/2) : K)
  let hs_y := (arc.from.y + arc.to.y) * (Scalar.ofRat (1/2) : K)
  let p : Vec2 K := Vec2.new (cos_phi * hd_x + sin_phi * hd_y) (-sin_phi * hd_x + cos_phi * hd_y)
  let rf := p.x * p.x / (rx * rx) + p.y * p.y / (ry * ry)
  let (rx, ry) : K × K := if (1 : K) <. rf then (let scale := Scalar.sqrt rf; (rx * scale, ry * scale)) else (rx, ry)
  let rxry := rx * ry
  let rxpy := rx * p.y
  let rypx := ry * p.x
  let sum_of_sq := rxpy * rxpy + rypx * rypx
  let sign_coe : K := if arc.large_arc == arc.sweep then (-(1 : K)) else (1 : K)
  let coe := sign_coe * Scalar.sqrt (sabs ((rxry * rxry - sum_of_sq) / sum_of_sq))
  let transformed_cx := coe * rxpy / ry
  let transformed_cy := -coe * rypx / rx
  let center : Point K := Point.new (cos_phi * transformed_cx - sin_phi * transformed_cy + hs_x) (sin_phi * transformed_cx + cos_phi * transformed_cy + hs_y)
  let start_v : Vec2 K := Vec2.new ((p.x - transformed_cx) / rx) ((p.y - transformed_cy) / ry)
  let end_v : Vec2 K := Vec2.new ((-p.x - transformed_cx) / rx) ((-p.y - transformed_cy) / ry)
  let start_angle := start_v.atan2
  let sweep_angle := Scalar.fmod (end_v.atan2 - start_angle) twoPi
  let sweep_angle := if arc.sweep && sweep_angle <. (0 : K) then sweep_angle + twoPi
    else if !arc.sweep && (0 : K) <. sweep_angle then sweep_angle - twoPi else sweep_angle
  some { center := center, radii := Vec2.new rx ry, start_angle := start_angle, sweep_angle := sweep_angle, x_rotation := arc.x_rotation }

end Kurbo
