/-! The rows of `define_float_funcs!` (kurbo/src/common.rs): std method name, argument (name, type) list, return type, libm f64 name,
    libm f32 name – output of tools/floatfuncs.py on the pinned tree (committed). -/
namespace Kurbo

/-- identifiers are lists of ASCII codes (string literals do not reduce in the kernel) -/
structure FloatFuncRow where
  method : List Nat
  args : List (List Nat × List Nat)
  ret : List Nat
  libm64 : List Nat
  libm32 : List Nat
deriving DecidableEq, Repr

def floatFuncRows : List FloatFuncRow := [
  { method := [97, 98, 115] /- abs -/, args := [], ret := [83, 101, 108, 102] /- Self -/, libm64 := [102, 97, 98, 115] /- fabs -/, libm32 := [102, 97, 98, 115, 102] /- fabsf -/ },
  { method := [97, 99, 111, 115] /- acos -/, args := [], ret := [83, 101, 108, 102] /- Self -/, libm64 := [97, 99, 111, 115] /- acos -/, libm32 := [97, 99, 111, 115, 102] /- acosf -/ },
  { method := [97, 116, 97, 110, 50] /- atan2 -/, args := [([111, 116, 104, 101, 114] /- other -/, [83, 101, 108, 102] /- Self -/)], ret := [83, 101, 108, 102] /- Self -/, libm64 := [97, 116, 97, 110, 50] /- atan2 -/, libm32 := [97, 116, 97, 110, 50, 102] /- atan2f -/ },
  { method := [99, 98, 114, 116] /- cbrt -/, args := [], ret := [83, 101, 108, 102] /- Self -/, libm64 := [99, 98, 114, 116] /- cbrt -/, libm32 := [99, 98, 114, 116, 102] /- cbrtf -/ },
  { method := [99, 101, 105, 108] /- ceil -/, args := [], ret := [83, 101, 108, 102] /- Self -/, libm64 := [99, 101, 105, 108] /- ceil -/, libm32 := [99, 101, 105, 108, 102] /- ceilf -/ },
  { method := [99, 111, 115] /- cos -/, args := [], ret := [83, 101, 108, 102] /- Self -/, libm64 := [99, 111, 115] /- cos -/, libm32 := [99, 111, 115, 102] /- cosf -/ },
  { method := [99, 111, 112, 121, 115, 105, 103, 110] /- copysign -/, args := [([115, 105, 103, 110] /- sign -/, [83, 101, 108, 102] /- Self -/)], ret := [83, 101, 108, 102] /- Self -/, libm64 := [99, 111, 112, 121, 115, 105, 103, 110] /- copysign -/, libm32 := [99, 111, 112, 121, 115, 105, 103, 110, 102] /- copysignf -/ },
  { method := [102, 108, 111, 111, 114] /- floor -/, args := [], ret := [83, 101, 108, 102] /- Self -/, libm64 := [102, 108, 111, 111, 114] /- floor -/, libm32 := [102, 108, 111, 111, 114, 102] /- floorf -/ },
  { method := [104, 121, 112, 111, 116] /- hypot -/, args := [([111, 116, 104, 101, 114] /- other -/, [83, 101, 108, 102] /- Self -/)], ret := [83, 101, 108, 102] /- Self -/, libm64 := [104, 121, 112, 111, 116] /- hypot -/, libm32 := [104, 121, 112, 111, 116, 102] /- hypotf -/ },
  { method := [108, 110] /- ln -/, args := [], ret := [83, 101, 108, 102] /- Self -/, libm64 := [108, 111, 103] /- log -/, libm32 := [108, 111, 103, 102] /- logf -/ },
  { method := [108, 111, 103, 50] /- log2 -/, args := [], ret := [83, 101, 108, 102] /- Self -/, libm64 := [108, 111, 103, 50] /- log2 -/, libm32 := [108, 111, 103, 50, 102] /- log2f -/ },
  { method := [109, 117, 108, 95, 97, 100, 100] /- mul_add -/, args := [([97] /- a -/, [83, 101, 108, 102] /- Self -/), ([98] /- b -/, [83, 101, 108, 102] /- Self -/)], ret := [83, 101, 108, 102] /- Self -/, libm64 := [102, 109, 97] /- fma -/, libm32 := [102, 109, 97, 102] /- fmaf -/ },
  { method := [112, 111, 119, 105] /- powi -/, args := [([110] /- n -/, [105, 51, 50] /- i32 -/)], ret := [83, 101, 108, 102] /- Self -/, libm64 := [112, 111, 119] /- pow -/, libm32 := [112, 111, 119, 102] /- powf -/ },
  { method := [112, 111, 119, 102] /- powf -/, args := [([110] /- n -/, [83, 101, 108, 102] /- Self -/)], ret := [83, 101, 108, 102] /- Self -/, libm64 := [112, 111, 119] /- pow -/, libm32 := [112, 111, 119, 102] /- powf -/ },
  { method := [114, 111, 117, 110, 100] /- round -/, args := [], ret := [83, 101, 108, 102] /- Self -/, libm64 := [114, 111, 117, 110, 100] /- round -/, libm32 := [114, 111, 117, 110, 100, 102] /- roundf -/ },
  { method := [115, 105, 110] /- sin -/, args := [], ret := [83, 101, 108, 102] /- Self -/, libm64 := [115, 105, 110] /- sin -/, libm32 := [115, 105, 110, 102] /- sinf -/ },
  { method := [115, 105, 110, 95, 99, 111, 115] /- sin_cos -/, args := [], ret := [40, 83, 101, 108, 102, 44, 32, 83, 101, 108, 102, 41] /- (Self, Self) -/, libm64 := [115, 105, 110, 99, 111, 115] /- sincos -/, libm32 := [115, 105, 110, 99, 111, 115, 102] /- sincosf -/ },
  { method := [115, 113, 114, 116] /- sqrt -/, args := [], ret := [83, 101, 108, 102] /- Self -/, libm64 := [115, 113, 114, 116] /- sqrt -/, libm32 := [115, 113, 114, 116, 102] /- sqrtf -/ },
  { method := [116, 97, 110] /- tan -/, args := [], ret := [83, 101, 108, 102] /- Self -/, libm64 := [116, 97, 110] /- tan -/, libm32 := [116, 97, 110, 102] /- tanf -/ },
  { method := [116, 114, 117, 110, 99] /- trunc -/, args := [], ret := [83, 101, 108, 102] /- Self -/, libm64 := [116, 114, 117, 110, 99] /- trunc -/, libm32 := [116, 114, 117, 110, 99, 102] /- truncf -/ }
]

def floatSignumBody : List Nat := [105, 102, 32, 115, 101, 108, 102, 46, 105, 115, 95, 110, 97, 110, 40, 41, 32, 123, 32, 102, 54, 52, 58, 58, 78, 65, 78, 32, 125, 32, 101, 108, 115, 101, 32, 123, 32, 49, 46, 48, 95, 102, 54, 52, 46, 99, 111, 112, 121, 115, 105, 103, 110, 40, 115, 101, 108, 102, 41, 32, 125] /- if self.is_nan() { f64::NAN } else { 1.0_f64.copysign(self) } -/

end Kurbo
