import Kurbo.Driver
import Kurbo.Flatten
/-! protocol ops for flattening (C05) -/
namespace Kurbo.Driver
open Kurbo Kurbo.Ops
variable {K : Type} [Scalar K] [Codec K]

def opsFlatten (op : String) : Option (Rd String) :=
  match op with
  | "path.flatten" => some do
      let tol : K ← num; let p : List (PathEl K) ← els
      return eEls (flatten p tol)
  | _ => none

end Kurbo.Driver
