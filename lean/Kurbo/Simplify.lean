import Kurbo.Path
/-! Hand-written model of the control skeleton of `simplify::simplify_bezpath` (simplify.rs): the element loop, corner detection through
    `PathSeg::tangents` (bezpath.rs), `SimplifyState::{add_seg, flush}`.  The curve fitter (`fit_to_bezpath` / `fit_to_bezpath_opt` on a
    `SimplifyBezPath`) is NOT modelled: it is the parameter `fit`, a function from the queued smooth stretch (`MoveTo` + segments) to a path
    (`MoveTo` + `CurveTo`s).  C18 (structure clause), C14. -/
namespace Kurbo
open Ops
variable {K : Type} [Scalar K]

/-- `v == Vec2::ZERO` (derived `PartialEq`: both components compare equal to `0.0`; for binary64 `-0.0 == 0.0`, NaN is unequal) -/
def Vec2.isZero (v : Vec2 K) : Bool := (v.x ==. (0 : K)) && (v.y ==. (0 : K))

/-- `PathSeg::tangents` (robust end-point tangents; `EPS = 1e-12` on squared lengths).  When the end points coincide (`closed`, resp.
    `d03 == Vec2::ZERO`) the chord has no direction and the control arm, however short, is returned. -/
def PathSeg.tangents (s : PathSeg K) : Vec2 K × Vec2 K :=
  let eps : K := Scalar.ofRat (1/1000000000000)
  match s with
  | .Line l =>
    let d := l.p1 - l.p0
    (d, d)
  | .Quad q =>
    let d01 := q.p1 - q.p0
    let d12 := q.p2 - q.p1
    let d02 := q.p2 - q.p0
    let closed := d02.isZero
    let d0 := if eps <. d01.hypot2 || closed then d01 else d02
    let d1 := if eps <. d12.hypot2 || closed then d12 else d02
    (d0, d1)
  | .Cubic c =>
    let d01 := c.p1 - c.p0
    let d0 := if eps <. d01.hypot2 then d01 else
      let d02 := c.p2 - c.p0
      let d03 := c.p3 - c.p0
      if eps <. d02.hypot2 then d02
      else if !d03.isZero then d03
      else if !d01.isZero then d01
      else d02
    let d23 := c.p3 - c.p2
    let d1 := if eps <. d23.hypot2 then d23 else
      let d13 := c.p3 - c.p1
      let d03 := c.p3 - c.p0
      if eps <. d13.hypot2 then d13
      else if !d03.isZero then d03
      else if !d23.isZero then d23
      else d13
    (d0, d1)

/-- `SimplifyState` -/
structure SimpSt (K : Type) where
  queue : List (PathEl K) := []
  result : List (PathEl K) := []
  needs_moveto : Bool := false

/-- the drawing element of a segment (`line_to` / `quad_to` / `curve_to` in `add_seg`) -/
def PathSeg.drawEl : PathSeg K → PathEl K
  | .Line l => .LineTo l.p1
  | .Quad q => .QuadTo q.p1 q.p2
  | .Cubic c => .CurveTo c.p1 c.p2 c.p3

/-- `add_seg` -/
def SimpSt.add_seg (s : SimpSt K) (seg : PathSeg K) : SimpSt K :=
  let q := if s.queue.isEmpty then [PathEl.MoveTo seg.start] else s.queue
  { s with queue := q ++ [seg.drawEl] }

/-- `flush`; `fit` stands for `fit_to_bezpath(_opt)(&SimplifyBezPath::new(&queue), accuracy)` -/
def SimpSt.flush (fit : List (PathEl K) → List (PathEl K)) (s : SimpSt K) : SimpSt K :=
  if s.queue.isEmpty then s else
  let b := if s.queue.length == 2 then s.queue else fit s.queue
  { queue := [], result := s.result ++ b.drop (if s.needs_moveto then 0 else 1), needs_moveto := false }

/-- loop state of `simplify_bezpath` besides `SimplifyState` -/
structure SimpLoop (K : Type) where
  last_pt : Option (Point K) := none
  start_pt : Option (Point K) := none
  last_seg : Option (PathSeg K) := none
  st : SimpSt K := {}

inductive SimpRes (K : Type) where
  | ok (els : List (PathEl K))
  | panic                                   -- `last_pt.unwrap()` on a path that does not start with MoveTo

/-- corner test between two consecutive segments: `|cross| > dot * angle_thresh` (a reversal of direction is a corner) -/
def simpCorner (angle_thresh : K) (last seg : PathSeg K) : Bool :=
  let last_tan := last.tangents.2
  let this_tan := seg.tangents.1
  (last_tan.dot this_tan * angle_thresh) <. sabs (last_tan.cross this_tan)

/-- the tail of the loop body once `this_seg` is known -/
def SimpLoop.push (fit : List (PathEl K) → List (PathEl K)) (angle_thresh : K) (l : SimpLoop K) (seg : PathSeg K) : SimpLoop K :=
  let st := match l.last_seg with
    | some last => if simpCorner angle_thresh last seg then l.st.flush fit else l.st
    | none => l.st
  { l with last_pt := some seg.«end», st := st.add_seg seg, last_seg := some seg }

/-- the element loop of `simplify_bezpath` -/
def simplifyLoop (fit : List (PathEl K) → List (PathEl K)) (angle_thresh : K) : List (PathEl K) → SimpLoop K → SimpRes K
  | [], l => .ok (l.st.flush fit).result
  | el :: rest, l =>
    match el with
    | .MoveTo p =>
      let st := l.st.flush fit
      simplifyLoop fit angle_thresh rest { l with st := { st with needs_moveto := true }, last_pt := some p, start_pt := some p, last_seg := none }
    | .LineTo p =>
      match l.last_pt with
      | none => .panic
      | some last =>
        if last.peq p then simplifyLoop fit angle_thresh rest l       -- `continue`: `last_seg` is kept
        else simplifyLoop fit angle_thresh rest (l.push fit angle_thresh (.Line ⟨last, p⟩))
    | .QuadTo p1 p2 =>
      match l.last_pt with
      | none => .panic
      | some last =>
        if last.peq p1 && last.peq p2 then simplifyLoop fit angle_thresh rest l
        else simplifyLoop fit angle_thresh rest (l.push fit angle_thresh (.Quad ⟨last, p1, p2⟩))
    | .CurveTo p1 p2 p3 =>
      match l.last_pt with
      | none => .panic
      | some last =>
        if last.peq p1 && last.peq p2 && last.peq p3 then simplifyLoop fit angle_thresh rest l
        else simplifyLoop fit angle_thresh rest (l.push fit angle_thresh (.Cubic ⟨last, p1, p2, p3⟩))
    | .ClosePath =>
      let st := l.st.flush fit
      let st := if st.needs_moveto then
          match l.start_pt with
          | some p => { st with result := st.result ++ [.MoveTo p] }
          | none => st
        else st
      let st := { st with result := st.result ++ [.ClosePath], needs_moveto := true }
      simplifyLoop fit angle_thresh rest { l with st := st, last_seg := none, last_pt := l.start_pt }

/-- `simplify_bezpath(path, accuracy, options)` with the fitter abstracted; `angle_thresh = 1e-3` by default -/
def simplifyBezpath (fit : List (PathEl K) → List (PathEl K)) (els : List (PathEl K)) (angle_thresh : K := Scalar.ofRat (1/1000)) : SimpRes K :=
  simplifyLoop fit angle_thresh els {}

/-- a stand-in for the fitter that keeps only what the structure theorems need: one `MoveTo` at the start of the stretch and ONE `CurveTo` to its
    end point (used by the driver to print the skeleton; the real fitter emits one or more `CurveTo`s ending there) -/
def fitSkeleton (queue : List (PathEl K)) : List (PathEl K) :=
  match queue.head?, queue.getLast? with
  | some (.MoveTo a), some e =>
    match e.end_point with
    | some b => [.MoveTo a, .CurveTo a b b]
    | none => [.MoveTo a]
  | _, _ => []

end Kurbo
