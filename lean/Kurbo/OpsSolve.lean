import Kurbo.Driver
import Kurbo.Solve
/-! protocol ops for the solvers (C15) -/
namespace Kurbo.Driver
open Kurbo Kurbo.Ops
variable {K : Type} [Scalar K] [Codec K]

def opsSolve (op : String) : Option (Rd String) :=
  match op with
  | "solve.quadratic" => some do
      let c0 : K ← num; let c1 : K ← num; let c2 : K ← num
      return eList (solveQuadratic c0 c1 c2)
  | "solve.cubic" => some do
      let c0 : K ← num; let c1 : K ← num; let c2 : K ← num; let c3 : K ← num
      return eList (solveCubic c0 c1 c2 c3)
  | "solve.quartic" => some do
      -- this op answers only the reductions at the head of solve_quartic (the general case answers GENERAL);
      -- the whole solver is `solve.quartic_full` in OpsQuartic.lean
      let c0 : K ← num; let c1 : K ← num; let c2 : K ← num; let c3 : K ← num; let c4 : K ← num
      if (c4 ==. (0 : K)) || (c0 ==. (0 : K)) || ((c3 / c4 ==. (0 : K)) && (c1 / c4 ==. (0 : K))) then
        return eList (solveQuarticWith (fun _ _ _ _ _ => []) c0 c1 c2 c3 c4)
      else return "GENERAL"
  | "solve.itp" => some do
      -- f = cubic polynomial in Horner form
      let c0 : K ← num; let c1 : K ← num; let c2 : K ← num; let c3 : K ← num
      let a : K ← num; let b : K ← num; let eps : K ← num; let n0 ← nat; let k1 : K ← num
      let f := fun x : K => ((c3 * x + c2) * x + c1) * x + c0
      return e (solveItp f a b eps n0 k1 (f a) (f b))
  | _ => none

end Kurbo.Driver
