import Kurbo.Driver
import Kurbo.Quartic
/-! protocol ops for the general path of `solve_quartic` (C15Q) -/
namespace Kurbo.Driver
open Kurbo Kurbo.Ops
variable {K : Type} [Scalar K] [Codec K]

def opsQuartic (op : String) : Option (Rd String) :=
  match op with
  | "solve.quartic_full" => some do
      let c0 : K ← num; let c1 : K ← num; let c2 : K ← num; let c3 : K ← num; let c4 : K ← num
      return eList (solveQuartic c0 c1 c2 c3 c4)
  | "solve.factor_quartic" => some do
      -- `factor_quartic_inner a b c d rescale`: NONE or `a1 b1 a2 b2`
      let a : K ← num; let b : K ← num; let c : K ← num; let d : K ← num; let r ← nat
      match factorQuarticInner a b c d (r != 0) with
      | none => return "NONE"
      | some ((a1, b1), (a2, b2)) => return s!"{e a1} {e b1} {e a2} {e b2}"
  | "solve.dcd" => some do
      -- `depressed_cubic_dominant g h` (private in the crate: model-only op)
      let g : K ← num; let h : K ← num
      return e (depressedCubicDominant g h)
  | "f.cbrt" => some do
      -- `f64::cbrt` (std resolves it to the correctly rounded `cbrt` of compiler_builtins' libm, see `floatCbrt`)
      let x : K ← num
      return e (Scalar.cbrt x)
  | _ => none

end Kurbo.Driver
