import Kurbo.Types
/-! Hand-written model of `BezPath::write_to` / `BezPath::to_svg` (svg.rs, `#[cfg(feature = "std")]`):

```rust
for (i, el) in self.elements().iter().enumerate() {
    if i > 0 { write!(writer, " ")?; }
    match *el {
        PathEl::MoveTo(p) => write!(writer, "M{},{}", p.x, p.y)?,
        PathEl::LineTo(p) => write!(writer, "L{},{}", p.x, p.y)?,
        PathEl::QuadTo(p1, p2) => write!(writer, "Q{},{} {},{}", p1.x, p1.y, p2.x, p2.y)?,
        PathEl::CurveTo(p1, p2, p3) => write!(writer, "C{},{} {},{} {},{}", p1.x, p1.y, p2.x, p2.y, p3.x, p3.y)?,
        PathEl::ClosePath => write!(writer, "Z")?,
    }
}
```

The output is a byte list.  `{}` on an `f64` is Rust's `Display for f64`; it is NOT modelled: the number printer is the parameter
`spell : K → List UInt8`.  The writer into a `Vec<u8>` cannot fail, so there is no error outcome (`to_svg` unwraps).
`svgWrite` needs nothing of `K` (no `Scalar` instance): the correspondence op `svg.write` (Kurbo/OpsSvgWrite.lean) runs it on the
element list whose coordinates are tagged with their position, with `spell` = "the numeral the crate printed at that position", so
everything but the digits (letters, commas, spaces, order of the coordinates, the separator logic) is compared byte for byte.
C16 (tag C16W). -/
namespace Kurbo

section
variable {K : Type}

/-- `{},{}` applied to `p.x, p.y` -/
def svgWritePt (spell : K → List UInt8) (p : Point K) : List UInt8 :=
  spell p.x ++ [44] ++ spell p.y

/-- the `match *el` of `write_to`: one `write!` per element.  `M`=77 `L`=76 `Q`=81 `C`=67 `Z`=90 `,`=44 ` `=32 -/
def svgWriteEl (spell : K → List UInt8) : PathEl K → List UInt8
  | .MoveTo p => [77] ++ svgWritePt spell p
  | .LineTo p => [76] ++ svgWritePt spell p
  | .QuadTo p1 p2 => [81] ++ svgWritePt spell p1 ++ [32] ++ svgWritePt spell p2
  | .CurveTo p1 p2 p3 => [67] ++ svgWritePt spell p1 ++ [32] ++ svgWritePt spell p2 ++ [32] ++ svgWritePt spell p3
  | .ClosePath => [90]

/-- the loop `for (i, el) in … .enumerate()`: `i` is the index of `el`; a space is written in front of every element but the
    first (`if i > 0`) -/
def svgWriteFrom (spell : K → List UInt8) : Nat → List (PathEl K) → List UInt8
  | _, [] => []
  | i, el :: els => (if i > 0 then [32] else []) ++ svgWriteEl spell el ++ svgWriteFrom spell (i + 1) els

/-- `BezPath::write_to` into an empty `Vec<u8>` = the bytes of `BezPath::to_svg` -/
def svgWrite (spell : K → List UInt8) (els : List (PathEl K)) : List UInt8 := svgWriteFrom spell 0 els

end

end Kurbo
