import Kurbo.Driver
/-! protocol ops for the regenerated kernel (C06, C02, C12, C20) -/
namespace Kurbo.Driver
open Kurbo Kurbo.Ops
variable {K : Type} [Scalar K] [Codec K]

def opsKernel (op : String) : Option (Rd String) :=
  match op with
  -- vec2 / point
  | "vec.dot" => some do let a : Vec2 K ← vec; let b ← vec; return e (a.dot b)
  | "vec.cross" => some do let a : Vec2 K ← vec; let b ← vec; return e (a.cross b)
  | "vec.lerp" => some do let a : Vec2 K ← vec; let b ← vec; let t : K ← num; return eVec (a.lerp b t)
  | "vec.ops" => some do
      let a : Vec2 K ← vec; let b ← vec; let t : K ← num; let p : Point K ← pt
      return s!"{eVec (a + b)} {eVec (a - b)} {eVec (a * t)} {eVec (t * a)} {eVec (-a)} {ePt (p + a)} {ePt (p - a)} {eVec (p - b.to_point)} {eVec a.turn_90} {eVec (a.rotate_scale b)}"
  | "pt.lerp" => some do let a : Point K ← pt; let b ← pt; let t : K ← num; return ePt (a.lerp b t)
  | "pt.midpoint" => some do let a : Point K ← pt; let b ← pt; return ePt (a.midpoint b)
  | "pt.round" => some do
      let a : Point K ← pt
      return s!"{ePt a.round} {ePt a.ceil} {ePt a.floor} {ePt a.expand} {ePt a.trunc}"
  | "vec.round" => some do
      let a : Vec2 K ← vec
      return s!"{eVec a.round} {eVec a.ceil} {eVec a.floor} {eVec a.expand} {eVec a.trunc}"
  | "size.round" => some do
      let a : Size K ← size
      return s!"{eSize a.round} {eSize a.ceil} {eSize a.floor} {eSize a.expand} {eSize a.trunc}"
  -- segments
  | "line.eval" => some do let l : Line K ← line; let t : K ← num; return ePt (l.eval t)
  | "quad.eval" => some do let l : QuadBez K ← quad; let t : K ← num; return ePt (l.eval t)
  | "cubic.eval" => some do let l : CubicBez K ← cubic; let t : K ← num; return ePt (l.eval t)
  | "line.subsegment" => some do let l : Line K ← line; let a : K ← num; let b : K ← num; return eLine (l.subsegment ⟨a, b⟩)
  | "quad.subsegment" => some do let l : QuadBez K ← quad; let a : K ← num; let b : K ← num; return eQuad (l.subsegment ⟨a, b⟩)
  | "cubic.subsegment" => some do let l : CubicBez K ← cubic; let a : K ← num; let b : K ← num; return eCubic (l.subsegment ⟨a, b⟩)
  | "quad.subdivide" => some do let l : QuadBez K ← quad; let (a, b) := l.subdivide; return s!"{eQuad a} {eQuad b}"
  | "cubic.subdivide" => some do let l : CubicBez K ← cubic; let (a, b) := l.subdivide; return s!"{eCubic a} {eCubic b}"
  | "quad.deriv" => some do let l : QuadBez K ← quad; return eLine l.deriv
  | "cubic.deriv" => some do let l : CubicBez K ← cubic; return eQuad l.deriv
  | "quad.raise" => some do let l : QuadBez K ← quad; return eCubic l.raise
  | "line.startend" => some do let l : Line K ← line; return s!"{ePt l.start} {ePt l.end}"
  | "quad.startend" => some do let l : QuadBez K ← quad; return s!"{ePt l.start} {ePt l.end}"
  | "cubic.startend" => some do let l : CubicBez K ← cubic; return s!"{ePt l.start} {ePt l.end}"
  | "line.area" => some do let l : Line K ← line; return e l.signed_area
  | "quad.area" => some do let l : QuadBez K ← quad; return e l.signed_area
  | "cubic.area" => some do let l : CubicBez K ← cubic; return e l.signed_area
  | "line.nearest" => some do
      let l : Line K ← line; let p ← pt
      let n := l.nearest p (0 : K)
      return s!"{e n.t} {e n.distance_sq}"
  -- PathSeg
  | "seg.eval" => some do let s : PathSeg K ← seg; let t : K ← num; return ePt (s.eval t)
  | "seg.subsegment" => some do let s : PathSeg K ← seg; let a : K ← num; let b : K ← num; return eSeg (s.subsegment ⟨a, b⟩)
  | "seg.startend" => some do let s : PathSeg K ← seg; return s!"{ePt s.start} {ePt s.end}"
  | "seg.reverse" => some do let s : PathSeg K ← seg; return eSeg s.reverse
  | "seg.tocubic" => some do let s : PathSeg K ← seg; return eCubic s.to_cubic
  | "seg.area" => some do let s : PathSeg K ← seg; return e s.signed_area
  | "seg.subseg_eval" => some do
      let s : PathSeg K ← seg; let t0 : K ← num; let t1 : K ← num; let u : K ← num
      return s!"{ePt ((s.subsegment ⟨t0, t1⟩).eval u)} {ePt (s.eval (t0 + u * (t1 - t0)))}"
  | _ => none

end Kurbo.Driver
