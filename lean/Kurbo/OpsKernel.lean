import Kurbo.Driver
/-! protocol ops for the regenerated kernel (C06, C02, C12, C20) -/
namespace Kurbo.Driver
open Kurbo Kurbo.Ops
variable {K : Type} [Scalar K] [Codec K]

def opsKernel (op : String) : Option (Rd String) :=
  match op with
  -- vec2 / point
  | "vec.hypot" => some do let a : Vec2 K ← vec; return s!"{e a.hypot} {e a.hypot2} {e a.atan2}"
  | "vec.dot" => some do let a : Vec2 K ← vec; let b ← vec; return e (a.dot b)
  | "vec.cross" => some do let a : Vec2 K ← vec; let b ← vec; return e (a.cross b)
  | "vec.lerp" => some do let a : Vec2 K ← vec; let b ← vec; let t : K ← num; return eVec (a.lerp b t)
  | "vec.ops" => some do
      let a : Vec2 K ← vec; let b ← vec; let t : K ← num; let p : Point K ← pt
      return s!"{eVec (a + b)} {eVec (a - b)} {eVec (a * t)} {eVec (t * a)} {eVec (-a)} {ePt (p + a)} {ePt (p - a)} {eVec (p - b.to_point)} {eVec a.turn_90} {eVec (a.rotate_scale b)}"
  | "pt.lerp" => some do let a : Point K ← pt; let b ← pt; let t : K ← num; return ePt (a.lerp b t)
  | "pt.midpoint" => some do let a : Point K ← pt; let b ← pt; return ePt (a.midpoint b)
  | "pt.round" => some do
      let a : Point K ← pt
      return s!"{ePt a.round} {ePt a.ceil} {ePt a.floor} {ePt a.expand} {ePt a.trunc}"
  | "vec.round" => some do
      let a : Vec2 K ← vec
      return s!"{eVec a.round} {eVec a.ceil} {eVec a.floor} {eVec a.expand} {eVec a.trunc}"
  | "size.round" => some do
      let a : Size K ← size
      return s!"{eSize a.round} {eSize a.ceil} {eSize a.floor} {eSize a.expand} {eSize a.trunc}"
  -- segments
  | "line.eval" => some do let l : Line K ← line; let t : K ← num; return ePt (l.eval t)
  | "quad.eval" => some do let l : QuadBez K ← quad; let t : K ← num; return ePt (l.eval t)
  | "cubic.eval" => some do let l : CubicBez K ← cubic; let t : K ← num; return ePt (l.eval t)
  | "line.subsegment" => some do let l : Line K ← line; let a : K ← num; let b : K ← num; return eLine (l.subsegment ⟨a, b⟩)
  | "quad.subsegment" => some do let l : QuadBez K ← quad; let a : K ← num; let b : K ← num; return eQuad (l.subsegment ⟨a, b⟩)
  | "cubic.subsegment" => some do let l : CubicBez K ← cubic; let a : K ← num; let b : K ← num; return eCubic (l.subsegment ⟨a, b⟩)
  | "quad.subdivide" => some do let l : QuadBez K ← quad; let (a, b) := l.subdivide; return s!"{eQuad a} {eQuad b}"
  | "cubic.subdivide" => some do let l : CubicBez K ← cubic; let (a, b) := l.subdivide; return s!"{eCubic a} {eCubic b}"
  | "quad.deriv" => some do let l : QuadBez K ← quad; return eLine l.deriv
  | "cubic.moments" => some do let l : CubicBez K ← cubic; let (a, b, c) := momentIntegrals l; return s!"{e a} {e b} {e c}"
  | "cubic.offset_eval" => some do
      let l : CubicBez K ← cubic; let d : K ← num; let t : K ← num
      let co := CubicOffset.new l d
      return s!"{ePt (co.eval t)} {eVec (co.eval_deriv t)} {e (co.cusp_sign t)}"
  | "cubic.deriv" => some do let l : CubicBez K ← cubic; return eQuad l.deriv
  | "quad.raise" => some do let l : QuadBez K ← quad; return eCubic l.raise
  | "line.startend" => some do let l : Line K ← line; return s!"{ePt l.start} {ePt l.end}"
  | "quad.startend" => some do let l : QuadBez K ← quad; return s!"{ePt l.start} {ePt l.end}"
  | "cubic.startend" => some do let l : CubicBez K ← cubic; return s!"{ePt l.start} {ePt l.end}"
  | "line.area" => some do let l : Line K ← line; return e l.signed_area
  | "quad.area" => some do let l : QuadBez K ← quad; return e l.signed_area
  | "cubic.area" => some do let l : CubicBez K ← cubic; return e l.signed_area
  | "line.nearest" => some do
      let l : Line K ← line; let p ← pt
      let n := l.nearest p (0 : K)
      return s!"{e n.t} {e n.distance_sq}"
  -- PathSeg
  | "seg.eval" => some do let s : PathSeg K ← seg; let t : K ← num; return ePt (s.eval t)
  | "seg.subsegment" => some do let s : PathSeg K ← seg; let a : K ← num; let b : K ← num; return eSeg (s.subsegment ⟨a, b⟩)
  | "seg.startend" => some do let s : PathSeg K ← seg; return s!"{ePt s.start} {ePt s.end}"
  | "seg.reverse" => some do let s : PathSeg K ← seg; return eSeg s.reverse
  | "seg.tocubic" => some do let s : PathSeg K ← seg; return eCubic s.to_cubic
  | "seg.area" => some do let s : PathSeg K ← seg; return e s.signed_area
  | "seg.subseg_eval" => some do
      let s : PathSeg K ← seg; let t0 : K ← num; let t1 : K ← num; let u : K ← num
      return s!"{ePt ((s.subsegment ⟨t0, t1⟩).eval u)} {ePt (s.eval (t0 + u * (t1 - t0)))}"
  -- rect / insets (C20, C11)
  | "rect.bin" => some do
      let a : Rect K ← rect; let b : Rect K ← rect
      return s!"{eRect (a.union b)} {eRect (a.intersect b)} {eBool (a.overlaps b)} {eBool (b.overlaps a)} {eBool (a.contains_rect b)} {eBool (b.contains_rect a)} {eInsets (a - b)} {eRect (b + (a - b))}"
  | "rect.un" => some do
      let a : Rect K ← rect
      return s!"{eRect a.abs} {eRect a.expand} {eRect a.trunc} {eRect a.round} {eRect a.ceil} {eRect a.floor} {e a.area} {e a.width} {e a.height} {ePt a.origin} {eSize a.size} {ePt a.center} {eBool a.is_zero_area} {e (a.perimeter (0:K))} {eRect a.bounding_box} {e a.min_x} {e a.max_x} {e a.min_y} {e a.max_y}"
  | "rect.pt" => some do
      let a : Rect K ← rect; let p : Point K ← pt
      return s!"{eBool (a.contains p)} {eRect (a.union_pt p)} {a.winding p} {eRect (Rect.from_points a.origin p)}"
  | "rect.insets" => some do
      let a : Rect K ← rect; let i : Insets K ← insets
      return s!"{eRect (a + i)} {eRect ((a + i) - i)} {eRect (i + a)} {eRect (i - a)} {eRect (a - i)} {eInsets (-i)} {eSize i.size} {e i.x_value} {e i.y_value}"
  | "rect.misc" => some do
      let a : Rect K ← rect; let w : K ← num; let h : K ← num; let v : Vec2 K ← vec
      return s!"{eRect (a.inflate w h)} {eRect (a.scale_from_origin w)} {eRect (a + v)} {eRect (a - v)}"
  -- affine (C12)
  | "aff.bin" => some do
      let a : Affine K ← affine; let b : Affine K ← affine; let p : Point K ← pt
      return s!"{eAffine (a * b)} {ePt (a * p)} {ePt ((a * b) * p)} {ePt (a * (b * p))} {e a.determinant} {e (a * b).determinant}"
  | "aff.inv" => some do
      let a : Affine K ← affine
      return s!"{eAffine a.inverse} {eAffine (a * a.inverse)} {eAffine (a.inverse * a)}"
  | "aff.family" => some do
      -- every constructor / pre_ / then_ member that needs no angle
      let a : Affine K ← affine; let s : K ← num; let sx : K ← num; let sy : K ← num; let v : Vec2 K ← vec; let c : Point K ← pt
      return s!"{eAffine (Affine.scale s)} {eAffine (Affine.scale_non_uniform sx sy)} {eAffine (Affine.translate v)} {eAffine (Affine.skew sx sy)} {eAffine (Affine.scale_about s c)} {eAffine (a.pre_scale s)} {eAffine (a.pre_scale_non_uniform sx sy)} {eAffine (a.pre_translate v)} {eAffine (a.then_scale s)} {eAffine (a.then_scale_non_uniform sx sy)} {eAffine (a.then_translate v)} {eAffine (a.then_scale_about s c)} {eVec a.translation} {eAffine (a.with_translation v)}"
  | "aff.rot" => some do
      let a : Affine K ← affine; let th : K ← num; let c : Point K ← pt
      return s!"{eAffine (Affine.rotate th)} {eAffine (Affine.rotate_about th c)} {eAffine (a.pre_rotate th)} {eAffine (a.pre_rotate_about th c)} {eAffine (a.then_rotate th)} {eAffine (a.then_rotate_about th c)}"
  | "aff.reflect" => some do
      let p : Point K ← pt; let d : Vec2 K ← vec
      return eAffine (Affine.reflect p d)
  | "aff.rect" => some do
      let a : Affine K ← affine; let r : Rect K ← rect
      return s!"{eRect (a.transform_rect_bbox r)} {eAffine (Affine.map_unit_square r)}"
  | "aff.seg" => some do
      let a : Affine K ← affine; let s : PathSeg K ← seg; let t : K ← num
      return s!"{eSeg (a * s)} {ePt ((a * s).eval t)} {ePt (a * (s.eval t))}"
  | "aff.els" => some do
      let a : Affine K ← affine; let p : List (PathEl K) ← els
      return eEls (p.map fun el => a * el)
  -- translate-scale (C12)
  | "ts.bin" => some do
      let a : TranslateScale K ← tscale; let b : TranslateScale K ← tscale; let p : Point K ← pt
      return s!"{eTs (a * b)} {ePt (a * p)} {eAffine a.to_affine} {eTs a.inverse} {ePt (a.to_affine * p)} {eTs (TranslateScale.from_scale_about a.scale p)} {eTs (a.add_Vec2 b.translation)} {eTs (a.sub_Vec2 b.translation)}"
  | "ts.scalar" => some do
      let k : K ← num; let a : TranslateScale K ← tscale
      return s!"{eTs (TranslateScale.scalar_mul k a)} {eAffine (TranslateScale.scalar_mul k a).to_affine} {eAffine (Affine.scalar_mul k a.to_affine)}"
  | "ts.shapes" => some do
      let a : TranslateScale K ← tscale; let l : Line K ← line; let r : Rect K ← rect; let q : QuadBez K ← quad; let c : CubicBez K ← cubic
      return s!"{eLine (a.mul_Line l)} {eRect (a.mul_Rect r)} {eQuad (a.mul_QuadBez q)} {eCubic (a.mul_CubicBez c)}"
  | _ => none

end Kurbo.Driver
