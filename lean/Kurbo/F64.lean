import Kurbo.Scalar
/-! F64 codec (bits ↔ exact `Rat`, correctly rounded `Rat` → f64) and the `Scalar Float` instance. -/
namespace Kurbo

/-- exact value of a finite binary64 bit pattern -/
def f64ToRat (b : UInt64) : Option Rat :=
  let sign := (b >>> 63) != 0
  let e := ((b >>> 52) &&& 0x7FF).toNat
  let m := (b &&& 0xFFFFFFFFFFFFF).toNat
  if e == 0x7FF then none else
  let (mant, ex) : Nat × Int := if e == 0 then (m, -1074) else (m + 2^52, (e : Int) - 1075)
  let r : Rat := if ex ≥ 0 then ((mant * 2^ex.toNat : Nat) : Rat) else (mant : Rat) / ((2^(-ex).toNat : Nat) : Rat)
  some (if sign then -r else r)

/-- correctly rounded (nearest, ties to even) conversion of an exact rational to f64 bits -/
def ratToF64Bits (r : Rat) : UInt64 :=
  if r == 0 then 0 else
  let neg := r < 0
  let n := r.num.natAbs
  let d := r.den
  let ln := n.log2
  let ld := d.log2
  let e0 : Int := (ln : Int) - (ld : Int) - 52
  let scale (e : Int) : Nat × Nat :=
    if e ≥ 0 then (n, d * 2^e.toNat) else (n * 2^(-e).toNat, d)
  let fix (e : Int) : Int :=
    let (a, b) := scale e
    let q := a / b
    if q ≥ 2^53 then e + 1 else if q < 2^52 then e - 1 else e
  let e1 := fix (fix e0)
  let e := if e1 < -1074 then -1074 else e1
  let (a, b) := scale e
  let q := a / b
  let rem := a % b
  let q := if 2 * rem > b then q + 1 else if 2 * rem == b then (if q % 2 == 1 then q + 1 else q) else q
  let (q, e) := if q ≥ 2^53 then (q / 2, e + 1) else (q, e)
  let bits : Nat :=
    if e + 1075 ≥ 0x7FF ∧ q ≥ 2^52 then 0x7FF <<< 52
    else if q < 2^52 then q
    else ((e + 1075).toNat <<< 52) + (q - 2^52)
  let bits := if neg then bits + 2^63 else bits
  bits.toUInt64

def ratToFloat (r : Rat) : Float := Float.ofBits (ratToF64Bits r)

def floatToRat? (x : Float) : Option Rat := f64ToRat x.toBits

def hexDigit (n : Nat) : Char := if n < 10 then Char.ofNat (48 + n) else Char.ofNat (87 + n)

/-- 16 lower-case hex digits -/
def hex64 (b : UInt64) : String :=
  String.ofList ((List.range 16).map fun i => hexDigit ((b >>> (UInt64.ofNat (60 - 4 * i))) &&& 0xF).toNat)

def unhex64 (s : String) : UInt64 :=
  s.foldl (fun acc c =>
    let d : Nat := if c.isDigit then c.toNat - 48 else if c.toNat ≥ 97 then c.toNat - 87 else c.toNat - 55
    acc * 16 + d.toUInt64) 0

def floatSignBit (x : Float) : Bool := (x.toBits >>> 63) != 0

def floatTrunc (x : Float) : Float := if x < 0.0 then Float.ceil x else Float.floor x

/-- exact `fmod` through rationals (both finite, divisor non-zero), sign of the dividend -/
def floatFmod (a b : Float) : Float :=
  match floatToRat? a, floatToRat? b with
  | some ra, some rb =>
    if rb == 0 then (0.0 / 0.0) else
    let r := ratFmod ra rb
    if r == 0 then (if floatSignBit a then -0.0 else 0.0) else ratToFloat r
  | some _, none => if b.isNaN then b else a
  | _, _ => (0.0 / 0.0)

/-- correctly rounded square root of a non-negative rational (integer square root with 64+ significant bits and a sticky half) -/
def sqrtRatToFloat (r : Rat) : Float :=
  if r ≤ 0 then 0.0 else
  let n := r.num.natAbs
  let d := r.den
  -- k such that floor(r * 4^k) ≥ 2^130
  let ln := n.log2
  let ld := d.log2
  let need : Int := 132 + (ld : Int) - (ln : Int)
  let k : Nat := if need ≤ 0 then 0 else ((need + 1) / 2).toNat
  let num := n * 4 ^ k
  let q := num / d
  let s := q.sqrt
  let inexact := (s * s != q) || (num % d != 0)
  let v : Rat := ((2 * s + (if inexact then 1 else 0) : Nat) : Rat) / ((2 ^ (k + 1) : Nat) : Rat)
  ratToFloat v

/-- `f64::hypot` (libm): correctly rounded √(x²+y²) -/
def floatHypot (x y : Float) : Float :=
  match floatToRat? x, floatToRat? y with
  | some rx, some ry => sqrtRatToFloat (rx * rx + ry * ry)
  | _, _ => if x.isInf || y.isInf then (1.0 / 0.0) else (0.0 / 0.0)

/-- move the bit pattern `b` of a positive double towards the double nearest to `∛ax` (exact comparison of `ax` with the cubes of the
    two neighbouring midpoints; a cube root is never a midpoint of two doubles, so there are no ties) -/
def cbrtAdjust (ax : Rat) : Nat → UInt64 → UInt64
  | 0, b => b
  | n + 1, b =>
    let v (u : UInt64) : Rat := (f64ToRat u).getD 0
    let mlo := (v (b - 1) + v b) / 2
    let mhi := (v b + v (b + 1)) / 2
    if ax < mlo * mlo * mlo then cbrtAdjust ax n (b - 1)
    else if mhi * mhi * mhi < ax then cbrtAdjust ax n (b + 1)
    else b

/-- correctly rounded cube root: `std`'s `f64::cbrt` on the pinned toolchain resolves to the `cbrt` of `compiler_builtins`' bundled
    libm (the CORE-MATH port, correctly rounded), not to the C library's (a few ulps off now and then).  The C library's value is taken
    as a first guess and moved to the nearest double by exact rational comparisons. -/
def floatCbrt (x : Float) : Float :=
  let y := Float.cbrt x
  match floatToRat? x, floatToRat? y with
  | some rx, some ry =>
    if rx == 0 || ry == 0 then y else
    let ax : Rat := if rx < 0 then -rx else rx
    let r := Float.ofBits (cbrtAdjust ax 8 y.abs.toBits)
    if rx < 0 then -r else r
  | _, _ => y

instance : Scalar Float where
  add := (· + ·); sub := (· - ·); mul := (· * ·); div := (· / ·); neg := (- ·)
  abs := Float.abs
  lt a b := a < b; le a b := a ≤ b; beq a b := a == b
  ofRat := ratToFloat
  floor := Float.floor; ceil := Float.ceil; round := Float.round; trunc := floatTrunc
  sqrt := Float.sqrt
  cbrt := floatCbrt
  sin := Float.sin
  cos := Float.cos
  tan := Float.tan
  acos := Float.acos
  atan2 := Float.atan2
  powf := Float.pow
  ln := Float.log
  log2 := Float.log2
  fma a b c :=
    match floatToRat? a, floatToRat? b, floatToRat? c with
    | some ra, some rb, some rc =>
      let r := ra * rb + rc
      if r == 0 then a * b + c else ratToFloat r
    | _, _, _ => a * b + c
  hypot := floatHypot
  copysign a b := if floatSignBit b then -a.abs else a.abs
  fin x := x.isFinite
  finQuot _ r := r.isFinite
  isNan x := x.isNaN
  toUSize x := x.toUInt64.toNat
  signum x := if x.isNaN then x else if floatSignBit x then -1.0 else 1.0
  min a b := if a.isNaN then b else if b.isNaN then a else if b < a then b else a
  max a b := if a.isNaN then b else if b.isNaN then a else if a < b then b else a
  fmod := floatFmod
  pi := 3.141592653589793

end Kurbo
