import Kurbo.Driver
import Kurbo.OpsSvg
import Kurbo.SvgWrite
/-! protocol op for the SVG path writer (C16, tag C16W)

`svg.write <k> <tok_1> … <tok_k> | <elements>` – the model does not print floats.  `tok_j` = `x` + hex of the bytes of the j-th
numeral of the text the crate wrote (`BezPath::to_svg`), in order of appearance.  The coordinates of the elements are tagged with
their position (the order of the fields: element by element, `p1.x p1.y p2.x p2.y p3.x p3.y`), and the MODEL function `svgWrite` is
run on the tagged list with `spell (x, j) := tok_j`.  Output: `x` + hex of the bytes written.  The judge (gen/c16.py) compares it
with the crate's bytes and checks separately that every numeral denotes exactly the coordinate at its position. -/
namespace Kurbo.Driver
open Kurbo
variable {K : Type} [Scalar K] [Codec K]

def hexBytes (bs : List UInt8) : String :=
  let d (n : Nat) : Char := if n < 10 then Char.ofNat (48 + n) else Char.ofNat (87 + n)
  String.ofList (bs.flatMap fun b => [d (b.toNat / 16), d (b.toNat % 16)])

def tagPt (p : Point K) (n : Nat) : Point (K × Nat) × Nat := (⟨(p.x, n), (p.y, n + 1)⟩, n + 2)

/-- tag every coordinate with its position in field order -/
def tagEls : List (PathEl K) → Nat → List (PathEl (K × Nat))
  | [], _ => []
  | .MoveTo p :: r, n => let (p, n) := tagPt p n; .MoveTo p :: tagEls r n
  | .LineTo p :: r, n => let (p, n) := tagPt p n; .LineTo p :: tagEls r n
  | .QuadTo p1 p2 :: r, n => let (p1, n) := tagPt p1 n; let (p2, n) := tagPt p2 n; .QuadTo p1 p2 :: tagEls r n
  | .CurveTo p1 p2 p3 :: r, n =>
    let (p1, n) := tagPt p1 n; let (p2, n) := tagPt p2 n; let (p3, n) := tagPt p3 n; .CurveTo p1 p2 p3 :: tagEls r n
  | .ClosePath :: r, n => .ClosePath :: tagEls r n

def nCoords : PathEl K → Nat
  | .MoveTo _ => 2 | .LineTo _ => 2 | .QuadTo _ _ => 4 | .CurveTo _ _ _ => 6 | .ClosePath => 0

def opsSvgWrite (op : String) : Option (Rd String) :=
  match op with
  | "svg.write" => some do
      let k ← nat
      let mut toks : Array (List UInt8) := #[]
      for _ in [0:k] do
        let t ← tok
        if !t.startsWith "x" then failure
        toks := toks.push (unhexBytes (t.drop 1).toString).data.toList
      let bar ← tok
      if bar != "|" then failure
      let p : List (PathEl K) ← els
      let need := (p.map nCoords).sum
      if need != k then return s!"NUMERAL-COUNT {k} {need}"
      -- a numeral that is missing would be written as `?` (cannot happen: need = k)
      let spell : K × Nat → List UInt8 := fun (_, j) => toks.getD j [63]
      return "x" ++ hexBytes (svgWrite spell (tagEls p 0))
  | _ => none

end Kurbo.Driver
