import Kurbo.Driver
/-! protocol ops for the compound-assignment operators (`*=`, `+=`, `-=`, `/=`; C12, C20): the model side is the corresponding
    BINARY operator of the kernel model – `a op= b` must equal `a op b` -/
namespace Kurbo.Driver
open Kurbo Kurbo.Ops
variable {K : Type} [Scalar K] [Codec K]

def opsAssign (op : String) : Option (Rd String) :=
  match op with
  | "assign.maps" => some do
      let a : Affine K ← affine; let b : Affine K ← affine; let s : TranslateScale K ← tscale; let t : TranslateScale K ← tscale; let v : Vec2 K ← vec
      return s!"{eAffine (a * b)} {eTs (s * t)} {eTs (s.add_Vec2 v)} {eTs (s.sub_Vec2 v)}"
  | "assign.vecs" => some do
      let p : Point K ← pt; let u : Vec2 K ← vec; let v : Vec2 K ← vec; let k : K ← num; let sa : Vec2 K ← vec; let sb : Vec2 K ← vec
      let es := fun (w h : K) => s!"{e w} {e h}"
      return s!"{ePt (p + v)} {ePt (p - v)} {eVec (u + v)} {eVec (u - v)} {eVec (u * k)} {eVec (u / k)} {es (sa.x * k) (sa.y * k)} {es (sa.x / k) (sa.y / k)} {es (sa.x + sb.x) (sa.y + sb.y)} {es (sa.x - sb.x) (sa.y - sb.y)}"
  | _ => none

end Kurbo.Driver
