import Kurbo.F64
import Kurbo.Kernel
/-! Line-protocol driver: one operation per line, every f64 as 16 hex digits of its bit pattern.
    `kmodel R` runs the model with `K = Rat` (exact; results printed as the correctly rounded double),
    `kmodel F` with `K = Float`.  Mathlib-free, so it links as a `lean_exe`. -/
namespace Kurbo.Driver
open Kurbo Kurbo.Ops

class Codec (K : Type) where
  dec : String → Option K
  enc : K → String
  /-- exact textual form (p/q for Rat, bits for Float) -/
  encExact : K → String

instance : Codec Float where
  dec s := if s.length == 16 then some (Float.ofBits (unhex64 s)) else none
  enc x := if x.isNaN then "nan" else hex64 x.toBits
  encExact x := if x.isNaN then "nan" else hex64 x.toBits

instance : Codec Rat where
  dec s := if s.length == 16 then f64ToRat (unhex64 s) else none
  enc r := hex64 (ratToF64Bits r)
  encExact r := s!"{r.num}/{r.den}"

/-- token reader -/
abbrev Rd := StateT (List String) Option

def tok : Rd String := do
  match (← get) with
  | [] => failure
  | t :: r => set r; pure t

def peek? : Rd (Option String) := do
  match (← get) with
  | [] => pure none
  | t :: _ => pure (some t)

section
variable {K : Type} [Scalar K] [Codec K]

def num : Rd K := do
  let t ← tok
  match Codec.dec t with
  | some x => pure x
  | none => failure

def nat : Rd Nat := do
  let t ← tok
  match t.toNat? with
  | some n => pure n
  | none => failure

def pt : Rd (Point K) := do let x ← num; let y ← num; pure ⟨x, y⟩
def vec : Rd (Vec2 K) := do let x ← num; let y ← num; pure ⟨x, y⟩
def line : Rd (Line K) := do let a ← pt; let b ← pt; pure ⟨a, b⟩
def quad : Rd (QuadBez K) := do let a ← pt; let b ← pt; let c ← pt; pure ⟨a, b, c⟩
def cubic : Rd (CubicBez K) := do let a ← pt; let b ← pt; let c ← pt; let d ← pt; pure ⟨a, b, c, d⟩
def rect : Rd (Rect K) := do let a ← num; let b ← num; let c ← num; let d ← num; pure ⟨a, b, c, d⟩
def insets : Rd (Insets K) := do let a ← num; let b ← num; let c ← num; let d ← num; pure ⟨a, b, c, d⟩
def size : Rd (Size K) := do let a ← num; let b ← num; pure ⟨a, b⟩
def affine : Rd (Affine K) := do
  let a ← num; let b ← num; let c ← num; let d ← num; let e ← num; let f ← num; pure ⟨a, b, c, d, e, f⟩
def tscale : Rd (TranslateScale K) := do let v ← vec; let s ← num; pure ⟨v, s⟩

/-- a segment: `L` 4 numbers | `Q` 6 | `C` 8 -/
def seg : Rd (PathSeg K) := do
  match (← tok) with
  | "L" => return .Line (← line)
  | "Q" => return .Quad (← quad)
  | "C" => return .Cubic (← cubic)
  | _ => failure

/-- path elements up to `;` or the end of the line -/
partial def els : Rd (List (PathEl K)) := do
  match (← peek?) with
  | none => pure []
  | some ";" => let _ ← tok; pure []
  | some "M" => let _ ← tok; let p ← pt; return .MoveTo p :: (← els)
  | some "L" => let _ ← tok; let p ← pt; return .LineTo p :: (← els)
  | some "Q" => let _ ← tok; let a ← pt; let b ← pt; return .QuadTo a b :: (← els)
  | some "C" => let _ ← tok; let a ← pt; let b ← pt; let c ← pt; return .CurveTo a b c :: (← els)
  | some "Z" => let _ ← tok; return .ClosePath :: (← els)
  | _ => failure

def e (x : K) : String := Codec.enc x
def ePt (p : Point K) : String := s!"{e p.x} {e p.y}"
def eVec (p : Vec2 K) : String := s!"{e p.x} {e p.y}"
def eLine (l : Line K) : String := s!"{ePt l.p0} {ePt l.p1}"
def eQuad (l : QuadBez K) : String := s!"{ePt l.p0} {ePt l.p1} {ePt l.p2}"
def eCubic (l : CubicBez K) : String := s!"{ePt l.p0} {ePt l.p1} {ePt l.p2} {ePt l.p3}"
def eRect (r : Rect K) : String := s!"{e r.x0} {e r.y0} {e r.x1} {e r.y1}"
def eInsets (r : Insets K) : String := s!"{e r.x0} {e r.y0} {e r.x1} {e r.y1}"
def eSize (r : Size K) : String := s!"{e r.width} {e r.height}"
def eAffine (a : Affine K) : String := s!"{e a.c0} {e a.c1} {e a.c2} {e a.c3} {e a.c4} {e a.c5}"
def eTs (a : TranslateScale K) : String := s!"{eVec a.translation} {e a.scale}"
def eBool (b : Bool) : String := if b then "1" else "0"
def eSeg : PathSeg K → String
  | .Line l => s!"L {eLine l}"
  | .Quad q => s!"Q {eQuad q}"
  | .Cubic c => s!"C {eCubic c}"
def eEl : PathEl K → String
  | .MoveTo p => s!"M {ePt p}"
  | .LineTo p => s!"L {ePt p}"
  | .QuadTo a b => s!"Q {ePt a} {ePt b}"
  | .CurveTo a b c => s!"C {ePt a} {ePt b} {ePt c}"
  | .ClosePath => "Z"
def eEls (l : List (PathEl K)) : String := " ".intercalate (l.map eEl)
def eList (l : List K) : String := s!"{l.length}" ++ String.join (l.map fun x => " " ++ e x)

end
end Kurbo.Driver
