import Kurbo.Driver
import Kurbo.Path
/-! protocol ops for the path model (C07, C02, C01, C05) -/
namespace Kurbo.Driver
open Kurbo Kurbo.Ops
variable {K : Type} [Scalar K] [Codec K]

def eSegs (l : List (PathSeg K)) : String := s!"{l.length}" ++ String.join (l.map fun s => " | " ++ eSeg s)
def eOptSeg : Option (PathSeg K) → String
  | some s => eSeg s
  | none => "none"

def opsPath (op : String) : Option (Rd String) :=
  match op with
  | "path.segs" => some do
      let p : List (PathEl K) ← els
      match segs p with
      | none => return "PANIC"
      | some l => return eSegs l
  | "path.getsegs" => some do
      let p : List (PathEl K) ← els
      return " | ".intercalate ((List.range (p.length + 2)).map fun ix => eOptSeg (getSeg p ix))
  | "path.fromsegs" => some do
      let p : List (PathEl K) ← els
      match segs p with
      | none => return "PANIC"
      | some l => return eEls (fromPathSegments l)
  | "path.rev" => some do
      let p : List (PathEl K) ← els
      match reverseSubpaths p with
      | none => return "PANIC"
      | some l => return eEls l
  | "path.area" => some do
      let p : List (PathEl K) ← els
      match pathArea p with
      | none => return "PANIC"
      | some a => return e a
  | _ => none

end Kurbo.Driver
