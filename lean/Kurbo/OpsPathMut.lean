import Kurbo.Driver
import Kurbo.OpsPath
import Kurbo.PathMut
/-! protocol op for the `BezPath` mutators (C07, tag C07M)

`path.mut <script>` – a builder history run on ONE path (initially `BezPath::new()`), mutators and queries in any order:
  mutators  `new` | `cap <n>` | `vec <elements> ;` | `push <element>` | `pop` | `trunc <n>` | `ext <elements> ;` | `mv x y` | `ln x y` |
            `qd x y x y` | `cv x y x y x y` | `cl` | `aff c0 … c5`
  queries   `els` | `iter` | `segs` | `gseg <i>` | `empty` | `len`
Output: the results of `pop` and of the queries in order, separated by ` ; `; the whole line is `PANIC(<message>)` if a
`debug_assert!` (or the `segments()` iterator) panics.  Every mutator goes through the model function `mutStep`. -/
namespace Kurbo.Driver
open Kurbo Kurbo.Ops
variable {K : Type} [Scalar K] [Codec K]

def ePanicMsg : PanicMsg → String
  | .mustBeginWithMoveTo => "PANIC(BezPath must begin with MoveTo)"
  | .uninitializedSubpath => "PANIC(uninitialized subpath (missing MoveTo))"

/-- one element -/
def el1 : Rd (PathEl K) := do
  match (← tok) with
  | "M" => return .MoveTo (← pt)
  | "L" => return .LineTo (← pt)
  | "Q" => let a ← pt; let b ← pt; return .QuadTo a b
  | "C" => let a ← pt; let b ← pt; let c ← pt; return .CurveTo a b c
  | "Z" => return .ClosePath
  | _ => failure

/-- a mutator token (already consumed) with its arguments -/
def mutOp? (t : String) : Rd (Option (MutOp K)) := do
  match t with
  | "new" => return some .new
  | "cap" => return some (.with_capacity (← nat))
  | "vec" => return some (.from_vec (← els))
  | "push" => return some (.push (← el1))
  | "pop" => return some .pop
  | "trunc" => return some (.truncate (← nat))
  | "ext" => return some (.extend (← els))
  | "mv" => return some (.move_to (← pt))
  | "ln" => return some (.line_to (← pt))
  | "qd" => let a ← pt; let b ← pt; return some (.quad_to a b)
  | "cv" => let a ← pt; let b ← pt; let c ← pt; return some (.curve_to a b c)
  | "cl" => return some .close_path
  | "aff" => return some (.apply_affine (← affine))
  | _ => return none

partial def mutScript (p : BezPath K) (acc : Array String) : Rd String := do
  match (← peek?) with
  | none => return " ; ".intercalate acc.toList
  | some t =>
    let _ ← tok
    match (← mutOp? (K := K) t) with
    | some op =>
      match mutStep p op with
      | .panic m => set ([] : List String); return ePanicMsg m
      | .ok (p', out) =>
        match out with
        | some (some el) => mutScript p' (acc.push ("pop " ++ eEl el))
        | some none => mutScript p' (acc.push "pop none")
        | none => mutScript p' acc
    | none =>
      match t with
      | "els" => mutScript p (acc.push ("els " ++ eEls p.elements))
      | "iter" => mutScript p (acc.push ("iter " ++ eEls p.iter))
      | "segs" =>
        match p.segments with
        | none => set ([] : List String); return "PANIC(Can't start a segment on a ClosePath)"
        | some l => mutScript p (acc.push ("segs " ++ eSegs l))
      | "gseg" => let i ← nat; mutScript p (acc.push ("gseg " ++ eOptSeg (p.get_seg i)))
      | "empty" => mutScript p (acc.push ("empty " ++ eBool p.is_empty))
      | "len" => mutScript p (acc.push s!"len {p.elements.length}")
      | _ => failure

def opsPathMut (op : String) : Option (Rd String) :=
  match op with
  | "path.mut" => some (mutScript (K := K) BezPath.new #[])
  | _ => none

end Kurbo.Driver
