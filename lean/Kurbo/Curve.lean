import Kurbo.Path
import Kurbo.Solve
/-! Hand-written model of the per-segment curve queries: extrema, extrema ranges, bounding boxes (param_curve.rs,
    quadbez.rs, cubicbez.rs, bezpath.rs) and the ray-casting winding number (`PathSeg::winding_inner`,
    `PathSeg::winding`, `Segments::winding`, `contains`). -/
namespace Kurbo
open Ops
variable {K : Type} [Scalar K]

/-- `impl ParamCurveExtrema for QuadBez` -/
def QuadBez.extrema (self : QuadBez K) : List K :=
  let d0 := self.p1 - self.p0
  let d1 := self.p2 - self.p1
  let dd := d1 - d0
  let r1 : List K :=
    if sne dd.x (0 : K) then
      let t := -d0.x / dd.x
      if (0 : K) <. t && t <. (1 : K) then [t] else []
    else []
  if sne dd.y (0 : K) then
    let t := -d0.y / dd.y
    if (0 : K) <. t && t <. (1 : K) then
      -- push, then swap if there are two and the first is larger
      match r1 with
      | [t0] => if t <. t0 then [t, t0] else [t0, t]
      | _ => r1 ++ [t]
    else r1
  else r1

/-- insertion into a sorted list (`sort_by(partial_cmp)` on at most four values) -/
def insertSorted (x : K) : List K → List K
  | [] => [x]
  | y :: ys => if x <. y then x :: y :: ys else y :: insertSorted x ys

def sortList (l : List K) : List K := l.foldl (fun acc x => insertSorted x acc) []

/-- `one_coord` of `impl ParamCurveExtrema for CubicBez` -/
def cubicOneCoord (d0 d1 d2 : K) : List K :=
  let a := d0 - (2 : K) * d1 + d2
  let b := (2 : K) * (d1 - d0)
  let c := d0
  (solveQuadratic c b a).filter fun t => (0 : K) <. t && t <. (1 : K)

/-- `impl ParamCurveExtrema for CubicBez` -/
def CubicBez.extrema (self : CubicBez K) : List K :=
  let d0 := self.p1 - self.p0
  let d1 := self.p2 - self.p1
  let d2 := self.p3 - self.p2
  sortList (cubicOneCoord d0.x d1.x d2.x ++ cubicOneCoord d0.y d1.y d2.y)

def PathSeg.extrema : PathSeg K → List K
  | .Line _ => []
  | .Quad q => q.extrema
  | .Cubic c => c.extrema

/-- `ParamCurveExtrema::extrema_ranges` -/
def extremaRangesFrom (t0 : K) : List K → List (Range K)
  | [] => [⟨t0, (1 : K)⟩]
  | t :: ts => ⟨t0, t⟩ :: extremaRangesFrom t ts

def PathSeg.extrema_ranges (s : PathSeg K) : List (Range K) := extremaRangesFrom (0 : K) s.extrema

/-- `ParamCurveExtrema::bounding_box` (default method) -/
def PathSeg.bounding_box (s : PathSeg K) : Rect K :=
  s.extrema.foldl (fun bb t => bb.union_pt (s.eval t)) (Rect.from_points s.start s.end)

/-- `Segments::bounding_box` -/
def pathBoundingBox (els : List (PathEl K)) : Option (Rect K) :=
  (segs els).map fun ss =>
    match ss with
    | [] => (⟨0, 0, 0, 0⟩ : Rect K)
    | s :: rest => rest.foldl (fun bb t => bb.union t.bounding_box) s.bounding_box

/-- `BezPath::control_box` -/
def controlBox (els : List (PathEl K)) : Rect K :=
  let pts : List (Point K) := els.flatMap fun el => match el with
    | .MoveTo p => [p]
    | .LineTo p => [p]
    | .QuadTo a b => [a, b]
    | .CurveTo a b c => [a, b, c]
    | .ClosePath => []
  match pts with
  | [] => ⟨0, 0, 0, 0⟩
  | p :: rest => rest.foldl (fun bb q => bb.union_pt q) (Rect.from_points p p)

/-- first root in `[0,1]`: `for t in roots { if (0.0..=1.0).contains(&t) { return … } }` -/
def firstInUnit (roots : List K) : Option K :=
  roots.find? fun t => (0 : K) <=. t && t <=. (1 : K)

/-- `PathSeg::winding_at_nearer_end`: the fallback when the solver returns no root in `[0,1]` -/
def windingAtNearerEnd (start «end» p : Point K) (sign : Int) : Int :=
  let x := if sabs (p.y - start.y) <=. sabs (p.y - «end».y) then start.x else «end».x
  if x <=. p.x then sign else 0

/-- `PathSeg::winding_inner` (assumes the segment is monotone: split at extrema) -/
def PathSeg.winding_inner (s : PathSeg K) (p : Point K) : Int :=
  let start := s.start
  let «end» := s.end
  -- sign and the half-open row test
  let sign? : Option Int :=
    if start.y <. «end».y then
      (if p.y <. start.y || «end».y <=. p.y then none else some (-1))
    else if «end».y <. start.y then
      (if p.y <. «end».y || start.y <=. p.y then none else some 1)
    else none
  match sign? with
  | none => 0
  | some sign =>
    match s with
    | .Line _ =>
      if p.x <. smin start.x «end».x then 0
      else if smax start.x «end».x <=. p.x then sign
      else
        let a := «end».y - start.y
        let b := start.x - «end».x
        let c := a * start.x + b * start.y
        let sf : K := if sign == 1 then (1 : K) else (-(1 : K))
        if (a * p.x + b * p.y - c) * sf <=. (0 : K) then sign else 0
    | .Quad quad =>
      let p1 := quad.p1
      if p.x <. smin (smin start.x «end».x) p1.x then 0
      else if smax (smax start.x «end».x) p1.x <=. p.x then sign
      else
        let a := «end».y - (2 : K) * p1.y + start.y
        let b := (2 : K) * (p1.y - start.y)
        let c := start.y - p.y
        match firstInUnit (solveQuadratic c b a) with
        | some t => if (quad.eval t).x <=. p.x then sign else 0
        | none => windingAtNearerEnd start «end» p sign
    | .Cubic cubic =>
      let p1 := cubic.p1
      let p2 := cubic.p2
      if p.x <. smin (smin (smin start.x «end».x) p1.x) p2.x then 0
      else if smax (smax (smax start.x «end».x) p1.x) p2.x <=. p.x then sign
      else
        let a := «end».y - (3 : K) * p2.y + (3 : K) * p1.y - start.y
        let b := (3 : K) * (p2.y - (2 : K) * p1.y + start.y)
        let c := (3 : K) * (p1.y - start.y)
        let d := start.y - p.y
        match firstInUnit (solveCubic d c b a) with
        | some t => if (cubic.eval t).x <=. p.x then sign else 0
        | none => windingAtNearerEnd start «end» p sign

/-- `PathSeg::winding` -/
def PathSeg.winding (s : PathSeg K) (p : Point K) : Int :=
  match s with
  | .Line _ => s.winding_inner p
  | _ => (s.extrema_ranges.map fun r => (s.subsegment r).winding_inner p).foldl (· + ·) 0

/-- `Segments::winding` -/
def pathWinding (els : List (PathEl K)) (p : Point K) : Option Int :=
  (segs els).map fun ss => (ss.map fun s => s.winding p).foldl (· + ·) 0

/-- `Shape::contains` for paths: `winding(pt) != 0` -/
def pathContains (els : List (PathEl K)) (p : Point K) : Option Bool := (pathWinding els p).map (· != 0)

end Kurbo
