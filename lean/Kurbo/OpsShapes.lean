import Kurbo.Driver
import Kurbo.Shapes
/-! protocol ops for shapes (C10, C11) -/
namespace Kurbo.Driver
open Kurbo Kurbo.Ops
variable {K : Type} [Scalar K] [Codec K]

inductive Shp (K : Type) where
  | circle (c : Circle K) | ellipse (e : Ellipse K) | arc (a : Arc K) | rrect (r : RoundedRect K)
  | cseg (s : CircleSegment K) | rect (r : Rect K) | tri (t : Triangle K) | line (l : Line K)
  | quad (q : QuadBez K) | cubic (c : CubicBez K)

def shp : Rd (Shp K) := do
  match (← tok) with
  | "circle" => let c ← pt; let r : K ← num; return .circle ⟨c, r⟩
  | "ellipse" => let c ← pt; let r ← vec; let rot : K ← num; return .ellipse (Ellipse.new c r rot)
  | "ellipse_aff" => let a ← affine; return .ellipse ⟨a⟩
  | "arc" => let c ← pt; let r ← vec; let st : K ← num; let sw : K ← num; let rot : K ← num
             return .arc { center := c, radii := r, start_angle := st, sweep_angle := sw, x_rotation := rot }
  | "rrect" => let r ← rect; let a : K ← num; let b : K ← num; let c : K ← num; let d : K ← num
               return .rrect (RoundedRect.from_rect r ⟨a, b, c, d⟩)
  | "cseg" => let c ← pt; let o : K ← num; let i : K ← num; let st : K ← num; let sw : K ← num
              return .cseg ⟨c, o, i, st, sw⟩
  | "rect" => return .rect (← rect)
  | "tri" => let a ← pt; let b ← pt; let c ← pt; return .tri ⟨a, b, c⟩
  | "line" => return .line (← line)
  | "quad" => return .quad (← quad)
  | "cubic" => return .cubic (← cubic)
  | _ => failure

def Shp.path : Shp K → K → List (PathEl K)
  | .circle c, tol => c.path_elements tol
  | .ellipse e, tol => e.path_elements tol
  | .arc a, tol => a.path_elements tol
  | .rrect r, tol => r.path_elements tol
  | .cseg s, tol => s.path_elements tol
  | .rect r, _ => r.path_elements
  | .tri t, _ => t.path_elements
  | .line l, _ => l.path_elements
  | .quad q, _ => q.path_elements
  | .cubic c, _ => c.path_elements

/-- closed-form `(area, winding at p, bbox)`; `none` where the crate itself goes through the outline (arc, quad, cubic, line) -/
def Shp.area? : Shp K → Option K
  | .circle c => some c.area | .ellipse e => some e.area | .rrect r => some r.area | .cseg s => some s.area
  | .rect r => some r.area | .tri t => some t.area | _ => none
def Shp.winding? : Shp K → Point K → Option Int
  | .circle c, p => some (c.winding p) | .ellipse e, p => some (e.winding p) | .rrect r, p => some (r.winding p)
  | .cseg s, p => some (s.winding p) | .rect r, p => some (r.winding p) | .tri t, p => some (t.winding p) | _, _ => none
def Shp.bbox? : Shp K → Option (Rect K)
  | .circle c => some c.bounding_box | .ellipse e => some e.bounding_box | .rrect r => some r.bounding_box
  | .cseg s => some s.bounding_box | .rect r => some r.bounding_box | .tri t => some t.bounding_box | _ => none

partial def rdPtsN : Nat → Rd (List (Point K))
  | 0 => pure []
  | k + 1 => do let c ← pt; let r ← rdPtsN k; pure (c :: r)

def opsShapes (op : String) : Option (Rd String) :=
  match op with
  | "shape.path" => some do
      let s : Shp K ← shp; let tol : K ← num
      return eEls (s.path tol)
  | "shape.affine" => some do
      -- outline of the image shape | image of the outline  (circle / ellipse / arc)
      let a : Affine K ← affine; let s : Shp K ← shp; let tol : K ← num
      let img : Option (List (PathEl K)) := match s with
        | .circle c => some ((a.mul_Ellipse (Ellipse.new c.center ⟨c.radius, c.radius⟩ (0 : K))).path_elements tol)
        | .ellipse el => some ((a.mul_Ellipse el).path_elements tol)
        | .arc arc => some ((a.mul_Arc arc).path_elements tol)
        | _ => none
      match img with
      | none => failure
      | some img => return s!"{eEls img} | {eEls ((s.path tol).map fun el => a * el)}"
  | "shape.query" => some do
      let s : Shp K ← shp; let n ← nat; let pts : List (Point K) ← rdPtsN n
      let a := match s.area? with | some a => e a | none => "-"
      let b := match s.bbox? with | some b => eRect b | none => "-"
      let ws := pts.map fun p => match s.winding? p with | some w => s!"{w}" | none => "-"
      return s!"{a} | {b} | {" ".intercalate ws}"
  | _ => none

end Kurbo.Driver
