import Kurbo.Kernel
import Kurbo.Solve
/-! Hand-written model of cubic → quadratic conversion (cubicbez.rs, quadspline.rs; C17) and of the
    nearest-point queries of quadratics and cubics (quadbez.rs, cubicbez.rs; C09). -/
namespace Kurbo
open Ops
variable {K : Type} [Scalar K]

/-- `n as f64` -/
def natK (n : Nat) : K := Scalar.ofRat ((n : Nat) : Rat)

/-- the number of pieces chosen by `CubicBez::to_quads` -/
def toQuadsN (c : CubicBez K) (accuracy : K) : Nat :=
  let max_hypot2 := (432 : K) * accuracy * accuracy
  let p1x2 := (3 : K) * c.p1.to_vec2 - c.p0.to_vec2
  let p2x2 := (3 : K) * c.p2.to_vec2 - c.p3.to_vec2
  let err := (p2x2 - p1x2).hypot2
  let n := Scalar.toUSize (Scalar.ceil (Scalar.powf (err / max_hypot2) ((1 : K) / (6 : K))))
  if n < 1 then 1 else n

/-- `ToQuads::next` for index `i` of `n` -/
def toQuadsPiece (c : CubicBez K) (n i : Nat) : K × K × QuadBez K :=
  let t0 : K := natK i / natK n
  let t1 : K := natK (i + 1) / natK n
  let seg := c.subsegment ⟨t0, t1⟩
  let p1x2 := (3 : K) * seg.p1.to_vec2 - seg.p0.to_vec2
  let p2x2 := (3 : K) * seg.p2.to_vec2 - seg.p3.to_vec2
  (t0, t1, QuadBez.new seg.p0 ((p1x2 + p2x2) / (4 : K)).to_point seg.p3)

/-- `CubicBez::to_quads(accuracy).collect()` -/
def CubicBez.to_quads (c : CubicBez K) (accuracy : K) : List (K × K × QuadBez K) :=
  let n := toQuadsN c accuracy
  (List.range n).map fun i => toQuadsPiece c n i

/-- `CubicBez::fit_inside` with fuel (the recursion of the crate is unbounded; see C14) -/
def CubicBez.fit_inside (self : CubicBez K) (distance : K) : Nat → Bool
  | 0 => false
  | fuel + 1 =>
    if self.p2.to_vec2.hypot <=. distance && self.p1.to_vec2.hypot <=. distance then true
    else
      let mid := (self.p0.to_vec2 + (3 : K) * (self.p1.to_vec2 + self.p2.to_vec2) + self.p3.to_vec2) * (Scalar.ofRat (1/8) : K)
      if distance <. mid.hypot then false
      else
        let (left, right) := self.subdivide
        left.fit_inside distance fuel && right.fit_inside distance fuel

/-- `Line::crossing_point` -/
def Line.crossing_point (self other : Line K) : Option (Point K) :=
  let ab := self.p1 - self.p0
  let cd := other.p1 - other.p0
  let pcd := ab.cross cd
  if pcd ==. (0 : K) then none
  else
    let h := ab.cross (self.p0 - other.p0) / pcd
    some (other.p0 + cd * h)

def fitFuel : Nat := 64

/-- `CubicBez::try_approx_quadratic` -/
def CubicBez.try_approx_quadratic (self : CubicBez K) (accuracy : K) : Option (QuadBez K) :=
  match (Line.new self.p0 self.p1).crossing_point (Line.new self.p2 self.p3) with
  | some q1 =>
    let c1 := self.p0.lerp q1 ((2 : K) / (3 : K))
    let c2 := self.p3.lerp q1 ((2 : K) / (3 : K))
    if !(CubicBez.new Point.ZERO (c1 - self.p1.to_vec2) (c2 - self.p2.to_vec2) Point.ZERO).fit_inside accuracy fitFuel then none
    else some (QuadBez.new self.p0 q1 self.p3)
  | none => none

/-- `CubicBez::split_into_n(n).collect()` -/
def CubicBez.split_into_n (self : CubicBez K) (n : Nat) : List (CubicBez K) :=
  match n with
  | 1 => [self]
  | 2 => let (l, r) := self.subdivide; [l, r]
  | 3 => let (left, mid, right) := self.subdivide_3; [left, mid, right]
  | 4 =>
    let (l, r) := self.subdivide
    let (ll, lr) := l.subdivide
    let (rl, rr) := r.subdivide
    [ll, lr, rl, rr]
  | 6 =>
    let (l, r) := self.subdivide
    let (l1, l2, l3) := l.subdivide_3
    let (r1, r2, r3) := r.subdivide_3
    [l1, l2, l3, r1, r2, r3]
  | _ =>
    let (a, b, c, d) := self.parameters
    let dt : K := (1 : K) / natK n
    let delta_2 := dt * dt
    let delta_3 := dt * delta_2
    (List.range n).map fun i =>
      let t1 : K := natK i * dt
      let t1_2 := t1 * t1
      let a1 := a * delta_3
      let b1 := ((3 : K) * a * t1 + b) * delta_2
      let c1 := ((2 : K) * b * t1 + c + (3 : K) * a * t1_2) * dt
      let d1 := a * t1 * t1_2 + b * t1_2 + c * t1 + d
      CubicBez.from_parameters a1 b1 c1 d1

/-- loop state of `approx_spline_n` -/
structure SplineSt (K : Type) where
  next_cubic : CubicBez K
  next_q1 : Point K
  q2 : Point K
  d1 : Vec2 K
  spline : List (Point K)   -- in push order
  rest : List (CubicBez K)

/-- `CubicBez::approx_spline_n`; the result is the control point list of the `QuadSpline` -/
def CubicBez.approx_spline_n (self : CubicBez K) (n : Nat) (accuracy : K) : Option (List (Point K)) :=
  if n == 1 then
    (self.try_approx_quadratic accuracy).map fun q => [q.p0, q.p1, q.p2]
  else
    match self.split_into_n n with
    | [] => none
    | first :: rest =>
      let q1_0 := first.approx_quad_control (0 : K)
      let init : SplineSt K := { next_cubic := first, next_q1 := q1_0, q2 := self.p0, d1 := Vec2.ZERO, spline := [self.p0, q1_0], rest := rest }
      let step (acc : Option (SplineSt K)) (i : Nat) : Option (SplineSt K) :=
        match acc with
        | none => none
        | some st =>
          let current_cubic := st.next_cubic
          let q0 := st.q2
          let q1 := st.next_q1
          let st' : Option (SplineSt K × Point K) :=
            if i < n then
              match st.rest with
              | [] => none
              | nc :: rest' =>
                let nq1 := nc.approx_quad_control (natK i / natK (n - 1))
                some ({ st with next_cubic := nc, next_q1 := nq1, spline := st.spline ++ [nq1], rest := rest' }, q1.midpoint nq1)
            else some (st, current_cubic.p3)
          match st' with
          | none => none
          | some (st2, q2) =>
            let d0 := st.d1
            let d1 := q2.to_vec2 - current_cubic.p3.to_vec2
            if accuracy <. d1.hypot
                || !(CubicBez.new d0.to_point (q0.lerp q1 ((2 : K) / (3 : K)) - current_cubic.p1.to_vec2)
                      (q2.lerp q1 ((2 : K) / (3 : K)) - current_cubic.p2.to_vec2) d1.to_point).fit_inside accuracy fitFuel then none
            else some { st2 with q2 := q2, d1 := d1 }
      match ((List.range n).map (· + 1)).foldl step (some init) with
      | none => none
      | some st => some (st.spline ++ [self.p3])

def maxSplineSplit : Nat := 100

/-- `CubicBez::approx_spline` -/
def CubicBez.approx_spline (self : CubicBez K) (accuracy : K) : Option (List (Point K)) :=
  ((List.range maxSplineSplit).map (· + 1)).findSome? fun n => self.approx_spline_n n accuracy

/-- `cubics_to_quadratic_splines` (note: the crate's loop runs `split_order` from 1 to 101) -/
def cubicsToQuadraticSplines (curves : List (CubicBez K)) (accuracy : K) : Option (List (List (Point K))) :=
  ((List.range (maxSplineSplit + 1)).map (· + 1)).findSome? fun order =>
    let rec go : List (CubicBez K) → Option (List (List (Point K)))
      | [] => some []
      | c :: cs =>
        match c.approx_spline_n order accuracy with
        | none => none
        | some sp => (go cs).map (sp :: ·)
    go curves

/-- `QuadSpline::to_quads().collect()` -/
def quadSplineToQuads (pts : List (Point K)) : List (QuadBez K) :=
  let n := pts.length
  (List.range (n - 2)).filterMap fun idx =>
    match pts[idx]?, pts[idx + 1]?, pts[idx + 2]? with
    | some p0, some p1, some p2 =>
      let p0' := if idx != 0 then p0.midpoint p1 else p0
      let p2' := if idx + 2 < n - 1 then p1.midpoint p2 else p2
      some ⟨p0', p1, p2'⟩
    | _, _, _ => none

/-! ### nearest -/

/-- `eval_t` of `QuadBez::nearest`: keep the best (smallest squared distance) candidate -/
def nearestEvalT (p : Point K) (best : K × Option K) (t : K) (p0 : Point K) : K × Option K :=
  let r := (p0 - p).hypot2
  match best.2 with
  | some rb => if r <. rb then (t, some r) else best
  | none => (t, some r)

/-- `impl ParamCurveNearest for QuadBez` -/
def QuadBez.nearest (self : QuadBez K) (p : Point K) (_accuracy : K) : Nearest K :=
  let d0 := self.p1 - self.p0
  let d1 := self.p0.to_vec2 + self.p2.to_vec2 - (2 : K) * self.p1.to_vec2
  let d := self.p0 - p
  let c0 := d.dot d0
  let c1 := (2 : K) * d0.hypot2 + d.dot d1
  let c2 := (3 : K) * d1.dot d0
  let c3 := d1.hypot2
  let roots := solveCubic c0 c1 c2 c3
  -- (t_best, r_best), need_ends
  let init : (K × Option K) × Bool := (((0 : K), none), roots.isEmpty)
  let (best, need_ends) := roots.foldl (fun (acc : (K × Option K) × Bool) t =>
      if !((0 : K) <=. t && t <=. (1 : K)) then (acc.1, true)
      else (nearestEvalT p acc.1 t (self.eval t), acc.2)) init
  let best := if need_ends then nearestEvalT p (nearestEvalT p best (0 : K) self.p0) (1 : K) self.p2 else best
  { t := best.1, distance_sq := best.2.getD (0 : K) }

/-- `impl ParamCurveNearest for CubicBez` -/
def CubicBez.nearest (self : CubicBez K) (p : Point K) (accuracy : K) : Nearest K :=
  let best := (self.to_quads accuracy).foldl (fun (acc : K × Option K) (piece : K × K × QuadBez K) =>
      let (t0, t1, q) := piece
      let n := q.nearest p accuracy
      let better := match acc.2 with
        | some br => n.distance_sq <. br
        | none => true
      if better then (t0 + n.t * (t1 - t0), some n.distance_sq) else acc) ((0 : K), none)
  { t := best.1, distance_sq := best.2.getD (0 : K) }

def PathSeg.nearest (s : PathSeg K) (p : Point K) (accuracy : K) : Nearest K :=
  match s with
  | .Line l => l.nearest p accuracy
  | .Quad q => q.nearest p accuracy
  | .Cubic c => c.nearest p accuracy

end Kurbo
