import Kurbo.OpsDash
import Kurbo.Stroke
/-! protocol op for the polyline stroker (C04) -/
namespace Kurbo.Driver
open Kurbo Kurbo.Ops
variable {K : Type} [Scalar K] [Codec K]

def opsStroke (op : String) : Option (Rd String) :=
  match op with
  | "path.stroke" => some do
      -- width join(0 bevel,1 miter,2 round) cap(0 butt,1 square,2 round) miter_limit dash_offset ndash dashes… tolerance path
      let w : K ← num; let join ← nat; let cap ← nat; let ml : K ← num; let off : K ← num
      let n ← nat; let pat : List K ← rdNums n; let tol : K ← num; let p : List (PathEl K) ← els
      let style : StrokeStyle K := { width := w, join := join, miter_limit := ml, start_cap := cap, end_cap := cap }
      let src : Option (List (PathEl K)) :=
        if n == 0 then some p else
        match dash p off pat.toArray with
        | .ok out => some out
        | _ => none
      match src with
      | none => return "PANIC"
      | some src =>
        match strokeUndashed src style tol with
        | .ok out => return "ok " ++ eEls out
        | .panic => return "PANIC"
        | .notModelled => return "NOT-MODELLED"
  | _ => none

end Kurbo.Driver
