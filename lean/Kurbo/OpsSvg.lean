import Kurbo.Driver
import Kurbo.Svg
/-! protocol ops for the SVG parser (C16, C14) -/
namespace Kurbo.Driver
open Kurbo Kurbo.Ops
variable {K : Type} [Scalar K] [Codec K]

def unhexBytes (s : String) : ByteArray :=
  let cs := s.toList
  let rec go : List Char → ByteArray → ByteArray
    | a :: b :: r, acc =>
      let d (c : Char) : Nat := if c.isDigit then c.toNat - 48 else if c.toNat ≥ 97 then c.toNat - 87 else c.toNat - 55
      go r (acc.push (UInt8.ofNat (d a * 16 + d b)))
    | _, acc => acc
  go cs ByteArray.empty

def eSvgRes : SvgRes K → String
  | .ok p => "ok " ++ eEls p
  | .err .wrong => "err Wrong"
  | .err .unexpectedEof => "err UnexpectedEof"
  | .err (.unknownCommand c) => s!"err UnknownCommand({c})"
  | .err .uninitializedPath => "err UninitializedPath"
  | .panic => "PANIC"

def opsSvg (op : String) : Option (Rd String) :=
  match op with
  | "svg.parse" => some do
      -- argument: `x` followed by the hex of the UTF-8 bytes (`x` alone = empty string)
      let t ← tok
      let bytes := unhexBytes (t.drop 1).toString
      return eSvgRes (fromSvgBytes (K := K) bytes)
  | "svg.arc" => some do
      let fr : Point K ← pt; let to : Point K ← pt; let radii : Vec2 K ← vec; let rot : K ← num; let la ← nat; let sw ← nat
      match Arc.from_svg_arc { «from» := fr, to := to, radii := radii, x_rotation := rot, large_arc := la == 1, sweep := sw == 1 } with
      | none => return "none"
      | some a => return s!"{ePt a.center} {eVec a.radii} {e a.start_angle} {e a.sweep_angle} {e a.x_rotation}"
  | _ => none

end Kurbo.Driver
