import Kurbo.Driver
import Kurbo.Simplify
/-! protocol op for the control skeleton of simplify_bezpath (C18 structure clause) -/
namespace Kurbo.Driver
open Kurbo Kurbo.Ops
variable {K : Type} [Scalar K] [Codec K]

def opsSimplify (op : String) : Option (Rd String) :=
  match op with
  | "path.simplify_skel" => some do
      -- the skeleton: every fitted stretch is printed as ONE `C a b b` from its start a to its end b
      let p : List (PathEl K) ← els
      match simplifyBezpath fitSkeleton p with
      | .ok out => return "ok " ++ eEls out
      | .panic => return "PANIC"
  | "seg.tangents" => some do
      let s : PathSeg K ← seg
      let (a, b) := s.tangents
      return s!"{eVec a} {eVec b}"
  | _ => none

end Kurbo.Driver
