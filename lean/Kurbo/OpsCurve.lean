import Kurbo.Driver
import Kurbo.Curve
/-! protocol ops for curve queries (C01, C08, C09) -/
namespace Kurbo.Driver
open Kurbo Kurbo.Ops
variable {K : Type} [Scalar K] [Codec K]

def opsCurve (op : String) : Option (Rd String) :=
  match op with
  | "seg.extrema" => some do let s : PathSeg K ← seg; return eList s.extrema
  | "seg.bbox" => some do let s : PathSeg K ← seg; return eRect s.bounding_box
  | "path.bbox" => some do
      let p : List (PathEl K) ← els
      match pathBoundingBox p with
      | none => return "PANIC"
      | some r => return eRect r
  | "path.cbox" => some do let p : List (PathEl K) ← els; return eRect (controlBox p)
  | "seg.winding" => some do let s : PathSeg K ← seg; let p : Point K ← pt; return s!"{s.winding p}"
  | "path.winding" => some do
      let q : Point K ← pt; let p : List (PathEl K) ← els
      match pathWinding p q with
      | none => return "PANIC"
      | some w => return s!"{w} {eBool (w != 0)}"
  | _ => none

end Kurbo.Driver
