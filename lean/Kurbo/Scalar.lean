/-! The scalar interface of the model.  Every model definition is generic in `K` with `[Scalar K]`;
    it is *executed* with `K = Rat` (exact) and `K = Float` (IEEE binary64) by the driver, and the
    theorems are about an arbitrary *lawful* `K` (see `Proofs/Lawful.lean`).  No Mathlib here. -/
namespace Kurbo

class Scalar (K : Type) where
  add : K → K → K
  sub : K → K → K
  mul : K → K → K
  div : K → K → K
  neg : K → K
  abs : K → K
  lt : K → K → Bool
  le : K → K → Bool
  beq : K → K → Bool
  ofRat : Rat → K
  floor : K → K
  ceil : K → K
  round : K → K      -- Rust `f64::round`: half away from zero
  trunc : K → K
  sqrt : K → K
  cbrt : K → K
  sin : K → K
  cos : K → K
  tan : K → K
  acos : K → K
  atan2 : K → K → K  -- `y.atan2(x)`
  powf : K → K → K
  ln : K → K
  log2 : K → K
  /-- `a.mul_add(b, c)`: fused multiply-add (one rounding) -/
  fma : K → K → K → K
  hypot : K → K → K
  copysign : K → K → K
  /-- `x.is_finite()` where `x` came out of `+ - *` only -/
  fin : K → Bool
  /-- `r.is_finite()` where `r` is the result of a division by `den` (or of `* den.recip()`) -/
  finQuot : (den r : K) → Bool
  /-- `x.is_nan()` -/
  isNan : K → Bool
  /-- `x as usize` (saturating, NaN ↦ 0) -/
  toUSize : K → Nat
  /-- `x.signum()` of Rust: `1.0` for `+0.0`, `-1.0` for `-0.0`, NaN for NaN -/
  signum : K → K
  /-- `f64::min` / `f64::max` (NaN-ignoring) -/
  min : K → K → K
  max : K → K → K
  /-- Rust `%` on f64 (C `fmod`) -/
  fmod : K → K → K
  /-- `core::f64::consts::PI` -/
  pi : K

/-- decimal literal as an exact rational (kept as a named function so that simp lemmas about the scoped
`OfScientific` instance cannot loop through `Rat`'s own instance) -/
def sciRat (m : Nat) (s : Bool) (e : Nat) : Rat := OfScientific.ofScientific m s e

namespace Ops
scoped instance instAdd {K} [Scalar K] : Add K := ⟨Scalar.add⟩
scoped instance instSub {K} [Scalar K] : Sub K := ⟨Scalar.sub⟩
scoped instance instMul {K} [Scalar K] : Mul K := ⟨Scalar.mul⟩
scoped instance instDiv {K} [Scalar K] : Div K := ⟨Scalar.div⟩
scoped instance instNeg {K} [Scalar K] : Neg K := ⟨Scalar.neg⟩
scoped instance instOfSci {K} [Scalar K] : OfScientific K := ⟨fun m s e => Scalar.ofRat (sciRat m s e)⟩
scoped instance instOfNat {K} [Scalar K] {n : Nat} : OfNat K n := ⟨Scalar.ofRat n⟩
scoped infix:50 " <. " => Scalar.lt
scoped infix:50 " <=. " => Scalar.le
scoped infix:50 " ==. " => Scalar.beq
end Ops

open Ops

section helpers
variable {K : Type} [Scalar K]
/-- `f64::min` -/
@[inline] def smin (a b : K) : K := Scalar.min a b
/-- `f64::max` -/
@[inline] def smax (a b : K) : K := Scalar.max a b
@[inline] def sabs (a : K) : K := Scalar.abs a
@[inline] def srecip (x : K) : K := (1 : K) / x
/-- `x.powi(n)` for small literal `n ≥ 0` (repeated multiplication, as LLVM expands it for n ≤ 3) -/
def spowi (x : K) : Nat → K
  | 0 => (1 : K)
  | 1 => x
  | (n+1) => spowi x n * x
/-- `a.mul_add(b, c)` -/
@[inline] def smulAdd (a b c : K) : K := Scalar.fma a b c
@[inline] def sgt (a b : K) : Bool := b <. a
@[inline] def sge (a b : K) : Bool := b <=. a
@[inline] def sne (a b : K) : Bool := !(a ==. b)
end helpers

/-! ### exact rational helpers for the `Rat` instance -/

def ratFloor (x : Rat) : Rat := (x.floor : Int)
def ratCeil (x : Rat) : Rat := (x.ceil : Int)
def ratTrunc (x : Rat) : Rat := if x < 0 then ratCeil x else ratFloor x
def ratRound (x : Rat) : Rat := if x < 0 then ratCeil (x - 1/2) else ratFloor (x + 1/2)
def ratAbs (x : Rat) : Rat := if x < 0 then -x else x

/-- √x to 2⁻¹⁰⁰ relative (exact on perfect squares of rationals) -/
def ratSqrt (x : Rat) : Rat :=
  if x ≤ 0 then 0 else
  let n := x.num.natAbs
  let d := x.den
  let sn := n.sqrt
  let sd := d.sqrt
  if sn * sn == n && sd * sd == d then (sn : Rat) / (sd : Rat) else
  -- sqrt(n/d) = sqrt(n*d)/d ; scale so that the integer sqrt has ≥ 100 significant bits
  let nd := n * d
  let k := 110 + d.log2
  let s := (nd * 2 ^ (2 * k)).sqrt
  (s : Rat) / ((d * 2 ^ k : Nat) : Rat)

def ratFmod (a b : Rat) : Rat := if b == 0 then 0 else a - b * ratTrunc (a / b)

instance : Scalar Rat where
  add := (· + ·); sub := (· - ·); mul := (· * ·); div := (· / ·); neg := (- ·)
  abs := ratAbs
  lt a b := decide (a < b); le a b := decide (a ≤ b); beq a b := decide (a = b)
  ofRat r := r
  floor := ratFloor; ceil := ratCeil; round := ratRound; trunc := ratTrunc
  sqrt := ratSqrt
  cbrt x := x     -- not modelled exactly; ops that need it run under Float
  sin x := x
  cos _ := 1
  tan x := x
  acos _ := 0
  atan2 _ _ := 0
  powf x _ := x
  ln _ := 0
  log2 _ := 0
  fma a b c := a * b + c
  hypot x y := ratSqrt (x * x + y * y)
  copysign a b := if b < 0 then -(ratAbs a) else ratAbs a
  fin _ := true
  finQuot den _ := decide (den ≠ 0)
  isNan _ := false
  toUSize x := if x ≤ 0 then 0 else (ratFloor x).num.toNat
  signum x := if x < 0 then -1 else 1
  min a b := if b < a then b else a
  max a b := if a < b then b else a
  fmod := ratFmod
  pi := 3141592653589793238462643383279502884197 / 1000000000000000000000000000000000000000

end Kurbo
