import Proofs.Lawful
import Proofs.KDefs
import Proofs.GenEquiv
import Proofs.C06
