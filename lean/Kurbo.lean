import Kurbo.Scalar
import Kurbo.F64
import Kurbo.Types
import Kurbo.Kernel
