"""C05 – flattening yields a faithful polyline of the path."""
from .common import *
from . import oracle as O
from fractions import Fraction as Fr
import itertools

RULE = ('every interleaving of M/L/Q/C/Z of length <= 4 after an initial MoveTo (structure stratum, 3-point alphabet) and random paths of 1-8 elements '
        '(grid k/4, generic doubles; quadratics with the curvature maximum inside, near-collinear, cusps) x tolerances 1e-5..1. On the implementation: only '
        'M/L/Z; one run per input element (measured by flattening every prefix); M/L/Z passed through bit-exactly; every curve run ends with LineTo of the '
        'stored end point bit-exactly; interior vertices on the source (quadratics: exact distance <= 1e-11 extent; cubics: <= 0.1*tol) and advancing '
        'monotonically (nearest parameter, simple segments); chord-to-curve distance <= 4*tol by Bernstein certificate in the claimed domain; scaling '
        'path and tolerance by 4 scales the output bit-exactly. Implementation compared with the Float instantiation of the Lean model (structure exact, '
        'vertices to 1e-9 extent). non-trivial = distinct (path, tolerance) with at least one curve')
KERNEL_DEPS = [r'(QuadBez|CubicBez)\.(eval|subsegment)', r'Vec2\.(dot|cross|hypot)',
               r'K2:approxParabola.*', r'K2:QuadBez\.determine_subdiv_t']
UNPROVED = ['the 4*tol distance bound (kurbo: "not absolutely guaranteed"): decided per instance by exact certificates only',
            'monotone advance for cubics with loops (nearest parameter is ambiguous there: not checked)']
ASSUMPTIONS = ['structural theorems hold for every scalar type (Float included)']
MAKERS = {}
HEAVY_JUDGE = True
PTS3 = [(0.0, 0.0), (4.0, 1.0), (1.5, 5.0)]


def els_str(els):
    return ' '.join(el[0] + (' ' + ' '.join(H(*p) for p in el[1:]) if len(el) > 1 else '') for el in els)


def parse_els(s):
    toks = s.split()
    out = []
    i = 0
    n = {'M': 2, 'L': 2, 'Q': 4, 'C': 6, 'Z': 0}
    while i < len(toks):
        k = toks[i]
        if k not in n:
            return None
        out.append((k,) + tuple(toks[i + 1:i + 1 + n[k]]))
        i += 1 + n[k]
    return out


def simple_cubic(pts):
    (x0, y0), (x1, y1), (x2, y2), (x3, y3) = pts
    a = (x1 - x0) * (y2 - y1) - (y1 - y0) * (x2 - x1)
    b = (x2 - x1) * (y3 - y2) - (y2 - y1) * (x3 - x2)
    d0 = (x1 - x0, y1 - y0)
    d2 = (x3 - x2, y3 - y2)
    if a * b <= 0:
        return False
    dot = d0[0] * d2[0] + d0[1] * d2[1]
    return dot > 0 and min(math.hypot(*d0), math.hypot(*d2), math.hypot(x2 - x1, y2 - y1)) > 0.2 * max(math.hypot(*d0), math.hypot(*d2), math.hypot(x2 - x1, y2 - y1))


@maker(MAKERS)
def flatten_case(els, tol, stratum):
    els = [tuple(tuple(x) if isinstance(x, list) else x for x in el) for el in els]
    line_meta = f'path.flatten_meta {H(tol)} {els_str(els)}'
    line = f'path.flatten {H(tol)} {els_str(els)}'
    coords = [c for el in els for p in el[1:] for c in p]
    ext = max(1e-9, max(coords) - min(coords)) if coords else 1.0

    def judge(o):
        im, i, f = o['I'][0], o['I'][1], o['F'][1]
        if engine_error(im, i):
            return f'engine error {im[:80]} / {i[:80]}'
        cum_s, flat_s, flat4_s = (im.split(' | ') + ['', ''])[:3]
        cum = [int(x) for x in cum_s.split()]
        out = parse_els(flat_s)
        if out is None or any(e[0] not in 'MLZ' for e in out):
            return f'flatten emitted something other than MoveTo/LineTo/ClosePath: {flat_s[:100]}'
        if flat_s != i:
            return 'flatten is not deterministic'
        # runs
        last = None      # current point (hex pair) or None
        start = None
        prev = 0
        for k, el in enumerate(els):
            run = out[prev:cum[k]]
            prev = cum[k]
            kind = el[0]
            if kind in 'ML':
                want = (kind, f2h(el[1][0]), f2h(el[1][1]))
                if run != [want]:
                    return f'element {k} ({kind}) not passed through unchanged: {run}'
                last = el[1]
                if kind == 'M':
                    start = el[1]
            elif kind == 'Z':
                if run != [('Z',)]:
                    return f'ClosePath not passed through: {run}'
                last = start
            else:
                endp = el[-1]
                if last is None:
                    if run:
                        return f'curve without a current point emitted {run}'
                    last = endp
                    continue
                if not run or any(e[0] != 'L' for e in run):
                    return f'run of element {k} ({kind}) is not a non-empty sequence of LineTo: {run}'
                if run[-1] != ('L', f2h(endp[0]), f2h(endp[1])):
                    return f'run of element {k} does not end exactly at the stored end point: {run[-1]}'
                pts = [last] + list(el[1:])
                verts = [(h2f(e[1]), h2f(e[2])) for e in run]
                if any(math.isnan(c) or math.isinf(c) for vv in verts for c in vv):
                    return f'element {k} ({kind}): non-finite vertex in the run {verts}'
                v = check_run(pts, verts, tol, ext)
                if v:
                    return f'element {k} ({kind}): ' + v
                last = endp
        if prev != len(out):
            return 'output longer than the runs'
        # scaling law (x4 is exact in binary floating point)
        if flat4_s != flat_s:
            return f'scaling path and tolerance by 4 does not scale the output: {flat4_s[:120]} vs {flat_s[:120]}'
        # transcription
        if engine_error(f):
            return 'engine error (model) ' + f
        fo = parse_els(f)

        def dedup(seq):
            """drop a LineTo that is a near-duplicate (1e-7 extent) of the next LineTo: the piece-count decisions sit on float
            boundaries (libm hypot vs correctly rounded hypot differ by an ulp), the property allows this ('vertex count may differ
            by a near-duplicate of a segment end point')"""
            res = []
            for k, e in enumerate(seq):
                if e[0] == 'L' and k + 1 < len(seq) and seq[k + 1][0] == 'L':
                    a = (h2f(e[1]), h2f(e[2]))
                    b = (h2f(seq[k + 1][1]), h2f(seq[k + 1][2]))
                    if math.hypot(a[0] - b[0], a[1] - b[1]) <= 1e-7 * ext:
                        continue
                res.append(e)
            return res
        a, b = dedup(out), dedup(fo)
        if [e[0] for e in a] != [e[0] for e in b]:
            return f'CORR structure impl={len(out)} elements model={len(fo)} elements'
        sa = ' '.join(' '.join(e) for e in a)
        sb = ' '.join(' '.join(e) for e in b)
        if not cmp_rel(sa, sb, 1e-7, ext):
            return f'CORR impl != model@Float (vertices) impl={i[:200]} model={f[:200]}'
        return None
    return Case([line_meta, line], 'IF', judge, stratum, 'oracle')


def near_params(v, pts, lim):
    """every parameter in [0,1] at which the squared distance from v to the curve has a critical point (or an end point) with value <= lim"""
    px, py = O.seg_polys(pts)
    fx, fy = O.padd(px, [-Fr(v[0])]), O.padd(py, [-Fr(v[1])])
    d2 = O.padd(O.pmul(fx, fx), O.pmul(fy, fy))
    cands = [Fr(0), Fr(1)]
    dd = O.pderiv(d2)
    if dd:
        for lo, hi in O.isolate_roots(dd, Fr(0), Fr(1), Fr(1, 2 ** 40)):
            cands.append((lo + hi) / 2)
    out = sorted(t for t in cands if O.peval(d2, t) <= lim * Fr(101, 100))
    return out


def check_run(pts, verts, tol, ext):
    """pts: control points of the source segment (3 or 4), verts: emitted vertices (the last one is the end point)"""
    n = len(pts)
    lim = Fr(1e-11 * ext) ** 2 if n == 3 else (Fr(0.1 * tol) * Fr(1001, 1000) + Fr(1e-11 * ext)) ** 2
    ts = []
    cand_sets = []
    for v in verts[:-1]:
        d2, t = O.min_dist2_point_curve(v, pts, Fr(1, 2 ** 40))
        if d2 > lim:
            return f'vertex {v} is {math.sqrt(float(d2))!r} from the source segment (limit {math.sqrt(float(lim))!r})'
        ts.append(t)
        cand_sets.append(near_params(v, pts, lim))
    degenerate = all(abs((p[0] - pts[0][0]) * (pts[-1][1] - pts[0][1]) - (p[1] - pts[0][1]) * (pts[-1][0] - pts[0][0])) <= 1e-9 * ext * ext for p in pts)
    simple = (n == 3 and not degenerate) or (n == 4 and simple_cubic(pts))
    if simple:
        slack = Fr(1, 10 ** 7) if n == 3 else Fr(1, 50)
        # where two stretches of the curve run within the limit of each other (a hairpin), the NEAREST parameter of a vertex may sit on the other
        # stretch: the vertices are in order iff SOME choice of admissible parameters (every critical point of the distance within the limit) increases
        prev = None
        for k, cs in enumerate(cand_sets):
            ok = [t for t in cs if prev is None or t >= prev - slack]
            if not ok:
                return f'vertices go backwards along the segment: parameters {float(prev)} then {[float(t) for t in cs]}'
            prev = min(ok)
        # distance bound in the claimed domain
        seg_ext = max(max(p[0] for p in pts) - min(p[0] for p in pts), max(p[1] for p in pts) - min(p[1] for p in pts))
        px, py = O.seg_polys(pts)
        dx, dy = O.pderiv(px), O.pderiv(py)
        sp = [math.hypot(float(O.peval(dx, Fr(k, 16))), float(O.peval(dy, Fr(k, 16)))) for k in range(17)]
        if tol <= 1e-3 * seg_ext and min(sp) >= 0.05 * max(sp) and min(sp) > 0:
            allv = [pts[0]] + verts
            allt = [Fr(0)] + ts + [Fr(1)]
            for (a, b, ta, tb) in zip(allv, allv[1:], allt, allt[1:]):
                if tb <= ta:
                    continue
                ddx, ddy = Fr(b[0]) - Fr(a[0]), Fr(b[1]) - Fr(a[1])
                l2 = ddx * ddx + ddy * ddy
                if l2 == 0:
                    continue
                # cross((c(t) - a), d)^2 - (4 tol)^2 |d|^2 <= 0 on [ta, tb]
                cx = O.padd(px, [-Fr(a[0])])
                cy = O.padd(py, [-Fr(a[1])])
                cr = O.padd(O.pscale(cx, ddy), O.pscale(cy, -ddx))
                g = O.padd(O.pmul(cr, cr), [-(Fr(4 * tol) * Fr(1001, 1000)) ** 2 * l2])
                # reparametrise to [0,1]
                from .c17 import compose
                res, wit = O.certify_nonpos(compose(g, ta, tb - ta))
                if res == 'no':
                    return f'polyline farther than 4*tol={4 * tol} from the curve between parameters {float(ta)} and {float(tb)}'
    return None


def rnd_pt(rng, how):
    if how == 'grid':
        return (rng.randint(-40, 40) / 4.0, rng.randint(-40, 40) / 4.0)
    return (rng.uniform(-10, 10), rng.uniform(-10, 10))


SYMS = ['M', 'L', 'Q', 'C', 'Z']


def generate(rng, tier):
    # structure: every interleaving up to length 4 after the initial MoveTo
    maxlen = 3 if tier == 'quick' else 4
    for n in range(0, maxlen + 1):
        for kinds in itertools.product(SYMS, repeat=n):
            els = [('M', PTS3[0])]
            k = 1
            for kd in kinds:
                ar = {'M': 1, 'L': 1, 'Q': 2, 'C': 3, 'Z': 0}[kd]
                els.append((kd,) + tuple(PTS3[(k + j) % 3] for j in range(ar)))
                k += ar
            yield flatten_case(els, 0.25, 'structure')
    for kinds in itertools.product(SYMS, repeat=2):    # no initial MoveTo
        els = []
        k = 0
        for kd in kinds:
            ar = {'M': 1, 'L': 1, 'Q': 2, 'C': 3, 'Z': 0}[kd]
            els.append((kd,) + tuple(PTS3[(k + j) % 3] for j in range(ar)))
            k += ar
        yield flatten_case(els, 0.25, 'no-initial-move')
    m = 60 if tier == 'quick' else 4000
    for _ in range(m):
        how = rng.choice(['grid', 'generic'])
        els = [('M', rnd_pt(rng, how))]
        for _ in range(rng.randint(1, 7)):
            kd = rng.choice('LQQCCCZM')
            ar = {'M': 1, 'L': 1, 'Q': 2, 'C': 3, 'Z': 0}[kd]
            els.append((kd,) + tuple(rnd_pt(rng, how) for _ in range(ar)))
        tol = 10.0 ** rng.uniform(-5, 0)
        yield flatten_case(els, tol, f'random-{how}')
        # special quadratics: near-collinear, cusp (doubled back), curvature maximum inside
        a, b = rnd_pt(rng, how), rnd_pt(rng, how)
        r = rng.random()
        if r < 0.3:
            mid = ((a[0] + b[0]) / 2 + rng.uniform(-1e-6, 1e-6), (a[1] + b[1]) / 2)
            st = 'near-collinear'
        elif r < 0.5:
            mid = (a[0] + 3 * (b[0] - a[0]), a[1] + 3 * (b[1] - a[1]))
            st = 'collinear-overshoot'
        else:
            mid = rnd_pt(rng, how)
            st = 'generic-quad'
        yield flatten_case([('M', a), ('Q', mid, b)], 10.0 ** rng.uniform(-5, 0), st)
        # small tolerance against the segment (claimed domain of the distance bound)
        p = [rnd_pt(rng, 'generic') for _ in range(4)]
        yield flatten_case([('M', p[0]), ('C', p[1], p[2], p[3])], 10.0 ** rng.uniform(-5, -3), 'small-tol-cubic')
