"""C03 – arc length is accurate to the requested accuracy and invertible."""
from .common import *
from . import oracle as O
from fractions import Fraction as Fr

RULE = ('lines, quadratics, cubics (cusps, loops, near-straight with |d2|^2 next to the 5e-4 switch, sharp kinks, zero length, doubled back) x accuracies '
        '1e-9..1. Oracle: composite 8-point Gauss-Legendre on 2^k panels refined until two successive levels agree to 1e-13 L (not converged = "oracle too '
        'wide", counted, not judged) cross-checked by the rigorous enclosure sum|chords| <= L <= sum|control polygons| after 2^10 de Casteljau pieces. '
        'Required: |arclen(a) - L| <= a (+1e-12 L); |arclen(s) - arclen(s[0,t]) - arclen(s[t,1])| <= 3a; perimeter = sum; inv_arclen in [0,1], the length up '
        'to the returned parameter within 8 a * (peak/mean speed) of the request, non-decreasing for requests that far apart. Implementation compared with '
        'the Float instantiation of the Lean model (1e-9 relative). The 15 Gauss-Legendre tables are re-extracted from common.rs on every run and proved '
        'equal to the pinned tables, whose exactness (degree 2n-1, to 1e-13) is a theorem. non-trivial = distinct (segment, accuracy)')
KERNEL_DEPS = [r'GL:.*', r'Line\.(arclen|inv_arclen|eval|subsegment)', r'(QuadBez|CubicBez)\.(subsegment|subdivide|eval)', r'Vec2\.(hypot|hypot2|dot)',
               r'K2:QuadBez\.arclen']
UNPROVED = ['the accuracy claim for cubics: the subdivision decision uses an error ESTIMATE with fitted constants (2.5e-6, 1.5e-11, 3.5e-16): no theorem exists to transcribe',
            'accuracy/monotonicity of inv_arclen (decided by the oracle)']
ASSUMPTIONS = ['GL tables: exactness proved for the rational values of the printed decimals']
MAKERS = {}
HEAVY_JUDGE = True
NPTS = {'L': 2, 'Q': 3, 'C': 4}
GL8 = [(0.3626837833783620, -0.1834346424956498), (0.3626837833783620, 0.1834346424956498), (0.3137066458778873, -0.5255324099163290), (0.3137066458778873, 0.5255324099163290),
       (0.2223810344533745, -0.7966664774136267), (0.2223810344533745, 0.7966664774136267), (0.1012285362903763, -0.9602898564975363), (0.1012285362903763, 0.9602898564975363)]


def pts_of(vals):
    return [(vals[i], vals[i + 1]) for i in range(0, len(vals), 2)]


def speed_fn(pts):
    px, py = O.seg_polys(pts)
    dx = [float(c) for c in O.pderiv(px)]
    dy = [float(c) for c in O.pderiv(py)]

    def ev(p, t):
        r = 0.0
        for a in reversed(p):
            r = r * t + a
        return r
    return lambda t: math.hypot(ev(dx, t), ev(dy, t))


def speed_breaks(pts, t0, t1):
    """parameters in (t0, t1) where the speed has a critical point (exact roots of d/dt |c'|^2 = 2 (x'x'' + y'y''), isolated by Sturm sequences): at a
    (near-)cusp the integrand |c'| has a (near-)kink there, and a composite rule that does not break at it converges so slowly that two
    successive refinements can agree by accident (this happened: a collinear cubic with a cusp at t = 0.0012 was measured 3.9e-5 short)"""
    px, py = O.seg_polys(pts)
    dx, dy = O.pderiv(px), O.pderiv(py)
    if not dx and not dy:
        return []
    g = O.padd(O.pmul(dx, O.pderiv(dx)) if dx else [], O.pmul(dy, O.pderiv(dy)) if dy else [])
    g = O.ptrim(g)
    if len(g) <= 1:
        return []
    out = []
    for lo, hi in O.isolate_roots(g, Fr(t0), Fr(t1), Fr(1, 2 ** 60)):
        t = float((lo + hi) / 2)
        if t0 < t < t1:
            out.append(t)
    return sorted(set(out))


def true_length(pts, t0=0.0, t1=1.0):
    """(L, converged): composite 8-point Gauss-Legendre on panels that break at the critical points of the speed, doubled until THREE successive
    refinements agree to 1e-13"""
    sp = speed_fn(pts)
    brk = [t0] + (speed_breaks(pts, t0, t1) if t1 > t0 else []) + [t1]
    hist = []
    for k in range(2, 14):
        n = 1 << k
        tot = 0.0
        for a0, b0 in zip(brk, brk[1:]):
            h = (b0 - a0) / n
            part = 0.0
            for i in range(n):
                a = a0 + i * h
                for w, x in GL8:
                    part += w * sp(a + 0.5 * h * (x + 1.0))
            tot += part * 0.5 * h
        hist.append(tot)
        if len(hist) >= 3 and all(abs(hist[-1] - v) <= 1e-13 * max(abs(tot), 1e-300) for v in hist[-3:-1]):
            return tot, True
    return hist[-1], False


def enclosure(pts, levels=8):
    segs = [[(float(x), float(y)) for x, y in pts]]
    for _ in range(levels):
        nxt = []
        for s in segs:
            l, r = [], []
            cur = s
            while cur:
                l.append(cur[0])
                r.append(cur[-1])
                cur = [((a[0] + b[0]) / 2, (a[1] + b[1]) / 2) for a, b in zip(cur, cur[1:])]
            nxt.append(l)
            nxt.append(r[::-1])
        segs = nxt
    lo = sum(math.hypot(s[-1][0] - s[0][0], s[-1][1] - s[0][1]) for s in segs)
    hi = sum(sum(math.hypot(b[0] - a[0], b[1] - a[1]) for a, b in zip(s, s[1:])) for s in segs)
    return lo * (1 - 1e-12), hi * (1 + 1e-12)


@maker(MAKERS)
def arclen(kind, vals, acc, stratum):
    line = f'seg.arclen {kind} {H(*vals)} {H(acc)}'
    pts = pts_of(vals)

    def judge(o):
        i, f = o['I'][0], o['F'][0]
        if engine_error(i):
            return 'engine error ' + i
        got = h2f(i)
        if math.isnan(got) or math.isinf(got) or got < 0:
            return f'arclen = {got}'
        lo, hi = enclosure(pts)
        if got < lo - acc or got > hi + acc:
            return f'arclen {got!r} outside the rigorous enclosure [{lo!r}, {hi!r}] by more than the accuracy {acc}'
        L, conv = true_length(pts)
        if conv and abs(got - L) > acc + 1e-12 * L:
            return f'arclen {got!r} differs from the true length {L!r} by more than the accuracy {acc}'
        if engine_error(f):
            return 'engine error (model) ' + f
        if not cmp_rel(i, f, 1e-9, max(hi, 1e-300)):
            return f'CORR impl != model@Float impl={got!r} model={h2f(f)!r}'
        return None
    return Case(line, 'IF', judge, stratum, 'oracle')


@maker(MAKERS)
def split_inv(kind, vals, t, frac, acc, stratum):
    pts = pts_of(vals)
    L0, conv0 = true_length(pts)
    req = frac * L0
    line = f'seg.arclen_split {kind} {H(*vals)} {H(t, req, acc)}'

    def judge(o):
        i = o['I'][0]
        if engine_error(i):
            return 'engine error ' + i
        tot, a, b, ti, upto = floats_of(i)
        if any(math.isnan(x) for x in (tot, a, b, ti, upto)):
            return f'NaN in {i}'
        if abs(tot - (a + b)) > 3 * acc + 1e-12 * tot:
            return f'length is not additive under splitting at t={t}: {tot!r} vs {a!r} + {b!r} (accuracy {acc})'
        if not (0.0 <= ti <= 1.0):
            return f'inv_arclen returned {ti} outside [0,1]'
        if not conv0 or L0 <= 0:
            return None
        sp = speed_fn(pts)
        ss = [sp(k / 64.0) for k in range(65)]
        ratio = max(ss) / max(L0, 1e-300)
        Lt, conv = true_length(pts, 0.0, ti)
        if conv and req <= L0 and abs(Lt - req) > 8 * acc * max(1.0, ratio) + 1e-12 * L0:
            return f'inv_arclen({req!r}) = {ti!r}: the length up to it is {Lt!r} (accuracy {acc}, peak/mean speed {ratio:.3g})'
        return None
    return Case(line, 'I', judge, stratum, 'oracle')


@maker(MAKERS)
def inv_monotone(kind, vals, f1, f2, acc):
    pts = pts_of(vals)
    L0, conv0 = true_length(pts)
    lines = [f'seg.inv_arclen {kind} {H(*vals)} {H(f1 * L0, acc)}', f'seg.inv_arclen {kind} {H(*vals)} {H(f2 * L0, acc)}']

    def judge(o):
        I, F = o['I'], o['F']
        if engine_error(*I):
            return f'engine error {I}'
        t1, t2 = h2f(I[0]), h2f(I[1])
        if not (0 <= t1 <= 1 and 0 <= t2 <= 1):
            return f'inv_arclen outside [0,1]: {t1} {t2}'
        if not conv0 or L0 <= 0:
            return None
        sp = speed_fn(pts)
        ss = [sp(k / 64.0) for k in range(65)]
        ratio = max(ss) / L0
        if (f2 - f1) * L0 >= 16 * acc * max(1.0, ratio) and t2 < t1:
            return f'inv_arclen is not monotone: requests {f1 * L0!r} < {f2 * L0!r} give {t1!r} > {t2!r}'
        for a, b in zip(I, F):
            if not engine_error(b) and abs(h2f(a) - h2f(b)) > 1e-6:
                return f'CORR impl != model@Float impl={h2f(a)!r} model={h2f(b)!r}'
        return None
    return Case(lines, 'IF', judge, 'inverse-monotone', 'oracle')


@maker(MAKERS)
def perimeter(els_s, acc, seg_lines):
    lines = [f'path.perimeter {H(acc)} {els_s}'] + seg_lines

    def judge(o):
        I = o['I']
        if engine_error(*I):
            return f'engine error {I}'
        tot = h2f(I[0])
        s = sum(h2f(x) for x in I[1:])
        if abs(tot - s) > 1e-12 * max(1.0, abs(s)):
            return f'perimeter {tot!r} is not the sum of the segment lengths {s!r}'
        if not cmp_rel(I[0], o['F'][0], 1e-9, max(1.0, abs(s))):
            return f'CORR impl != model@Float impl={tot!r} model={h2f(o["F"][0])!r}'
        return None
    return Case(lines, 'IF', judge, 'perimeter', 'oracle')


def rnd_seg(rng):
    kind = rng.choice('LQQCCC')
    n = NPTS[kind]
    r = rng.random()
    g = lambda: rng.uniform(-10, 10)
    if r < 0.4:
        return kind, [g() for _ in range(2 * n)], 'generic'
    if r < 0.5 and kind == 'C':
        return kind, [0.0, 0.0, 10.0, rng.uniform(2, 12), rng.uniform(-2, 2), 10.0, 10.0, 0.0], 'loop-cusp'
    if r < 0.6 and kind == 'Q':    # near-straight around the a < 5e-4 c switch
        a, b = (g(), g()), (g(), g())
        k = rng.choice([1e-3, 2e-2, 2.3e-2, 1e-1, 0.0])
        nx, ny = -(b[1] - a[1]), b[0] - a[0]
        return kind, [a[0], a[1], (a[0] + b[0]) / 2 + k * nx, (a[1] + b[1]) / 2 + k * ny, b[0], b[1]], 'near-straight-quad'
    if r < 0.7 and kind == 'Q':    # doubled back / sharp kink
        a, m = (g(), g()), (g(), g())
        e = rng.choice([0.0, 1e-9, 1e-4, 1e-2])
        return kind, [a[0], a[1], m[0], m[1], a[0] + e, a[1] - e], 'doubled-back-quad'
    if r < 0.75:
        p = (g(), g())
        return kind, list(p) * n, 'zero-length'
    if r < 0.85:                   # collinear
        a, b = (g(), g()), (g(), g())
        ts = [0.0] + sorted(rng.uniform(-0.5, 1.5) for _ in range(n - 2)) + [1.0]
        return kind, [c for t in ts for c in (a[0] + t * (b[0] - a[0]), a[1] + t * (b[1] - a[1]))], 'collinear'
    return kind, [rng.randint(-40, 40) / 4.0 for _ in range(2 * n)], 'grid'


def generate(rng, tier):
    n = 300 if tier == 'quick' else 10000
    for _ in range(n):
        kind, v, st = rnd_seg(rng)
        acc = rng.choice([1.0, 1e-3, 1e-6, 1e-9, 10.0 ** rng.uniform(-9, 0)])
        yield arclen(kind, v, acc, st)
        if st != 'zero-length':
            yield split_inv(kind, v, rng.uniform(0.05, 0.95), rng.uniform(0.0, 1.0), max(acc, 1e-8), st)
            f1 = rng.uniform(0, 0.9)
            yield inv_monotone(kind, v, f1, f1 + rng.uniform(0.01, 0.1), max(acc, 1e-8))
    for _ in range(n // 6):
        els, seglines = [], []
        last = (rng.uniform(-10, 10), rng.uniform(-10, 10))
        acc = 10.0 ** rng.uniform(-8, -1)
        els.append('M ' + H(*last))
        for _ in range(rng.randint(1, 6)):
            k = rng.choice('LQC')
            pts = [(rng.uniform(-10, 10), rng.uniform(-10, 10)) for _ in range({'L': 1, 'Q': 2, 'C': 3}[k])]
            if k != 'L' and rng.random() < 0.2:
                pts[-1] = last       # a loop: the curve ends bit-exactly where it starts (positive length, zero chord)
            els.append(k + ' ' + ' '.join(H(*p) for p in pts))
            seglines.append(f'seg.arclen {k} {H(*last)} ' + ' '.join(H(*p) for p in pts) + f' {H(acc)}')
            last = pts[-1]
        yield perimeter(' '.join(els), acc, seglines)
