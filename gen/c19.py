"""C19 – results do not depend on the floating-point backend."""
from .common import *
import importlib

RULE = ('the seeded op corpora of the other properties (solvers, arc length, nearest, extrema, bounding boxes, winding, flatten, shapes to paths, affine '
        'SVD through ellipses/arcs, to_quads, dashing, SVG arcs) on well-conditioned inputs, run through the harness built with the default `std` feature '
        'and through a second build with `--no-default-features --features libm`: real results to 1e-9 relative of the data scale (a few ulps '
        'scaled by the conditioning of each op), integers / counts / element kinds identical, flattened polylines geometrically (a near-duplicate '
        'of a segment end point may appear). The table define_float_funcs! is re-extracted on every run and proved equal to the pinned table, '
        'about which the mapping theorem is proved. non-trivial = distinct op line')
KERNEL_DEPS = [r'FF:.*']
UNPROVED = ['numerical closeness of libm and the platform libm (compared, not proved)']
ASSUMPTIONS = ['feature gating is checked by actually building both configurations']
MAKERS = {}
NEEDS_LIBM = True


def scale_of_line(line):
    v = [abs(h2f(t)) for t in line.split() if is_hex(t)]
    v = [x for x in v if not math.isinf(x) and not math.isnan(x)]
    return max([1.0] + v)


@maker(MAKERS)
def both(line, mode, stratum):
    """mode: 'num' (numbers to tolerance, everything else exact) | 'flat' (polyline: geometric)"""
    sc = scale_of_line(line)
    # arcs whose radii are scaled up to just reach the end points take the square root of a rounding-size difference: sqrt(eps) conditioning
    tolrel = 1e-6 if line.startswith('svg.arc') else 1e-9
    if mode == 'tight':
        # only + - * / and one `ceil(log2(.))` of an exact power of two: both back ends must take the same iteration path
        tolrel, mode = 1e-14, 'num'

    def judge(o):
        a, b = o['I'][0], o['L'][0]
        if a.startswith('PANIC') != b.startswith('PANIC'):
            return f'one back end panics: std={a[:60]} libm={b[:60]}'
        if engine_error(a, b):
            return None if a == b else f'engine error std={a[:60]} libm={b[:60]}'
        if line.startswith('shape.full'):
            # the winding groups are queried on/near the boundary on purpose (C11): ill-conditioned, not part of this corpus
            a, b = ' | '.join(a.split(' | ')[:2]), ' | '.join(b.split(' | ')[:2])
        ta, tb = a.split(), b.split()
        if mode == 'flat' and len(ta) != len(tb):
            # drop near-duplicate consecutive vertices on both sides
            def dd(t):
                from .shapes_common import parse_els
                els = parse_els(' '.join(t[1:]) if t and t[0] == 'ok' else ' '.join(t))
                res = []
                for e in els or []:
                    if res and e[0] == 'L' and res[-1][0] in 'LM' and math.hypot(e[1][0] - res[-1][1][0], e[1][1] - res[-1][1][1]) <= 1e-7 * sc:
                        continue
                    res.append(e)
                return res
            ea, eb = dd(ta), dd(tb)
            if [e[0] for e in ea] != [e[0] for e in eb]:
                return f'flattened polylines differ in structure: std {len(ea)} libm {len(eb)} elements'
            for x, y in zip(ea, eb):
                for p, q in zip(x[1:], y[1:]):
                    if math.hypot(p[0] - q[0], p[1] - q[1]) > 1e-7 * sc:
                        return f'flattened polylines differ: {p} vs {q}'
            return None
        if len(ta) != len(tb):
            return f'different result shapes: std={a[:120]} libm={b[:120]}'
        for x, y in zip(ta, tb):
            if is_hex(x) and is_hex(y):
                fx, fy = h2f(x), h2f(y)
                if math.isinf(fx) or math.isinf(fy):
                    if fx != fy:
                        return f'std={fx} libm={fy}'
                elif abs(fx - fy) > tolrel * max(sc, abs(fx)):
                    return f'real results differ beyond rounding: std={fx!r} libm={fy!r} (scale {sc:g}) in {line[:80]}'
            elif x != y:
                if x == 'nan' or y == 'nan':
                    return f'std={x} libm={y}'
                return f'integer / kind results differ: std={x} libm={y} in {line[:80]}'
        return None
    return Case(line, 'IL', judge, stratum, 'oracle')


# which lines of which property generators are re-used: (module, makers whose first line is well conditioned, mode)
SOURCES = [('c20', None, 'num'), ('c15', None, 'num'), ('c08', None, 'num'), ('c09', None, 'num'), ('c03', None, 'num'), ('c01', None, 'num'), ('c05', None, 'flat'),
           ('c10', None, 'num'), ('c11', None, 'num'), ('c12', None, 'num'), ('c17', None, 'num'), ('c13', None, 'num'), ('c06', None, 'num'), ('c02', None, 'num')]


def well_conditioned(modname, case):
    mk = case.meta.get('maker', '')
    st = case.stratum
    if modname == 'c15':
        return mk in ('solve_poly', 'itp') and (st.startswith('prescribed') or st.startswith('integer') or st == 'itp')
    if modname == 'c09':
        return not st.startswith('straight') and not st.startswith('point')
    if modname == 'c01':
        return mk == 'winding_case' and 'LR' not in st
    if modname == 'c03':
        return mk in ('arclen',) and st in ('generic', 'grid', 'near-straight-quad')
    if modname == 'c13':
        return mk == 'dash_poly'
    if modname == 'c16':
        return False
    return True


def generate(rng, tier):
    import random
    per = 150 if tier == 'quick' else 3000
    for modname, _, mode in SOURCES:
        mod = importlib.import_module('gen.' + modname)
        sub = random.Random(rng.randint(0, 1 << 30))
        k = 0
        for case in mod.generate(sub, 'quick'):
            if k >= per:
                break
            if 'I' not in case.need or not well_conditioned(modname, case):
                continue
            # flatten cases carry a bookkeeping line first: take the plain flatten line (compared geometrically: a near-duplicate vertex may come and go)
            line = next((l for l in case.lines if l.startswith('path.flatten ')), case.lines[0])
            if line.startswith('svg.write') or line.startswith('path.flatten_meta'):
                continue
            k += 1
            yield both(line, 'flat' if line.startswith('path.flatten ') else 'num', modname)
    # ITP with (b - a) / epsilon an exact power of two: `log2` is exact there in every correct libm, so `n_1/2 = ceil(log2(.))`, the projection radius
    # and with them every iterate agree; a `log2` that is not exact at powers of two changes the iteration path (results differ far above rounding)
    for _ in range(per):
        r0 = rng.uniform(0.05, 0.95)
        c3, c1 = rng.uniform(0.5, 20.0), rng.uniform(0.0, 0.2)
        # f(x) = c3 (x - r0)^3 + c1 (x - r0): increasing, one zero r0 in (0, 1), flat around it for small c1
        co = [-c3 * r0 ** 3 - c1 * r0, 3 * c3 * r0 * r0 + c1, -3 * c3 * r0, c3]
        j = rng.randint(0, 3)
        yield both(f'solve.itp {H(*co)} {H(0.0, 2.0 ** j, 2.0 ** -rng.randint(20, 45))} {rng.choice([0, 1, 2])} {H(rng.choice([0.2, 0.1, 0.05]))}', 'tight', 'itp-pow2')
    # SVG arcs and shapes under affine maps (SVD)
    for _ in range(per):
        g = lambda: rng.uniform(-50, 50)
        # well-conditioned arcs only: when the radii are too small for the chord they are scaled up until the centre sits exactly on the chord, and the
        # centre is then sqrt(rounding noise) - any two correct backends differ there by ~1e-6 relative (seen: 2.4e-6)
        fx, fy, tx, ty = g(), g(), g(), g()
        rot = rng.uniform(-7, 7)
        hx_, hy_ = (fx - tx) / 2, (fy - ty) / 2
        x1p, y1p = math.cos(rot) * hx_ + math.sin(rot) * hy_, -math.sin(rot) * hx_ + math.cos(rot) * hy_
        need = math.hypot(x1p, y1p)
        rx, ry = need * 10.0 ** rng.uniform(0.2, 1.5), need * 10.0 ** rng.uniform(0.2, 1.5)
        if need > 0:
            yield both(f'svg.arc {H(fx, fy)} {H(tx, ty)} {H(rx, ry)} {H(rot)} {rng.randint(0, 1)} {rng.randint(0, 1)}', 'num', 'svg-arc')
        a = [rng.uniform(-3, 3) for _ in range(6)]
        if abs(a[0] * a[3] - a[1] * a[2]) > 0.2:
            yield both(f'shape.affine {H(*a)} ellipse {H(g(), g(), abs(g()) + 1, abs(g()) + 1, rng.uniform(-3, 3))} {H(0.01)}', 'num', 'affine-svd')
