"""C09 – nearest-point queries return the true minimum distance."""
from .common import *
from . import oracle as O
from fractions import Fraction as Fr

RULE = ('lines/quadratics/cubics (loops, cusps, degenerate and collinear control polygons, straight cubics with controls at/near the thirds; extent of '
        'order 10) x points up to 3 extents away, ON the curve, at end points and at centres of curvature x accuracies 1e-8..1. Oracle (exact over Q): '
        'global minimum of |c(t)-p|^2 on [0,1] from Sturm-isolated critical points; required: t in [0,1], |sqrt(distance_sq) - true| <= a (+1e-9 '
        'rounding), |c(t) - p| <= true + 2a. Implementation also compared with the Float instantiation of the Lean model. non-trivial = distinct (segment, point, accuracy)')
KERNEL_DEPS = [r'Line\.(nearest|eval)', r'(QuadBez|CubicBez)\.(eval|subsegment)', r'Vec2\.(dot|hypot2)']
UNPROVED = ['float accuracy of the cubic solver inside QuadBez::nearest (finding C15-cubic-small-leading shows up here as wrong nearest points on straight '
            'quadratic/cubic segments)', 'QuadBez::nearest ignores `accuracy` and inherits solver rounding (errors up to ~5e-7 for points on the curve)']
ASSUMPTIONS = ['quadratic/cubic theorems assume the cubic solver returns all real roots (C15); analysis over the reals']
MAKERS = {}
HEAVY_JUDGE = True
NPTS = {'L': 2, 'Q': 3, 'C': 4}


def pts_of(vals):
    return [(vals[i], vals[i + 1]) for i in range(0, len(vals), 2)]


@maker(MAKERS)
def nearest(kind, vals, p, acc, stratum):
    line = f'seg.nearest {kind} {H(*vals)} {H(*p)} {H(acc)}'
    pts = pts_of(vals)
    sc = max(1.0, max(abs(v) for v in vals + list(p)))

    def judge(o):
        i, f = o['I'][0], o['F'][0]
        if engine_error(i):
            return 'engine error ' + i
        t, d2 = floats_of(i)
        if not (0.0 <= t <= 1.0):
            return f'parameter {t} outside [0,1]'
        if math.isnan(d2) or d2 < 0:
            return f'distance_sq = {d2}'
        true_d2, tt = O.min_dist2_point_curve(p, pts, Fr(1, 2 ** 50))
        true_d = math.sqrt(float(true_d2))
        got_d = math.sqrt(d2)
        slack = 1e-9 * sc
        if abs(got_d - true_d) > acc + slack:
            return f'reported distance {got_d!r} differs from the true minimum {true_d!r} by more than the accuracy {acc}'
        px, py = O.seg_polys(pts)
        at = math.hypot(float(O.peval(px, Fr(t))) - p[0], float(O.peval(py, Fr(t))) - p[1])
        if at > true_d + 2 * acc + slack:
            return f'curve point at the returned parameter is {at!r} from p; the minimum is {true_d!r} (accuracy {acc})'
        if engine_error(f):
            return 'engine error (model) ' + f
        if not _collinear(kind, vals) and not cmp_rel(i, f, 1e-9, sc * sc):   # collinear input: the solver is chaotic there (known finding), not compared
            # a TIE: two parameters realise the same minimum (e.g. a closed loop queried at its own start/end point, a point on the axis of symmetry):
            # crate and model may pick different ones after a harmless change of rounding; both answers were just checked against the exact minimum
            fv = floats_of(f)
            if len(fv) == 2 and abs(math.sqrt(max(fv[1], 0.0)) - got_d) <= 1e-9 * sc and 0.0 <= fv[0] <= 1.0 and abs(fv[0] - t) > 1e-6:
                atm = math.hypot(float(O.peval(px, Fr(fv[0]))) - p[0], float(O.peval(py, Fr(fv[0]))) - p[1])
                if atm <= true_d + 2 * acc + slack:
                    return None
            return f'CORR impl != model@Float impl={i} model={f}'
        return None
    return Case(line, 'IF', judge, stratum, 'oracle')


def rnd_seg(rng):
    r = rng.random()
    kind = rng.choice('LQQCCC')
    n = NPTS[kind]
    if r < 0.35:
        v = [rng.randint(-40, 40) / 4.0 for _ in range(2 * n)]
        st = 'grid'
    elif r < 0.5:   # collinear (straight) with controls at / near the thirds
        a = (rng.uniform(-10, 10), rng.uniform(-10, 10))
        b = (rng.uniform(-10, 10), rng.uniform(-10, 10))
        rr = rng.random()
        if rr < 0.35:
            ts = [k / (n - 1.0) for k in range(n)]
        elif rr < 0.65:
            ts = [0.0] + sorted(rng.uniform(-0.3, 1.3) for _ in range(n - 2)) + [1.0]
        else:
            # EXACTLY collinear (dyadic data: every cross product is exactly 0), controls unevenly spaced, overshooting the end points,
            # doubling back, or with coinciding end points
            a = (rng.randint(-20, 20) / 4.0, rng.randint(-20, 20) / 4.0)
            d = (float(rng.randint(-6, 6)), float(rng.randint(-6, 6)))
            b = (a[0] + d[0], a[1] + d[1])
            ts = [0.0] + [rng.randint(-8, 16) / 8.0 for _ in range(n - 2)] + [rng.choice([1.0, 1.0, 1.0, 0.0])]
        v = [c for t in ts for c in (a[0] + t * (b[0] - a[0]), a[1] + t * (b[1] - a[1]))]
        st = 'straight' if rr < 0.65 else 'straight-exact'
    elif r < 0.6 and kind == 'C':   # loop / cusp
        v = [0.0, 0.0, 10.0, rng.uniform(2, 12), rng.uniform(-2, 2), 10.0, 10.0, 0.0]
        st = 'loop-cusp'
    elif r < 0.65:
        p = [rng.uniform(-5, 5) for _ in range(2)]
        v = p * n
        st = 'point'
    else:
        v = [rng.uniform(-10, 10) for _ in range(2 * n)]
        st = 'generic'
    return kind, v, st


def rnd_query(rng, kind, v):
    pts = pts_of(v)
    r = rng.random()
    if r < 0.25:     # on the curve
        t = rng.random()
        px, py = O.seg_polys(pts)
        return (float(O.peval(px, Fr(t))), float(O.peval(py, Fr(t)))), 'on-curve'
    if r < 0.35:
        return rng.choice([pts[0], pts[-1]]), 'end-point'
    if r < 0.5 and kind != 'L':     # centre of curvature at a random parameter (evolute)
        t = rng.random()
        px, py = O.seg_polys(pts)
        d1x, d1y = float(O.peval(O.pderiv(px), Fr(t))), float(O.peval(O.pderiv(py), Fr(t)))
        d2x, d2y = float(O.peval(O.pderiv(O.pderiv(px)), Fr(t))) if len(px) > 2 else 0.0, float(O.peval(O.pderiv(O.pderiv(py)), Fr(t))) if len(py) > 2 else 0.0
        cr = d1x * d2y - d1y * d2x
        if abs(cr) > 1e-9:
            k = (d1x * d1x + d1y * d1y) / cr
            x, y = float(O.peval(px, Fr(t))), float(O.peval(py, Fr(t)))
            return (x - d1y * k, y + d1x * k), 'evolute'
    ext = max(1.0, max(v) - min(v))
    return (rng.uniform(min(v) - 3 * ext, max(v) + 3 * ext), rng.uniform(min(v) - 3 * ext, max(v) + 3 * ext)), 'far'


def generate(rng, tier):
    n = 500 if tier == 'quick' else 20000
    for _ in range(n):
        kind, v, st = rnd_seg(rng)
        for _ in range(3):
            q, qs = rnd_query(rng, kind, v)
            acc = 10.0 ** rng.uniform(-8, 0)
            yield nearest(kind, v, list(q), acc, f'{st}-{kind}/{qs}')


def _collinear(kind, vals):
    if kind == 'L':
        return False
    pts = pts_of(vals)
    a, b = pts[0], pts[-1]
    ext = max(1e-300, max(abs(v) for v in vals))
    dx, dy = b[0] - a[0], b[1] - a[1]
    ln = math.hypot(dx, dy)
    if ln == 0:
        return all(math.hypot(p[0] - a[0], p[1] - a[1]) <= 1e-9 * ext for p in pts)
    return all(abs((p[0] - a[0]) * dy - (p[1] - a[1]) * dx) / ln <= 1e-9 * ext for p in pts)


def _affinely_parametrised(kind, vals):
    """the curve is a degree-raised line up to rounding: every second difference of the control points is of rounding size"""
    if kind == 'L':
        return False
    pts = pts_of(vals)
    ext = max(1e-300, max(abs(v) for v in vals))
    return all(math.hypot(a[0] - 2 * b[0] + c[0], a[1] - 2 * b[1] + c[1]) <= 1e-9 * ext for a, b, c in zip(pts, pts[1:], pts[2:]))


def nearest_straight(case, outs, verdict):
    """root cause: a quadratic/cubic that is a degree-raised line up to rounding (collinear control polygon with evenly spaced control
    points: Line -> to_cubic, controls at the thirds / the midpoint): the critical-point cubic of QuadBez::nearest has a leading
    coefficient |p0 - 2 p1 + p2|^2 of rounding size (not exactly 0) and solve_cubic returns garbage (finding C15-cubic-small-leading).
    Collinear control polygons with UNEVEN spacing (overshooting or doubling-back curves) are not in the class."""
    if verdict.startswith('CORR'):
        return False
    return _affinely_parametrised(case.meta['args'][0], case.meta['args'][1])


KNOWN_CLASSES = {'nearest_straight': nearest_straight}
