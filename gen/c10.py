"""C10 – shape outlines approximate the ideal shape within the tolerance."""
from .shapes_common import *

RULE = ('circles, ellipses (any rotation, also from_affine), elliptical arcs (start/sweep in [-4pi,4pi] incl. 0 and multiples of pi/2), rounded rectangles '
        '(clamped radii, all four different), circle segments (inner>outer allowed) with radii 1e-3..1e4 x tolerances 1e-9..1 incl. both sides of the '
        'circle branch switch; lines/rects/triangles/quads/cubics. Oracle (exact over Q): every Bezier piece mapped into the unit-circle frame of its '
        'ideal ellipse; Bernstein certificates decide rho within 1 +- T/rmin (violation) / 1 +- T/rmax (certified), in between counted inconclusive; '
        'contours closed, pieces joined end to end, swept angle equals the sweep (one traversal); polygon/Bezier shapes reproduced bit-exactly. '
        'Implementation compared with the Float instantiation of the Lean model (piece count exact, points 1e-9 of scale). non-trivial = distinct (shape, tolerance)')
KERNEL_DEPS = [r'Affine\.(mul_Affine|translate|rotate|scale_non_uniform|translation|inverse|mul_Point)', r'Rect\.(abs|width|height|area|center)',
               r'K2:(pointOnCircle|rotatePt|sampleEllipse)', r'K2:CircleSegment\.(outer_arc|inner_arc)', r'K2:Affine\.svd', r'K2:Ellipse\.(private_new|center|radii|radii_and_rotation)', r'K2:RoundedRectRadii\..*']
UNPROVED = ['"n pieces achieve T": the constants 1.1163 / 1.9608e-4 / 0.551915024494 are empirical: decided per instance by exact certificates',
            'ellipses with extreme aspect ratio: the certificate is inconclusive between T/rmax and T/rmin (counted)']
ASSUMPTIONS = ['sin^2+cos^2=1 and periodicity laws for the end-point theorems (over the reals)']
MAKERS = {}
HEAVY_JUDGE = True


def split_pieces(els):
    """-> list of (kind, control points incl. start) for drawing elements, tracking the current point"""
    out = []
    last = start = None
    for el in els:
        if el[0] == 'M':
            last = start = el[1]
        elif el[0] == 'Z':
            last = start
        else:
            out.append((el[0], [last] + list(el[1:])))
            last = el[-1]
    return out


@maker(MAKERS)
def outline(kind, params, tol, stratum):
    line = f'shape.path {shape_line(kind, params)} {H(tol)}'
    sc = max([1.0] + [abs(p) for p in params])

    def judge(o):
        i, f = o['I'][0], o['F'][0]
        if engine_error(i):
            return 'engine error ' + i
        els = parse_els(i)
        if els is None or not els or els[0][0] != 'M':
            return f'outline does not start with MoveTo: {i[:80]}'
        if any(math.isnan(c) or math.isinf(c) for el in els for p in el[1:] for c in p):
            return 'non-finite outline'
        v = judge_shape(kind, params, tol, els, sc)
        if v:
            return v
        if engine_error(f):
            return 'engine error (model) ' + f
        fe = parse_els(f)
        if [e[0] for e in fe] != [e[0] for e in els]:
            return f'CORR structure impl={[e[0] for e in els]} model={[e[0] for e in fe]}'
        if not cmp_rel(i, f, 1e-9, sc):
            return f'CORR impl != model@Float impl={i[:160]} model={f[:160]}'
        return None
    return Case(line, 'IF', judge, stratum, 'oracle')


def check_pieces(frame, pieces, T, what):
    inconclusive = 0
    for k, (kd, pts) in enumerate(pieces):
        if kd != 'C':
            return f'{what}: piece {k} is {kd}, expected a cubic'
        r = piece_radial(frame, pts, T)
        if isinstance(r, tuple):
            return f'{what}: piece {k} of {len(pieces)} leaves the tolerance {T} ({r[2]} the ideal curve) at t={r[1]}'
    return None


def judge_shape(kind, p, tol, els, sc):
    pieces = split_pieces(els)
    slack = 1e-9 * sc
    if kind in ('line', 'rect', 'tri', 'quad', 'cubic'):
        if kind == 'line':
            want = [('M', (p[0], p[1])), ('L', (p[2], p[3]))]
        elif kind == 'rect':
            want = [('M', (p[0], p[1])), ('L', (p[2], p[1])), ('L', (p[2], p[3])), ('L', (p[0], p[3])), ('Z',)]
        elif kind == 'tri':
            want = [('M', (p[0], p[1])), ('L', (p[2], p[3])), ('L', (p[4], p[5])), ('Z',)]
        elif kind == 'quad':
            want = [('M', (p[0], p[1])), ('Q', (p[2], p[3]), (p[4], p[5]))]
        else:
            want = [('M', (p[0], p[1])), ('C', (p[2], p[3]), (p[4], p[5]), (p[6], p[7]))]
        if [tuple(e) for e in els] != want:
            return f'{kind} not reproduced exactly: {els}'
        return None
    if kind == 'circle':
        cx, cy, r = p
        if els[-1] != ('Z',):
            return 'circle outline is not closed by ClosePath'
        fr = Frame(cx, cy, r, r)
        v = check_pieces(fr, pieces, tol, 'circle')
        if v:
            return v
        if pieces[-1][1][-1] != els[0][1]:
            return f'circle contour does not return exactly to its start: {pieces[-1][1][-1]} vs {els[0][1]}'
        sw = swept_angle(fr, [pts for _, pts in pieces])
        if abs(abs(sw) - 2 * math.pi) > 1e-6:
            return f'circle is not traversed exactly once: swept angle {sw}'
        return None
    if kind == 'ellipse_aff':
        # an ellipse given as the image of the unit circle under the affine map [a b c d e f] (Ellipse::from_affine, Affine * Ellipse):
        # the ideal curve has its centre at (e, f), the singular values as semi-axes and the first left singular vector as axis direction
        a, b, c, d, e, f = p
        sxx, sxy, syy = a * a + c * c, a * b + c * d, b * b + d * d
        rot = 0.5 * math.atan2(2 * sxy, sxx - syy)
        half, dif = 0.5 * (sxx + syy), 0.5 * math.hypot(sxx - syy, 2 * sxy)
        kind, p = 'ellipse', (e, f, math.sqrt(half + dif), math.sqrt(max(half - dif, 0.0)), rot)
    if kind in ('ellipse', 'arc'):
        if kind == 'ellipse':
            cx, cy, rx, ry, rot = p
            start, sweep = 0.0, 2 * math.pi
        else:
            cx, cy, rx, ry, start, sweep, rot = p
        if rx <= 0 or ry <= 0:
            return None
        fr = Frame(cx, cy, rx, ry, rot)
        v = check_pieces(fr, pieces, tol, kind)
        if v:
            return v
        if kind == 'arc' and sweep == 0.0:
            return None
        if not pieces:
            return f'{kind} with sweep {sweep} produced no pieces'
        # end points on the ideal curve at the right angles
        def ideal(a):
            u, w = abs(rx) * math.cos(a), abs(ry) * math.sin(a)
            return (cx + u * math.cos(rot) - w * math.sin(rot), cy + u * math.sin(rot) + w * math.cos(rot))
        s0, s1 = ideal(start), ideal(start + sweep)
        e0, e1 = els[0][1], pieces[-1][1][-1]
        big = max(abs(rx), abs(ry)) * (1 + abs(start) + abs(sweep))
        if kind == 'ellipse':
            # the ellipse is stored as an affine map; its outline may start anywhere on the curve (the SVD recovers the axes
            # up to a quarter turn): required is a contour that returns to its start and goes round once
            if math.hypot(e0[0] - e1[0], e0[1] - e1[1]) > 1e-9 * big + slack:
                return f'ellipse contour does not return to its start: {e0} vs {e1}'
            sw = swept_angle(fr, [pts for _, pts in pieces])
            if abs(abs(sw) - 2 * math.pi) > 1e-6:
                return f'ellipse is not traversed exactly once: swept angle {sw}'
            return None
        if math.hypot(e0[0] - s0[0], e0[1] - s0[1]) > 1e-9 * big + slack or math.hypot(e1[0] - s1[0], e1[1] - s1[1]) > 1e-9 * big + slack:
            return f'{kind} does not start/end at the ideal end points: {e0} {e1} vs {s0} {s1}'
        sw = swept_angle(fr, [pts for _, pts in pieces])
        if abs(sw - sweep) > 1e-6 * (1 + abs(sweep)):
            return f'{kind} swept angle {sw} differs from the sweep {sweep} (not one traversal)'
        return None
    if kind == 'rrect':
        x0, y0, x1, y1 = min(p[0], p[2]), min(p[1], p[3]), max(p[0], p[2]), max(p[1], p[3])
        m = min(x1 - x0, y1 - y0) / 2
        tl, tr, br, bl = (min(abs(r), m) for r in p[4:8])
        if els[-1] != ('Z',):
            return 'rounded rectangle outline not closed'
        # structure: M arc* L arc* L arc* L arc* Z
        groups, cur = [], []
        for el in els[1:-1]:
            if el[0] == 'L':
                groups.append(cur)
                cur = []
            else:
                cur.append(el)
        groups.append(cur)
        if len(groups) != 4 or any(e[0] != 'C' for g in groups for e in g):
            return f'rounded rectangle outline is not M arc L arc L arc L arc Z: {[e[0] for e in els]}'
        corners = [(x0 + tl, y0 + tl, tl), (x1 - tr, y0 + tr, tr), (x1 - br, y1 - br, br), (x0 + bl, y1 - bl, bl)]
        k = 0
        for (ccx, ccy, r), g in zip(corners, groups):
            mine = pieces[k:k + len(g)]
            k += len(g) + 1
            if r > 0:
                v = check_pieces(Frame(ccx, ccy, r, r), mine, tol, 'rounded-rect corner')
                if v:
                    return v
                sw = swept_angle(Frame(ccx, ccy, r, r), [pts for _, pts in mine])
                if abs(sw - math.pi / 2) > 1e-6:
                    return f'rounded-rect corner sweeps {sw}, expected pi/2'
        # lines lie on the sides
        for kd, pts in pieces:
            if kd == 'L':
                (ax, ay), (bx, by) = pts
                on_side = (abs(ay - y0) < slack and abs(by - y0) < slack) or (abs(ay - y1) < slack and abs(by - y1) < slack) or \
                          (abs(ax - x0) < slack and abs(bx - x0) < slack) or (abs(ax - x1) < slack and abs(bx - x1) < slack) or \
                          math.hypot(ax - bx, ay - by) < slack
                if not on_side:
                    return f'rounded-rect straight piece not on a side: {pts}'
        return None
    if kind == 'cseg':
        cx, cy, outer, inner, start, sweep = p
        if [e[0] for e in els[:2]] != ['M', 'L']:
            return f'circle segment does not start with M L: {[e[0] for e in els]}'
        idx = [k for k, e in enumerate(els) if e[0] == 'L']
        if len(idx) != 2:
            return f'circle segment has {len(idx)} straight pieces, expected 2'
        n_outer = idx[1] - idx[0] - 1
        outer_p = pieces[1:1 + n_outer]
        inner_p = pieces[2 + n_outer:]
        if outer > 0:
            v = check_pieces(Frame(cx, cy, outer, outer), outer_p, tol, 'circle-segment outer arc')
            if v:
                return v
        if inner > 0:
            v = check_pieces(Frame(cx, cy, inner, inner), inner_p, tol, 'circle-segment inner arc')
            if v:
                return v
        if outer > 0 and outer_p:
            sw = swept_angle(Frame(cx, cy, outer, outer), [pts for _, pts in outer_p])
            if abs(sw - sweep) > 1e-6 * (1 + abs(sweep)):
                return f'circle-segment outer arc sweeps {sw}, expected {sweep}'
        endp = pieces[-1][1][-1]
        if math.hypot(endp[0] - els[0][1][0], endp[1] - els[0][1][1]) > 1e-9 * (abs(cx) + abs(cy) + max(inner, outer)) * (1 + abs(start) + abs(sweep)) + slack:
            return f'circle-segment contour does not return to its start: {endp} vs {els[0][1]}'
        return None
    return None


def rnd_radius(rng):
    return 10.0 ** rng.uniform(-3, 4)


def rnd_tol(rng, r):
    x = rng.random()
    if x < 0.25:
        return r * 1.9608e-4 * rng.choice([0.999, 1.001, 0.5, 2.0])     # both sides of the circle branch switch
    if x < 0.5:
        return r * 10.0 ** rng.uniform(-9, 0)
    return 10.0 ** rng.uniform(-9, 0)


def rnd_angle(rng):
    x = rng.random()
    if x < 0.3:
        return rng.choice([0.0, 0.5, 1.0, -0.5, -1.0, 1.5, 2.0, -2.0, 4.0, -4.0]) * math.pi
    return rng.uniform(-4 * math.pi, 4 * math.pi)


def generate(rng, tier):
    n = 120 if tier == 'quick' else 5000
    for _ in range(n):
        r = rnd_radius(rng)
        c = [rng.uniform(-10, 10), rng.uniform(-10, 10)]
        yield outline('circle', c + [r], rnd_tol(rng, r), 'circle')
        rx, ry = r, r * 10.0 ** rng.uniform(-1.5, 1.5)
        yield outline('ellipse', c + [rx, ry, rng.uniform(-4, 4)], rnd_tol(rng, max(rx, ry)), 'ellipse')
        yield outline('arc', c + [rx, ry, rnd_angle(rng), rnd_angle(rng), rng.choice([0.0, rng.uniform(-4, 4)])], rnd_tol(rng, max(rx, ry)), 'arc')
        # ellipses that exist only as affine maps (Ellipse::from_affine / Affine * Ellipse): mirrored and half-turned axis-aligned ones (exactly
        # diagonal linear part with negative entries), exact quarter turns (anti-diagonal), and generic maps of either orientation
        sg = lambda: rng.choice([-1.0, 1.0])
        how = rng.choice(['diag', 'diag', 'antidiag', 'generic'])
        if how == 'diag':
            aff = [sg() * rx, 0.0, 0.0, sg() * ry] + c
        elif how == 'antidiag':
            aff = [0.0, sg() * rx, sg() * ry, 0.0] + c
        else:
            th, sh = rng.uniform(-4, 4), rng.uniform(-0.8, 0.8)
            aff = [rx * math.cos(th), rx * math.sin(th), sg() * ry * (-math.sin(th) + sh * math.cos(th)), ry * (math.cos(th) + sh * math.sin(th))] + c
        yield outline('ellipse_aff', aff, rnd_tol(rng, max(rx, ry)), 'ellipse-affine-' + how)
        w, h = 10.0 ** rng.uniform(-1, 3), 10.0 ** rng.uniform(-1, 3)
        rad = [rng.choice([0.0, rng.uniform(0, 1) * min(w, h), rng.uniform(0, 2) * max(w, h), -rng.uniform(0, 1) * min(w, h)]) for _ in range(4)]
        x0, y0 = rng.uniform(-10, 10), rng.uniform(-10, 10)
        corners = [x0, y0, x0 + w, y0 + h] if rng.random() < 0.7 else [x0 + w, y0 + h, x0, y0]
        yield outline('rrect', corners + rad, rnd_tol(rng, min(w, h)), 'rounded-rect')
        outer = rnd_radius(rng)
        inner = outer * rng.choice([0.0, rng.uniform(0, 1), rng.uniform(1, 2)])
        yield outline('cseg', c + [outer, inner, rnd_angle(rng), rng.uniform(1e-3, 2 * math.pi) if rng.random() < 0.8 else 2 * math.pi], rnd_tol(rng, max(outer, inner)), 'circle-segment')
        g = lambda: rng.uniform(-100, 100)
        k = rng.choice(['line', 'rect', 'tri', 'quad', 'cubic'])
        yield outline(k, [g() for _ in range({'line': 4, 'rect': 4, 'tri': 6, 'quad': 6, 'cubic': 8}[k])], 0.1, 'exact')
