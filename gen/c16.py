"""C16 – SVG path text round-trips and parses per the path grammar."""
from .common import *
import itertools
import re

RULE = ('(a) abstract command sequences (M L H V C S Q T A Z, absolute/relative) rendered in >= 4 random spellings each (implicit repetition, separators '
        'space / comma / none where legal, signs incl. "+", leading "." , exponents): all spellings must give the identical element list; (b) every string '
        'over an 18-symbol command/number alphabet up to length 3 (quick) / 4 (thorough), random strings over the full alphabet up to 64 bytes, valid strings '
        'with one mutation, multi-byte UTF-8 inserts: implementation == Lean model bit-for-bit (element lists, error kinds), never PANIC; (c) random paths '
        'with -0, 5e-324, 1e+-300, 17-digit values: to_svg -> from_svg gives the identical elements (ClosePath followed by MoveTo/end) resp. segments, and the '
        'LEAN parser run on the implementation\'s text returns the same path; the same on element lists built without from_vec (empty, no initial MoveTo -> '
        'UninitializedPath, consecutive ClosePaths, ClosePath + drawing element; integers up to 1e23, subnormals, any finite bit pattern) with (i) the MODEL '
        'writer svgWrite, handed the numerals of the implementation\'s text, writing exactly the implementation\'s bytes and (ii) every numeral of the form '
        '-?digits(.digits)? and denoting (Python float(), correctly rounded) exactly the bits of its coordinate; (d) arcs: Arc::from_svg_arc vs the Float model and the end-point / sweep / '
        'large-arc conditions. non-trivial = distinct input string / path')
KERNEL_DEPS = [r'PathSeg\.(start|end|as_path_el)']
UNPROVED = ['arc end point / sweep / large-arc correctness (trigonometry): compared', 'the number printer (Rust Display for f64) is a parameter of the model writer svgWrite; that its output is a valid numeral denoting the coordinate is an assumption of the theorems, checked per numeral by the writer stratum']
ASSUMPTIONS = ['a number token denotes its exact decimal value, correctly rounded (= Rust str::parse::<f64>)']
MAKERS = {}


def hx(s):
    b = s if isinstance(s, bytes) else s.encode('utf-8')
    return 'x' + b.hex()


def canon_nan(s):
    return s


@maker(MAKERS)
def parse_corr(text_hex, stratum):
    """implementation == model, bit for bit; never a panic"""
    line = f'svg.parse {text_hex}'

    def judge(o):
        i, f = o['I'][0], o['F'][0]
        if i.startswith('PANIC') or i == 'DIED':
            return f'from_svg panicked: {i}'
        if i == 'NOT-UTF8':
            return None
        if f.startswith('PANIC'):
            return f'model reaches the panic state on input the implementation accepts: impl={i[:80]}'
        if engine_error(i, f):
            return f'engine error {i} / {f}'
        return None if i.split() == f.split() else f'impl != model: impl={i[:200]} model={f[:200]}'
    return Case(line, 'IF', judge, stratum, 'corr-F')


def fmt_num(rng, v, first):
    """a spelling of the dyadic number v; `first` = may not rely on a sign as separator"""
    neg = v < 0
    a = abs(v)
    forms = []
    if a == int(a):
        forms += [str(int(a)), str(int(a)) + '.', str(int(a)) + '.0', f'{int(a)}e0', f'{int(a)}E+0']
        if int(a) % 10 == 0 and int(a) != 0:
            forms.append(f'{int(a) // 10}e1')
    else:
        s = repr(a)
        forms += [s, s + '0', f'{repr(a * 10)}e-1' if (a * 10) == int(a * 10) or len(repr(a * 10)) < 12 else s]
        if a < 1:
            forms.append(s[1:])     # .5
    body = rng.choice(forms)
    sign = '-' if neg else rng.choice(['', '', '+'])
    return sign + body


def render(rng, cmds):
    """cmds: list of (letter, [numbers...]) with letter possibly repeated implicitly by the renderer; flags are ints in 'A'"""
    out = []
    prev_letter = None
    for letter, nums in cmds:
        implicit = False
        if prev_letter is not None and rng.random() < 0.5:
            rep = {'M': 'L', 'm': 'l'}.get(prev_letter, prev_letter)
            if rep == letter and letter not in 'Zz':
                implicit = True
        if not implicit:
            out.append(rng.choice(['', ' ', '  ', '\n']) + letter)
        toks = []
        for k, v in enumerate(nums):
            if isinstance(v, int) and letter in 'Aa' and k % 7 in (3, 4):
                toks.append(str(v))
            else:
                toks.append(fmt_num(rng, v, k == 0))
        s = ''
        for k, t in enumerate(toks):
            if k == 0:
                sep = rng.choice(['', ' ']) if not implicit else ' '
                if implicit and t[0] in '+-.':
                    sep = rng.choice(['', ' ', ','])   # a sign or dot can start the repeated command's number directly
                if implicit and out and out[-1][-1:] in 'Zz':
                    sep = ' '
            else:
                prev = toks[k - 1]
                can_glue = t[0] in '+-' or (t[0] == '.' and ('.' in prev.split('e')[0].split('E')[0]) and 'e' not in prev.lower())
                sep = rng.choice([' ', ',', ' , ', '  ']) if not can_glue else rng.choice(['', ' ', ','])
                if letter in 'Aa' and k % 7 in (4, 5) and toks[k - 1] in ('0', '1') and k % 7 == 4:
                    sep = rng.choice(['', ' ', ','])      # flags may be packed: "01"
            s += sep + t
        out.append(s)
        prev_letter = letter
    return ''.join(out)


def rnd_cmds(rng, with_arcs=True):
    g = lambda: rng.randint(-64, 64) / 4.0
    cmds = [(rng.choice('Mm'), [g(), g()])]
    for _ in range(rng.randint(1, 8)):
        k = rng.choice('LlHhVvCcSsQqTtZzMmAa' if with_arcs else 'LlHhVvCcSsQqTtZzMm')
        n = {'l': 2, 'h': 1, 'v': 1, 'c': 6, 's': 4, 'q': 4, 't': 2, 'z': 0, 'm': 2}.get(k.lower())
        if k.lower() == 'a':
            cmds.append((k, [abs(g()) + 1, abs(g()) + 1, g() * 4, rng.randint(0, 1), rng.randint(0, 1), g(), g()]))
        else:
            cmds.append((k, [g() for _ in range(n)]))
    return cmds


@maker(MAKERS)
def spellings(texts):
    """every spelling of the same drawing parses to the same path (implementation), and the model agrees on each"""
    lines = [f'svg.parse {hx(t)}' for t in texts]

    def judge(o):
        I, F = o['I'], o['F']
        for t, a, b in zip(texts, I, F):
            if a.startswith('PANIC'):
                return f'from_svg panicked on {t!r}'
            if not a.startswith('ok'):
                return f'valid spelling rejected: {t!r} -> {a}'
            if a.split() != b.split():
                return f'impl != model on {t!r}: impl={a[:160]} model={b[:160]}'
        for t, a in zip(texts[1:], I[1:]):
            if a.split() != I[0].split():
                return f'two spellings of one drawing give different paths: {texts[0]!r} -> {I[0][:120]} ; {t!r} -> {a[:120]}'
        return None
    return Case(lines, 'IF', judge, 'spellings', 'oracle')


def els_str(els):
    return ' '.join(el[0] + (' ' + ' '.join(H(*p) for p in el[1:]) if len(el) > 1 else '') for el in els)


def norm_els(els):
    return [tuple(tuple(x) if isinstance(x, list) else x for x in el) for el in els]


def judge_write_parse(els, text_hex, res):
    """(iii) what from_svg must make of the text to_svg wrote for `els`: the identical elements if every ClosePath is followed by a MoveTo or the
    end, the same segments otherwise.  A non-empty list that does not start with MoveTo is not a path from_svg can produce: UninitializedPath."""
    text = bytes.fromhex(text_hex[1:])
    if els and els[0][0] != 'M':
        return None if res == 'err UninitializedPath' else f'text of a path without initial MoveTo {text!r}: expected UninitializedPath, got {res[:120]}'
    if not res.startswith('ok'):
        return f'from_svg rejects the text written by to_svg: {text!r} -> {res}'
    want = 'ok ' + els_str(els)
    z_ok = all(els[k + 1][0] == 'M' for k, e in enumerate(els[:-1]) if e[0] == 'Z')
    if z_ok:
        if res.split() != want.split():
            return f'write -> parse changes the elements: {text!r} -> {res[:200]}'
    else:
        # same segments: compare after dropping MoveTo elements that restate the current point (inserted after ClosePath)
        if segs_of(res[3:]) != segs_of(els_str(els)):
            return f'write -> parse changes the segments: {text!r}'
    return None


@maker(MAKERS)
def roundtrip(els):
    els = norm_els(els)
    line = f'svg.write {els_str(els)}'

    def judge(o):
        i = o['I'][0]
        if engine_error(i):
            return 'engine error ' + i
        text, res = i.split(' | ')
        return judge_write_parse(els, text, res)
    c = Case(line, 'I', judge, 'roundtrip', 'oracle')

    def followup(o):
        text = o['I'][0].split(' | ')[0]
        res = o['I'][0].split(' | ')[1]
        fc = parse_corr(text, 'roundtrip-text-through-model')
        return fc
    c.followup = followup
    return c


# ---- the writer (tag C16W): BezPath::to_svg / write_to against the model `svgWrite` (lean/Kurbo/SvgWrite.lean)

NUMERAL = re.compile(r'-?[0-9]+(\.[0-9]+)?\Z')     # what Display for f64 prints for a finite number; a subset of what get_number accepts (no exponent)


def numerals_of(text):
    """the numerals of a to_svg text in order of appearance: the maximal runs of bytes that are not a command letter, a comma or a space"""
    return [t for t in re.split(r'[MLQCZ, ]+', text) if t]


def coords_of(els):
    return [x for el in els for p in el[1:] for x in p]


@maker(MAKERS)
def writer(els):
    """to_svg on an arbitrary element list (built with BezPath::new + extend: no MoveTo assertion); (ii) + (iii) here, (i) in the follow-up"""
    els = norm_els(els)
    lines = [f'svg.to_svg {els_str(els)}'.rstrip(), f'svg.to_svg_parse {els_str(els)}'.rstrip()]

    def judge(o):
        i0, i1 = o['I']
        if engine_error(i0, i1) or not i0.startswith('x') or ' | ' not in i1:
            return f'engine error {i0[:80]} / {i1[:80]}'
        text_hex, res = i1.split(' | ')
        if text_hex != i0:
            return 'to_svg gives two different texts for the same path'
        try:
            text = bytes.fromhex(i0[1:]).decode('ascii')
        except (ValueError, UnicodeDecodeError):
            return f'to_svg text is not ASCII: {i0[:80]}'
        # (ii) every numeral is in the grammar and denotes exactly (bit for bit) the coordinate at its position
        nums, coords = numerals_of(text), coords_of(els)
        if len(nums) != len(coords):
            return f'{len(coords)} coordinates but {len(nums)} numerals in {text[:120]!r}'
        for t, x in zip(nums, coords):
            if not NUMERAL.match(t):
                return f'numeral {t[:40]!r} (for {x!r}) is not of the form -?digits(.digits)?'
            if f2h(float(t)) != f2h(x):
                return f'numeral {t[:40]!r} denotes {float(t)!r} (bits {f2h(float(t))}), the coordinate is {x!r} (bits {f2h(x)})'
        # (iii)
        return judge_write_parse(els, text_hex, res)
    c = Case(lines, 'I', judge, 'writer', 'oracle')

    def followup(o):
        text_hex, res = o['I'][1].split(' | ')
        return writer_model(els, text_hex, res)
    c.followup = followup
    return c


@maker(MAKERS)
def writer_model(els, text_hex, res):
    """(i) the model writer, handed the crate's numerals, writes exactly the crate's bytes; and the model parser reads them like the crate"""
    els = norm_els(els)
    text = bytes.fromhex(text_hex[1:]).decode('ascii')
    nums = numerals_of(text)
    lines = [f'svg.write {len(nums)} ' + ''.join(hx(t) + ' ' for t in nums) + '| ' + els_str(els), f'svg.parse {text_hex}']

    def judge(o):
        for eng in 'FR':
            w, p = o[eng]
            if w != text_hex:
                if w.startswith('x'):
                    return f'model@{eng} svgWrite != to_svg: model={bytes.fromhex(w[1:])[:160]!r} impl={text[:160]!r}'
                return f'model@{eng} svgWrite: {w[:80]}'
            if p.startswith('PANIC') or engine_error(p):
                return f'model@{eng} parser on the written text: {p[:80]}'
            same = p.split() == res.split() if eng == 'F' else cmp_exact(p, res)
            if not same:
                return f'model@{eng} parser != from_svg on the written text {text[:120]!r}: model={p[:160]} impl={res[:160]}'
        return None
    return Case(lines, 'FR', judge, 'writer-model', 'corr-F')


def segs_of(s):
    """kurbo segment semantics on a hex element string"""
    toks = s.split()
    n = {'M': 2, 'L': 2, 'Q': 4, 'C': 6, 'Z': 0}
    i = 0
    segs = []
    start = last = None
    while i < len(toks):
        k = toks[i]
        a = [canon_tok(t) for t in toks[i + 1:i + 1 + n[k]]]
        i += 1 + n[k]
        if k == 'M':
            start = last = tuple(a)
        elif k == 'Z':
            if last != start:
                segs.append(('L', last, start))
            last = start
        else:
            segs.append((k, last) + tuple(a))
            last = tuple(a[-2:])
    return segs


@maker(MAKERS)
def svg_arc(fr, to, radii, rot, la, sw):
    line = f'svg.arc {H(*fr)} {H(*to)} {H(*radii)} {H(rot)} {la} {sw}'

    def judge(o):
        i, f = o['I'][0], o['F'][0]
        if engine_error(i, f):
            return f'engine error {i} / {f}'
        if i == 'none':
            if min(abs(radii[0]), abs(radii[1])) > 1e-4 and (fr[0] != to[0] or fr[1] != to[1]):
                return f'an arc with radii {radii} from {fr} to the DIFFERENT point {to} was replaced by a straight line (from_svg_arc = None)'
            return None if f == 'none' else f'impl none, model {f}'
        v = floats_of(i)
        cx, cy, rx, ry, st, swp, xr = v
        sc = max(1.0, abs(cx), abs(cy), rx, ry)

        def sample(a):
            u, w = rx * math.cos(a), ry * math.sin(a)
            return (cx + u * math.cos(xr) - w * math.sin(xr), cy + u * math.sin(xr) + w * math.cos(xr))
        p0, p1 = sample(st), sample(st + swp)
        if math.hypot(p0[0] - fr[0], p0[1] - fr[1]) > 1e-8 * sc or math.hypot(p1[0] - to[0], p1[1] - to[1]) > 1e-8 * sc:
            return f'arc does not run from the current point to the end point: {p0} {p1} vs {fr} {to}'
        if swp != 0 and (swp > 0) != (sw == 1):
            return f'sweep direction {swp} contradicts the sweep flag {sw}'
        # large-arc only meaningful when the radii were not scaled up (then the sweep is exactly pi)
        if abs(abs(swp) - math.pi) > 1e-6 and (abs(swp) > math.pi) != (la == 1):
            return f'|sweep| = {abs(swp)} contradicts the large-arc flag {la}'
        if not cmp_rel(i, f, 1e-7, sc):
            return f'CORR impl != model@Float impl={i} model={f}'
        return None
    near = math.hypot(fr[0] - to[0], fr[1] - to[1]) <= 1e-3 * max(abs(radii[0]), abs(radii[1]))
    return Case(line, 'IF', judge, 'arc-near-coincident' if near else 'arc', 'oracle')


ALPHA18 = ['M', 'm', 'L', 'h', 'C', 's', 'Q', 'T', 'a', 'Z', '0', '1', '.', '-', '+', 'e', ',', ' ']
FULL = 'MmLlHhVvCcSsQqTtAaZz0123456789+-.,eE \t\n'


def special_float(rng):
    return rng.choice([0.0, -0.0, 5e-324, 1e-300, -1e300, 1e300, 0.1, 1 / 3.0, 123456789.12345678, 2.2250738585072014e-308, 1.7976931348623157e308,
                       rng.uniform(-1e3, 1e3), rng.uniform(-1, 1) * 10.0 ** rng.randint(-300, 300), float(rng.randint(-99, 99))])


def writer_float(rng):
    """coordinates for the writer stratum: integers (small, beyond 2^53, powers of ten around the places where other printers switch to exponents), negative
    zero, subnormals, the extremes of the range, short and 17-digit decimals"""
    r = rng.random()
    if r < 0.25:
        return special_float(rng)
    if r < 0.40:
        return float(rng.choice([0, 1, -1, 7, 10, 100, -1000, 2 ** 31, 2 ** 53, 2 ** 53 + 2, -(2 ** 63), 10 ** 15, 10 ** 16, 10 ** 17, 10 ** 21, 10 ** 22, 10 ** 23,
                                 rng.randint(-10 ** 6, 10 ** 6), rng.randint(-10 ** 18, 10 ** 18)]))
    if r < 0.55:     # subnormals and the neighbourhood of the smallest normal
        return rng.choice([-1, 1]) * h2f('%016x' % rng.choice([1, 2, 3, rng.randint(1, (1 << 52) - 1), (1 << 52) - 1, 1 << 52, (1 << 52) + 1]))
    if r < 0.65:
        return rng.choice([-1, 1]) * 10.0 ** rng.randint(-323, 308)
    if r < 0.75:
        return rng.choice([-0.0, 0.0, 1e-5, 1e-7, 0.001, 0.3, 2.5, -0.75, 1e16 + 2, 9007199254740993.0, 4.35, 0.1 + 0.2, 5e-324, -5e-324, 1.7976931348623157e308, -1.7976931348623157e308])
    if r < 0.85:     # any finite bit pattern
        return h2f('%016x' % (rng.getrandbits(1) << 63 | rng.randint(0, 0x7fe) << 52 | rng.getrandbits(52)))
    return rng.randint(-64, 64) / 4.0


def writer_els(rng):
    """element lists for the writer stratum: mostly well-formed paths, but also the empty list, lists that do not start with a MoveTo, consecutive
    ClosePaths, ClosePath followed by a drawing element"""
    g = lambda: (writer_float(rng), writer_float(rng))
    mk = lambda k: (k,) + tuple(g() for _ in range({'M': 1, 'L': 1, 'Q': 2, 'C': 3, 'Z': 0}[k]))
    r = rng.random()
    if r < 0.03:
        return []
    if r < 0.13:      # no initial MoveTo
        return [mk(rng.choice('LQCZ'))] + [mk(rng.choice('MLQCZ')) for _ in range(rng.randint(0, 4))]
    els = [mk('M')]
    for _ in range(rng.randint(0, 9)):
        k = rng.choice('LLQCZZM')
        els.append(mk(k))
        if k == 'Z':
            t = rng.random()
            if t < 0.3:
                els.append(mk('Z'))                 # consecutive ClosePaths
            elif t < 0.6:
                els.append(mk(rng.choice('LQC')))   # ClosePath followed by a drawing element
            elif t < 0.8:
                els.append(mk('M'))
    return els


WRITER_FIXED = [
    [], [('M', (0.0, -0.0))], [('Z',)], [('L', (1.0, 2.0))], [('M', (1.0, 2.0)), ('Z',), ('Z',)], [('M', (1.0, 2.0)), ('L', (3.0, 4.0)), ('Z',), ('L', (5.0, 6.0))],
    [('M', (1e300, 1e-300)), ('L', (-1e300, -1e-300))], [('M', (5e-324, -5e-324)), ('Q', (2.2250738585072014e-308, 2.225073858507201e-308), (1.7976931348623157e308, -1.7976931348623157e308))],
    [('M', (1.0, 2.0)), ('M', (3.0, 4.0)), ('C', (0.1, 0.2), (0.30000000000000004, 1e21), (1e22, 123456789.125)), ('Z',), ('M', (0.0, 0.0))],
    [('M', (1.0, 2.0)), ('Z',), ('Q', (1.0, 1.0), (2.0, 2.0)), ('Z',), ('C', (1.0, 1.0), (2.0, 2.0), (3.0, 3.0))], [('Q', (1.0, 1.0), (2.0, 2.0)), ('M', (1.0, 1.0))],
]


def _generate(rng, tier):
    # (b) exhaustive small alphabet, each prefixed by a valid start so that deeper states are reached as well
    maxlen = 3 if tier == 'quick' else 4
    for n in range(0, maxlen + 1):
        for tup in itertools.product(ALPHA18, repeat=n):
            s = ''.join(tup)
            yield parse_corr(hx(s), f'exhaustive-len{n}')
            if n >= 1 and n <= (2 if tier == 'quick' else 3):
                yield parse_corr(hx('M1 2' + s), f'exhaustive-after-move-len{n}')
                yield parse_corr(hx('M0 0Q1 1 2 0' + s), f'exhaustive-after-quad-len{n}')
    m = 400 if tier == 'quick' else 20000
    for _ in range(m):
        cmds = rnd_cmds(rng)
        texts = [render(rng, cmds) for _ in range(4)]
        yield spellings(texts)
        # one mutation of a valid string
        t = texts[0]
        if t:
            k = rng.randrange(len(t))
            mut = rng.choice([t[:k] + rng.choice(FULL) + t[k:], t[:k] + t[k + 1:], t[:k] + rng.choice(FULL + 'xyzé∞') + t[k + 1:], t[:k]])
            yield parse_corr(hx(mut), 'mutated-valid')
        # noise over the full alphabet
        yield parse_corr(hx(''.join(rng.choice(FULL) for _ in range(rng.randint(1, 64)))), 'alphabet-noise')
        yield parse_corr(hx('M' + ''.join(rng.choice(FULL) for _ in range(rng.randint(1, 40)))), 'alphabet-noise-after-M')
        # numbers at the edge of the f64 range
        yield parse_corr(hx('M' + rng.choice(['1e308', '1e309', '-1e400', '4.9e-324', '2e-324', '1e-400', '0.000000000000000000000000000000000000001', '179769313486231580793728971405303415079934132710037826936173778980444968292764750946649017977587207096330286416692887910946555547851940402630657488671505820681908902000708383676273854845817711531764475730270069855571366959622842914819860834936475292719074168444365510704342711559699508093042880177904174497791.9999999999999999999999', '9007199254740993', '0.1e-0', '1e+5', '.5e1', '5.e1']) + ' 0'), 'number-range')
        # (c) round trip
        els = [('M', (special_float(rng), special_float(rng)))]
        for _ in range(rng.randint(0, 8)):
            k = rng.choice('LLQCZM')
            ar = {'M': 1, 'L': 1, 'Q': 2, 'C': 3, 'Z': 0}[k]
            els.append((k,) + tuple((special_float(rng), special_float(rng)) for _ in range(ar)))
        yield roundtrip(els)
        # (d) arcs
        g = lambda: rng.uniform(-50, 50)
        yield svg_arc([g(), g()], [g(), g()], [10.0 ** rng.uniform(-3, 3), 10.0 ** rng.uniform(-3, 3)], rng.uniform(-7, 7), rng.randint(0, 1), rng.randint(0, 1))
        # arcs whose end points nearly coincide (chord 1e-9 .. 1e-3 of the radius, but not equal): with the large-arc flag almost a full ellipse
        f0 = [g(), g()] if rng.random() < 0.5 else [rng.randint(-8, 8) / 4.0, rng.randint(-8, 8) / 4.0]
        rr = 10.0 ** rng.uniform(-2.5, 2)
        dl, da = rr * 10.0 ** rng.uniform(-9, -3), rng.uniform(0, 2 * math.pi)
        t0 = [f0[0] + dl * math.cos(da), f0[1] + dl * math.sin(da)]
        if t0 != f0:
            yield svg_arc(f0, t0, [rr, rr * rng.choice([1.0, rng.uniform(0.3, 3)])], rng.uniform(-7, 7), rng.randint(0, 1), rng.randint(0, 1))
    for s in ['m1 1 +2 3', 'M0 0Q1 1 2 0S4 1 5 0', 'M0 0C1 1 2 1 3 0T6 0', 'M0 0L1 0ZT2 2', 'M1 1 Z 2 2', 'M 100 100 A 25 25 0 1 0 -25 25 z', 'M3.5 8a.5.5 0 01.5-.5h8a.5.5 0 010 1H4a.5.5 0 01-.5-.5z',
              'L1 1', 'M', 'M1', 'M1,', 'M1 2 X', 'M1 2 L', 'M1 2 L3', 'M1e 2', 'M1e+ 2', 'M. 2', 'M-. 2', 'M1 2 é', '', '   ', ',', 'M1 2,', 'M1 2 , 3 4', 'z', 'Z1 2']:
        yield parse_corr(hx(s), 'hand-picked')
    # writer stratum (C16W) – kept last so that the cases above are the same as before for a given seed
    for els in WRITER_FIXED:
        yield writer(els)
    for _ in range(600 if tier == 'quick' else 20000):
        yield writer(writer_els(rng))


def svg_text_of(line):
    toks = line.split()
    if toks and toks[0] == 'svg.parse' and len(toks) > 1 and toks[1].startswith('x'):
        try:
            return bytes.fromhex(toks[1][1:]).decode('utf-8', 'replace')
        except ValueError:
            return None
    return None


def arc_with_huge_number(text):
    """an arc command together with a numeral beyond the supported coordinate range (|x| > 1e15): Arc::append_iter would be asked for ~(r/0.1)^(1/6)
    pieces per radian with r ~ the coordinate (1e50 -> 1e8 pieces, gigabytes): outside the domain, never generated (DESIGN.md 11.4)"""
    import re
    if text is None or not re.search('[aA]', text):
        return False
    for m in re.finditer(r'[-+]?(?:\d+\.?\d*|\.\d+)(?:[eE][-+]?\d+)?', text):
        try:
            if abs(float(m.group(0))) > 1e15:
                return True
        except (ValueError, OverflowError):
            return True
    return False


def generate(rng, tier):
    for c in _generate(rng, tier):
        if any(arc_with_huge_number(svg_text_of(l)) for l in c.lines):
            continue
        yield c
