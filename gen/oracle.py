"""Exact-arithmetic oracles (python Fractions): polynomials, Sturm root isolation, Bernstein sign certificates,
Bezier evaluation, exact point-segment distances.  Used to FIND and CONFIRM failing inputs and to certify single instances;
they are executable decision procedures, not theorems (DESIGN.md section 7.5)."""
from fractions import Fraction as Fr
import math


# ---------------------------------------------------------------- polynomials: list of coefficients, lowest degree first

def ptrim(p):
    p = list(p)
    while p and p[-1] == 0:
        p.pop()
    return p


def padd(p, q):
    n = max(len(p), len(q))
    return ptrim([(p[i] if i < len(p) else 0) + (q[i] if i < len(q) else 0) for i in range(n)])


def pscale(p, c):
    return ptrim([c * a for a in p])


def pmul(p, q):
    if not p or not q:
        return []
    r = [Fr(0)] * (len(p) + len(q) - 1)
    for i, a in enumerate(p):
        for j, b in enumerate(q):
            r[i + j] += a * b
    return ptrim(r)


def peval(p, x):
    r = Fr(0)
    for a in reversed(p):
        r = r * x + a
    return r


def pderiv(p):
    return ptrim([i * a for i, a in enumerate(p)][1:])


def pdivmod(p, q):
    p = ptrim(p)
    q = ptrim(q)
    out = [Fr(0)] * max(0, len(p) - len(q) + 1)
    while len(p) >= len(q) and p:
        c = p[-1] / q[-1]
        k = len(p) - len(q)
        out[k] = c
        for i, b in enumerate(q):
            p[i + k] -= c * b
        p = ptrim(p[:-1]) if p and p[-1] == 0 else ptrim(p)
    return ptrim(out), p


def pgcd(p, q):
    p, q = ptrim(p), ptrim(q)
    while q:
        p, q = q, pdivmod(p, q)[1]
    return pscale(p, 1 / p[-1]) if p else p


def from_roots(roots, lead=Fr(1)):
    p = [Fr(lead)]
    for r in roots:
        p = pmul(p, [-Fr(r), Fr(1)])
    return p


def squarefree(p):
    p = ptrim(p)
    if len(p) <= 1:
        return p
    g = pgcd(p, pderiv(p))
    return pdivmod(p, g)[0] if len(g) > 1 else p


def sturm_chain(p):
    p = squarefree(p)
    ch = [p, pderiv(p)]
    while ch[-1]:
        r = pdivmod(ch[-2], ch[-1])[1]
        ch.append(pscale(r, -1))
    ch.pop()
    return ch


def sign(x):
    return (x > 0) - (x < 0)


def variations(ch, x):
    s = [sign(peval(q, x)) for q in ch]
    s = [v for v in s if v != 0]
    return sum(1 for a, b in zip(s, s[1:]) if a != b)


def count_roots(p, a, b, ch=None):
    """number of distinct real roots in (a, b]"""
    ch = ch or sturm_chain(p)
    if not ch or len(ch[0]) <= 1:
        return 0
    return variations(ch, a) - variations(ch, b)


def cauchy_bound(p):
    p = ptrim(p)
    return 1 + max(abs(a / p[-1]) for a in p[:-1]) if len(p) > 1 else Fr(1)


def to_int_poly(p):
    """scale a rational polynomial to integer coefficients (same roots): Sturm chains stay small"""
    p = ptrim([Fr(c) for c in p])
    if not p:
        return p
    from math import gcd
    den = 1
    for c in p:
        den = den * c.denominator // gcd(den, c.denominator)
    q = [int(c * den) for c in p]
    g = 0
    for c in q:
        g = gcd(g, abs(c))
    return [Fr(c // g) for c in q] if g else p


def isolate_roots(p, a=None, b=None, width=Fr(1, 2 ** 60), rel=None):
    """isolating intervals (lo, hi] of the distinct real roots of p in (a, b]; each narrower than `width`, or (if `rel`
    is given) narrower than rel * max(|lo|,|hi|)"""
    p = to_int_poly(p)
    if len(p) <= 1:
        return []
    ch = sturm_chain(p)
    if a is None:
        B = cauchy_bound(p)
        a, b = -B, B
    a, b = Fr(a), Fr(b)
    out = []
    stack = [(a, b, variations(ch, a), variations(ch, b))]
    while stack:
        lo, hi, vlo, vhi = stack.pop()
        n = vlo - vhi
        if n == 0:
            continue
        if n == 1 and (hi - lo <= width or (rel is not None and lo * hi > 0 and hi - lo <= rel * max(abs(lo), abs(hi)))):
            out.append((lo, hi))
            continue
        mid = (lo + hi) / 2
        if mid.denominator > 2 ** 40 and mid.denominator & (mid.denominator - 1):
            mid = Fr(round(mid * 2 ** 40), 2 ** 40) if abs(mid) > Fr(1, 2 ** 30) else mid
            if not (lo < mid < hi):
                mid = (lo + hi) / 2
        vm = variations(ch, mid)
        stack.append((lo, mid, vlo, vm))
        stack.append((mid, hi, vm, vhi))
    return sorted(out)


# ---------------------------------------------------------------- Bezier segments in exact arithmetic

def bez_poly(ctrl):
    """coordinate polynomial (power basis) of a Bezier curve with scalar control values ctrl"""
    n = len(ctrl) - 1
    res = []
    for k in range(n + 1):
        p = pmul(pmul([Fr(math.comb(n, k))], ppow([Fr(0), Fr(1)], k)), ppow([Fr(1), Fr(-1)], n - k))
        res = padd(res, pscale(p, Fr(ctrl[k])))
    return res


def ppow(p, k):
    r = [Fr(1)]
    for _ in range(k):
        r = pmul(r, p)
    return r


def seg_polys(pts):
    """pts: list of (x, y) control points (2, 3 or 4) -> (px, py)"""
    return bez_poly([Fr(p[0]) for p in pts]), bez_poly([Fr(p[1]) for p in pts])


def dist2_point_seg_exact(q, a, b):
    """exact squared distance from point q to the straight segment ab (Fractions)"""
    qx, qy, ax, ay, bx, by = map(Fr, (q[0], q[1], a[0], a[1], b[0], b[1]))
    dx, dy = bx - ax, by - ay
    dd = dx * dx + dy * dy
    if dd == 0:
        return (qx - ax) ** 2 + (qy - ay) ** 2
    t = ((qx - ax) * dx + (qy - ay) * dy) / dd
    t = max(Fr(0), min(Fr(1), t))
    return (qx - ax - t * dx) ** 2 + (qy - ay - t * dy) ** 2


def min_dist2_point_curve(q, pts, width=Fr(1, 2 ** 50)):
    """rational enclosure-free estimate: minimum over end points and isolated critical points (midpoints of isolating
    intervals of width `width`) of |c(t)-q|^2 on [0,1]; returns (d2, t)"""
    px, py = seg_polys(pts)
    fx, fy = padd(px, [-Fr(q[0])]), padd(py, [-Fr(q[1])])
    d2 = padd(pmul(fx, fx), pmul(fy, fy))
    cands = [Fr(0), Fr(1)]
    dd = pderiv(d2)
    if dd:
        for lo, hi in isolate_roots(dd, Fr(0), Fr(1), width):
            cands.append((lo + hi) / 2)
    best = min(cands, key=lambda t: peval(d2, t))
    return peval(d2, best), best


# ---------------------------------------------------------------- Bernstein certificates

def to_bernstein(p, n=None):
    """power basis on [0,1] -> Bernstein coefficients of degree n"""
    p = ptrim(p)
    n = n if n is not None else max(0, len(p) - 1)
    b = []
    for i in range(n + 1):
        s = Fr(0)
        for k in range(min(i, len(p) - 1) + 1):
            s += Fr(math.comb(i, k), math.comb(n, k)) * p[k]
        b.append(s)
    return b


def bern_split(b):
    """de Casteljau split at 1/2 -> (left, right)"""
    n = len(b)
    left, right = [], []
    cur = list(b)
    for _ in range(n):
        left.append(cur[0])
        right.append(cur[-1])
        cur = [(x + y) / 2 for x, y in zip(cur, cur[1:])]
    return left, right[::-1]


def certify_nonpos(p, depth=12):
    """decide p <= 0 on [0,1]: returns ('yes', None) | ('no', t_witness) | ('inconclusive', None)"""
    n = max(0, len(ptrim(p)) - 1)
    stack = [(to_bernstein(p, n), Fr(0), Fr(1), 0)]
    inconclusive = False
    while stack:
        b, lo, hi, d = stack.pop()
        if all(c <= 0 for c in b):
            continue
        if all(c > 0 for c in b):
            return 'no', (lo + hi) / 2
        if b[0] > 0:
            return 'no', lo
        if b[-1] > 0:
            return 'no', hi
        if d >= depth:
            inconclusive = True
            continue
        l, r = bern_split(b)
        mid = (lo + hi) / 2
        stack.append((l, lo, mid, d + 1))
        stack.append((r, mid, hi, d + 1))
    return ('inconclusive', None) if inconclusive else ('yes', None)


# ---------------------------------------------------------------- paths in exact arithmetic

def path_segments(els):
    """els: list of ('M',(x,y)) ('L',(x,y)) ('Q',(x,y),(x,y)) ('C',..) ('Z',) -> list of control-point lists (kurbo's
    Segments semantics: ClosePath adds the closing line iff last != start)"""
    segs = []
    start = last = None
    for el in els:
        k = el[0]
        if k == 'M':
            start = last = el[1]
        elif k == 'Z':
            if last != start:
                segs.append([last, start])
            last = start
        else:
            if last is None:
                start = last = el[-1]
            segs.append([last] + list(el[1:]))
            last = el[-1]
    return segs


def coord_range_exact(p):
    """(min, max) of polynomial p on [0,1] as floats (critical points isolated exactly, evaluated exactly)"""
    cands = [Fr(0), Fr(1)]
    d = pderiv(p)
    if d:
        for lo, hi in isolate_roots(d, Fr(0), Fr(1), Fr(1, 2 ** 70)):
            cands.append((lo + hi) / 2)
    vals = [peval(p, t) for t in cands]
    return min(vals), max(vals)


def winding_exact(els, q, eta):
    """topological winding number (kurbo's sign convention) of the closed path `els` about the point q, computed on the
    generic row y = q.y + eta (legitimate when q is farther than eta from the path).  Returns None if the row is not generic."""
    qx, qy = Fr(q[0]), Fr(q[1]) + Fr(eta)
    w = 0
    for pts in path_segments(els):
        px, py = seg_polys(pts)
        f = padd(py, [-qy])
        if not f:
            return None          # horizontal segment exactly on the row
        if peval(f, Fr(0)) == 0 or peval(f, Fr(1)) == 0:
            return None
        df = pderiv(f)
        for lo, hi in isolate_roots(f, Fr(0), Fr(1), Fr(1, 2 ** 70)):
            t = (lo + hi) / 2
            dy = peval(df, t) if df else Fr(0)
            if dy == 0:
                # tangential touch or derivative sign unclear at the midpoint: decide by the end values of f on the interval
                s = sign(peval(f, hi)) - sign(peval(f, lo))
                if s == 0:
                    continue
                dy = s
            x = peval(px, t)
            if x < qx:
                w += -1 if dy > 0 else 1
    return w


def dist2_point_path_lower_bound(els, q):
    """min over segments of the (approximately exact) squared distance from q to the segment"""
    best = None
    for pts in path_segments(els):
        if len(pts) == 2:
            d = dist2_point_seg_exact(q, pts[0], pts[1])
        else:
            d, _ = min_dist2_point_curve(q, pts, Fr(1, 2 ** 40))
        best = d if best is None or d < best else best
    return best
