"""C17 – cubic-to-quadratic conversion stays within its accuracy."""
from .common import *
from . import oracle as O
from fractions import Fraction as Fr

RULE = ('cubics with loops, cusps, collinear and degenerate control polygons, large third differences (grid k/4 and generic doubles, scales 1e-3..1e3) x '
        'accuracies 1e-6..10; batches of 1-5 cubics. Oracle (exact over Q): for every piece a Bernstein sign certificate that '
        '|quad_i(s) - cubic(t_i + s*dt)|^2 <= accuracy^2 on [0,1]; parameter ranges tile [0,1] bit-exactly; end points on the cubic; splines start/end at '
        'the cubic end points (bit-exact) and have equal point counts within a batch. Implementation also compared with the Float instantiation of '
        'the Lean model (piece count exact, points to 1e-12 of scale). non-trivial = distinct (cubic, accuracy)')
KERNEL_DEPS = [r'CubicBez\.(eval|subsegment|subdivide|subdivide_3|parameters|from_parameters|approx_quad_control|deriv)', r'Vec2\.(div_exact|hypot2|lerp)',
               r'Point\.(lerp|midpoint)',
               r'K2:Line\.crossing_point']
UNPROVED = ['float rounding of the piece-count formula ceil(powf(x, 1/6)) at exact integer boundaries (compared)']
ASSUMPTIONS = ['error bound theorem is over the reals; the per-instance certificates are exact rational computations']
MAKERS = {}
HEAVY_JUDGE = True


def compose(p, t0, dt):
    """p(t0 + s*dt) as a polynomial in s"""
    res = []
    lin = [Fr(t0), Fr(dt)]
    for a in reversed(p):
        res = O.padd(O.pmul(res, lin), [a])
    return res


def piece_within(quad_pts, cubic_pts, t0, t1, acc, slack=1e-13):
    qx, qy = O.seg_polys(quad_pts)
    cx, cy = O.seg_polys(cubic_pts)
    ex = O.padd(qx, O.pscale(compose(cx, t0, Fr(t1) - Fr(t0)), -1))
    ey = O.padd(qy, O.pscale(compose(cy, t0, Fr(t1) - Fr(t0)), -1))
    sc = max(1.0, max(abs(c) for p in cubic_pts for c in p))
    bound = (Fr(acc) * Fr(1 + 1e-6)) ** 2 + Fr(slack * sc) ** 2
    g = O.padd(O.padd(O.pmul(ex, ex), O.pmul(ey, ey)), [-bound])
    return O.certify_nonpos(g)


def pts_of(vals):
    return [(vals[i], vals[i + 1]) for i in range(0, len(vals), 2)]


@maker(MAKERS)
def to_quads(vals, acc, stratum):
    line = f'cubic.to_quads {H(*vals)} {H(acc)}'
    cub = pts_of(vals)
    sc = max(1.0, max(abs(v) for v in vals))

    def judge(o):
        i, f = o['I'][0], o['F'][0]
        if engine_error(i):
            return 'engine error ' + i
        parts = i.split(' | ')
        n = int(parts[0])
        if n != len(parts) - 1 or n < 1:
            return f'piece count {n} inconsistent'
        prev_t1 = None
        for k, part in enumerate(parts[1:]):
            t = part.split()
            fl = [h2f(x) for x in t]
            t0, t1 = fl[0], fl[1]
            if k == 0 and t0 != 0.0:
                return f'first range does not start at 0: {t0}'
            if prev_t1 is not None and t[0] != prev_bits:
                return f'ranges do not tile: {prev_t1} then {t0}'
            prev_t1, prev_bits = t1, t[1]
            q = pts_of(fl[2:])
            res, wit = piece_within(q, cub, t0, t1, acc)
            if res == 'no':
                return f'piece {k}/{n} leaves the accuracy {acc} at s={float(wit)}'
            # end points on the cubic
            cx, cy = O.seg_polys(cub)
            for tt, pnt in ((t0, q[0]), (t1, q[2])):
                if abs(float(O.peval(cx, Fr(tt))) - pnt[0]) > 1e-12 * sc or abs(float(O.peval(cy, Fr(tt))) - pnt[1]) > 1e-12 * sc:
                    return f'end point of piece {k} not on the cubic'
        if prev_t1 != 1.0:
            return f'last range does not end at 1: {prev_t1}'
        if engine_error(f):
            return 'engine error (model) ' + f
        if i.split(' | ')[0] != f.split(' | ')[0]:
            return f'CORR piece count impl={i.split(" | ")[0]} model={f.split(" | ")[0]}'
        if not cmp_rel(i.replace(' | ', ' '), f.replace(' | ', ' '), 1e-12, sc):
            return f'CORR impl != model@Float impl={i} model={f}'
        return None
    return Case(line, 'IF', judge, stratum, 'oracle')


def spline_quads(pts):
    """QuadSpline::to_quads semantics"""
    n = len(pts)
    out = []
    for idx in range(n - 2):
        p0, p1, p2 = pts[idx], pts[idx + 1], pts[idx + 2]
        if idx != 0:
            p0 = ((Fr(p0[0]) + Fr(p1[0])) / 2, (Fr(p0[1]) + Fr(p1[1])) / 2)
        if idx + 2 < n - 1:
            p2 = ((Fr(p1[0]) + Fr(p2[0])) / 2, (Fr(p1[1]) + Fr(p2[1])) / 2)
        out.append([p0, p1, p2])
    return out


def check_spline(pts, cub, acc):
    if (pts[0][0], pts[0][1]) != tuple(cub[0]) or (pts[-1][0], pts[-1][1]) != tuple(cub[3]):
        return f'spline does not start/end at the end points of the cubic: {pts[0]} {pts[-1]}'
    qs = spline_quads(pts)
    n = len(qs)
    for k, q in enumerate(qs):
        res, wit = piece_within(q, cub, Fr(k, n), Fr(k + 1, n), acc, slack=1e-9)
        if res == 'no':
            return f'spline quad {k}/{n} leaves the accuracy {acc} at s={float(wit)}'
    return None


@maker(MAKERS)
def approx_spline(vals, acc, stratum):
    line = f'cubic.approx_spline {H(*vals)} {H(acc)}'
    cub = pts_of(vals)
    sc = max(1.0, max(abs(v) for v in vals))

    def judge(o):
        i, f = o['I'][0], o['F'][0]
        if engine_error(i):
            return 'engine error ' + i
        if i != 'none':
            fl = floats_of(' '.join(i.split()[1:]))
            v = check_spline(pts_of(fl), cub, acc)
            if v:
                return v
        if (i == 'none') != (f == 'none') or (i != 'none' and (i.split()[0] != f.split()[0] or not cmp_rel(i, f, 1e-11, sc))):
            return f'CORR impl != model@Float impl={i} model={f}'
        return None
    return Case(line, 'IF', judge, stratum, 'oracle')


@maker(MAKERS)
def to_splines(cubics, acc):
    line = f'cubics.to_splines {H(acc)} {len(cubics)} ' + ' '.join(H(*c) for c in cubics)

    def judge(o):
        i, f = o['I'][0], o['F'][0]
        if engine_error(i):
            return 'engine error ' + i
        if i != 'none':
            sps = [floats_of(' '.join(part.split()[1:])) for part in i.split(' | ')]
            if len(sps) != len(cubics):
                return f'{len(sps)} splines for {len(cubics)} cubics'
            if len({len(s) for s in sps}) != 1:
                return f'splines of one call have different numbers of control points: {[len(s) // 2 for s in sps]}'
            for s, c in zip(sps, cubics):
                v = check_spline(pts_of(s), pts_of(c), acc)
                if v:
                    return v
        if (i == 'none') != (f == 'none'):
            return f'CORR impl != model@Float impl={i[:60]} model={f[:60]}'
        return None
    return Case(line, 'IF', judge, 'batch', 'oracle')


@maker(MAKERS)
def spline_to_quads(pts):
    return case_exact_R(f'spline.to_quads {len(pts) // 2} {H(*pts)}', 'quadspline')


def rnd_cubic(rng):
    r = rng.random()
    sc = 10.0 ** rng.choice([0, 0, 0, 1, 2, 3, -1, -3])
    if r < 0.3:
        v = [rng.randint(-40, 40) / 4.0 for _ in range(8)]
    elif r < 0.4:     # collinear / degenerate
        a, b = rng.uniform(-5, 5), rng.uniform(-5, 5)
        ts = [rng.uniform(-1, 2) for _ in range(4)]
        v = [c for t in ts for c in (a * t, b * t)]
    elif r < 0.5:     # cusp / loop: crossed control polygon
        v = [0.0, 0.0, 10.0, 10.0 * rng.uniform(0.2, 2), 0.0 + rng.uniform(-1, 1), 10.0, 10.0, 0.0]
    elif r < 0.55:    # repeated points
        p = [rng.uniform(-5, 5) for _ in range(4)]
        v = [p[0], p[1], p[0], p[1], p[2], p[3], p[2], p[3]]
    else:
        v = [rng.uniform(-10, 10) for _ in range(8)]
    return [x * sc for x in v], sc


def generate(rng, tier):
    n = 150 if tier == 'quick' else 6000
    for _ in range(n):
        v, sc = rnd_cubic(rng)
        acc = sc * 10.0 ** rng.uniform(-6, 1)
        yield to_quads(v, acc, 'to_quads')
        yield approx_spline(v, acc * rng.choice([1.0, 10.0, 100.0]), 'approx_spline')
        k = rng.randint(1, 5)
        batch = [rnd_cubic(rng)[0] for _ in range(k)]
        bsc = max(1.0, max(abs(x) for c in batch for x in c))
        yield to_splines(batch, bsc * 10.0 ** rng.uniform(-3, 0))
        if _ % 40 == 0:
            # many pieces: font-unit sized cubics at the smallest accuracy of the quantifier (several hundred to ~1600 quadratics)
            big = [rng.uniform(-1, 1) * 10.0 ** rng.uniform(2.5, 4) for _k in range(8)]
            yield to_quads(big, 10.0 ** rng.uniform(-6, -5), 'to_quads-many-pieces')
        m = rng.randint(0, 7)
        yield spline_to_quads([rng.randint(-40, 40) / 4.0 for _ in range(2 * m)])
