"""C14 – core algorithms terminate with finite results on every finite input."""
from .common import *
import itertools

RULE = ('paths/segments built from a small point alphabet with exact degeneracies (repeated points, zero-length and collinear segments, A,B,A,B and '
        'p0,B,B,B cubics, cusps, loops, coincident control points; distinct points bit-identical or >= 1e-6 extent apart; coordinates up to 1e6) x '
        'flatten / stroke (every join x cap x dashed-undashed, widths 0.05..10, tol 1e-3..1; offsetting of degenerate cubics is exercised through the stroker, which regularises them) / dash / fit (subdivide and optimised; single degenerate segments as sources) / simplify (whole degenerate paths, both levels) / '
        'nearest / arclen / inv_arclen / winding / to_quads / solvers; tiny closed quadratics/cubics (end points coincident or 1e-9 apart, control arms zero, 1e-9..2e-6 or ordinary) x stroke (undashed) / simplify / flatten; SVG: every string over the 18-symbol alphabet to length 3 (quick) / 4 and random strings '
        'to 64 bytes. Required on the implementation (built with the add-only work counters, --cfg kurbo_verif): no panic, only finite numbers, work '
        'counter <= budget (1e7 loop iterations; a loop exceeding 2e7 is aborted by the hook and reported). The SVG part is additionally a theorem '
        '(from_svg_total: the model parser, bit-identical to the crate, never reaches the panic state). non-trivial = distinct op line')
KERNEL_DEPS = []
HOOKS = True
UNPROVED = ['NaN/inf freedom and bounded recursion of fit_to_bezpath_rec / fit_to_bezpath_opt / stroke on curves: their termination USES floating-point '
            'granularity (t == start || t == end); in a lawful field the recursion need not end. Decided by budgeted replay only']
ASSUMPTIONS = ['work counters at the heads of the loops named in the property (hook commit in /repo, guard kurbo_verif)']
MAKERS = {}
BUDGET = 10_000_000


def finite_out(s):
    for t in s.split():
        if t == 'nan':
            return False
        if is_hex(t):
            f = h2f(t)
            if math.isinf(f) or math.isnan(f):
                return False
    return True


def svg_has_huge_number(hexstr):
    import re
    try:
        txt = bytes.fromhex(hexstr[1:]).decode('utf-8', 'replace')
    except ValueError:
        return False
    for m in re.finditer(r'[-+]?(?:\d+\.?\d*|\.\d+)(?:[eE][-+]?\d+)?', txt):
        try:
            if abs(float(m.group(0))) > 1e15:
                return True
        except (ValueError, OverflowError):
            return True
    return False


@maker(MAKERS)
def total(line, stratum):
    """no panic, finite output, bounded work"""
    def judge(o):
        i = o['I'][0]
        if i == 'DIED-SKIPPED':
            return None       # not run: the engine had already died 12 times in this run (each of those is reported)
        if i.startswith('PANIC') or i == 'DIED':
            return f'panic / abort / no answer within the stall limit: {i[:160]}'
        if engine_error(i):
            return 'engine error ' + i
        if not finite_out(i):
            if line.startswith('svg.parse') and svg_has_huge_number(line.split()[1]):
                return None      # a numeral beyond the supported coordinate range (|x| > 1e15, e.g. 1e999): outside the domain, see DESIGN.md 11
            return f'non-finite output: {i[:200]}'
        if ' | ' in i:
            w = i.split(' | ')[0].split()[0]
            if w.isdigit() and int(w) > BUDGET:
                return f'work counter {w} exceeds the budget {BUDGET}'
        return None
    return Case(line, 'I', judge, stratum, 'oracle')


@maker(MAKERS)
def arclen_work(line, stratum):
    """the cost model arclenRecCalls (theorem arclenRecCalls_le: <= 2^21-1) counts exactly the ticks of the crate's arclen_rec"""
    def judge(o):
        i, f = o['I'][0], o['F'][0]
        if i.startswith('PANIC') or engine_error(i) or engine_error(f):
            return f'panic / engine error: {i[:120]} / {f[:120]}'
        iw, fw = int(i.split()[1]), int(f.split()[1])
        if iw != fw:
            return f'arclen_rec ran {iw} times in the crate, the cost model says {fw}'
        if iw > 2 ** 21 - 1:
            return f'arclen_rec ran {iw} times, more than 2^21-1'
        return None
    return Case(line, 'IF', judge, stratum, 'corr-F')


def agm_pass_bound(acc, rx, ry):
    """`agmPassBound` of Proofs/Lemmas/C11ELoop.lean: max(1, ceil(log2(ceil(c0^2 / (acc' g0))))) for the radii |rx|, |ry| (exact rationals)"""
    from fractions import Fraction as Fr
    x, y = max(abs(rx), abs(ry)), min(abs(rx), abs(ry))
    g0 = Fr(y) / Fr(x)
    accp = Fr(acc) / (2 * Fr(math.pi) * Fr(x))
    q = (1 - g0 * g0) / (accp * g0)
    c = -((-q.numerator) // q.denominator)      # ceil
    return max(1, (c - 1).bit_length() if c > 1 else 0)


@maker(MAKERS)
def ellperim_work(cx, cy, rx, ry, rot, acc, stratum):
    """the loop of agm_elliptic_perimeter: the crate's work counter == the pass count of the Float model (and the values are bit-identical),
    and both stay within the proved bound of exact arithmetic (theorem ellipse_perimeter_bounded_work; + 1 pass for binary64 rounding
    and for the rounding of the radii in Affine::svd)"""
    line = f'ellipse.perimeter_work {H(cx, cy, rx, ry, rot, acc)}'

    def judge(o):
        i, f = o['I'][0], o['F'][0]
        if i.startswith('PANIC') or engine_error(i) or engine_error(f):
            return f'panic / engine error: {i[:120]} / {f[:120]}'
        if i.split() != f.split() and not cmp_exact(i, f):
            return f'CORR ellipse perimeter: crate (value, passes) = {i}, Float model = {f}'
        n = int(i.split()[1])
        if min(abs(rx), abs(ry)) > 0:
            bound = agm_pass_bound(acc, rx, ry)
            if n > bound + 1:
                return f'agm_elliptic_perimeter made {n} passes, the bound of exact arithmetic is {bound}'
        elif n != 0:
            return f'degenerate ellipse but {n} passes of the loop'
        if not finite_out(i.split()[0]):
            return f'non-finite perimeter {i}'
        return None
    return Case(line, 'IF', judge, stratum, 'corr-F')


def els_str(els):
    return ' '.join(el[0] + (' ' + ' '.join(H(*p) for p in el[1:]) if len(el) > 1 else '') for el in els)


def degenerate_paths(rng, n):
    for _ in range(n):
        sc = rng.choice([1.0, 1.0, 1e-3, 1e3, 1e6])
        A = (rng.randint(-8, 8) * sc / 2, rng.randint(-8, 8) * sc / 2)
        B = (A[0] + rng.choice([1.0, -2.5, 4.0]) * sc, A[1] + rng.choice([0.0, 1.5, -3.0]) * sc)
        Cc = (A[0] + rng.choice([2.0, -1.0]) * sc, A[1] + rng.choice([3.0, -2.0, 0.0]) * sc)
        pts = [A, B, Cc]
        r = rng.random()
        els = [('M', A)]
        if r < 0.15:
            els.append(('C', B, A, B))               # A,B,A,B
        elif r < 0.3:
            els.append(('C', B, B, B))               # p0,B,B,B
        elif r < 0.4:
            els.append(('C', A, A, A))               # point
        elif r < 0.5:
            els.append(('C', B, B, A))               # out and back
        elif r < 0.6:
            els += [('L', A), ('L', B), ('L', B), ('L', A)]
        elif r < 0.7:
            t = [rng.uniform(-1, 2) for _ in range(3)]
            els.append(('C',) + tuple((A[0] + (B[0] - A[0]) * x, A[1] + (B[1] - A[1]) * x) for x in t))   # collinear
        elif r < 0.8:
            els.append(('Q', B, A))
        else:
            for _ in range(rng.randint(1, 5)):
                k = rng.choice('LQCZ')
                ar = {'L': 1, 'Q': 2, 'C': 3, 'Z': 0}[k]
                els.append((k,) + tuple(rng.choice(pts) for _ in range(ar)))
        if rng.random() < 0.3:
            els.append(('Z',))
        yield els, sc


def lattice_paths(rng, n):
    """paths whose points come from a 5 x 5 lattice (one third of them on the diagonal, one third repeating an earlier point): repeated points, zero-length
    and collinear segments, cusps and loops arise by construction; scale 1e-2 .. 1e5, offset 0 .. 5e5; stroked with widths from 1/100 of the cell to
    1000 (wider than the whole path), all joins / caps, half of them dashed.  (Port of the generator with which an independent agent found NaN outlines
    on the unchanged tree, see known_findings.json.)"""
    for _ in range(n):
        scale = rng.choice([1e-2, 1.0, 100.0, 1e5])
        off = rng.choice([0.0, 0.0, 1000.0, 5e5])
        pts = []

        def pt():
            if pts and rng.randrange(3) == 0:
                return rng.choice(pts)
            x = rng.randrange(5)
            y = x if rng.randrange(3) == 0 else rng.randrange(5)
            p = (off + scale * x, off + scale * y)
            pts.append(p)
            return p
        els = [('M', pt())]
        for _ in range(1 + rng.randrange(4)):
            k = rng.randrange(4)
            els.append(('L', pt()) if k == 0 else ('Q', pt(), pt()) if k == 1 else ('C', pt(), pt(), pt()))
        if rng.randrange(3) == 0:
            els.append(('Z',))
        tol = rng.choice([1e-3, 1e-2, 0.1, 1.0])
        width = rng.choice([1e-2, 0.5, 2.0, 30.0, 1000.0])
        pat, doff = [], 0.0
        if rng.randrange(2) == 0:
            d = rng.choice([0.5, 1.0, 3.0, 7.0]) * max(scale, 0.1)
            pat, doff = [d, d * 0.5], rng.choice([0.0, 1.0, 2.5])
        yield els, tol, width, rng.randrange(3), rng.randrange(3), pat, doff


def generate(rng, tier):
    for els, tol, width, join, cap, pat, doff in lattice_paths(rng, 400 if tier == 'quick' else 20000):
        s = els_str(els)
        yield total(f'path.stroke {H(width)} {join} {cap} {H(4.0)} {H(doff)} {len(pat)} {H(*pat)} {H(tol)} {s}'.replace('  ', ' '), 'stroke-lattice')
        if rng.random() < 0.25:
            yield total(f'path.flatten {H(tol)} {s}', 'flatten-lattice')
            yield total(f'path.simplify {H(tol)} {rng.randint(0, 1)} {s}', 'simplify-lattice')
    # straight cubics with coincident control points at GENERIC coordinates (A,B,B,B / A,A,A,B / A,A,B,B / A,B,B,A): the derivative has a multiple
    # root at an end, which rounding splits; the cusp handling of the stroker must not turn that into a zero-length piece
    for k in range(90 if tier == 'quick' else 3000):
        A = (rng.uniform(-30, 30), rng.uniform(-30, 30))
        B = (rng.uniform(-30, 30), rng.uniform(-30, 30))
        pat4 = [(B, B, B), (A, A, B), (A, B, B), (B, B, A)][k % 4 if k % 3 else 0]
        s4 = f'M {H(*A)} C {H(*pat4[0])} {H(*pat4[1])} {H(*pat4[2])}'
        dashed = k % 5 == 0
        pat = [rng.choice([10.0, 5.0, 50.0, 25.0])] * 2 if dashed else []
        yield total(f'path.stroke {H(rng.choice([0.5, 2.0, 10.0]))} {k % 3} {(k // 3) % 3} {H(4.0)} {H(0.0)} {len(pat)} {H(*pat)} {H(rng.choice([1e-3, 1e-2, 0.1]))} {s4}'.replace('  ', ' '), 'stroke-coincident-control-points')
    n = 80 if tier == 'quick' else 4000
    for els, sc in degenerate_paths(rng, n):
        s = els_str(els)
        tol = sc * 10.0 ** rng.uniform(-3, 0)
        yield total(f'path.flatten {H(tol)} {s}', 'flatten')
        for join in (0, 1, 2):
            cap = rng.randint(0, 2)
            w = sc * rng.choice([0.05, 1.0, 10.0])
            dashed = rng.random() < 0.5
            pat = [sc * rng.choice([0.5, 1.0, 3.0]) for _ in range(rng.randint(1, 3))] if dashed else []
            yield total(f'path.stroke {H(w)} {join} {cap} {H(rng.choice([1.0, 4.0, 10.0]))} {H(sc * rng.uniform(0, 2))} {len(pat)} {H(*pat)} {H(tol)} {s}'.replace('  ', ' '), f'stroke-join{join}')
        pat = [sc * rng.choice([0.5, 1.0, 3.0]) for _ in range(rng.randint(1, 4))]
        yield total(f'path.dash {H(sc * rng.uniform(0, 3))} {len(pat)} {H(*pat)} {s}', 'dash')
        yield total(f'path.simplify {H(tol)} {rng.randint(0, 1)} {s}', 'simplify')
        if sum(e[0] in 'LQC' for e in els) == 1 and els[-1][0] != 'Z':
            # a fit SOURCE must be one smooth curve (ParamCurveFit sources report their corners through break_cusp; SimplifyBezPath does not,
            # simplify_bezpath splits at corners first): whole paths with corners go through path.simplify above, single segments through path.fit
            yield total(f'path.fit {H(tol)} {rng.randint(0, 1)} {s}', 'fit')
        yield total(f'path.winding {H(els[0][1][0] + 0.37 * sc, els[0][1][1] - 0.21 * sc)} {s}', 'winding')
        yield total(f'path.bbox {s}', 'bbox')
        yield total(f'path.perimeter {H(tol * 1e-3)} {s}', 'perimeter')
        # segment-level ops on the first curve
        for el in els[1:]:
            if el[0] in 'QC':
                seg = f'{el[0]} {H(*els[0][1])} ' + ' '.join(H(*p) for p in el[1:])
                yield total(f'seg.nearest {seg} {H(els[0][1][0] + sc, els[0][1][1] + sc)} {H(tol * 1e-3)}', 'nearest')
                yield total(f'work.probe {seg} {H(tol * 1e-3)}', 'arclen-inv')
                yield total(f'seg.extrema {seg}', 'extrema')
                if el[0] == 'C':
                    c = f'{H(*els[0][1])} ' + ' '.join(H(*p) for p in el[1:])
                    yield arclen_work(f'cubic.arclen_work {c} {H(tol * 10.0 ** rng.uniform(-9, -2))}', 'arclen-work')
                    yield total(f'cubic.to_quads {c} {H(tol)}', 'to_quads')
                    yield total(f'cubic.approx_spline {c} {H(tol)}', 'approx_spline')
                break
        a = rng.choice([1.0, 1e-3, 1e3])
        yield total(f'ellipse.perimeter {H(0.0, 0.0)} {H(a, a * 10.0 ** rng.uniform(-4, 4))} {H(rng.uniform(-3, 3))} {H(10.0 ** rng.uniform(-10, 0))}', 'ellipse-perimeter')
    for _ in range(n // 2):
        sc = rng.choice([1.0, 1e-3, 1e3])
        c = ' '.join(H(rng.uniform(-5, 5) * sc, rng.uniform(-5, 5) * sc) for _ in range(4))
        yield arclen_work(f'cubic.arclen_work {c} {H(sc * 10.0 ** rng.uniform(-12, -3))}', 'arclen-work')
    # every coincidence pattern of the control points of one cubic / quadratic over three points (A = start): 27 + 9 patterns, each stroked (dashed and
    # undashed), flattened, measured and simplified
    for sc in (1.0, 1e3):
        A, B, Cc = (1.0 * sc, 1.0 * sc), (11.0 * sc, 6.0 * sc), (3.0 * sc, -4.0 * sc)
        pats = [('C',) + t for t in itertools.product((A, B, Cc), repeat=3)] + [('Q',) + t for t in itertools.product((A, B, Cc), repeat=2)]
        for k, el in enumerate(pats):
            sp = f'M {H(*A)} ' + el[0] + ' ' + ' '.join(H(*q) for q in el[1:])
            tolp = sc * rng.choice([1e-3, 1e-2, 0.1])
            for dashed in (False, True):
                patd = [sc * 2.0, sc * 0.7] if dashed else []
                yield total(f'path.stroke {H(2.0 * sc)} {k % 3} {(k // 3) % 3} {H(4.0)} {H(0.3 * sc)} {len(patd)} {H(*patd)} {H(tolp)} {sp}'.replace('  ', ' '), 'stroke-coincidence-patterns')
            yield total(f'path.flatten {H(tolp)} {sp}', 'coincidence-patterns')
            yield total(f'path.simplify {H(tolp)} {k % 2} {sp} L {H(*Cc)}', 'coincidence-patterns')
            yield total(f'path.perimeter {H(tolp * 1e-3)} {sp}', 'coincidence-patterns')
            seg = f'{el[0]} {H(*A)} ' + ' '.join(H(*q) for q in el[1:])
            yield total(f'seg.nearest {seg} {H(2.0 * sc, 2.0 * sc)} {H(tolp * 1e-3)}', 'coincidence-patterns')
            yield total(f'work.probe {seg} {H(tolp * 1e-3)}', 'coincidence-patterns')
    # shapes of moderate extent far from the origin, fine absolute tolerances and widths (coordinates ~1e6 are inside the quantifier, and so are
    # tolerances of 1e-3): retracted handles, coincident control points, collinear stretches
    for _ in range(n):
        o = (rng.choice([9e5, -7e5, 3e5]), rng.choice([9e5, 5e5, -8e5]))
        ext = 10.0 ** rng.uniform(1, 4)
        q = [(o[0] + rng.randint(-8, 8) * ext / 8, o[1] + rng.randint(-8, 8) * ext / 8) for _k in range(4)]
        kind = rng.randrange(6)
        if kind == 0:
            body = f'C {H(*q[1])} {H(*q[2])} {H(*q[2])}'          # p2 == p3
        elif kind == 1:
            body = f'C {H(*q[0])} {H(*q[1])} {H(*q[2])}'          # p1 == p0
        elif kind == 2:
            body = f'C {H(*q[1])} {H(*q[1])} {H(*q[1])}'          # p0,B,B,B
        elif kind == 3:
            body = f'Q {H(*q[1])} {H(*q[1])} L {H(*q[2])} C {H(*q[2])} {H(*q[3])} {H(*q[3])}'
        elif kind == 4:
            body = f'C {H(*q[1])} {H(*q[2])} {H(*q[3])} Z'
        else:
            body = f'L {H(*q[1])} L {H(*q[1])} Q {H(*q[2])} {H(*q[0])} Z'
        tolf = 10.0 ** rng.uniform(-3, 0)
        wf = rng.choice([0.05, 2.0, 10.0])
        dashed = rng.random() < 0.4
        patf = [rng.choice([0.5, 3.0, 40.0]) for _k in range(rng.randint(1, 3))] if dashed else []
        yield total(f'path.stroke {H(wf)} {rng.randint(0, 2)} {rng.randint(0, 2)} {H(4.0)} {H(rng.uniform(0, 2))} {len(patf)} {H(*patf)} {H(tolf)} M {H(*q[0])} {body}'.replace('  ', ' '), 'stroke-far-from-origin')
        yield total(f'path.flatten {H(tolf)} M {H(*q[0])} {body}', 'flatten-far-from-origin')
        yield total(f'path.simplify {H(tolf)} {rng.randint(0, 1)} M {H(*q[0])} {body}', 'simplify-far-from-origin')
    # wide strokes (0.1 .. 0.5 of the extent) on cubics with a retracted handle at fine tolerance: the offset curve has its cusp at the end of the range
    for _ in range(n):
        ext = 10.0 ** rng.uniform(0, 4.3)
        q = [(rng.uniform(-1, 1) * ext, rng.uniform(-1, 1) * ext) for _k in range(3)]
        body = f'C {H(*q[1])} {H(*q[2])} {H(*q[2])}' if rng.random() < 0.5 else f'C {H(*q[0])} {H(*q[1])} {H(*q[2])}'
        yield total(f'path.stroke {H(ext * rng.uniform(0.1, 0.5))} {rng.randint(0, 2)} {rng.randint(0, 2)} {H(4.0)} {H(0.0)} 0 {H(10.0 ** rng.uniform(-3, -1))} M {H(*q[0])} {body}', 'stroke-wide-retracted')
    # gentle arcs ending in a retracted handle, stroked with a pen of 0.1 .. 0.6 of their extent at fine tolerance (any scale and orientation): the offset
    # curve has a cusp exactly at the end of the parameter range, which the fitter's recursion must recognise
    base = [(10000.0, -5000.0), (0.0, 5000.0), (-7500.0, 7500.0)]
    for _ in range(2 * n):
        sc_, th_ = 10.0 ** rng.uniform(-3, 0), rng.uniform(0, 2 * math.pi)
        pts_ = [(x * (1 + rng.uniform(-0.3, 0.3)), y * (1 + rng.uniform(-0.3, 0.3))) for x, y in base]
        pts_ = [(sc_ * (math.cos(th_) * x - math.sin(th_) * y), sc_ * (math.sin(th_) * x + math.cos(th_) * y)) for x, y in pts_]
        if rng.random() < 0.5:
            body = f'M {H(*pts_[0])} C {H(*pts_[1])} {H(*pts_[2])} {H(*pts_[2])}'
        else:
            body = f'M {H(*pts_[2])} C {H(*pts_[2])} {H(*pts_[1])} {H(*pts_[0])}'
        yield total(f'path.stroke {H(5000 * sc_ * rng.uniform(0.3, 2.0))} {rng.randint(0, 2)} {rng.randint(0, 2)} {H(4.0)} {H(0.0)} 0 {H(10.0 ** rng.uniform(-4, -1))} {body}', 'stroke-wide-retracted-arc')
    # smooth paths through a closed-loop cubic (start point = end point) with G1 neighbours: the optimised fitter's error is not monotone there
    for _ in range(n):
        p0 = (rng.uniform(-5, 5), rng.uniform(-5, 5))
        a = (p0[0] + rng.uniform(-6, 6), p0[1] + rng.uniform(-6, 6))
        b = (p0[0] + rng.uniform(-6, 6), p0[1] + rng.uniform(-6, 6))
        t = (p0[0] - b[0], p0[1] - b[1])
        sc1 = rng.uniform(0.2, 2)
        c1 = (p0[0] + sc1 * t[0], p0[1] + sc1 * t[1])
        c2, e = (rng.uniform(-8, 8), rng.uniform(-8, 8)), (rng.uniform(-8, 8), rng.uniform(-8, 8))
        pre, start = '', p0
        if rng.random() < 0.5:
            ta = (a[0] - p0[0], a[1] - p0[1])
            sc2 = rng.uniform(0.2, 2)
            start = (rng.uniform(-8, 8), rng.uniform(-8, 8))
            q1, q2 = (rng.uniform(-8, 8), rng.uniform(-8, 8)), (p0[0] - sc2 * ta[0], p0[1] - sc2 * ta[1])
            pre = f'C {H(*q1)} {H(*q2)} {H(*p0)} '
        path = f'M {H(*start)} {pre}C {H(*a)} {H(*b)} {H(*p0)} C {H(*c1)} {H(*c2)} {H(*e)}'
        yield total(f'path.simplify {H(10.0 ** rng.uniform(-3, 0))} {rng.randint(0, 1)} {path}', 'simplify-smooth-loop')
    # tiny closed curves: end points coincide (or are 1e-9 apart), control arms zero / 1e-9 .. 2e-6 (at or below the EPS = 1e-12 threshold of
    # PathSeg::tangents on the squared length) / ordinary.  tangents must give the stroker a non-zero direction unless all points coincide
    # (fix "stroking a curve whose end points coincide and whose control points are within 1e-6 of them gives NaN"); undashed, every join x cap
    from .c18 import tiny_closed_segment
    for k in range(n * 3):
        kind, pts = tiny_closed_segment(rng)
        body = f'{kind} ' + ' '.join(H(*q) for q in pts[1:])
        lead = rng.choice(['', '', f'L {H(pts[0][0] + 1.0, pts[0][1])} L {H(*pts[0])} '])
        tail_ = rng.choice(['', '', f' L {H(pts[-1][0], pts[-1][1] + 1.0)}', ' Z'])
        start = pts[0] if not lead else (pts[0][0], pts[0][1] - 1.0)
        path = f'M {H(*start)} {lead}{body}{tail_}'
        w = rng.choice([0.05, 1.0, 2.0, 10.0])
        tolc = 10.0 ** rng.uniform(-3, 0)
        yield total(f'path.stroke {H(w)} {k % 3} {(k // 3) % 3} {H(4.0)} {H(0.0)} 0 {H(tolc)} {path}', 'stroke-tiny-closed')
        if k % 3 == 0:
            yield total(f'path.simplify {H(tolc)} {k % 2} {path}', 'simplify-tiny-closed')
            yield total(f'path.flatten {H(tolc)} {path}', 'flatten-tiny-closed')
    # solvers on degenerate coefficient tuples
    for co in itertools.product([0.0, 1.0, -2.0, 1e-6, 1e6], repeat=3):
        yield total(f'solve.quadratic {H(*co)}', 'solvers')
        yield total(f'solve.cubic {H(*co)} {H(1.0)}', 'solvers')
        yield total(f'solve.quartic {H(*co)} {H(0.5, 1.0)}', 'solvers')
    # SVG
    from .c16 import ALPHA18, FULL, hx
    maxlen = 3 if tier == 'quick' else 4
    for nn in range(0, maxlen + 1):
        for tup in itertools.product(ALPHA18, repeat=nn):
            yield total(f'svg.parse {hx("".join(tup))}', 'svg-exhaustive')
    # every command letter directly followed by numbers / by every other command letter (also where the grammar does not allow it), after a valid start
    letters = 'MmLlHhVvCcSsQqTtAaZz'
    for c1 in letters:
        for tail in ('1 1', '1', '', '1 1 1 1 1 1 1', '-1-1', ' ,1 1'):
            yield total(f'svg.parse {hx("M0 0" + c1 + tail)}', 'svg-command-then-numbers')
            yield total(f'svg.parse {hx("M0 0L2 2" + c1 + tail + "z" + tail)}', 'svg-command-then-numbers')
        for c2 in letters:
            yield total(f'svg.parse {hx("M0 0" + c1 + "1 1 " + c2 + "1 1 2 2")}', 'svg-command-pairs')
    from .c16 import arc_with_huge_number
    for _ in range(n * 4):
        txt = "".join(rng.choice(FULL) for _ in range(rng.randint(1, 64)))
        if arc_with_huge_number(txt):
            continue
        yield total(f'svg.parse {hx(txt)}', 'svg-random')
    for _ in range(n):
        # numbers at the edge of the supported range and relative moves that add up (finite literals <= 1e15 must give finite paths)
        e = rng.choice(['1e15', '-9.9e14', '1e-320', '123456789012345', '0.000000000000001', '1E+15'])
        yield total(f'svg.parse {hx("M" + e + " 0l" + e + " " + e + "c1 1 2 2 " + e + " 0z")}', 'svg-large-numbers')
    # Ellipse::perimeter: passes of the AGM loop against the model and the proved bound (C11E): radii 1e-3..1e4, aspect 1..1e6, accuracy 1e-12..1 x size
    for _ in range(300 if tier == 'quick' else 20000):
        big = 10.0 ** rng.uniform(-3, 4)
        small = big / 10.0 ** rng.uniform(0, 6)
        rx, ry = (big, small) if rng.random() < 0.5 else (small, big)
        rot = rng.choice([0.0, rng.uniform(-4, 4)])
        if rng.random() < 0.05:
            rx, ry = rng.choice([(0.0, ry), (rx, 0.0), (rx, rx)])
            if rx == 0.0 or ry == 0.0:
                # a zero radius is exact only without rotation: with one, Affine::svd may return a NaN minor radius (sqrt of a rounding-negative
                # difference) and perimeter answers NaN - reported with C11E, outside the quantifier of this property (no degenerate shapes in it)
                rot = 0.0
        yield ellperim_work(rng.uniform(-10, 10), rng.uniform(-10, 10), rx, ry, rot, big * 10.0 ** rng.uniform(-12, 0), 'ellipse-perimeter-passes')




# ------------------------------------------------------------------ known finding: the dash defect C13-closed-subpath-inside-first-dash seen through stroke()

def _parse_stroke_line(line):
    """path.stroke W join cap miter offset npat pats... tol ELS  ->  (offset, pattern, els) or None"""
    t = line.split()
    if not t or t[0] != 'path.stroke':
        return None
    try:
        off = h2f(t[5])
        n = int(t[6])
        pat = [h2f(x) for x in t[7:7 + n]]
        rest = t[8 + n:]
        els, i = [], 0
        ar = {'M': 1, 'L': 1, 'Q': 2, 'C': 3, 'Z': 0}
        while i < len(rest):
            k = rest[i]
            pts = [(h2f(rest[i + 1 + 2 * j]), h2f(rest[i + 2 + 2 * j])) for j in range(ar[k])]
            els.append((k,) + tuple(pts))
            i += 1 + 2 * ar[k]
        return off, pat, els
    except (ValueError, IndexError, KeyError):
        return None


def stroke_dash_closed_inside_first(case, outs, verdict):
    """root cause (input only): a DASHED stroke of a path with a closed sub-path that returns to its start by itself and is not longer than the rest of
    the first dash: the dash iterator emits ClosePath before the last segment (known finding C13-closed-subpath-inside-first-dash); the stray piece
    that follows can have coincident end points and a zero tangent, and do_join divides by its length -> NaN in the outline"""
    if 'non-finite' not in verdict:
        return False
    from .c13 import closed_subpath_inside_first_dash
    for ln in case.lines:
        p = _parse_stroke_line(ln)
        if p and p[1] and closed_subpath_inside_first_dash(p[2], p[0], p[1]):
            return True
    return False


KNOWN_CLASSES = {'stroke_dash_closed_inside_first': stroke_dash_closed_inside_first}
