"""C12 – affine maps compose as documented and commute with evaluation."""
from .common import *

RULE = ('affine maps with entries on the dyadic grid k/8 (|k|<256), points/segments on k/8 (|k|<1024), parameters k/8: impl compared '
        'exactly with the exact rational model (products of grid values are exact); inverses and generic doubles compared to a relative '
        'tolerance; the rotate family (libm sin/cos) compared with the Float instantiation of the model to 1e-12 and, on the '
        'implementation output itself, against the documented products self*T / T*self; laws ((A*B)*p = A*(B*p), det multiplicative, '
        'A*inverse(A) = identity, (A*s).eval(t) = A*(s.eval t), TranslateScale == its Affine) evaluated on the implementation output. '
        'non-trivial = distinct op line')
KERNEL_DEPS = [r'Affine\..*', r'TranslateScale\..*',
               r'K2:Affine\.(svd|mul_Ellipse|mul_Arc)', r'K2:Ellipse\.(private_new|center|radii_and_rotation)', r'K2:(rotatePt|sampleEllipse)']
UNPROVED = ['Affine * Arc / Ellipse (SVD based; see C10/C11 and the known finding on arcs)', 'rounding error of products (compared with tolerance)']
ASSUMPTIONS = ['sin/cos are uninterpreted in the theorems (every rotate-family identity is proved for arbitrary values of them)']
MAKERS = {}


def g8(rng):
    return grid(rng, 8, 3)


def gaff(rng):
    r = rng.random()
    if r < 0.7:
        return [g8(rng) for _ in range(6)]
    if r < 0.8:   # singular / degenerate
        a, b = g8(rng), g8(rng)
        return [a, b, 2 * a, 2 * b, g8(rng), g8(rng)]
    if r < 0.9:   # reflections / axis swaps
        return rng.choice([[0.0, 1.0, 1.0, 0.0], [-1.0, 0.0, 0.0, 1.0], [0.0, -1.0, 1.0, 0.0], [1.0, 0.0, 0.0, -1.0]]) + [g8(rng), g8(rng)]
    return [generic(rng, 4) for _ in range(6)]


def is_grid(vals):
    return all(v * 8 == math.floor(v * 8) and abs(v) < 1024 for v in vals)


def amul(a, b):
    return [a[0] * b[0] + a[2] * b[1], a[1] * b[0] + a[3] * b[1], a[0] * b[2] + a[2] * b[3], a[1] * b[2] + a[3] * b[3],
            a[0] * b[4] + a[2] * b[5] + a[4], a[1] * b[4] + a[3] * b[5] + a[5]]


def close(xs, ys, tol):
    return all(abs(x - y) <= tol for x, y in zip(xs, ys))


@maker(MAKERS)
def aff_bin(a, b, p):
    line = f'aff.bin {H(*a)} {H(*b)} {H(*p)}'
    exact = is_grid(a + b + p)
    sc = max([1.0] + [abs(v) for v in a + b + p]) ** 3

    def judge(o):
        i, m = o['I'][0], o['R'][0]
        if engine_error(i, m):
            return f'engine error {i} / {m}'
        if not (cmp_exact(i, m) if exact else cmp_rel(i, m, 1e-13, sc)):
            return f'impl != model@Rat impl={i} model={m}'
        f = floats_of(i)
        abp, a_bp = f[8:10], f[10:12]
        tol = 0.0 if exact else 1e-12 * sc
        if not close(abp, a_bp, tol):
            return f'(A*B)*p != A*(B*p): {abp} vs {a_bp}'
        det_a, det_ab = f[12], f[13]
        det_b = b[0] * b[3] - b[1] * b[2]
        if abs(det_ab - det_a * det_b) > (0.0 if exact else 1e-12 * sc * sc):
            return f'determinant not multiplicative: {det_ab} vs {det_a}*{det_b}'
        return None
    return Case(line, 'IR', judge, 'grid' if exact else 'generic', 'corr-R')


@maker(MAKERS)
def aff_inv(a):
    line = f'aff.inv {H(*a)}'
    det = a[0] * a[3] - a[1] * a[2]
    sc = max([1.0] + [abs(v) for v in a])

    def judge(o):
        i, m = o['I'][0], o['R'][0]
        if engine_error(i, m):
            return f'engine error {i} / {m}'
        if abs(det) < 1e-3 or abs(det) > 1e3:
            return None    # outside the quantifier (|det| in [1e-3, 1e3])
        cond = sc * sc / abs(det)
        if not cmp_rel(i, m, 1e-13 * cond, sc / abs(det) * sc):
            return f'impl != model@Rat impl={i} model={m}'
        f = floats_of(i)
        ident = [1.0, 0.0, 0.0, 1.0, 0.0, 0.0]
        if not close(f[6:12], ident, 1e-11 * cond * sc) or not close(f[12:18], ident, 1e-11 * cond * sc):
            return f'A * inverse(A) is not the identity: {f[6:18]}'
        return None
    return Case(line, 'IR', judge, 'inverse', 'corr-R')


@maker(MAKERS)
def aff_family(a, s, sx, sy, v, c):
    line = f'aff.family {H(*a)} {H(s, sx, sy)} {H(*v)} {H(*c)}'
    exact = is_grid(a + [s, sx, sy] + v + c)
    sc = max([1.0] + [abs(x) for x in a + [s, sx, sy] + v + c]) ** 3

    def judge(o):
        i, m = o['I'][0], o['R'][0]
        if engine_error(i, m):
            return f'engine error {i} / {m}'
        if not (cmp_exact(i, m) if exact else cmp_rel(i, m, 1e-13, sc)):
            return f'impl != model@Rat impl={i} model={m}'
        f = floats_of(i)
        A = [f[6 * k:6 * k + 6] for k in range(12)]
        scale, snu, tr, skew, sab, pre_s, pre_snu, pre_t, then_s, then_snu, then_t, then_sab = A
        tol = 0.0 if exact else 1e-12 * sc
        for name, got, want in [('pre_scale', pre_s, amul(a, scale)), ('pre_scale_non_uniform', pre_snu, amul(a, snu)),
                                ('pre_translate', pre_t, amul(a, tr)), ('then_scale', then_s, amul(scale, a)),
                                ('then_scale_non_uniform', then_snu, amul(snu, a)), ('then_translate', then_t, amul(tr, a)),
                                ('then_scale_about', then_sab, amul(sab, a))]:
            if not close(got, want, tol):
                return f'{name} is not the documented product: {got} vs {want}'
        # scale_about fixes its centre
        fx = [sab[0] * c[0] + sab[2] * c[1] + sab[4], sab[1] * c[0] + sab[3] * c[1] + sab[5]]
        if not close(fx, c, tol):
            return f'scale_about does not fix its centre: {fx} vs {c}'
        return None
    return Case(line, 'IR', judge, 'grid' if exact else 'generic', 'corr-R')


@maker(MAKERS)
def aff_rot(a, th, c):
    line = f'aff.rot {H(*a)} {H(th)} {H(*c)}'
    sc = max([1.0] + [abs(x) for x in a + c]) ** 2

    def judge(o):
        i, m = o['I'][0], o['F'][0]
        if engine_error(i, m):
            return f'engine error {i} / {m}'
        if not cmp_rel(i, m, 1e-12, sc):
            return f'impl != model@Float impl={i} model={m}'
        f = floats_of(i)
        rot, rab, pre_r, pre_rab, then_r, then_rab = (f[6 * k:6 * k + 6] for k in range(6))
        tol = 1e-11 * sc
        for name, got, want in [('pre_rotate', pre_r, amul(a, rot)), ('pre_rotate_about', pre_rab, amul(a, rab)),
                                ('then_rotate', then_r, amul(rot, a)), ('then_rotate_about', then_rab, amul(rab, a))]:
            if not close(got, want, tol):
                return f'{name} is not the documented product: {got} vs {want}'
        fx = [rab[0] * c[0] + rab[2] * c[1] + rab[4], rab[1] * c[0] + rab[3] * c[1] + rab[5]]
        if not close(fx, c, tol):
            return f'rotate_about does not fix its centre: {fx} vs {c}'
        if abs(rot[0] * rot[3] - rot[1] * rot[2] - 1.0) > 1e-12:
            return f'rotation has determinant != 1'
        return None
    return Case(line, 'IF', judge, 'rotate', 'corr-F')


@maker(MAKERS)
def aff_reflect(p, d):
    line = f'aff.reflect {H(*p)} {H(*d)}'
    sc = max([1.0] + [abs(x) for x in p + d])

    def judge(o):
        i, m = o['I'][0], o['F'][0]
        if engine_error(i, m):
            return f'engine error {i} / {m}'
        if not cmp_rel(i, m, 1e-12, sc):
            return f'impl != model@Float impl={i} model={m}'
        r = floats_of(i)
        # fixes every point of its axis p + s d, and maps p + n to p - n
        for s in (0.0, 1.0, -2.5):
            q = [p[0] + s * d[0], p[1] + s * d[1]]
            img = [r[0] * q[0] + r[2] * q[1] + r[4], r[1] * q[0] + r[3] * q[1] + r[5]]
            if not close(img, q, 1e-10 * sc * sc):
                return f'reflect does not fix its axis: {img} vs {q}'
        n = [d[1], -d[0]]
        q = [p[0] + n[0], p[1] + n[1]]
        img = [r[0] * q[0] + r[2] * q[1] + r[4], r[1] * q[0] + r[3] * q[1] + r[5]]
        if not close(img, [p[0] - n[0], p[1] - n[1]], 1e-10 * sc * sc):
            return f'reflect does not mirror the normal'
        return None
    return Case(line, 'IF', judge, 'reflect', 'corr-F')


@maker(MAKERS)
def aff_seg(a, kind, vals, t):
    line = f'aff.seg {H(*a)} {kind} {H(*vals)} {H(t)}'
    exact = is_grid(a + vals) and t * 8 == math.floor(t * 8)
    sc = max([1.0] + [abs(x) for x in a]) * max([1.0] + [abs(x) for x in vals]) * 4

    def judge(o):
        i, m = o['I'][0], o['R'][0]
        if engine_error(i, m):
            return f'engine error {i} / {m}'
        if not (cmp_exact(i, m) if exact else cmp_rel(i, m, 1e-13, sc)):
            return f'impl != model@Rat impl={i} model={m}'
        f = floats_of(i)
        if not close(f[-4:-2], f[-2:], 0.0 if exact else 1e-12 * sc):
            return f'(A*s).eval(t) != A*(s.eval(t)): {f[-4:]}'
        return None
    return Case(line, 'IR', judge, 'grid' if exact else 'generic', 'corr-R')


@maker(MAKERS)
def ts_bin(a, b, p):
    line = f'ts.bin {H(*a)} {H(*b)} {H(*p)}'
    exact = is_grid(a + b + p)
    sc = max([1.0] + [abs(x) for x in a + b + p]) ** 2

    def judge(o):
        i, m = o['I'][0], o['R'][0]
        if engine_error(i, m):
            return f'engine error {i} / {m}'
        f = floats_of(i)
        # fields: ts(a*b) 3, a*p 2, affine 6, inverse 3, affine*p 2, from_scale_about 3, add 3, sub 3
        # the inverse involves a division: compare that part to tolerance
        ok = cmp_rel(i, m, 1e-13, sc / max(1e-3, min(1.0, abs(a[2])))) if (not exact or True) else cmp_exact(i, m)
        if a[2] != 0 and not ok:
            return f'impl != model@Rat impl={i} model={m}'
        if not close(f[3:5], f[14:16], 0.0 if exact else 1e-12 * sc):
            return f'TranslateScale * p != Affine::from(ts) * p: {f[3:5]} vs {f[14:16]}'
        return None
    return Case(line, 'IR', judge, 'grid' if exact else 'generic', 'corr-R')


@maker(MAKERS)
def ts_scalar(k, a):
    """k * TranslateScale: exact against the model, and its affine form equals k * Affine::from(ts) (every coefficient scaled)"""
    line = f'ts.scalar {H(k)} {H(*a)}'

    def judge(o):
        i, m = o['I'][0], o['R'][0]
        if engine_error(i, m):
            return f'engine error {i} / {m}'
        if not cmp_exact(i, m):
            return f'impl != model@Rat impl={i} model={m}'
        f = floats_of(i)
        # the linear part and the translation of (k*ts) as an affine map vs k * affine(ts): c0, c3, c4, c5 (k * ts scales the translation and the scale)
        if not close([f[3], f[6], f[7], f[8]], [f[9], f[12], f[13], f[14]], 0.0):
            return f'(k * ts) as Affine != k * Affine::from(ts): {f[3:9]} vs {f[9:15]}'
        return None
    return Case(line, 'IR', judge, 'grid', 'corr-R')


@maker(MAKERS)
def exact_line(line, stratum):
    return case_exact_R(line, stratum)


# ------------------------------------------------------------------ images of circles / ellipses / arcs (the SVD-based Mul impls)

def _flat(els, n=24):
    """dense polyline of an outline: list of points"""
    pts = []
    last = None
    for el in els:
        if el[0] == 'M':
            last = el[1]
            pts.append(last)
        elif el[0] == 'Z':
            continue
        else:
            ctrl = [last] + list(el[1:])
            for i in range(1, n + 1):
                t = i / n
                ps = ctrl
                while len(ps) > 1:
                    ps = [(a[0] + (b[0] - a[0]) * t, a[1] + (b[1] - a[1]) * t) for a, b in zip(ps, ps[1:])]
                pts.append(ps[0])
            last = el[-1]
    return pts


def _dist_to_polyline(q, pts):
    best = float('inf')
    for a, b in zip(pts, pts[1:]):
        dx, dy = b[0] - a[0], b[1] - a[1]
        dd = dx * dx + dy * dy
        t = 0.0 if dd == 0 else min(1.0, max(0.0, ((q[0] - a[0]) * dx + (q[1] - a[1]) * dy) / dd))
        best = min(best, math.hypot(q[0] - a[0] - t * dx, q[1] - a[1] - t * dy))
    if len(pts) == 1:
        best = math.hypot(q[0] - pts[0][0], q[1] - pts[0][1])
    return best


@maker(MAKERS)
def shape_image(a, kind, params, tol, stratum):
    """Affine * (circle | ellipse | arc): the outline of the image shape vs the image of the outline (both from the implementation):
    same point set (two-sided distance), same start and end point, same direction of traversal"""
    from .shapes_common import parse_els
    line = f'shape.affine {H(*a)} {kind} {H(*params)} {H(tol)}'
    norm = math.hypot(a[0], a[1]) + math.hypot(a[2], a[3])

    def judge(o):
        i = o['I'][0]
        if engine_error(i):
            return 'engine error ' + i[:120]
        img_s, map_s = i.split(' | ')
        img, mp = parse_els(img_s), parse_els(map_s)
        if not img or not mp or len(mp) < 2:
            return None if (not img or len(img) < 2) and (not mp or len(mp) < 2) else f'one of the outlines is empty: image {len(img or [])} elements, mapped {len(mp or [])}'
        if len(img) < 2:
            return f'image outline is empty but the mapped outline has {len(mp)} elements'
        fi, fm = _flat(img), _flat(mp)
        ext = max(1.0, max(abs(c) for p in fm for c in p))
        # the outlines are produced at a tolerance far below the threshold, so that outline accuracy (property C10) is not what is measured here
        thr = 50.0 * tol * (1.0 + norm) + 1e-9 * ext
        for q in fi[::3]:
            d = _dist_to_polyline(q, fm)
            if d > thr:
                return f'point {q} of the image shape\'s outline is {d:.3g} away from the image of the outline (allowed {thr:.3g})'
        for q in fm[::3]:
            d = _dist_to_polyline(q, fi)
            if d > thr:
                return f'image point {q} of the outline is {d:.3g} away from the image shape\'s outline (allowed {thr:.3g})'
        if kind == 'arc':
            for nm, pa, pb in (('start', fi[0], fm[0]), ('end', fi[-1], fm[-1])):
                d = math.hypot(pa[0] - pb[0], pa[1] - pb[1])
                if d > thr:
                    return f'{nm} point of the image arc {pa} differs from the image of the {nm} point {pb} by {d:.3g}'
            # direction of traversal: a point shortly after the start
            k = max(1, len(fi) // 12)
            qa = fi[k]
            # arc-length position of the nearest point on the mapped polyline must also be near its start (not near its end)
            dists = [math.hypot(qa[0] - p[0], qa[1] - p[1]) for p in fm]
            j = dists.index(min(dists))
            if len(fm) > 8 and j > len(fm) * 0.6 and math.hypot(fm[0][0] - fm[-1][0], fm[0][1] - fm[-1][1]) > thr:
                return 'the image arc is traversed against the image direction'
        f = o['F'][0]
        if engine_error(f):
            return 'CORR engine error (model) ' + f[:100]
        fimg = parse_els(f.split(' | ')[0])
        if [e[0] for e in fimg] != [e[0] for e in img]:
            return f'CORR structure of the image outline: impl {"".join(e[0] for e in img)} model {"".join(e[0] for e in fimg)}'
        for ea, eb in zip(img, fimg):
            for pa, pb in zip(ea[1:], eb[1:]):
                if abs(pa[0] - pb[0]) > 1e-7 * ext or abs(pa[1] - pb[1]) > 1e-7 * ext:
                    return f'CORR impl != model@Float on the image outline: {ea} vs {eb}'
        return None
    return Case(line, 'IF', judge, stratum, 'oracle')


def gen_shape_images(rng, n):
    for _ in range(n):
        r = rng.random()
        if r < 0.25:
            th = rng.uniform(-7, 7)
            s = rng.choice([1.0, 0.5, 3.0])
            a = [s * math.cos(th), s * math.sin(th), -s * math.sin(th), s * math.cos(th), rng.uniform(-5, 5), rng.uniform(-5, 5)]
            st = 'rotation'
        elif r < 0.45:
            a = rng.choice([[0.0, 1.0, 1.0, 0.0], [-1.0, 0.0, 0.0, 1.0], [1.0, 0.0, 0.0, -1.0], [0.6, 0.8, 0.8, -0.6]]) + [rng.uniform(-5, 5), rng.uniform(-5, 5)]
            st = 'reflection'
        elif r < 0.5:
            a = [1.0, 0.0, 0.0, 1.0, 0.0, 0.0]
            st = 'identity'
        elif r < 0.6:
            # exactly diagonal maps: uniform and non-uniform scales of either sign (a negative uniform scale is a half turn)
            sx = rng.choice([-2.0, -1.0, -0.5, 0.5, 3.0])
            sy = sx if rng.random() < 0.6 else rng.choice([-2.0, -1.0, 0.5, 3.0])
            a = [sx, 0.0, 0.0, sy, rng.uniform(-5, 5), rng.uniform(-5, 5)]
            st = 'diagonal'
        else:
            while True:
                a = [rng.uniform(-3, 3) for _ in range(6)]
                det = a[0] * a[3] - a[1] * a[2]
                if 1e-3 <= abs(det) <= 1e3 and abs(det) > 0.05:
                    break
            st = 'generic-det' + ('+' if det > 0 else '-')
        kind = rng.choice(['circle', 'ellipse', 'ellipse', 'arc', 'arc', 'arc'])
        c = [rng.uniform(-5, 5), rng.uniform(-5, 5)]
        if kind == 'circle':
            params = c + [rng.uniform(0.5, 5)]
        elif kind == 'ellipse':
            params = c + [rng.uniform(0.5, 5), rng.uniform(0.5, 5), rng.uniform(-7, 7)]
        else:
            sweep = rng.choice([rng.uniform(0.3, 6.0), -rng.uniform(0.3, 6.0), math.pi / 2, -math.pi])
            # arc: center radii start sweep x_rotation
            params = c + [rng.uniform(0.5, 5), rng.uniform(0.5, 5), rng.uniform(-7, 7), sweep, rng.choice([0.0, rng.uniform(-7, 7)])]
        yield shape_image(a, kind, params, 1e-5, f'image-{kind}/{st}')


def generate(rng, tier):
    n = 600 if tier == 'quick' else 30000
    yield from gen_shape_images(rng, 300 if tier == 'quick' else 6000)
    for _ in range(n):
        a, b = gaff(rng), gaff(rng)
        p = [grid(rng), grid(rng)]
        yield aff_bin(a, b, p)
        yield aff_inv(a)
        yield aff_family(a, g8(rng), g8(rng), g8(rng), [g8(rng), g8(rng)], [g8(rng), g8(rng)])
        th = rng.choice([0.0, math.pi / 2, math.pi, -math.pi / 2, rng.uniform(-7, 7), rng.uniform(-7, 7)])
        yield aff_rot(a, th, [g8(rng), g8(rng)])
        d = [g8(rng), g8(rng)]
        if d != [0.0, 0.0]:
            yield aff_reflect([g8(rng), g8(rng)], d)
        kind = rng.choice('LQC')
        vals = [grid(rng) for _ in range({'L': 4, 'Q': 6, 'C': 8}[kind])]
        yield aff_seg(a, kind, vals, rng.randint(0, 8) / 8.0)
        yield aff_seg([generic(rng, 3) for _ in range(6)], kind, [generic(rng) for _ in vals], rng.random())
        ga = [g8(rng) for _ in range(6)]
        yield exact_line(f'aff.rect {H(*ga)} {H(*[g8(rng) for _ in range(4)])}', 'grid')
        yield exact_line(f'aff.els {H(*ga)} M {H(g8(rng), g8(rng))} L {H(g8(rng), g8(rng))} Q {H(*[g8(rng) for _ in range(4)])} C {H(*[g8(rng) for _ in range(6)])} Z', 'grid')
        ta = [g8(rng), g8(rng), rng.choice([1.0, 2.0, 0.5, -1.0, 0.25, 4.0, -0.5, g8(rng)])]
        tb = [g8(rng), g8(rng), rng.choice([1.0, 2.0, 0.5, -1.0, 0.25, 4.0, g8(rng)])]
        yield ts_bin(ta, tb, [g8(rng), g8(rng)])
        # compound assignment must equal the binary operator (exact on the grid)
        yield exact_line(f'assign.maps {H(*ga)} {H(*[g8(rng) for _ in range(6)])} {H(*ta)} {H(*tb)} {H(g8(rng), g8(rng))}', 'assign-ops')
        yield exact_line(f'assign.vecs {H(*[g8(rng) for _ in range(6)])} {H(rng.choice([0.5, 2.0, -4.0, 0.25, 8.0]))} {H(*[g8(rng) for _ in range(4)])}', 'assign-ops')
        yield ts_scalar(rng.choice([0.5, 2.0, -1.0, 3.0, 0.25, g8(rng)]), ta)
        tpow = [g8(rng), g8(rng), rng.choice([1.0, 2.0, 0.5, -1.0, 0.25, 4.0, -2.0])]
        yield exact_line(f'ts.shapes {H(*tpow)} {H(*[g8(rng) for _ in range(4 + 4 + 6 + 8)])}', 'grid')
