"""C12 – affine maps compose as documented and commute with evaluation."""
from .common import *

RULE = ('affine maps with entries on the dyadic grid k/8 (|k|<256), points/segments on k/8 (|k|<1024), parameters k/8: impl compared '
        'exactly with the exact rational model (products of grid values are exact); inverses and generic doubles compared to a relative '
        'tolerance; the rotate family (libm sin/cos) compared with the Float instantiation of the model to 1e-12 and, on the '
        'implementation output itself, against the documented products self*T / T*self; laws ((A*B)*p = A*(B*p), det multiplicative, '
        'A*inverse(A) = identity, (A*s).eval(t) = A*(s.eval t), TranslateScale == its Affine) evaluated on the implementation output. '
        'non-trivial = distinct op line')
KERNEL_DEPS = [r'Affine\..*', r'TranslateScale\..*']
UNPROVED = ['Affine * Arc / Ellipse (SVD based; see C10/C11 and the known finding on arcs)', 'rounding error of products (compared with tolerance)']
ASSUMPTIONS = ['sin/cos are uninterpreted in the theorems (every rotate-family identity is proved for arbitrary values of them)']
MAKERS = {}


def g8(rng):
    return grid(rng, 8, 3)


def gaff(rng):
    r = rng.random()
    if r < 0.7:
        return [g8(rng) for _ in range(6)]
    if r < 0.8:   # singular / degenerate
        a, b = g8(rng), g8(rng)
        return [a, b, 2 * a, 2 * b, g8(rng), g8(rng)]
    if r < 0.9:   # reflections / axis swaps
        return rng.choice([[0.0, 1.0, 1.0, 0.0], [-1.0, 0.0, 0.0, 1.0], [0.0, -1.0, 1.0, 0.0], [1.0, 0.0, 0.0, -1.0]]) + [g8(rng), g8(rng)]
    return [generic(rng, 4) for _ in range(6)]


def is_grid(vals):
    return all(v * 8 == math.floor(v * 8) and abs(v) < 1024 for v in vals)


def amul(a, b):
    return [a[0] * b[0] + a[2] * b[1], a[1] * b[0] + a[3] * b[1], a[0] * b[2] + a[2] * b[3], a[1] * b[2] + a[3] * b[3],
            a[0] * b[4] + a[2] * b[5] + a[4], a[1] * b[4] + a[3] * b[5] + a[5]]


def close(xs, ys, tol):
    return all(abs(x - y) <= tol for x, y in zip(xs, ys))


@maker(MAKERS)
def aff_bin(a, b, p):
    line = f'aff.bin {H(*a)} {H(*b)} {H(*p)}'
    exact = is_grid(a + b + p)
    sc = max([1.0] + [abs(v) for v in a + b + p]) ** 3

    def judge(o):
        i, m = o['I'][0], o['R'][0]
        if engine_error(i, m):
            return f'engine error {i} / {m}'
        if not (cmp_exact(i, m) if exact else cmp_rel(i, m, 1e-13, sc)):
            return f'impl != model@Rat impl={i} model={m}'
        f = floats_of(i)
        abp, a_bp = f[8:10], f[10:12]
        tol = 0.0 if exact else 1e-12 * sc
        if not close(abp, a_bp, tol):
            return f'(A*B)*p != A*(B*p): {abp} vs {a_bp}'
        det_a, det_ab = f[12], f[13]
        det_b = b[0] * b[3] - b[1] * b[2]
        if abs(det_ab - det_a * det_b) > (0.0 if exact else 1e-12 * sc * sc):
            return f'determinant not multiplicative: {det_ab} vs {det_a}*{det_b}'
        return None
    return Case(line, 'IR', judge, 'grid' if exact else 'generic', 'corr-R')


@maker(MAKERS)
def aff_inv(a):
    line = f'aff.inv {H(*a)}'
    det = a[0] * a[3] - a[1] * a[2]
    sc = max([1.0] + [abs(v) for v in a])

    def judge(o):
        i, m = o['I'][0], o['R'][0]
        if engine_error(i, m):
            return f'engine error {i} / {m}'
        if abs(det) < 1e-3 or abs(det) > 1e3:
            return None    # outside the quantifier (|det| in [1e-3, 1e3])
        cond = sc * sc / abs(det)
        if not cmp_rel(i, m, 1e-13 * cond, sc / abs(det) * sc):
            return f'impl != model@Rat impl={i} model={m}'
        f = floats_of(i)
        ident = [1.0, 0.0, 0.0, 1.0, 0.0, 0.0]
        if not close(f[6:12], ident, 1e-11 * cond * sc) or not close(f[12:18], ident, 1e-11 * cond * sc):
            return f'A * inverse(A) is not the identity: {f[6:18]}'
        return None
    return Case(line, 'IR', judge, 'inverse', 'corr-R')


@maker(MAKERS)
def aff_family(a, s, sx, sy, v, c):
    line = f'aff.family {H(*a)} {H(s, sx, sy)} {H(*v)} {H(*c)}'
    exact = is_grid(a + [s, sx, sy] + v + c)
    sc = max([1.0] + [abs(x) for x in a + [s, sx, sy] + v + c]) ** 3

    def judge(o):
        i, m = o['I'][0], o['R'][0]
        if engine_error(i, m):
            return f'engine error {i} / {m}'
        if not (cmp_exact(i, m) if exact else cmp_rel(i, m, 1e-13, sc)):
            return f'impl != model@Rat impl={i} model={m}'
        f = floats_of(i)
        A = [f[6 * k:6 * k + 6] for k in range(12)]
        scale, snu, tr, skew, sab, pre_s, pre_snu, pre_t, then_s, then_snu, then_t, then_sab = A
        tol = 0.0 if exact else 1e-12 * sc
        for name, got, want in [('pre_scale', pre_s, amul(a, scale)), ('pre_scale_non_uniform', pre_snu, amul(a, snu)),
                                ('pre_translate', pre_t, amul(a, tr)), ('then_scale', then_s, amul(scale, a)),
                                ('then_scale_non_uniform', then_snu, amul(snu, a)), ('then_translate', then_t, amul(tr, a)),
                                ('then_scale_about', then_sab, amul(sab, a))]:
            if not close(got, want, tol):
                return f'{name} is not the documented product: {got} vs {want}'
        # scale_about fixes its centre
        fx = [sab[0] * c[0] + sab[2] * c[1] + sab[4], sab[1] * c[0] + sab[3] * c[1] + sab[5]]
        if not close(fx, c, tol):
            return f'scale_about does not fix its centre: {fx} vs {c}'
        return None
    return Case(line, 'IR', judge, 'grid' if exact else 'generic', 'corr-R')


@maker(MAKERS)
def aff_rot(a, th, c):
    line = f'aff.rot {H(*a)} {H(th)} {H(*c)}'
    sc = max([1.0] + [abs(x) for x in a + c]) ** 2

    def judge(o):
        i, m = o['I'][0], o['F'][0]
        if engine_error(i, m):
            return f'engine error {i} / {m}'
        if not cmp_rel(i, m, 1e-12, sc):
            return f'impl != model@Float impl={i} model={m}'
        f = floats_of(i)
        rot, rab, pre_r, pre_rab, then_r, then_rab = (f[6 * k:6 * k + 6] for k in range(6))
        tol = 1e-11 * sc
        for name, got, want in [('pre_rotate', pre_r, amul(a, rot)), ('pre_rotate_about', pre_rab, amul(a, rab)),
                                ('then_rotate', then_r, amul(rot, a)), ('then_rotate_about', then_rab, amul(rab, a))]:
            if not close(got, want, tol):
                return f'{name} is not the documented product: {got} vs {want}'
        fx = [rab[0] * c[0] + rab[2] * c[1] + rab[4], rab[1] * c[0] + rab[3] * c[1] + rab[5]]
        if not close(fx, c, tol):
            return f'rotate_about does not fix its centre: {fx} vs {c}'
        if abs(rot[0] * rot[3] - rot[1] * rot[2] - 1.0) > 1e-12:
            return f'rotation has determinant != 1'
        return None
    return Case(line, 'IF', judge, 'rotate', 'corr-F')


@maker(MAKERS)
def aff_reflect(p, d):
    line = f'aff.reflect {H(*p)} {H(*d)}'
    sc = max([1.0] + [abs(x) for x in p + d])

    def judge(o):
        i, m = o['I'][0], o['F'][0]
        if engine_error(i, m):
            return f'engine error {i} / {m}'
        if not cmp_rel(i, m, 1e-12, sc):
            return f'impl != model@Float impl={i} model={m}'
        r = floats_of(i)
        # fixes every point of its axis p + s d, and maps p + n to p - n
        for s in (0.0, 1.0, -2.5):
            q = [p[0] + s * d[0], p[1] + s * d[1]]
            img = [r[0] * q[0] + r[2] * q[1] + r[4], r[1] * q[0] + r[3] * q[1] + r[5]]
            if not close(img, q, 1e-10 * sc * sc):
                return f'reflect does not fix its axis: {img} vs {q}'
        n = [d[1], -d[0]]
        q = [p[0] + n[0], p[1] + n[1]]
        img = [r[0] * q[0] + r[2] * q[1] + r[4], r[1] * q[0] + r[3] * q[1] + r[5]]
        if not close(img, [p[0] - n[0], p[1] - n[1]], 1e-10 * sc * sc):
            return f'reflect does not mirror the normal'
        return None
    return Case(line, 'IF', judge, 'reflect', 'corr-F')


@maker(MAKERS)
def aff_seg(a, kind, vals, t):
    line = f'aff.seg {H(*a)} {kind} {H(*vals)} {H(t)}'
    exact = is_grid(a + vals) and t * 8 == math.floor(t * 8)
    sc = max([1.0] + [abs(x) for x in a]) * max([1.0] + [abs(x) for x in vals]) * 4

    def judge(o):
        i, m = o['I'][0], o['R'][0]
        if engine_error(i, m):
            return f'engine error {i} / {m}'
        if not (cmp_exact(i, m) if exact else cmp_rel(i, m, 1e-13, sc)):
            return f'impl != model@Rat impl={i} model={m}'
        f = floats_of(i)
        if not close(f[-4:-2], f[-2:], 0.0 if exact else 1e-12 * sc):
            return f'(A*s).eval(t) != A*(s.eval(t)): {f[-4:]}'
        return None
    return Case(line, 'IR', judge, 'grid' if exact else 'generic', 'corr-R')


@maker(MAKERS)
def ts_bin(a, b, p):
    line = f'ts.bin {H(*a)} {H(*b)} {H(*p)}'
    exact = is_grid(a + b + p)
    sc = max([1.0] + [abs(x) for x in a + b + p]) ** 2

    def judge(o):
        i, m = o['I'][0], o['R'][0]
        if engine_error(i, m):
            return f'engine error {i} / {m}'
        f = floats_of(i)
        # fields: ts(a*b) 3, a*p 2, affine 6, inverse 3, affine*p 2, from_scale_about 3, add 3, sub 3
        # the inverse involves a division: compare that part to tolerance
        ok = cmp_rel(i, m, 1e-13, sc / max(1e-3, min(1.0, abs(a[2])))) if (not exact or True) else cmp_exact(i, m)
        if a[2] != 0 and not ok:
            return f'impl != model@Rat impl={i} model={m}'
        if not close(f[3:5], f[14:16], 0.0 if exact else 1e-12 * sc):
            return f'TranslateScale * p != Affine::from(ts) * p: {f[3:5]} vs {f[14:16]}'
        return None
    return Case(line, 'IR', judge, 'grid' if exact else 'generic', 'corr-R')


@maker(MAKERS)
def exact_line(line, stratum):
    return case_exact_R(line, stratum)


def generate(rng, tier):
    n = 600 if tier == 'quick' else 30000
    for _ in range(n):
        a, b = gaff(rng), gaff(rng)
        p = [grid(rng), grid(rng)]
        yield aff_bin(a, b, p)
        yield aff_inv(a)
        yield aff_family(a, g8(rng), g8(rng), g8(rng), [g8(rng), g8(rng)], [g8(rng), g8(rng)])
        th = rng.choice([0.0, math.pi / 2, math.pi, -math.pi / 2, rng.uniform(-7, 7), rng.uniform(-7, 7)])
        yield aff_rot(a, th, [g8(rng), g8(rng)])
        d = [g8(rng), g8(rng)]
        if d != [0.0, 0.0]:
            yield aff_reflect([g8(rng), g8(rng)], d)
        kind = rng.choice('LQC')
        vals = [grid(rng) for _ in range({'L': 4, 'Q': 6, 'C': 8}[kind])]
        yield aff_seg(a, kind, vals, rng.randint(0, 8) / 8.0)
        yield aff_seg([generic(rng, 3) for _ in range(6)], kind, [generic(rng) for _ in vals], rng.random())
        ga = [g8(rng) for _ in range(6)]
        yield exact_line(f'aff.rect {H(*ga)} {H(*[g8(rng) for _ in range(4)])}', 'grid')
        yield exact_line(f'aff.els {H(*ga)} M {H(g8(rng), g8(rng))} L {H(g8(rng), g8(rng))} Q {H(*[g8(rng) for _ in range(4)])} C {H(*[g8(rng) for _ in range(6)])} Z', 'grid')
        ta = [g8(rng), g8(rng), rng.choice([1.0, 2.0, 0.5, -1.0, 0.25, 4.0, -0.5, g8(rng)])]
        tb = [g8(rng), g8(rng), rng.choice([1.0, 2.0, 0.5, -1.0, 0.25, 4.0, g8(rng)])]
        yield ts_bin(ta, tb, [g8(rng), g8(rng)])
        tpow = [g8(rng), g8(rng), rng.choice([1.0, 2.0, 0.5, -1.0, 0.25, 4.0, -2.0])]
        yield exact_line(f'ts.shapes {H(*tpow)} {H(*[g8(rng) for _ in range(4 + 4 + 6 + 8)])}', 'grid')
